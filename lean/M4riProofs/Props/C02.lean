/-
  C02 — echelon forms: rank, row space and the unique RREF, identical across algorithms.
  What is PROVED universally: the naive routine (`mzd_gauss_delayed` / `mzd_echelonize_naive`, exact mirror
  `BMat.gaussDelayed`) returns rank(A), preserves the row space, leaves a row echelon form and — with full
  reduction — THE reduced row echelon form (unique within a row space); and the executable certificate
  checker `checkEchelon` is sound. M4RI and the top reduction have exact mirrors with universal theorems (below); the PLUQ-based routine and the
  density-switching hybrid are NOT mirrored step by step: every one of their outputs in the correspondence runs is
  compared with `rref`/`rank` (full) or judged by `checkEchelon` (non-full) — per-input certification by a
  proven-sound checker, labelled as such (`…_partial` below).
  `SameSpan`, `isRowEchelon`, `isRREF`, `rank` are tied to Mathlib's `Submodule.span`, `Matrix.IsRowEchelon`,
  `Matrix.IsReducedRowEchelon`, `Matrix.rank` over `ZMod 2` in M4riProofs/GaussMathlib.lean.
  Added (M4riProofs/PleNaive.lean): the PLUQ-based routine `mzd_echelonize_pluq` is now mirrored on top of a
  factorisation (`PN.echelonizePluq`, M4ri/Glue.lean; tied word for word by the `glue_echelonize` phase of the
  correspondence run, instantiated with the library's own factorisation) and proved: on any `IsPLE` certificate the
  non-full result passes `checkEchelon` (row space, echelon shape, rank); on any profile-PLUQ certificate the full result
  is THE reduced row echelon form (`echelonizePluq_naive_full_eq` for the naive factorisation). A bare `IsPLUQ`
  certificate is NOT enough (`echelonizePluq_generic_full_false`, a kernel-checked counterexample): the pivot columns
  must be the column rank profile, which `check_pluq`'s second output tests per run. Mathlib forms: `ML.rank_mat`,
  `ML.mat_rref`, `ML.mat_isReducedRowEchelon`.
  END TO END (M4riProofs/Top.lean, PB27) — nothing of C02 is per-input certification any more. Every routine on the
  PLUQ route now has an exact mirror with a universal theorem: `_mzd_ple_russian` (`PR.pleRussian`, = `_mzd_ple_naive` on
  every input), `_mzd_ple` = `mzd_ple` (`PR.pleTop L1 L2 L3`: block recursion over the real base case with the real regime
  parameters), `_mzd_pluq` = `mzd_pluq` (`PR.pluqTop L1 L2 L3`), `mzd_echelonize_pluq` (`PN.echelonizePluq`) and the
  density-switching hybrid `mzd_echelonize` = `_mzd_echelonize_m4ri(A, full, k, 1, threshold)` (`G2.echelonizeHybrid`, the
  floating-point density test being an arbitrary parameter `switch`). Proved for EVERY cache triple `L1 L2 L3` (no
  hypothesis on it), every well-formed `A`, every `switch`, every `k ≥ 1`, every `ktop ≥ 1`, every prior content of the
  index arrays:
    `Top.echelonizePluq_pluqTop`        `mzd_echelonize_pluq(A, 1)` returns `(A.rref, A.rank)`
    `Top.echelonizePluq_pleTop`         `mzd_echelonize_pluq(A, 0)` (calls `mzd_ple`): shape, row space, row echelon form, rank,
                                        zero rows last (`…_check`: accepted by `checkEchelon`)
    `Top.echelonizeHybrid_top_correct`  the hybrid over `mzd_echelonize_pluq` over `mzd_pluq`/`mzd_ple`: all of the above for
                                        both values of `full`; `Top.echelonizeHybrid_top_full_eq`: `= (A.rref, A.rank)`
    `Top.all_routes_agree`              naive Gauss, M4RI, PLUQ-based and hybrid all return `(A.rref, A.rank)` when `full`
  What is tied by correspondence only (not by proof) is, as for every model function, that the mirrors are the C code
  (bit-for-bit differential runs), and `switch` stands for the C density test (any value is covered).
  EXECUTABLE TOP LEVEL (M4ri/EchelonTop.lean, M4riProofs/EchelonTop.lean): `ET.echelonizeM4riTop L1 L2 L3 A full k heuristic threshold`
  is the exact mirror of `_mzd_echelonize_m4ri` for EVERY k >= 0 (k = 0: `autoK`, the repaired cache rule, proved >= 1), with the
  real floating-point density test (`_mzd_density` mirrored incl. its sampling quirks) and the real PLUQ-based routine; `ET.echelonize`
  = `mzd_echelonize`, `ET.echelonizeM4ri` = `mzd_echelonize_m4ri`. They are compared BIT FOR BIT with the library on every check
  (also non-reduced outputs) under the cache sizes of the build under test, and the universal theorems are instantiated at them
  (`echelonizeM4riTop_correct`, `…_full_eq`, `all_entry_points_agree`); nothing about `Float` is assumed — correctness holds for
  every switch function (`echelonizeM4riTop_switch_irrelevant`).
-/
import M4riProofs.Gauss
import M4riProofs.GaussMathlib
import M4riProofs.M4riElim
import M4riProofs.PleNaive
import M4riProofs.MathlibSpec
import M4riProofs.Top
import M4riProofs.EchelonTop
import M4riProofs.GenTie
import M4riProofs.GenTieAlg
import M4riProofs.GenTieDuff
import M4riProofs.GenTieEch
import M4riProofs.GenTieTop
import M4riProofs.GenTieEch2
import M4riProofs.GenTieMax
namespace M4ri.Props.C02
open M4ri M4ri.BMat

/-- naive Gauss: row space preserved -/
theorem naive_row_space {A : BMat} (hA : A.WF) (full : Bool) : SameSpan A (gaussDelayed A 0 full).1 :=
  gauss_sameSpan hA full

/-- naive Gauss: the result is a row echelon form (strictly increasing pivots, zero rows last) -/
theorem naive_row_echelon {A : BMat} (hA : A.WF) (full : Bool) : (gaussDelayed A 0 full).1.isRowEchelon = true :=
  gauss_isRowEchelon hA full

/-- naive Gauss with full reduction: reduced row echelon form -/
theorem naive_rref {A : BMat} (hA : A.WF) : (gaussDelayed A 0 true).1.isRREF = true := gauss_isRREF hA

/-- the return value is the rank, whatever `full` -/
theorem naive_rank {A : BMat} (hA : A.WF) (full : Bool) : (gaussDelayed A 0 full).2 = A.rank :=
  gauss_rank_eq_rank hA full

/-- uniqueness of the reduced row echelon form within a row space -/
theorem rref_is_unique {R R' : BMat} (hR : R.WF) (hR' : R'.WF) (hr : R.nrows = R'.nrows) (hc : R.ncols = R'.ncols)
    (h1 : R.isRREF = true) (h2 : R'.isRREF = true) (hs : SameSpan R R') : R = R' :=
  rref_unique hR hR' hr hc h1 h2 hs

/-- any row echelon form spanning the row space of A has exactly rank(A) non-zero rows -/
theorem echelon_form_reveals_rank {A R : BMat} (hA : A.WF) (hR : R.WF) (h : R.isRowEchelon = true) (hs : SameSpan A R) :
    R.rowList.countP (fun v => v != 0) = A.rank := count_eq_rank_of_isRowEchelon hA hR h hs

/-- soundness of the certificate checker with which the outputs of M4RI / PLUQ-based / hybrid / top-reduction
    runs are judged (this is what makes the per-input certification meaningful) -/
theorem checker_sound_partial {A R : BMat} (hA : A.WF) (hR : R.WF) (r : Nat) (full : Bool)
    (h : checkEchelon A R r full = true) :
    R.nrows = A.nrows ∧ R.ncols = A.ncols ∧ r = A.rank ∧ SameSpan A R ∧ R.isRowEchelon = true ∧
    R.rowList.countP (fun v => v != 0) = r ∧ (∀ i, r ≤ i → R.row i = 0) ∧
    (full = true → R.isRREF = true ∧ R = A.rref ∧
      ∀ R' : BMat, R'.WF → R'.nrows = A.nrows → R'.ncols = A.ncols → R'.isRREF = true → SameSpan A R' → R' = R) :=
  checkEchelon_sound hA hR r full h

/-- the same in Mathlib's vocabulary -/
theorem checker_sound_mathlib_partial {A R : BMat} (hA : A.WF) (hR : R.WF) (r : Nat) (full : Bool)
    (h : checkEchelon A R r full = true) :
    (toMatrix A.ncols A).rank = r ∧ rowSpace A.ncols A = rowSpace A.ncols R ∧
    (toMatrix R.ncols R).IsRowEchelon ∧ (full = true → (toMatrix R.ncols R).IsReducedRowEchelon) :=
  checkEchelon_sound_mathlib hA hR r full h

/-- the checker is not vacuous: it accepts the naive routine's own output -/
theorem checker_accepts_naive {A : BMat} (hA : A.WF) (full : Bool) :
    checkEchelon A (gaussDelayed A 0 full).1 (gaussDelayed A 0 full).2 full = true := checkEchelon_gauss hA full

/-- **M4RI** (`_mzd_echelonize_m4ri`, exact step-by-step mirror `M4RI.echelonizeM4ri`, compared bit-for-bit with the C
    library incl. its non-reduced outputs): for every well-formed A, EVERY table parameter k ≥ 1, every heap junk,
    both values of `full`: row space preserved, row echelon form, returned value = rank(A), zero rows last, and with
    full reduction exactly the unique RREF. -/
theorem m4ri_correct {A : BMat} (hA : A.WF) (full : Bool) {k : Nat} (hk : 1 ≤ k) (junk : Nat → Nat) :
    (M4RI.echelonizeM4ri A full k junk).1.WF ∧ (M4RI.echelonizeM4ri A full k junk).1.nrows = A.nrows ∧
    (M4RI.echelonizeM4ri A full k junk).1.ncols = A.ncols ∧ SameSpan A (M4RI.echelonizeM4ri A full k junk).1 ∧
    (M4RI.echelonizeM4ri A full k junk).1.isRowEchelon = true ∧ (M4RI.echelonizeM4ri A full k junk).2 = A.rank ∧
    (∀ i, (M4RI.echelonizeM4ri A full k junk).2 ≤ i → (M4RI.echelonizeM4ri A full k junk).1.row i = 0) ∧
    (full = true → (M4RI.echelonizeM4ri A full k junk).1 = A.rref) ∧
    checkEchelon A (M4RI.echelonizeM4ri A full k junk).1 (M4RI.echelonizeM4ri A full k junk).2 full = true :=
  M4RI.echelonizeM4ri_correct hA full hk junk

/-- completing a row echelon form with the top-reduction routine gives the same RREF -/
theorem top_reduction_of_echelon_form {A : BMat} (hA : A.WF) (hE : A.isRowEchelon = true) {k : Nat} (hk : 1 ≤ k)
    (junk : Nat → Nat) :
    (M4RI.topEchelonizeM4ri A k 0 0 A.nrows junk).1 = A.rref ∧ (M4RI.topEchelonizeM4ri A k 0 0 A.nrows junk).2 = A.rank :=
  M4RI.topEchelonizeM4ri_of_isRowEchelon hA hE hk junk

theorem m4ri_then_top_reduction {A : BMat} (hA : A.WF) {k k' : Nat} (hk : 1 ≤ k) (hk' : 1 ≤ k') (junk junk' : Nat → Nat) :
    (M4RI.topEchelonizeM4ri (M4RI.echelonizeM4ri A false k junk).1 k' 0 0 A.nrows junk').1 = A.rref ∧
    (M4RI.topEchelonizeM4ri (M4RI.echelonizeM4ri A false k junk).1 k' 0 0 A.nrows junk').2 = A.rank :=
  M4RI.topEchelonizeM4ri_echelonizeM4ri hA hk hk' junk junk'

/-- all algorithms agree when `full`: both mirrors return THE RREF -/
theorem naive_and_m4ri_agree {A : BMat} (hA : A.WF) {k : Nat} (hk : 1 ≤ k) (junk : Nat → Nat) :
    (M4RI.echelonizeM4ri A true k junk).1 = (gaussDelayed A 0 true).1 :=
  (M4RI.echelonizeM4ri_correct hA true hk junk).2.2.2.2.2.2.2.1 rfl

/-- full statement that is NOT proved for the Four-Russians / PLUQ-based routines (no step-by-step model):
    for an exact mirror `ech` of such a routine, `checkEchelon A (ech A full).1 (ech A full).2 full = true`. -/
def C02_full (ech : BMat → Bool → BMat × Nat) : Prop :=
  ∀ A : BMat, A.WF → ∀ full, checkEchelon A (ech A full).1 (ech A full).2 full = true

example : C02_full (fun A full => gaussDelayed A 0 full) := fun _ hA full => checkEchelon_gauss hA full

#check @M4ri.BMat.PN.echelonizePluq_ple
#check @M4ri.BMat.PN.echelonizePluq_pluq
#check @M4ri.BMat.PN.echelonizePluq_naive_full
#check @M4ri.BMat.PN.echelonizePluq_naive_ple
#check @M4ri.BMat.PN.echelonizePluq_naive_full_eq
#check @M4ri.BMat.PN.echelonizePluq_generic_full_false
#check @M4ri.BMat.PN.pluqNaive_profile
#check @M4ri.BMat.PN.checkEchelon_complete
#check @M4ri.BMat.ML.rank_mat
#check @M4ri.BMat.ML.rank_mat_gauss
#check @M4ri.BMat.ML.rank_of_rankCert
#check @M4ri.BMat.ML.rankCert_iff_rank
#check @M4ri.BMat.ML.sameSpan_iff_span_rows
#check @M4ri.BMat.ML.mat_isRowEchelon
#check @M4ri.BMat.ML.mat_isReducedRowEchelon
#check @M4ri.BMat.ML.mat_rref


-- end to end for the real routine stack (M4riProofs/Top.lean), every cache triple, every well-formed input
/-- `mzd_echelonize_pluq(A, 1)` over the real `mzd_pluq` -/
theorem pluq_route_full (L1 L2 L3 : Nat) {A : BMat} (hA : A.WF) :
    PN.echelonizePluq (PR.pluqTop L1 L2 L3) A true = (A.rref, A.rank) := Top.echelonizePluq_pluqTop L1 L2 L3 hA

/-- `mzd_echelonize(A, 1)` (hybrid M4RI / PLUQ, every density decision) over the real stack -/
theorem hybrid_route_full (L1 L2 L3 : Nat) (switch : Nat → Nat → BMat → Bool) {A : BMat} (hA : A.WF) {k : Nat}
    (hk : 1 ≤ k) (ktop : Nat → Nat) (hkt : ∀ r, 1 ≤ ktop r) (junk junkTop : Nat → Nat) :
    G2.echelonizeHybrid switch
      (fun W full => PN.echelonizePluq (if full then PR.pluqTop L1 L2 L3 else PR.pleTop L1 L2 L3) W full)
      A true k ktop junk junkTop = (A.rref, A.rank) :=
  Top.echelonizeHybrid_top_full_eq L1 L2 L3 switch ktop junk junkTop hA hk hkt

/-- the statement `C02_full` above, now PROVED for the mirror of `mzd_echelonize_pluq` over the real factorisations … -/
theorem C02_full_pluq (L1 L2 L3 : Nat) : C02_full (Top.pluqEchTop L1 L2 L3) :=
  fun A hA full => (Top.goodPluqEch_top L1 L2 L3 A full hA).2

/-- … and for the hybrid `mzd_echelonize` on top of it, whatever the density test decides -/
theorem C02_full_hybrid (L1 L2 L3 : Nat) (switch : Nat → Nat → BMat → Bool) {k : Nat} (hk : 1 ≤ k) :
    C02_full (fun A full => G2.echelonizeHybrid switch (Top.pluqEchTop L1 L2 L3) A full k) :=
  fun _ hA full =>
    (G2.echelonizeHybrid_correct switch (Top.goodPluqEch_top L1 L2 L3) hA full hk _ (fun _ => hk) _ _).2.2.2.2.2.2.2.2

#check @M4ri.BMat.Top.goodPle_pleTop
#check @M4ri.BMat.Top.pluqTop_eq
#check @M4ri.BMat.Top.echelonizePluq_pluqTop
#check @M4ri.BMat.Top.echelonizePluq_pleTop_check
#check @M4ri.BMat.Top.echelonizePluq_pleTop
#check @M4ri.BMat.Top.goodPluqEch_top
#check @M4ri.BMat.Top.echelonizeHybrid_top_correct
#check @M4ri.BMat.Top.echelonizeHybrid_top_full_eq
#check @M4ri.BMat.Top.all_routes_agree
#check @M4ri.BMat.PR.pleRussian_eq_pleNaive
#check @M4ri.BMat.G2.echelonizeHybrid_correct
#check @M4ri.BMat.G2.echelonizeHybrid_full_eq
#check @M4ri.BMat.G2.echelonizePluq_full_eq
#check @M4ri.BMat.G2.goodPluqEch_of_goodPle

#check @M4ri.BMat.ET.echelonizeWith_correct
#check @M4ri.BMat.ET.echelonizeM4riTop_correct
#check @M4ri.BMat.ET.echelonizeM4riTop_full_eq
#check @M4ri.BMat.ET.echelonizeM4riTop_switch_irrelevant
#check @M4ri.BMat.ET.echelonize_correct
#check @M4ri.BMat.ET.echelonize_full_eq
#check @M4ri.BMat.ET.echelonizeM4ri_correct
#check @M4ri.BMat.ET.echelonizeM4ri_full_eq
#check @M4ri.BMat.ET.echelonizeM4ri_eq_top
#check @M4ri.BMat.ET.all_entry_points_agree
#check @M4ri.BMat.ET.one_le_autoK
#check @M4ri.BMat.ET.autoK_le_seven
#check @M4ri.BMat.ET.one_le_autoKTop
#check @M4ri.BMat.ET.autoK_unrepaired_zero


/-! ### tie to the C text: the functions below are GENERATED from /repo/m4ri by vlib/ctrans.py (clang AST) on every
    check (M4ri/Gen/CFuns.lean); these theorems prove them equal to the hand-written model definitions the theorems
    above are about, for all arguments of the C domain -/
#check @M4ri.GenTie.echelonizeSplit6_eq
#check @M4ri.GenTie.echelonizeSplit5_eq
#check @M4ri.GenTie.echelonizeSplit4_eq
#check @M4ri.GenTie.echelonizeSplit3_eq
#check @M4ri.GenTie.echelonizeSplit2_eq
#check @M4ri.GenTie.topEchelonizeSplit6_eq
#check @M4ri.GenTie.topEchelonizeSplit5_eq
#check @M4ri.GenTie.topEchelonizeSplit4_eq
#check @M4ri.GenTie.topEchelonizeSplit3_eq
#check @M4ri.GenTie.topEchelonizeSplit2_eq
#check @M4ri.GenTie.processRows6Split_eq
#check @M4ri.GenTie.processRows5Split_eq
#check @M4ri.GenTie.processRows4Split_eq
#check @M4ri.GenTie.processRows3Split_eq
#check @M4ri.GenTie.processRows2Split_eq
#check @M4ri.GenTie.optK_eq


/-! ### END TO END ON THE C TEXT of `mzd_gauss_delayed` (= `mzd_echelonize_naive`): the function
    `Gen.C.mzdGaussDelayed` is generated from /repo/m4ri/mzd.c on every check (three nested loops, calls of the generated
    `mzd_read_bit`, `mzd_row_swap`, `mzd_row_add_offset`); `GenTieAlg.mzdGaussDelayed_eq` proves it equal to the model
    `gaussDelayed` through the memory image, so the theorems above hold for the translated code itself. -/
#check @M4ri.GenTieAlg.mzdGaussDelayed_eq
#check @M4ri.GenTieAlg.mzdGaussDelayed_spec
#check @M4ri.GenTieAlg.mzdFindPivot_eq

/-- the translated C code of `mzd_echelonize_naive(M, full)` run on the memory image of a well-formed matrix with zero
    padding returns rank(M) and leaves the memory image of an echelon form with the same row space; with `full` THE RREF -/
theorem c_text_naive_gauss (M : Mzd) (full : Bool) (hwf : M.WF) (hp : M.padZero) (hB : M.toB.WF) :
    let res := Gen.C.mzdGaussDelayed 0 (if full then 1 else 0) (GenTieMem.memOf M) M.ncols M.nrows M.width M.hb
    res.1 = (M.toB.rank : Int) ∧
    res.2 = GenTieMem.memOf (Mzd.ofB (gaussDelayed M.toB 0 full).1) ∧
    SameSpan M.toB (gaussDelayed M.toB 0 full).1 ∧ (gaussDelayed M.toB 0 full).1.isRowEchelon = true ∧
    (full = true → (gaussDelayed M.toB 0 full).1.isRREF = true) := by
  have h := GenTieAlg.mzdGaussDelayed_eq_ofB M 0 full hwf hp
  intro res
  have hres : res = (((gaussDelayed M.toB 0 full).2 : Int), GenTieMem.memOf (Mzd.ofB (gaussDelayed M.toB 0 full).1)) := h
  refine ⟨?_, ?_, naive_row_space hB full, naive_row_echelon hB full, ?_⟩
  · rw [hres, naive_rank hB full]
  · rw [hres]
  · intro hf; subst hf; exact naive_rref hB


/-! ### tie to the C text: kernels with Duff devices (generated by vlib/ctrans.py on every check, proved equal to the model in
    GenTieDuff.lean; `duff_eq`: first pass from the entry label + complete passes = `wide` single steps) -/
#check @M4ri.GenTieDuff.mzdProcessRows_eq_contract


/-! ### tie to the C text: the COMPLETE C function `mzd_echelonize_pluq` (both values of `full`; the three `r mod 64` cases of the back
    substitution through windows and word-column copies, `U := I`, column permutation; `full = 0`: L cleared, pivots written; rows below
    the rank zeroed) is generated by vlib/ctrans.py on every check; with PLUQ/PLE, the triangular solve, copies and the column permutation
    instantiated by the model it equals the model `echelonizePluq` (GenTieEch.lean; only the SHAPES of the factorisation are used) -/
#check @M4ri.GenTieEch.echelonizePluq_eq
#check @M4ri.GenTieEch.echelonizePluq_full_eq
#check @M4ri.GenTieEch.echelonizePluq_ple_eq
#check @M4ri.GenTieEch.solveCol
#check @M4ri.GenTieEch.mzdSetUi_one_eq

end M4ri.Props.C02

/-! ### END TO END ON THE C TEXT (GenTieTop.lean): the generated `mzd_echelonize_pluq` over the whole generated `_mzd_pluq` / `_mzd_ple` closed at any
    depth returns `rank A`; with `full = 1` the memory afterwards is the RREF of `A`, with `full = 0` a row-echelon form with the same row space -/
#check @M4ri.GenTieTop.c_echelonize_pluq
#check @M4ri.GenTieTop.c_echelonize_ple
#check @M4ri.GenTieTop.c_echelonize_pluq_russian
#check @M4ri.GenTieTop.echelonizePluq_congr

/-! ### `mzd_echelonize_pluq` OVER THE CLOSED GENERATED `_mzd_trsm_upper_left` (GenTieEch2.lean): in all three `r mod 64` cases (window; local copies through
    `mzd_submatrix`) and for both values of `full` the generated function with the triangular solve bound to the closed generated recursion (any depth)
    returns what it returns with the lifted substitution form — hence rank A and the RREF, end to end (`c_echelonize_pluq_closed`);
    GenTieMax.lean: the same over `cPluqMax` (see C03) -/
#check @M4ri.GenTieEch2.echelonizePluq_closed
#check @M4ri.GenTieEch2.c_echelonize_pluq_closed
#check @M4ri.GenTieMax.c_echelonize_pluq_max
