/-
  C14 — allocation history. `M4ri.Alloc` is an executable mirror of mmc.c (block cache) and of the header cache of
  mzd.c with the capacities as parameters; the correspondence run compares its allocation trace (which system
  block / header slot every new matrix receives, what is released when) with the real library, exhaustively for
  short sequences under shrunken capacities and on long random histories with the real ones.
  All theorems hold for EVERY operation sequence, every capacity `n > 0`, `cacheMax`, threshold.
-/
import M4riProofs.Alloc
namespace M4ri.Props.C14
open M4ri.Alloc

/-- the well-formedness invariant holds in every reachable state -/
theorem invariant_reachable (n cm thr : Nat) (hn : 0 < n) (ops : List AOp) :
    Inv n (run n cm thr (State.initial n) ops) := reachable_Inv n cm thr hn ops

/-- a newly created matrix is zeroed whatever block it received (fresh or recycled) -/
theorem fresh_is_zero (n cm thr : Nat) (s : State) (r c : Nat) :
    ∃ m, (step n cm thr s (.init r c)).2 = .init m ∧ LiveMat (step n cm thr s (.init r c)).1 s.mats.length m ∧
      m.windowed = false ∧ m.zeroed = true := fresh_zero n cm thr s r c

/-- no system block is ever released twice, over any history -/
theorem never_double_free (n cm thr : Nat) (hn : 0 < n) (ops : List AOp) :
    (freedTrace n cm thr (State.initial n) ops).Nodup := no_double_free n cm thr hn ops

/-- once everything has been freed (any order, repeats allowed) and the cache emptied, nothing is retained -/
theorem balanced (n cm thr : Nat) (hn : 0 < n) (ops : List AOp) (fs : List Nat)
    (hfs : ∀ h, h < (reach n cm thr ops).mats.length → h ∈ fs) :
    (reach n cm thr (ops ++ fs.map .free ++ [.cleanup])).live = [] := balanced_run n cm thr hn ops fs hfs

#check @M4ri.Alloc.fresh_disjoint
#check @M4ri.Alloc.fresh_block
#check @M4ri.Alloc.free_safe
#check @M4ri.Alloc.window_no_free
#check @M4ri.Alloc.no_double_free_step
#check @M4ri.Alloc.step_Inv
#check @M4ri.Alloc.freeEntry_spec

end M4ri.Props.C14
