/-
  C05 — inversion. `triInv U` (= `trsmUpperRight U I`) is proved to be the two-sided inverse of the unit upper
  triangular matrix read from `U`, again unit upper triangular, and unique. `inverseSpec A` (right half of the RREF
  of `[A | I]`, the value with which `mzd_inv_m4ri` / `mzd_invert_naive` results are compared for every `k`) is proved
  to be the inverse of every invertible `A` — relative to the Gauss facts `RowEquiv`/`isRREF` (discharged in
  M4riProofs/GaussOK.lean when present).
  In Mathlib's terms (`ML`): `inverseSpec A` and `invertNaive A I` are Mathlib's `(mat A)⁻¹` whenever `det` is a unit.
  END TO END (M4riProofs/TrsmBase.lean, M4riProofs/Glue2.lean, collected in M4riProofs/Top.lean, PB27) — both inversion
  routines are mirrored step by step and proved, nothing is per-input certification:
    `Top.trtri_upper` / `Top.trtri_full` (= `TB.trtriFull_eq`)   the complete `mzd_trtri_upper` (Four-Russians base case
        `mzd_trtri_upper_russian` with its automatic `k`, recursion through `_mzd_trsm_upper_left` / `_mzd_trsm_upper_right`)
        replaces a well-formed square upper triangular matrix with ones on the diagonal by `triInv U`, for every fuel, every
        prior content of the index arrays and the build parameters `Top.paramsOf L1 L2 L3 sse2` of every cache triple with
        `15 ≤ L3` (every admissible one, `Top.Admissible.l3`); `Top.trtri_upper_spec`: two-sided inverse, unit upper
        triangular, Mathlib's `(mat U)⁻¹`.  The diagonal hypothesis is needed (`TB.trtriRussian_reads_diagonal`).
    `Top.inv_m4ri` (= `G2.invM4ri_spec`)   `mzd_inv_m4ri` (`G2.invM4ri`: `mzd_echelonize_m4ri` on `[A | 0 | I | 0]`, every
        `k ≥ 1`) returns the inverse of every invertible well-formed square `A` (= `inverseSpec A`, two-sided);
        `Top.inv_m4ri_mathlib`: Mathlib's `(mat A)⁻¹`; `Top.inv_m4ri_any`: on ANY square `A` an invertible `T` with
        `T·A = rref A` (the C routine has no failure indication).
  EXECUTABLE TOP LEVEL: `ET.invM4riTop L3 A` is the exact mirror of `mzd_inv_m4ri` (which passes k = 0: automatic k), compared bit
  for bit with the library on every check and proved to return the inverse of every invertible A (`ET.invM4riTop_spec`, Mathlib form
  `ET.invM4riTop_mathlib`); for a singular A it returns an invertible T with T*A = rref A (`ET.invM4riTop_any`).
-/
import M4riProofs.Trsm
import M4riProofs.GaussOK
import M4riProofs.MathlibSpec
import M4riProofs.Top
import M4riProofs.EchelonTop
import M4riProofs.GenTie
import M4riProofs.GenTieGlue
import M4riProofs.GenTieKer
import M4riProofs.GenTieClose2
namespace M4ri.Props.C05
open M4ri M4ri.BMat

theorem tri_inverse_left (U : BMat) (hsq : U.ncols = U.nrows) : (triInv U).mul (unitUpper U) = identity U.nrows :=
  triInv_mul U hsq
theorem tri_inverse_right (U : BMat) (hsq : U.ncols = U.nrows) : (unitUpper U).mul (triInv U) = identity U.nrows :=
  mul_triInv U hsq
theorem tri_inverse_is_unit_upper (U : BMat) : unitUpper (triInv U) = triInv U := unitUpper_triInv U

theorem inverse_spec_partial {A Binv : BMat} (hA : A.WF) (hsq : A.ncols = A.nrows) (hB : Binv.WF)
    (hBr : Binv.nrows = A.nrows) (hBc : Binv.ncols = A.nrows) (hAB : A.mul Binv = identity A.nrows)
    (hrow : RowEquiv (A.concat (identity A.nrows)) (A.concat (identity A.nrows)).rref)
    (hrref : (A.concat (identity A.nrows)).rref.isRREF = true) :
    inverseSpec A = Binv ∧ (inverseSpec A).mul A = identity A.nrows ∧ A.mul (inverseSpec A) = identity A.nrows :=
  inverseSpec_spec hA hsq hB hBr hBc hAB hrow hrref

/-- Four-Russians / naive inversion are compared with `inverseSpec A`: it IS the inverse of every invertible `A` -/
theorem inverse_of_invertible {A Binv : BMat} (hA : A.WF) (hsq : A.ncols = A.nrows) (hB : Binv.WF)
    (hBr : Binv.nrows = A.nrows) (hBc : Binv.ncols = A.nrows) (hAB : A.mul Binv = identity A.nrows) :
    inverseSpec A = Binv ∧ (inverseSpec A).mul A = identity A.nrows ∧ A.mul (inverseSpec A) = identity A.nrows :=
  GOK.inverse_spec hA hsq hB hBr hBc hAB

/-- the naive routine (exact mirror), given an identity matrix, returns the same inverse -/
theorem invert_naive {A Ainv : BMat} (hA : A.WF) (hsq : A.ncols = A.nrows) (hn : 1 ≤ A.nrows) (hB : Ainv.WF)
    (hBr : Ainv.nrows = A.nrows) (hBc : Ainv.ncols = A.nrows) (hAB : A.mul Ainv = identity A.nrows) :
    invertNaive A (identity A.nrows) = some Ainv ∧ Ainv.mul A = identity A.nrows :=
  GOK.invert_naive_spec hA hsq hn hB hBr hBc hAB

/-- in-place inversion of a unit upper-triangular matrix: the value it is compared with is `triInv` -/
theorem tri_inverse_value {U : BMat} (hU : U.WF) (hsq : U.ncols = U.nrows) (hut : unitUpper U = U) :
    inverseSpec U = triInv U ∧ unitUpper (inverseSpec U) = inverseSpec U ∧
    (inverseSpec U).mul U = identity U.nrows ∧ U.mul (inverseSpec U) = identity U.nrows :=
  GOK.inverse_unit_upper hU hsq hut

#check @M4ri.BMat.triInv_unique_left
#check @M4ri.BMat.triInv_unique_right
#check @M4ri.BMat.inverseSpec_unitUpper
#check @M4ri.BMat.invertNaive_identity

#check @M4ri.BMat.ML.mat_triInv
#check @M4ri.BMat.ML.mat_inverseSpec
#check @M4ri.BMat.ML.mat_invertNaive
#check @M4ri.BMat.ML.isUnit_det_iff
#check @M4ri.BMat.ML.isUnit_det_iff_ne_zero
#check @M4ri.BMat.ML.mat_triInv_isUpperTriangular


-- the complete C routines (M4riProofs/Top.lean re-exports of M4riProofs/TrsmBase.lean and M4riProofs/Glue2.lean)
#check @M4ri.BMat.Top.trtri_upper
#check @M4ri.BMat.Top.trtri_full
#check @M4ri.BMat.Top.trtri_upper_spec
#check @M4ri.BMat.Top.trtri_upper_adm
#check @M4ri.BMat.Top.inv_m4ri
#check @M4ri.BMat.Top.inv_m4ri_mathlib
#check @M4ri.BMat.Top.inv_m4ri_any
#check @M4ri.BMat.Top.Admissible.l3
#check @M4ri.BMat.TB.trtriFull_eq
#check @M4ri.BMat.TB.trtriFull_spec
#check @M4ri.BMat.TB.trtriUpperC_eq
#check @M4ri.BMat.TB.trtriRussian_eq
#check @M4ri.BMat.TB.trtriRussian_reads_diagonal
#check @M4ri.BMat.G2.invM4ri_spec
#check @M4ri.BMat.G2.invM4ri_eq_rref
#check @M4ri.BMat.G2.invM4ri_mul_eq_rref

#check @M4ri.BMat.ET.invM4riTop_spec
#check @M4ri.BMat.ET.invM4riTop_mathlib
#check @M4ri.BMat.ET.invM4riTop_any


/-! ### tie to the C text: the functions below are GENERATED from /repo/m4ri by vlib/ctrans.py (clang AST) on every
    check (M4ri/Gen/CFuns.lean); these theorems prove them equal to the hand-written model definitions the theorems
    above are about, for all arguments of the C domain -/
#check @M4ri.GenTie.echelonizeSplit6_eq
#check @M4ri.GenTie.echelonizeSplit5_eq
#check @M4ri.GenTie.echelonizeSplit4_eq
#check @M4ri.GenTie.echelonizeSplit3_eq
#check @M4ri.GenTie.echelonizeSplit2_eq
#check @M4ri.GenTie.processRows6Split_eq
#check @M4ri.GenTie.processRows5Split_eq
#check @M4ri.GenTie.processRows4Split_eq
#check @M4ri.GenTie.processRows3Split_eq
#check @M4ri.GenTie.processRows2Split_eq


/-! ### tie to the C text: `mzd_trtri_upper` (64-bit regime test, SSE2 split, three windows, the two translated TRSM routines, two recursive
    calls), `_mzd_pluq` and `_mzd_solve_left` are generated by vlib/ctrans.py on every check and proved equal to the model (GenTieGlue.lean) -/
#check @M4ri.GenTieGlue.trtriUpperRec_step
#check @M4ri.GenTieGlue.trtriSplit_lt
#check @M4ri.GenTieGlue.trtriRec_succ_of_regime
#check @M4ri.GenTieGlue.regime_overflow


/-! ### tie to the C text: the COMPLETE C function `mzd_inv_m4ri` for a supplied destination: the work matrix it builds is exactly `invInput`, the
    elimination gets full = 1 and the LITERAL k = 0 (the function ignores its own k), the right block is copied out; with the model M4RI
    elimination it equals the model `invM4ri` (GenTieKer.lean) -/
#check @M4ri.GenTieKer.invM4ri_eq
#check @M4ri.GenTieKer.invM4ri_entries
#check @M4ri.GenTieKer.invM4ri_model_eq
#check @M4ri.GenTieKer.mzdCopy_eq


/-! ### THE RECURSION CLOSED on the C text (GenTieClose2.lean): `cTrtri n` = the generated `mzd_trtri_upper` bound to itself `n` levels deep with the
    closed TRSM recursions as its callees: for every depth it stores the two-sided inverse of the unit upper triangular matrix -/
#check @M4ri.GenTieClose2.cTrtri_correct
#check @M4ri.GenTieClose2.cTrtri_inv
#check @M4ri.GenTieClose2.cTrtri_spec
#check @M4ri.GenTieClose2.cTrtri_window

end M4ri.Props.C05
