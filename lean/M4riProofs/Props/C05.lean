/-
  C05 — inversion. `triInv U` (= `trsmUpperRight U I`) is proved to be the two-sided inverse of the unit upper
  triangular matrix read from `U`, again unit upper triangular, and unique. `inverseSpec A` (right half of the RREF
  of `[A | I]`, the value with which `mzd_inv_m4ri` / `mzd_invert_naive` results are compared for every `k`) is proved
  to be the inverse of every invertible `A` — relative to the Gauss facts `RowEquiv`/`isRREF` (discharged in
  M4riProofs/GaussOK.lean when present).
  In Mathlib's terms (`ML`): `inverseSpec A` and `invertNaive A I` are Mathlib's `(mat A)⁻¹` whenever `det` is a unit.
-/
import M4riProofs.Trsm
import M4riProofs.GaussOK
import M4riProofs.MathlibSpec
namespace M4ri.Props.C05
open M4ri M4ri.BMat

theorem tri_inverse_left (U : BMat) (hsq : U.ncols = U.nrows) : (triInv U).mul (unitUpper U) = identity U.nrows :=
  triInv_mul U hsq
theorem tri_inverse_right (U : BMat) (hsq : U.ncols = U.nrows) : (unitUpper U).mul (triInv U) = identity U.nrows :=
  mul_triInv U hsq
theorem tri_inverse_is_unit_upper (U : BMat) : unitUpper (triInv U) = triInv U := unitUpper_triInv U

theorem inverse_spec_partial {A Binv : BMat} (hA : A.WF) (hsq : A.ncols = A.nrows) (hB : Binv.WF)
    (hBr : Binv.nrows = A.nrows) (hBc : Binv.ncols = A.nrows) (hAB : A.mul Binv = identity A.nrows)
    (hrow : RowEquiv (A.concat (identity A.nrows)) (A.concat (identity A.nrows)).rref)
    (hrref : (A.concat (identity A.nrows)).rref.isRREF = true) :
    inverseSpec A = Binv ∧ (inverseSpec A).mul A = identity A.nrows ∧ A.mul (inverseSpec A) = identity A.nrows :=
  inverseSpec_spec hA hsq hB hBr hBc hAB hrow hrref

/-- Four-Russians / naive inversion are compared with `inverseSpec A`: it IS the inverse of every invertible `A` -/
theorem inverse_of_invertible {A Binv : BMat} (hA : A.WF) (hsq : A.ncols = A.nrows) (hB : Binv.WF)
    (hBr : Binv.nrows = A.nrows) (hBc : Binv.ncols = A.nrows) (hAB : A.mul Binv = identity A.nrows) :
    inverseSpec A = Binv ∧ (inverseSpec A).mul A = identity A.nrows ∧ A.mul (inverseSpec A) = identity A.nrows :=
  GOK.inverse_spec hA hsq hB hBr hBc hAB

/-- the naive routine (exact mirror), given an identity matrix, returns the same inverse -/
theorem invert_naive {A Ainv : BMat} (hA : A.WF) (hsq : A.ncols = A.nrows) (hn : 1 ≤ A.nrows) (hB : Ainv.WF)
    (hBr : Ainv.nrows = A.nrows) (hBc : Ainv.ncols = A.nrows) (hAB : A.mul Ainv = identity A.nrows) :
    invertNaive A (identity A.nrows) = some Ainv ∧ Ainv.mul A = identity A.nrows :=
  GOK.invert_naive_spec hA hsq hn hB hBr hBc hAB

/-- in-place inversion of a unit upper-triangular matrix: the value it is compared with is `triInv` -/
theorem tri_inverse_value {U : BMat} (hU : U.WF) (hsq : U.ncols = U.nrows) (hut : unitUpper U = U) :
    inverseSpec U = triInv U ∧ unitUpper (inverseSpec U) = inverseSpec U ∧
    (inverseSpec U).mul U = identity U.nrows ∧ U.mul (inverseSpec U) = identity U.nrows :=
  GOK.inverse_unit_upper hU hsq hut

#check @M4ri.BMat.triInv_unique_left
#check @M4ri.BMat.triInv_unique_right
#check @M4ri.BMat.inverseSpec_unitUpper
#check @M4ri.BMat.invertNaive_identity

#check @M4ri.BMat.ML.mat_triInv
#check @M4ri.BMat.ML.mat_inverseSpec
#check @M4ri.BMat.ML.mat_invertNaive
#check @M4ri.BMat.ML.isUnit_det_iff
#check @M4ri.BMat.ML.isUnit_det_iff_ne_zero
#check @M4ri.BMat.ML.mat_triInv_isUpperTriangular

end M4ri.Props.C05
