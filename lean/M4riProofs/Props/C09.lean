/-
  C09 — views. A view (`Mzd`) carries the excess bits of its last word as part of its value. Every W-level writer is
  proved to (a) compute its entries from the ENTRIES of its operands only and (b) leave the excess bits unchanged —
  these are the `else …bit i j` branches of the `_bit` theorems of C08/C13, listed below. For the R/B-level
  algorithms the model writes results through the lens `putB`, for which the frame law is proved (`bit_putB`); that the
  C code of those algorithms really leaves the parent alone is established by the correspondence run only: every
  operand position is a window (all row/word offsets, parent wider or not, random surroundings) and EVERY bit of
  every parent allocation is compared before/after.
  Added (M4riProofs/MulW.lean): for the Four-Russians tables and products the frame law is now a THEOREM about the
  word-level mirrors, not only a measurement: `processRowsW_frame` / `processRowsW_spec` (excess bits of every row
  unchanged, columns below `startcol` in the home word untouched), `m4rmW_bit`, `mulNaiveTW_spec`, `mulVaW_spec`
  (result = `C.putB …`: entries from entries, excess bits of C kept, for A, B, C views with arbitrary excess bits).
-/
import M4riProofs.W.RowCol
import M4riProofs.W.Perm
import M4riProofs.W.DataMove
import M4riProofs.W.Observers
import M4riProofs.Bridge
import M4riProofs.MulW
import M4riProofs.Props.C01x
import M4riProofs.GenTieMem
namespace M4ri.Props.C09
open M4ri M4ri.Mzd

/-- the abstract value of a view ignores the excess bits … -/
theorem value_ignores_excess (M : Mzd) (i j : Nat) : (M.toB).get i j = (decide (j < M.ncols) && M.bit i j) :=
  get_toB' M i j

/-- … and writing a value through the lens keeps them (frame law of every R/B-level result) -/
theorem lens_put_keeps_excess (M : Mzd) (B : BMat) (h : M.WF) (i j : Nat) (hi : i < M.nrows) (hj : j < 64 * M.width) :
    (M.putB B).bit i j = if j < M.ncols then B.get i j else M.bit i j := bit_putB M B h i j hi hj

#check @M4ri.Mzd.putB_toB
#check @M4ri.Mzd.toB_putB
#check @M4ri.Mzd.rowSwapFrom_bit
#check @M4ri.Mzd.colSwapInRows_bit
#check @M4ri.Mzd.rowAddOffset_bit
#check @M4ri.Mzd.rowClearOffset_bit
#check @M4ri.Mzd.xorBits_bit
#check @M4ri.Mzd.clearBits_bit
#check @M4ri.Mzd.writeBit_bit
#check @M4ri.Mzd.applyPLeft_bit
#check @M4ri.Mzd.applyPRightEven_bit
#check @M4ri.Mzd.applyPRightTransTri_bit
#check @M4ri.Mzd.addInto_bit
#check @M4ri.Mzd.copyInto_bit
#check @M4ri.Mzd.copyRow_bit_of_pos
#check @M4ri.Mzd.setUi_bit
#check @M4ri.Mzd.submatrixInto_bit
#check @M4ri.Mzd.concatInto_bit
#check @M4ri.Mzd.stackInto_bit
#check @M4ri.Mzd.extractUInto_bit
#check @M4ri.Mzd.extractLInto_bit
#check @M4ri.Mzd.addInto_congr
#check @M4ri.Mzd.stackInto_congr
#check @M4ri.Mzd.concatInto_congr
#check @M4ri.Mzd.isZero_iff
#check @M4ri.Mzd.equal_iff
#check @M4ri.Mzd.findPivot_eq_none_iff
#check @M4ri.Mzd.firstZeroRow_eq_iff

#check @M4ri.Mzd.W.processRowsW_frame
#check @M4ri.Mzd.W.processRowsW_bit
#check @M4ri.Mzd.W.makeTableW_masked
#check @M4ri.Mzd.W.makeTableW_masked_all
#check @M4ri.Mzd.W.makeTableW_padZero
#check @M4ri.Mzd.W.makeTableW_row_keep
#check @M4ri.Mzd.W.makeTableW_low
#check @M4ri.Mzd.W.m4rmPassW_spec
#check @M4ri.Mzd.W.mulNaiveTW_bit
#check @M4ri.Mzd.W.mulVaW_bit


/-! ### tie to the C text (word-level kernels on the memory model): the functions `Gen.C.mzd…` are GENERATED from
    /repo/m4ri by vlib/ctrans.py (clang AST) on every check; a matrix is its memory image `memOf M : row → word → BitVec 64`.
    Each theorem: the generated C function run on the image of a well-formed model matrix = the image of the model
    function's result (hence also: no cell outside the addressed words changes) -/
#check @M4ri.GenTieMem.mzdXorBits_eq
#check @M4ri.GenTieMem.mzdAndBits_eq
#check @M4ri.GenTieMem.mzdClearBits_eq
#check @M4ri.GenTieMem.mzdWriteBit_eq
#check @M4ri.GenTieMem.mzdRowSwap_eq
#check @M4ri.GenTieMem.mzdRowAddOffset_eq
#check @M4ri.GenTieMem.mzdRowClearOffset_eq
#check @M4ri.GenTieMem.mzdCopyRow_eq

end M4ri.Props.C09
