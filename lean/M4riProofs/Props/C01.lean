/-
  C01 — every multiplication route computes exactly A·B (or C + A·B) over GF(2).
  `A.mul B` is the specification product: `(A.mul B).get i j = ⊕_{t < l} A[i,t] ∧ B[t,j]` (`product_entrywise`).
  All statements are for EVERY shape (incl. empty), every table parameter `k`, every value `auto` of the
  floating-point `k` heuristic, every heap content `junk` behind the index arrays, every table count,
  every thin-matrix switch point, every Strassen cut-off and every recursion fuel.
  Not covered by a theorem (correspondence only): the 4-section OpenMP front end (mp.c) and DJB (djb.c).
  Added: (a) the same statements in Mathlib's terms — `ML.mat` embeds a value into `Matrix (Fin m) (Fin n) (ZMod 2)`
  and every route equals Mathlib's matrix product (`ML.mat_mulTop`, `ML.mat_m4rm`, …, incl. the 4-section front end
  `ML.mat_mulMp` for every section order and DJB `ML.mat_runDjb`); (b) WORD-level mirrors of `mzd_make_table`,
  `mzd_process_rows`, `_mzd_mul_naive`, `_mzd_mul_va`, `_mzd_mul_m4rm` on views with arbitrary excess bits
  (M4ri/MulW.lean — these are what the driver runs against the library) proved equal to `C.putB (R-level route)`.
  Both are listed in M4riProofs/Props/C01x.lean (a separate module because MathlibSpec builds on this one).
-/
import M4riProofs.MulR
import M4riProofs.Strassen
import M4riProofs.GenTie
import M4riProofs.GenTieTab
import M4riProofs.GenTieDuff
import M4riProofs.GenTieStrassen
import M4riProofs.GenTieStrassen2
import M4riProofs.GenTieClose3
import M4riProofs.GenTieMul
import M4riProofs.GenTieVa
import M4riProofs.GenTieClose5
import M4riProofs.GenTieNaive
namespace M4ri.Props.C01
open M4ri M4ri.BMat

/-- meaning of the specification product -/
theorem product_entrywise (A B : BMat) (i j : Nat) (hi : i < A.nrows) :
    (A.mul B).get i j = dotSpec A B i j := get_mul A B i j hi

/-- the Four-Russians base case, in the form the Strassen theorems consume -/
theorem m4rm_base_mul : M4rmMul := by
  intro C A B _ hB hC hk hr hc
  exact m4rm_clear C A B 0 4 (fun _ => 0) 8 54 hB hC.1 hr hc hk

theorem m4rm_base_addmul : M4rmAddmul := by
  intro C A B _ hB hC hk hr hc
  exact m4rm_noclear C A B 0 4 (fun _ => 0) 8 54 hB hC.1 hr hc hk

/-- cubic route `_mzd_mul_va` -/
theorem mul_va (C v A : BMat) (clear : Bool) (hA : A.WF) (hC : C.rows.size = C.nrows) (hr : C.nrows = v.nrows)
    (hc : C.ncols = A.ncols) : mulVa C v A clear = if clear then v.mul A else C.add (v.mul A) := by
  cases clear
  · simpa using mulVa_noclear C v A hA hC hr hc
  · simpa using mulVa_clear C v A hA hC hr hc

/-- `mzd_mul_naive` / `mzd_addmul_naive` (transposed-B parity kernel or `_mzd_mul_va`, any switch point) -/
theorem mul_naive (C A B : BMat) (clear : Bool) (thin : Nat) (hB : B.WF) (hC : C.rows.size = C.nrows)
    (hr : C.nrows = A.nrows) (hc : C.ncols = B.ncols) (hl : A.ncols = B.nrows) :
    mulNaive C A B clear thin = if clear then A.mul B else C.add (A.mul B) := by
  cases clear
  · simpa using mulNaive_noclear C A B thin hB hC hr hc hl
  · simpa using mulNaive_clear C A B thin hB hC hr hc hl

/-- Four-Russians multiplication for every table parameter -/
theorem mul_m4rm (C A B : BMat) (k auto : Nat) (junk : Nat → Nat) (ntables thin : Nat) (clear : Bool) (hB : B.WF)
    (hC : C.rows.size = C.nrows) (hr : C.nrows = A.nrows) (hc : C.ncols = B.ncols) (hl : A.ncols = B.nrows) :
    m4rm C A B k clear auto junk ntables thin = if clear then A.mul B else C.add (A.mul B) := by
  cases clear
  · simpa using m4rm_noclear C A B k auto junk ntables thin hB hC hr hc hl
  · simpa using m4rm_clear C A B k auto junk ntables thin hB hC hr hc hl

/-- `mzd_mul` (Strassen–Winograd, incl. the squaring route when both factors are the same object), any cut-off -/
theorem mul_strassen (fuel cutoff : Nat) (C A B : BMat) (same : Bool) (hA : A.WF) (hB : B.WF) (hC : C.WF)
    (hk : A.ncols = B.nrows) (hr : C.nrows = A.nrows) (hc : C.ncols = B.ncols) (hs : same = true → B = A) :
    mulTop fuel C A B cutoff same = A.mul B :=
  mulTop_eq_mul m4rm_base_mul m4rm_base_addmul fuel cutoff C A B same hA hB hC hk hr hc hs

/-- `mzd_addmul`, any cut-off -/
theorem addmul_strassen (fuel cutoff : Nat) (C A B : BMat) (same : Bool) (hA : A.WF) (hB : B.WF) (hC : C.WF)
    (hk : A.ncols = B.nrows) (hr : C.nrows = A.nrows) (hc : C.ncols = B.ncols) (hs : same = true → B = A) :
    addmulTop fuel C A B cutoff same = C.add (A.mul B) :=
  addmulTop_eq_add_mul m4rm_base_mul m4rm_base_addmul fuel cutoff C A B same hA hB hC hk hr hc hs

/-- the four recursive routines themselves -/
theorem mul_even (fuel cutoff : Nat) (C A B : BMat) (hA : A.WF) (hB : B.WF) (hC : C.WF)
    (hk : A.ncols = B.nrows) (hr : C.nrows = A.nrows) (hc : C.ncols = B.ncols) :
    mulEven fuel C A B cutoff = A.mul B :=
  mulEven_eq_mul m4rm_base_mul m4rm_base_addmul fuel cutoff C A B hA hB hC hk hr hc
theorem sqr_even (fuel cutoff : Nat) (C A : BMat) (hA : A.WF) (hC : C.WF)
    (hk : A.ncols = A.nrows) (hr : C.nrows = A.nrows) (hc : C.ncols = A.ncols) :
    sqrEven fuel C A cutoff = A.mul A :=
  sqrEven_eq_mul m4rm_base_mul m4rm_base_addmul fuel cutoff C A hA hC hk hr hc
theorem addmul_even (fuel cutoff : Nat) (C A B : BMat) (hA : A.WF) (hB : B.WF) (hC : C.WF)
    (hk : A.ncols = B.nrows) (hr : C.nrows = A.nrows) (hc : C.ncols = B.ncols) :
    addmulEven fuel C A B cutoff = C.add (A.mul B) :=
  addmulEven_eq_add_mul m4rm_base_mul m4rm_base_addmul fuel cutoff C A B hA hB hC hk hr hc
theorem addsqr_even (fuel cutoff : Nat) (C A : BMat) (hA : A.WF) (hC : C.WF)
    (hk : A.ncols = A.nrows) (hr : C.nrows = A.nrows) (hc : C.ncols = A.ncols) :
    addsqrEven fuel C A cutoff = C.add (A.mul A) :=
  addsqrEven_eq_add_mul m4rm_base_mul m4rm_base_addmul fuel cutoff C A hA hC hk hr hc

/-- all routes agree with each other (they all equal the specification product) -/
theorem routes_agree (fuel cutoff k auto ntables thin thin' : Nat) (junk : Nat → Nat) (C A B : BMat)
    (hA : A.WF) (hB : B.WF) (hC : C.WF) (hk : A.ncols = B.nrows) (hr : C.nrows = A.nrows) (hc : C.ncols = B.ncols) :
    mulVa C A B true = A.mul B ∧ mulNaive C A B true thin' = A.mul B ∧
    m4rm C A B k true auto junk ntables thin = A.mul B ∧ mulTop fuel C A B cutoff false = A.mul B :=
  ⟨mulVa_clear C A B hB hC.1 hr hc, mulNaive_clear C A B thin' hB hC.1 hr hc hk,
   m4rm_clear C A B k auto junk ntables thin hB hC.1 hr hc hk,
   mul_strassen fuel cutoff C A B false hA hB hC hk hr hc (by simp)⟩



/-! ### tie to the C text: the functions below are GENERATED from /repo/m4ri by vlib/ctrans.py (clang AST) on every
    check (M4ri/Gen/CFuns.lean); these theorems prove them equal to the hand-written model definitions the theorems
    above are about, for all arguments of the C domain -/
#check @M4ri.GenTie.closer_eq
#check @M4ri.GenTie.mulEvenSplit_eq
#check @M4ri.GenTie.addmulEvenSplit_eq
#check @M4ri.GenTie.sqrEvenSplit_eq
#check @M4ri.GenTie.addsqrEvenSplit_eq
#check @M4ri.GenTie.strassen_fuel64
#check @M4ri.GenTie.parity64_eq


/-! ### tie to the C text (generated by vlib/ctrans.py on every check, proved equal to the model in GenTieTab.lean) -/
#check @M4ri.GenTieTab.mzdMakeTable_eq


/-! ### tie to the C text: kernels with Duff devices (generated by vlib/ctrans.py on every check, proved equal to the model in
    GenTieDuff.lean; `duff_eq`: first pass from the entry label + complete passes = `wide` single steps) -/
#check @M4ri.GenTieDuff.mzdProcessRows_eq
#check @M4ri.GenTieDuff.mzdCombineEvenInPlace_eq
#check @M4ri.GenTieDuff.mzdCombineEven_eq
#check @M4ri.GenTieDuff.duff_eq


/-! ### tie to the C text: the COMPLETE C function `_mzd_mul_even` (early return, base case incl. the windowed-operand copies, split, 12 quadrant
    windows, 2 temporaries, the 22 steps of the Bodrato sequence, the three remainder strips) is generated by vlib/ctrans.py on every
    check; with its callees instantiated by the model it equals `mulEven (fuel + 1)`, hence the product (GenTieStrassen.lean) -/
#check @M4ri.GenTieStrassen.strassenMulEven_step
#check @M4ri.GenTieStrassen.strassenMulEven_step_mul
#check @M4ri.GenTieStrassen.strassenMulEven_base
#check @M4ri.GenTieStrassen.strassenMulEven_split


/-! ### tie to the C text: the other three COMPLETE Strassen-Winograd routines `_mzd_addmul_even`, `_mzd_sqr_even` (the squaring route taken when
    both factors are the same object), `_mzd_addsqr_even`, generated on every check; each equals one step of the model, hence `C + A·B`,
    `A·A`, `C + A·A` (GenTieStrassen2.lean) -/
#check @M4ri.GenTieStrassen2.strassenAddmulEven_step
#check @M4ri.GenTieStrassen2.strassenSqrEven_step
#check @M4ri.GenTieStrassen2.strassenAddsqrEven_step
#check @M4ri.GenTieStrassen2.strassenAddmulEven_step_add
#check @M4ri.GenTieStrassen2.strassenSqrEven_step_mul
#check @M4ri.GenTieStrassen2.strassenAddsqrEven_step_add


/-! ### THE RECURSION CLOSED on the C text (GenTieClose3.lean): `cStrassen hd n` = the four generated Strassen routines with their recursive-call
    parameters bound to EACH OTHER `n` levels deep; by induction they compute A*B, C+A*B, A*A, C+A*A for EVERY depth, cut-off, flags -/
#check @M4ri.GenTieClose3.cMul_correct
#check @M4ri.GenTieClose3.cAddmul_correct
#check @M4ri.GenTieClose3.cSqr_correct
#check @M4ri.GenTieClose3.cAddsqr_correct
#check @M4ri.GenTieClose3.cStrassen_raw


/-! ### the PUBLIC entry points on the C text (GenTieMul.lean): the generated `mzd_mul` / `mzd_addmul` (cut-off normalisation with the default numeral =
    4096, `A == B` dispatch to the squaring route, early return of the accumulating product) over the closed recursion compute the product -/
#check @M4ri.GenTieMul.mzdMul_correct
#check @M4ri.GenTieMul.mzdMul_same_correct
#check @M4ri.GenTieMul.mzdAddmul_correct
#check @M4ri.GenTieMul.mzdAddmul_same_correct
#check @M4ri.GenTieMul.strassenCutoff_eq
#check @M4ri.GenTieMul.mzdAddmul_early

end M4ri.Props.C01

/-! ### `_mzd_mul_va` ON THE C TEXT (GenTieVa.lean): the complete generated function (optional clearing through the generated `mzd_set_ui`, one
    generated `mzd_combine` — with its `C == A` in-place dispatch — per set bit of `v`) equals the model `mulVaW` as memories, hence every stored
    entry of the destination is `v·A` resp. `C + v·A`, excess bits unchanged -/
#check @M4ri.GenTieVa.mzdMulVa_eq
#check @M4ri.GenTieVa.mzdMulVa_spec
#check @M4ri.GenTieVa.mzdMulVa_eq_putB

/-! ### THE STRASSEN RECURSION OVER THE GENERATED `_mzd_add` (GenTieClose5.lean): `cStrassenG hd n` = the four generated routines bound to each other n
    levels deep with the addition callee bound to the GENERATED `_mzd_add` (`genAdd`; a closed form of the generated text on ARBITRARY memories,
    `addCore_mem`, gives its locality) instead of the lifted model addition: still A*B, C + A*B, A*A, C + A*A for every depth -/
#check @M4ri.GenTieClose5.genAdd_agree
#check @M4ri.GenTieClose5.cStrassenA_cAdd
#check @M4ri.GenTieClose5.cMulG_correct
#check @M4ri.GenTieClose5.cAddmulG_correct
#check @M4ri.GenTieClose5.cSqrG_correct
#check @M4ri.GenTieClose5.cAddsqrG_correct

/-! ### `_mzd_mul_naive` ON THE C TEXT (GenTieNaive.lean): the complete generated function — clearing loop, the local array `parity[64]` (a 1-dimensional
    memory), blocked row loop (block size numeral proved = 2048) and remainder row loop (together: every row exactly once, `blocked_remainder_eq`),
    downward and upward accumulation loops, the generated 64x64 parity network, masked last word — equals the model `mulNaiveTW` as memories for EVERY
    value of the left-over `parity` entries (they are hidden by the mask), hence every stored entry is (A*B)[i,j] resp. C[i,j] + (A*B)[i,j] -/
#check @M4ri.GenTieNaive.mzdMulNaive_eq
#check @M4ri.GenTieNaive.mzdMulNaive_spec
#check @M4ri.GenTieNaive.mzdMulNaive_eq_putB
#check @M4ri.GenTieNaive.blocked_remainder_eq
