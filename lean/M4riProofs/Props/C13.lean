/-
  C13 — Row/column operations and permutation application follow LAPACK swap semantics.
  Property theorems only; every statement is about the executable model of mzd.h / mzp.c in M4ri/Mzd.lean
  (tied to /repo by the correspondence run). One `bit` equation per operation covers: the addressed entries,
  every other entry, and the excess bits of the last word (which belong to the parent of a window).
-/
import M4riProofs.W.RowCol
import M4riProofs.W.Perm
import M4riProofs.GenTieMem
import M4riProofs.GenTieAlg
import M4riProofs.GenTieTab
import M4riProofs.GenTieDuff
import M4riProofs.GenTieTriFinal
import M4riProofs.GenTieVa
namespace M4ri.Props.C13
open M4ri M4ri.Mzd

/-- row swap: rows `a`,`b` exchanged, nothing else (incl. excess bits) changes -/
theorem row_swap (M : Mzd) (a b : Nat) (h : M.WF) (ha : a < M.nrows) (hb : b < M.nrows)
    (i j : Nat) (hi : i < M.nrows) (hj : j < 64 * M.width) :
    (M.rowSwap a b).bit i j = if j < M.ncols then M.bit (swapIdx a b i) j else M.bit i j :=
  rowSwap_bit M a b h ha hb i j hi hj

/-- column swap, optionally restricted to a row range -/
theorem col_swap_in_rows (M : Mzd) (cola colb startRow stopRow : Nat) (h : M.WF)
    (ha : cola < M.ncols) (hb : colb < M.ncols) (i j : Nat) :
    (M.colSwapInRows cola colb startRow stopRow).bit i j =
      if startRow ≤ i ∧ i < stopRow then
        (if j = cola then M.bit i colb else if j = colb then M.bit i cola else M.bit i j)
      else M.bit i j :=
  colSwapInRows_bit M cola colb startRow stopRow h ha hb i j

/-- adding one row to another from a given column on -/
theorem row_add_offset (M : Mzd) (dst src off : Nat) (h : M.WF) (hne : dst ≠ src)
    (hd : dst < M.nrows) (hs : src < M.nrows) (hc : off < M.ncols) (i j : Nat) :
    (M.rowAddOffset dst src off).bit i j =
      if i = dst ∧ off ≤ j ∧ j < M.ncols then (M.bit dst j != M.bit src j) else M.bit i j :=
  rowAddOffset_bit M dst src off h hne hd hs hc i j

/-- clearing a row from a given column on -/
theorem row_clear_offset (M : Mzd) (row off : Nat) (h : M.WF) (hr : row < M.nrows) (hc : off < M.ncols)
    (i j : Nat) :
    (M.rowClearOffset row off).bit i j = if i = row ∧ off ≤ j ∧ j < M.ncols then false else M.bit i j :=
  rowClearOffset_bit M row off h hr hc i j

/-- bit-range read -/
theorem read_bits (M : Mzd) (x y n : Nat) (hn : n ≤ 64) (k : Nat) :
    (M.readBits x y n).getLsbD k = if k < n then M.bit x (y + k) else false :=
  readBits_getLsbD M x y n hn k

/-- bit-range xor -/
theorem xor_bits (M : Mzd) (x y n : Nat) (v : Word) (h : M.WF) (hx : x < M.nrows) (hn : n ≤ 64)
    (hy : y + n ≤ M.ncols) (hv : ∀ k, n ≤ k → v.getLsbD k = false) (i j : Nat) :
    (M.xorBits x y n v).bit i j =
      if i = x ∧ y ≤ j ∧ j < y + n then (M.bit i j != v.getLsbD (j - y)) else M.bit i j :=
  xorBits_bit M x y n v h hx hn hy hv i j

/-- bit-range clear -/
theorem clear_bits (M : Mzd) (x y n : Nat) (h : M.WF) (hx : x < M.nrows) (hn : n ≤ 64)
    (hy : y + n ≤ M.ncols) (i j : Nat) :
    (M.clearBits x y n).bit i j = if i = x ∧ y ≤ j ∧ j < y + n then false else M.bit i j :=
  clearBits_bit M x y n h hx hn hy i j

/-- left application = the row swaps `k ↔ P[k]` for ascending `k` -/
theorem apply_p_left (A : Mzd) (P : Array Nat) (h : A.WF)
    (hP : ∀ k, k < min P.size A.nrows → P.getD k 0 < A.nrows)
    (i j : Nat) (hi : i < A.nrows) (hj : j < 64 * A.width) :
    (A.applyPLeft P).bit i j =
      if j < A.ncols then A.bit (swapsIdx (pSwaps P (min P.size A.nrows)) i) j else A.bit i j :=
  applyPLeft_bit A P h hP i j hi hj

/-- transposed left application = the same swaps for descending `k` -/
theorem apply_p_left_trans (A : Mzd) (P : Array Nat) (h : A.WF)
    (hP : ∀ k, k < min P.size A.nrows → P.getD k 0 < A.nrows)
    (i j : Nat) (hi : i < A.nrows) (hj : j < 64 * A.width) :
    (A.applyPLeftTrans P).bit i j =
      if j < A.ncols then A.bit (swapsIdx (pSwaps P (min P.size A.nrows)).reverse i) j else A.bit i j :=
  applyPLeftTrans_bit A P h hP i j hi hj

/-- right application = the column swaps for descending `k` (whole matrix: rows 0..nrows) -/
theorem apply_p_right (A : Mzd) (P : Array Nat) (h : A.WF)
    (hP : ∀ k, k < min P.size A.ncols → P.getD k 0 < A.ncols) :
    A.applyPRight P = A.colSwaps (pSwaps P (min P.size A.ncols)).reverse 0 A.nrows :=
  applyPRight_eq_colSwaps A P h hP

/-- transposed right application = the column swaps for ascending `k` -/
theorem apply_p_right_trans (A : Mzd) (P : Array Nat) (h : A.WF)
    (hP : ∀ k, k < min P.size A.ncols → P.getD k 0 < A.ncols) :
    A.applyPRightTrans P = A.colSwaps (pSwaps P (min P.size A.ncols)) 0 A.nrows :=
  applyPRightTrans_eq_colSwaps A P h hP

/-- meaning of a column swap sequence: column `j` of the result is column `σ j` of the input -/
theorem col_swaps_meaning (M : Mzd) (l : List (Nat × Nat)) (s e : Nat) (h : M.WF)
    (hl : ∀ p ∈ l, p.1 < M.ncols ∧ p.2 < M.ncols)
    (i j : Nat) (hi : i < M.nrows) (hj : j < 64 * M.width) :
    (M.colSwaps l s e).bit i j =
      if s ≤ i ∧ i < e ∧ j < M.ncols then M.bit i (swapsIdx l j) else M.bit i j :=
  colSwaps_bit M l s e h hl i j hi hj

/-- each application is undone by its transposed counterpart (all four orders) -/
theorem left_trans_undoes_left (A : Mzd) (P : Array Nat) (h : A.WF)
    (hP : ∀ k, k < min P.size A.nrows → P.getD k 0 < A.nrows) :
    (A.applyPLeft P).applyPLeftTrans P = A := applyPLeftTrans_applyPLeft A P h hP
theorem left_undoes_left_trans (A : Mzd) (P : Array Nat) (h : A.WF)
    (hP : ∀ k, k < min P.size A.nrows → P.getD k 0 < A.nrows) :
    (A.applyPLeftTrans P).applyPLeft P = A := applyPLeft_applyPLeftTrans A P h hP
theorem right_trans_undoes_right (A : Mzd) (P : Array Nat) (h : A.WF)
    (hP : ∀ k, k < min P.size A.ncols → P.getD k 0 < A.ncols) :
    (A.applyPRight P).applyPRightTrans P = A := applyPRightTrans_applyPRight A P h hP
theorem right_undoes_right_trans (A : Mzd) (P : Array Nat) (h : A.WF)
    (hP : ∀ k, k < min P.size A.ncols → P.getD k 0 < A.ncols) :
    (A.applyPRightTrans P).applyPRight P = A := applyPRight_applyPRightTrans A P h hP

/-- the capped variants: rows `≥ startRow`, swaps from `startCol` on -/
theorem apply_p_right_even (A : Mzd) (P : Array Nat) (startRow startCol : Nat) (notrans : Bool)
    (h : A.WF) (hP : ∀ k, k < min P.size A.ncols → P.getD k 0 < A.ncols)
    (i j : Nat) (hi : i < A.nrows) (hj : j < 64 * A.width) :
    (A.applyPRightEven P startRow startCol notrans).bit i j =
      if startRow ≤ i ∧ j < A.ncols then
        A.bit i (swapsIdx (pRightSwaps P A.ncols startCol notrans) j)
      else A.bit i j :=
  applyPRightEven_bit A P startRow startCol notrans h hP i j hi hj

/-- the 'triangular' transposed right application performs swap `k` only on the rows above row `k` -/
theorem apply_p_right_trans_tri (A : Mzd) (P : Array Nat) (h : A.WF)
    (hP : ∀ k, k < A.ncols → P.getD k 0 < A.ncols)
    (i j : Nat) (hi : i < A.nrows) (hj : j < 64 * A.width) :
    (A.applyPRightTransTri P).bit i j =
      if j < A.ncols then
        A.bit i (swapsIdx ((List.range' (i + 1) (A.ncols - (i + 1))).map fun k => (k, P.getD k 0)) j)
      else A.bit i j :=
  applyPRightTransTri_bit A P h hP i j hi hj

/-- non-vacuity: the hypotheses are met by a 2×70 view whose excess bits are all ones and `P = [1, 1]` -/
example : exM.WF ∧ (∀ k, k < min (#[1, 1] : Array Nat).size exM.nrows → (#[1, 1] : Array Nat).getD k 0 < exM.nrows) := by
  refine ⟨exM_WF, ?_⟩
  intro k hk
  have : k = 0 ∨ k = 1 := by simp [exM] at hk; omega
  rcases this with rfl | rfl <;> decide


/-! ### tie to the C text (word-level kernels on the memory model): the functions `Gen.C.mzd…` are GENERATED from
    /repo/m4ri by vlib/ctrans.py (clang AST) on every check; a matrix is its memory image `memOf M : row → word → BitVec 64`.
    Each theorem: the generated C function run on the image of a well-formed model matrix = the image of the model
    function's result (hence also: no cell outside the addressed words changes) -/
#check @M4ri.GenTieMem.mzdRowSwap_eq
#check @M4ri.GenTieMem.mzdRowAddOffset_eq
#check @M4ri.GenTieMem.mzdRowClearOffset_eq
#check @M4ri.GenTieMem.mzdReadBits_eq
#check @M4ri.GenTieMem.mzdXorBits_eq
#check @M4ri.GenTieMem.mzdAndBits_eq
#check @M4ri.GenTieMem.mzdClearBits_eq
#check @M4ri.GenTieMem.mzdWriteBit_eq
#check @M4ri.GenTieMem.mzdReadBit_eq


/-! ### tie to the C text (generated by vlib/ctrans.py on every check, proved equal to the model in GenTieAlg.lean) -/
#check @M4ri.GenTieAlg.mzdRowSwap0_eq
#check @M4ri.GenTieAlg.mzdRowAdd_eq


/-! ### tie to the C text (generated by vlib/ctrans.py on every check, proved equal to the model in GenTieTab.lean) -/
#check @M4ri.GenTieTab.mzdApplyPLeft_eq
#check @M4ri.GenTieTab.mzdApplyPLeftTrans_eq


/-! ### tie to the C text: kernels with Duff devices (generated by vlib/ctrans.py on every check, proved equal to the model in
    GenTieDuff.lean; `duff_eq`: first pass from the entry label + complete passes = `wide` single steps) -/
#check @M4ri.GenTieDuff.mzdCombineEvenInPlace_eq
#check @M4ri.GenTieDuff.mzdCombineEven_eq
#check @M4ri.GenTieDuff.mzdReadBitsInt_eq

end M4ri.Props.C13

/-! ### COLUMN SWAP ON THE C TEXT (GenTieColSwap.lean, GenTieTri.lean, GenTieTriFinal.lean): `mzd_col_swap_in_rows` — the same-word path with its 4-fold
    unrolled loop and rest loop, both orientations of the two-word path, the pointer walking down the rows by `rowstride` — `mzd_col_swap`, and
    `mzd_apply_p_right_trans_tri` (row blocks of L1-cache size over the generated column swap) are generated by vlib/ctrans.py on every check and
    equal the model as whole memories: LAPACK swap semantics of the column operations for the translated code itself; the row-blocked double loop is
    proved equal to the single unblocked pass (`blocked_eq`). -/
#check @M4ri.GenTieColSwap.mzdColSwapInRows_eq
#check @M4ri.GenTieColSwap.mzdColSwap_eq
#check @M4ri.GenTieColSwap.colSwapTie
#check @M4ri.GenTieTri.blocked_eq
#check @M4ri.GenTieTriFinal.mzdApplyPRightTransTri_eq
#check @M4ri.GenTieTriFinal.mzdApplyPRightTransTri_liftTri

/-! ### `mzd_combine` ON THE C TEXT (GenTieVa.lean): the dispatch `(C == A) & (a_row == c_row) & (a_startblock == c_startblock)` to the in-place
    variant, the three-operand variant otherwise — also when `A` is the destination itself on another row or block -/
#check @M4ri.GenTieVa.mzdCombine_inplace_eq
#check @M4ri.GenTieVa.mzdCombine_even_eq
#check @M4ri.GenTieVa.mzdCombine_even_alias_eq
