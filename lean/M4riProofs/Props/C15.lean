/-
  C15 — thread-safe build (PARTIAL). Proved: a system of threads, each running an arbitrary list of deterministic steps
  on a PRIVATE state and reading a shared state that no step writes, reaches under EVERY interleaving the same per-thread
  final states as the sequential runs. Its hypothesis ("no step writes shared state") is discharged for the library by
  an inventory obligation checked on every run: `nm` on the objects built with ENABLE_MMC = ENABLE_MZD_CACHE = 0 must
  show no writable static storage beyond `m4ri_codebook` (written only by the load-time constructor/destructor) —
  a re-introduced static scratch buffer or cache changes the inventory and fails the check.
  Implementation only: that C-level accesses of distinct threads really are disjoint — a pthread harness (2..16 threads,
  seed-derived sequences of multiplication / elimination / PLE / solve / transpose / kernel / allocation churn on private
  operands) built thread-safe under ThreadSanitizer and plain; every thread's checksum must equal its sequential run.
-/
import M4riProofs.Sched
namespace M4ri.Props.C15
open M4ri.Sched

theorem threads_on_private_state_are_independent {T Priv Shared : Type} [DecidableEq T] (sh : Shared)
    {steps : T → List (Step Priv Shared)} {l : List (T × Step Priv Shared)} (h : Interleaving steps l)
    (init : T → Priv) (t : T) : runTrace sh l init t = seqRun sh (steps t) (init t) :=
  threads_independent sh h init t

#check @M4ri.Sched.interleavings_agree
#check @M4ri.Sched.Interleaving.proj
#check @M4ri.Sched.threads_independent_sched
#check @M4ri.Sched.complete_seqSchedule

end M4ri.Props.C15
