/-
  C08 — Addition and data movement are exact. `…Into` = destination supplied (its excess bits and, for
  copy, its entries outside the source area are preserved); `…New` = allocated by the call (zero padding).
  Transposition: see `transpose_spec` below (R-level definition) — the word-level transposition kernels
  of mzd.c are NOT modelled; they are tied to this specification by the correspondence run only.
-/
import M4riProofs.W.DataMove
import M4riProofs.Bridge
import M4riProofs.GenTie
import M4riProofs.GenTieMem
import M4riProofs.GenTieSlice
import M4riProofs.GenTieMove
import M4riProofs.GenTieIo
import M4riProofs.GenTieAdd
namespace M4ri.Props.C08
open M4ri M4ri.Mzd

theorem add_spec (C A B : Mzd) (h : C.WF) (hrA : A.nrows = C.nrows) (hrB : B.nrows = C.nrows)
    (hcA : A.ncols = C.ncols) (i j : Nat) (hi : i < C.nrows) (hj : j < 64 * C.width) :
    (addInto C A B).bit i j = if j < C.ncols then (A.bit i j != B.bit i j) else C.bit i j :=
  addInto_bit C A B h hrA hrB hcA i j hi hj

/-- destination is the first summand -/
theorem add_alias_left (A B : Mzd) (h : A.WF) (hr : B.nrows = A.nrows) (i j : Nat) (hi : i < A.nrows)
    (hj : j < 64 * A.width) :
    (addInto A A B).bit i j = if j < A.ncols then (A.bit i j != B.bit i j) else A.bit i j :=
  addInto_self_left A B h hr i j hi hj

/-- destination is the second summand -/
theorem add_alias_right (A B : Mzd) (h : B.WF) (hr : A.nrows = B.nrows) (hc : A.ncols = B.ncols) (i j : Nat)
    (hi : i < B.nrows) (hj : j < 64 * B.width) :
    (addInto B A B).bit i j = if j < B.ncols then (A.bit i j != B.bit i j) else B.bit i j :=
  addInto_self_right A B h hr hc i j hi hj

theorem add_new (A B : Mzd) (hr : B.nrows = A.nrows) (i j : Nat) (hi : i < A.nrows) (hj : j < 64 * A.width) :
    (addInto (zero A.nrows A.ncols) A B).bit i j = if j < A.ncols then (A.bit i j != B.bit i j) else false :=
  addInto_zero_bit A B hr i j hi hj

theorem copy_spec (N P : Mzd) (h : N.WF) (i j : Nat) (hi : i < N.nrows) (hj : j < 64 * N.width) :
    (copyInto N P).bit i j = if i < P.nrows ∧ j < P.ncols then P.bit i j else N.bit i j :=
  copyInto_bit N P h i j hi hj

theorem copy_new (P : Mzd) (i j : Nat) (hi : i < P.nrows) (hj : j < 64 * P.width) :
    (copyNew P).bit i j = if j < P.ncols then P.bit i j else false := copyNew_bit P i j hi hj

theorem copy_row_spec (B : Mzd) (i : Nat) (A : Mzd) (j : Nat) (h : B.WF) (hc : A.ncols ≤ B.ncols)
    (hpos : 0 < A.ncols) (hi : i < B.nrows) (r c : Nat) (hr : r < B.nrows) (hcw : c < 64 * B.width) :
    (copyRow B i A j).bit r c = if r = i ∧ c < A.ncols then A.bit j c else B.bit r c :=
  copyRow_bit_of_pos B i A j h hc hpos hi r c hr hcw

theorem set_ui_spec (A : Mzd) (v : Nat) (h : A.WF) (i j : Nat) (hi : i < A.nrows) (hj : j < 64 * A.width) :
    (setUi A v).bit i j = if j < A.ncols then decide (v % 2 = 1 ∧ i = j) else A.bit i j :=
  setUi_bit A v h i j hi hj

theorem submatrix_spec (S M : Mzd) (lr lc hr hc : Nat) (h : S.WF) (hnr : S.nrows = hr - lr)
    (hnc : S.ncols = hc - lc) (i j : Nat) (hi : i < S.nrows) (hj : j < 64 * S.width) :
    (submatrixInto S M lr lc hr hc).bit i j = if j < S.ncols then M.bit (lr + i) (lc + j) else S.bit i j :=
  submatrixInto_bit S M lr lc hr hc h hnr hnc i j hi hj

theorem submatrix_new (M : Mzd) (lr lc hr hc : Nat) (i j : Nat) (hi : i < hr - lr)
    (hj : j < 64 * widthOf (hc - lc)) :
    (submatrixNew M lr lc hr hc).bit i j = if j < hc - lc then M.bit (lr + i) (lc + j) else false :=
  submatrixNew_bit M lr lc hr hc i j hi hj

theorem concat_spec (C A B : Mzd) (h : C.WF) (hrA : A.nrows = C.nrows) (hrB : B.nrows = C.nrows)
    (hc : C.ncols = A.ncols + B.ncols) (i j : Nat) (hi : i < C.nrows) (hj : j < 64 * C.width) :
    (concatInto C A B).bit i j =
      if j < A.ncols then A.bit i j else if j < C.ncols then B.bit i (j - A.ncols) else C.bit i j :=
  concatInto_bit C A B h hrA hrB hc i j hi hj

theorem concat_new (A B : Mzd) (hr : B.nrows = A.nrows) (i j : Nat) (hi : i < A.nrows)
    (hj : j < 64 * widthOf (A.ncols + B.ncols)) :
    (concatNew A B).bit i j =
      if j < A.ncols then A.bit i j else if j < A.ncols + B.ncols then B.bit i (j - A.ncols) else false :=
  concatNew_bit A B hr i j hi hj

theorem stack_spec (C A B : Mzd) (h : C.WF) (hr : C.nrows = A.nrows + B.nrows) (hcA : C.ncols = A.ncols)
    (hcB : B.ncols = A.ncols) (i j : Nat) (hi : i < C.nrows) (hj : j < 64 * C.width) :
    (stackInto C A B).bit i j =
      if j < C.ncols then (if i < A.nrows then A.bit i j else B.bit (i - A.nrows) j) else C.bit i j :=
  stackInto_bit C A B h hr hcA hcB i j hi hj

theorem stack_new (A B : Mzd) (hc : B.ncols = A.ncols) (i j : Nat) (hi : i < A.nrows + B.nrows)
    (hj : j < 64 * A.width) :
    (stackNew A B).bit i j =
      if j < A.ncols then (if i < A.nrows then A.bit i j else B.bit (i - A.nrows) j) else false :=
  stackNew_bit A B hc i j hi hj

theorem extract_u_spec (U A : Mzd) (h : U.WF) (hr : U.nrows = min A.nrows A.ncols)
    (hc : U.ncols = min A.nrows A.ncols) (i j : Nat) (hi : i < U.nrows) (hj : j < 64 * U.width) :
    (extractUInto U A).bit i j = if j < U.ncols then (decide (i ≤ j) && A.bit i j) else U.bit i j :=
  extractUInto_bit U A h hr hc i j hi hj

theorem extract_l_spec (L A : Mzd) (h : L.WF) (hr : L.nrows = min A.nrows A.ncols)
    (hc : L.ncols = min A.nrows A.ncols) (i j : Nat) (hi : i < L.nrows) (hj : j < 64 * L.width) :
    (extractLInto L A).bit i j = if j < L.ncols then (decide (j ≤ i) && A.bit i j) else L.bit i j :=
  extractLInto_bit L A h hr hc i j hi hj

/-- the transposition specification used as the model of `mzd_transpose`: entry-wise, and an involution -/
theorem transpose_spec (B : BMat) (i j : Nat) (hi : i < B.ncols) (hj : j < B.nrows) :
    (B.transpose).get i j = B.get j i := BMat.get_transpose B i j hi hj

theorem transpose_involutive (B : BMat) (h : B.WF) : B.transpose.transpose = B := BMat.transpose_transpose h


/-! ### tie to the C text: the functions below are GENERATED from /repo/m4ri by vlib/ctrans.py (clang AST) on every
    check (M4ri/Gen/CFuns.lean); these theorems prove them equal to the hand-written model definitions the theorems
    above are about, for all arguments of the C domain -/
#check @M4ri.GenTie.splitRound_eq


/-! ### tie to the C text (word-level kernels on the memory model): the functions `Gen.C.mzd…` are GENERATED from
    /repo/m4ri by vlib/ctrans.py (clang AST) on every check; a matrix is its memory image `memOf M : row → word → BitVec 64`.
    Each theorem: the generated C function run on the image of a well-formed model matrix = the image of the model
    function's result (hence also: no cell outside the addressed words changes) -/
#check @M4ri.GenTieMem.mzdCopyRow_eq


/-! ### tie to the C text: loops cut out of larger C functions (generated by vlib/ctrans.py on every check, proved equal to the
    model in GenTieSlice.lean) -/
#check @M4ri.GenTieSlice.extractUClear_eq
#check @M4ri.GenTieSlice.extractLClear_eq
#check @M4ri.GenTieSlice.extractLClear_square
#check @M4ri.GenTieSlice.extractUClear_extractUInto
#check @M4ri.GenTieSlice.extractLClear_extractLInto


/-! ### tie to the C text: `mzd_copy`, `mzd_submatrix` (aligned path with memcpy + masked last word, unaligned path), `mzd_concat`, `mzd_stack` for a
    supplied destination, generated on every check and proved equal to `copyInto` / `submatrixInto` / `concatInto` / `stackInto` (GenTieMove.lean) -/
#check @M4ri.GenTieMove.mzdCopy_eq
#check @M4ri.GenTieMove.mzdCopy_same
#check @M4ri.GenTieMove.mzdSubmatrix_eq
#check @M4ri.GenTieMove.mzdSubmatrix_aligned_eq
#check @M4ri.GenTieMove.mzdSubmatrix_unaligned_eq
#check @M4ri.GenTieMove.mzdConcat_eq
#check @M4ri.GenTieMove.mzdStack_eq


/-! ### tie to the C text: `mzd_from_str` (fresh matrix, `mzd_write_bit` per character) = the model `fromStr` for every string, signed or unsigned
    `char`; `mzd_set_ui` for every value (GenTieIo.lean) -/
#check @M4ri.GenTieIo.mzdSetUi_eq

end M4ri.Props.C08

/-! ### ADDITION ON THE C TEXT (GenTieAdd.lean): `_mzd_add` and `mzd_add` (supplied destination) are generated by vlib/ctrans.py on every check —
    the exchange `if (C == B) swap(A, B)`, the `switch (A->width)` with its eight width-specialised row loops and the `mzd_combine_even` default —
    with operands that may be IDENTICAL to the destination (Boolean parameters `C == A`, `C == B`; a read through an identical operand looks at the
    current memory of the destination).  For every width and all four aliasing patterns the generated function equals the model `addInto` as
    memories; `mzdAdd_spec`: every entry is the GF(2) sum, the excess bits of the destination's last word and all other rows are unchanged. -/
#check @M4ri.GenTieAdd.mzdAdd_eq
#check @M4ri.GenTieAdd.mzdAdd_eq_dims
#check @M4ri.GenTieAdd.mzdAddTop_eq
#check @M4ri.GenTieAdd.mzdAdd_spec
#check @M4ri.GenTieAdd.mzdAdd_readBit
