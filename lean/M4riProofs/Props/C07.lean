/-
  C07 — kernel. Every result of `mzd_kernel_left_pluq` is judged by `check_kernel` (driver): NULL iff rank = n,
  dimensions n × (n − r), `A·K = 0` for the ORIGINAL A (specification product), `rank K = n − r`. Proved: these four
  tests mean that the columns of K are a basis of the right null space (every null vector is a unique combination).
  The routine itself is mirrored (`SV.kernelLeftPluq`, M4ri/Glue.lean; tied word for word by the `glue_kernel` phase of
  the correspondence run, instantiated with the library's own factorisation) and proved for EVERY factorisation
  satisfying `IsPLUQ`: NULL iff rank = ncols, otherwise K is n × (n − rank), A·K = 0, rank K = n − rank, a basis.
  Mathlib form: `ML.kernel_tests_mathlib`.
  END TO END (M4riProofs/Top.lean, PB27) — no certificate hypothesis is left: over the real `mzd_pluq`
  (`PR.pluqTop L1 L2 L3`, proved to return an `IsPLUQ` certificate on every well-formed input for every cache triple,
  see C03), `mzd_kernel_left_pluq` satisfies, for every cache triple and every well-formed `A`:
    `Top.kernelLeftPluq_top_none_iff`   `NULL` iff `rank A = ncols A`
    `Top.kernelLeftPluq_top_some`       otherwise `K` is well formed, `n × (n − rank A)`, `A·K = 0`, `rank K = n − rank A`
    `Top.kernelLeftPluq_top_basis`      its columns are a basis of the right null space; `Top.kernelLeftPluq_top_mathlib`
  Nothing is per-input certification; `check_kernel` remains in the runs as a tie between the mirrors and the C code.
-/
import M4riProofs.Kernel
import M4riProofs.GaussOK
import M4riProofs.Solve
import M4riProofs.MathlibSpec
import M4riProofs.Top
import M4riProofs.GenTieSolve
namespace M4ri.Props.C07
open M4ri M4ri.BMat

theorem kernel_is_basis {A K : BMat} {ρ : Nat} (hK : K.WF) (hKr : K.nrows = A.ncols) (hdim : K.ncols + ρ = A.ncols)
    (hrA : RankCert A ρ) (hrK : RankCert K K.ncols) (hAK : A.mul K = zero A.nrows K.ncols) :
    (∀ V : BMat, V.WF → V.nrows = A.ncols → A.mul V = zero A.nrows V.ncols →
        ∃ W : BMat, W.WF ∧ W.nrows = K.ncols ∧ W.ncols = V.ncols ∧ K.mul W = V) ∧
    (∀ W W' : BMat, W.WF → W'.WF → W.nrows = K.ncols → W'.nrows = K.ncols → W'.ncols = W.ncols →
        K.mul W = K.mul W' → W = W') := kernel_basis hK hKr hdim hrA hrK hAK

/-- unconditional soundness of the four tests performed on every kernel the library returns -/
theorem kernel_tests_sound {A K : BMat} (hA : A.WF) (hK : K.WF) (h1 : K.nrows = A.ncols)
    (h2 : K.ncols = A.ncols - A.rank) (h3 : (A.mul K).eqM (zero A.nrows K.ncols) = true) (h4 : K.rank = K.ncols) :
    A.mul K = zero A.nrows K.ncols ∧
    (∀ V : BMat, V.WF → V.nrows = A.ncols → A.mul V = zero A.nrows V.ncols →
        ∃ W : BMat, W.WF ∧ W.nrows = K.ncols ∧ W.ncols = V.ncols ∧ K.mul W = V) ∧
    (∀ W W' : BMat, W.WF → W'.WF → W.nrows = K.ncols → W'.nrows = K.ncols → W'.ncols = W.ncols →
        K.mul W = K.mul W' → W = W') := GOK.kernel_checker_sound hA hK h1 h2 h3 h4

#check @M4ri.BMat.SV.kernelLeftPluq_none_iff
#check @M4ri.BMat.SV.kernelLeftPluq_some
#check @M4ri.BMat.SV.kernelLeftPluq_basis

#check @M4ri.BMat.SV.rank_of_pluq
#check @M4ri.BMat.ML.kernel_tests_mathlib
#check @M4ri.BMat.checkKernel_sound
#check @M4ri.BMat.checkKernel_sound'


-- end to end over the real `mzd_pluq` (M4riProofs/Top.lean), every cache triple
#check @M4ri.BMat.Top.pluqTop_isPLUQ
#check @M4ri.BMat.Top.kernelLeftPluq_top_none_iff
#check @M4ri.BMat.Top.kernelLeftPluq_top_some
#check @M4ri.BMat.Top.kernelLeftPluq_top_basis
#check @M4ri.BMat.Top.kernelLeftPluq_top_mathlib
#check @M4ri.BMat.G2.kernelLeftPluq_none_iff
#check @M4ri.BMat.G2.kernelLeftPluq_some
#check @M4ri.BMat.G2.kernelLeftPluq_basis


/-! ### tie to the C text (GenTieSolve.lean) -/
#check @M4ri.GenTieSolve.mzdIsZero_window

end M4ri.Props.C07
