/-
  C07 — kernel. Every result of `mzd_kernel_left_pluq` is judged by `check_kernel` (driver): NULL iff rank = n,
  dimensions n × (n − r), `A·K = 0` for the ORIGINAL A (specification product), `rank K = n − r`. Proved: these four
  tests mean that the columns of K are a basis of the right null space (every null vector is a unique combination).
-/
import M4riProofs.Kernel
namespace M4ri.Props.C07
open M4ri M4ri.BMat

theorem kernel_is_basis {A K : BMat} {ρ : Nat} (hK : K.WF) (hKr : K.nrows = A.ncols) (hdim : K.ncols + ρ = A.ncols)
    (hrA : RankCert A ρ) (hrK : RankCert K K.ncols) (hAK : A.mul K = zero A.nrows K.ncols) :
    (∀ V : BMat, V.WF → V.nrows = A.ncols → A.mul V = zero A.nrows V.ncols →
        ∃ W : BMat, W.WF ∧ W.nrows = K.ncols ∧ W.ncols = V.ncols ∧ K.mul W = V) ∧
    (∀ W W' : BMat, W.WF → W'.WF → W.nrows = K.ncols → W'.nrows = K.ncols → W'.ncols = W.ncols →
        K.mul W = K.mul W' → W = W') := kernel_basis hK hKr hdim hrA hrK hAK

#check @M4ri.BMat.checkKernel_sound
#check @M4ri.BMat.checkKernel_sound'

end M4ri.Props.C07
