/-
  C19 — Gray-code tables and word-level bit kernels are exactly right. All proofs are general
  (every table size, not only k ≤ 16; no enumeration of tables).
-/
import M4riProofs.Gray
import M4riProofs.GenTie
namespace M4ri.Props.C19
open M4ri

theorem gray_code (i l : Nat) (h : i < 2 ^ l) : grayCode i l = i ^^^ (i >>> 1) := grayCode_eq i l h

/-- the code book lists each l-bit value exactly once -/
theorem codebook_bijective (l : Nat) :
    (buildOrd l).size = 2 ^ l ∧ (∀ i, i < 2 ^ l → (buildOrd l).getD i 0 < 2 ^ l) ∧
    (∀ i j, i < 2 ^ l → j < 2 ^ l → (buildOrd l).getD i 0 = (buildOrd l).getD j 0 → i = j) ∧
    (∀ v, v < 2 ^ l → ∃ i, i < 2 ^ l ∧ (buildOrd l).getD i 0 = v) := buildOrd_bijective l

/-- consecutive entries differ in exactly one bit, whose index is the recorded increment -/
theorem increment_is_the_flipped_bit (l : Nat) (hl : 1 ≤ l) (i : Nat) (hi : i + 1 < 2 ^ l) :
    (buildInc l).getD i 0 < l ∧
    (buildOrd l).getD i 0 ^^^ (buildOrd l).getD (i + 1) 0 = 2 ^ (buildInc l).getD i 0 := buildInc_spec l hl i hi

/-- a lookup table built by successive single-row additions returns, for every k-bit pattern x, the sum of
    exactly the rows selected by the bits of x — whatever the index array contained before -/
theorem table_lookup (rows : Array Nat) (nrows ncols r c k : Nat) (T0 L0 : Array Nat) (hr : r + k ≤ nrows)
    (hT : T0.size = 2 ^ k) (hL : L0.size = 2 ^ k) (hT0 : T0.getD 0 0 = 0) (x : Nat) (hx : x < 2 ^ k) :
    (makeTable rows nrows ncols r c k T0 L0).2.getD x 0 < 2 ^ k ∧
    (makeTable rows nrows ncols r c k T0 L0).1.getD ((makeTable rows nrows ncols r c k T0 L0).2.getD x 0) 0 =
      combRows rows r (colMask c ncols) k x :=
  let h := makeTable_lookup rows nrows ncols r c k T0 L0 hr hT hL hT0 x hx
  ⟨h.2.2.1, h.2.2.2.2⟩

/-- the 64×64 parity kernel -/
theorem parity_kernel (buf : Nat → Word) (i : Nat) (hi : i < 64) :
    (parity64 buf).getLsbD i = parityBit (buf i) := parity64_getLsbD buf i hi

theorem left_mask (n i : Nat) (hn : 1 ≤ n) (hn' : n ≤ 64) : (leftMask n).getLsbD i = decide (i < n) :=
  leftMask_getLsbD n i hn hn'
theorem right_mask (n i : Nat) (hn' : n ≤ 64) : (rightMask n).getLsbD i = decide (64 - n ≤ i ∧ i < 64) :=
  rightMask_getLsbD n i hn'
theorem middle_mask (n off p : Nat) (hn : 1 ≤ n) (h : n + off ≤ 64) :
    (middleMask n off).getLsbD p = decide (off ≤ p ∧ p < off + n) := middleMask_getLsbD n off p hn h

theorem bit_reversal (v : Word) (p : Nat) (hp : p < 64) : (swapBits v).getLsbD p = v.getLsbD (63 - p) :=
  swapBits_getLsbD v p hp

theorem spread_places_bits (w : Word) (Q : List Nat) (length base : Nat) (h : SpreadPre Q length base) (i : Nat)
    (hi : i < length) : (spreadBits w Q length base).getLsbD (Q.getD i 0 - base) = w.getLsbD i :=
  spreadBits_getLsbD_at w Q length base h i hi

theorem shrink_inverts_spread (w : Word) (Q : List Nat) (length base : Nat) (h : SpreadPre Q length base)
    (hw : w.toNat < 2 ^ length) : shrinkBits (spreadBits w Q length base) Q length base = w :=
  shrinkBits_spreadBits w Q length base h hw


/-! ### tie to the C text: the functions below are GENERATED from /repo/m4ri by vlib/ctrans.py (clang AST) on every
    check (M4ri/Gen/CFuns.lean); these theorems prove them equal to the hand-written model definitions the theorems
    above are about, for all arguments of the C domain -/
#check @M4ri.GenTie.leftBitmask_eq
#check @M4ri.GenTie.rightBitmask_eq
#check @M4ri.GenTie.middleBitmask_eq
#check @M4ri.GenTie.getBit_eq
#check @M4ri.GenTie.writeBit_eq
#check @M4ri.GenTie.flipBit_eq
#check @M4ri.GenTie.twopow_eq
#check @M4ri.GenTie.swapBits_eq
#check @M4ri.GenTie.lesserLSB_eq
#check @M4ri.GenTie.spreadBits_eq
#check @M4ri.GenTie.shrinkBits_eq
#check @M4ri.GenTie.grayCode_eq
#check @M4ri.GenTie.log2Floor_eq
#check @M4ri.GenTie.optK_eq
#check @M4ri.GenTie.parity64Helper_eq
#check @M4ri.GenTie.parity64_eq

end M4ri.Props.C19
