/-
  C12 — results do not depend on build configuration or tuning parameters. In the model, the configuration enters only
  through parameters that the theorems quantify over: the table parameter `k`, the value `auto` of the floating-point
  `k` heuristic (which depends on L2 and on the shape), the table count, the thin-matrix switch, the Strassen cut-off
  (default derived from L3), the recursion fuel, heap junk. Hence independence is a corollary of C01 (products); for
  echelon forms / rank / inverse / TRSM / solvability the canonical values (`rref`, `rank`, `inverseSpec`, substitution
  TRSM, `solvable`) against which EVERY configuration of the C library is compared do not mention any parameter at all.
  SSE2 on/off, caches on/off, OpenMP on/off are not visible in the model (they are modelled-not-verified): covered by
  running identical seeded cases under a lattice of real builds, each compared with the same model output.
  Added (M4riProofs/Top.lean): the mirrors of the REAL routine stack take the cache triple (L1, L2, L3) and the SSE2 flag as
  parameters (they select the Four-Russians `k`, the PLE / TRSM / TRTRI recursion cut-offs and the block sizes), and the
  theorems below state the independence directly: for any two cache triples the reduced echelon form, the rank, the
  solvability verdict, the kernel verdict, the triangular solves and the triangular inverse coincide, and the products
  reconstructed from the PLUQ factors are A for both (`pluq_reconstructs`). The factor STORAGE itself is allowed to
  differ between configurations (the property speaks of the reconstructed product).
-/
import M4riProofs.Props.C01
import M4riProofs.Top
import M4riProofs.GenTie
import M4riProofs.GenTieSlice
import M4riProofs.GenTieRec
import M4riProofs.GenTiePleFinal
import M4riProofs.GenTieStrassen
import M4riProofs.GenTieClose
import M4riProofs.GenTieMul
import M4riProofs.GenTieClose4
namespace M4ri.Props.C12
open M4ri M4ri.BMat

theorem m4rm_independent_of_k (C A B : BMat) (k k' auto auto' ntables ntables' thin thin' : Nat)
    (junk junk' : Nat → Nat) (clear : Bool) (hB : B.WF) (hC : C.rows.size = C.nrows) (hr : C.nrows = A.nrows)
    (hc : C.ncols = B.ncols) (hl : A.ncols = B.nrows) :
    m4rm C A B k clear auto junk ntables thin = m4rm C A B k' clear auto' junk' ntables' thin' := by
  rw [Props.C01.mul_m4rm C A B k auto junk ntables thin clear hB hC hr hc hl,
      Props.C01.mul_m4rm C A B k' auto' junk' ntables' thin' clear hB hC hr hc hl]

theorem strassen_independent_of_cutoff (fuel fuel' cutoff cutoff' : Nat) (C A B : BMat) (hA : A.WF) (hB : B.WF)
    (hC : C.WF) (hk : A.ncols = B.nrows) (hr : C.nrows = A.nrows) (hc : C.ncols = B.ncols) :
    mulTop fuel C A B cutoff false = mulTop fuel' C A B cutoff' false := by
  rw [Props.C01.mul_strassen fuel cutoff C A B false hA hB hC hk hr hc (by simp),
      Props.C01.mul_strassen fuel' cutoff' C A B false hA hB hC hk hr hc (by simp)]

theorem addmul_independent_of_cutoff (fuel fuel' cutoff cutoff' : Nat) (C A B : BMat) (hA : A.WF) (hB : B.WF)
    (hC : C.WF) (hk : A.ncols = B.nrows) (hr : C.nrows = A.nrows) (hc : C.ncols = B.ncols) :
    addmulTop fuel C A B cutoff false = addmulTop fuel' C A B cutoff' false := by
  rw [Props.C01.addmul_strassen fuel cutoff C A B false hA hB hC hk hr hc (by simp),
      Props.C01.addmul_strassen fuel' cutoff' C A B false hA hB hC hk hr hc (by simp)]

theorem naive_independent_of_switch (C A B : BMat) (clear : Bool) (thin thin' : Nat) (hB : B.WF)
    (hC : C.rows.size = C.nrows) (hr : C.nrows = A.nrows) (hc : C.ncols = B.ncols) (hl : A.ncols = B.nrows) :
    mulNaive C A B clear thin = mulNaive C A B clear thin' := by
  rw [Props.C01.mul_naive C A B clear thin hB hC hr hc hl, Props.C01.mul_naive C A B clear thin' hB hC hr hc hl]

/-! ### independence of the cache triple and of SSE2, for the mirrors of the real routines -/
section cfg
open M4ri.BMat.Top
variable (L1 L2 L3 L1' L2' L3' : Nat) (sse2 sse2' : Bool) {A : BMat} (hA : A.WF)
include hA

theorem rref_independent_of_caches :
    PN.echelonizePluq (PR.pluqTop L1 L2 L3) A true = PN.echelonizePluq (PR.pluqTop L1' L2' L3') A true := by
  rw [echelonizePluq_pluqTop L1 L2 L3 hA, echelonizePluq_pluqTop L1' L2' L3' hA]

theorem rank_independent_of_caches : (PR.pluqTop L1 L2 L3 A).2.2.2 = (PR.pluqTop L1' L2' L3' A).2.2.2 := by
  rw [pluqTop_rank L1 L2 L3 hA, pluqTop_rank L1' L2' L3' hA]

theorem rank_profile_independent_of_caches :
    (List.range (PR.pluqTop L1 L2 L3 A).2.2.2).map (fun i => (PR.pluqTop L1 L2 L3 A).2.2.1.getD i 0) =
    (List.range (PR.pluqTop L1' L2' L3' A).2.2.2).map (fun i => (PR.pluqTop L1' L2' L3' A).2.2.1.getD i 0) := by
  rw [(pluqTop_rank_profile L1 L2 L3 hA).2, (pluqTop_rank_profile L1' L2' L3' hA).2]

/-- the products reconstructed from the PLUQ factors are `A` in every configuration -/
theorem pluq_reconstructs :
    IsPLUQ A (PR.pluqTop L1 L2 L3 A).1 (PR.pluqTop L1 L2 L3 A).2.1 (PR.pluqTop L1 L2 L3 A).2.2.1 (PR.pluqTop L1 L2 L3 A).2.2.2 ∧
    IsPLUQ A (PR.pluqTop L1' L2' L3' A).1 (PR.pluqTop L1' L2' L3' A).2.1 (PR.pluqTop L1' L2' L3' A).2.2.1
      (PR.pluqTop L1' L2' L3' A).2.2.2 := ⟨pluqTop_isPLUQ L1 L2 L3 hA, pluqTop_isPLUQ L1' L2' L3' hA⟩

theorem solve_verdict_independent_of_caches {B : BMat} (hB : B.WF) (hBr : B.nrows = max A.nrows A.ncols) :
    (SV.solveLeft (PR.pluqTop L1 L2 L3) A B true).1 = (SV.solveLeft (PR.pluqTop L1' L2' L3') A B true).1 := by
  rw [solveLeft_top_verdict L1 L2 L3 hA hB hBr, solveLeft_top_verdict L1' L2' L3' hA hB hBr]

theorem kernel_verdict_independent_of_caches :
    (SV.kernelLeftPluq (PR.pluqTop L1 L2 L3) A = none) ↔ (SV.kernelLeftPluq (PR.pluqTop L1' L2' L3') A = none) := by
  rw [kernelLeftPluq_top_none_iff L1 L2 L3 hA, kernelLeftPluq_top_none_iff L1' L2' L3' hA]

end cfg

section cfg2
open M4ri.BMat.Top
variable (L1 L2 L3 L1' L2' L3' : Nat) (sse2 sse2' : Bool)

theorem trsm_lower_left_independent {L B : BMat} (hB : B.WF) (hLr : L.nrows = B.nrows) :
    TB.trsmLowerLeftC (paramsOf L1 L2 L3 sse2) L B = TB.trsmLowerLeftC (paramsOf L1' L2' L3' sse2') L B := by
  rw [trsm_lower_left L1 L2 L3 sse2 hB hLr, trsm_lower_left L1' L2' L3' sse2' hB hLr]

theorem trsm_upper_left_independent {U B : BMat} (hB : B.WF) (hUr : U.nrows = B.nrows) :
    TB.trsmUpperLeftC (paramsOf L1 L2 L3 sse2) U B = TB.trsmUpperLeftC (paramsOf L1' L2' L3' sse2') U B := by
  rw [trsm_upper_left L1 L2 L3 sse2 hB hUr, trsm_upper_left L1' L2' L3' sse2' hB hUr]

theorem trsm_upper_right_independent (h : Admissible L1 L2 L3) (h' : Admissible L1' L2' L3') {U B : BMat} (hB : B.WF)
    (hUr : U.nrows = B.ncols) (hUc : U.ncols = B.ncols) (hd : 64 < B.ncols → ∀ i, i < B.ncols → U.get i i = true) :
    TB.trsmUpperRightC (paramsOf L1 L2 L3 sse2) U B = TB.trsmUpperRightC (paramsOf L1' L2' L3' sse2') U B := by
  rw [trsm_upper_right_adm L1 L2 L3 sse2 h hB hUr hUc hd, trsm_upper_right_adm L1' L2' L3' sse2' h' hB hUr hUc hd]

theorem trtri_independent (h : Admissible L1 L2 L3) (h' : Admissible L1' L2' L3') {U : BMat} (hU : U.WF)
    (hsq : U.ncols = U.nrows) (hlow : ∀ i j, j < i → U.get i j = false) (hdiag : ∀ i, i < U.nrows → U.get i i = true) :
    TB.trtriUpperC (paramsOf L1 L2 L3 sse2) U = TB.trtriUpperC (paramsOf L1' L2' L3' sse2') U := by
  rw [trtri_upper_adm L1 L2 L3 sse2 h hU hsq hlow hdiag, trtri_upper_adm L1' L2' L3' sse2' h' hU hsq hlow hdiag]

end cfg2

#check @M4ri.BMat.Top.all_routes_agree
#check @M4ri.BMat.Top.echelonizeHybrid_top_full_eq
#check @M4ri.BMat.Top.inv_m4ri
#check @M4ri.BMat.PR.pleRussian_indep


/-! ### tie to the C text: the functions below are GENERATED from /repo/m4ri by vlib/ctrans.py (clang AST) on every
    check (M4ri/Gen/CFuns.lean); these theorems prove them equal to the hand-written model definitions the theorems
    above are about, for all arguments of the C domain -/
#check @M4ri.GenTie.pleSplit_eq
#check @M4ri.GenTie.trsmUpperRightSplit_eq
#check @M4ri.GenTie.trsmLowerRightSplit_eq
#check @M4ri.GenTie.trsmLowerLeftSplit_eq
#check @M4ri.GenTie.trsmUpperLeftSplit_eq
#check @M4ri.GenTie.mulEvenSplit_eq
#check @M4ri.GenTie.sqrEvenSplit_eq
#check @M4ri.GenTie.closer_eq


/-! ### tie to the C text: loops cut out of larger C functions (generated by vlib/ctrans.py on every check, proved equal to the
    model in GenTieSlice.lean) -/
#check @M4ri.GenTieSlice.plePermUpdate_model


/-! ### tie to the C text: the COMPLETE C functions `_mzd_trsm_*` (regime switch incl. the block-size expression, inline base cases of the
    left variants, 5 windows, two recursive calls, one product) are generated by vlib/ctrans.py on every check with their callees as
    function parameters; instantiated with the model's own recursion at `fuel` they equal one step of the model recursion (GenTieRec.lean) -/
#check @M4ri.GenTieRec.blocksize_eq
#check @M4ri.GenTieRec.trsmUpperRightRec_step
#check @M4ri.GenTieRec.trsmLowerLeftRec_step


/-! ### tie to the C text: the RECURSIVE BRANCH of `_mzd_ple` (split, 6 matrix windows, 4 permutation windows, first recursive call, Schur
    complement through the translated `mzd_apply_p_left` and `_mzd_trsm_lower_left`, product, second recursive call, fix-ups of A10 / P / Q,
    L compression) is generated by vlib/ctrans.py on every check; with the recursive calls instantiated by the model at `fuel` it returns
    exactly what `pleRec (fuel + 1)` computes: rank, storage, P, Q (GenTiePle.lean; call contracts derived from `pleRec_spec`) -/
#check @M4ri.GenTiePle.pleRecStep_pleRec_full


/-! ### tie to the C text: the COMPLETE C function `_mzd_mul_even` (early return, base case incl. the windowed-operand copies, split, 12 quadrant
    windows, 2 temporaries, the 22 steps of the Bodrato sequence, the three remainder strips) is generated by vlib/ctrans.py on every
    check; with its callees instantiated by the model it equals `mulEven (fuel + 1)`, hence the product (GenTieStrassen.lean) -/
#check @M4ri.GenTieStrassen.strassenMulEven_step


/-! ### THE RECURSION CLOSED on the C text: `cTrsmX n` is the generated C function `_mzd_trsm_*` with its recursive-call parameter bound to ITSELF, `n`
    levels deep; by induction on `n` (one-step ties + callee congruence) it equals the substitution form for EVERY depth, on whole matrices
    and on windows written back (GenTieClose.lean) -/
#check @M4ri.GenTieClose.cTrsmUR_correct
#check @M4ri.GenTieClose.cTrsmLL_correct


/-! ### the PUBLIC entry points on the C text (GenTieMul.lean): the generated `mzd_mul` / `mzd_addmul` (cut-off normalisation with the default numeral =
    4096, `A == B` dispatch to the squaring route, early return of the accumulating product) over the closed recursion compute the product -/
#check @M4ri.GenTieMul.mzdMul_correct
#check @M4ri.GenTieMul.strassenCutoff_eq


/-! ### THE WHOLE `_mzd_ple` on the C text (GenTieClose4.lean): `pleFull` is the complete generated function (zero-row test through the translated
    `mzd_first_zero_row`, permutation initialisation, regime test with the cut-off numeral = 524288, base case through a copy, recursive
    branch); `cPleFull n` = it bound to itself `n` levels deep: for every depth it returns what `pleRec n` returns, a valid PLE factorisation -/
#check @M4ri.GenTieClose4.cPleFull_correct
#check @M4ri.GenTieClose4.pleCutoff_eq

end M4ri.Props.C12
