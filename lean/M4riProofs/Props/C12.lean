/-
  C12 — results do not depend on build configuration or tuning parameters. In the model, the configuration enters only
  through parameters that the theorems quantify over: the table parameter `k`, the value `auto` of the floating-point
  `k` heuristic (which depends on L2 and on the shape), the table count, the thin-matrix switch, the Strassen cut-off
  (default derived from L3), the recursion fuel, heap junk. Hence independence is a corollary of C01 (products); for
  echelon forms / rank / inverse / TRSM / solvability the canonical values (`rref`, `rank`, `inverseSpec`, substitution
  TRSM, `solvable`) against which EVERY configuration of the C library is compared do not mention any parameter at all.
  SSE2 on/off, caches on/off, OpenMP on/off are not visible in the model (they are modelled-not-verified): covered by
  running identical seeded cases under a lattice of real builds, each compared with the same model output.
-/
import M4riProofs.Props.C01
namespace M4ri.Props.C12
open M4ri M4ri.BMat

theorem m4rm_independent_of_k (C A B : BMat) (k k' auto auto' ntables ntables' thin thin' : Nat)
    (junk junk' : Nat → Nat) (clear : Bool) (hB : B.WF) (hC : C.rows.size = C.nrows) (hr : C.nrows = A.nrows)
    (hc : C.ncols = B.ncols) (hl : A.ncols = B.nrows) :
    m4rm C A B k clear auto junk ntables thin = m4rm C A B k' clear auto' junk' ntables' thin' := by
  rw [Props.C01.mul_m4rm C A B k auto junk ntables thin clear hB hC hr hc hl,
      Props.C01.mul_m4rm C A B k' auto' junk' ntables' thin' clear hB hC hr hc hl]

theorem strassen_independent_of_cutoff (fuel fuel' cutoff cutoff' : Nat) (C A B : BMat) (hA : A.WF) (hB : B.WF)
    (hC : C.WF) (hk : A.ncols = B.nrows) (hr : C.nrows = A.nrows) (hc : C.ncols = B.ncols) :
    mulTop fuel C A B cutoff false = mulTop fuel' C A B cutoff' false := by
  rw [Props.C01.mul_strassen fuel cutoff C A B false hA hB hC hk hr hc (by simp),
      Props.C01.mul_strassen fuel' cutoff' C A B false hA hB hC hk hr hc (by simp)]

theorem addmul_independent_of_cutoff (fuel fuel' cutoff cutoff' : Nat) (C A B : BMat) (hA : A.WF) (hB : B.WF)
    (hC : C.WF) (hk : A.ncols = B.nrows) (hr : C.nrows = A.nrows) (hc : C.ncols = B.ncols) :
    addmulTop fuel C A B cutoff false = addmulTop fuel' C A B cutoff' false := by
  rw [Props.C01.addmul_strassen fuel cutoff C A B false hA hB hC hk hr hc (by simp),
      Props.C01.addmul_strassen fuel' cutoff' C A B false hA hB hC hk hr hc (by simp)]

theorem naive_independent_of_switch (C A B : BMat) (clear : Bool) (thin thin' : Nat) (hB : B.WF)
    (hC : C.rows.size = C.nrows) (hr : C.nrows = A.nrows) (hc : C.ncols = B.ncols) (hl : A.ncols = B.nrows) :
    mulNaive C A B clear thin = mulNaive C A B clear thin' := by
  rw [Props.C01.mul_naive C A B clear thin hB hC hr hc hl, Props.C01.mul_naive C A B clear thin' hB hC hr hc hl]

end M4ri.Props.C12
