/-
  C01, continued: (a) Mathlib forms of the product theorems (`ML.mat` : value ↦ `Matrix (Fin m) (Fin n) (ZMod 2)`),
  (b) the word-level mirrors (M4ri/MulW.lean, run against the library by the driver) equal the R-level routes written
  through the lens `putB`, for views with arbitrary excess bits.
-/
import M4riProofs.Props.C01
import M4riProofs.MathlibSpec
import M4riProofs.MulW
namespace M4ri.Props.C01x

#check @M4ri.BMat.ML.mat_mul
#check @M4ri.BMat.ML.mat_add
#check @M4ri.BMat.ML.mat_mulTop
#check @M4ri.BMat.ML.mat_addmulTop
#check @M4ri.BMat.ML.mat_mulEven
#check @M4ri.BMat.ML.mat_sqrEven
#check @M4ri.BMat.ML.mat_addmulEven
#check @M4ri.BMat.ML.mat_addsqrEven
#check @M4ri.BMat.ML.mat_m4rm
#check @M4ri.BMat.ML.mat_mulVa
#check @M4ri.BMat.ML.mat_mulNaive
#check @M4ri.BMat.ML.mat_mulMp4
#check @M4ri.BMat.ML.mat_addmulMp4
#check @M4ri.BMat.ML.mat_mulMp
#check @M4ri.BMat.ML.mat_runDjb
#check @M4ri.BMat.ML.exists_unique_shaped
#check @M4ri.Mzd.W.m4rmW_spec
#check @M4ri.Mzd.W.m4rmW_bit
#check @M4ri.Mzd.W.mulNaiveW_spec
#check @M4ri.Mzd.W.mulNaiveTW_spec
#check @M4ri.Mzd.W.mulNaiveTW_needs_padZero
#check @M4ri.Mzd.W.mulVaW_spec
#check @M4ri.Mzd.W.makeTableW_sim
#check @M4ri.Mzd.W.makeTableW_lookup
#check @M4ri.Mzd.W.processRowsW_spec
#check @M4ri.Mzd.W.processRowsW_eq_R

end M4ri.Props.C01x
