/-
  C06 — linear system solving. The verdict and the solution returned by `mzd_solve_left` / `mzd_pluq_solve_left`
  are judged per run by `check_solve` (driver): verdict = `solvable A B` and, when 0, `Apad·X = B₀` recomputed with
  the specification product. Proved: `solvable A B = true ↔ ∃ X, Apad·X = B` relative to the Gauss facts
  (`GaussOK`, discharged in M4riProofs/GaussOK.lean). The routines `_mzd_pluq_solve_left` and `_mzd_solve_left`
  themselves are mirrored (`BMat.pluqSolveLeft`, `SV.solveLeft` in M4ri/Glue.lean, tied word for word to the
  implementation by the `glue_*` phase of the correspondence run, which instantiates them with the factorisation the
  library produced) and proved for EVERY factorisation satisfying `IsPLUQ` (= accepted by `checkPLUQ`, the test applied
  to every factorisation the library returns): verdict = solvability of the padded system, the returned rows solve it
  (padding rows included), with the consistency check off a solution is returned whenever one exists. The Mathlib form
  of solvability is `ML.solvable_iff_exists_matrix`.
-/
import M4riProofs.Checkers
import M4riProofs.GaussOK
import M4riProofs.Solve
import M4riProofs.PleNaive
import M4riProofs.MathlibSpec
namespace M4ri.Props.C06
open M4ri M4ri.BMat

/-- the verdict oracle decides solvability of the padded system -/
theorem verdict_oracle {A B : BMat} (hB : B.WF) (hBr : B.nrows = max A.nrows A.ncols) :
    solvable A B = true ↔ ∃ X : BMat, X.WF ∧ X.nrows = A.ncols ∧ X.ncols = B.ncols ∧ (padRows A).mul X = B :=
  GOK.solvable_iff hB hBr

-- `_mzd_solve_left` on top of any factorisation routine whose output is a PLUQ certificate of `A`: the verdict
#check @M4ri.BMat.SV.solveLeft_verdict
-- … and when 0 is returned the first `ncols A` rows of the overwritten `B` solve the padded system
#check @M4ri.BMat.SV.solveLeft_solution
#check @M4ri.BMat.SV.solveLeft_nocheck
#check @M4ri.BMat.SV.pluqSolveLeft_verdict_solvable
#check @M4ri.BMat.SV.pluqSolveLeft_solution
#check @M4ri.BMat.SV.pluqSolveLeft_nocheck
-- the certificate hypothesis is exactly what the checker tests on the library's factorisation
#check @M4ri.BMat.PN.checkPLUQ_iff

#check @M4ri.BMat.SV.solveLeft_verdict_iff
#check @M4ri.BMat.SV.solveLeft_shaped
#check @M4ri.BMat.SV.solveLeft_early_exit
#check @M4ri.BMat.SV.pluqSolveLeft_verdict
#check @M4ri.BMat.SV.pluqSolveLeft_eq_sol
#check @M4ri.BMat.SV.pluqSolveLeft_shaped
#check @M4ri.BMat.SV.pluqSolveLeft_ret_cases
#check @M4ri.BMat.SV.Ctx.solvable_iff_consistent
#check @M4ri.BMat.PN.checkPLUQ_pluqNaive
#check @M4ri.BMat.ML.solvable_iff_exists_matrix
#check @M4ri.BMat.solvable_iff_rankCert
#check @M4ri.BMat.solvable_spec'
#check @M4ri.BMat.solvable_eq

end M4ri.Props.C06
