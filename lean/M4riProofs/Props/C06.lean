/-
  C06 — linear system solving. The verdict and the solution returned by `mzd_solve_left` / `mzd_pluq_solve_left`
  are judged per run by `check_solve` (driver): verdict = `solvable A B` and, when 0, `Apad·X = B₀` recomputed with
  the specification product. Proved: `solvable A B = true ↔ ∃ X, Apad·X = B` relative to the Gauss facts
  (`GaussOK`, discharged in M4riProofs/GaussOK.lean when present). The routine `_mzd_pluq_solve_left` itself is
  modelled (`BMat.pluqSolveLeft`) but its universal theorem is not proved (`…_partial`).
-/
import M4riProofs.Checkers
import M4riProofs.GaussOK
namespace M4ri.Props.C06
open M4ri M4ri.BMat

/-- the verdict oracle decides solvability of the padded system -/
theorem verdict_oracle {A B : BMat} (hB : B.WF) (hBr : B.nrows = max A.nrows A.ncols) :
    solvable A B = true ↔ ∃ X : BMat, X.WF ∧ X.nrows = A.ncols ∧ X.ncols = B.ncols ∧ (padRows A).mul X = B :=
  GOK.solvable_iff hB hBr

#check @M4ri.BMat.solvable_iff_rankCert
#check @M4ri.BMat.solvable_spec'
#check @M4ri.BMat.solvable_eq

end M4ri.Props.C06
