/-
  C06 — linear system solving. The verdict and the solution returned by `mzd_solve_left` / `mzd_pluq_solve_left`
  are judged per run by `check_solve` (driver): verdict = `solvable A B` and, when 0, `Apad·X = B₀` recomputed with
  the specification product. Proved: `solvable A B = true ↔ ∃ X, Apad·X = B` relative to the Gauss facts
  (`GaussOK`, discharged in M4riProofs/GaussOK.lean). The routines `_mzd_pluq_solve_left` and `_mzd_solve_left`
  themselves are mirrored (`BMat.pluqSolveLeft`, `SV.solveLeft` in M4ri/Glue.lean, tied word for word to the
  implementation by the `glue_*` phase of the correspondence run, which instantiates them with the factorisation the
  library produced) and proved for EVERY factorisation satisfying `IsPLUQ` (= accepted by `checkPLUQ`, the test applied
  to every factorisation the library returns): verdict = solvability of the padded system, the returned rows solve it
  (padding rows included), with the consistency check off a solution is returned whenever one exists. The Mathlib form
  of solvability is `ML.solvable_iff_exists_matrix`.
  END TO END (M4riProofs/Top.lean, PB27) — no certificate hypothesis is left: `mzd_pluq` itself is mirrored down to the
  Four-Russians base case (`PR.pluqTop L1 L2 L3`, see C03) and proved to return an `IsPLUQ` certificate on every well-formed
  input for every cache triple (`Top.pluqTop_isPLUQ`). Hence, for `mzd_solve_left` = `_mzd_solve_left` over the real
  `mzd_pluq`, every cache triple, every well-formed `A` and `B` with `max(nrows A, ncols A)` rows:
    `Top.solveLeft_top_verdict`, `Top.solveLeft_top_verdict_iff`   the value returned is `0` iff the padded system is solvable
    `Top.solveLeft_top_solution`   when `0` is returned the first `ncols A` rows left in `B` solve it
    `Top.solveLeft_top_nocheck`    with the check off `0` is returned and a solution delivered whenever one exists
  Nothing is per-input certification; `check_solve` remains in the runs as a tie between the mirrors and the C code.
-/
import M4riProofs.Checkers
import M4riProofs.GaussOK
import M4riProofs.Solve
import M4riProofs.PleNaive
import M4riProofs.MathlibSpec
import M4riProofs.Top
import M4riProofs.GenTieSolve
import M4riProofs.GenTiePleFinal
import M4riProofs.GenTieGlue
import M4riProofs.GenTieClose4
import M4riProofs.GenTieTop
import M4riProofs.GenTieMax
namespace M4ri.Props.C06
open M4ri M4ri.BMat

/-- the verdict oracle decides solvability of the padded system -/
theorem verdict_oracle {A B : BMat} (hB : B.WF) (hBr : B.nrows = max A.nrows A.ncols) :
    solvable A B = true ↔ ∃ X : BMat, X.WF ∧ X.nrows = A.ncols ∧ X.ncols = B.ncols ∧ (padRows A).mul X = B :=
  GOK.solvable_iff hB hBr

-- `_mzd_solve_left` on top of any factorisation routine whose output is a PLUQ certificate of `A`: the verdict
#check @M4ri.BMat.SV.solveLeft_verdict
-- … and when 0 is returned the first `ncols A` rows of the overwritten `B` solve the padded system
#check @M4ri.BMat.SV.solveLeft_solution
#check @M4ri.BMat.SV.solveLeft_nocheck
#check @M4ri.BMat.SV.pluqSolveLeft_verdict_solvable
#check @M4ri.BMat.SV.pluqSolveLeft_solution
#check @M4ri.BMat.SV.pluqSolveLeft_nocheck
-- the certificate hypothesis is exactly what the checker tests on the library's factorisation
#check @M4ri.BMat.PN.checkPLUQ_iff

#check @M4ri.BMat.SV.solveLeft_verdict_iff
#check @M4ri.BMat.SV.solveLeft_shaped
#check @M4ri.BMat.SV.solveLeft_early_exit
#check @M4ri.BMat.SV.pluqSolveLeft_verdict
#check @M4ri.BMat.SV.pluqSolveLeft_eq_sol
#check @M4ri.BMat.SV.pluqSolveLeft_shaped
#check @M4ri.BMat.SV.pluqSolveLeft_ret_cases
#check @M4ri.BMat.SV.Ctx.solvable_iff_consistent
#check @M4ri.BMat.PN.checkPLUQ_pluqNaive
#check @M4ri.BMat.ML.solvable_iff_exists_matrix
#check @M4ri.BMat.solvable_iff_rankCert
#check @M4ri.BMat.solvable_spec'
#check @M4ri.BMat.solvable_eq


-- end to end over the real `mzd_pluq` (M4riProofs/Top.lean), every cache triple
/-- `mzd_solve_left(A, B, cutoff, 1)` returns `0` iff the system is solvable, and then `B` holds a solution -/
theorem solve_left_end_to_end (L1 L2 L3 : Nat) {A B : BMat} (hA : A.WF) (hB : B.WF)
    (hBr : B.nrows = max A.nrows A.ncols) :
    ((SV.solveLeft (PR.pluqTop L1 L2 L3) A B true).1 = 0 ↔
      ∃ X : BMat, X.WF ∧ X.nrows = A.ncols ∧ X.ncols = B.ncols ∧ (padRows A).mul X = B) ∧
    ((SV.solveLeft (PR.pluqTop L1 L2 L3) A B true).1 = 0 →
      (padRows A).mul ((SV.solveLeft (PR.pluqTop L1 L2 L3) A B true).2.2.sub 0 0 A.ncols B.ncols) = B) :=
  ⟨Top.solveLeft_top_verdict_iff L1 L2 L3 hA hB hBr, Top.solveLeft_top_solution L1 L2 L3 hA hB hBr⟩

#check @M4ri.BMat.Top.pluqTop_isPLUQ
#check @M4ri.BMat.Top.solveLeft_top_verdict
#check @M4ri.BMat.Top.solveLeft_top_verdict_iff
#check @M4ri.BMat.Top.solveLeft_top_solution
#check @M4ri.BMat.Top.solveLeft_top_nocheck
#check @M4ri.BMat.G2.solveLeft_verdict
#check @M4ri.BMat.G2.solveLeft_solution
#check @M4ri.BMat.G2.solveLeft_nocheck


/-! ### tie to the C text: the COMPLETE C function `_mzd_pluq_solve_left` (row permutation, 5 windows, two triangular solves, inconsistency
    check with `mzd_is_zero` / `mzd_set_ui` / `mzd_addmul`, clearing loops, inverse permutation) is generated by vlib/ctrans.py on every
    check; with the solves and the product instantiated by the model it equals the model `pluqSolveLeft` (GenTieSolve.lean) -/
#check @M4ri.GenTieSolve.pluqSolveLeft_eq
#check @M4ri.GenTieSolve.pluqSolveLeft_eq_C
#check @M4ri.GenTieSolve.pluqSolveLeft_spec
#check @M4ri.GenTieSolve.mzdSetUi_zero_eq


/-! ### tie to the C text: the RECURSIVE BRANCH of `_mzd_ple` (split, 6 matrix windows, 4 permutation windows, first recursive call, Schur
    complement through the translated `mzd_apply_p_left` and `_mzd_trsm_lower_left`, product, second recursive call, fix-ups of A10 / P / Q,
    L compression) is generated by vlib/ctrans.py on every check; with the recursive calls instantiated by the model at `fuel` it returns
    exactly what `pleRec (fuel + 1)` computes: rank, storage, P, Q (GenTiePle.lean; call contracts derived from `pleRec_spec`) -/
#check @M4ri.GenTiePle.pleRecStep_pleRec_full


/-! ### tie to the C text: `mzd_trtri_upper` (64-bit regime test, SSE2 split, three windows, the two translated TRSM routines, two recursive
    calls), `_mzd_pluq` and `_mzd_solve_left` are generated by vlib/ctrans.py on every check and proved equal to the model (GenTieGlue.lean) -/
#check @M4ri.GenTieGlue.solveLeftTop_eq
#check @M4ri.GenTieGlue.solveLeftTop_pluqFromPle
#check @M4ri.GenTieGlue.pluqFromPle_eq


/-! ### THE WHOLE `_mzd_ple` on the C text (GenTieClose4.lean): `pleFull` is the complete generated function (zero-row test through the translated
    `mzd_first_zero_row`, permutation initialisation, regime test with the cut-off numeral = 524288, base case through a copy, recursive
    branch); `cPleFull n` = it bound to itself `n` levels deep: for every depth it returns what `pleRec n` returns, a valid PLE factorisation -/
#check @M4ri.GenTieClose4.cPleFull_spec

end M4ri.Props.C06

/-! ### END TO END ON THE C TEXT (GenTieTop.lean): the generated `_mzd_solve_left` with `_mzd_pluq` bound to the generated `_mzd_pluq` over the WHOLE
    generated `_mzd_ple` closed at any depth (`cPluq … n`), and `_mzd_pluq_solve_left` bound to the generated one (TRSM callees lifted, or — `_closed` —
    bound to the closed generated recursions `cTrsmLL` / `cTrsmUL`): the verdict is 0 iff the padded system is solvable, and then the first `ncols`
    rows of the returned memory solve it; for every `GoodBase` base case (instance: the library's `_mzd_ple_russian` model, `c_solve_left_russian`).
    The congruence lemmas show that each generated consumer reads P, Q only on their index ranges. -/
#check @M4ri.GenTieTop.c_pluq
#check @M4ri.GenTieTop.c_solve_left
#check @M4ri.GenTieTop.c_solve_left_eq
#check @M4ri.GenTieTop.c_solve_left_closed
#check @M4ri.GenTieTop.c_solve_left_russian
#check @M4ri.GenTieTop.solveLeftTop_congr
#check @M4ri.GenTieTop.pluqSolveLeft_closed
#check @M4ri.GenTieTop.extra_needed

/-! ### AS MUCH GENERATED CODE AS POSSIBLE AT ONCE (GenTieMax.lean): the generated `_mzd_solve_left` over `cPluqMax` (see C03) and over the generated
    `_mzd_pluq_solve_left` whose two triangular solves are the closed generated recursions and whose product is the generated `mzd_addmul`, all over
    the generated `_mzd_add`: verdict 0 iff solvable, and then a solution -/
#check @M4ri.GenTieMax.pluqSolveLeft_closedG
#check @M4ri.GenTieMax.c_solve_left_max
