/-
  C20 — allocation failure ends in the controlled abort (PARTIAL). Model: a run is a list of allocation requests, each
  tagged with its call site; a site is `wrapper` (m4ri_mm_*: dies on NULL when size > 0), `checked` (explicit NULL test
  followed by m4ri_die) or `unchecked`. The inventory of ALL allocation call sites is regenerated from /repo/m4ri/*.c,*.h
  on every check (vlib/translate.py → M4ri/Gen/Params.lean `allocSites`); `inventory_all_checked` is a GENERATED proof
  obligation: it is re-proved by `decide` against the current source and stops compiling as soon as a site's result is
  used untested. Proved: if every site is checked, then for every run and every fault position the run dies at exactly
  that request and never dereferences the null result; an unchecked site is exposed by the fault at its position.
  Implementation only (the model cannot exhibit what the hardware does with NULL): for 22 scenarios (create, window,
  each multiplication route, eliminate, factor, invert, solve, kernel, transpose, permutation, PNG, DJB, header-cache
  growth) the i-th request issued by library code is made to fail in a child process for every i; the child must end
  through m4ri_die; every run-time call site is by construction one of the inventory's (same objects).
-/
import M4riProofs.AllocFail
namespace M4ri.Props.C20
open M4ri.AllocFail

/-- generated obligation: every allocation call site of the current source tree is checked -/
theorem every_site_checked : inventoryAllChecked = true := inventory_all_checked

/-- for every run built from the inventory's sites and every fault position: the run dies right there -/
theorem any_single_fault_is_controlled (reqs : List Request) (hfrom : FromSites inventorySites reqs) (i : Nat)
    (hi : i < reqs.length) : run reqs i = .died i := every_fault_dies reqs hfrom i hi

/-- conversely an unchecked site is exposed by the fault at its position (so the obligation is not vacuous) -/
theorem unchecked_site_is_exposed (reqs : List Request) (i : Nat) (hi : i < reqs.length)
    (hu : (reqs[i]).site.kind = .unchecked) : run reqs i = .nullDeref i := unchecked_exposed reqs i hi hu

#check @M4ri.AllocFail.every_plan_safe
#check @M4ri.AllocFail.every_plan_dies_at_first
#check @M4ri.AllocFail.safe_iff
#check @M4ri.AllocFail.classify_unchecked_detected

end M4ri.Props.C20
