/-
  C10 — purity and zero padding.
  (i) every matrix the model allocates (`…New`, `ofB`) has zero excess bits (`padZero`), whatever the excess bits of
      the (possibly windowed) sources were; in-place writers preserve `padZero` (`padZero_putB`, and the `_bit` theorems);
  (ii) results do not depend on heap junk: the Four-Russians index arrays (`L`, from malloc) and the prior table /
      destination contents are universally quantified in the product theorems (`junk`, `auto`, prior `C`);
  (iii) the allocator hands out zeroed matrices whatever block is recycled (C14 `fresh_zero`).
  The model is a pure function of operand VALUES by construction; that the C code is too is what the correspondence run
  under different heap fills (0xFF / 0xA5 / PRNG, freed memory poisoned) and histories measures.
  Added (M4riProofs/MulW.lean): word-level statements of (ii) — the prior content of the table storage, the `stale`
  parity words of `_mzd_mul_naive`, `junk` behind L and the excess bits of A, B, C are all universally quantified in
  `m4rmW_spec`, `mulNaiveTW_spec`, `makeTableW_sim`; `mulNaiveTW_needs_padZero` shows that the one place where padding
  is READ as data (the already transposed operand of `_mzd_mul_naive`) really needs the zero padding invariant.
-/
import M4riProofs.W.DataMove
import M4riProofs.Bridge
import M4riProofs.Gray
import M4riProofs.Props.C01
import M4riProofs.Alloc
import M4riProofs.MulW
namespace M4ri.Props.C10
open M4ri M4ri.Mzd

theorem copy_new_pad_zero (P : Mzd) : (copyNew P).padZero := copyNew_padZero P
theorem add_new_pad_zero (A B : Mzd) : (addInto (zero A.nrows A.ncols) A B).padZero := addInto_zero_padZero A B
theorem submatrix_new_pad_zero (M : Mzd) (lr lc hr hc : Nat) : (submatrixNew M lr lc hr hc).padZero :=
  submatrixNew_padZero M lr lc hr hc
theorem stack_new_pad_zero (A B : Mzd) (hc : B.ncols = A.ncols) : (stackNew A B).padZero := stackNew_padZero A B hc
theorem concat_new_pad_zero (A B : Mzd) (hr : B.nrows = A.nrows) : (concatNew A B).padZero := concatNew_padZero A B hr

#check @M4ri.Mzd.extractUNew_padZero
#check @M4ri.Mzd.extractLNew_padZero
#check @M4ri.Mzd.padZero_ofB
#check @M4ri.Mzd.padZero_putB
#check @M4ri.Mzd.zero_padZero

/-- lookup tables: the answer does not depend on what the index array contained (heap junk) -/
theorem table_independent_of_junk (rows : Array Nat) (nrows ncols r c k : Nat) (junk junk' : Nat → Nat)
    (hr : r + k ≤ nrows) (x : Nat) (hx : x < 2 ^ k) :
    (makeTable rows nrows ncols r c k (freshTable k junk).1 (freshTable k junk).2).1.getD
        ((makeTable rows nrows ncols r c k (freshTable k junk).1 (freshTable k junk).2).2.getD x 0) 0 =
    (makeTable rows nrows ncols r c k (freshTable k junk').1 (freshTable k junk').2).1.getD
        ((makeTable rows nrows ncols r c k (freshTable k junk').1 (freshTable k junk').2).2.getD x 0) 0 := by
  rw [(makeTable_fresh rows nrows ncols r c k junk hr x hx).2, (makeTable_fresh rows nrows ncols r c k junk' hr x hx).2]

/-- products: independent of heap junk, of the heuristic's choice and of the prior destination contents -/
theorem product_independent_of_junk_and_destination (C C' A B : BMat) (k auto auto' : Nat) (junk junk' : Nat → Nat)
    (hB : B.WF) (hC : C.rows.size = C.nrows) (hC' : C'.rows.size = C'.nrows) (hr : C.nrows = A.nrows)
    (hr' : C'.nrows = A.nrows) (hc : C.ncols = B.ncols) (hc' : C'.ncols = B.ncols) (hl : A.ncols = B.nrows) :
    BMat.m4rm C A B k true auto junk = BMat.m4rm C' A B k true auto' junk' := by
  rw [BMat.m4rm_clear C A B k auto junk 8 54 hB hC hr hc hl, BMat.m4rm_clear C' A B k auto' junk' 8 54 hB hC' hr' hc' hl]

#check @M4ri.Props.C01.mul_strassen
#check @M4ri.Alloc.fresh_zero

#check @M4ri.Mzd.W.m4rmW_spec
#check @M4ri.Mzd.W.mulNaiveTW_spec
#check @M4ri.Mzd.W.mulNaiveTW_needs_padZero
#check @M4ri.Mzd.W.makeTableW_sim
#check @M4ri.Mzd.W.makeTableW_toB

end M4ri.Props.C10
