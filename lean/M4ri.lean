import M4ri.Word
import M4ri.Mzd
import M4ri.BMat
import M4ri.Spec
import M4ri.Proto
import M4ri.Ops
import M4ri.Gen.Params
