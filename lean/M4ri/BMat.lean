/-
  R storey: a row is one `Nat` (bit j = column j); a matrix is `nrows`, `ncols` and an array of rows.
  Also the lens between the W and R storeys (pack the words of a view into a `Nat`, masked to `ncols`;
  write a value back into a view keeping the excess bits).
-/
import M4ri.Mzd
namespace M4ri

structure BMat where
  nrows : Nat
  ncols : Nat
  rows  : Array Nat
deriving Repr, BEq, Inhabited

namespace BMat

def row (B : BMat) (i : Nat) : Nat := B.rows.getD i 0
def get (B : BMat) (i j : Nat) : Bool := (B.row i).testBit j
def zero (r c : Nat) : BMat := ⟨r, c, Array.replicate r 0⟩
def identity (n : Nat) : BMat := ⟨n, n, (Array.range n).map fun i => 2 ^ i⟩
def setRow (B : BMat) (i : Nat) (r : Nat) : BMat := { B with rows := B.rows.setIfInBounds i r }

/-- all rows are `< 2^ncols` and the row count is right -/
def WF (B : BMat) : Prop := B.rows.size = B.nrows ∧ ∀ i, B.row i < 2 ^ B.ncols

/-- entry-wise transpose (specification-level definition) -/
def transpose (B : BMat) : BMat :=
  ⟨B.ncols, B.nrows, (Array.range B.ncols).map fun j =>
    (List.range B.nrows).foldl (fun acc i => if B.get i j then acc ||| (1 <<< i) else acc) 0⟩

/-- textbook product: row i of the result is the XOR of the rows of `B` selected by row i of `A` -/
def comb (a : Nat) (rows : Array Nat) (n : Nat) : Nat :=
  (List.range n).foldl (fun acc j => if a.testBit j then acc ^^^ rows.getD j 0 else acc) 0

def mul (A B : BMat) : BMat :=
  ⟨A.nrows, B.ncols, (Array.range A.nrows).map fun i => comb (A.row i) B.rows A.ncols⟩

def add (A B : BMat) : BMat :=
  ⟨A.nrows, A.ncols, (Array.range A.nrows).map fun i => A.row i ^^^ B.row i⟩

end BMat

/-- pack words (little end first) into a `Nat` -/
def packWords (r : Row) : Nat := r.foldr (fun w acc => acc <<< 64 ||| w.toNat) 0

/-- unpack the low `64·width` bits of a `Nat` into words -/
def unpackWords (n width : Nat) : Row := (Array.range width).map fun j => BitVec.ofNat 64 (n >>> (64 * j))

namespace Mzd

/-- the abstract value of a view: excess bits are cut off -/
def toB (M : Mzd) : BMat :=
  ⟨M.nrows, M.ncols, M.rows.map fun r => packWords r % 2 ^ M.ncols⟩

/-- lens `put`: the entries come from `B`, the excess bits of the last word stay as they are in `M` -/
def putB (M : Mzd) (B : BMat) : Mzd :=
  M.withRows (M.rows.mapIdx fun i r =>
    let v := B.row i % 2 ^ M.ncols
    let nw := unpackWords v M.width
    r.mapIdx fun j w =>
      if j + 1 < M.width then nw.getD j 0
      else if j + 1 = M.width then merge w (nw.getD j 0) M.hb else w)

/-- a fresh owned matrix holding `B` (zero padding) -/
def ofB (B : BMat) : Mzd :=
  ⟨B.nrows, B.ncols, (Array.range B.nrows).map fun i => unpackWords (B.row i % 2 ^ B.ncols) (widthOf B.ncols)⟩

end Mzd
end M4ri
