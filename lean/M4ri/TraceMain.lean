/-
  Driver of the access-trace model (M4ri/Safety.lean): one primitive call per input line, prints the sorted multiset of
  word accesses "operand,row,word,R|W,8|16" that the model predicts.  vlib/extras.py (C11) compares it with the trace
  of the real code recorded by `valgrind --tool=lackey --trace-mem=yes` on harness/trace_drv.c.
-/
import M4ri.Safety
open M4ri.Safety

def fmt (a : Access) : String :=
  s!"{a.op},{a.row},{a.word},{if a.kind == .read then "R" else "W"},{if a.vec then 16 else 8}"

def hdr (n c p : Nat) : Hdr := ⟨n, c, 0, p⟩

def run (ws : List String) : List Access :=
  match ws with
  | [] => []
  | f :: as =>
    let a := as.toArray.map (fun s => s.toNat!)
    let g := fun i => a[i]!
    match f with
    | "rowadd" => accRowAddOffset (hdr (g 0) (g 1) (g 2)) (g 3) (g 4) (g 5)
    | "cip" => accCombineEvenInPlace (hdr (g 0) (g 1) (g 2)) (hdr (g 3) (g 4) (g 5)) (g 6) (g 7) (g 8) (g 9)
    | "ce" => accCombineEven (hdr (g 0) (g 1) (g 2)) (hdr (g 3) (g 4) (g 5)) (hdr (g 6) (g 7) (g 8)) (g 9) (g 10) (g 11) (g 12) (g 13) (g 14)
    | "comb" => accCombine (g 0) ⟨g 2, g 3⟩ ⟨g 4, g 5⟩ (g 6)
    | "combN" => accCombineN (g 1) (g 0) ⟨g 3, g 4⟩ (fun j => ⟨j % 4, g 5⟩) (g 6)
    | "rowswap" => accRowSwap (hdr (g 0) (g 1) (g 2)) (g 3) (g 4) (g 5)
    | "colswap" => accColSwapInRows (g 3) (g 4) (g 5) (g 6)
    | "readbits" => accReadBits (g 3) (g 4) (g 5)
    | "xorbits" => accXorBits (g 3) (g 4) (g 5)
    | "andbits" => accAndBits (g 3) (g 4) (g 5)
    | "clearbits" => accClearBits (g 3) (g 4) (g 5)
    | "clearoff" => accRowClearOffset (hdr (g 0) (g 1) (g 2)) (g 3) (g 4)
    | "copy" => accCopy (hdr (g 3) (g 4) (g 5))
    | "copyrow" => accCopyRow (hdr (g 0) (g 1) (g 2)) (hdr (g 3) (g 4) (g 5)) (g 6) (g 7)
    | "add" => accAdd (fun o => if o = 0 then hdr (g 0) (g 1) (g 2) else if o = 1 then hdr (g 3) (g 4) (g 5) else hdr (g 6) (g 7) (g 8)) false
    | "submatrix" => accSubmatrix (g 6) (g 7) (g 8) (g 9)
    | "findpivot" => accFindPivot (hdr (g 0) (g 1) (g 2)) (g 3) (g 4)
    | "maketable" =>   -- M hdr; r c k; then inc list
      let inc := (as.drop 6).toArray.map (fun s => s.toNat!)
      accMakeTable (hdr (g 0) (g 1) (g 2)) (g 3) (g 4) (g 5) (fun i => inc[i]!)
    | "processrows" =>  -- M hdr; startrow stoprow startcol k fill; then bits per row
      let bits := (as.drop 8).toArray.map (fun s => s.toNat!)
      accProcessRows (hdr (g 0) (g 1) (g 2)) (g 3) (g 4) (g 5) (g 6) (fun r => bits[r]!) (fun r => bits[r]! != 0)
    | _ => []

partial def loop (h : IO.FS.Stream) : IO Unit := do
  let l ← h.getLine
  if l.isEmpty then return
  let ws := (l.trim.splitOn " ").filter (· ≠ "")
  let tr := run ws
  let ss := (tr.map fmt).toArray.qsort (· < ·)
  IO.println (" ".intercalate ss.toList)
  loop h

def main : IO Unit := do loop (← IO.getStdin)
