/-
  Driver of the access-trace model (M4ri/Safety.lean): one primitive call per input line, prints the sorted multiset of
  word accesses "operand,row,word,R|W,8|16" that the model predicts.  vlib/extras.py (C11) compares it with the trace
  of the real code recorded by `valgrind --tool=lackey --trace-mem=yes` on harness/trace_drv.c.
-/
import M4ri.Safety2
open M4ri.Safety

def fmt (a : Access) : String :=
  s!"{a.op},{a.row},{a.word},{if a.kind == .read then "R" else "W"},{if a.vec then 16 else 8}"

def hdr (n c p : Nat) : Hdr := ⟨n, c, 0, p⟩

def run (ws : List String) : List Access :=
  match ws with
  | [] => []
  | f :: as =>
    let a := as.toArray.map (fun s => s.toNat!)
    let g := fun i => a[i]!
    match f with
    | "rowadd" => accRowAddOffset (hdr (g 0) (g 1) (g 2)) (g 3) (g 4) (g 5)
    | "cip" => accCombineEvenInPlace (hdr (g 0) (g 1) (g 2)) (hdr (g 3) (g 4) (g 5)) (g 6) (g 7) (g 8) (g 9)
    | "ce" => accCombineEven (hdr (g 0) (g 1) (g 2)) (hdr (g 3) (g 4) (g 5)) (hdr (g 6) (g 7) (g 8)) (g 9) (g 10) (g 11) (g 12) (g 13) (g 14)
    | "comb" => accCombine (g 0) ⟨g 2, g 3⟩ ⟨g 4, g 5⟩ (g 6)
    | "combN" => accCombineN (g 1) (g 0) ⟨g 3, g 4⟩ (fun j => ⟨j % 4, g 5⟩) (g 6)
    | "rowswap" => accRowSwap (hdr (g 0) (g 1) (g 2)) (g 3) (g 4) (g 5)
    | "colswap" => accColSwapInRows (g 3) (g 4) (g 5) (g 6)
    | "readbits" => accReadBits (g 3) (g 4) (g 5)
    | "xorbits" => accXorBits (g 3) (g 4) (g 5)
    | "andbits" => accAndBits (g 3) (g 4) (g 5)
    | "clearbits" => accClearBits (g 3) (g 4) (g 5)
    | "clearoff" => accRowClearOffset (hdr (g 0) (g 1) (g 2)) (g 3) (g 4)
    | "copy" => accCopy (hdr (g 3) (g 4) (g 5))
    | "copyrow" => accCopyRow (hdr (g 0) (g 1) (g 2)) (hdr (g 3) (g 4) (g 5)) (g 6) (g 7)
    | "add" => accAdd (fun o => if o = 0 then hdr (g 0) (g 1) (g 2) else if o = 1 then hdr (g 3) (g 4) (g 5) else hdr (g 6) (g 7) (g 8)) false
    | "submatrix" => accSubmatrix (g 6) (g 7) (g 8) (g 9)
    | "findpivot" => accFindPivot (hdr (g 0) (g 1) (g 2)) (g 3) (g 4)
    | "maketable" =>   -- M hdr; r c k; then inc list
      let inc := (as.drop 6).toArray.map (fun s => s.toNat!)
      accMakeTable (hdr (g 0) (g 1) (g 2)) (g 3) (g 4) (g 5) (fun i => inc[i]!)
    | "processrows" =>  -- M hdr; startrow stoprow startcol k fill; then bits per row
      let bits := (as.drop 8).toArray.map (fun s => s.toNat!)
      accProcessRows (hdr (g 0) (g 1) (g 2)) (g 3) (g 4) (g 5) (g 6) (fun r => bits[r]!) (fun r => bits[r]! != 0)
    | "prowsN" =>   -- N ; M hdr ; phT ; startrow stoprow startcol k fill ; then x_j per row (N per row)
      let xs := (as.drop 10).toArray.map (fun s => s.toNat!)
      accProcessRowsN (hdr (g 1) (g 2) (g 3)) (g 0) (g 5) (g 6) (g 7) (g 8) (fun r j => xs[r * g 0 + j]!)
    | "applyleft" =>   -- nrows ncols phase trans plen mode seed ; then P values
      let P := (as.drop 7).toArray.map (fun s => s.toNat!)
      if g 3 = 0 then accApplyPLeft (hdr (g 0) (g 1) (g 2)) (g 4) (fun i => P[i]!)
      else accApplyPLeftTrans (hdr (g 0) (g 1) (g 2)) (g 4) (fun i => P[i]!)
    | "colswapfull" => accColSwap (hdr (g 0) (g 1) (g 2)) (g 3) (g 4)
    | "apright" =>   -- nrows ncols phase start_row start_col notrans plen mode seed ; then L1, P values
      let P := (as.drop 10).toArray.map (fun s => s.toNat!)
      accApplyPRightEven (hdr (g 0) (g 1) (g 2)) (g 9) (g 6) (fun i => P[i]!) (g 3) (g 4) (g 5 != 0)
    | "aprtri" =>   -- nrows ncols phase mode seed ; then L1, P values
      let P := (as.drop 6).toArray.map (fun s => s.toNat!)
      accApplyPRightTransTri (hdr (g 0) (g 1) (g 2)) (g 5) (fun i => P[i]!)
    | "compressl" => accCompressL (hdr (g 0) (g 1) (g 2)) (g 3) (g 4) (g 5)   -- nrows ncols phase r1 n1 r2
    | "prple" =>   -- N ; M hdr ; phT ; startrow stoprow startcol fill tw ; k_0..k_{N-1} ; then x_j per row (N per row)
      let N := g 0
      let ks := ((as.drop 10).take N).map (fun s => s.toNat!)
      let xs := (as.drop (10 + N)).toArray.map (fun s => s.toNat!)
      accProcessRowsPle (hdr (g 1) (g 2) (g 3)) ks (g 5) (g 6) (g 7) (fun r j => xs[r * N + j]!)
    | "a11" =>   -- N ; A hdr ; phT ; start_row stop_row start_col block fill tw ; k_0..k_{N-1} ; then x_j per row
      let N := g 0
      let ks := ((as.drop 11).take N).map (fun s => s.toNat!)
      let xs := (as.drop (11 + N)).toArray.map (fun s => s.toNat!)
      if N = 1 then accPleA11_1 (hdr (g 1) (g 2) (g 3)) (g 5) (g 6) (g 7) (g 8) (g 11) (fun r => xs[r]!)
      else accPleA11N (hdr (g 1) (g 2) (g 3)) ks (g 5) (g 6) (g 7) (g 8) (fun r j => xs[r * N + j]!)
    | "a10" =>   -- A hdr ; start_row start_col addblock k fill ; pivots[0..k) ; then P->values[start_row..+k), bits (i,j), j<i
      let k := g 6
      let xs := (as.drop 8).toArray.map (fun s => s.toNat!)
      accPleA10 (hdr (g 0) (g 1) (g 2)) (g 3) (g 4) (g 5) k (fun i => xs[k + (i - g 3)]!) (fun i => xs[i]!)
        (fun i j => xs[2 * k + i * (i - 1) / 2 + j]! != 0)
    | "mtple" =>   -- A hdr ; T hdr ; r writecol k knar readcol fullrank fill ; then inc list
      let inc := (as.drop 13).toArray.map (fun s => s.toNat!)
      accMakeTablePle (hdr (g 3) (g 4) (g 5)) (g 6) (g 7) (g 8) (g 9) (g 10) (g 11 != 0) (fun i => inc[i]!)
    | "tk_64x64" => acc64x64 (some 0) (some 1) ⟨g 6, g 7⟩ ⟨g 8, g 9⟩
    | "tk_64x64_2" => acc64x64_2 (some 0) (some 1) ⟨g 6, g 7⟩ ⟨g 10, g 11⟩ ⟨g 8, g 9⟩ ⟨g 12, g 13⟩
    | "tk_lt64x64" => accLt64x64 (some 0) (some 1) ⟨g 6, g 7⟩ ⟨g 8, g 9⟩ (g 10)
    | "tk_64xlt64" => acc64xlt64 (some 0) (some 1) ⟨g 6, g 7⟩ ⟨g 8, g 9⟩ (g 10)
    | "tk_le8" => accLe8 (some 0) (some 1) ⟨g 6, g 7⟩ ⟨g 8, g 9⟩ (g 10) (g 11)
    | "tk_le16" => accLe16 (some 0) (some 1) ⟨g 6, g 7⟩ ⟨g 8, g 9⟩ (g 10) (g 11)
    | "tk_le32" => accLe32 (some 0) (some 1) ⟨g 6, g 7⟩ ⟨g 8, g 9⟩ (g 10) (g 11)
    | "tk_le64" => accLe64 (some 0) (some 1) ⟨g 6, g 7⟩ ⟨g 8, g 9⟩ (g 10) (g 11)
    | "tk_small" => accSmall (some 0) (some 1) ⟨g 6, g 7⟩ ⟨g 8, g 9⟩ (g 10) (g 11) (g 12)
    | "tk_base" => accTransposeBase ⟨g 6, g 7⟩ ⟨g 8, g 9⟩ (g 10) (g 11)
    | "tk_notsmall" => accTransposeNotsmall (g 10 + g 11) ⟨g 6, g 7⟩ ⟨g 8, g 9⟩ (g 10) (g 11) (g 12)
    | "tk_top" => accTransposeTop ⟨g 6, g 7⟩ ⟨g 8, g 9⟩ (g 10) (g 11) (g 12)
    | "transpose" =>   -- A hdr (nrows ncols phase) kindA ; phaseD kindD ; then X: dangerA dangerD.  Temporaries (operands 2, 3) are not recorded
      (accMzdTranspose (hdr (g 0) (g 1) (g 2)) (g 6 != 0) (g 7 != 0)).filter (fun a => a.op < 2)
    | "trsmsub" =>   -- upper ; U hdr ; B hdr ; start_row k fill ; then the k x k bits of U at (start_row, start_row), row-major
      let bits := (as.drop 10).toArray.map (fun s => s.toNat!)
      let u := fun (r c : Nat) => bits[(r - g 7) * g 8 + (c - g 7)]! != 0
      if g 0 = 1 then accTrsmUpperLeftSubmatrix (hdr (g 4) (g 5) (g 6)) (g 7) (g 8) u
      else accTrsmLowerLeftSubmatrix (hdr (g 4) (g 5) (g 6)) (g 7) (g 8) u
    | "mktrtri" =>   -- M hdr ; T hdr ; r c k startcol ; then inc list
      let inc := (as.drop 10).toArray.map (fun s => s.toNat!)
      accMakeTableTrtri (hdr (g 3) (g 4) (g 5)) (g 6) (g 7) (g 8) (g 9) (fun i => inc[i]!)
    | "trsmrus" =>   -- upper ; nU phU ; B hdr ; k fill ; then for kq = 1..k: inc[kq][0..2^kq) ord[kq][0..2^kq) ; then the n x ⌈n/64⌉ words of U
      let xs := (as.drop 8).toArray.map (fun s => s.toNat!)
      let n := g 1
      let k := g 6
      let inc := fun (kq i : Nat) => xs[2 * (2 ^ kq - 2) + i]!
      let ord := fun (kq i : Nat) => xs[2 * (2 ^ kq - 2) + 2 ^ kq + i]!
      let base := 2 * (2 ^ (k + 1) - 2)
      let u := fun (r c : Nat) => (xs[base + r * ((n + 63) / 64) + c / 64]! >>> (c % 64)) % 2 != 0
      let x := fun (kq col j : Nat) =>
        let v := (List.range kq).foldl (fun acc b => acc + (if u j (col + b) then 2 ^ b else 0)) 0
        ((List.range (2 ^ kq)).find? (fun i => ord kq i == v)).getD 0     -- L[ord[i]] = i
      if g 0 = 1 then accTrsmUpperLeftRussian (hdr (g 3) (g 4) (g 5)) k u inc x
      else accTrsmLowerLeftRussian (hdr (g 3) (g 4) (g 5)) n k u inc x
    | "trtrisub" =>   -- A hdr ; pivot_r elim_r k fill ; then the bits in the order they are read
      let xs := (as.drop 7).toArray.map (fun s => s.toNat!)
      let off := fun (i : Nat) => (List.range (i - g 3)).foldl (fun acc d => acc + (g 3 + d - g 4)) 0
      let u := fun (j i : Nat) => xs[off i + (j - g 4)]! != 0
      accTrtriUpperSubmatrix (hdr (g 0) (g 1) (g 2)) (g 3) (g 4) (g 5) u
    | _ => []

partial def loop (h : IO.FS.Stream) : IO Unit := do
  let l ← h.getLine
  if l.isEmpty then return
  let ws := (l.trim.splitOn " ").filter (· ≠ "")
  let tr := run ws
  let ss := (tr.map fmt).toArray.qsort (· < ·)
  IO.println (" ".intercalate ss.toList)
  loop h

def main : IO Unit := do loop (← IO.getStdin)
