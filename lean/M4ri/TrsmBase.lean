/-
  R storey: the BASE CASES of the triangular routines, value level (rows as `Nat`), and the complete routines
  (regime switches + recursion + real base cases).
    triangular.c         : the `mb <= m4ri_radix` kernels inside `_mzd_trsm_lower_left` / `_mzd_trsm_upper_left`,
                           `_mzd_trsm_upper_right_base`, `_mzd_trsm_lower_right_base` (with `_mzd_trsm_pack`,
                           `m4ri_parity64`, `_mzd_trsm_unpack`), `_mzd_trsm_upper_right_trtri`,
                           the regime switches of `_mzd_trsm_{lower,upper}_{left,right}` and `mzd_trtri_upper`
    triangular_russian.c : `_mzd_trsm_upper_left_submatrix`, `_mzd_trsm_upper_left_russian`,
                           `_mzd_trsm_lower_left_submatrix`, `_mzd_trsm_lower_left_russian`,
                           `mzd_make_table_trtri`, `_mzd_trtri_upper_submatrix`, `mzd_trtri_upper_russian`
    ple_russian.c        : `_mzd_ple_to_e` (identity offsets), `_mzd_process_rows_ple_4` (template, general in N)
  Conventions
    * a word loop `Brow[j] ^= Bsrc[j]` with `mask_end` on the last word is the XOR of two rows (`xorRow`);
      rows of a well-formed `BMat` have no bits beyond `ncols`;
    * reads of `row[0]` (the first word) are kept: `w0`, `getW0`;
    * Gray-code tables are the R-level `makeTable` on fresh storage (`freshTable`; `junk` = prior content of the
      index arrays), several tables = `M4RI.makeTables`, lookup = `M4RI.applyTables`;  the C code keeps the table
      storage for the whole call: only rows/indices that are rewritten by each `mzd_make_table` are ever read;
    * loops with a data-independent trip count are folds over `List.range`; the two `while` loops of every
      `_russian` routine are functions with fuel (`nrows` iterations are always enough since `k ≥ 1`);
    * cache sizes and the SSE2 switch are parameters (`Params`);  `mzd_addmul(C, A, B, cutoff)` is `C.add (A.mul B)`
      as in `M4ri/TrsmRec.lean`.
  Core Lean only.  Validated bit for bit against the C code (scratch/README of task PB25).
-/
import M4ri.TrsmRec
import M4ri.M4riElim
namespace M4ri
namespace BMat
namespace TB

/-! ### helpers -/

/-- `Brow_dst ^= Brow_src` over all words, the last one under `mask_end` -/
def xorRow (B : BMat) (dst src : Nat) : BMat := B.setRow dst (B.row dst ^^^ B.row src)

/-- the first word of row `i` as a number (`mzd_row(M, i)[0]`) -/
def w0 (M : BMat) (i : Nat) : Nat := M.row i % 2 ^ 64

/-- `__M4RI_GET_BIT(mzd_row(M, i)[0], j)` -/
def getW0 (M : BMat) (i j : Nat) : Bool := (w0 M i).testBit j

/-! ### the `mb <= m4ri_radix` kernels of `_mzd_trsm_lower_left` / `_mzd_trsm_upper_left` (triangular.c:411, 471) -/

/-- `for (i = 1; i < mb; ++i) for (k = 0; k < i; ++k) if (GET_BIT(Lrow[0], k)) Brow_i ^= Brow_k` -/
def lowerLeftKernel (L B : BMat) : BMat :=
  (List.range' 1 (B.nrows - 1)).foldl (fun X i =>
    (List.range i).foldl (fun X k => if getW0 L i k then xorRow X i k else X) X) B

/-- `for (i = mb - 2; i >= 0; --i) for (k = i + 1; k < mb; ++k) if (GET_BIT(Urow[0], k)) Brow_i ^= Brow_k` -/
def upperLeftKernel (U B : BMat) : BMat :=
  (List.range (B.nrows - 1)).reverse.foldl (fun X i =>
    (List.range' (i + 1) (B.nrows - (i + 1))).foldl (fun X k => if getW0 U i k then xorRow X i k else X) X) B

/-! ### `_mzd_trsm_upper_right_base`, `_mzd_trsm_lower_right_base` (triangular.c:262, 361) -/

/-- `ucol`: bit `k` is `U[k, i]` for `k < i` (read from the first word of row `k`) -/
def ucolUpper (U : BMat) (i : Nat) : Nat :=
  (List.range i).foldl (fun u k => if getW0 U k i then u ||| (1 <<< k) else u) 0

/-- `ucol`: bit `k` is `L[k, i]` for `i < k < nb` -/
def ucolLower (L : BMat) (i nb : Nat) : Nat :=
  (List.range' (i + 1) (nb - (i + 1))).foldl (fun u k => if getW0 L k i then u ||| (1 <<< k) else u) 0

/-- one block of `cnt ≤ 64` rows from row `g` on:  `tmp[b] = B[g+b][0] & ucol` (`_mzd_trsm_pack`, resp. the
    remainder loop which fills up with zeros), `dotprod = m4ri_parity64(tmp)`, then bit `i` of row `g + b` is
    flipped when bit `b` of `dotprod` is set (`_mzd_trsm_unpack`, resp. the `__M4RI_FLIP_BIT` loop) -/
def giantStep (B : BMat) (g cnt ucol i : Nat) : BMat :=
  let tmp : Nat → Word := fun b => if b < cnt then BitVec.ofNat 64 (w0 B (g + b) &&& ucol) else 0
  let dotprod := parity64 tmp
  (List.range cnt).foldl (fun X b =>
    if dotprod.getLsbD b then X.setRow (g + b) (X.row (g + b) ^^^ (1 <<< i)) else X) B

/-- all rows for one column `i`: the giant steps `giantstep + 64 < mb`, then the remaining `1..64` rows -/
def dotStep (B : BMat) (ucol i : Nat) : BMat :=
  let nfull := (B.nrows - 1) / 64
  let B1 := (List.range nfull).foldl (fun X q => giantStep X (64 * q) 64 ucol i) B
  giantStep B1 (64 * nfull) (B.nrows - 64 * nfull) ucol i

/-- `_mzd_trsm_upper_right_base(U, B)` (`nb ≤ 64`) -/
def upperRightBase (U B : BMat) : BMat :=
  (List.range' 1 (B.ncols - 1)).foldl (fun X i => dotStep X (ucolUpper U i) i) B

/-- `_mzd_trsm_lower_right_base(L, B)` (`nb ≤ 64`) -/
def lowerRightBase (L B : BMat) : BMat :=
  (List.range B.ncols).reverse.foldl (fun X i => dotStep X (ucolLower L i B.ncols) i) B

/-! ### Four-Russians solves from the left (triangular_russian.c:14-320) -/

/-- `_mzd_trsm_lower_left_submatrix(L, B, start_row, k, mask_end)` -/
def lowerLeftSubmatrix (L B : BMat) (start k : Nat) : BMat :=
  (List.range k).foldl (fun X i =>
    (List.range i).foldl (fun X j =>
      if L.get (start + i) (start + j) then xorRow X (start + i) (start + j) else X) X) B

/-- `_mzd_trsm_upper_left_submatrix(U, B, start_row, k, mask_end)` -/
def upperLeftSubmatrix (U B : BMat) (start k : Nat) : BMat :=
  (List.range k).foldl (fun X i =>
    (List.range i).foldl (fun X j =>
      if U.get (start + (k - i - 1)) (start + (k - i) + j) then
        xorRow X (start + (k - i - 1)) (start + (k - i) + j) else X) X) B

/-- the automatic choice of `k` in both `_russian` solves:
    `k = (int)log2((L2/8) / width / NTABLES)`, `klog = round(0.75 * log2_floor(MIN(nrows, ncols)))`,
    `k = MIN(k, klog)` clamped to `[2, 8]`.  (A value below 1 of the first quotient gives a non-positive `k` in C
    and `0` here; both are clamped to 2.  `round(0.75 n) = (3n + 2) / 4`.) -/
def trsmK (l2 : Nat) (B : BMat) : Nat :=
  let width := (B.ncols + 63) / 64
  let k := Nat.log2 (l2 / 8 / (width * Gen.trsmNTables))
  let klog := (3 * log2Floor (min B.nrows B.ncols) + 2) / 4
  let k := if klog < k then klog else k
  if k < 2 then 2 else if k > 8 then 8 else k

/-- the row loop after the tables have been made: row `j` of `B` gets the XOR of the table rows selected by the
    `kk` bits of row `j` of the triangular matrix from column `c` on (`_mzd_combine_N`) -/
def addTables (B T : BMat) (lo hi c kk : Nat) (tabs : List M4RI.Table) : BMat :=
  (List.range' lo (hi - lo)).foldl (fun X j =>
    X.setRow j (X.row j ^^^ (M4RI.applyTables tabs (bitsAt (T.row j) c kk)).1)) B

/-- first loop of `_mzd_trsm_lower_left_russian`: `for (; i < B->nrows - kk; i += kk)` with `kk = NTABLES * k` -/
def lowerLeftMain (L : BMat) (k : Nat) (junk : Nat → Nat) : Nat → Nat → BMat → Nat × BMat
  | 0, i, B => (i, B)
  | fuel + 1, i, B =>
    let kk := Gen.trsmNTables * k
    if i + kk < B.nrows then
      let B := lowerLeftSubmatrix L B i kk
      let tabs := M4RI.makeTables B i 0 junk (List.replicate Gen.trsmNTables k) 0
      let B := addTables B L (i + kk) B.nrows i kk tabs
      lowerLeftMain L k junk fuel (i + kk) B
    else (i, B)

/-- second loop: `for (; i < B->nrows; i += k) { if (i > B->nrows - k) k = B->nrows - i; … }`, one table -/
def lowerLeftRest (L : BMat) (junk : Nat → Nat) : Nat → Nat → Nat → BMat → BMat
  | 0, _, _, B => B
  | fuel + 1, i, k, B =>
    if i < B.nrows then
      let k := if i + k > B.nrows then B.nrows - i else k
      let B := lowerLeftSubmatrix L B i k
      let tabs := M4RI.makeTables B i 0 junk [k] 0
      let B := addTables B L (i + k) B.nrows i k tabs
      lowerLeftRest L junk fuel (i + k) k B
    else B

/-- `_mzd_trsm_lower_left_russian(L, B, k)` for a given `k ≥ 1` -/
def lowerLeftRussian (L B : BMat) (k : Nat) (junk : Nat → Nat := fun _ => 0) : BMat :=
  let iB := lowerLeftMain L k junk B.nrows 0 B
  lowerLeftRest L junk B.nrows iB.1 k iB.2

/-- `_mzd_trsm_lower_left_russian(L, B, k)`, `k = 0` meaning automatic -/
def lowerLeftRussianK (l2 : Nat) (L B : BMat) (k : Nat) (junk : Nat → Nat := fun _ => 0) : BMat :=
  lowerLeftRussian L B (if k = 0 then trsmK l2 B else k) junk

/-- first loop of `_mzd_trsm_upper_left_russian`; the strip is `[nrows - i - kk, nrows - i)`; table `T[u]` of the
    C code is made from the rows `nrows - i - (u+1) k …`, i.e. in ascending row order `T[7], …, T[0]` -/
def upperLeftMain (U : BMat) (k : Nat) (junk : Nat → Nat) : Nat → Nat → BMat → Nat × BMat
  | 0, i, B => (i, B)
  | fuel + 1, i, B =>
    let kk := Gen.trsmNTables * k
    if i + kk < B.nrows then
      let s := B.nrows - i - kk
      let B := upperLeftSubmatrix U B s kk
      let tabs := M4RI.makeTables B s 0 junk (List.replicate Gen.trsmNTables k) 0
      let B := addTables B U 0 s s kk tabs
      upperLeftMain U k junk fuel (i + kk) B
    else (i, B)

def upperLeftRest (U : BMat) (junk : Nat → Nat) : Nat → Nat → Nat → BMat → BMat
  | 0, _, _, B => B
  | fuel + 1, i, k, B =>
    if i < B.nrows then
      let k := if i + k > B.nrows then B.nrows - i else k
      let s := B.nrows - i - k
      let B := upperLeftSubmatrix U B s k
      let tabs := M4RI.makeTables B s 0 junk [k] 0
      let B := addTables B U 0 s s k tabs
      upperLeftRest U junk fuel (i + k) k B
    else B

/-- `_mzd_trsm_upper_left_russian(U, B, k)` for a given `k ≥ 1` -/
def upperLeftRussian (U B : BMat) (k : Nat) (junk : Nat → Nat := fun _ => 0) : BMat :=
  let iB := upperLeftMain U k junk B.nrows 0 B
  upperLeftRest U junk B.nrows iB.1 k iB.2

def upperLeftRussianK (l2 : Nat) (U B : BMat) (k : Nat) (junk : Nat → Nat := fun _ => 0) : BMat :=
  upperLeftRussian U B (if k = 0 then trsmK l2 B else k) junk

/-! ### in-place inversion of a unit upper triangular matrix (triangular_russian.c:322-482) -/

/-- `_mzd_trtri_upper_submatrix(A, pivot_r, elim_r, k)` -/
def trtriSubmatrix (A : BMat) (pivotR elimR k : Nat) : BMat :=
  (List.range' pivotR k).foldl (fun X i =>
    (List.range' elimR (i - elimR)).foldl (fun X j =>
      if X.get j i ∧ i + 1 < X.ncols then X.addRowFrom j i (i + 1) else X) X) A

/-- a `ple_table_t`: `k`, the rows of `T`, the index array `E`, the bit patterns `B` -/
abbrev PleTable := Nat × Array Nat × Array Nat × Array Nat

/-- `_mzd_ple_to_e(E, A, r, c, k, id)`: rows `r … r+k-1` of `A`, in row `i` the columns
    `[64·(c/64), c + i)` are cleared -/
def pleToE (A : BMat) (r c k : Nat) : Array Nat :=
  let startcol := 64 * (c / 64)
  (Array.range k).map fun i =>
    let v := A.row (r + i)
    (v % 2 ^ startcol) ||| ((v >>> (c + i)) <<< (c + i))

/-- `mzd_make_table_trtri(E, 0, c, k, Tb, startcol)`: the Gray-code table of the `k` rows of `E` from the word
    of column `c` on (the word of `startcol`, if it is another one, is zeroed; what lies left of it is never
    read), then `T[i] ^= ord[i] << c` (the unit diagonal block is taken out) and
    `B[i] = read_bits(T, i, startcol, MIN(64, ncols - startcol))` -/
def makeTableTrtri (E : Array Nat) (ncols c k startcol : Nat) (junk : Nat → Nat) : PleTable :=
  let fresh := freshTable k junk
  let TL := makeTable E k ncols 0 (64 * (c / 64)) k fresh.1 fresh.2
  let ord := buildOrd k
  let T := TL.1.mapIdx fun i t => t ^^^ (ord.getD i 0 <<< c)
  let toread := min 64 (ncols - startcol)
  (k, T, TL.2, T.map fun t => bitsAt t startcol toread)

/-- the lookups of `_mzd_process_rows_ple_N` for one row: `x_t = E_t[(bits >> sh_t) & bm_t]; bits ^= B_t[x_t]`,
    result = XOR of the rows `T_t[x_t]` -/
def pleApply : List PleTable → Nat → Nat → Nat
  | [], _, _ => 0
  | (k, T, E, Bv) :: rest, bits, sh =>
    let x := E.getD ((bits >>> sh) % 2 ^ k) 0
    T.getD x 0 ^^^ pleApply rest (bits ^^^ Bv.getD x 0) (sh + k)

/-- `_mzd_process_rows_ple_N(M, startrow, stoprow, startcol, k, T)` -/
def processRowsPle (A : BMat) (startrow stoprow startcol : Nat) (tabs : List PleTable) : BMat :=
  let n := (tabs.map fun t => t.1).sum
  (List.range' startrow (stoprow - startrow)).foldl (fun X r =>
    X.setRow r (X.row r ^^^ pleApply tabs (bitsAt (X.row r) startcol n) 0)) A

/-- automatic `k` of `mzd_trtri_upper_russian`: `m4ri_opt_k`, at most 7, one less when
    `0.75 * 2^k * ncols > L3 / 2` -/
def trtriK (l3 : Nat) (A : BMat) : Nat :=
  let k := optK A.nrows A.ncols
  let k := if k ≥ 7 then 7 else k
  if 3 * 2 ^ k * A.ncols > 2 * l3 then k - 1 else k

/-- one block of the main loop: invert the diagonal block `t`, copy it out, make its table -/
def trtriBlock (A : BMat) (r k t : Nat) (junk : Nat → Nat) : BMat × PleTable :=
  let A := trtriSubmatrix A (r + t * k) r k
  (A, makeTableTrtri (pleToE A (r + t * k) (r + t * k) k) A.ncols (r + t * k) k r junk)

/-- `while (r + kk <= A->nrows)` with `kk = 4 k` -/
def trtriMain (k : Nat) (junk : Nat → Nat) : Nat → Nat → BMat → Nat × BMat
  | 0, r, A => (r, A)
  | fuel + 1, r, A =>
    if r + Gen.trtriNTables * k ≤ A.nrows then
      let (A, T0) := trtriBlock A r k 0 junk
      let (A, T1) := trtriBlock A r k 1 junk
      let (A, T2) := trtriBlock A r k 2 junk
      let (A, T3) := trtriBlock A r k 3 junk
      let A := processRowsPle A 0 r r [T0, T1, T2, T3]
      trtriMain k junk fuel (r + Gen.trtriNTables * k) A
    else (r, A)

/-- `while (r < A->nrows)`: one table, `mzd_process_rows` -/
def trtriRest (junk : Nat → Nat) : Nat → Nat → Nat → BMat → BMat
  | 0, _, _, A => A
  | fuel + 1, r, k, A =>
    if r < A.nrows then
      let k := if A.nrows - r < k then A.nrows - r else k
      let A := trtriSubmatrix A r r k
      let T0 := makeTableTrtri (pleToE A r r k) A.ncols r k r junk
      let A := M4RI.processRows A 0 r r k [(k, T0.2.1, T0.2.2.1)]
      trtriRest junk fuel (r + k) k A
    else A

/-- `mzd_trtri_upper_russian(A, k)` for a given `k ≥ 1` (the aligned copy of the SSE2 build has the same value) -/
def trtriRussian (A : BMat) (k : Nat) (junk : Nat → Nat := fun _ => 0) : BMat :=
  let rA := trtriMain k junk A.nrows 0 A
  trtriRest junk A.nrows rA.1 k rA.2

def trtriRussianK (l3 : Nat) (A : BMat) (k : Nat) (junk : Nat → Nat := fun _ => 0) : BMat :=
  trtriRussian A (if k = 0 then trtriK l3 A else k) junk

/-! ### the complete routines of triangular.c: regime switches, recursion, real base cases -/

/-- build parameters: `__M4RI_MUL_BLOCKSIZE`, `__M4RI_CPU_L2_CACHE`, `__M4RI_CPU_L3_CACHE`, `__M4RI_HAVE_SSE2` -/
structure Params where
  blk : Nat
  l2 : Nat
  l3 : Nat
  sse2 : Bool
deriving Repr

/-- the parameters of the validated build (`m4ri_config.h` of /repo) -/
def Params.repo : Params := ⟨Gen.mulBlocksize 32768 1310720 56623104, 1310720, 56623104, true⟩

open Rec in
/-- `_mzd_trsm_lower_left(L, B, cutoff)`.  `fuel` bounds the recursion depth (`B.nrows` is always enough); out of
    fuel the substitution form stands in, as in `M4ri/TrsmRec.lean`. -/
def lowerLeftFull (P : Params) (junk : Nat → Nat) : Nat → BMat → BMat → BMat
  | 0, L, B => trsmLowerLeft L B
  | fuel + 1, L, B =>
    let mb := B.nrows; let nb := B.ncols
    if mb ≤ 64 then lowerLeftKernel L B
    else if mb ≤ P.blk then lowerLeftRussianK P.l2 L B 0 junk
    else
      let mb1 := splitPoint mb
      let B0 := B.sub 0 0 mb1 nb
      let B1 := B.sub mb1 0 mb nb
      let L00 := L.sub 0 0 mb1 mb1
      let L10 := L.sub mb1 0 mb mb1
      let L11 := L.sub mb1 mb1 mb mb
      let B0 := lowerLeftFull P junk fuel L00 B0
      let B1 := B1.add (L10.mul B0)
      let B1 := lowerLeftFull P junk fuel L11 B1
      (B.paste 0 0 B0).paste mb1 0 B1

open Rec in
/-- `_mzd_trsm_upper_left(U, B, cutoff)` -/
def upperLeftFull (P : Params) (junk : Nat → Nat) : Nat → BMat → BMat → BMat
  | 0, U, B => trsmUpperLeft U B
  | fuel + 1, U, B =>
    let mb := B.nrows; let nb := B.ncols
    if mb ≤ 64 then upperLeftKernel U B
    else if mb ≤ P.blk then upperLeftRussianK P.l2 U B 0 junk
    else
      let mb1 := splitPoint mb
      let B0 := B.sub 0 0 mb1 nb
      let B1 := B.sub mb1 0 mb nb
      let U00 := U.sub 0 0 mb1 mb1
      let U01 := U.sub 0 mb1 mb1 mb
      let U11 := U.sub mb1 mb1 mb mb
      let B1 := upperLeftFull P junk fuel U11 B1
      let B0 := B0.add (U01.mul B1)
      let B0 := upperLeftFull P junk fuel U00 B0
      (B.paste 0 0 B0).paste mb1 0 B1

open Rec in
/-- `_mzd_trsm_lower_right(L, B, cutoff)` -/
def lowerRightFull : Nat → BMat → BMat → BMat
  | 0, L, B => trsmLowerRight L B
  | fuel + 1, L, B =>
    let mb := B.nrows; let nb := B.ncols
    if nb ≤ 64 then lowerRightBase L B else
    let nb1 := splitPoint nb
    let B0 := B.sub 0 0 mb nb1
    let B1 := B.sub 0 nb1 mb nb
    let L00 := L.sub 0 0 nb1 nb1
    let L10 := L.sub nb1 0 nb nb1
    let L11 := L.sub nb1 nb1 nb nb
    let B1 := lowerRightFull fuel L11 B1
    let B0 := B0.add (B1.mul L10)
    let B0 := lowerRightFull fuel L00 B0
    (B.paste 0 0 B0).paste 0 nb1 B1

/-- `mzd_extract_u(NULL, A)`: the square upper triangle including the stored diagonal -/
def extractU (A : BMat) : BMat :=
  let k := min A.nrows A.ncols
  ⟨k, k, (Array.range k).map fun i => ((A.row i % 2 ^ k) >>> i) <<< i⟩

open Rec in
mutual
/-- `_mzd_trsm_upper_right(U, B, cutoff)`; the middle regime is `_mzd_trsm_upper_right_trtri`:
    `u = mzd_extract_u(U); mzd_trtri_upper(u); B = B·u` -/
def upperRightFull (P : Params) (junk : Nat → Nat) : Nat → BMat → BMat → BMat
  | 0, U, B => trsmUpperRight U B
  | fuel + 1, U, B =>
    let mb := B.nrows; let nb := B.ncols
    if nb ≤ 64 then upperRightBase U B
    else if nb ≤ P.blk then B.mul (trtriFull P junk fuel (extractU U))
    else
      let nb1 := splitPoint nb
      let B0 := B.sub 0 0 mb nb1
      let B1 := B.sub 0 nb1 mb nb
      let U00 := U.sub 0 0 nb1 nb1
      let U01 := U.sub 0 nb1 nb1 nb
      let U11 := U.sub nb1 nb1 nb nb
      let B0 := upperRightFull P junk fuel U00 B0
      let B1 := B1.add (B0.mul U01)
      let B1 := upperRightFull P junk fuel U11 B1
      (B.paste 0 0 B0).paste 0 nb1 B1

/-- `mzd_trtri_upper(U)`.  Where the C code's `assert(n2 < n)` fails (only possible for `n ≤ 128` together with
    `n·n ≥ 2·L3`, i.e. `L3 ≤ 8192`) the C code aborts; the model returns the substitution form there, as
    `M4ri/TrsmRec.lean` does. -/
def trtriFull (P : Params) (junk : Nat → Nat) : Nat → BMat → BMat
  | 0, U => trsmUpperRight U (identity U.nrows)
  | fuel + 1, U =>
    if U.nrows * U.ncols < 2 * P.l3 then trtriRussianK P.l3 U 0 junk else
    let n := U.nrows
    let n2 := trtriSplit n P.sse2
    if ¬ n2 < n then trsmUpperRight U (identity U.nrows) else
    let U00 := U.sub 0 0 n2 n2
    let U01 := U.sub 0 n2 n2 n
    let U11 := U.sub n2 n2 n n
    let U01 := upperLeftFull P junk fuel U00 U01
    let U01 := upperRightFull P junk fuel U11 U01
    let U00 := trtriFull P junk fuel U00
    let U11 := trtriFull P junk fuel U11
    ((U.paste 0 0 U00).paste 0 n2 U01).paste n2 n2 U11
end

/-- entry points with enough fuel -/
def trsmLowerLeftC (P : Params) (L B : BMat) : BMat := lowerLeftFull P (fun _ => 0) (B.nrows + 1) L B
def trsmUpperLeftC (P : Params) (U B : BMat) : BMat := upperLeftFull P (fun _ => 0) (B.nrows + 1) U B
def trsmLowerRightC (L B : BMat) : BMat := lowerRightFull (B.ncols + 1) L B
def trsmUpperRightC (P : Params) (U B : BMat) : BMat := upperRightFull P (fun _ => 0) (2 * B.ncols + 2) U B
def trtriUpperC (P : Params) (U : BMat) : BMat := trtriFull P (fun _ => 0) (2 * U.nrows + 2) U

end TB
end BMat
end M4ri
