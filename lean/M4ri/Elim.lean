/-
  R storey: elimination, factorisation, triangular solving on rows-as-`Nat`.
    mzd.c   : `mzd_gauss_delayed` (exact mirror), `mzd_invert_naive`
    ple.c   : `_mzd_ple_naive`, `_mzd_pluq_naive` (exact mirrors, incl. the final L compression)
    triangular.c : the four triangular solves in substitution form
    solve.c : `_mzd_pluq_solve_left`, `_mzd_solve_left`, `mzd_kernel_left_pluq` on top of a factorisation
  plus the executable *checkers* (`checkEchelon`, `checkPLE`, `checkPLUQ`, …) with which the outputs of the
  block/Four-Russians algorithms of the C library are judged (their soundness is proved in M4riProofs).
-/
import M4ri.Mul
namespace M4ri
namespace BMat

def swapRows (M : BMat) (a b : Nat) : BMat :=
  if a = b then M else
  let ra := M.row a; let rb := M.row b
  (M.setRow a rb).setRow b ra

/-- add row `src` to row `dst` from column `off` on (`mzd_row_add_offset`) -/
def addRowFrom (M : BMat) (dst src off : Nat) : BMat :=
  M.setRow dst (M.row dst ^^^ ((M.row src >>> off) <<< off))

/-- `mzd_gauss_delayed(M, startcol, full)`: returns the matrix and the number of pivots.
    The loops are the C loops: for each column `i ≥ startcol` the first row `j ≥ startrow` holding a one
    is swapped to `startrow` and added to every other row (`full`) or every later row holding a one. -/
def gaussDelayed (M : BMat) (startcol : Nat) (full : Bool) : BMat × Nat :=
  let step (st : BMat × Nat × Nat) (i : Nat) : BMat × Nat × Nat :=
    let (M, startrow, pivots) := st
    match (List.range' startrow (M.nrows - startrow)).find? fun j => M.get j i with
    | none => st
    | some j =>
      let M := M.swapRows startrow j
      let M := (List.range' (if full then 0 else startrow + 1) (M.nrows - (if full then 0 else startrow + 1))).foldl
        (fun M ii => if ii ≠ startrow ∧ M.get ii i then M.addRowFrom ii startrow i else M) M
      (M, startrow + 1, pivots + 1)
  let r := (List.range' startcol (M.ncols - startcol)).foldl step (M, startcol, 0)
  (r.1, r.2.2)

/-- reduced row echelon form and rank by the naive routine (`mzd_echelonize_naive(M, 1)`) -/
def rref (M : BMat) : BMat := (gaussDelayed M 0 true).1
def rank (M : BMat) : Nat := (gaussDelayed M 0 true).2

/-- index of the lowest set bit below `n`, if any -/
def lowBit (v n : Nat) : Option Nat := (List.range n).find? fun j => v.testBit j

/-- pivot columns of the rows of a matrix (leading ones), `none` for zero rows -/
def leads (M : BMat) : List (Option Nat) := (List.range M.nrows).map fun i => lowBit (M.row i % 2 ^ M.ncols) M.ncols

/-- row echelon form: the non-zero rows come first and their leading columns strictly increase -/
def isRowEchelon (M : BMat) : Bool :=
  let ls := M.leads
  let rec go : List (Option Nat) → Option Nat → Bool → Bool
    | [], _, _ => true
    | none :: rest, prev, _ => go rest prev true
    | some c :: rest, prev, seenZero =>
      !seenZero && (match prev with | none => true | some p => p < c) && go rest (some c) false
  go ls none false

/-- reduced: additionally every pivot column holds exactly one one -/
def isRREF (M : BMat) : Bool :=
  M.isRowEchelon &&
  (List.range M.nrows).all fun i =>
    match lowBit (M.row i % 2 ^ M.ncols) M.ncols with
    | none => true
    | some c => (List.range M.nrows).all fun i' => i' = i || !M.get i' c

def eqM (A B : BMat) : Bool :=
  A.nrows = B.nrows ∧ A.ncols = B.ncols ∧
    (List.range A.nrows).all fun i => A.row i % 2 ^ A.ncols = B.row i % 2 ^ B.ncols

/-- same row space (canonical form: the unique RREF) -/
def sameRowSpace (A B : BMat) : Bool :=
  let ra := A.rref; let rb := B.rref
  let k := max A.nrows B.nrows
  decide (A.ncols = B.ncols) &&
    (List.range k).all fun i => decide (ra.row i % 2 ^ A.ncols = rb.row i % 2 ^ B.ncols)

/-- checker for the echelonisation entry points: `R` is what the routine left, `r` what it returned -/
def checkEchelon (A R : BMat) (r : Nat) (full : Bool) : Bool :=
  R.nrows = A.nrows && R.ncols = A.ncols && r == A.rank &&
  (if full then R.eqM A.rref else R.isRowEchelon && sameRowSpace A R) &&
  (List.range' r (A.nrows - r)).all fun i => R.row i % 2 ^ A.ncols = 0

/-! ### permutations in LAPACK form -/

def applyPLeft (M : BMat) (P : Array Nat) : BMat :=
  (List.range (min P.size M.nrows)).foldl (fun M i => M.swapRows i (P.getD i 0)) M
def applyPLeftTrans (M : BMat) (P : Array Nat) : BMat :=
  (List.range (min P.size M.nrows)).reverse.foldl (fun M i => M.swapRows i (P.getD i 0)) M
def swapColsInRows (M : BMat) (a b lo hi : Nat) : BMat :=
  if a = b then M else
  { M with rows := M.rows.mapIdx fun i r =>
      if lo ≤ i ∧ i < hi ∧ r.testBit a ≠ r.testBit b then r ^^^ (1 <<< a) ^^^ (1 <<< b) else r }
/-- right application (column swaps for descending `i`) -/
def applyPRight (M : BMat) (P : Array Nat) : BMat :=
  (List.range (min P.size M.ncols)).reverse.foldl (fun M i => M.swapColsInRows i (P.getD i 0) 0 M.nrows) M
/-- transposed right application (ascending `i`) -/
def applyPRightTrans (M : BMat) (P : Array Nat) : BMat :=
  (List.range (min P.size M.ncols)).foldl (fun M i => M.swapColsInRows i (P.getD i 0) 0 M.nrows) M
def applyPRightTransTri (M : BMat) (P : Array Nat) : BMat :=
  (List.range M.ncols).foldl (fun M i => M.swapColsInRows i (P.getD i 0) 0 (min M.nrows i)) M

def lapackOK (P : Array Nat) (n : Nat) : Bool :=
  P.size = n && (List.range n).all fun i => i ≤ P.getD i 0 && P.getD i 0 < n

/-! ### naive factorisations (ple.c:180-271) -/

/-- `_mzd_pluq_naive(A, P, Q)` -/
def pluqNaive (A : BMat) (P Q : Array Nat) : BMat × Array Nat × Array Nat × Nat :=
  let rec go (fuel : Nat) (A : BMat) (P Q : Array Nat) (pos : Nat) : BMat × Array Nat × Array Nat × Nat :=
    match fuel with
    | 0 => (A, P, Q, pos)
    | fuel + 1 =>
      if pos ≥ A.ncols then (A, P, Q, pos) else
      -- first column j ≥ pos that has a one in a row i ≥ pos (first such row)
      let found := (List.range' pos (A.ncols - pos)).findSome? fun j =>
        ((List.range' pos (A.nrows - pos)).find? fun i => A.get i j).map fun i => (i, j)
      match found with
      | none => (A, P, Q, pos)
      | some (i, j) =>
        let P := P.setIfInBounds pos i
        let Q := Q.setIfInBounds pos j
        let A := A.swapRows pos i
        let A := A.swapColsInRows pos j 0 A.nrows
        let A := if pos + 1 < A.ncols then
            (List.range' (pos + 1) (A.nrows - (pos + 1))).foldl
              (fun A l => if A.get l pos then A.addRowFrom l pos (pos + 1) else A) A
          else A
        go fuel A P Q (pos + 1)
  let (A, P, Q, pos) := go A.ncols A P Q 0
  let P := (List.range' pos (A.nrows - pos)).foldl (fun P i => P.setIfInBounds i i) P
  let Q := (List.range' pos (A.ncols - pos)).foldl (fun Q i => Q.setIfInBounds i i) Q
  (A, P, Q, pos)

/-- `_mzd_ple_naive(A, P, Q)` -/
def pleNaive (A : BMat) (P Q : Array Nat) : BMat × Array Nat × Array Nat × Nat :=
  let rec go (fuel : Nat) (A : BMat) (P Q : Array Nat) (rowPos colPos : Nat) : BMat × Array Nat × Array Nat × Nat :=
    match fuel with
    | 0 => (A, P, Q, rowPos)
    | fuel + 1 =>
      if ¬ (rowPos < A.nrows ∧ colPos < A.ncols) then (A, P, Q, rowPos) else
      let found := (List.range' colPos (A.ncols - colPos)).findSome? fun j =>
        ((List.range' rowPos (A.nrows - rowPos)).find? fun i => A.get i j).map fun i => (i, j)
      match found with
      | none => (A, P, Q, rowPos)
      | some (i, j) =>
        let P := P.setIfInBounds rowPos i
        let Q := Q.setIfInBounds rowPos j
        let A := A.swapRows rowPos i
        let A := if j + 1 < A.ncols then
            (List.range' (rowPos + 1) (A.nrows - (rowPos + 1))).foldl
              (fun A l => if A.get l j then A.addRowFrom l rowPos (j + 1) else A) A
          else A
        go fuel A P Q (rowPos + 1) (j + 1)
  let (A, P, Q, rowPos) := go (min A.nrows A.ncols + 1) A P Q 0 0
  let P := (List.range' rowPos (A.nrows - rowPos)).foldl (fun P i => P.setIfInBounds i i) P
  let Q := (List.range' rowPos (A.ncols - rowPos)).foldl (fun Q i => Q.setIfInBounds i i) Q
  let A := (List.range rowPos).foldl (fun A j =>
    if Q.getD j 0 > j then A.swapColsInRows (Q.getD j 0) j j A.nrows else A) A
  (A, P, Q, rowPos)

/-! ### reading the factors out of the overwritten storage -/

/-- `L`: `m × r`, strictly lower entries of the first `r` columns of `S`, unit diagonal -/
def lowerFactor (S : BMat) (r : Nat) : BMat :=
  ⟨S.nrows, r, (Array.range S.nrows).map fun i =>
    ((S.row i) % 2 ^ (min i r)) ||| (if i < r then 1 <<< i else 0)⟩

/-- `U`: `r × n`, entries `j ≥ i` of the first `r` rows of `S` (the stored diagonal is part of `U`) -/
def upperFactor (S : BMat) (r : Nat) : BMat :=
  ⟨r, S.ncols, (Array.range r).map fun i => ((S.row i % 2 ^ S.ncols) >>> i) <<< i⟩

/-- PLUQ certificate: `P`,`Q` LAPACK-form, unit diagonal of `U`, storage outside `L`/`U` zero, and
    `Pᵀ·A·Qᵀ = L·U` in the library's own convention: `apply_p_right_trans(apply_p_left(A, P), Q) = L·U`. -/
def checkPLUQ (A S : BMat) (P Q : Array Nat) (r : Nat) : Bool :=
  S.nrows = A.nrows && S.ncols = A.ncols && r ≤ min A.nrows A.ncols &&
  lapackOK P A.nrows && lapackOK Q A.ncols &&
  (List.range r).all (fun i => S.get i i) &&
  -- below the first r rows only the first r columns may be used (by L)
  (List.range' r (A.nrows - r)).all (fun i => (S.row i % 2 ^ A.ncols) >>> r = 0) &&
  ((A.applyPLeft P).applyPRightTrans Q).eqM ((S.lowerFactor r).mul (S.upperFactor r))

/-- `E` of a PLE decomposition as the library stores it: row `i < r` keeps its entries right of the pivot
    column `Q[i]` in place, while the pivot itself sits on the diagonal `(i,i)` (the final L compression
    swaps columns `i` and `Q[i]` in the rows `≥ i`), so position `(i, Q[i])` is zero unless `Q[i] = i`. -/
def echelonFactor (S : BMat) (Q : Array Nat) (r : Nat) : BMat :=
  ⟨r, S.ncols, (Array.range r).map fun i =>
    (((S.row i % 2 ^ S.ncols) >>> (Q.getD i 0 + 1)) <<< (Q.getD i 0 + 1)) ||| (1 <<< Q.getD i 0)⟩

/-- PLE certificate: pivots `Q[0..r)` strictly increasing and in range; storage: `L` strictly below the
    diagonal in the first `r` columns, the diagonal `(i,i)` holds the pivot one, columns `(i, Q[i]]` of row
    `i` are zero, `E`'s row `i` continues right of `Q[i]`; rows `≥ r` use only the first `r` columns;
    and `apply_p_left(A, P) = L·E`. -/
def checkPLE (A S : BMat) (P Q : Array Nat) (r : Nat) : Bool :=
  S.nrows = A.nrows && S.ncols = A.ncols && r ≤ min A.nrows A.ncols &&
  lapackOK P A.nrows && Q.size = A.ncols &&
  (List.range r).all (fun i => Q.getD i 0 < A.ncols && i ≤ Q.getD i 0 && (i = 0 || Q.getD (i - 1) 0 < Q.getD i 0)) &&
  (List.range r).all (fun i => S.get i i) &&
  (List.range r).all (fun i => (List.range' (i + 1) (Q.getD i 0 - i)).all fun j => !S.get i j) &&
  (List.range' r (A.nrows - r)).all (fun i => (S.row i % 2 ^ A.ncols) >>> r = 0) &&
  (A.applyPLeft P).eqM ((S.lowerFactor r).mul (S.echelonFactor Q r))

/-- column rank profile: pivot columns of the RREF -/
def rankProfile (A : BMat) : List Nat := (A.rref.leads).filterMap id

/-! ### triangular solves (substitution form; only the named triangle of `T` is read) -/

/-- `L·X = B`, `L` unit lower triangular (diagonal taken as 1 whatever is stored) -/
def trsmLowerLeft (L B : BMat) : BMat :=
  (List.range B.nrows).foldl (fun X i =>
    X.setRow i ((List.range i).foldl (fun acc j => if L.get i j then acc ^^^ X.row j else acc) (X.row i))) B

/-- `U·X = B`, `U` unit upper triangular -/
def trsmUpperLeft (U B : BMat) : BMat :=
  (List.range B.nrows).reverse.foldl (fun X i =>
    X.setRow i ((List.range' (i + 1) (B.nrows - (i + 1))).foldl
      (fun acc j => if U.get i j then acc ^^^ X.row j else acc) (X.row i))) B

/-- `X·U = B`, `U` unit upper triangular: column `j` of `X` is column `j` of `B` plus `Σ_{i<j} X[:,i]·U[i,j]` -/
def trsmUpperRight (U B : BMat) : BMat :=
  (List.range B.ncols).foldl (fun X j =>
    { X with rows := X.rows.map fun x =>
        let s := (List.range j).foldl (fun p i => p != (x.testBit i && U.get i j)) false
        if s then x ^^^ (1 <<< j) else x }) B

/-- `X·L = B`, `L` unit lower triangular -/
def trsmLowerRight (L B : BMat) : BMat :=
  (List.range B.ncols).reverse.foldl (fun X j =>
    { X with rows := X.rows.map fun x =>
        let s := (List.range' (j + 1) (B.ncols - (j + 1))).foldl (fun p i => p != (x.testBit i && L.get i j)) false
        if s then x ^^^ (1 <<< j) else x }) B

/-- named triangle of a square matrix with unit diagonal -/
def unitLower (T : BMat) : BMat :=
  ⟨T.nrows, T.ncols, (Array.range T.nrows).map fun i => (T.row i % 2 ^ i) ||| (1 <<< i)⟩
def unitUpper (T : BMat) : BMat :=
  ⟨T.nrows, T.ncols, (Array.range T.nrows).map fun i => (((T.row i % 2 ^ T.ncols) >>> (i + 1)) <<< (i + 1)) ||| (1 <<< i)⟩

/-! ### inversion -/

def concat (A B : BMat) : BMat :=
  ⟨A.nrows, A.ncols + B.ncols, (Array.range A.nrows).map fun i => (A.row i % 2 ^ A.ncols) ||| ((B.row i % 2 ^ B.ncols) <<< A.ncols)⟩

/-- `mzd_invert_naive(INV, A, I)`: `none` when the Gauss-Jordan step finds no pivot at all -/
def invertNaive (A I : BMat) : Option BMat :=
  let H := A.concat I
  let (H, x) := gaussDelayed H 0 true
  if x = 0 then none else some (H.sub 0 A.ncols A.nrows (2 * A.ncols))

/-- the inverse through the RREF of `[A | I]` (what `mzd_inv_m4ri` computes for invertible `A`, any `k`) -/
def inverseSpec (A : BMat) : BMat := ((A.concat (identity A.nrows)).rref).sub 0 A.ncols A.nrows (2 * A.ncols)

/-! ### solving and kernel on top of a PLUQ factorisation (solve.c) -/

/-- `_mzd_pluq_solve_left(A, rank, P, Q, B, cutoff, check)` with `S` the PLUQ storage; returns `(retval, B)` -/
def pluqSolveLeft (S : BMat) (rank : Nat) (P Q : Array Nat) (B : BMat) (check : Bool) : Int × BMat :=
  let B := B.applyPLeft P
  let LU := S.sub 0 0 rank rank
  let Y1 := trsmLowerLeft LU (B.sub 0 0 rank B.ncols)
  let B := B.paste 0 0 Y1
  let (ret, B) :=
    if check then
      let ret3 : Int := if S.nrows < B.nrows ∧ !(B.sub S.nrows 0 B.nrows B.ncols).eqM (zero (B.nrows - S.nrows) B.ncols) then -1 else 0
      let B := if S.nrows < B.nrows then B.paste S.nrows 0 (zero (B.nrows - S.nrows) B.ncols) else B
      let H := S.sub rank 0 S.nrows rank
      let Y2 := (B.sub rank 0 S.nrows B.ncols).add (H.mul Y1)
      let B := B.paste rank 0 Y2
      ((if Y2.eqM (zero Y2.nrows Y2.ncols) then ret3 else -1), B)
    else (0, B)
  let Y1 := trsmUpperLeft LU (B.sub 0 0 rank B.ncols)
  let B := B.paste 0 0 Y1
  let B := if !check then B.paste rank 0 (zero (B.nrows - rank) B.ncols) else B
  (ret, B.applyPLeftTrans Q)

/-- solvability of `Apad · X = B` column by column: `rank [A | b] = rank A` for the padded `A` -/
def solvable (A B : BMat) : Bool :=
  let rows := max A.nrows A.ncols
  let Apad : BMat := ⟨rows, A.ncols, (Array.range rows).map fun i => if i < A.nrows then A.row i % 2 ^ A.ncols else 0⟩
  (Apad.concat B).rank = Apad.rank

end BMat
end M4ri
