/-
  Value-level mirrors of the glue routines that sit on top of a PLE/PLUQ factorisation: `_mzd_solve_left`,
  `mzd_kernel_left_pluq` (solve.c) and `mzd_echelonize_pluq` (echelonform.c).  The factorisation routine is a
  parameter `fact`; the correspondence run instantiates it with the factorisation the implementation actually
  produced (ops `glue_solve`, `glue_kernel`, `glue_echelonize`), the proofs (M4riProofs/Solve.lean, PleNaive.lean)
  with any certificate accepted by `checkPLUQ` / `checkPLE`.
-/
import M4ri.Elim
namespace M4ri.BMat.SV

/-- value-level mirror of `_mzd_solve_left(A, B, cutoff, check)`: the padding rows of `B` are tested first
    (`-1` at once, nothing modified), then `A` is factorised in place by `fact` (`_mzd_pluq`: returns the storage,
    `P`, `Q` and the rank) and `mzd_pluq_solve_left` is run. Returns `(retval, A, B)` as they are left. -/
def solveLeft (fact : BMat → BMat × Array Nat × Array Nat × Nat) (A B : BMat) (check : Bool) :
    Int × BMat × BMat :=
  if check = true ∧ B.nrows > A.nrows ∧
      (B.sub A.nrows 0 B.nrows B.ncols).eqM (zero (B.nrows - A.nrows) B.ncols) = false then (-1, A, B)
  else
    let F := fact A
    let R := pluqSolveLeft F.1 F.2.2.2 F.2.1 F.2.2.1 B check
    (R.1, F.1, R.2)


/-- `mzd_write_bit(R, r + i, i, 1)` for `i < q` (the identity block below `RU`) -/
def writeDiag (R : BMat) (r q : Nat) : BMat :=
  (List.range q).foldl (fun R i => R.setRow (r + i) (R.row (r + i) ||| (1 <<< i))) R

/-- value-level mirror of `mzd_kernel_left_pluq(A, cutoff)`; `fact` is `mzd_pluq` (storage, `P`, `Q`, rank).
    `none` is the `NULL` result. -/
def kernelLeftPluq (fact : BMat → BMat × Array Nat × Array Nat × Nat) (A : BMat) : Option BMat :=
  let F := fact A
  let S := F.1; let Q := F.2.2.1; let r := F.2.2.2
  if r = A.ncols then none else
  let U := S.sub 0 0 r r
  let R := zero A.ncols (A.ncols - r)
  let RU := R.sub 0 0 r R.ncols
  -- `mzd_xor_bits(RU, i, j, w, mzd_read_bits(A, i, r + j, w))`, all rows `i < r`, all column chunks
  let RU := RU.add (S.sub 0 r r (r + RU.ncols))
  let RU := trsmUpperLeft U RU
  let R := R.paste 0 0 RU
  let R := writeDiag R r R.ncols
  some (R.applyPLeftTrans Q)


end M4ri.BMat.SV

namespace M4ri.BMat.PN

/-- `full`, before the column permutation: the right block `B = S[0..r, r..n)` of the first `r` rows becomes
    `U⁻¹·B` for the unit upper triangular `U = S[0..r, 0..r)` (`mzd_trsm_upper_left`, skipped when `r = ncols`;
    the three `r mod 64` cases of the C code only differ in the windows through which this is computed) and
    `U` itself is replaced by the identity (`mzd_set_ui(U, 1)`) -/
def topFullPre (S : BMat) (r : Nat) : BMat :=
  let U := S.sub 0 0 r r
  let B := S.sub 0 r r S.ncols
  let X := if r ≠ S.ncols then trsmUpperLeft U B else B
  ⟨S.nrows, S.ncols, (Array.range S.nrows).map fun i =>
    if i < r then (1 <<< i) ||| (X.row i <<< r) else S.row i⟩

/-- `mzd_apply_p_right(A0, Q)` on the window `A0` of the first `r` rows: the column swaps `(i, Q[i])` for
    descending `i` -/
def applyPRightRows (T : BMat) (Q : Array Nat) (r : Nat) : BMat :=
  (List.range (min Q.size T.ncols)).reverse.foldl (fun M i => M.swapColsInRows i (Q.getD i 0) 0 r) T

/-- not `full`: in row `i < r` the columns `0..i` are cleared (`mzd_clear_bits`) and the pivot one is written at
    `(i, Q[i])` -/
def topPle (S : BMat) (Q : Array Nat) (r : Nat) : BMat :=
  ⟨S.nrows, S.ncols, (Array.range S.nrows).map fun i =>
    if i < r then ((S.row i >>> (i + 1)) <<< (i + 1)) ||| (1 <<< Q.getD i 0) else S.row i⟩

/-- `mzd_set_ui(R, 0)` on the window of the rows from `r` on -/
def zeroFrom (T : BMat) (r : Nat) : BMat :=
  ⟨T.nrows, T.ncols, (Array.range T.nrows).map fun i => if i < r then T.row i else 0⟩

/-- `mzd_echelonize_pluq(A, full)` at the value level; `fact` is the factorisation routine (`mzd_pluq` when
    `full`, `mzd_ple` otherwise) returning storage, `P`, `Q` and the rank. -/
def echelonizePluq (fact : BMat → BMat × Array Nat × Array Nat × Nat) (A : BMat) (full : Bool) : BMat × Nat :=
  let o := fact A
  let S := o.1; let Q := o.2.2.1; let r := o.2.2.2
  (zeroFrom (if full then applyPRightRows (topFullPre S r) Q r else topPle S Q r) r, r)


end M4ri.BMat.PN
