/-
  R storey: the Four-Russians PLE base case of ple_russian.c / ple_russian_template.h, step by step, on
  rows-as-`Nat`:
    `_kk_setup`, `_mzd_ple_submatrix`, `mzd_make_table_ple`, `_mzd_ple_a10`, `_mzd_ple_a11_N`,
    `_mzd_process_rows_ple_N` (one definition, general over the list of tables), `_mzd_ple_to_e`,
    `_mzd_ple_russian`, `_mzd_pluq_russian`, and the top of ple.c (`_mzd_ple`, `_mzd_pluq`) over this base case.

  Value-level conventions (validated bit for bit against the C code, see M4riProofs/PleRussian.lean):
  * a row is one `Nat`; "the words from block `b` on" are the columns `[64·b, ncols)`; the window of the first
    `splitblock` words that `_mzd_ple_submatrix` works in is the column range `[0, wc)`,
    `wc = min ncols (64·splitblock)`;  `part v lo hi` is `v` restricted to the columns `[lo, hi)`.
  * the scratch buffers `pivots`, `done` are fresh per strip (C: allocated once, entries `≥ rank` stale, never read);
    `U` is fresh per strip (C: rows `≥ knar` stale, never read);
  * table storage (`T[i]->T`, `->M`, `->E`, `->B`) is fresh (zero) per strip.  In C it is reused: `T` rows keep
    stale words left of `readblock`, `M`/`E` keep stale entries at patterns that are not written in this strip.
    None of these is ever read: every lookup pattern that occurs was written by the `mzd_make_table_ple` of the same
    strip (the validation driver poisons the arrays before every strip to check exactly this).
  * `mzd_process_rows` (the single-table routine used when `ntables = 1`) has a special path for `k = 1` that
    uses row 1 of the table directly instead of `T[E[1]]`; `E[1] = 1` there, so the general formula is used.
  Core Lean only.
-/
import M4ri.M4riElim
import M4ri.TrsmRec
import M4ri.Gen.Params
namespace M4ri
namespace BMat
namespace PR

/-! ### small helpers -/

/-- `v` restricted to the columns `[lo, hi)` -/
def part (v lo hi : Nat) : Nat := ((v % 2 ^ hi) >>> lo) <<< lo

/-- `mzd_row_add_offset(W, dst, src, off)` where `W` is the window of the first `wc` columns
    (`wc = ncols`: no window) -/
def addRowWin (M : BMat) (dst src off wc : Nat) : BMat :=
  M.setRow dst (M.row dst ^^^ part (M.row src) off wc)

/-- `_mzd_row_swap` restricted to the columns `[lo, hi)`: `tmp = (a ^ b) & mask; a ^= tmp; b ^= tmp` -/
def swapRowsPart (M : BMat) (a b lo hi : Nat) : BMat :=
  if a = b then M else
  let t := part (M.row a ^^^ M.row b) lo hi
  (M.setRow a (M.row a ^^^ t)).setRow b (M.row b ^^^ t)

/-- number of words of a row -/
def width (M : BMat) : Nat := (M.ncols + 63) / 64

/-! ### `_mzd_ple_submatrix` -/

/-- the scratch state of `_mzd_ple_submatrix`; `rank = pivots.size = done.size` -/
structure Sub where
  M : BMat
  P : Array Nat
  Q : Array Nat
  pivots : Array Nat
  done : Array Nat
deriving Repr, BEq, Inhabited

/-- `for (l = 0; l < rank; ++l) if (done[l] < i) { if (bit(i, start_col + pivots[l])) mzd_row_add_offset(A, i,
    start_row + l, start_col + pivots[l] + 1); done[l] = i; }` — the matrix part -/
def lazyElim (M : BMat) (i startRow startCol wc : Nat) (pivots done : Array Nat) : BMat :=
  (List.range pivots.size).foldl (fun M l =>
    if done.getD l 0 < i ∧ M.get i (startCol + pivots.getD l 0) then
      addRowWin M i (startRow + l) (startCol + pivots.getD l 0 + 1) wc
    else M) M

/-- … and the `done` part -/
def bumpDone (done : Array Nat) (i : Nat) : Array Nat := done.map fun d => if d < i then i else d

/-- the row loop `for (i = start_row + rank; i < stop_row; ++i)` for column `curPos` (`rows` = the values of
    `i` still to visit); returns the matrix, `done` and the row where the pivot was found -/
def scanRows (startRow startCol wc curPos : Nat) (pivots : Array Nat) :
    List Nat → BMat → Array Nat → BMat × Array Nat × Option Nat
  | [], M, done => (M, done, none)
  | i :: rest, M, done =>
    if bitsAt (M.row i) startCol (curPos + 1) ≠ 0 then
      let M := lazyElim M i startRow startCol wc pivots done
      let done := bumpDone done i
      if M.get i (startCol + curPos) then (M, done, some i)
      else scanRows startRow startCol wc curPos pivots rest M done
    else scanRows startRow startCol wc curPos pivots rest M done

/-- one pass of `for (curr_pos = 0; curr_pos < k; ++curr_pos)` -/
def subStep (startRow stopRow startCol wc : Nat) (s : Sub) (curPos : Nat) : Sub :=
  let rank := s.pivots.size
  let r := scanRows startRow startCol wc curPos s.pivots
    (List.range' (startRow + rank) (stopRow - (startRow + rank))) s.M s.done
  match r.2.2 with
  | none => { s with M := r.1, done := r.2.1 }
  | some i =>
    { M := swapRowsPart r.1 i (startRow + rank) 0 wc,
      P := s.P.setIfInBounds (startRow + rank) i,
      Q := s.Q.setIfInBounds (startRow + rank) (startCol + curPos),
      pivots := s.pivots.push curPos,
      done := r.2.1.push i }

/-- `_max_value(done, rank)` -/
def maxValue (done : Array Nat) : Nat := done.foldl max 0

/-- "finish submatrix": rows `done[c2] + 1 … done_row` are eliminated with pivot `c2`
    (the loop stops at the first pivot in the last column of the window) -/
def finishSub (M : BMat) (startRow startCol wc doneRow : Nat) (pivots done : Array Nat) : BMat :=
  ((List.range pivots.size).takeWhile fun c2 => startCol + pivots.getD c2 0 + 1 < wc).foldl (fun M c2 =>
    (List.range' (done.getD c2 0 + 1) (doneRow - done.getD c2 0)).foldl (fun M r2 =>
      if M.get r2 (startCol + pivots.getD c2 0) then
        addRowWin M r2 (startRow + c2) (startCol + pivots.getD c2 0 + 1) wc
      else M) M) M

/-- `_mzd_ple_submatrix(A, start_row, stop_row, start_col, k, P, Q, pivots, done, &done_row, splitblock)`:
    returns the state (`rank = pivots.size`) and `done_row` -/
def submatrix (M : BMat) (P Q : Array Nat) (startRow stopRow startCol k splitblock : Nat) : Sub × Nat :=
  let wc := min M.ncols (64 * splitblock)
  let s := (List.range k).foldl (subStep startRow stopRow startCol wc) ⟨M, P, Q, #[], #[]⟩
  let doneRow := if s.pivots.size < k then M.nrows - 1 else maxValue s.done
  ({ s with M := finishSub s.M startRow startCol wc doneRow s.pivots s.done }, doneRow)

/-! ### `_mzd_ple_a10`, `_mzd_ple_to_e` -/

/-- `_mzd_ple_a10(A, P, start_row, start_col, addblock, k, pivots)` -/
def a10 (M : BMat) (P : Array Nat) (startRow startCol addblock k : Nat) (pivots : Array Nat) : BMat :=
  if addblock = width M then M else
  let lo := 64 * addblock
  let M := (List.range' startRow k).foldl (fun M i => swapRowsPart M i (P.getD i 0) lo M.ncols) M
  (List.range' 1 (k - 1)).foldl (fun M i =>
    let tmp := bitsAt (M.row (startRow + i)) startCol (pivots.getD i 0)
    (List.range i).foldl (fun M j =>
      if tmp.testBit (pivots.getD j 0) then
        M.setRow (startRow + i) (M.row (startRow + i) ^^^ part (M.row (startRow + j)) lo M.ncols)
      else M) M) M

/-- `_mzd_ple_to_e(U, A, r, c, k, offsets)`: the `k` rows from `r` on with the columns
    `[64·(c/64), c + offsets[i])` of row `i` cleared -/
def toE (M : BMat) (r c k : Nat) (offsets : Array Nat) : Array Nat :=
  (Array.range k).map fun i =>
    let v := M.row (r + i)
    (v % 2 ^ (64 * (c / 64))) ||| ((v >>> (c + offsets.getD i 0)) <<< (c + offsets.getD i 0))

/-! ### `_kk_setup` -/

/-- the table count chosen by `_mzd_ple_russian` -/
def nTables (k kk : Nat) : Nat :=
  let N := Gen.pleNTables
  if N ≥ 8 ∧ kk ≥ 7 * k ∧ kk ≥ 8 then 8
  else if N ≥ 7 ∧ kk ≥ 6 * k ∧ kk ≥ 7 then 7
  else if N ≥ 6 ∧ kk ≥ 5 * k ∧ kk ≥ 6 then 6
  else if N ≥ 5 ∧ kk ≥ 4 * k ∧ kk ≥ 5 then 5
  else if N ≥ 4 ∧ kk ≥ 3 * k ∧ kk ≥ 4 then 4
  else if N ≥ 3 ∧ kk ≥ 2 * k ∧ kk ≥ 3 then 3
  else if N ≥ 2 ∧ kk ≥ k ∧ kk ≥ 2 then 2
  else 1

/-- `k_[0..ntables)`: `k_[t] = kk / ntables + (rem ≥ ntables - 1 - t ? 1 : 0)` for `t < ntables - 1`,
    `k_[ntables-1] = kk / ntables` -/
def chunkSizes (kk ntables : Nat) : List Nat :=
  (List.range ntables).map fun t =>
    kk / ntables + (if t + 1 < ntables ∧ kk % ntables ≥ ntables - 1 - t then 1 else 0)

/-- `knar_[j]` = the number of pivots in `[lb_j, ub_j)` -/
def chunkRanks (ks : List Nat) (pivots : Array Nat) : List Nat :=
  let rec go : List Nat → Nat → List Nat
    | [], _ => []
    | k :: rest, lb => (pivots.toList.filter fun p => lb ≤ p ∧ p < lb + k).length :: go rest (lb + k)
  go ks 0

/-! ### `mzd_make_table_ple` -/

/-- one table: chunk width `k_[t]`, the rows `T`, the lookups `M` (multiplication), `E` (elimination) and `B`
    (the first 64 columns from `readcol` on of every row) -/
structure Tab where
  k : Nat
  T : Array Nat
  M : Array Nat
  E : Array Nat
  B : Array Nat
deriving Repr, BEq, Inhabited

/-- `m4ri_spread_bits(from, offsets, length, base)`: bit `t` goes to position `offsets[t] - base` -/
def spread (x : Nat) (offsets : Nat → Nat) (length base : Nat) : Nat :=
  (List.range length).foldl (fun to t => to ||| ((x &&& (1 <<< t)) <<< (offsets t - t - base))) 0

/-- `mzd_make_table_ple(U, r, writecol, k, knar, table, offsets, base, readcol, fullrank)`;
    `offsets t` is the C `offsets[t]` (i.e. `pivots[r + t]`) -/
def makeTablePle (U : Array Nat) (ncols r writecol k knar : Nat) (offsets : Nat → Nat) (base readcol : Nat)
    (fullrank : Bool) : Tab :=
  let twokay := 2 ^ knar
  let ord := buildOrd k
  -- the rows: T[i] = T[i-1] ^ U[r + inc[i-1]] from the word of `writecol` on (Gray code of length `knar`)
  let T := (makeTable U U.size ncols r (64 * (writecol / 64)) knar (Array.replicate twokay 0)
    (Array.replicate twokay 0)).1
  let zeros := Array.replicate (2 ^ k) 0
  if !fullrank then
    let M := (List.range' 1 (twokay - 1)).foldl (fun (M : Array Nat) i =>
      M.setIfInBounds (spread (ord.getD i 0) offsets knar base) i) zeros
    ⟨k, T, M, zeros, zeros⟩
  else
    let EM := (List.range' 1 (twokay - 1)).foldl (fun (EM : Array Nat × Array Nat) i =>
      (EM.1.setIfInBounds (bitsAt (T.getD i 0) writecol k) i, EM.2.setIfInBounds (ord.getD i 0) i)) (zeros, zeros)
    -- fix the table: the pivot block of row `i` becomes `ord[i]`-relative, then cache the first word
    let T := T.mapIdx fun i t => if 1 ≤ i ∧ i < twokay then t ^^^ (ord.getD i 0 <<< writecol) else t
    let btr := min 64 (ncols - readcol)
    let B := (Array.range twokay).map fun i => if 1 ≤ i then bitsAt (T.getD i 0) readcol btr else 0
    ⟨k, T, EM.2, EM.1, B⟩

/-- the loop `for (i = 0; i < ntables; i++) mzd_make_table_ple(U, i_knar, i_curr_col, k_[i], knar_[i], T[i],
    i_pivots, i_base, curr_col, knar == kk)` -/
def makeTables (U : Array Nat) (ncols currCol : Nat) (pivots : Array Nat) (fullrank : Bool) :
    List Nat → List Nat → Nat → Nat → List Tab
  | k :: ks, knar :: knars, iKnar, iBase =>
    makeTablePle U ncols iKnar (currCol + iBase) k knar (fun t => pivots.getD (iKnar + t) 0) iBase currCol fullrank
      :: makeTables U ncols currCol pivots fullrank ks knars (iKnar + knar) (iBase + k)
  | _, _, _, _ => []

/-! ### `_mzd_ple_a11_N`, `_mzd_process_rows_ple_N` -/

/-- `x[t] = M[t][(bits >> sh[t]) & bm[t]]`, the XOR of the rows `T[t][x[t]]` -/
def lookupM : List Tab → Nat → Nat
  | [], _ => 0
  | tab :: rest, bits => tab.T.getD (tab.M.getD (bits % 2 ^ tab.k) 0) 0 ^^^ lookupM rest (bits >>> tab.k)

/-- `_mzd_ple_a11_N(A, start_row, stop_row, start_col, block, k, table)` (`N = 1`: `_mzd_ple_a11_1`) -/
def a11 (M : BMat) (startRow stopRow startCol block kk : Nat) (tabs : List Tab) : BMat :=
  if width M ≤ block then M else
  (List.range' startRow (stopRow - startRow)).foldl (fun M i =>
    let bits := bitsAt (M.row i) startCol kk
    M.setRow i (M.row i ^^^ part (lookupM tabs bits) (64 * block) M.ncols)) M

/-- `x[t] = E[t][(bits >> sh[t]) & bm[t]]; bits ^= B[t][x[t]]`; `sh` = the sum of the earlier chunk widths -/
def lookupE : List Tab → Nat → Nat → Nat
  | [], _, _ => 0
  | tab :: rest, bits, sh =>
    let x := tab.E.getD ((bits >>> sh) % 2 ^ tab.k) 0
    tab.T.getD x 0 ^^^ lookupE rest (bits ^^^ tab.B.getD x 0) (sh + tab.k)

/-- `_mzd_process_rows_ple_N(M, startrow, stoprow, startcol, k, table)`
    (`N = 1`: `mzd_process_rows(M, startrow, stoprow, startcol, kk, T[0]->T, T[0]->E)`) -/
def processRowsPle (M : BMat) (startRow stopRow startCol kk : Nat) (tabs : List Tab) : BMat :=
  (List.range' startRow (stopRow - startRow)).foldl (fun M i =>
    let bits := bitsAt (M.row i) startCol kk
    M.setRow i (M.row i ^^^ part (lookupE tabs bits 0) (64 * (startCol / 64)) M.ncols)) M

/-! ### `_mzd_ple_russian` -/

/-- the `k` used: `k = 0` selects
    `(int)log2((__M4RI_CPU_L2_CACHE / 8) / (double)A->width / (double)__M4RI_PLE_NTABLES)` capped by
    `round(0.75 * log2_floor(MIN(nrows, ncols)))` and clipped to `[2, 8]`.  The truncated `log2` of the quotient is
    `Nat.log2` of the integer quotient (values below 1 end up at 2 either way); `round(0.75·n) = (3n + 2) / 4`. -/
def chooseK (A : BMat) (k l2 : Nat) : Nat :=
  if k ≠ 0 then k else
  let k := Nat.log2 ((l2 / 8) / (width A * Gen.pleNTables))
  let klog := (3 * log2Floor (min A.nrows A.ncols) + 2) / 4
  let k := if klog < k then klog else k
  if k < 2 then 2 else if k > 8 then 8 else k

/-- loop state of `while (curr_col < ncols && curr_row < nrows)` -/
structure St where
  M : BMat
  P : Array Nat
  Q : Array Nat
  currRow : Nat
  currCol : Nat
  kk : Nat
deriving Repr, BEq, Inhabited

/-- the "no pivot was found" branch, after `curr_col += kk`: `mzd_find_pivot`, row swap, elimination of the
    column below; `false` = `break` -/
def noPivotStep (M : BMat) (P Q : Array Nat) (currRow currCol kk : Nat) : St × Bool :=
  match M4RI.findPivotB M currRow currCol with
  | some (i, j) =>
    let P := P.setIfInBounds currRow i
    let Q := Q.setIfInBounds currRow j
    let M := M.swapRows currRow i
    let M := if j + 1 < M.ncols then
        (List.range' (currRow + 1) (M.nrows - (currRow + 1))).foldl
          (fun M l => if M.get l j then M.addRowFrom l currRow (j + 1) else M) M
      else M
    (⟨M, P, Q, currRow + 1, j + 1, kk⟩, true)
  | none => (⟨M, P, Q, currRow, currCol, kk⟩, false)

/-- one pass through the body of the main loop; the `Bool` is `false` after `break` -/
def strip (k : Nat) (s : St) : St × Bool :=
  let ncols := s.M.ncols; let nrows := s.M.nrows
  let currRow := s.currRow; let currCol := s.currCol
  let kk := if currCol + s.kk > ncols then ncols - currCol else s.kk
  let splitblock := min (max ((currCol + kk) / 64 + 1) (currCol / 64 + 8)) (width s.M)
  let sd := submatrix s.M s.P s.Q currRow nrows currCol kk splitblock
  let pivots := sd.1.pivots
  let knar := pivots.size
  let doneRow := sd.2
  let M := a10 sd.1.M sd.1.P currRow currCol splitblock knar pivots
  let U := toE M currRow currCol knar pivots
  if knar = 0 then noPivotStep M sd.1.P sd.1.Q currRow (currCol + kk) kk else
  let ntables := nTables k kk
  let ks := chunkSizes kk ntables
  let knars := chunkRanks ks pivots
  let tabs := makeTables U ncols currCol pivots (knar == kk) ks knars 0 0
  let M := a11 M (currRow + knar) (doneRow + 1) currCol splitblock kk tabs
  let M := processRowsPle M (doneRow + 1) nrows currCol kk tabs
  (⟨M, sd.1.P, sd.1.Q, currRow + knar, currCol + kk, kk⟩, true)

def mainLoop (k : Nat) : Nat → St → St
  | 0, s => s
  | fuel + 1, s =>
    if s.currCol < s.M.ncols ∧ s.currRow < s.M.nrows then
      let sb := strip k s
      if sb.2 then mainLoop k fuel sb.1 else sb.1
    else s

/-- `_mzd_ple_russian(A, P, Q, k)`: the matrix left in `A`, the full `P->values`, `Q->values`, and the returned
    rank.  `l2` is `__M4RI_CPU_L2_CACHE` (only used for `k = 0`).  Every pass of the main loop that does not
    `break` increases `curr_col`, so `ncols + 1` passes are enough. -/
def pleRussian (A : BMat) (P Q : Array Nat) (k : Nat) (l2 : Nat := 1310720) : BMat × Array Nat × Array Nat × Nat :=
  let k := chooseK A k l2
  let Q := (List.range A.ncols).foldl (fun Q i => Q.setIfInBounds i i) Q
  let P := (List.range A.nrows).foldl (fun P i => P.setIfInBounds i i) P
  let s := mainLoop k (A.ncols + 1) ⟨A, P, Q, 0, 0, Gen.pleNTables * k⟩
  let r := s.currRow
  -- compressing L: first in the pivot rows, then (mzd_apply_p_right_trans_even_capped) in the rows below
  let M := (List.range r).foldl (fun M j =>
    if s.Q.getD j 0 > j then M.swapColsInRows (s.Q.getD j 0) j j r else M) s.M
  let M := (List.range (min r M.ncols)).foldl (fun M i => M.swapColsInRows i (s.Q.getD i 0) r M.nrows) M
  (M, s.P, s.Q, r)

/-- `_mzd_pluq_russian(A, P, Q, k)` -/
def pluqRussian (A : BMat) (P Q : Array Nat) (k : Nat) (l2 : Nat := 1310720) : BMat × Array Nat × Array Nat × Nat :=
  let o := pleRussian A P Q k l2
  (o.1.applyPRightTransTri o.2.2.1, o.2.1, o.2.2.1, o.2.2.2)

/-! ### the top of ple.c over this base case -/

/-- `_mzd_ple(A, P, Q, cutoff)` (= `mzd_ple`) with the real base case `_mzd_ple_russian(Abar, P, Q, 0)` and the real
    regime parameters (`m4ri_radix`, `__M4RI_PLE_CUTOFF`); `L1 L2 L3` are the configured cache sizes.
    The recursion of `Rec.pleRec` halves the number of column words, so `ncols` levels of fuel are plenty;
    the base case of the triangular solve (`baseRows`) does not influence the value. -/
def pleTop (L1 L2 L3 : Nat) (A : BMat) : BMat × Array Nat × Array Nat × Nat :=
  Rec.pleRec (fun A => pleRussian A (Array.range A.nrows) (Array.range A.ncols) 0 L2) Gen.radix
    (Gen.pleCutoff L1 L2 L3) Gen.radix A.ncols A

/-- `_mzd_pluq(A, P, Q, cutoff)` (= `mzd_pluq`) -/
def pluqTop (L1 L2 L3 : Nat) (A : BMat) : BMat × Array Nat × Array Nat × Nat :=
  let o := pleTop L1 L2 L3 A
  let r := o.2.2.2
  let S := if r ≠ 0 ∧ r < o.1.nrows then o.1.paste 0 0 ((o.1.sub 0 0 r o.1.ncols).applyPRightTransTri o.2.2.1)
    else o.1.applyPRightTransTri o.2.2.1
  (S, o.2.1, o.2.2.1, r)

end PR
end BMat
end M4ri
