/-
  C16 / C15, protocol part: a minimal model of "several threads, any schedule".

  (1) Threads.  Thread `t` owns a PRIVATE state (`Priv`) and runs a fixed list of deterministic steps
      `Priv → Shared → Priv`; the SHARED state is read by every step and written by none (in m4ri: the
      operands `A`, `B`, the Gray-code tables `T`/`L`, `startrow`/`stoprow`; private: the loop variable,
      the table pointers `t[..]`, the index `x`, the destination rows owned by the thread).
      A schedule is any merge of the step lists (`Interleaving`).  `runTrace` executes a merged list.
      A second, scheduler-style formulation: a trace is a list of thread ids, `exec` lets the named
      thread perform its next step (`Complete` = every thread is scheduled exactly as often as it has steps).

  (2) `#pragma omp parallel for` over rows.  The loop state is indexed by the iteration space; iteration `r`
      (`body r`) may read everything that is read-only (captured in `body`) but reads and writes only
      component `r` of the state (`RowLocal`).  `parfor order` runs the iterations in the given order;
      every distribution of iterations over threads and every schedule of a race-free loop is such an order
      at iteration granularity.  `rowLoop` is the same on an `Array` (rows `startrow ≤ r < stoprow` of a
      matrix, `mzd_process_rows2..6`, `_mzd_mul_m4rm`).

  Core Lean only.  Theorems: `M4riProofs/Sched.lean`.
-/
namespace M4ri.Sched

/-- point update of a function -/
def upd {ι : Type} [DecidableEq ι] {α : Type} (f : ι → α) (i : ι) (a : α) : ι → α :=
  fun j => if j = i then a else f j

/-- one deterministic step of a thread: new private state from the old one and the shared state -/
abbrev Step (Priv Shared : Type) := Priv → Shared → Priv

/-- the sequential run of one thread -/
def seqRun {Priv Shared : Type} (sh : Shared) (steps : List (Step Priv Shared)) (p : Priv) : Priv :=
  steps.foldl (fun p s => s p sh) p

section Threads
variable {T : Type} [DecidableEq T] {Priv Shared : Type}

/-- `l` is an interleaving of the step lists `steps t` (`t : T`): it is obtained by repeatedly taking the
    next step of SOME thread that still has one, until no thread has a step left -/
inductive Interleaving : (T → List (Step Priv Shared)) → List (T × Step Priv Shared) → Prop where
  | done {steps : T → List (Step Priv Shared)} (h : ∀ t, steps t = []) : Interleaving steps []
  | next {steps : T → List (Step Priv Shared)} {t : T} {s : Step Priv Shared} {ss : List (Step Priv Shared)}
      {l : List (T × Step Priv Shared)} (h : steps t = s :: ss) (rest : Interleaving (upd steps t ss) l) :
      Interleaving steps ((t, s) :: l)

/-- execute a list of (thread, step) events: each step acts on the private state of its thread -/
def runTrace (sh : Shared) (l : List (T × Step Priv Shared)) (init : T → Priv) : T → Priv :=
  l.foldl (fun priv e => upd priv e.1 (e.2 (priv e.1) sh)) init

/-- scheduler-style configuration: private states and the steps each thread still has to do -/
structure Config (T Priv Shared : Type) where
  priv : T → Priv
  todo : T → List (Step Priv Shared)

/-- the scheduler picks thread `t`: it performs its next step (nothing happens if it has finished) -/
def tick (sh : Shared) (c : Config T Priv Shared) (t : T) : Config T Priv Shared :=
  match c.todo t with
  | []      => c
  | s :: ss => ⟨upd c.priv t (s (c.priv t) sh), upd c.todo t ss⟩

/-- run a schedule (list of thread ids) -/
def exec (sh : Shared) (c : Config T Priv Shared) (tr : List T) : Config T Priv Shared :=
  tr.foldl (tick sh) c

/-- the schedule lets every thread run to completion, and no further -/
def Complete (steps : T → List (Step Priv Shared)) (tr : List T) : Prop :=
  ∀ t, tr.count t = (steps t).length

/-- the sequential schedule of the threads listed in `ts`: all steps of the first, then the second, … -/
def seqSchedule (steps : T → List (Step Priv Shared)) (ts : List T) : List T :=
  ts.flatMap fun t => List.replicate (steps t).length t

end Threads

section ParFor
variable {ι : Type} {α : Type}

/-- iteration `r` reads and writes only component `r` of the state -/
def RowLocal (body : ι → (ι → α) → (ι → α)) : Prop :=
  (∀ r σ i, i ≠ r → body r σ i = σ i) ∧ (∀ r σ σ', σ r = σ' r → body r σ r = body r σ' r)

/-- the loop with its iterations taking effect in the given order -/
def parfor (body : ι → (ι → α) → (ι → α)) (order : List ι) (σ : ι → α) : ι → α :=
  order.foldl (fun σ r => body r σ) σ

/-- the row loop on an array: iteration `r` replaces row `r` by `f r sh (row r)`
    (`sh`: shared read-only data; out-of-range `r` does nothing) -/
def rowLoop {Shared : Type} (f : Nat → Shared → α → α) (sh : Shared) (order : List Nat) (a : Array α) : Array α :=
  order.foldl (fun a r => a.modify r (f r sh)) a

end ParFor

end M4ri.Sched
