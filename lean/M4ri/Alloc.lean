/-
  Executable model of the m4ri allocation layer (property C14).

  Mirrors, statement by statement,
    * m4ri/mmc.c   : `m4ri_mmc_malloc`, `m4ri_mmc_free`, `m4ri_mmc_cleanup`, (mmc.h) `m4ri_mmc_calloc`
    * m4ri/mzd.c   : `log2_floor`, `mzd_t_malloc`, `mzd_t_free`, `mzd_init`, `mzd_init_window`, `mzd_free`
    * m4ri/misc.h  : `m4ri_mm_malloc`, `m4ri_mm_malloc_aligned`, `m4ri_mm_free`  (= the "system")
  with the three capacities as parameters
    nblocks   = __M4RI_MMC_NBLOCKS      (16)
    cacheMax  = __M4RI_MZD_T_CACHE_MAX  (16)
    threshold = __M4RI_MMC_THRESHOLD    (= __M4RI_CPU_L3_CACHE, bytes)

  Abstract pointers: every system allocation gets the next allocation-event number 1,2,3,... ;
  `0` plays the role of NULL.  Core Lean only (no Mathlib).
-/
namespace M4ri.Alloc

/-- What a system block was allocated for (ghost information; never changes during the block's life). -/
inductive Kind where
  | data    -- matrix data block (m4ri_mmc_malloc → m4ri_mm_malloc)
  | hblock  -- a `mzd_t_cache_t` block of 64 headers (m4ri_mm_malloc_aligned)
  | hplain  -- a single plain-malloc'ed `mzd_t` header (beyond the block limit)
deriving DecidableEq, Repr, Inhabited

/-- A live system block. -/
structure Blk where
  id   : Nat
  size : Nat
  kind : Kind
deriving DecidableEq, Repr, Inhabited

/-- `mmb_t`: one slot of `m4ri_mmc_cache`. `data = 0` is NULL. -/
structure Entry where
  size : Nat
  data : Nat
deriving DecidableEq, Repr, Inhabited

/-- `mzd_t_cache_t` (only the parts relevant for allocation): `id = 0` is the static block `mzd_cache`,
    otherwise the allocation-event number of the malloc'ed block. -/
structure HBlock where
  id   : Nat
  used : BitVec 64
deriving DecidableEq, Repr, Inhabited

/-- A live `mzd_t`. Header location: `plain = false` → slot `slot` of header block `hb`;
    `plain = true` → individually malloc'ed header with allocation id `hb` (slot = 0). -/
structure Mat where
  hb        : Nat
  slot      : Nat
  plain     : Bool
  data      : Nat      -- system block the `data` pointer points into; 0 = NULL
  nrows     : Nat
  rowstride : Nat
  windowed  : Bool
  zeroed    : Bool     -- contents known to be all-zero when the matrix was created
deriving DecidableEq, Repr, Inhabited

structure State where
  next     : Nat := 0                 -- number of system allocations so far
  live     : List Blk := []           -- live system blocks
  zeroIds  : List Nat := []           -- ids of live blocks whose contents are known to be all zero
  cache    : List Entry := []         -- m4ri_mmc_cache, length nblocks
  j        : Nat := 0                 -- the `static int j` of m4ri_mmc_free
  blocks   : List HBlock := []        -- header-block list, head = static block (id 0)
  cur      : Nat := 0                 -- current_cache (block id)
  mats     : List (Option Mat) := []  -- handle ↦ live matrix (none = freed)
  newLog   : List Nat := []           -- ids obtained from the system during the current operation
  freedLog : List Nat := []           -- ids released to the system during the current operation
deriving Repr, Inhabited

inductive AOp where
  | init (r c : Nat)
  | window (parent lowr lowc highr highc : Nat)
  | free (h : Nat)
  | cleanup
deriving DecidableEq, Repr, Inhabited

/-- State after library load: zeroed static arrays, `current_cache = &mzd_cache`. -/
def State.initial (nblocks : Nat) : State :=
  { cache := List.replicate nblocks ⟨0, 0⟩, blocks := [⟨0, 0⟩] }

/-! ### The system allocator (misc.h) -/

/-- `m4ri_mm_malloc` / `m4ri_mm_malloc_aligned`: contents of the new block are NOT known to be zero. -/
def sysMalloc (s : State) (size : Nat) (kind : Kind) : State × Nat :=
  let a := s.next + 1
  ({ s with next := a, live := s.live ++ [⟨a, size, kind⟩], newLog := s.newLog ++ [a] }, a)

/-- `m4ri_mm_free` (`free(NULL)` is a no-op). -/
def sysFree (s : State) (a : Nat) : State :=
  if a = 0 then s else
  { s with live := s.live.filter (fun b => b.id != a),
           zeroIds := s.zeroIds.filter (fun x => x != a),
           freedLog := s.freedLog ++ [a] }

/-! ### mmc.c -/

/-- `m4ri_mmc_malloc(size)`. -/
def mmcMalloc (threshold : Nat) (s : State) (size : Nat) : State × Nat :=
  match (if size ≤ threshold then s.cache.findIdx? (fun e => e.size == size) else none) with
  | some i =>
    let ret := (s.cache.getD i ⟨0, 0⟩).data
    let s1 := { s with cache := s.cache.set i ⟨0, 0⟩ }
    if ret ≠ 0 then (s1, ret) else sysMalloc s1 size .data
  | none => sysMalloc s size .data

/-- `memset(ret, 0, total_size)`. -/
def memsetZero (s : State) (a : Nat) : State := { s with zeroIds := a :: s.zeroIds }

/-- `m4ri_mmc_calloc(count, 8)` with `size = count * 8`: malloc, then ALWAYS memset. -/
def mmcCalloc (threshold : Nat) (s : State) (size : Nat) : State × Nat :=
  let (s1, ret) := mmcMalloc threshold s size
  (memsetZero s1 ret, ret)

/-- `m4ri_mmc_free(condemned, size)`. The block's contents are arbitrary from here on. -/
def mmcFree (nblocks threshold : Nat) (s : State) (condemned size : Nat) : State :=
  let s := { s with zeroIds := s.zeroIds.filter (fun x => x != condemned) }
  if size < threshold then
    match s.cache.findIdx? (fun e => e.size == 0) with
    | some i => { s with cache := s.cache.set i ⟨size, condemned⟩ }
    | none =>
      let s1 := sysFree s (s.cache.getD s.j ⟨0, 0⟩).data
      { s1 with cache := s1.cache.set s1.j ⟨size, condemned⟩, j := (s1.j + 1) % nblocks }
  else sysFree s condemned

/-- `m4ri_mmc_cleanup`: note that only `size` is reset, the stale `data` pointer stays in the slot. -/
def mmcCleanup (s : State) : State :=
  let s1 := s.cache.foldl (fun st e => if e.size ≠ 0 then sysFree st e.data else st) s
  { s1 with cache := s1.cache.map (fun e => ⟨0, e.data⟩) }

/-! ### mzd.c : header cache -/

def l2step (S mask : Nat) (p : Nat × Nat) : Nat × Nat :=
  if p.1 &&& mask ≠ 0 then (p.1 >>> S, p.2 ||| S) else p

/-- `log2_floor` (the six-step binary search of mzd.c). -/
def log2Floor (v : Nat) : Nat :=
  (l2step 1 0x2 <| l2step 2 0xC <| l2step 4 0xF0 <| l2step 8 0xFF00 <|
   l2step 16 0xFFFF0000 <| l2step 32 0xFFFFFFFF00000000 (v, 0)).2

def isFull (B : HBlock) : Bool := B.used == BitVec.allOnes 64

/-- `cache->used` for the block with the given id. -/
def usedOf (s : State) (id : Nat) : BitVec 64 :=
  match s.blocks.find? (fun B => B.id == id) with
  | some B => B.used
  | none => 0

def setUsed (l : List HBlock) (id : Nat) (u : BitVec 64) : List HBlock :=
  l.map (fun B => if B.id = id then { B with used := u } else B)

/-- Where `mzd_t_malloc` put the header. -/
structure Hdr where
  hb    : Nat
  slot  : Nat
  plain : Bool
deriving DecidableEq, Repr, Inhabited

/-- The tail of `mzd_t_malloc`: `free_entry = log2_floor(~current_cache->used); used |= 1 << free_entry`. -/
def markSlot (s : State) : State × Hdr :=
  let u := usedOf s s.cur
  let e := log2Floor (~~~u).toNat
  ({ s with blocks := setUsed s.blocks s.cur (u ||| (1#64 <<< e)) }, ⟨s.cur, e, false⟩)

/-- `mzd_t_malloc`. -/
def hdrMalloc (cacheMax : Nat) (s : State) : State × Hdr :=
  if usedOf s s.cur == BitVec.allOnes 64 then
    -- while (cache && cache->used == -1) { current_cache = cache; cache = cache->next; i++; }
    let i := s.blocks.findIdx (fun B => !isFull B)
    match s.blocks[i]? with
    | some B => markSlot { s with cur := B.id }           -- a block with a free slot exists
    | none =>
      -- every block is full; current_cache = last block
      let s := { s with cur := (s.blocks.getLast?.map (·.id)).getD s.cur }
      if i < cacheMax then
        let (s1, a) := sysMalloc s 4160 .hblock             -- sizeof(mzd_t_cache_t)
        markSlot { s1 with blocks := s1.blocks ++ [⟨a, 0⟩], cur := a }
      else
        let (s1, a) := sysMalloc s 64 .hplain               -- sizeof(mzd_t)
        (s1, ⟨a, 0, true⟩)
  else markSlot s

/-- The block preceding the block with id `x` (`cache->prev`); `p` = id of the block before the list. -/
def prevId : List HBlock → Nat → Nat → Nat
  | [], _, p => p
  | B :: t, x, p => if B.id = x then p else prevId t x B.id

/-- `mzd_t_free`. -/
def hdrFree (s : State) (m : Mat) : State :=
  match (if m.plain then none else s.blocks.find? (fun B => B.id == m.hb)) with
  | none => sysFree s m.hb                                   -- !foundit
  | some B =>
    let u := B.used &&& ~~~(1#64 <<< m.slot)
    if u == 0 then
      if B.id = 0 then
        { s with blocks := setUsed s.blocks B.id u, cur := 0 }
      else
        let cur' := if s.cur = B.id then prevId s.blocks B.id 0 else s.cur
        sysFree { s with blocks := s.blocks.filter (fun C => C.id != B.id), cur := cur' } B.id
    else { s with blocks := setUsed s.blocks B.id u }

/-! ### mzd.c : matrices.  Each public operation is split into two internal phases. -/

def widthOf (c : Nat) : Nat := (c + 63) / 64
def rowstrideOf (c : Nat) : Nat := if widthOf c % 2 = 0 then widthOf c else widthOf c + 1

/-- `mzd_t *A = mzd_t_malloc();` — a header exists, it owns no data yet. -/
def pushHdr (cacheMax : Nat) (s : State) : State :=
  let (s1, h) := hdrMalloc cacheMax s
  { s1 with mats := s1.mats ++ [some ⟨h.hb, h.slot, h.plain, 0, 0, 0, false, true⟩] }

/-- `A->data = m4ri_mmc_calloc(r * rowstride, sizeof(word))` and the scalar fields. -/
def attachData (threshold : Nat) (s : State) (h r rs : Nat) : State :=
  match s.mats[h]? with
  | some (some m) =>
    let (s1, d) := mmcCalloc threshold s (8 * (r * rs))
    { s1 with mats := s1.mats.set h (some { m with data := d, nrows := r, rowstride := rs,
                                                   zeroed := s1.zeroIds.contains d }) }
  | _ => s

/-- The field assignments of `mzd_init_window`. -/
def setWindow (s : State) (h : Nat) (P : Mat) (lowr highr : Nat) : State :=
  match s.mats[h]? with
  | some (some m) =>
    { s with mats := s.mats.set h (some { m with data := P.data, nrows := min (highr - lowr) (P.nrows - lowr),
                                                 rowstride := P.rowstride, windowed := true, zeroed := false }) }
  | _ => s

/-- First half of `mzd_free`: `if (!mzd_is_windowed(A)) m4ri_mmc_free(A->data, nrows*rowstride*8)`.
    Afterwards the header no longer owns a data block. -/
def detachData (nblocks threshold : Nat) (s : State) (h : Nat) : State :=
  match s.mats[h]? with
  | some (some m) =>
    if m.windowed then s else
    let s1 := mmcFree nblocks threshold s m.data (8 * (m.nrows * m.rowstride))
    { s1 with mats := s1.mats.set h (some { m with data := 0, nrows := 0 }) }
  | _ => s

/-- Second half of `mzd_free`: `mzd_t_free(A)`. -/
def dropHdr (s : State) (h : Nat) : State :=
  match s.mats[h]? with
  | some (some m) =>
    let s1 := hdrFree s m
    { s1 with mats := s1.mats.set h none }
  | _ => s

def clearLogs (s : State) : State := { s with newLog := [], freedLog := [] }

/-- Result of one operation. -/
inductive Out where
  | init (m : Mat)
  | window (m : Mat)
  | free
  | cleanup
  | bad (tag : String)
deriving Repr, Inhabited

/-- One public operation. -/
def step (nblocks cacheMax threshold : Nat) (s : State) : AOp → State × Out
  | .init r c =>
    let s := clearLogs s
    let h := s.mats.length
    let s1 := pushHdr cacheMax s                                   -- header BEFORE data
    let s2 := if r ≠ 0 ∧ c ≠ 0 then attachData threshold s1 h r (rowstrideOf c) else s1
    (s2, match s2.mats[h]? with | some (some m) => .init m | _ => .bad "I")
  | .window p lowr _lowc highr _highc =>
    let s := clearLogs s
    match s.mats[p]? with
    | some (some P) =>
      let h := s.mats.length
      let s1 := setWindow (pushHdr cacheMax s) h P lowr highr
      (s1, match s1.mats[h]? with | some (some m) => .window m | _ => .bad "W")
    | _ => (s, .bad "W")
  | .free h =>
    let s := clearLogs s
    match s.mats[h]? with
    | some (some _) => (dropHdr (detachData nblocks threshold s h) h, .free)
    | _ => (s, .bad "F")
  | .cleanup => (mmcCleanup (clearLogs s), .cleanup)

def run (nblocks cacheMax threshold : Nat) (s : State) : List AOp → State
  | [] => s
  | op :: ops => run nblocks cacheMax threshold (step nblocks cacheMax threshold s op).1 ops

/-! ### Trace -/

def showIds : List Nat → String
  | [] => "-"
  | l => ",".intercalate (l.map toString)

def showHdr (m : Mat) : String :=
  if m.plain then s!"m{m.hb}:0"
  else if m.hb = 0 then s!"0:{m.slot}"
  else s!"a{m.hb}:{m.slot}"

def showOut (s : State) : Out → String
  | .init m => s!"I h={showHdr m} d={if m.data = 0 then "-" else toString m.data} new={showIds s.newLog} freed={showIds s.freedLog}"
  | .window m => s!"W h={showHdr m} new={showIds s.newLog} freed={showIds s.freedLog}"
  | .free => s!"F new={showIds s.newLog} freed={showIds s.freedLog}"
  | .cleanup => s!"C new={showIds s.newLog} freed={showIds s.freedLog}"
  | .bad tag => s!"{tag} bad"

def runTrace (nblocks cacheMax threshold : Nat) (s : State) : List AOp → List String
  | [] => []
  | op :: ops =>
    let (s1, o) := step nblocks cacheMax threshold s op
    showOut s1 o :: runTrace nblocks cacheMax threshold s1 ops

/-- One trace line per operation, starting from the freshly loaded library. -/
def runAllocSeq (nblocks cacheMax threshold : Nat) (ops : List AOp) : List String :=
  runTrace nblocks cacheMax threshold (State.initial nblocks) ops

/-! ### Script parser: `i 3 70;w 0 0 0 2 64;f 1;f 0;c` -/

def parseOp (t : String) : Option AOp :=
  let ws := (t.splitOn " ").filter (fun w => w ≠ "")
  match ws with
  | ["i", r, c] => do pure (.init (← r.toNat?) (← c.toNat?))
  | ["w", p, lr, lc, hr, hc] =>
    do pure (.window (← p.toNat?) (← lr.toNat?) (← lc.toNat?) (← hr.toNat?) (← hc.toNat?))
  | ["f", h] => do pure (.free (← h.toNat?))
  | ["c"] => some .cleanup
  | _ => none

def parseOps (script : String) : Option (List AOp) :=
  let parts := (script.splitOn ";").map (fun t => t.trimAscii.toString)
  (parts.filter (fun t => t ≠ "")).mapM parseOp

/-- Convenience: parse and run; `none` on a malformed script. -/
def runScript (nblocks cacheMax threshold : Nat) (script : String) : Option (List String) :=
  (parseOps script).map (runAllocSeq nblocks cacheMax threshold)

end M4ri.Alloc
