/-
  C16 (OpenMP build), mp.c on rows-as-`Nat` (`BMat`):
    `mzd_mul_mp`, `mzd_addmul_mp`, `_mzd_mul_mp4`, `_mzd_addmul_mp4`.

  `_mzd_(add)mul_mp4` cut `A` (rows) and `B` (columns) — and the inner dimension — in two halves that are
  multiples of 64 (`half`), form the four quadrant windows of `A`, `B`, `C` and compute the four quadrants of
  `C` in four OpenMP `sections`:
        section 0:  C00 (+)= A00·B00;  C00 += A01·B10          section 1:  C01 (+)= A00·B01;  C01 += A01·B11
        section 2:  C10 (+)= A10·B00;  C10 += A11·B10          section 3:  C11 (+)= A10·B01;  C11 += A11·B11
  (each product by `_mzd_mul_even` / `_mzd_addmul_even` of strassen.c = `mulEven` / `addmulEven` of Mul.lean).
  After the parallel region the three remainder strips (last columns, last rows, last inner indices) are
  handled sequentially (`strips`): `_mzd_mul_mp4` overwrites the last columns / rows with
  `_mzd_mul_m4rm(…, 0, TRUE)`, `_mzd_addmul_mp4` accumulates with `mzd_addmul_m4rm`; both accumulate the
  last inner indices into the bulk.

  Model of the parallel region: the state shared by the sections is the destination `C`; each section is a
  function `State → State` that reads its window of `C` (and the read-only `A`, `B`), and writes the window
  back.  `sched : List (Fin 4)` is the ORDER in which the four sections take effect; "every number of threads
  and every schedule" is, at section granularity, every permutation of `[0, 1, 2, 3]`.

  Core Lean only.  Theorems: `M4riProofs/Mp.lean`.
-/
import M4ri.Mul
namespace M4ri
namespace BMat
namespace Mp

/-- mp.c has its own `static inline int closer(rci_t a, int cutoff)
    { return 3 * a < 4 * cutoff || a < 2 * m4ri_radix; }` (same text as the copy in strassen.c, `Gen.closer`):
    a dimension below two words is never split, so no half is empty -/
def closer (a cutoff : Nat) : Bool := decide (3 * a < 4 * cutoff ∨ a < 2 * 64)

/-- `a -= a % (2 * m4ri_radix);  ((a / m4ri_radix) >> 1) * m4ri_radix` -/
def half (a : Nat) : Nat := halfSplit a (2 * 64)

/-- what the sections share and write: the destination matrix -/
structure State where
  C : BMat
deriving Repr, BEq, Inhabited

/-- what the sections only read: operands, cut points, cut-off; `acc` distinguishes `_mzd_addmul_mp4`
    (first product of each section accumulates) from `_mzd_mul_mp4` (first product overwrites) -/
structure Ctx where
  fuel   : Nat
  A      : BMat
  B      : BMat
  cutoff : Nat
  anr    : Nat
  anc    : Nat
  bnc    : Nat
  acc    : Bool

/-- first product of a section: `_mzd_mul_even` or `_mzd_addmul_even` -/
def first (x : Ctx) (Cq Aq Bq : BMat) : BMat :=
  if x.acc then addmulEven x.fuel Cq Aq Bq x.cutoff else mulEven x.fuel Cq Aq Bq x.cutoff

/-- section 0: `C00 (+)= A00·B00; C00 += A01·B10` -/
def section0 (x : Ctx) (s : State) : State :=
  let A00 := x.A.sub 0 0 x.anr x.anc
  let A01 := x.A.sub 0 x.anc x.anr (2 * x.anc)
  let B00 := x.B.sub 0 0 x.anc x.bnc
  let B10 := x.B.sub x.anc 0 (2 * x.anc) x.bnc
  let C00 := s.C.sub 0 0 x.anr x.bnc
  let C00 := first x C00 A00 B00
  let C00 := addmulEven x.fuel C00 A01 B10 x.cutoff
  ⟨s.C.paste 0 0 C00⟩

/-- section 1: `C01 (+)= A00·B01; C01 += A01·B11` -/
def section1 (x : Ctx) (s : State) : State :=
  let A00 := x.A.sub 0 0 x.anr x.anc
  let A01 := x.A.sub 0 x.anc x.anr (2 * x.anc)
  let B01 := x.B.sub 0 x.bnc x.anc (2 * x.bnc)
  let B11 := x.B.sub x.anc x.bnc (2 * x.anc) (2 * x.bnc)
  let C01 := s.C.sub 0 x.bnc x.anr (2 * x.bnc)
  let C01 := first x C01 A00 B01
  let C01 := addmulEven x.fuel C01 A01 B11 x.cutoff
  ⟨s.C.paste 0 x.bnc C01⟩

/-- section 2: `C10 (+)= A10·B00; C10 += A11·B10` -/
def section2 (x : Ctx) (s : State) : State :=
  let A10 := x.A.sub x.anr 0 (2 * x.anr) x.anc
  let A11 := x.A.sub x.anr x.anc (2 * x.anr) (2 * x.anc)
  let B00 := x.B.sub 0 0 x.anc x.bnc
  let B10 := x.B.sub x.anc 0 (2 * x.anc) x.bnc
  let C10 := s.C.sub x.anr 0 (2 * x.anr) x.bnc
  let C10 := first x C10 A10 B00
  let C10 := addmulEven x.fuel C10 A11 B10 x.cutoff
  ⟨s.C.paste x.anr 0 C10⟩

/-- section 3: `C11 (+)= A10·B01; C11 += A11·B11` -/
def section3 (x : Ctx) (s : State) : State :=
  let A10 := x.A.sub x.anr 0 (2 * x.anr) x.anc
  let A11 := x.A.sub x.anr x.anc (2 * x.anr) (2 * x.anc)
  let B01 := x.B.sub 0 x.bnc x.anc (2 * x.bnc)
  let B11 := x.B.sub x.anc x.bnc (2 * x.anc) (2 * x.bnc)
  let C11 := s.C.sub x.anr x.bnc (2 * x.anr) (2 * x.bnc)
  let C11 := first x C11 A10 B01
  let C11 := addmulEven x.fuel C11 A11 B11 x.cutoff
  ⟨s.C.paste x.anr x.bnc C11⟩

/-- the body of section `k` -/
def sectionOf (x : Ctx) (k : Fin 4) : State → State :=
  match k with
  | 0 => section0 x
  | 1 => section1 x
  | 2 => section2 x
  | 3 => section3 x

/-- the parallel region: the sections take effect in the order `sched` -/
def runSections (x : Ctx) (sched : List (Fin 4)) (s : State) : State :=
  sched.foldl (fun s k => sectionOf x k s) s

/-- `mzd_addmul_m4rm(W, X, Y, 0)` where `W` is the window `(r0, c0, r1, c1)` of `D`, seen from `D`
    (the wrapper returns at once on an empty destination) -/
def addmulWindow (D : BMat) (r0 c0 r1 c1 : Nat) (X Y : BMat) : BMat :=
  let W := D.sub r0 c0 r1 c1
  if W.ncols = 0 ∨ W.nrows = 0 then D else D.paste r0 c0 (m4rm W X Y 0 false)

/-- `_mzd_mul_m4rm(W, X, Y, 0, TRUE)` where `W` is the window `(r0, c0, r1, c1)` of `D`, seen from `D`
    (the window is overwritten with `X·Y`) -/
def mulWindow (D : BMat) (r0 c0 r1 c1 : Nat) (X Y : BMat) : BMat :=
  D.paste r0 c0 (m4rm (D.sub r0 c0 r1 c1) X Y 0 true)

/-- "deal with rest" of `_mzd_mul_mp4` (`acc = false`) / `_mzd_addmul_mp4` (`acc = true`):
    last columns and last rows are OVERWRITTEN with `_mzd_mul_m4rm(…, 0, TRUE)` in `_mzd_mul_mp4` and
    accumulated into with `mzd_addmul_m4rm` in `_mzd_addmul_mp4`; the last inner indices are accumulated
    into the bulk with `mzd_addmul_m4rm` in both -/
def strips (acc : Bool) (C A B : BMat) (anr anc bnc : Nat) : BMat :=
  let bnr := anc
  let C := if B.ncols > 2 * bnc then
      (if acc then addmulWindow C 0 (2 * bnc) A.nrows C.ncols A (B.sub 0 (2 * bnc) A.ncols B.ncols)
       else mulWindow C 0 (2 * bnc) A.nrows C.ncols A (B.sub 0 (2 * bnc) A.ncols B.ncols))
    else C
  let C := if A.nrows > 2 * anr then
      (if acc then
        addmulWindow C (2 * anr) 0 C.nrows (2 * bnc) (A.sub (2 * anr) 0 A.nrows A.ncols) (B.sub 0 0 B.nrows (2 * bnc))
       else
        mulWindow C (2 * anr) 0 C.nrows (2 * bnc) (A.sub (2 * anr) 0 A.nrows A.ncols) (B.sub 0 0 B.nrows (2 * bnc)))
    else C
  if A.ncols > 2 * anc then
    addmulWindow C 0 0 (2 * anr) (2 * bnc) (A.sub 0 (2 * anc) (2 * anr) A.ncols) (B.sub (2 * bnr) 0 B.nrows (2 * bnc))
  else C

/-- the common body of `_mzd_mul_mp4` (`acc = false`) and `_mzd_addmul_mp4` (`acc = true`) below the
    base-case test -/
def mp4Body (acc : Bool) (sched : List (Fin 4)) (fuel : Nat) (C A B : BMat) (cutoff : Nat) : BMat :=
  let anr := half A.nrows
  let anc := half A.ncols
  let bnc := half B.ncols
  let x : Ctx := ⟨fuel, A, B, cutoff, anr, anc, bnc, acc⟩
  let s := runSections x sched ⟨C⟩
  strips acc s.C A B anr anc bnc

/-- `_mzd_mul_mp4(C, A, B, cutoff)`: `C` is a pure destination (every entry is overwritten) -/
def mulMp4 (sched : List (Fin 4)) (fuel : Nat) (C A B : BMat) (cutoff : Nat) : BMat :=
  if closer A.nrows cutoff ∨ closer A.ncols cutoff ∨ closer B.ncols cutoff then
    let Cbar := zero C.nrows C.ncols                 -- mzd_init
    let Cbar := m4rm Cbar A B 0 false                -- _mzd_mul_m4rm(Cbar, A, B, 0, FALSE)
    C.paste 0 0 Cbar                                 -- mzd_copy(C, Cbar)
  else mp4Body false sched fuel C A B cutoff

/-- `_mzd_addmul_mp4(C, A, B, cutoff)` -/
def addmulMp4 (sched : List (Fin 4)) (fuel : Nat) (C A B : BMat) (cutoff : Nat) : BMat :=
  if closer A.nrows cutoff ∨ closer A.ncols cutoff ∨ closer B.ncols cutoff then
    let Cbar := zero C.nrows C.ncols
    let Cbar := m4rm Cbar A B 0 false
    addM C Cbar                                      -- mzd_add(C, C, Cbar)
  else mp4Body true sched fuel C A B cutoff

/-- the cut-off handling of both wrappers: `0` selects the default, then round down to a multiple of 64,
    at least 64 -/
def wrapCutoff (cutoff dflt : Nat) : Nat :=
  let cutoff := if cutoff = 0 then dflt else cutoff
  let cutoff := cutoff / 64 * 64
  if cutoff < 64 then 64 else cutoff

/-- `mzd_mul_mp(C, A, B, cutoff)` after its dimension checks; `C = none` is the call with `C == NULL`
    (a fresh zero matrix is allocated); `dflt` = `__M4RI_STRASSEN_MUL_CUTOFF` -/
def mulMp (sched : List (Fin 4)) (fuel : Nat) (C : Option BMat) (A B : BMat) (cutoff : Nat)
    (dflt : Nat := 4096) : BMat :=
  let cutoff := wrapCutoff cutoff dflt
  let C := match C with
    | none => zero A.nrows B.ncols
    | some C => C
  mulMp4 sched fuel C A B cutoff

/-- `mzd_addmul_mp(C, A, B, cutoff)` after its dimension checks -/
def addmulMp (sched : List (Fin 4)) (fuel : Nat) (C : Option BMat) (A B : BMat) (cutoff : Nat)
    (dflt : Nat := 4096) : BMat :=
  let cutoff := wrapCutoff cutoff dflt
  let C := match C with
    | none => zero A.nrows B.ncols
    | some C => C
  if A.nrows = 0 ∨ A.ncols = 0 ∨ B.ncols = 0 then C else
  addmulMp4 sched fuel C A B cutoff

/-- the 24 schedules of the parallel region at section granularity -/
def allSchedules : List (List (Fin 4)) :=
  let l : List (Fin 4) := [0, 1, 2, 3]
  l.flatMap fun a => (l.filter (· ≠ a)).flatMap fun b => ((l.filter (· ≠ a)).filter (· ≠ b)).flatMap fun c =>
    (((l.filter (· ≠ a)).filter (· ≠ b)).filter (· ≠ c)).map fun d => [a, b, c, d]

end Mp
end BMat
end M4ri
