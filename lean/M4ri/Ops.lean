/-
  Operation dispatcher of the model driver: maps an operation name and parsed arguments to the
  model's result values. Anything the real code rejects via `m4ri_die` yields `error "die"`.
-/
import M4ri.Proto
import M4ri.BMat
import M4ri.Spec
import M4ri.Mul
import M4ri.Transpose
import M4ri.MulW
import M4ri.Elim
import M4ri.Glue
import M4ri.TrsmBase
import M4ri.PleRussian
import M4ri.M4riElim
import M4ri.EchelonTop
import M4ri.Io
import M4ri.Djb
import M4ri.Mp
namespace M4ri

abbrev R := Except String

def argMat (args : Array Val) (i : Nat) : R Mzd :=
  match args[i]? with
  | some (.mat m) => pure m
  | some (.alias k) => match args[k]? with
    | some (.mat m) => pure m
    | _ => throw "bad-alias"
  | _ => throw s!"bad-arg-{i}-mat"

def argIsNull (args : Array Val) (i : Nat) : Bool :=
  match args[i]? with | some .null => true | _ => false

def argNat (args : Array Val) (i : Nat) : R Nat :=
  match args[i]? with
  | some (.int n) => if n < 0 then throw s!"bad-arg-{i}-neg" else pure n.toNat
  | _ => throw s!"bad-arg-{i}-int"

def argInt (args : Array Val) (i : Nat) : R Int :=
  match args[i]? with
  | some (.int n) => pure n
  | _ => throw s!"bad-arg-{i}-int"

def argWord (args : Array Val) (i : Nat) : R Word :=
  match args[i]? with
  | some (.word w) => pure w
  | _ => throw s!"bad-arg-{i}-word"

def argPerm (args : Array Val) (i : Nat) : R (Array Nat) :=
  match args[i]? with
  | some (.perm p) => pure p
  | _ => throw s!"bad-arg-{i}-perm"

def vb (b : Bool) : Val := .int (if b then 1 else 0)

/-- model result and specification result for an in-place operation on `D0` -/
def both (D0 model : Mzd) (spec : BMat) : Array Val × Option (Array Val) :=
  (#[.mat model], some #[.mat (D0.putB spec)])

/-- for operations with an optional destination: `D0 = none` means "allocated by the call" -/
def bothDst (D0 : Option Mzd) (model : Mzd) (spec : BMat) : Array Val × Option (Array Val) :=
  match D0 with
  | some D => (#[.mat model], some #[.mat (D.putB spec)])
  | none => (#[.mat model], some #[.mat (Mzd.ofB spec)])

def same (vals : Array Val) : Array Val × Option (Array Val) := (vals, some vals)

open Mzd BMat in
def runOpW (op : String) (a : Array Val) : R (Array Val × Option (Array Val)) := do
  match op with
  | "row_swap" =>
    let M ← argMat a 0; let x ← argNat a 1; let y ← argNat a 2
    pure (both M (M.rowSwap x y) (M.toB.sRowSwap x y))
  | "row_swap_from" =>
    let M ← argMat a 0; let x ← argNat a 1; let y ← argNat a 2; let sb ← argNat a 3
    pure (both M (M.rowSwapFrom x y sb) (M.toB.sRowSwapFrom x y sb))
  | "col_swap" =>
    let M ← argMat a 0; let x ← argNat a 1; let y ← argNat a 2
    pure (both M (M.colSwap x y) (M.toB.sColSwapInRows x y 0 M.nrows))
  | "col_swap_in_rows" =>
    let M ← argMat a 0; let x ← argNat a 1; let y ← argNat a 2; let s ← argNat a 3; let e ← argNat a 4
    pure (both M (M.colSwapInRows x y s e) (M.toB.sColSwapInRows x y s e))
  | "row_add" =>
    let M ← argMat a 0; let src ← argNat a 1; let dst ← argNat a 2
    pure (both M (M.rowAdd src dst) (M.toB.sRowAddOffset dst src 0))
  | "row_add_offset" =>
    let M ← argMat a 0; let dst ← argNat a 1; let src ← argNat a 2; let off ← argNat a 3
    pure (both M (M.rowAddOffset dst src off) (M.toB.sRowAddOffset dst src off))
  | "row_clear_offset" =>
    let M ← argMat a 0; let r ← argNat a 1; let off ← argNat a 2
    pure (both M (M.rowClearOffset r off) (M.toB.sRowClearOffset r off))
  | "read_bit" =>
    let M ← argMat a 0; let r ← argNat a 1; let c ← argNat a 2
    pure (#[vb (M.readBit r c)], some #[vb (M.toB.get r c)])
  | "write_bit" =>
    let M ← argMat a 0; let r ← argNat a 1; let c ← argNat a 2; let v ← argNat a 3
    pure (both M (M.writeBit r c (v ≠ 0)) (M.toB.sWriteBit r c (v ≠ 0)))
  | "read_bits" =>
    let M ← argMat a 0; let x ← argNat a 1; let y ← argNat a 2; let n ← argNat a 3
    pure (#[.word (M.readBits x y n)], some #[.word (BitVec.ofNat 64 (M.toB.sReadBits x y n))])
  | "xor_bits" =>
    let M ← argMat a 0; let x ← argNat a 1; let y ← argNat a 2; let n ← argNat a 3; let v ← argWord a 4
    pure (both M (M.xorBits x y n v) (M.toB.sXorBits x y n v.toNat))
  | "and_bits" =>
    let M ← argMat a 0; let x ← argNat a 1; let y ← argNat a 2; let n ← argNat a 3; let v ← argWord a 4
    pure (both M (M.andBits x y n v) (M.toB.sAndBits x y n v.toNat))
  | "clear_bits" =>
    let M ← argMat a 0; let x ← argNat a 1; let y ← argNat a 2; let n ← argNat a 3
    pure (both M (M.clearBits x y n) (M.toB.sClearBits x y n))
  | "combine_in_place" =>
    -- A a_row a_start B b_row b_start
    let A ← argMat a 0; let ar ← argNat a 1; let as ← argNat a 2
    let B ← argMat a 3; let br ← argNat a 4; let bs ← argNat a 5
    pure (both A (A.setRow ar (combineEvenInPlaceWords (A.row ar) (B.row br) as bs A.width A.hb))
      (A.toB.sCombineInPlace ar as B.toB br bs))
  | "combine_even" =>
    -- C c_row c_start A a_row a_start B b_row b_start
    let C ← argMat a 0; let cr ← argNat a 1; let cs ← argNat a 2
    let A ← argMat a 3; let ar ← argNat a 4; let as ← argNat a 5
    let B ← argMat a 6; let br ← argNat a 7; let bs ← argNat a 8
    pure (both C (C.setRow cr (combineEvenWords (C.row cr) (A.row ar) (B.row br) cs as bs A.width C.hb))
      (C.toB.sCombineEven cr cs A.toB ar as B.toB br bs))
  | "set_ui" =>
    let M ← argMat a 0; let v ← argNat a 1
    pure (both M (M.setUi v) (M.toB.sSetUi v))
  | "copy" =>
    let P ← argMat a 1
    if argIsNull a 0 then pure (bothDst none (copyNew P) P.toB) else
      let N ← argMat a 0
      if N.nrows < P.nrows ∨ N.ncols < P.ncols then throw "die" else
        pure (both N (copyInto N P) (N.toB.sCopyInto P.toB))
  | "copy_row" =>
    let B ← argMat a 0; let i ← argNat a 1; let A ← argMat a 2; let j ← argNat a 3
    pure (both B (B.copyRow i A j) (B.toB.sCopyRow i A.toB j))
  | "add" =>
    let A ← argMat a 1; let B ← argMat a 2
    if A.nrows ≠ B.nrows ∨ A.ncols ≠ B.ncols then throw "die" else
    if argIsNull a 0 then pure (bothDst none (addInto (zero A.nrows A.ncols) A B) (A.toB.sAdd B.toB)) else
      let C ← argMat a 0
      if C.nrows ≠ A.nrows ∨ C.ncols ≠ A.ncols then throw "die" else
        pure (both C (addInto C A B) (A.toB.sAdd B.toB))
  | "submatrix" =>
    let M ← argMat a 1
    let lr ← argNat a 2; let lc ← argNat a 3; let hr ← argNat a 4; let hc ← argNat a 5
    if argIsNull a 0 then pure (bothDst none (submatrixNew M lr lc hr hc) (M.toB.sSubmatrix lr lc hr hc)) else
      let S ← argMat a 0
      if S.nrows < hr - lr ∨ S.ncols < hc - lc then throw "die" else
        pure (both S (submatrixInto S M lr lc hr hc) (S.toB.sCopyInto (M.toB.sSubmatrix lr lc hr hc)))
  | "concat" =>
    let A ← argMat a 1; let B ← argMat a 2
    if A.nrows ≠ B.nrows then throw "die" else
    if argIsNull a 0 then pure (bothDst none (concatNew A B) (A.toB.sConcat B.toB)) else
      let C ← argMat a 0
      if C.nrows ≠ A.nrows ∨ C.ncols ≠ A.ncols + B.ncols then throw "die" else
        pure (both C (concatInto C A B) (A.toB.sConcat B.toB))
  | "stack" =>
    let A ← argMat a 1; let B ← argMat a 2
    if A.ncols ≠ B.ncols then throw "die" else
    if argIsNull a 0 then pure (bothDst none (stackNew A B) (A.toB.sStack B.toB)) else
      let C ← argMat a 0
      if C.nrows ≠ A.nrows + B.nrows ∨ C.ncols ≠ A.ncols then throw "die" else
        pure (both C (stackInto C A B) (A.toB.sStack B.toB))
  | "extract_u" =>
    let A ← argMat a 1
    if argIsNull a 0 then pure (bothDst none (extractUNew A) A.toB.sExtractU) else
      let U ← argMat a 0; pure (both U (extractUInto U A) A.toB.sExtractU)
  | "extract_l" =>
    let A ← argMat a 1
    if argIsNull a 0 then pure (bothDst none (extractLNew A) A.toB.sExtractL) else
      let L ← argMat a 0; pure (both L (extractLInto L A) A.toB.sExtractL)
  | "transpose" =>
    let A ← argMat a 1
    -- exact mirror of the transposition kernels (M4ri/Transpose.lean); a window source whose last word is shared
    -- with its parent is transposed from a masked copy (`mzd_is_dangerous_window(A)` branch of `mzd_transpose`)
    let T := Tr.transposeMzd (ofB A.toB)
    if argIsNull a 0 then pure (bothDst none T A.toB.sTranspose) else
      let D ← argMat a 0
      if D.nrows ≠ A.ncols ∨ D.ncols ≠ A.nrows then throw "die" else
        pure (both D (D.putB T.toB) A.toB.sTranspose)
  | "equal" =>
    let A ← argMat a 0; let B ← argMat a 1
    pure (#[vb (equal A B)], some #[vb (A.toB.sEqual B.toB)])
  | "cmp" =>
    -- the specification fixes only: 0 iff equal; sign is compared with the model, symmetry etc. are theorems
    let A ← argMat a 0; let B ← argMat a 1
    pure (#[.int (cmp A B)], none)
  | "is_zero" => let A ← argMat a 0; pure (#[vb (isZero A)], some #[vb A.toB.sIsZero])
  | "first_zero_row" =>
    let A ← argMat a 0; pure (#[.int (firstZeroRow A)], some #[.int A.toB.sFirstZeroRow])
  | "find_pivot" =>
    -- spec: found flag and column are determined; the row is any row with a one in that column
    let M ← argMat a 0; let sr ← argNat a 1; let sc ← argNat a 2
    match M.findPivot sr sc with
    | some (r, c) => pure (#[.int 1, .int r, .int c], none)
    | none => pure (#[.int 0], none)
  | "apply_p_left" =>
    let M ← argMat a 0; let P ← argPerm a 1
    pure (both M (M.applyPLeft P) (M.toB.sRowSwaps P (List.range (min P.size M.nrows))))
  | "apply_p_left_trans" =>
    let M ← argMat a 0; let P ← argPerm a 1
    pure (both M (M.applyPLeftTrans P) (M.toB.sRowSwaps P (List.range (min P.size M.nrows)).reverse))
  | "apply_p_right" =>
    let M ← argMat a 0; let P ← argPerm a 1
    pure (both M (M.applyPRight P)
      (M.toB.sColSwaps P (List.range (min P.size M.ncols)).reverse (fun _ => M.nrows) 0))
  | "apply_p_right_trans" =>
    let M ← argMat a 0; let P ← argPerm a 1
    pure (both M (M.applyPRightTrans P) (M.toB.sColSwaps P (List.range (min P.size M.ncols)) (fun _ => M.nrows) 0))
  | "apply_p_right_even_capped" =>
    let M ← argMat a 0; let P ← argPerm a 1; let sr ← argNat a 2; let sc ← argNat a 3
    let len := min P.size M.ncols
    -- notrans: swaps length-1-i for i = start_col .. length-1, i.e. indices length-1-start_col down to 0
    pure (both M (M.applyPRightEvenCapped P sr sc)
      (M.toB.sColSwaps P (List.range (len - sc)).reverse (fun _ => M.nrows) sr))
  | "apply_p_right_trans_even_capped" =>
    let M ← argMat a 0; let P ← argPerm a 1; let sr ← argNat a 2; let sc ← argNat a 3
    let len := min P.size M.ncols
    pure (both M (M.applyPRightTransEvenCapped P sr sc)
      (M.toB.sColSwaps P (List.range' sc (len - sc)) (fun _ => M.nrows) sr))
  | "apply_p_right_trans_tri" =>
    let M ← argMat a 0; let P ← argPerm a 1
    pure (both M (M.applyPRightTransTri P) (M.toB.sColSwaps P (List.range M.ncols) (fun i => min M.nrows i) 0))
  | _ => throw "unknown-op"

def argIsAlias (args : Array Val) (i k : Nat) : Bool :=
  match args[i]? with | some (.alias j) => j == k | _ => false

/-- destination handling shared by the product routes: `C0 = none` means the call allocates -/
def prodResult (C0 : Option Mzd) (model spec : BMat) : Array Val × Option (Array Val) :=
  match C0 with
  | some C => (#[.mat (C.putB model)], some #[.mat (C.putB spec)])
  | none => (#[.mat (Mzd.ofB model)], some #[.mat (Mzd.ofB spec)])

open Mzd BMat in
def runOpMul (op : String) (a : Array Val) : R (Array Val × Option (Array Val)) := do
  -- common operand layout: C A B [param]
  let A ← argMat a 1; let B ← argMat a 2
  let Ab := A.toB; let Bb := B.toB
  let C0 : Option Mzd ← if argIsNull a 0 then pure none else (do let C ← argMat a 0; pure (some C))
  let Cb : BMat := match C0 with | some C => C.toB | none => BMat.zero A.nrows B.ncols
  let dimsBad : Bool := match C0 with | some C => decide (C.nrows ≠ A.nrows ∨ C.ncols ≠ B.ncols) | none => false
  let prod := Ab.mul Bb
  let same := argIsAlias a 2 1
  -- word-level routes (M4ri/MulW.lean): the destination view with its excess bits, or a fresh matrix
  let CW : Mzd := match C0 with | some C => C | none => Mzd.ofB (BMat.zero A.nrows B.ncols)
  let prodW (model : Mzd) (spec : BMat) : Array Val × Option (Array Val) :=
    (#[.mat model], some #[.mat (CW.putB spec)])
  match op with
  | "mul_naive" =>
    if dimsBad then throw "die" else pure (prodW (W.mulNaiveW CW A B true) prod)
  | "addmul_naive" =>
    if dimsBad then throw "die" else pure (prodW (W.mulNaiveW CW A B false) (Cb.add prod))
  | "mul_va" =>
    let clear := (← argNat a 3) ≠ 0
    pure (prodW (W.mulVaW CW A B clear) (if clear then prod else Cb.add prod))
  | "mul_naive_t" =>
    -- `_mzd_mul_naive(C, A, BT, clear)`: the third operand is already transposed
    let clear := (← argNat a 3) ≠ 0
    let p := Ab.mul Bb.transpose
    pure (prodW (W.mulNaiveTW CW A B clear) (if clear then p else Cb.add p))
  | "mul_m4rm" =>
    let k ← argNat a 3
    if A.ncols ≠ B.nrows ∨ dimsBad then throw "die" else pure (prodW (W.m4rmW CW A B k true) prod)
  | "addmul_m4rm" =>
    let k ← argNat a 3
    if Cb.ncols = 0 ∨ Cb.nrows = 0 then pure (prodResult C0 Cb Cb) else
    if A.ncols ≠ B.nrows ∨ dimsBad then throw "die" else
      pure (prodW (W.m4rmW CW A B k false) (Cb.add prod))
  | "mul" =>
    let cutoff ← argInt a 3
    if A.ncols ≠ B.nrows ∨ cutoff < 0 ∨ dimsBad then throw "die" else
      let c := if cutoff = 0 then 4096 else cutoff.toNat
      pure (prodResult C0 (mulTop 64 Cb Ab Bb c same) prod)
  | "addmul" =>
    let cutoff ← argInt a 3
    if A.ncols ≠ B.nrows ∨ cutoff < 0 ∨ dimsBad then throw "die" else
      let c := if cutoff = 0 then 4096 else cutoff.toNat
      pure (prodResult C0 (addmulTop 64 Cb Ab Bb c same) (Cb.add prod))
  | _ => throw "unknown-op"

/-- result of an in-place matrix operation given as an abstract value -/
def inPlace (M : Mzd) (v : BMat) : Val := .mat (M.putB v)

open Mzd BMat in
def runOpAlg (op : String) (a : Array Val) : R (Array Val × Option (Array Val)) := do
  match op with
  -- ---------------------------------------------------------------- C02 (exact mirrors)
  | "gauss_delayed" =>
    let M ← argMat a 0; let sc ← argNat a 1; let full := (← argNat a 2) ≠ 0
    let (R, r) := gaussDelayed M.toB sc full
    pure (same #[.int r, inPlace M R])
  | "echelonize_naive" =>
    let M ← argMat a 0; let full := (← argNat a 1) ≠ 0
    let (R, r) := gaussDelayed M.toB 0 full
    pure (#[.int r, inPlace M R], if full then some #[.int M.toB.rank, inPlace M M.toB.rref] else none)
  -- canonical results for the routines that are not mirrored step by step: rank, and the RREF when `full`
  | "echelonize_m4ri_exact" =>
    -- `mzd_echelonize_m4ri(A, full, k)` with k ≥ 1: exact mirror (also of the non-reduced, non-unique output)
    let M ← argMat a 0; let full := (← argNat a 1) ≠ 0; let k ← argNat a 2
    let (Rm, r) := M4RI.echelonizeM4ri M.toB full k
    pure (#[.int r, inPlace M Rm], if full then some #[.int M.toB.rank, inPlace M M.toB.rref] else none)
  | "top_echelonize_exact" =>
    let M ← argMat a 0; let k ← argNat a 1
    let (Rm, r) := M4RI.topEchelonizeM4ri M.toB k 0 0 M.nrows
    pure (#[.int r, inPlace M Rm], none)
  | "echelonize_m4ri" | "echelonize_m4ri_h" | "echelonize_pluq" | "echelonize" =>
    let M ← argMat a 0; let full := (← argNat a 1) ≠ 0
    if full then pure (same #[.int M.toB.rank, inPlace M M.toB.rref]) else pure (same #[.int M.toB.rank])
  | "top_echelonize_m4ri" =>
    let M ← argMat a 0
    pure (same #[.int M.toB.rank, inPlace M M.toB.rref])
  | "check_echelon" =>
    -- A0 R r full
    let A ← argMat a 0; let Rm ← argMat a 1; let r ← argNat a 2; let full := (← argNat a 3) ≠ 0
    pure (same #[vb (checkEchelon A.toB Rm.toB r full)])
  -- ---------------------------------------------------------------- C03
  | "ple_naive" | "pluq_naive" =>
    let M ← argMat a 0; let P ← argPerm a 1; let Q ← argPerm a 2
    let (S, P', Q', r) := if op == "ple_naive" then pleNaive M.toB P Q else pluqNaive M.toB P Q
    pure (#[.int r, inPlace M S, .perm P', .perm Q'], none)
  | "ple" | "ple_russian" =>
    -- canonical: rank and column rank profile
    let M ← argMat a 0
    let P ← argPerm a 1; let Q ← argPerm a 2
    if op == "ple" ∧ (P.size ≠ M.nrows ∨ Q.size ≠ M.ncols) then throw "die" else
    let prof := M.toB.rankProfile
    pure (same #[.int prof.length, .perm prof.toArray])
  | "pluq" | "pluq_russian" =>
    let M ← argMat a 0
    let P ← argPerm a 1; let Q ← argPerm a 2
    if op == "pluq" ∧ (P.size ≠ M.nrows ∨ Q.size ≠ M.ncols) then throw "die" else
    pure (same #[.int M.toB.rank])
  | "check_ple" | "check_pluq" =>
    -- A0 S P Q r
    let A ← argMat a 0; let S ← argMat a 1; let P ← argPerm a 2; let Q ← argPerm a 3; let r ← argNat a 4
    let ok := if op == "check_ple" then checkPLE A.toB S.toB P Q r else checkPLUQ A.toB S.toB P Q r
    let prof := A.toB.rankProfile
    let profOK := r == prof.length && (List.range r).all fun i => Q.getD i 0 == prof.getD i 0
    pure (same #[vb ok, vb (if op == "check_ple" then profOK else r == prof.length)])
  -- ---------------------------------------------------------------- C04 (unique result: substitution form)
  | "trsm_ll" | "trsm_ul" | "trsm_ur" | "trsm_lr" =>
    let T ← argMat a 0; let B ← argMat a 1
    let left := op == "trsm_ll" || op == "trsm_ul"
    if (left ∧ T.ncols ≠ B.nrows) ∨ (¬ left ∧ T.nrows ≠ B.ncols) ∨ T.nrows ≠ T.ncols then throw "die" else
    let X := match op with
      | "trsm_ll" => trsmLowerLeft T.toB B.toB
      | "trsm_ul" => trsmUpperLeft T.toB B.toB
      | "trsm_ur" => trsmUpperRight T.toB B.toB
      | _ => trsmLowerRight T.toB B.toB
    pure (same #[inPlace B X])
  -- ---------------------------------------------------------------- C05
  | "inv_m4ri" =>
    let A ← argMat a 1
    let inv := inverseSpec A.toB
    if argIsNull a 0 then pure (same #[.mat (ofB inv)]) else
      let B ← argMat a 0; pure (same #[inPlace B inv])
  | "invert_naive" =>
    -- INV A I
    let A ← argMat a 1; let I ← argMat a 2
    match invertNaive A.toB I.toB with
    | none => pure (same #[.null])
    | some inv =>
      if argIsNull a 0 then pure (same #[.mat (ofB inv)]) else
        let B ← argMat a 0; pure (same #[inPlace B inv])
  | "trtri_upper" =>
    let U ← argMat a 0
    pure (same #[inPlace U (inverseSpec U.toB)])
  -- ---------------------------------------------------------------- C06 / C07 (canonical + checker)
  | "solve_left" | "pluq_solve_left" =>
    -- A B cutoff check ; canonical: the verdict when the check is on
    let A ← argMat a 0; let B ← argMat a 1; let check := (← argNat a 3) ≠ 0
    if A.ncols > B.nrows ∨ B.nrows ≠ max A.ncols A.nrows then throw "die" else
    pure (same #[.int (if check then (if solvable A.toB B.toB then 0 else -1) else 0)])
  | "check_solve" =>
    -- A0 B0 Bout ret check: when ret = 0 the first n rows of Bout solve the system (incl. padding rows)
    let A ← argMat a 0; let B0 ← argMat a 1; let X ← argMat a 2; let ret ← argInt a 3
    let check := (← argNat a 4) ≠ 0
    let Ab := A.toB; let Bb := B0.toB
    let Xn := X.toB.sub 0 0 A.ncols X.ncols
    let rows := max A.nrows A.ncols
    let Apad : BMat := ⟨rows, A.ncols, (Array.range rows).map fun i => if i < A.nrows then Ab.row i else 0⟩
    let solves := (Apad.mul Xn).eqM Bb
    let sol := solvable Ab Bb
    -- with the check: verdict right, and a solution when solvable; without: a solution whenever one exists
    let ok := if check then (ret == 0) == sol && (ret != 0 || solves) else (!sol || solves)
    pure (same #[vb ok])
  | "kernel" =>
    let A ← argMat a 0
    let r := A.toB.rank
    if r = A.ncols then pure (same #[.null]) else pure (same #[.int A.ncols, .int (A.ncols - r)])
  | "check_kernel" =>
    -- A0 K
    let A ← argMat a 0; let K ← argMat a 1
    let Ab := A.toB; let Kb := K.toB
    let r := Ab.rank
    let ok := Kb.nrows == A.ncols && Kb.ncols == A.ncols - r &&
      (Ab.mul Kb).eqM (BMat.zero A.nrows Kb.ncols) && Kb.rank == Kb.ncols
    pure (same #[vb ok])
  -- ------------------------------------------------ glue routines, instantiated with the factorisation (S, P, Q, r)
  -- that the implementation produced for this input (second phase of the correspondence run): exact mirrors
  | "glue_solve" =>
    -- S P Q r A0 B0 check : `_mzd_solve_left`
    let S ← argMat a 0; let P ← argPerm a 1; let Q ← argPerm a 2; let r ← argNat a 3
    let A ← argMat a 4; let B ← argMat a 5; let check := (← argNat a 6) ≠ 0
    let R := SV.solveLeft (fun _ => (S.toB, P, Q, r)) A.toB B.toB check
    pure (#[.int R.1, inPlace B R.2.2], none)
  | "glue_pluq_solve" =>
    -- S P Q r B0 check : `_mzd_pluq_solve_left`
    let S ← argMat a 0; let P ← argPerm a 1; let Q ← argPerm a 2; let r ← argNat a 3
    let B ← argMat a 4; let check := (← argNat a 5) ≠ 0
    let R := pluqSolveLeft S.toB r P Q B.toB check
    pure (#[.int R.1, inPlace B R.2], none)
  | "glue_kernel" =>
    -- S P Q r A0 : `mzd_kernel_left_pluq`
    let S ← argMat a 0; let P ← argPerm a 1; let Q ← argPerm a 2; let r ← argNat a 3; let A ← argMat a 4
    match SV.kernelLeftPluq (fun _ => (S.toB, P, Q, r)) A.toB with
    | none => pure (#[.null], none)
    | some K => pure (#[.mat (ofB K)], none)
  -- ------------------------------------------------ exact mirrors of the factorisation routines; the cache sizes of the
  -- build under test are passed by the correspondence run (second phase)
  | "ple_exact" | "pluq_exact" =>
    -- A P Q L1 L2 L3 : `mzd_ple` / `mzd_pluq` (block recursion over the Four-Russians base case)
    let A ← argMat a 0; let L1 ← argNat a 3; let L2 ← argNat a 4; let L3 ← argNat a 5
    let o := if op == "ple_exact" then PR.pleTop L1 L2 L3 A.toB else PR.pluqTop L1 L2 L3 A.toB
    pure (#[.int o.2.2.2, inPlace A o.1, .perm o.2.1, .perm o.2.2.1], none)
  | "ple_russian_exact" | "pluq_russian_exact" =>
    -- A P Q k L2 : `_mzd_ple_russian` / `_mzd_pluq_russian`
    let A ← argMat a 0; let P ← argPerm a 1; let Q ← argPerm a 2; let k ← argNat a 3; let L2 ← argNat a 4
    let o := if op == "ple_russian_exact" then PR.pleRussian A.toB P Q k L2 else PR.pluqRussian A.toB P Q k L2
    pure (#[.int o.2.2.2, inPlace A o.1, .perm o.2.1, .perm o.2.2.1], none)
  | "trsm_ll_exact" | "trsm_ul_exact" | "trsm_ur_exact" | "trsm_lr_exact" | "trtri_upper_exact" =>
    -- T B L1 L2 L3 sse2 (trtri: U L1 L2 L3 sse2): the complete routines of triangular.c (recursion + word kernels +
    -- Four-Russians base cases) with the regime parameters of the build under test
    let T ← argMat a 0
    let off := if op == "trtri_upper_exact" then 1 else 2
    let L1 ← argNat a off; let L2 ← argNat a (off + 1); let L3 ← argNat a (off + 2); let sse ← argNat a (off + 3)
    let P : TB.Params := ⟨Gen.mulBlocksize L1 L2 L3, L2, L3, sse ≠ 0⟩
    if op == "trtri_upper_exact" then pure (#[inPlace T (TB.trtriUpperC P T.toB)], none) else
    let B ← argMat a 1
    let X := match op with
      | "trsm_ll_exact" => TB.trsmLowerLeftC P T.toB B.toB
      | "trsm_ul_exact" => TB.trsmUpperLeftC P T.toB B.toB
      | "trsm_ur_exact" => TB.trsmUpperRightC P T.toB B.toB
      | _ => TB.trsmLowerRightC T.toB B.toB
    pure (#[inPlace B X], none)
  | "glue_echelonize" =>
    -- S P Q r A0 full : `mzd_echelonize_pluq`
    let S ← argMat a 0; let P ← argPerm a 1; let Q ← argPerm a 2; let r ← argNat a 3; let A ← argMat a 4
    let full := (← argNat a 5) ≠ 0
    let R := PN.echelonizePluq (fun _ => (S.toB, P, Q, r)) A.toB full
    pure (#[.int R.2, inPlace A R.1], none)
  -- ------------------------------------------------ exact mirrors of the top-level echelon-form / inversion entry points
  -- (M4ri/EchelonTop.lean): automatic k, the real density switch, the real PLUQ-based routine; cache sizes as above
  | "echelonize_exact" =>
    -- A full L1 L2 L3 : `mzd_echelonize(A, full)`
    let M ← argMat a 0; let full := (← argNat a 1) ≠ 0
    let L1 ← argNat a 2; let L2 ← argNat a 3; let L3 ← argNat a 4
    let (Rm, r) := ET.echelonize L1 L2 L3 M.toB full
    pure (#[.int r, inPlace M Rm], if full then some #[.int M.toB.rank, inPlace M M.toB.rref] else none)
  | "echelonize_m4ri_exact0" =>
    -- A full k L1 L2 L3 : `mzd_echelonize_m4ri(A, full, k)`, every k ≥ 0 (0: chosen automatically)
    let M ← argMat a 0; let full := (← argNat a 1) ≠ 0; let k ← argNat a 2
    let L3 ← argNat a 5
    let (Rm, r) := ET.echelonizeM4ri L3 M.toB full k
    pure (#[.int r, inPlace M Rm], if full then some #[.int M.toB.rank, inPlace M M.toB.rref] else none)
  | "echelonize_m4ri_h_exact" =>
    -- A full k thr100 L1 L2 L3 : `_mzd_echelonize_m4ri(A, full, k, 1, thr100 / 100.0)`
    let M ← argMat a 0; let full := (← argNat a 1) ≠ 0; let k ← argNat a 2; let thr ← argNat a 3
    let L1 ← argNat a 4; let L2 ← argNat a 5; let L3 ← argNat a 6
    let (Rm, r) := ET.echelonizeM4riTop L1 L2 L3 M.toB full k true (Float.ofNat thr / Float.ofNat 100)
    pure (#[.int r, inPlace M Rm], if full then some #[.int M.toB.rank, inPlace M M.toB.rref] else none)
  | "inv_m4ri_exact" =>
    -- A L1 L2 L3 : `mzd_inv_m4ri(NULL, A, _)` for a square A (the inverse when A is invertible)
    let A ← argMat a 0; let L3 ← argNat a 3
    if A.nrows ≠ A.ncols then throw "die" else
    let inv := ET.invM4riTop L3 A.toB
    pure (#[.mat (ofB inv)], if A.toB.rank = A.nrows then some #[.mat (ofB (inverseSpec A.toB))] else none)
  | "density_exact" =>
    -- A res r c : `_mzd_density(A, res, r, c)`: the bits of the double, count and total
    let A ← argMat a 0; let res ← argNat a 1; let r ← argNat a 2; let c ← argNat a 3
    let p := ET.densityParts A.toB res r c
    pure (#[.word (BitVec.ofNat 64 (ET.density A.toB res r c).toBits.toNat), .int p.1, .int p.2], none)
  | "auto_k_exact" =>
    -- nrows ncols L3 : the k chosen by `_mzd_echelonize_m4ri` / `_mzd_top_echelonize_m4ri` for k = 0
    pure (#[.int (ET.autoK (← argNat a 0) (← argNat a 1) (← argNat a 2))], none)
  | _ => throw "unknown-op"

open Mzd BMat in
def runOpFin (op : String) (a : Array Val) : R (Array Val × Option (Array Val)) := do
  match op with
  | "codebook" =>
    let k ← argNat a 0
    pure (same #[.perm (buildOrd k), .perm (buildInc k)])
  | "gray_code" => pure (#[.int (grayCode (← argNat a 0) (← argNat a 1))],
      some #[.int ((← argNat a 0) ^^^ ((← argNat a 0) >>> 1))])
  | "opt_k" => pure (same #[.int (optK (← argNat a 0) (← argNat a 1))])
  | "mask" =>
    -- kind: 0 left, 1 right, 2 middle ; spec value built bit by bit
    let kind ← argNat a 0; let n ← argNat a 1; let off ← argNat a 2
    let m := match kind with | 0 => leftMask n | 1 => rightMask n | _ => middleMask n off
    let specBits : Nat := (List.range 64).foldl (fun acc p =>
      let on : Bool := match kind with
        | 0 => decide (p < n ∨ n = 0)   -- documented: n = 0 behaves like n = 64
        | 1 => decide (64 - n ≤ p)
        | _ => decide (off ≤ p ∧ p < off + n)
      if on then acc ||| (1 <<< p) else acc) 0
    pure (#[.word m], some #[.word (BitVec.ofNat 64 specBits)])
  | "parity64" =>
    let ws ← (List.range 64).mapM fun i => argWord a i
    let buf : Nat → Word := fun i => ws.getD i 0
    let spec : Nat := (List.range 64).foldl (fun acc i =>
      let par := (List.range 64).foldl (fun p t => p != (buf i).getLsbD t) false
      if par then acc ||| (1 <<< i) else acc) 0
    pure (#[.word (parity64 buf)], some #[.word (BitVec.ofNat 64 spec)])
  | "swap_bits" =>
    let w ← argWord a 0
    let spec : Nat := (List.range 64).foldl (fun acc p => if w.getLsbD (63 - p) then acc ||| (1 <<< p) else acc) 0
    pure (#[.word (swapBits w)], some #[.word (BitVec.ofNat 64 spec)])
  | "lesser_lsb" =>
    let x ← argWord a 0; let y ← argWord a 1
    let low (w : Word) : Nat := ((List.range 64).find? fun p => w.getLsbD p).getD 64
    pure (#[vb (lesserLSB x y)], some #[vb (low x < low y)])
  | "spread" | "shrink" =>
    let w ← argWord a 0; let Q ← argPerm a 1; let len ← argNat a 2; let base ← argNat a 3
    if op == "spread" then
      let spec : Nat := (List.range len).foldl (fun acc i => if w.getLsbD i then acc ||| (1 <<< (Q.getD i 0 - base)) else acc) 0
      pure (#[.word (spreadBits w Q.toList len base)], some #[.word (BitVec.ofNat 64 spec)])
    else
      let spec : Nat := (List.range len).foldl (fun acc i => if w.getLsbD (Q.getD i 0 - base) then acc ||| (1 <<< i) else acc) 0
      pure (#[.word (shrinkBits w Q.toList len base)], some #[.word (BitVec.ofNat 64 spec)])
  | "png_roundtrip" =>
    -- write as 1-bit PNG, read back: model = pack/transform/unpack of every row; spec = the matrix itself
    let M ← argMat a 0
    let B := M.toB
    pure (#[.mat (ofB (Io.fromPngRows B.nrows B.ncols (Io.toPngRows B)))], some #[.mat (ofB B)])
  | "png_corrupt" => pure (#[], none)
  | "djb" =>
    -- W A V : compile A, apply to the (zeroed) target W
    let W ← argMat a 0; let A ← argMat a 1; let V ← argMat a 2
    let ops := Djb.djbCompile A.toB
    let tgt : Array Nat := (ops.map fun o => o.target).toArray
    let src : Array Nat := (ops.map fun o => o.source).toArray
    let typ : Array Nat := (ops.map fun o => if o.srctyp == .sourceSource then 1 else 0).toArray
    let res := Djb.djbApply ops W.toB V.toB
    pure (#[.mat (W.putB res), .perm tgt, .perm src, .perm typ], some #[.mat (W.putB (W.toB.add (A.toB.mul V.toB)))])
  | "mul_mp" | "addmul_mp" =>
    -- exact mirror of mp.c (sections in program order; every other order gives the same result: Props.C16)
    let A ← argMat a 1; let B ← argMat a 2
    let cutoff ← argInt a 3
    if A.ncols ≠ B.nrows ∨ cutoff < 0 then throw "die" else
    let sched : List (Fin 4) := [0, 1, 2, 3]
    if argIsNull a 0 then
      if op == "mul_mp" then
        pure (#[.mat (ofB (Mp.mulMp sched 64 none A.toB B.toB cutoff.toNat))], some #[.mat (ofB (A.toB.mul B.toB))])
      else throw "die"
    else
      let C ← argMat a 0
      if C.nrows ≠ A.nrows ∨ C.ncols ≠ B.ncols then throw "die" else
      if op == "mul_mp" then
        pure (#[.mat (C.putB (Mp.mulMp sched 64 (some C.toB) A.toB B.toB cutoff.toNat))], some #[.mat (C.putB (A.toB.mul B.toB))])
      else
        pure (#[.mat (C.putB (Mp.addmulMp sched 64 (some C.toB) A.toB B.toB cutoff.toNat))],
              some #[.mat (C.putB (C.toB.add (A.toB.mul B.toB)))])
  | "process_rows" =>
    -- M startrow stoprow startcol k S r : word-level mirrors of mzd_make_table + mzd_process_rows; the specification
    -- adds to row i of M the combination of rows r.. of S selected by the k bits of M[i, startcol..), columns >= startcol
    let M ← argMat a 0; let sr ← argNat a 1; let er ← argNat a 2; let sc ← argNat a 3; let k ← argNat a 4
    let S ← argMat a 5; let r ← argNat a 6
    let T0 := Mzd.ofB (BMat.zero (2 ^ k) S.ncols)
    let (T, L) := W.makeTableW S r sc k T0 (Array.replicate (2 ^ k) 0)
    let res := W.processRowsW M sr er sc k T L
    let Mb := M.toB; let Sb := S.toB
    let spec : BMat := ⟨Mb.nrows, Mb.ncols, (Array.range Mb.nrows).map fun i =>
      if sr ≤ i ∧ i < er then
        let bits := (Mb.row i >>> sc) % 2 ^ k
        (List.range k).foldl (fun acc j => if bits.testBit j then acc ^^^ (Sb.row (r + j) &&& colMask sc Sb.ncols) else acc) (Mb.row i)
      else Mb.row i⟩
    pure (#[.mat res], some #[.mat (M.putB spec)])
  | "make_table" =>
    -- M r c k : table rows as a matrix of M's width and the index array
    let M ← argMat a 0; let r ← argNat a 1; let c ← argNat a 2; let k ← argNat a 3
    let B := M.toB
    let (T, L) := makeTable B.rows B.nrows B.ncols r c k (Array.replicate (2 ^ k) 0) (Array.replicate (2 ^ k) 0)
    -- specification: entry x of the table (through L) is the sum of the rows selected by the bits of x
    let specT : Array Nat := (Array.range (2 ^ k)).map fun x =>
      (List.range k).foldl (fun acc j => if x.testBit j then acc ^^^ (B.row (r + j) &&& colMask c B.ncols) else acc) 0
    let viaL : Array Nat := (Array.range (2 ^ k)).map fun x => T.getD (L.getD x 0) 0
    pure (#[.mat (ofB ⟨2 ^ k, B.ncols, viaL⟩)], some #[.mat (ofB ⟨2 ^ k, B.ncols, specT⟩)])
  | _ => throw "unknown-op"

def mulOps : List String :=
  ["mul_naive", "addmul_naive", "mul_va", "mul_naive_t", "mul_m4rm", "addmul_m4rm", "mul", "addmul"]

def runOp (op : String) (a : Array Val) : R (Array Val × Option (Array Val)) :=
  if mulOps.contains op then runOpMul op a else
  match runOpW op a with
  | .error "unknown-op" =>
    match runOpAlg op a with
    | .error "unknown-op" => runOpFin op a
    | r => r
  | r => r

end M4ri
