/-
  W storey, part 3: the word-level transposition kernels of mzd.c (lines 248-1159).

  Conventions.
  * A kernel `_mzd_copy_transpose_XXX(dst, src, rowstride_dst, rowstride_src, …)` reads one word per source row
    (`src[k * rowstride_src]`) and writes one word per destination row (`dst[k * rowstride_dst]`).  It is modelled
    as a pure function from the column of source words `src : Nat → Word` (`src k` = the word of source row `k`)
    to the array of destination words (entry `k` = the word written to destination row `k`).
  * The driver functions (`_mzd_transpose_base`, `_mzd_transpose_notsmall`, `_mzd_transpose`) are modelled by the
    *list of stores* they perform on the destination: a store is `(row, word index, value)`, in C order.
    `mzd_transpose(NULL, A)` applies that list to the fresh zero matrix.
  * Loops are written in closed form where the C loop is a plain counting loop (the unrolled variants are
    collapsed); the `do … while (shift < end)` loops of the packed kernels and the `while (j < n)` loop of
    `_mzd_transpose_Nxjx64` are kept as loops (with fuel).
  Core Lean only.
-/
import M4ri.Mzd
import M4ri.Gen.Params
namespace M4ri.Tr

/-! ### small helpers -/

/-- a table of `n` words (`word t[n]` filled by a counting loop) -/
def tab (n : Nat) (f : Nat → Word) : Array Word := Array.ofFn (n := n) fun i => f i.val

/-- total read of a table -/
@[inline] def rd (t : Array Word) (i : Nat) : Word := t.getD i 0

/-- THE primitive: the delta swap between two words
    `xor = ((a >> j) ^ b) & m;  a ^= xor << j;  b ^= xor`. Returns the new `(a, b)`. -/
def dswap (a b : Word) (j : Nat) (m : Word) : Word × Word :=
  let x := ((a >>> j) ^^^ b) &&& m
  (a ^^^ (x <<< j), b ^^^ x)

/-- One round over a column of words: the rows come in groups of `2j`; row `k` of the first half of a group is
    delta-swapped with row `k + j`.  (`wk` runs over the `[A]` rows, `wk + j_rowstride` is the `[D]` row.) -/
def round (t : Nat → Word) (j : Nat) (m : Word) : Nat → Word := fun k =>
  if k % (2 * j) < j then (dswap (t k) (t (k + j)) j m).1 else (dswap (t (k - j)) (t k) j m).2

/-! ### `_mzd_copy_transpose_64x64` (and `_64x64_2`, which is the same code on two independent blocks) -/

/-- the loop `for (j = 16; j != 0; j = j >> 1, m ^= m << j)` working in place in `dst` -/
def rounds64 (t : Array Word) (m : Word) : Array Word :=
  ([16, 8, 4, 2, 1].foldl (fun (st : Array Word × Word) j =>
      (tab 64 (round (rd st.1) j st.2), st.2 ^^^ (st.2 <<< (j / 2)))) (t, m)).1

def transpose64x64A (src : Nat → Word) : Array Word :=
  let m : Word := 0xFFFFFFFF#64
  -- first round, j = 32: copy from `src`, swapping the two 32×32 corners
  let t := tab 64 (round src 32 m)
  -- `m ^= m << 16`, then the remaining rounds in place
  rounds64 t (m ^^^ (m <<< 16))

/-- 64 words in, 64 words out -/
def transpose64x64 (src : Nat → Word) : Nat → Word := rd (transpose64x64A src)

/-- `_mzd_copy_transpose_64x64_2(dst1, dst2, src1, src2, …)` -/
def transpose64x64_2 (src1 src2 : Nat → Word) : Array Word × Array Word :=
  (transpose64x64A src1, transpose64x64A src2)

/-! ### `log2_ceil`, `transpose_mask`, `_mzd_transpose_Nxjx64` -/

def log2CeilTable : Array Nat := #[
    0, 1, 2, 2, 3, 3, 3, 3, 4, 4, 4, 4, 4, 4, 4, 4, 5, 5, 5, 5, 5, 5, 5, 5, 5, 5, 5, 5, 5, 5, 5, 5,
    6, 6, 6, 6, 6, 6, 6, 6, 6, 6, 6, 6, 6, 6, 6, 6, 6, 6, 6, 6, 6, 6, 6, 6, 6, 6, 6, 6, 6, 6, 6, 6]

/-- `log2_ceil(n) = log2_ceil_table[n - 1]`, `1 ≤ n ≤ 64` -/
def log2Ceil (n : Nat) : Nat := log2CeilTable.getD (n - 1) 0

def transposeMask : Array Word := #[
    0x5555555555555555#64, 0x3333333333333333#64, 0x0F0F0F0F0F0F0F0F#64,
    0x00FF00FF00FF00FF#64, 0x0000FFFF0000FFFF#64, 0x00000000FFFFFFFF#64]

/-- one pass of the `do { for (i < j) … ; k += j } while (k < n)` loop: the groups of `2j` rows whose first
    row is `< n` are swapped, the others are left alone -/
def roundN (t : Array Word) (j n : Nat) (m : Word) : Array Word :=
  tab t.size fun k => if k / (2 * j) * (2 * j) < n then round (rd t) j m k else rd t k

/-- the `while (j < n)` loop, state `(t, j, mi)` -/
def loopN (n : Nat) : Nat → Array Word → Nat → Nat → Array Word × Nat
  | 0, t, _, mi => (t, mi)
  | fuel + 1, t, j, mi =>
    if j < n then loopN n fuel (roundN t j n (transposeMask.getD mi 0)) (j <<< 1) (mi + 1) else (t, mi)

/-- `_mzd_transpose_Nxjx64(t, n)`, `1 ≤ n ≤ 64`, `t` of size `2^⌈log2 n⌉`: returns the new `t` and `log2(j)` -/
def transposeNxjx64 (t : Array Word) (n : Nat) : Array Word × Nat := loopN n 6 t 1 0

/-! ### `_mzd_copy_transpose_lt64x64` : `n × 64 → 64 × n`, `0 < n < 64` -/

def copyTransposeLt64x64 (src : Nat → Word) (n : Nat) : Array Word :=
  -- `for (k < n) t[k] = *wks;  for (; k < 64; ++k) t[k] = 0`
  let t := tab 64 fun k => if k < n then src k else 0
  if n > 32 then transpose64x64A (rd t)
  else
    let p := transposeNxjx64 t n
    let t := p.1
    let jj := 1 <<< p.2          -- j = 2^log2j
    let m := leftMask n
    -- `switch (log2j)`: destination row `q * j + k` receives `(t[k] >> (q * j)) & m`
    tab 64 fun r => (rd t (r % jj) >>> (r / jj * jj)) &&& m

/-! ### `_mzd_copy_transpose_64xlt64` : `64 × n → n × 64`, `0 < n < 64` -/

/-- `t[k] = wks[k] | wks[k + j] << j | wks[k + 2j] << 2j | …` (64/j terms) -/
def gather (src : Nat → Word) (jj k : Nat) : Word :=
  (List.range (64 / jj)).foldl (fun acc q => acc ||| (src (k + q * jj) <<< (q * jj))) 0

def copyTranspose64xLt64 (src : Nat → Word) (n : Nat) : Array Word :=
  let log2j := log2Ceil n
  if log2j = 6 then
    let t := transpose64x64A src
    tab n (rd t)
  else
    let jj := 1 <<< log2j
    let t := tab jj (gather src jj)
    -- (case 0 writes `tt[0] | tt[1] << 1` directly; `_mzd_transpose_Nxjx64(t, 1)` is the identity)
    let t := (transposeNxjx64 t jj).1
    tab n (rd t)

/-! ### `_mzd_copy_transpose_le8xle8` : `n × m → m × n`, `1 ≤ n, m ≤ 8` -/

/-- the `do { … } while (shift < end)` loop; state `(w, w7, mask, shift)` -/
def le8Loop (end_ : Nat) : Nat → Word → Word → Word → Nat → Word
  | 0, w, _, _, _ => w
  | fuel + 1, w, w7, mask, shift =>
    let x := (w ^^^ w7) &&& mask
    let mask := mask >>> 8
    let w := w ^^^ (x <<< shift)
    let shift := shift + 7
    let w7 := w7 >>> 7
    let w := w ^^^ x
    if shift < end_ then le8Loop end_ fuel w w7 mask shift else w

def le8xle8 (src : Nat → Word) (n m maxsize : Nat) : Array Word :=
  let end_ := maxsize * 7
  -- `w = *wks; for (i = 1; i < n; ++i) w |= (*wks << shift)` (row 0 is always read)
  let w : Word := (List.range (n - 1)).foldl (fun w i => w ||| (src (i + 1) <<< (8 * (i + 1)))) (src 0)
  let w := le8Loop end_ 8 w (w >>> 7) 0x80402010080402#64 7
  -- rows `m-1 … 1` get `(unsigned char)(w >> 8·row)`, row 0 gets `(unsigned char)w`
  tab m fun c => (w >>> (8 * c)) &&& 0xFF#64

/-! ### `_mzd_copy_transpose_le16xle16` : `n × m → m × n`, `1 ≤ n, m ≤ 16` -/

/-- the `do { … } while (shift < end)` loop on the four words; state `(t, mask, shift)` -/
def le16Loop (end_ : Nat) : Nat → Array Word → Word → Nat → Array Word
  | 0, t, _, _ => t
  | fuel + 1, t, mask, shift =>
    let t' := tab 4 fun q =>
      let x := (rd t q ^^^ (rd t q >>> shift)) &&& mask
      (rd t q ^^^ (x <<< shift)) ^^^ x
    let mask := mask >>> 16
    let shift := shift + 12
    if shift < end_ then le16Loop end_ fuel t' mask shift else t'

def le16xle16 (src : Nat → Word) (n m maxsize : Nat) : Array Word :=
  let end_ := maxsize * 3
  -- the load loop with its `if (--i == 0) break` exits: `t[q] = OR_{4s+q < n} src[4s+q] << 16s`
  let t := tab 4 fun q =>
    (List.range 4).foldl (fun acc s => if 4 * s + q < n then acc ||| (src (4 * s + q) <<< (16 * s)) else acc) 0
  let t := le16Loop end_ 4 t 0xF0000F0000F0#64 12
  let t := (transposeNxjx64 t 4).1
  -- the store loop: row `4s + q` gets `(uint16_t)(t[q] >> 16s)`
  tab m fun c => (rd t (c % 4) >>> (16 * (c / 4))) &&& 0xFFFF#64

/-! ### `_mzd_copy_transpose_le32xle32` : `n × m → m × n`, `1 ≤ n, m ≤ 32` -/

def le32xle32 (src : Nat → Word) (n m : Nat) : Array Word :=
  let t := tab 16 fun k =>
    if n > 16 then (if k + 16 < n then src k ||| (src (k + 16) <<< 32) else src k)
    else (if k < n then src k else 0)
  let t := (transposeNxjx64 t 16).1
  tab m fun c =>
    if c < 16 then (rd t c &&& 0xFFFF#64) ||| ((rd t c >>> 16) &&& 0xFFFF0000#64)
    else ((rd t (c - 16) >>> 16) &&& 0xFFFF#64) ||| ((rd t (c - 16) >>> 32) &&& 0xFFFF0000#64)

/-! ### `_mzd_copy_transpose_le64xle64` : `n × m → m × n`, `1 ≤ n, m ≤ 64` -/

def le64xle64 (src : Nat → Word) (n m : Nat) : Array Word :=
  let t := tab 64 fun k => if k < n then src k else 0
  let t := transpose64x64A (rd t)       -- `_mzd_copy_transpose_64x64(t, t, 1, 1)`
  tab m (rd t)

/-- `_mzd_copy_transpose_small`, `maxsize < 64` -/
def copyTransposeSmall (src : Nat → Word) (nrows ncols maxsize : Nat) : Array Word :=
  if maxsize ≤ 8 then le8xle8 src nrows ncols maxsize
  else if maxsize ≤ 16 then le16xle16 src nrows ncols maxsize
  else if maxsize ≤ 32 then le32xle32 src nrows ncols
  else le64xle64 src nrows ncols

/-! ### the drivers: lists of stores -/

/-- a store into the destination: `(row, word index, value)` -/
abbrev Wr := Nat × Nat × Word

/-- the source as the kernels see it: word `c` of row `r` -/
abbrev Src := Nat → Nat → Word

/-- the column of words a kernel reads: `fws[k * rowstride_src]` for `fws` = word `c` of row `r0` -/
def srcCol (S : Src) (r0 c : Nat) : Nat → Word := fun k => S (r0 + k) c

/-- the stores of a kernel whose destination pointer is word `c` of row `r0`: `cnt` rows, one word each -/
def colWrites (r0 c cnt : Nat) (v : Array Word) : List Wr :=
  (List.range cnt).map fun k => (r0 + k, c, rd v k)

/-- a pending 64×64 block: destination (row, word), source (row, word) -/
abbrev Blk := (Nat × Nat) × (Nat × Nat)

def blk64 (S : Src) (b : Blk) : List Wr :=
  colWrites b.1.1 b.1.2 64 (transpose64x64A (srcCol S b.2.1 b.2.2))

def blk64_2 (S : Src) (b1 b2 : Blk) : List Wr :=
  let p := transpose64x64_2 (srcCol S b1.2.1 b1.2.2) (srcCol S b2.2.1 b2.2.2)
  colWrites b1.1.1 b1.1.2 64 p.1 ++ colWrites b2.1.1 b2.1.2 64 p.2

/-- the `if (!even) { delayed = current } else { _mzd_copy_transpose_64x64_2(delayed, current) }` step -/
def pairStep (S : Src) (st : List Wr × Option Blk) (b : Blk) : List Wr × Option Blk :=
  match st.2 with
  | none => (st.1, some b)
  | some b0 => (st.1 ++ blk64_2 S b0 b, none)

/-- the `if (nrows >= 64) { … }` part of `_mzd_transpose_base`: all row blocks of 64 source rows.
    `dr, dc` = destination (row, word) of `fwd`; `sr, sc` = source (row, word) of `fws`. -/
def baseFull (S : Src) (dr dc sr sc nrows ncols : Nat) : List Wr :=
  let js : Bool := (ncols &&& nrows &&& 64) ≠ 0
  let whole := ncols / 64
  let first : List Wr := if js then blk64 S ((dr, dc), (sr, sc)) else []
  if js ∧ (nrows ||| ncols) = 64 then first else
  let st := (List.range (nrows / 64)).foldl (fun (st : List Wr × Option Blk) b =>
      -- `for (j = js; j < whole_64cols; ++j)`; `js` is only set in the first pass
      let j0 := if b = 0 ∧ js then 1 else 0
      let st := (List.range' j0 (whole - j0)).foldl (fun st j =>
        pairStep S st ((dr + 64 * j, dc + b), (sr + 64 * b, sc + j))) st
      -- `if (ncols % 64) _mzd_copy_transpose_64xlt64(fwd + whole_64cols * rowstride_64_dst, fws + whole_64cols, …)`
      if ncols % 64 ≠ 0 then
        (st.1 ++ colWrites (dr + 64 * whole) (dc + b) (ncols % 64)
            (copyTranspose64xLt64 (srcCol S (sr + 64 * b) (sc + whole)) (ncols % 64)), st.2)
      else st) (first, none)
  -- a block still pending here would never be written (it cannot happen: the count is even)
  st.1

/-- `_mzd_transpose_base`, `maxsize ≥ 64` -/
def transposeBase (S : Src) (dr dc sr sc nrows ncols : Nat) : List Wr :=
  let full := if nrows ≥ 64 then baseFull S dr dc sr sc nrows ncols else []
  -- after the block loop: `fwd += nrows/64`, `fws += 64 * (nrows/64) * rowstride_src`, `nrows %= 64`
  let rb := nrows / 64
  let nrows' := nrows % 64
  if nrows' = 0 then full else
  -- `while (ncols >= 64) { _mzd_copy_transpose_lt64x64(…); ncols -= 64; fwd += 64 * rowstride_dst; fws += 1; }`
  let top := (List.range (ncols / 64)).flatMap fun j =>
    colWrites (dr + 64 * j) (dc + rb) 64 (copyTransposeLt64x64 (srcCol S (sr + 64 * rb) (sc + j)) nrows')
  let ncols' := ncols % 64
  if ncols' = 0 then full ++ top else
  let maxsize := max nrows' ncols'
  full ++ top ++ colWrites (dr + 64 * (ncols / 64)) (dc + rb) ncols'
    (copyTransposeSmall (srcCol S (sr + 64 * rb) (sc + ncols / 64)) nrows' ncols' maxsize)

/-- `_mzd_transpose_notsmall` (the recursion is on `nrows + ncols`, which decreases; `fuel` bounds it) -/
def transposeNotsmall (S : Src) : Nat → Nat → Nat → Nat → Nat → Nat → Nat → Nat → List Wr
  | 0, dr, dc, sr, sc, nrows, ncols, _ => transposeBase S dr dc sr sc nrows ncols
  | fuel + 1, dr, dc, sr, sc, nrows, ncols, maxsize =>
    if maxsize ≤ 512 then transposeBase S dr dc sr sc nrows ncols
    else
      let largeSize := Gen.splitRound maxsize (if maxsize ≤ 768 then 64 else 512)
      let offset := largeSize / 64
      if nrows ≥ ncols then
        transposeNotsmall S fuel dr dc sr sc largeSize ncols (max largeSize ncols) ++
        transposeNotsmall S fuel dr (dc + offset) (sr + largeSize) sc (nrows - largeSize) ncols
          (max (nrows - largeSize) ncols)
      else
        transposeNotsmall S fuel dr dc sr sc nrows largeSize (max nrows largeSize) ++
        transposeNotsmall S fuel (dr + largeSize) dc sr (sc + offset) nrows (ncols - largeSize)
          (max nrows (ncols - largeSize))

/-- `_mzd_transpose(fwd, fws, …, nrows, ncols, maxsize)` with `fwd`, `fws` at the matrix origins -/
def transposeTop (S : Src) (nrows ncols maxsize : Nat) : List Wr :=
  if maxsize < 64 then
    colWrites 0 0 ncols (copyTransposeSmall (srcCol S 0 0) nrows ncols maxsize)
  else transposeNotsmall S (nrows + ncols) 0 0 0 0 nrows ncols maxsize

/-! ### `mzd_transpose(NULL, A)` -/

/-- perform one store (`row < nrows`, `word < width` for every store the kernels issue) -/
def store (rows : Array Row) (w : Wr) : Array Row :=
  rows.modify w.1 fun r => r.setIfInBounds w.2.1 w.2.2

def applyWrites (rows : Array Row) (ws : List Wr) : Array Row := ws.foldl store rows

/-- `mzd_transpose(NULL, A)` for an owned (zero excess bits) source: fresh zero destination, then the stores of
    `_mzd_transpose`. (For an empty `A` the C code returns the fresh destination.) -/
def transposeMzd (A : Mzd) : Mzd :=
  let D := Mzd.zero A.ncols A.nrows
  if A.nrows = 0 ∨ A.ncols = 0 then D else
  let S : Src := fun r c => (A.row r).w c
  D.withRows (applyWrites D.rows (transposeTop S A.nrows A.ncols (max A.nrows A.ncols)))

end M4ri.Tr
