/-
  Access-trace model of the word-level kernels of m4ri (property C11, memory safety: the part a theorem can
  carry = the INDEX, SHIFT and ALIGNMENT arithmetic).

  `M4ri/Mzd.lean` models the *values* computed by these kernels with total reads (`Row.w` gives 0 out of
  range), so "no access leaves the operand" cannot even be stated there.  Here the same C code is modelled a
  second time, but what is recorded is *which words it touches* and *which shift counts it uses*, as a closed
  form of the header fields and the call parameters.  Nothing here depends on the matrix contents, except
  where the C control flow does (then the data-dependent choice is a parameter of the trace function).

  Conventions
  * An operand (an `mzd_t`) is described by its header `Hdr`: `nrows`, `ncols`, `rowstride`, and the 16-byte
    `phase ∈ {0,1}` of its row starts: `phase = (address of word 0 of a row / 8) mod 2`.  All rows of a matrix
    have the same phase because `rowstride` is even (mzd.c:153, windows inherit it, mzd.c:175).
    `width = ⌈ncols/64⌉`.
  * An `Access` names the operand (`op` = position in the C argument list, documented per function), the row,
    the word index INSIDE the row (an `Int`: `wi_t` is a signed `int` and some C paths really compute index
    `-1`), read/write, and `vec` = a 16-byte `__m128i` access covering words `word` and `word+1`.
    The flat word offset from `M->data` is `row * rowstride + word` (`Access.flat`).
  * Shift counts are `Int`s as well (`int` in C); a shift by `s` of a 64-bit `word` is defined iff `0 ≤ s ≤ 63`.
  * `x ^= e` is recorded as read-then-write of `x`.
  * Loops are in closed form (`forI a b f` = `for (i = a; i < b; ++i) f i`, with the C trip count written out);
    Duff's devices are modelled by their exact trip count `duff wide` (C truncating `/` and `%`).
  Core Lean only.
-/
namespace M4ri.Safety

inductive Kind where
  | read | write
  deriving DecidableEq, Repr

/-- one word (or, with `vec`, one aligned-pair `__m128i`) access -/
structure Access where
  op   : Nat
  row  : Nat
  word : Int
  kind : Kind
  vec  : Bool
  deriving DecidableEq, Repr

/-- the header fields of an `mzd_t` that the index arithmetic depends on -/
structure Hdr where
  nrows     : Nat
  ncols     : Nat
  rowstride : Nat
  phase     : Nat
  deriving DecidableEq, Repr

namespace Hdr
/-- `M->width` (mzd.c:152) -/
def width (h : Hdr) : Nat := (h.ncols + 63) / 64
/-- what `mzd_init` / `mzd_init_window` guarantee about the geometry -/
def WF (h : Hdr) : Prop := h.width ≤ h.rowstride ∧ h.rowstride % 2 = 0 ∧ h.phase < 2
end Hdr

/-- a word pointer into a row: `mzd_row(M, row) + blk` -/
structure Ptr where
  row : Nat
  blk : Int
  deriving DecidableEq, Repr

def rd  (op row : Nat) (w : Int) : Access := ⟨op, row, w, .read,  false⟩
def wr  (op row : Nat) (w : Int) : Access := ⟨op, row, w, .write, false⟩
def vrd (op row : Nat) (w : Int) : Access := ⟨op, row, w, .read,  true⟩
def vwr (op row : Nat) (w : Int) : Access := ⟨op, row, w, .write, true⟩

/-- `for (i = a; i < b; ++i) f i` -/
def forI {α : Type} (a b : Int) (f : Int → List α) : List α :=
  (List.range (b - a).toNat).flatMap fun (k : Nat) => f (a + (k : Int))

/-! ### the three safety predicates -/

/-- the access stays inside the `nrows × width` block of valid words of the operand
    (in particular it does not touch the padding word `width` that exists when `rowstride > width`) -/
def Access.inBounds (h : Hdr) (a : Access) : Prop :=
  a.row < h.nrows ∧ 0 ≤ a.word ∧ a.word + (if a.vec then 1 else 0) < (h.width : Int)

/-- a vector access is 16-byte aligned -/
def Access.aligned (h : Hdr) (a : Access) : Prop :=
  a.vec = true → (a.word + (h.phase : Int)) % 2 = 0

/-- flat offset in words from `M->data` -/
def Access.flat (h : Hdr) (a : Access) : Int := (a.row : Int) * h.rowstride + a.word

def InBounds (hs : Nat → Hdr) (l : List Access) : Prop := ∀ a ∈ l, a.inBounds (hs a.op)
def Aligned  (hs : Nat → Hdr) (l : List Access) : Prop := ∀ a ∈ l, a.aligned (hs a.op)
def ShiftsOK (l : List Int) : Prop := ∀ s ∈ l, 0 ≤ s ∧ s ≤ 63

instance (h : Hdr) (a : Access) : Decidable (a.inBounds h) := by unfold Access.inBounds; infer_instance
instance (h : Hdr) (a : Access) : Decidable (a.aligned h) := by unfold Access.aligned; infer_instance
instance (hs : Nat → Hdr) (l : List Access) : Decidable (InBounds hs l) := by unfold InBounds; infer_instance
instance (hs : Nat → Hdr) (l : List Access) : Decidable (Aligned hs l) := by unfold Aligned; infer_instance
instance (l : List Int) : Decidable (ShiftsOK l) := by unfold ShiftsOK; infer_instance

/-- Trip count of the Duff's devices
    `n = (wide + 7) / 8; switch (wide % 8) { case 0: do { S; case 7: S; … case 1: S; } while (--n > 0); }`
    (C semantics: `/`, `%` truncate towards 0; a negative `wide % 8` matches no `case`).
    For `wide ≥ 1` this is `wide`; for `wide = 0` it is 8 (!), which is why every use is guarded. -/
def duff (wide : Int) : Int :=
  let n := max 1 ((wide + 7).tdiv 8)
  let e := wide.tmod 8
  if e = 0 then 8 * n else if 1 ≤ e then e + 8 * (n - 1) else 0

/-! ## bit and bit-range accessors (mzd.h:440-524, 893-902).  Operand 0 = `M`. -/

/-- `mzd_read_bit(M, row, col)` -/
def accReadBit (row col : Nat) : List Access := [rd 0 row ((col : Int) / 64)]
def shReadBit (col : Nat) : List Int := [(col : Int) % 64]

/-- `mzd_write_bit(M, row, col, value)`: `w = (w & ~(1 << spot)) | (value << spot)` -/
def accWriteBit (row col : Nat) : List Access :=
  [rd 0 row ((col : Int) / 64), wr 0 row ((col : Int) / 64)]
def shWriteBit (col : Nat) : List Int := [(col : Int) % 64, (col : Int) % 64]

/-- `mzd_xor_bits(M, x, y, n, values)` -/
def accXorBits (x y n : Nat) : List Access :=
  let spot : Int := (y : Int) % 64
  let block : Int := (y : Int) / 64
  let space : Int := 64 - spot
  [rd 0 x block, wr 0 x block] ++
  (if (n : Int) > space then [rd 0 x (block + 1), wr 0 x (block + 1)] else [])
def shXorBits (y n : Nat) : List Int :=
  let spot : Int := (y : Int) % 64
  let space : Int := 64 - spot
  [spot] ++ (if (n : Int) > space then [space] else [])

/-- `mzd_and_bits(M, x, y, n, values)`: same accesses as `mzd_xor_bits` -/
def accAndBits (x y n : Nat) : List Access := accXorBits x y n
def shAndBits (y n : Nat) : List Int :=
  let spot : Int := (y : Int) % 64
  let space : Int := 64 - spot
  [64 - (n : Int), 64 - (n : Int), spot, spot] ++ (if (n : Int) > space then [space, space] else [])

/-- `mzd_clear_bits(M, x, y, n)` -/
def accClearBits (x y n : Nat) : List Access := accXorBits x y n
def shClearBits (y n : Nat) : List Int :=
  let spot : Int := (y : Int) % 64
  let space : Int := 64 - spot
  [64 - (n : Int), spot] ++ (if (n : Int) > space then [space] else [])

/-- `mzd_read_bits(M, x, y, n)`; `op` lets callers read from another operand -/
def accReadBitsOp (op x y n : Nat) : List Access :=
  let spot : Int := (y : Int) % 64
  let block : Int := (y : Int) / 64
  let spill : Int := spot + n - 64
  if spill ≤ 0 then [rd op x block] else [rd op x (block + 1), rd op x block]
def accReadBits (x y n : Nat) : List Access := accReadBitsOp 0 x y n
def shReadBits (y n : Nat) : List Int :=
  let spot : Int := (y : Int) % 64
  let spill : Int := spot + n - 64
  (if spill ≤ 0 then [-spill] else [64 - spill, spill]) ++ [64 - (n : Int)]

/-! ## row / column swaps (mzd.h:265-415) -/

/-- `_mzd_row_swap(M, rowa, rowb, startblock)` -/
def accRowSwap (h : Hdr) (rowa rowb startblock : Nat) : List Access :=
  if rowa = rowb ∨ (startblock : Int) ≥ h.width then [] else
  let sb : Int := startblock
  let width : Int := h.width - sb - 1
  forI 0 width (fun i => [rd 0 rowa (sb + i), rd 0 rowb (sb + i), wr 0 rowa (sb + i), wr 0 rowb (sb + i)]) ++
  [rd 0 rowa (sb + width), rd 0 rowb (sb + width),
   rd 0 rowa (sb + width), wr 0 rowa (sb + width), rd 0 rowb (sb + width), wr 0 rowb (sb + width)]
def shRowSwap : List Int := []

/-- `mzd_col_swap_in_rows(M, cola, colb, start_row, stop_row)`.
    `ptr += rowstride` is "next row, same word"; `min_ptr[max_offset]` with the (possibly negative)
    `max_offset = other_word - this_word` is the word of the other column. -/
def accColSwapInRows (cola colb start_row stop_row : Nat) : List Access :=
  if cola = colb then [] else
  let a_word : Int := (cola : Int) / 64
  let b_word : Int := (colb : Int) / 64
  let a_bit : Int := (cola : Int) % 64
  let b_bit : Int := (colb : Int) % 64
  let max_bit := max a_bit b_bit
  let min_bit := a_bit + b_bit - max_bit
  let count : Int := (stop_row : Int) - start_row
  if count ≤ 0 then [] else
  if a_word = b_word then
    let fast : Int := count / 4
    let rest : Int := count - 4 * fast
    forI 0 fast (fun g =>
      let r := start_row + (4 * g).toNat
      [rd 0 r a_word, rd 0 (r + 1) a_word, rd 0 (r + 2) a_word, rd 0 (r + 3) a_word,
       rd 0 r a_word, wr 0 r a_word, rd 0 (r + 1) a_word, wr 0 (r + 1) a_word,
       rd 0 (r + 2) a_word, wr 0 (r + 2) a_word, rd 0 (r + 3) a_word, wr 0 (r + 3) a_word]) ++
    forI 0 rest (fun j =>
      let r := start_row + (4 * fast + j).toNat
      [rd 0 r a_word, rd 0 r a_word, wr 0 r a_word])
  else
    let min_word := if min_bit = a_bit then a_word else b_word
    let max_offset := if min_bit = a_bit then b_word - a_word else a_word - b_word
    forI 0 count (fun j =>
      let r := start_row + j.toNat
      [rd 0 r min_word, rd 0 r (min_word + max_offset),
       rd 0 r min_word, wr 0 r min_word,
       rd 0 r (min_word + max_offset), wr 0 r (min_word + max_offset)])
def shColSwapInRows (cola colb : Nat) : List Int :=
  if cola = colb then [] else
  let a_bit : Int := (cola : Int) % 64
  let b_bit : Int := (colb : Int) % 64
  let max_bit := max a_bit b_bit
  let min_bit := a_bit + b_bit - max_bit
  let offset := max_bit - min_bit
  [min_bit, offset, offset]

/-! ## `mzd_row_add_offset` (mzd.h:538-583).  Operand 0 = `M`; `dst` and `src` are rows of the same matrix,
    hence have the same phase. -/

/-- the part after `#endif`: `while (++i < wide) dst[i] ^= src[i];  dst[i-1] ^= src[i-1] & ~mask_end;` -/
def rowAddTail (dst src : Nat) (p wide : Int) : List Access :=
  forI 0 wide (fun i => [rd 0 dst (p + i), rd 0 src (p + i), wr 0 dst (p + i)]) ++
  (let w := max wide 0   -- `i` ends at `wide` if the loop ran, at `0` if `wide ≤ 0`
   [rd 0 dst (p + w - 1), rd 0 src (p + w - 1), wr 0 dst (p + w - 1)])

/-- `mzd_row_add_offset` compiled WITHOUT `__M4RI_HAVE_SSE2` -/
def accRowAddOffsetScalar (h : Hdr) (dst src coloffset : Nat) : List Access :=
  let sb : Int := (coloffset : Int) / 64
  let wide : Int := h.width - sb
  [rd 0 dst sb, rd 0 src sb, wr 0 dst sb] ++ rowAddTail dst src (sb + 1) (wide - 1)

/-- `mzd_row_add_offset` compiled with `__M4RI_HAVE_SSE2` (the build under test) -/
def accRowAddOffset (h : Hdr) (dst src coloffset : Nat) : List Access :=
  let sb : Int := (coloffset : Int) / 64
  let wide0 : Int := h.width - sb
  let p1 : Int := sb + 1                       -- after `*dst++ ^= *src++ & mask_begin; --wide;`
  let wide1 : Int := wide0 - 1
  let na : Int := (p1 + h.phase) % 2            -- `not_aligned = __M4RI_ALIGNMENT(src, 16) != 0`
  [rd 0 src sb, rd 0 dst sb, wr 0 dst sb] ++
  (if wide1 > na + 1 then
    let p2 := p1 + na                           -- `if (not_aligned) { *dst++ ^= *src++; --wide; }`
    let wide2 := wide1 - na
    let eof := (p2 + wide2) - (p2 + wide2 + h.phase) % 2   -- `(src + wide) & ~0xF`, in words of this row
    let nv := max 1 ((eof - p2 + 1) / 2)        -- `do { … } while (++__src < eof)`
    (if na = 1 then [rd 0 src p1, rd 0 dst p1, wr 0 dst p1] else []) ++
    forI 0 nv (fun k => [vrd 0 dst (p2 + 2 * k), vrd 0 src (p2 + 2 * k), vwr 0 dst (p2 + 2 * k)]) ++
    rowAddTail dst src (p2 + 2 * nv) (wide2 % 2)
  else rowAddTail dst src p1 wide1)
def shRowAddOffset (coloffset : Nat) : List Int := [64 - (64 - (coloffset : Int) % 64)]

/-! ## `mzd_combine_even_in_place`, `mzd_combine_even` (mzd.h:920-1049) -/

/-- tail of `mzd_combine_even_in_place`: guarded Duff's device, then `*a ^= *b & A->high_bitmask`.
    Operand `oa` = `A` (read+written), `ob` = `B`. -/
def combIPTail (oa ob : Nat) (ra rb : Nat) (pa pb wide : Int) : List Access :=
  let n := if wide > 0 then duff wide else 0
  forI 0 n (fun i => [rd ob rb (pb + i), rd oa ra (pa + i), wr oa ra (pa + i)]) ++
  [rd oa ra (pa + n), rd ob rb (pb + n), wr oa ra (pa + n)]

/-- `mzd_combine_even_in_place(A, a_row, a_startblock, B, b_row, b_startblock)`; operand 0 = `A`, 1 = `B` -/
def accCombineEvenInPlace (hA hB : Hdr) (a_row a_sb b_row b_sb : Nat) : List Access :=
  let pa : Int := a_sb
  let pb : Int := b_sb
  let wide0 : Int := hA.width - pa - 1
  if wide0 > 2 then
    let na : Int := (pa + hA.phase) % 2          -- `__M4RI_ALIGNMENT(a, 16)` (in words)
    let pa1 := pa + na
    let pb1 := pb + na
    let wide1 := wide0 - na
    (if na ≠ 0 then [rd 0 a_row pa, rd 1 b_row pb, wr 0 a_row pa] else []) ++
    (if (pa1 + hA.phase) % 2 = 0 ∧ (pb1 + hB.phase) % 2 = 0 then
      let eof := (pa1 + wide1) - (pa1 + wide1 + hA.phase) % 2
      let nv := max 1 ((eof - pa1 + 1) / 2)       -- `do { … } while (a128 < eof)`
      forI 0 nv (fun k => [vrd 0 a_row (pa1 + 2 * k), vrd 1 b_row (pb1 + 2 * k), vwr 0 a_row (pa1 + 2 * k)]) ++
      combIPTail 0 1 a_row b_row (pa1 + 2 * nv) (pb1 + 2 * nv) (wide1 % 2)
    else combIPTail 0 1 a_row b_row pa1 pb1 wide1)
  else combIPTail 0 1 a_row b_row pa pb wide0

/-- tail of `mzd_combine_even`: `*c ^= ((*a ^ *b ^ *c) & C->high_bitmask)` -/
def combTail (oc oa ob : Nat) (rc ra rb : Nat) (pc pa pb wide : Int) : List Access :=
  let n := if wide > 0 then duff wide else 0
  forI 0 n (fun i => [rd oa ra (pa + i), rd ob rb (pb + i), wr oc rc (pc + i)]) ++
  [rd oa ra (pa + n), rd ob rb (pb + n), rd oc rc (pc + n), rd oc rc (pc + n), wr oc rc (pc + n)]

/-- `mzd_combine_even(C, c_row, c_sb, A, a_row, a_sb, B, b_row, b_sb)` with operand numbers `oc oa ob`
    and headers `hC hA hB` -/
def accCombineEvenOps (oc oa ob : Nat) (hC hA hB : Hdr) (c_row c_sb a_row a_sb b_row b_sb : Nat) : List Access :=
  let pc : Int := c_sb
  let pa : Int := a_sb
  let pb : Int := b_sb
  let wide0 : Int := hA.width - pa - 1
  if wide0 > 2 then
    let na : Int := (pa + hA.phase) % 2          -- `__M4RI_ALIGNMENT(a, 16)`
    let pc1 := pc + na
    let pa1 := pa + na
    let pb1 := pb + na
    let wide1 := wide0 - na
    (if na ≠ 0 then [rd ob b_row pb, rd oa a_row pa, wr oc c_row pc] else []) ++
    (if (pb1 + hB.phase) % 2 = 0 ∧ (pc1 + hC.phase) % 2 = 0 then
      let eof := (pa1 + wide1) - (pa1 + wide1 + hA.phase) % 2
      let nv := max 1 ((eof - pa1 + 1) / 2)
      forI 0 nv (fun k => [vrd oa a_row (pa1 + 2 * k), vrd ob b_row (pb1 + 2 * k), vwr oc c_row (pc1 + 2 * k)]) ++
      combTail oc oa ob c_row a_row b_row (pc1 + 2 * nv) (pa1 + 2 * nv) (pb1 + 2 * nv) (wide1 % 2)
    else combTail oc oa ob c_row a_row b_row pc1 pa1 pb1 wide1)
  else combTail oc oa ob c_row a_row b_row pc pa pb wide0

/-- operand 0 = `C`, 1 = `A`, 2 = `B` -/
def accCombineEven (hC hA hB : Hdr) (c_row c_sb a_row a_sb b_row b_sb : Nat) : List Access :=
  accCombineEvenOps 0 1 2 hC hA hB c_row c_sb a_row a_sb b_row b_sb

/-! ## `_mzd_combine` (xor.h:44-93) and `_mzd_combine_N` (xor_template.h).
    These take raw word pointers; a pointer is `mzd_row(X, row) + blk` of some operand `X` (`Ptr`). -/

/-- `_mzd_combine(c, t1, wide)`: operand 0 = the matrix `c` points into (phase `phC`), operand 1 = that of `t1`.
    The code looks at the alignment of `c` only ("assuming c, t1 are aligned the same way"). -/
def accCombine (phC : Nat) (c t : Ptr) (wide : Nat) : List Access :=
  let w0 : Int := wide
  let na : Int := (c.blk + phC) % 2
  let d : Int := if na = 1 ∧ w0 ≠ 0 then 1 else 0     -- `if (ALIGNMENT(c,16) == 8 && wide) { *c++ ^= *t1++; wide--; }`
  let w1 := w0 - d
  let eof := (c.blk + d + w1) - (c.blk + d + w1 + phC) % 2
  let np := (eof - (c.blk + d) + 1) / 4                 -- `while (__c < eof - 1)`: two vector steps per trip
  let more : Int := if c.blk + d + 4 * (max np 0) < eof then 1 else 0   -- `if (__c < eof)`
  let q := d + 4 * (max np 0) + 2 * more
  let vstep := fun (o : Int) => [vrd 0 c.row (c.blk + o), vrd 1 t.row (t.blk + o), vwr 0 c.row (c.blk + o)]
  let sstep := fun (o : Int) => [rd 0 c.row (c.blk + o), rd 1 t.row (t.blk + o), wr 0 c.row (c.blk + o)]
  (if d = 1 then sstep 0 else []) ++
  forI 0 np (fun k => vstep (d + 4 * k) ++ vstep (d + 4 * k + 2)) ++
  (if more = 1 then vstep (d + 4 * (max np 0)) else []) ++
  (let w2 := w1 % 2
   if w2 = 0 then [] else forI 0 (duff w2) (fun i => sstep (q + i)))

/-- `_mzd_combine_N(m, t, wide)`: operand 0 = the matrix of `m` (phase `phM`), operand `j+1` = that of `t[j]`,
    `j < N`.  NOTE: unlike `_mzd_combine`, the peel step is not guarded by `&& wide`, so `wide` goes to `-1`
    when `wide = 0` and `m` is 8-aligned; `wide >> 1` is an arithmetic shift (`Int` `/`), `wide & 1` is `% 2`. -/
def accCombineN (phM : Nat) (N : Nat) (m : Ptr) (t : Nat → Ptr) (wide : Nat) : List Access :=
  let w0 : Int := wide
  let d : Int := (m.blk + phM) % 2                  -- `if (ALIGNMENT(m,16) == 8) { *m++ ^= …; wide--; }`
  let w1 := w0 - d
  let half := w1 / 2                                 -- `wide >> 1`
  let n4 := half / 4                                 -- `for (; i + 4 <= (wide >> 1); i += 4)`
  let i4 := 4 * (max n4 0)
  let nvec := max half i4                            -- value of `i` after `for (; i < (wide >> 1); i++)`
  let rdsS := fun (o : Int) => (List.range N).map fun j => rd (j + 1) (t j).row ((t j).blk + o)
  let rdsV := fun (o : Int) => (List.range N).map fun j => vrd (j + 1) (t j).row ((t j).blk + o)
  let sstep := fun (o : Int) => rdsS o ++ [rd 0 m.row (m.blk + o), wr 0 m.row (m.blk + o)]
  let vstep := fun (o : Int) => rdsV o ++ [vrd 0 m.row (m.blk + o), vwr 0 m.row (m.blk + o)]
  let quad := fun (o : Int) =>
    [vrd 0 m.row (m.blk + o), vrd 0 m.row (m.blk + o + 2), vrd 0 m.row (m.blk + o + 4), vrd 0 m.row (m.blk + o + 6)] ++
    rdsV o ++ rdsV (o + 2) ++ rdsV (o + 4) ++ rdsV (o + 6) ++
    [vwr 0 m.row (m.blk + o), vwr 0 m.row (m.blk + o + 2), vwr 0 m.row (m.blk + o + 4), vwr 0 m.row (m.blk + o + 6)]
  (if d = 1 then sstep 0 else []) ++
  forI 0 n4 (fun k => quad (d + 8 * k)) ++
  forI i4 half (fun i => vstep (d + 2 * i)) ++
  (if w1 % 2 = 1 then sstep (d + 2 * nvec) else [])

/-! ## mzd.c -/

/-- `mzd_row_clear_offset(M, row, coloffset)` (mzd.c:197) -/
def accRowClearOffset (h : Hdr) (row coloffset : Nat) : List Access :=
  let sb : Int := (coloffset : Int) / 64
  (if (coloffset : Int) % 64 ≠ 0 then [rd 0 row sb] else []) ++
  (if sb = h.width - 1 then [rd 0 row sb, wr 0 row sb]
   else [wr 0 row sb] ++ forI (sb + 1) (h.width - 1) (fun i => [wr 0 row i]) ++
        [rd 0 row ((h.width : Int) - 1), wr 0 row ((h.width : Int) - 1)])
def shRowClearOffset (coloffset : Nat) : List Int :=
  if (coloffset : Int) % 64 ≠ 0 then [(64 - (coloffset : Int) % 64) % 64] else []

/-- `mzd_copy(N, P)` for `N ≠ P`, `N` non-NULL and large enough (otherwise the code returns / dies / allocates
    `N` with the dimensions of `P`).  Operand 0 = `N`, 1 = `P`. -/
def accCopy (hP : Hdr) : List Access :=
  let wide : Int := hP.width - 1
  forI 0 hP.nrows (fun i =>
    forI 0 wide (fun j => [rd 1 i.toNat j, wr 0 i.toNat j]) ++
    [rd 0 i.toNat wide, rd 1 i.toNat wide, wr 0 i.toNat wide])

/-- `mzd_copy_row(B, i, A, j)`.  Operand 0 = `B`, 1 = `A`. -/
def accCopyRow (hB hA : Hdr) (i j : Nat) : List Access :=
  let width : Int := min (hB.width : Int) hA.width - 1
  if width ≠ 0 then
    forI 0 width (fun k => [rd 1 j k, wr 0 i k]) ++ [rd 0 i width, rd 1 j width, wr 0 i width]
  else [rd 1 j 0, rd 0 i 0, wr 0 i 0]
def shCopyRow (hA : Hdr) : List Int := [(64 - (hA.ncols : Int) % 64) % 64]

/-- `_mzd_add(C, A, B)`.  Operand 0 = `C`, 1 = `A`, 2 = `B`; `cIsB` = the pointer test `C == B` (then the
    roles of `A` and `B` are exchanged).  `hs` gives the header of each operand. -/
def accAdd (hs : Nat → Hdr) (cIsB : Bool) : List Access :=
  let oa := if cIsB then 2 else 1
  let ob := if cIsB then 1 else 2
  let nrows := min (min (hs 1).nrows (hs 2).nrows) (hs 0).nrows
  let w : Int := (hs oa).width
  if w = 0 then []
  else if w ≤ 8 then
    forI 0 nrows (fun i =>
      forI 0 (w - 1) (fun j => [rd oa i.toNat j, rd ob i.toNat j, wr 0 i.toNat j]) ++
      [rd oa i.toNat (w - 1), rd ob i.toNat (w - 1), rd 0 i.toNat (w - 1), rd 0 i.toNat (w - 1), wr 0 i.toNat (w - 1)])
  else
    forI 0 nrows (fun i =>
      accCombineEvenOps 0 oa ob (hs 0) (hs oa) (hs ob) i.toNat 0 i.toNat 0 i.toNat 0)

/-- `mzd_submatrix(S, M, startrow, startcol, endrow, endcol)`, `S` non-NULL and large enough or freshly
    allocated `(endrow-startrow) × (endcol-startcol)`.  Operand 0 = `S`, 1 = `M`.
    `memcpy` is recorded as word reads/writes. -/
def accSubmatrix (startrow startcol endrow endcol : Nat) : List Access :=
  let nrows : Int := (endrow : Int) - startrow
  let ncols : Int := (endcol : Int) - startcol
  if (startcol : Int) % 64 = 0 then
    let startword : Int := (startcol : Int) / 64
    (if ncols / 64 ≠ 0 then
      forI 0 nrows (fun i => forI 0 (ncols / 64) (fun j =>
        [rd 1 (startrow + i.toNat) (startword + j), wr 0 i.toNat j]))
     else []) ++
    (if ncols % 64 ≠ 0 then
      forI 0 nrows (fun i =>
        [rd 1 (startrow + i.toNat) (startword + ncols / 64), rd 0 i.toNat (ncols / 64), wr 0 i.toNat (ncols / 64)])
     else [])
  else
    forI 0 nrows (fun i =>
      let nfull := max ((ncols - 1) / 64) 0          -- trips of `for (j = 0; j + 64 < ncols; j += 64)`
      forI 0 nfull (fun k =>
        accReadBitsOp 1 (startrow + i.toNat) (startcol + (64 * k).toNat) 64 ++ [wr 0 i.toNat k]) ++
      [rd 0 i.toNat nfull, wr 0 i.toNat nfull] ++
      accReadBitsOp 1 (startrow + i.toNat) (startcol + (64 * nfull).toNat) (ncols - 64 * nfull).toNat ++
      [rd 0 i.toNat nfull, wr 0 i.toNat nfull])
def shSubmatrix (startcol endcol : Nat) : List Int :=
  let ncols : Int := (endcol : Int) - startcol
  if (startcol : Int) % 64 = 0 then
    (if ncols % 64 ≠ 0 then [(64 - ncols % 64) % 64] else [])
  else
    let nfull := max ((ncols - 1) / 64) 0
    forI 0 nfull (fun k => shReadBits (startcol + (64 * k).toNat) 64) ++
    shReadBits (startcol + (64 * nfull).toNat) (ncols - 64 * nfull).toNat

/-- `mzd_find_pivot(A, start_row, start_col, &r, &c)`: the MAXIMAL trace (no early `break`/`return`, i.e. the
    run on a zero matrix); every real run performs a sub-list of it. -/
def accFindPivot (h : Hdr) (start_row start_col : Nat) : List Access :=
  let nrows : Int := h.nrows
  let ncols : Int := h.ncols
  let sc : Int := start_col
  if ncols - sc < 64 then
    if sc < ncols then   -- `for (j = start_col; j < ncols; j += 64)`: at most one trip here
      forI start_row nrows (fun i => accReadBits i.toNat start_col (min 64 (ncols - sc)).toNat)
    else []
  else
    let word_offset : Int := sc / 64
    forI start_row nrows (fun i => [rd 0 i.toNat word_offset]) ++
    forI (word_offset + 1) (h.width - 1) (fun wi => forI start_row nrows (fun i => [rd 0 i.toNat wi])) ++
    forI start_row nrows (fun i => [rd 0 i.toNat ((h.width : Int) - 1)])
def shFindPivot (h : Hdr) (start_col : Nat) : List Int :=
  let ncols : Int := h.ncols
  let sc : Int := start_col
  if ncols - sc < 64 then
    if sc < ncols then
      let length := min 64 (ncols - sc)
      shReadBits start_col length.toNat ++ forI 0 length (fun l => [l])
    else []
  else
    let bit_offset : Int := sc % 64
    let end_offset : Int := if ncols % 64 ≠ 0 then ncols % 64 else 64
    [64 - (64 - bit_offset), bit_offset, bit_offset] ++ forI 0 (64 - bit_offset) (fun l => [l]) ++
    [0] ++ forI 0 64 (fun l => [l]) ++
    [(64 - end_offset % 64) % 64, 0] ++ forI 0 end_offset (fun l => [l])

/-! ## brilliantrussian.c -/

/-- `mzd_make_table(M, r, c, k, T, L)`; `inc i` = `m4ri_codebook[k]->inc[i]`.  Operand 0 = `M`, 1 = `T`.
    (The writes `L[0] = 0`, `L[ord[i]] = i` go to the `int` array `L`, not to a matrix, and are not recorded.) -/
def accMakeTable (hM : Hdr) (r c k : Nat) (inc : Nat → Nat) : List Access :=
  let hb : Int := (c : Int) / 64
  let wide : Int := hM.width - hb
  forI 1 (2 ^ k : Nat) (fun i =>
    let rowneeded := r + inc (i.toNat - 1)
    if rowneeded ≥ hM.nrows then [] else
    let step := fun (o : Int) => [rd 0 rowneeded (hb + o), rd 1 (i.toNat - 1) (hb + o), wr 1 i.toNat (hb + o)]
    let n8 := max ((wide - 2) / 8) 0          -- trips of `for (j = 1; j + 8 <= wide - 1; j += 8)`
    let j := 1 + 8 * n8
    step 0 ++
    forI 0 n8 (fun g => forI 0 8 (fun u => step (1 + 8 * g + u))) ++
    (if 1 ≤ wide - j ∧ wide - j ≤ 8 then forI 0 (wide - j) (fun u => step (j + u)) else []))
def shMakeTable (hM : Hdr) (c k : Nat) : List Int :=
  [(64 - (hM.ncols : Int) % 64) % 64, 64 - (64 - (c : Int) % 64), k]

/-- `mzd_process_rows(M, startrow, stoprow, startcol, k, T, L)`.  Operand 0 = `M`, 1 = `T`.
    Data-dependent choices are parameters: `x r` = the table row `L[mzd_read_bits_int(M, r, startcol, k)]`
    selected for row `r`; `b r` = (for `k = 1`) whether bit `startcol` of row `r` is set. -/
def accProcessRows (hM : Hdr) (startrow stoprow startcol k : Nat) (x : Nat → Nat) (b : Nat → Bool) : List Access :=
  let block : Int := (startcol : Int) / 64
  let wide : Int := hM.width - block
  let n := duff wide
  let count : Int := (stoprow : Int) - startrow
  let npairs := max (count / 2) 0               -- trips of `for (r = startrow; r + 2 <= stoprow; r += 2)`
  let single := fun (r : Nat) =>
    accReadBits r startcol k ++
    forI 0 n (fun i => [rd 1 (x r) (block + i), rd 0 r (block + i), wr 0 r (block + i)])
  let last := forI (2 * npairs) count (fun j => single (startrow + j.toNat))
  if k = 1 then
    forI 0 npairs (fun p =>
      let r := startrow + (2 * p).toNat
      [rd 0 r block, rd 0 (r + 1) block] ++
      (if b r ∧ b (r + 1) then
        forI 0 n (fun i => [rd 1 1 (block + i), rd 0 r (block + i), wr 0 r (block + i),
                            rd 1 1 (block + i), rd 0 (r + 1) (block + i), wr 0 (r + 1) (block + i)])
       else if b r then forI 0 n (fun i => [rd 1 1 (block + i), rd 0 r (block + i), wr 0 r (block + i)])
       else if b (r + 1) then forI 0 n (fun i => [rd 1 1 (block + i), rd 0 (r + 1) (block + i), wr 0 (r + 1) (block + i)])
       else [])) ++ last
  else
    forI 0 npairs (fun p =>
      let r := startrow + (2 * p).toNat
      accReadBits r startcol k ++ accReadBits (r + 1) startcol k ++
      forI 0 n (fun i => [rd 1 (x r) (block + i), rd 0 r (block + i), wr 0 r (block + i),
                          rd 1 (x (r + 1)) (block + i), rd 0 (r + 1) (block + i), wr 0 (r + 1) (block + i)])) ++ last
def shProcessRows (startcol k : Nat) : List Int :=
  (if k = 1 then [(startcol : Int) % 64] else []) ++ shReadBits startcol k

end M4ri.Safety
