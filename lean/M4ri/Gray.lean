/-
  graycode.c / graycode.h / parity.h: Gray code tables, `m4ri_opt_k`, the 64×64 parity network,
  and the Gray-code lookup table of brilliantrussian.c (`mzd_make_table`) on rows-as-`Nat`.
-/
import M4ri.BMat
namespace M4ri

/-- `m4ri_gray_code(number, length)`: the bit loop as written (`i` from `length-1` down to 0) -/
def grayCode (number length : Nat) : Nat :=
  let rec go (i lastbit res : Nat) : Nat :=
    match i with
    | 0 => res
    | i + 1 =>
      let bit := number &&& (1 <<< i)
      go i bit (res ||| ((lastbit >>> 1) ^^^ bit))
  go length 0 0

/-- `ord` of `m4ri_build_code(ord, inc, l)` -/
def buildOrd (l : Nat) : Array Nat := (Array.range (2 ^ l)).map fun i => grayCode i l

/-- `inc` of `m4ri_build_code`: the array starts zeroed (calloc) and is overwritten for `i = l, l-1, …, 1`,
    `j = 1 … 2^i` at position `j·2^(l-i) − 1` with `l − i`; later (smaller `i`) writes win. -/
def buildInc (l : Nat) : Array Nat :=
  (List.range l).foldl (fun inc t =>
      -- t = 0 … l-1 corresponds to i = l - t
      let i := l - t
      (List.range (2 ^ i)).foldl (fun inc j0 =>
        let j := j0 + 1
        inc.setIfInBounds (j * 2 ^ (l - i) - 1) (l - i)) inc)
    (Array.replicate (2 ^ l) 0)

/-- graycode.h `log2_floor(int v)` (5 rounds, 32-bit) -/
def log2Floor (v : Nat) : Nat :=
  let step (st : Nat × Nat) (bs : Nat × Nat) : Nat × Nat :=
    if st.1 &&& bs.1 ≠ 0 then (st.1 >>> bs.2, st.2 ||| bs.2) else st
  ([(0xFFFF0000, 16), (0xFF00, 8), (0xF0, 4), (0xC, 2), (0x2, 1)].foldl step (v, 0)).2

/-- `m4ri_opt_k(a, b, c)`: `MIN(MAXKAY, MAX(1, (int)(0.75 * (1 + log2_floor(MIN(a,b))))))`;
    `0.75 * n` truncated is `3n/4` exactly for these small integers. -/
def optK (a b : Nat) : Nat := min 16 (max 1 (3 * (1 + log2Floor (min a b)) / 4))

/-! ### parity.h -/

def mix32 (a b : Word) : Word := (((a >>> 32) ^^^ a) <<< 32) ||| (((b <<< 32) ^^^ b) >>> 32)
def mix16 (a b : Word) : Word :=
  (((a <<< 16) ^^^ a) &&& 0xFFFF0000FFFF0000#64) ||| (((b >>> 16) ^^^ b) &&& 0x0000FFFF0000FFFF#64)
def mix8 (a b : Word) : Word :=
  (((a <<< 8) ^^^ a) &&& 0xFF00FF00FF00FF00#64) ||| (((b >>> 8) ^^^ b) &&& 0x00FF00FF00FF00FF#64)
def mix4 (a b : Word) : Word :=
  (((a <<< 4) ^^^ a) &&& 0xF0F0F0F0F0F0F0F0#64) ||| (((b >>> 4) ^^^ b) &&& 0x0F0F0F0F0F0F0F0F#64)
def mix2 (a b : Word) : Word :=
  (((a <<< 2) ^^^ a) &&& 0xCCCCCCCCCCCCCCCC#64) ||| (((b >>> 2) ^^^ b) &&& 0x3333333333333333#64)
def mix1 (a b : Word) : Word :=
  (((a <<< 1) ^^^ a) &&& 0xAAAAAAAAAAAAAAAA#64) ||| (((b >>> 1) ^^^ b) &&& 0x5555555555555555#64)

/-- `m4ri_parity64_helper(buf)` with `buf` as a function of the index -/
def parity64Helper (buf : Nat → Word) : Word :=
  let a0 := mix32 (buf 0x20) (buf 0x00)
  let a1 := mix32 (buf 0x30) (buf 0x10)
  let b0 := mix16 a1 a0
  let a0 := mix32 (buf 0x28) (buf 0x08)
  let a1 := mix32 (buf 0x38) (buf 0x18)
  let b1 := mix16 a1 a0
  let c0 := mix8 b1 b0
  let a0 := mix32 (buf 0x24) (buf 0x04)
  let a1 := mix32 (buf 0x34) (buf 0x14)
  let b0 := mix16 a1 a0
  let a0 := mix32 (buf 0x2C) (buf 0x0C)
  let a1 := mix32 (buf 0x3C) (buf 0x1C)
  let b1 := mix16 a1 a0
  let c1 := mix8 b1 b0
  mix4 c1 c0

/-- `m4ri_parity64(buf)`: bit `i` of the result is the parity of `buf[i]` -/
def parity64 (buf : Nat → Word) : Word :=
  let d0 := parity64Helper buf
  let d1 := parity64Helper fun i => buf (i + 2)
  let e0 := mix2 d1 d0
  let d0 := parity64Helper fun i => buf (i + 1)
  let d1 := parity64Helper fun i => buf (i + 3)
  let e1 := mix2 d1 d0
  mix1 e1 e0

/-! ### the Gray-code lookup table (`mzd_make_table`) on rows-as-Nat -/

/-- mask of the columns `[c, ncols)` -/
def colMask (c ncols : Nat) : Nat := ((2 ^ ncols - 1) >>> c) <<< c

/-- `mzd_make_table(M, r, c, k, T, L)`: `T[0]` is the table's (zero) first row, and for `i ≥ 1`
    `T[i] = T[i-1] ⊕ (row r + inc[i-1] of M restricted to columns [c, ncols))`, `L[ord[i]] = i`.
    `T0`/`L0` are the prior contents of the table and index array (whatever was there; a row whose
    source row does not exist is skipped, as in the C code). -/
def makeTable (rows : Array Nat) (nrows ncols r c k : Nat) (T0 : Array Nat) (L0 : Array Nat) :
    Array Nat × Array Nat :=
  let ord := buildOrd k
  let inc := buildInc k
  let L := L0.setIfInBounds 0 0
  (List.range (2 ^ k - 1)).foldl (fun (TL : Array Nat × Array Nat) i0 =>
    let i := i0 + 1
    let rowneeded := r + inc.getD (i - 1) 0
    let L := TL.2.setIfInBounds (ord.getD i 0) i
    if rowneeded ≥ nrows then (TL.1, L) else
      (TL.1.setIfInBounds i (TL.1.getD (i - 1) 0 ^^^ (rows.getD rowneeded 0 &&& colMask c ncols)), L))
    (T0, L)

/-- fresh table storage: `mzd_init` rows are zero; `L` comes from malloc/calloc (`junk`) -/
def freshTable (k : Nat) (junk : Nat → Nat) : Array Nat × Array Nat :=
  (Array.replicate (2 ^ k) 0, (Array.range (2 ^ k)).map junk)

/-- the `n` bits of `a` from position `y` (R-level `mzd_read_bits`) -/
def bitsAt (a y n : Nat) : Nat := (a >>> y) % 2 ^ n

end M4ri
