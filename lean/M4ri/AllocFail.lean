/-
  C20 (allocation failure), protocol part.

  Every heap request of the library is issued at a CALL SITE of one of three kinds:
    * `wrapper`   — the request goes through `m4ri_mm_malloc` / `m4ri_mm_calloc` / `m4ri_mm_malloc_aligned`
                    (misc.h) or through the cache `m4ri_mmc_malloc` / `m4ri_mmc_calloc` (mmc.c), all of which
                    end in `if (p == NULL && size > 0) m4ri_die(...)`;
    * `checked`   — a raw `malloc` / `calloc` / `realloc` / `posix_memalign` / `_mm_malloc` whose result is
                    tested for NULL (`m4ri_die`) before it is used;
    * `unchecked` — a raw call whose result is used without a test.
  A run of the library is the list of requests it issues (call site + requested size).  A fault plan says
  which request(s) return NULL.  The outcome is `completed` (no request failed), `died at` (clean
  `m4ri_die` at request number `at`) or `nullDeref at` (the NULL result of request `at` was used).

  The site inventory `M4ri.Gen.allocSites` is regenerated from the C sources on every check; `classify`
  turns it into sites and `inventoryAllChecked` decides whether every site is `wrapper` or `checked`.
  Core Lean only.
-/
import M4ri.Gen.Inventory
namespace M4ri.AllocFail

/-- the three kinds of allocation call sites -/
inductive Kind where
  | wrapper
  | checked
  | unchecked
deriving DecidableEq, Repr, Inhabited

/-- one call site of the source tree -/
structure Site where
  file   : String
  line   : Nat
  callee : String
  kind   : Kind
deriving DecidableEq, Repr, Inhabited

/-- one dynamic allocation request: where it is issued and how many bytes it asks for -/
structure Request where
  site : Site
  size : Nat
deriving DecidableEq, Repr, Inhabited

inductive Outcome where
  | completed
  | died (pos : Nat)
  | nullDeref (pos : Nat)
deriving DecidableEq, Repr, Inhabited

/-- does a NULL result of this request end in `m4ri_die`?
    wrapper: `if (p == NULL && size > 0) m4ri_die` — only for a positive size;
    checked: explicit `if (p == NULL) m4ri_die`;  unchecked: never. -/
def Request.guarded (r : Request) : Bool :=
  match r.site.kind with
  | .wrapper   => decide (0 < r.size)
  | .checked   => true
  | .unchecked => false

/-- what a NULL result of request number `pos` leads to -/
def Request.onNull (r : Request) (pos : Nat) : Outcome :=
  if r.guarded then .died pos else .nullDeref pos

/-- the run from request number `pos` on, under a fault plan `fails` (request `i` returns NULL iff
    `fails i`): requests succeed until the first failing one, which decides the outcome -/
def runFrom (fails : Nat → Bool) : Nat → List Request → Outcome
  | _,   []        => .completed
  | pos, r :: rest => if fails pos then r.onNull pos else runFrom fails (pos + 1) rest

/-- a run under an arbitrary fault plan -/
def runPlan (reqs : List Request) (fails : Nat → Bool) : Outcome := runFrom fails 0 reqs

/-- a run in which exactly request number `failAt` fails (the fault-injection harness of C20:
    "the `failAt`-th allocation returns NULL") -/
def run (reqs : List Request) (failAt : Nat) : Outcome := runPlan reqs (fun i => i == failAt)

/-! ### the generated inventory -/

/-- verdict string of the inventory → kind; anything unknown counts as `unchecked` -/
def kindOfVerdict (v : String) : Kind :=
  if v = "wrapper" then .wrapper else if v = "checked" then .checked else .unchecked

/-- inventory rows `(file, line, callee, verdict)` → sites -/
def classify (inv : List (String × Nat × String × String)) : List Site :=
  inv.map fun e => ⟨e.1, e.2.1, e.2.2.1, kindOfVerdict e.2.2.2⟩

/-- every site of a site list is `wrapper` or `checked` -/
def allChecked (sites : List Site) : Bool := sites.all fun s => s.kind != .unchecked

/-- the sites that are not -/
def offending (sites : List Site) : List Site := sites.filter fun s => s.kind == .unchecked

/-- the sites of the current source tree -/
def inventorySites : List Site := classify Gen.allocSites

/-- does the current source tree test every allocation result? -/
def inventoryAllChecked : Bool := allChecked inventorySites

/-- the unchecked sites of the current source tree -/
def inventoryOffending : List Site := offending inventorySites

/-- the inventory without the sites of the given files -/
def inventoryWithout (files : List String) : List Site :=
  inventorySites.filter fun s => !files.contains s.file

/-- a request list uses only sites of `sites`, each with a positive size -/
def FromSites (sites : List Site) (reqs : List Request) : Prop :=
  ∀ r ∈ reqs, r.site ∈ sites ∧ 0 < r.size

end M4ri.AllocFail
