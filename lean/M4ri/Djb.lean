/-
  R storey model of `m4ri/djb.c` / `djb.h` (D. J. Bernstein's "optimizing linear maps mod 2"):
    `mzd_compare_rows_revlex`, the array-based binary max-heap (`heap_init`, `heap_push`, `heap_pop`,
    `heap_front`), `djb_compile`, `djb_push_back`, `djb_apply_mzd`.
  Rows are `Nat`s (`BMat`); the heap stores row indices.  `h->count` is `data.size`; the capacity
  `h->size` is carried along only to mirror the `realloc` bookkeeping (it never influences a value).
  Core Lean only.
-/
import M4ri.BMat
namespace M4ri
namespace Djb

/-! ### `mzd_compare_rows_revlex` -/

/-- word `j` of a row -/
def wordOf (r j : Nat) : Nat := (r >>> (64 * j)) % 2 ^ 64

/-- the loop `for (j = width-1; j >= 0; j--)` of `mzd_compare_rows_revlex`; the argument is `j+1` -/
def cmpWords (ra rb : Nat) : Nat → Bool
  | 0 => true
  | j + 1 =>
    if wordOf ra j < wordOf rb j then false
    else if wordOf ra j > wordOf rb j then true
    else cmpWords ra rb j

/-- `mzd_compare_rows_revlex(A, a, b)`: 1 iff row `a` ≥ row `b`, most significant word first -/
def cmpRevlex (A : BMat) (a b : Nat) : Bool := cmpWords (A.row a) (A.row b) (widthOf A.ncols)

/-! ### the heap -/

/-- `heap_t`: `size` = allocated items, `data` = the `count` live items (`count = data.size`) -/
structure Heap where
  size : Nat
  data : Array Nat
deriving Repr, BEq, Inhabited

def heapBaseSize : Nat := 4

/-- `heap_init()` -/
def heapInit : Heap := ⟨heapBaseSize, #[]⟩

/-- `heap_front(h)` = `*h->data` (a stale/uninitialised slot reads as 0 here) -/
def heapFront (h : Heap) : Nat := h.data.getD 0 0

/-- the sift-up loop of `heap_push`:
    `for (index = ..; index; index = parent) { parent = (index-1)>>1;
        if (cmp(A, data[parent], value)) break; data[index] = data[parent]; } data[index] = value;` -/
def siftUp (A : BMat) (value : Nat) (data : Array Nat) (index : Nat) : Array Nat :=
  if h : index = 0 then data.setIfInBounds index value
  else
    let parent := (index - 1) / 2
    if cmpRevlex A (data.getD parent 0) value then data.setIfInBounds index value
    else siftUp A value (data.setIfInBounds index (data.getD parent 0)) parent
termination_by index
decreasing_by omega

/-- `heap_push(h, value, A)`; slot `count` is claimed first (its content is never read before it is written) -/
def heapPush (A : BMat) (h : Heap) (value : Nat) : Heap :=
  let size := if h.data.size = h.size then 2 * h.size else h.size
  ⟨size, siftUp A value (h.data.push value) h.data.size⟩

/-- the sift-down loop of `heap_pop`:
    `for (index = 0; 1; index = swap) { swap = (index<<1)+1; if (swap >= count) break; other = swap+1;
        if (other < count && cmp(A, data[other], data[swap])) swap = other;
        if (cmp(A, temp, data[swap])) break; data[index] = data[swap]; } data[index] = temp;` -/
def siftDown (A : BMat) (temp : Nat) (data : Array Nat) (index : Nat) : Array Nat :=
  let swap := 2 * index + 1
  if h : swap ≥ data.size then data.setIfInBounds index temp
  else
    let other := swap + 1
    let swap' := if other < data.size && cmpRevlex A (data.getD other 0) (data.getD swap 0) then other else swap
    if cmpRevlex A temp (data.getD swap' 0) then data.setIfInBounds index temp
    else siftDown A temp (data.setIfInBounds index (data.getD swap' 0)) swap'
termination_by data.size - index
decreasing_by
  simp only [Array.size_setIfInBounds]
  split <;> omega

/-- `heap_pop(h, A)` (`temp = data[--count]`, shrink, sift down from the root) -/
def heapPop (A : BMat) (h : Heap) : Heap :=
  let temp := h.data.getD (h.data.size - 1) 0
  let data := h.data.pop
  let size := if data.size ≤ h.size / 4 ∧ h.size > heapBaseSize then h.size / 2 else h.size
  ⟨size, siftDown A temp data 0⟩

/-! ### the compiled map -/

/-- `srctyp_t` -/
inductive SrcTyp where
  | sourceTarget   -- add from target matrix
  | sourceSource   -- add from source matrix
deriving Repr, BEq, DecidableEq, Inhabited

/-- one entry of `djb_t`: `out[target] ^= srctyp[source]` -/
structure Op where
  target : Nat
  source : Nat
  srctyp : SrcTyp
deriving Repr, BEq, DecidableEq, Inhabited

/-- `mzd_write_bit(A, r, c, 0)` on a row -/
def clearBit (r c : Nat) : Nat := r ^^^ (r &&& (1 <<< c))

/-- the loop state of `djb_compile`: the (destroyed) matrix, the heap, the column bound and the ops
    in emission order (`djb_push_back` appends) -/
structure CState where
  A : BMat
  h : Heap
  n : Nat
  z : Array Op
deriving Repr, Inhabited

/-- one iteration of `while (n > 0) { … }` (called with `n > 0`; `m = A->nrows`) -/
def compileStep (m : Nat) (s : CState) : CState :=
  if s.A.get (heapFront s.h) (s.n - 1) = false then { s with n := s.n - 1 }
  else
    let temp := heapFront s.h
    let h := heapPop s.A s.h
    if m ≥ 2 ∧ s.A.get (heapFront h) (s.n - 1) = true then
      -- mzd_row_add(A, heap_front(h), temp): row temp ^= row front
      let A := s.A.setRow temp (s.A.row temp ^^^ s.A.row (heapFront h))
      { A := A, h := heapPush A h temp, n := s.n, z := s.z.push ⟨temp, heapFront h, .sourceTarget⟩ }
    else
      let A := s.A.setRow temp (clearBit (s.A.row temp) (s.n - 1))
      { A := A, h := heapPush A h temp, n := s.n, z := s.z.push ⟨temp, s.n - 1, .sourceSource⟩ }

/-- `while (n > 0)` with fuel -/
def compileLoop (m : Nat) : Nat → CState → CState
  | 0, s => s
  | fuel + 1, s => if s.n = 0 then s else compileLoop m fuel (compileStep m s)

/-- `for (i = 0; i < m; i++) heap_push(h, i, A);` -/
def initHeap (A : BMat) : Heap := (List.range A.nrows).foldl (fun h i => heapPush A h i) heapInit

/-- enough iterations: every iteration lowers `n·(m+1) + #{rows with bit n-1 set}` -/
def compileFuel (A : BMat) : Nat := (A.ncols + 1) * (A.nrows + 1)

/-- `djb_compile(A)`, final loop state (the matrix is destroyed: it ends as 0).
    Domain of the mirror: `A` is an owned matrix (excess bits of the last word are 0 — the C comparison
    reads whole words) with `nrows ≥ 1` or `ncols = 0`.  For a `0 × c` matrix, `c > 0`, the C code reads
    the never-written `data[0]` of the empty heap (undefined behaviour, SEGV observed); here that slot
    reads as row index 0, whose row reads as 0, so the loop just counts `n` down and emits nothing. -/
def djbCompileState (A : BMat) : CState :=
  compileLoop A.nrows (compileFuel A) ⟨A, initHeap A, A.ncols, #[]⟩

/-- `djb_compile(A)`: the ops in emission order (`z->target[i]`, `z->source[i]`, `z->srctyp[i]`) -/
def djbCompile (A : BMat) : List Op := (djbCompileState A).z.toList

/-- one step of `djb_apply_mzd`: `W[target] ^= (srctyp == source_source ? V[source] : W[source])` -/
def applyOp (op : Op) (W V : BMat) : BMat :=
  match op.srctyp with
  | .sourceSource => W.setRow op.target (W.row op.target ^^^ V.row op.source)
  | .sourceTarget => W.setRow op.target (W.row op.target ^^^ W.row op.source)

/-- `djb_apply_mzd(z, W, V)`: the ops are applied from the LAST one emitted to the first -/
def djbApply (ops : List Op) (W V : BMat) : BMat := ops.foldr (fun op W => applyOp op W V) W

/-- compile `A`, apply to a zeroed target -/
def runDjb (A V : BMat) : BMat := djbApply (djbCompile A) (BMat.zero A.nrows V.ncols) V

/-! ### self test (tiny LCG) -/

def lcg (s : Nat) : Nat := (s * 6364136223846793005 + 1442695040888963407) % 2 ^ 64

/-- `bits` pseudo-random bits -/
def randNat (s : Nat) (bits : Nat) : Nat × Nat :=
  let r := (List.range ((bits + 31) / 32)).foldl (fun (acc : Nat × Nat) _ =>
    let s' := lcg acc.1; (s', (acc.2 <<< 32) ||| (s' >>> 32))) (s, 0)
  (r.1, r.2 % 2 ^ bits)

/-- random `r × c` matrix; `dens` (0..3) thins the rows out by AND-ing several draws -/
def randMat (s r c dens : Nat) : Nat × BMat :=
  let res := (List.range r).foldl (fun (acc : Nat × Array Nat) _ =>
    let x := (List.range (dens + 1)).foldl (fun (a : Nat × Nat) _ =>
      let y := randNat a.1 c; (y.1, a.2 &&& y.2)) (acc.1, 2 ^ c - 1)
    (x.1, acc.2.push x.2)) (s, #[])
  (res.1, ⟨r, c, res.2⟩)

def checkOne (A V : BMat) : Bool := runDjb A V == A.mul V && (djbCompileState A).n == 0

/-- `count` random cases with shapes up to `maxr × maxc` -/
def selfTestRandom (seed count maxr maxc maxw : Nat) : Bool :=
  ((List.range count).foldl (fun (acc : Nat × Bool) k =>
    let s1 := lcg acc.1
    let r := (s1 >>> 33) % (maxr + 1)
    let s2 := lcg s1
    let c := (s2 >>> 33) % (maxc + 1)
    let s3 := lcg s2
    let w := (s3 >>> 33) % (maxw + 1)
    let (s4, A) := randMat s3 r c (k % 4)
    -- every third case: force duplicate / zero rows
    let A : BMat := if k % 3 = 0 ∧ r ≥ 3 then
      { A with rows := (A.rows.setIfInBounds 1 (A.row 0)).setIfInBounds 2 0 } else A
    let (s5, V) := randMat s4 c w 0
    (s5, acc.2 && checkOne A V)) (seed, true)).2

def selfTestFixed : Bool :=
  let V70 := (randMat 7 70 90 0).2
  let V5 := (randMat 11 5 130 0).2
  checkOne (BMat.identity 70) V70
  && checkOne (BMat.zero 9 70) V70
  && checkOne (BMat.zero 0 70) V70
  && checkOne (BMat.zero 5 0) (BMat.zero 0 33)
  && checkOne ⟨6, 5, #[31, 31, 31, 0, 31, 0]⟩ V5
  && checkOne ⟨1, 5, #[21]⟩ V5
  && checkOne ⟨2, 5, #[21, 21]⟩ V5
  && checkOne (randMat 3 100 70 0).2 V70
  && checkOne (randMat 5 3 70 1).2 V70
  && checkOne (randMat 9 130 5 0).2 V5

end Djb
end M4ri
