/-
  W storey, part 1: 64-bit words, the mask macros of misc.h and the masked-merge idiom.
  Core Lean only (this file is compiled into the model driver).
-/
namespace M4ri

abbrev Word := BitVec 64

/-- `m4ri_radix` -/
def radix : Nat := 64

/-- `m4ri_ffff` -/
def ffff : Word := BitVec.allOnes 64

/-- `__M4RI_LEFT_BITMASK(n) = m4ri_ffff >> (m4ri_radix - n) % m4ri_radix` (C `int` arithmetic, `0 ≤ n ≤ 64`). -/
def leftMask (n : Nat) : Word := ffff >>> ((64 - n) % 64)

/-- `__M4RI_RIGHT_BITMASK(n) = m4ri_ffff << (m4ri_radix - n)` (`1 ≤ n ≤ 64`; `n = 0` is a shift by 64, UB in C). -/
def rightMask (n : Nat) : Word := ffff <<< (64 - n)

/-- `__M4RI_MIDDLE_BITMASK(n, offset)` -/
def middleMask (n off : Nat) : Word := leftMask n <<< off

/-- The ubiquitous masked write `c ^= (c ^ x) & mask`: bits of `x` under `mask`, bits of `c` elsewhere. -/
def merge (c x mask : Word) : Word := c ^^^ ((c ^^^ x) &&& mask)

/-- `(c & ~mask) | (x & mask)` — the other spelling used by `mzd_copy`, `mzd_copy_row`. -/
def merge' (c x mask : Word) : Word := (c &&& ~~~mask) ||| (x &&& mask)

/-- `m4ri_swap_bits` -/
def swapBits (v : Word) : Word :=
  let v := ((v >>> 1) &&& 0x5555555555555555#64) ||| ((v &&& 0x5555555555555555#64) <<< 1)
  let v := ((v >>> 2) &&& 0x3333333333333333#64) ||| ((v &&& 0x3333333333333333#64) <<< 2)
  let v := ((v >>> 4) &&& 0x0F0F0F0F0F0F0F0F#64) ||| ((v &&& 0x0F0F0F0F0F0F0F0F#64) <<< 4)
  let v := ((v >>> 8) &&& 0x00FF00FF00FF00FF#64) ||| ((v &&& 0x00FF00FF00FF00FF#64) <<< 8)
  let v := ((v >>> 16) &&& 0x0000FFFF0000FFFF#64) ||| ((v &&& 0x0000FFFF0000FFFF#64) <<< 16)
  (v >>> 32) ||| (v <<< 32)

/-- `m4ri_lesser_LSB(a, b)`: `!(ib ? ((ia - 1) ^ ia) & ib : !ia)` -/
def lesserLSB (a b : Word) : Bool :=
  !(if b ≠ 0 then (((a - 1) ^^^ a) &&& b) ≠ 0 else a = 0)

/-- `m4ri_spread_bits(from, Q, length, base)`; `Q` given as a list, entries `Q[i] - base` are the targets. -/
def spreadBits (src : Word) (Q : List Nat) (length base : Nat) : Word :=
  (List.range length).foldl
    (fun to i => to ||| ((src &&& ((1#64) <<< i)) <<< (Q.getD i 0 - i - base))) 0

/-- `m4ri_shrink_bits(from, Q, length, base)` -/
def shrinkBits (src : Word) (Q : List Nat) (length base : Nat) : Word :=
  (List.range length).foldl
    (fun to i => to ||| ((src &&& ((1#64) <<< (Q.getD i 0 - base))) >>> (Q.getD i 0 - i - base))) 0

end M4ri
