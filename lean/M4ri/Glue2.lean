/-
  Value-level mirrors of the remaining glue routines between the factorisations and the echelon form / inverse:
    ple.c              : `_mzd_pluq` (PLUQ from PLE: `mzd_apply_p_right_trans_tri` on the pivot rows)
    brilliantrussian.c : `_mzd_echelonize_m4ri(A, full, k, heuristic = 1, threshold)` (= `mzd_echelonize`), the
                         hybrid M4RI / PLUQ elimination, and `mzd_inv_m4ri`
  Each routine is parameterised by the routine below it (`ple`, `pluqEch`), exactly like `M4ri/Glue.lean`; the
  floating-point density test of the hybrid elimination is the parameter `switch`.  Core Lean only.
-/
import M4ri.Glue
import M4ri.M4riElim
namespace M4ri.BMat.G2

/-! ### `_mzd_pluq` (ple.c:50) -/

/-- `mzd_apply_p_right_trans_tri(A0, Q)` where `A0` is the window of the first `m` rows of `M` (`m = nrows`: the
    whole matrix): for ascending `i < ncols` the columns `i` and `Q[i]` are swapped in the rows `< min(m, i)`.
    (The C routine works strip-wise: for every strip of `step_size` rows all `i` are visited; column swaps in
    different rows are independent, so the resulting matrix is the one computed here.) -/
def applyPRightTransTriRows (M : BMat) (Q : Array Nat) (m : Nat) : BMat :=
  (List.range M.ncols).foldl (fun X i => X.swapColsInRows i (Q.getD i 0) 0 (min m i)) M

/-- `_mzd_pluq(A, P, Q, cutoff)`: `r = _mzd_ple(A, P, Q, cutoff)`, then `mzd_apply_p_right_trans_tri` on the
    window of the first `r` rows when `0 < r < nrows`, on all of `A` otherwise.  `ple` is `_mzd_ple` (storage, `P`,
    `Q`, rank); `P`, `Q` and the rank are returned as `ple` left them. -/
def pluqOfPle (ple : BMat → BMat × Array Nat × Array Nat × Nat) (A : BMat) :
    BMat × Array Nat × Array Nat × Nat :=
  let o := ple A
  let S := o.1; let Q := o.2.2.1; let r := o.2.2.2
  (applyPRightTransTriRows S Q (if 0 < r ∧ r < S.nrows then r else S.nrows), o.2.1, Q, r)

/-! ### `mzd_inv_m4ri` (brilliantrussian.c:984) -/

/-- the work matrix `C` of `mzd_inv_m4ri`: `n × 2·nr` with `nr = m4ri_radix * A->width`, zero except for the
    windows `AW = C[0..n, 0..n) := A` (`mzd_copy`) and `BW = C[0..n, nr..nr+n) := I` (`mzd_set_ui(BW, 1)`) -/
def invInput (A : BMat) : BMat :=
  let n := A.nrows
  let nr := 64 * ((A.ncols + 63) / 64)
  ⟨n, 2 * nr, (Array.range n).map fun i => (A.row i % 2 ^ A.ncols) ||| (1 <<< (nr + i))⟩

/-- `mzd_inv_m4ri(B, A, k)` for a square `A`: `C` is reduced by `mzd_echelonize_m4ri(C, TRUE, 0)` and the window
    `BW` is copied out.  NOTE: the C routine IGNORES its argument `k` (it passes `0`, "choose `k` automatically");
    the `k` of this model is the `k` that `_mzd_echelonize_m4ri` then chooses for `C`
    (`m4ri_opt_k(n, 2·nr, 0)`, capped at 7, minus one if the tables would not fit the cache), always `≥ 1` in a
    sanely configured library.  `junk`: prior contents of the `L` arrays (zero in C: `calloc`). -/
def invM4ri (A : BMat) (k : Nat) (junk : Nat → Nat := fun _ => 0) : BMat :=
  let n := A.nrows
  let nr := 64 * ((A.ncols + 63) / 64)
  (M4RI.echelonizeM4ri (invInput A) true k junk).1.sub 0 nr n (nr + n)

/-! ### `_mzd_echelonize_m4ri(A, full, k, heuristic = 1, threshold)` = `mzd_echelonize` (brilliantrussian.c:605) -/

/-- the hand-over to PLUQ: `Abar = mzd_init_window(A, r, (c / m4ri_radix) * m4ri_radix, nrows, ncols)` (the window
    starts at the WORD boundary at or left of column `c`), `r2 = mzd_echelonize_pluq(Abar, full)`.
    Returns `A` as left by the call and `r2`. -/
def handOver (pluqEch : BMat → Bool → BMat × Nat) (M : BMat) (r c : Nat) (full : Bool) : BMat × Nat :=
  let c0 := 64 * (c / 64)
  let W := pluqEch (M.sub r c0 M.nrows M.ncols) full
  (M.paste r c0 W.1, W.2)

/-- the `while (c < ncols)` loop with `heuristic = 1`; `lc` is `last_check`.  Every 256 columns
    (`c > last_check + 256`) the density of the remaining submatrix is compared with the threshold — here the
    parameter `switch r c A` — and, if it says so (and `r < nrows`), the rest is handed to PLUQ; with `full` the rows
    above are then finished by `_mzd_top_echelonize_m4ri(A, 0, r, c, r)` (`k = 0`: chosen automatically from
    `max_r = r`, here `ktop r`) when `r > 0`.  Otherwise one pass of the M4RI loop (`M4RI.echStep`). -/
def hybLoop (switch : Nat → Nat → BMat → Bool) (pluqEch : BMat → Bool → BMat × Nat) (full : Bool) (k : Nat)
    (ktop : Nat → Nat) (junk junkTop : Nat → Nat) : Nat → M4RI.St → Nat → BMat × Nat
  | 0, s, _ => (s.M, s.r)
  | fuel + 1, s, lc =>
    if s.c < s.M.ncols then
      let chk : Bool := decide (s.c > lc + 256)
      let lc := if chk then s.c else lc
      if chk && decide (s.r < s.M.nrows) && switch s.r s.c s.M then
        let H := handOver pluqEch s.M s.r s.c full
        if full then
          ((if s.r > 0 then (M4RI.topEchelonizeM4ri H.1 (ktop s.r) s.r s.c s.r junkTop).1 else H.1), s.r + H.2)
        else (H.1, s.r + H.2)
      else
        let sb := M4RI.echStep full k junk s
        if sb.2 then hybLoop switch pluqEch full k ktop junk junkTop fuel sb.1 lc else (sb.1.M, sb.1.r)
    else (s.M, s.r)

/-- `_mzd_echelonize_m4ri(A, full, k, 1, threshold)` for `k ≥ 1` given (`mzd_echelonize(A, full)` passes `k = 0`:
    `k` is then `m4ri_opt_k(nrows, ncols, 0)`, capped at 7, minus one if the tables would not fit the cache).
    `switch r c M` stands for `_mzd_density(M, 32, r, c) >= threshold` (floating point), `pluqEch W full` for
    `mzd_echelonize_pluq(W, full)` (matrix left in `W`, returned rank).  Before the loop the density of the whole
    matrix is tested once: above the threshold everything is done by PLUQ. -/
def echelonizeHybrid (switch : Nat → Nat → BMat → Bool) (pluqEch : BMat → Bool → BMat × Nat) (A : BMat)
    (full : Bool) (k : Nat) (ktop : Nat → Nat := fun _ => k) (junk junkTop : Nat → Nat := fun _ => 0) :
    BMat × Nat :=
  if decide (0 < A.ncols) && decide (0 < A.nrows) && switch 0 0 A then handOver pluqEch A 0 0 full
  else hybLoop switch pluqEch full k ktop junk junkTop (A.ncols + 1) ⟨A, 0, 0, 6 * k⟩ 0

end M4ri.BMat.G2
