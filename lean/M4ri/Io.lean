/-
  File I/O of io.c (property C18), R storey (a row is one `Nat`, bit j = column j).

  * `mzd_to_png` / `mzd_from_png`: the per-row byte packing done by the library, with libpng modelled as
      - two pure per-byte transforms `packswap` (PNG_PACKSWAP, reverse the bit order in a byte) and
        `invertMono` (PNG_INVERT_MONO, complement), applied in libpng's fixed order, and
      - a lossless container for the resulting bytes (IHDR/IDAT/zlib/filtering are NOT modelled:
        trusted-base assumption "the bytes `png_write_row` stored are the bytes `png_read_row` starts from"),
      - `png_combine_row`, the last step of `png_read_row`, which keeps the destination's padding bits in a
        partial last byte (`pngCombineRow`).
    Which transforms are requested:   write: `png_set_packswap` + `png_set_invert_mono`;
                                      read : `png_set_packswap` only (`png_set_invert_mono` is commented
                                             out in the source; the reader complements the words itself).
    Also modelled: the header checks of `mzd_from_png` and the size of the row buffer it allocates
    versus the number of bytes libpng writes into it (`PngHdr`, `pngAccept`, `pngRowbytes`, `pngRowBuf`).
    The model follows the REPAIRED source (bit-depth/channel check in `mzd_from_png`, lower-bound checks in
    `mzd_from_jcf`).
  * `mzd_from_str`.
  * `mzd_from_jcf` on the list of integers `fscanf` delivers; every matrix write goes through a CHECKED
    store so that an out-of-range write of the C code shows up as `oob-write r c`.

  Core Lean only (compiled into the model driver).
-/
import M4ri.BMat
import M4ri.Proto
namespace M4ri.Io

/-! ## 1. libpng, as far as it is modelled -/

/-- `png_do_packswap` for 1-bit pixels (table `onebppswaptable`): bit k of the byte goes to bit 7-k. -/
def packswap (b : Nat) : Nat :=
  ((b &&& 0x01) <<< 7) ||| ((b &&& 0x02) <<< 5) ||| ((b &&& 0x04) <<< 3) ||| ((b &&& 0x08) <<< 1) |||
  ((b &&& 0x10) >>> 1) ||| ((b &&& 0x20) >>> 3) ||| ((b &&& 0x40) >>> 5) ||| ((b &&& 0x80) >>> 7)

/-- `png_do_invert` for gray images: every byte of the row is complemented. -/
def invertMono (b : Nat) : Nat := (b ^^^ 0xff) &&& 0xff

/-- pngwtran.c `png_do_write_transformations`: PACKSWAP is applied before INVERT_MONO. Both were requested
by `mzd_to_png`. -/
def writeTransforms (bytes : List Nat) : List Nat := bytes.map fun b => invertMono (packswap b)

/-- pngrtran.c `png_do_read_transformations`: only PACKSWAP was requested by `mzd_from_png`. -/
def readTransforms (bytes : List Nat) : List Nat := bytes.map packswap

/-- pngrutil.c `png_combine_row` (non-interlaced image, libpng ≥ 1.5.6), called by `png_read_row` AFTER the read
transforms: whole bytes are copied to the caller's buffer `dest`; in a partial last byte only the pixel bits
are stored, the other bits of the destination byte are KEPT. With PACKSWAP active the pixels are at the low
end: `end_mask = 0xff << (width % 8)` selects the destination bits to keep,
`*end_ptr = (end_byte & end_mask) | (*end_ptr & ~end_mask)`. (Older libpng copies the whole byte; the
round-trip theorem is proved for ARBITRARY padding bits, which covers both.) -/
def pngCombineRow (ncols : Nat) (dest src : List Nat) : List Nat :=
  let k := ncols % 8
  if k = 0 then src
  else
    let endMask := (0xff <<< k) &&& 0xff
    src.mapIdx fun q b =>
      if q + 1 = (ncols + 7) / 8 then (dest.getD q 0 &&& endMask) ||| (b &&& (0xff ^^^ endMask)) else b

/-- `png_read_row(png_ptr, dest, NULL)` for a stored row: read transforms, then combine into `dest` -/
def pngReadRow (ncols : Nat) (dest stored : List Nat) : List Nat :=
  pngCombineRow ncols dest (readTransforms stored)

/-! ## 2. `mzd_to_png`: one row -/

/-- `rowptr[j]` -/
def wordOf (row j : Nat) : Word := BitVec.ofNat 64 (row >>> (64 * j))

/-- `(png_byte)((tmp >> 8k) & 0xff)` -/
def byteOf (tmp : Word) (k : Nat) : Nat := ((tmp >>> (8 * k)) &&& 0xff#64).toNat

/-- the `switch` selector `(ncols / 8 + ((ncols % 8) ? 1 : 0)) % 8` -/
def pngNb (ncols : Nat) : Nat := (ncols / 8 + (if ncols % 8 ≠ 0 then 1 else 0)) % 8

/-- number of statements the fall-through `switch` executes: label `0` is the topmost one (all eight),
label `k` enters at the statement for byte `k-1` and falls through to byte `0`. -/
def pngTailCount (ncols : Nat) : Nat := if pngNb ncols = 0 then 8 else pngNb ncols

/-- The bytes `row[0 .. ]` that `mzd_to_png` has filled when it calls `png_write_row`, for a row whose words
are the 64-bit pieces of `row` (`ncols ≥ 1`; for `ncols = 0` libpng rejects the IHDR before this point).
First loop: `width-1` whole words, 8 bytes each; then the tail `switch` on the last word. -/
def pngPackRow (row ncols : Nat) : List Nat :=
  let width := widthOf ncols
  let full := (List.range (width - 1)).flatMap fun j => (List.range 8).map fun k => byteOf (wordOf row j) k
  let tail := (List.range (pngTailCount ncols)).map fun k => byteOf (wordOf row (width - 1)) k
  full ++ tail

/-- what ends up in the file for this row -/
def pngFileRow (row ncols : Nat) : List Nat := writeTransforms (pngPackRow row ncols)

/-! ## 3. `mzd_from_png`: one row -/

/-- `(word)row[q]` (`png_byte`, total read: 0 outside the list; the reads are proved to stay inside) -/
def bufGet (buf : List Nat) (q : Nat) : Word := BitVec.ofNat 64 (buf.getD q 0 % 256)

/-- the 8-byte expression of the first loop -/
def fullWord (buf : List Nat) (j : Nat) : Word :=
  bufGet buf (8 * j + 7) <<< 56 ||| bufGet buf (8 * j + 6) <<< 48 ||| bufGet buf (8 * j + 5) <<< 40 |||
  bufGet buf (8 * j + 4) <<< 32 ||| bufGet buf (8 * j + 3) <<< 24 ||| bufGet buf (8 * j + 2) <<< 16 |||
  bufGet buf (8 * j + 1) <<< 8 ||| bufGet buf (8 * j + 0) <<< 0

/-- the fall-through `switch`: `cnt` statements `tmp |= ((word)row[8j + c]) << 8c` for `c = cnt-1, …, 0` -/
def tailOr (buf : List Nat) (j : Nat) : Nat → Word → Word
  | 0, tmp => tmp
  | c + 1, tmp => tailOr buf j c (tmp ||| bufGet buf (8 * j + c) <<< (8 * c))

/-- buffer indices the reader touches for one row (for the in-bounds statement) -/
def pngReadIdxs (ncols : Nat) : List Nat :=
  let width := widthOf ncols
  ((List.range (width - 1)).flatMap fun j => (List.range 8).map fun k => 8 * j + k) ++
  (List.range (pngTailCount ncols)).map fun k => 8 * (width - 1) + k

/-- The row `mzd_from_png` builds from the bytes libpng delivered (after the read transforms):
`rowa[j] = ~tmp` for the whole words, `rowa[width-1] |= ~tmp & high_bitmask` (the word is 0 before: fresh
`mzd_init`). -/
def pngUnpackRow (bytes : List Nat) (ncols : Nat) : Nat :=
  let width := widthOf ncols
  let hb := leftMask (ncols % 64)
  let full : Array Word := (Array.range (width - 1)).map fun j => ~~~ (fullWord bytes j)
  let tmp := tailOr bytes (width - 1) (pngTailCount ncols) 0
  let last : Word := 0 ||| (~~~ tmp &&& hb)
  packWords (full.push last)

/-- whole matrix: the rows stored in the file / read back -/
def toPngRows (A : BMat) : List (List Nat) := (List.range A.nrows).map fun i => pngFileRow (A.row i) A.ncols

/-- the row buffer of `mzd_from_png` is `calloc`ed; its padding bits are never written (see `pngCombineRow`),
so for every row `png_read_row` combines into a buffer whose padding bits are 0 -/
def fromPngRows (m n : Nat) (rows : List (List Nat)) : BMat :=
  ⟨m, n, (Array.range m).map fun i =>
    pngUnpackRow (pngReadRow n (List.replicate (n / 8 + 1) 0) (rows.getD i [])) n⟩

/-! ### header checks and buffer size of `mzd_from_png` -/

structure PngHdr where
  width : Nat
  height : Nat
  bitDepth : Nat
  channels : Nat
  colorType : Nat
  interlace : Nat
deriving Repr, DecidableEq

/-- the checks `mzd_from_png` makes after `png_read_info`, in source order: not interlaced; colour type 0
(gray) or 3 (palette); `bit_depth == 1 && channels == 1` (the last one added by the repair "mzd_from_png
rejects images that are not 1 bit per pixel"; it precedes `mzd_init` and the allocation of the row
buffer). A rejected file makes the function return `NULL`. -/
def pngAccept (h : PngHdr) : Bool :=
  h.interlace == 0 && (h.colorType == 0 || h.colorType == 3) && (h.bitDepth == 1 && h.channels == 1)

/-- `PNG_ROWBYTES(pixel_depth, width)`: the number of bytes `png_read_row` stores into the caller's buffer
(PACKSWAP does not change the pixel depth). -/
def pngRowbytes (h : PngHdr) : Nat := (h.width * (h.bitDepth * h.channels) + 7) / 8

/-- `m4ri_mm_calloc(sizeof(char), n / 8 + 1)` -/
def pngRowBuf (h : PngHdr) : Nat := h.width / 8 + 1

/-- headers libpng itself lets through for the two accepted colour types -/
def pngValidHdr (h : PngHdr) : Bool :=
  h.width ≥ 1 && h.height ≥ 1 && h.channels == 1 &&
  ((h.colorType == 0 && (h.bitDepth == 1 || h.bitDepth == 2 || h.bitDepth == 4 || h.bitDepth == 8 || h.bitDepth == 16)) ||
   (h.colorType == 3 && (h.bitDepth == 1 || h.bitDepth == 2 || h.bitDepth == 4 || h.bitDepth == 8)))

/-! ## 4. `mzd_from_str` -/

/-- `__M4RI_WRITE_BIT(w, j, v)` on a row kept as a `Nat`: clear bit `j`, then or in `v << j` -/
def writeBit (acc j : Nat) (v : Bool) : Nat :=
  let cleared := acc ^^^ (acc &&& (1 <<< j))
  if v then cleared ||| (1 <<< j) else cleared

/-- inner loop `for j < ncols: write_bit(A, i, j, str[idx++] == '1')`; `k` = columns still to do.
The string is the C byte string (UTF-8 bytes); the terminating NUL is read as 0; reading further is
outside the model (C: undefined), see `fromStrInBounds`. Returns the row and the advanced `idx`. -/
def fromStrCols (bs : Array UInt8) (n : Nat) : Nat → Nat → Nat → Nat × Nat
  | 0, idx, acc => (acc, idx)
  | k + 1, idx, acc => fromStrCols bs n k (idx + 1) (writeBit acc (n - (k + 1)) (bs.getD idx 0 == 49))

/-- outer loop; `k` = rows still to do -/
def fromStrRows (bs : Array UInt8) (n : Nat) : Nat → Nat → Array Nat → Array Nat
  | 0, _, rows => rows
  | k + 1, idx, rows =>
    let (r, idx') := fromStrCols bs n n idx 0
    fromStrRows bs n k idx' (rows.push r)

def fromStr (m n : Nat) (s : String) : BMat := ⟨m, n, fromStrRows s.toUTF8.data n m 0 #[]⟩

/-- all `m·n` reads stay inside the string -/
def fromStrInBounds (m n : Nat) (s : String) : Bool := m * n ≤ s.toUTF8.data.size

/-! ## 5. `mzd_from_jcf` -/

inductive JErr where
  /-- the function returns `NULL` (`fscanf` did not deliver four header numbers, or `p ≠ 2`) -/
  | null
  /-- `m4ri_die` -/
  | die
  /-- the C code performs `mzd_write_bit(A, r, c, 1)` with `(r, c)` outside `[0,m) × [0,n)`
  (unreachable in the repaired code: theorem `jcf_safe_full`) -/
  | oob (r c : Int)
  /-- header with a negative dimension: `mzd_init` on it is not modelled (allocator failure → `m4ri_die`,
  or a header-only object); in that situation the loop below can only `die` (its guard is always true) -/
  | negdims
deriving Repr, DecidableEq, Inhabited

def JErr.toString : JErr → String
  | .null => "null"
  | .die => "die"
  | .oob r c => s!"oob-write {r} {c}"
  | .negdims => "negdims"

/-- the checked store: `mzd_write_bit(A, i, c, 1)` -/
def checkedSet (A : BMat) (i c : Int) : Except JErr BMat :=
  if 0 ≤ i ∧ i < A.nrows ∧ 0 ≤ c ∧ c < A.ncols then
    .ok (A.setRow i.toNat (writeBit (A.row i.toNat) c.toNat true))
  else .error (.oob i c)

/-- `while (fscanf(fh, "%ld\n", &j) == 1) { if (j < 0) { i++, j = -j; }
      if (((j - 1) >= n) || ((j - 1) < 0) || (i >= m) || (i < 0)) m4ri_die(…);
      mzd_write_bit(A, i, j - 1, 1); }`
The list holds the integers the successive `fscanf` calls deliver (the loop ends at EOF or at the first
token that is not an integer). The two lower-bound tests were added by the repair "mzd_from_jcf checks the
lower bounds of row and column indices too"; the store stays a CHECKED store, so the safety theorem is
about this guard, not about the store. -/
def jcfLoop (m n : Int) : Int → BMat → List Int → Except JErr BMat
  | _, A, [] => .ok A
  | i, A, t :: ts =>
    let i' := if t < 0 then i + 1 else i
    let j := if t < 0 then -t else t
    if j - 1 ≥ n ∨ j - 1 < 0 ∨ i' ≥ m ∨ i' < 0 then .error .die
    else match checkedSet A i' (j - 1) with
      | .error e => .error e
      | .ok A' => jcfLoop m n i' A' ts

/-- `mzd_from_jcf` on the integer tokens of the file: header `m n p nnz` (`nnz` is only printed, it does
NOT bound the loop), `p ≠ 2` → `NULL`, then `A = mzd_init(m, n)`, `i = -1` and the loop. -/
def jcfRun : List Int → Except JErr BMat
  | m :: n :: p :: _nnz :: body =>
    if p ≠ 2 then .error .null
    else if m < 0 ∨ n < 0 then .error .negdims
    else jcfLoop m n (-1) (BMat.zero m.toNat n.toNat) body
  | _ => .error .null

def jcfParse (toks : List Int) : Except String BMat :=
  match jcfRun toks with
  | .ok A => .ok A
  | .error e => .error e.toString

/-! ## 6. driver entry -/

/-- hex of an arbitrary-size natural number -/
def natHex (n : Nat) : String := String.ofList (Nat.toDigits 16 n)

def byteHex (b : Nat) : String := String.ofList [hexChar (b / 16 % 16), hexChar (b % 16)]

def bytesHex (bs : List Nat) : String := String.join (bs.map byteHex)

/-- two hex digits per byte, first byte first -/
def parseBytes (s : String) : Option (List Nat) :=
  let rec go : List Char → Option (List Nat)
    | [] => some []
    | a :: b :: rest =>
      match hexDigit a, hexDigit b, go rest with
      | some x, some y, some r => some ((x * 16 + y) :: r)
      | _, _, _ => none
    | _ => none
  go s.toList

def showBMat (A : BMat) : String :=
  (List.range A.nrows).foldl (fun acc i => acc ++ " " ++ natHex (A.row i)) s!"ok {A.nrows} {A.ncols}"

/-- ops:
  `png_row ncols rowhex`        → bytes handed to `png_write_row` (hex, 2 digits per byte)
  `png_file_row ncols rowhex`   → bytes stored in the file (after the write transforms)
  `png_unrow ncols hexbytes`    → row built from the bytes `png_read_row` delivered (after read transforms)
  `png_file_unrow ncols hexbytes` → row built from the bytes stored in the file (read transform, no combine)
  `png_deliver ncols hexbytes`  → bytes `png_read_row` leaves in the zeroed row buffer for the stored bytes
  `png_read_row ncols hexbytes` → row built by `mzd_from_png` from the stored bytes (transform + combine)
  `png_hdr w h depth channels colortype interlace` → `reject` | `accept rowbytes bufsize`
  `jcf t0 t1 …`                 → `ok m n rowhex…` | `null` | `die` | `oob-write r c` | `negdims`
  `from_str m n text`           → `ok m n rowhex…` -/
def runIo (op : String) (args : List String) : String :=
  let natArg (k : Nat) : Option Nat := (args.getD k "").toNat?
  let hexArg (k : Nat) : Option Nat := parseHex (args.getD k "")
  match op with
  | "png_row" =>
    match natArg 0, hexArg 1 with
    | some n, some r => bytesHex (pngPackRow r n)
    | _, _ => "bad-args"
  | "png_file_row" =>
    match natArg 0, hexArg 1 with
    | some n, some r => bytesHex (pngFileRow r n)
    | _, _ => "bad-args"
  | "png_unrow" =>
    match natArg 0, parseBytes (args.getD 1 "") with
    | some n, some bs => natHex (pngUnpackRow bs n)
    | _, _ => "bad-args"
  | "png_file_unrow" =>
    match natArg 0, parseBytes (args.getD 1 "") with
    | some n, some bs => natHex (pngUnpackRow (readTransforms bs) n)
    | _, _ => "bad-args"
  | "png_deliver" =>
    match natArg 0, parseBytes (args.getD 1 "") with
    | some n, some bs => bytesHex (pngReadRow n (List.replicate (n / 8 + 1) 0) bs)
    | _, _ => "bad-args"
  | "png_read_row" =>
    match natArg 0, parseBytes (args.getD 1 "") with
    | some n, some bs => natHex (pngUnpackRow (pngReadRow n (List.replicate (n / 8 + 1) 0) bs) n)
    | _, _ => "bad-args"
  | "png_hdr" =>
    match natArg 0, natArg 1, natArg 2, natArg 3, natArg 4, natArg 5 with
    | some w, some h, some d, some c, some t, some il =>
      let hdr : PngHdr := ⟨w, h, d, c, t, il⟩
      if pngAccept hdr then s!"accept {pngRowbytes hdr} {pngRowBuf hdr}" else "reject"
    | _, _, _, _, _, _ => "bad-args"
  | "jcf" =>
    match args.mapM String.toInt? with
    | some toks =>
      match jcfParse toks with
      | .ok A => showBMat A
      | .error e => e
    | none => "bad-args"
  | "from_str" =>
    match natArg 0, natArg 1 with
    | some m, some n => showBMat (fromStr m n (args.getD 2 ""))
    | _, _ => "bad-args"
  | _ => "bad-op"

end M4ri.Io
