/-
  Access-trace model, part 2 (property C11): the kernels not covered by `M4ri/Safety.lean`.
  Same conventions (see the header of `M4ri/Safety.lean`): an `Access` is (operand, row, word index in the row,
  read/write, 16-byte vector?), loops are closed forms, data-dependent control flow takes the data it depends
  on as a function argument.  Core Lean only.

  1. `mzd_process_rows2 … mzd_process_rows6`            (brilliantrussian.c)
  2. the permutation kernels of mzp.c: `mzd_apply_p_left(_trans)`, `mzd_col_swap`, `_mzd_apply_p_right_even`
     (= `mzd_apply_p_right(_trans)(_even_capped)`) with `mzd_write_col_to_rows_blockd`, `mzd_apply_p_right_trans_tri`,
     `_mzd_compress_l`
  3a. the PLE kernels of ple_russian.c / ple_russian_template.h (`_mzd_process_rows_ple_N`, `_mzd_ple_a11_N`, `_mzd_ple_a11_1`,
     `_mzd_ple_a10`, `mzd_make_table_ple`)
  3b. triangular_russian.c (`_mzd_trsm_{upper,lower}_left_submatrix`, `mzd_make_table_trtri`, the russian TRSM routines and
     `_mzd_trtri_upper_submatrix` as compositions)
  4. the transposition kernels of mzd.c up to `mzd_transpose`
  (each later part starts with its own header comment)
-/
import M4ri.Safety
namespace M4ri.Safety
/-! ## 1. `mzd_process_rows2..6` (brilliantrussian.c:352-603)

    Operand 0 = `M`, operand `j+1` = `T_j` (`j < N`).  For every row `r` in `[startrow, stoprow)`:
    `bits = mzd_read_bits(M, r, startcol, k)`; `x_j = L_j[bits-slice j]`; if all `x_j` are 0 the row is skipped;
    otherwise `_mzd_combine_N(mzd_row(M, r) + blocknum, {mzd_row(T_j, x_j) + blocknum}, wide)` with
    `blocknum = startcol / 64`, `wide = M->width - blocknum`.
    The data-dependent part is the parameter `x r j` = the table row of `T_j` selected for row `r`.
    (The reads of the `rci_t` arrays `L_j` are not matrix accesses and are not recorded.) -/

/-- the split `ka, kb, …` of `k` among the `N` tables, in the order the C code consumes the bits
    (NB: for `N = 2` the FIRST part is the small one, `ka = k/2`, `kb = k - k/2`; for `N ≥ 3` the first
    parts are the large ones) -/
def kSplit (N k : Nat) : List Nat :=
  if N = 2 then [k / 2, k - k / 2]
  else (List.range N).map fun j => k / N + (if j + 1 < N ∧ k % N ≥ N - 1 - j then 1 else 0)

def accProcessRowsN (hM : Hdr) (N startrow stoprow startcol k : Nat) (x : Nat → Nat → Nat) : List Access :=
  let block : Int := (startcol : Int) / 64
  let wide : Int := hM.width - block
  forI startrow stoprow (fun r =>
    accReadBits r.toNat startcol k ++
    (if ∀ j, j < N → x r.toNat j = 0 then []
     else accCombineN hM.phase N ⟨r.toNat, block⟩ (fun j => ⟨x r.toNat j, block⟩) wide.toNat))

/-- shift counts: `mzd_read_bits`, the `N` masks `__M4RI_LEFT_BITMASK(k_j) = ffff >> (64 - k_j) % 64`,
    and the `N - 1` shifts `bits >>= k_j` -/
def shProcessRowsN (N startcol k : Nat) : List Int :=
  shReadBits startcol k ++
  (kSplit N k).map (fun (kj : Nat) => (64 - (kj : Int)) % 64) ++
  ((kSplit N k).take (N - 1)).map (fun (kj : Nat) => (kj : Int))

/-! ## 2. mzp.c: row and column permutations

    A permutation `mzp_t` is given by its `length` and the function `P i = P->values[i]` (LAPACK style: position
    `i` is swapped with position `P i`).  The `rci_t` arrays (`P->values`, `permutation`) and the `word` array
    `write_mask` are not matrix operands; accesses to them are not recorded. -/

/-- `mzd_apply_p_left(A, P)`: `for (i = 0; i < MIN(P->length, A->nrows); ++i) mzd_row_swap(A, i, P->values[i])`.
    Operand 0 = `A`. -/
def accApplyPLeft (hA : Hdr) (plen : Nat) (P : Nat → Nat) : List Access :=
  if hA.ncols = 0 then [] else
  let length : Int := min (plen : Int) hA.nrows
  forI 0 length (fun i => accRowSwap hA i.toNat (P i.toNat) 0)

/-- `mzd_apply_p_left_trans(A, P)`: the same swaps in the opposite order, `i = length - 1, …, 0` -/
def accApplyPLeftTrans (hA : Hdr) (plen : Nat) (P : Nat → Nat) : List Access :=
  if hA.ncols = 0 then [] else
  let length : Int := min (plen : Int) hA.nrows
  forI 0 length (fun ii => let i := length - 1 - ii; accRowSwap hA i.toNat (P i.toNat) 0)

/-- `mzd_col_swap(M, cola, colb)` = `mzd_col_swap_in_rows(M, cola, colb, 0, M->nrows)` (mzd.h:424) -/
def accColSwap (hM : Hdr) (cola colb : Nat) : List Access := accColSwapInRows cola colb 0 hM.nrows
def shColSwap (cola colb : Nat) : List Int := shColSwapInRows cola colb

/-- one step `t = p[a]; p[a] = p[b]; p[b] = t` on the array `permutation` (as a function) -/
def swapAt (p : Nat → Nat) (a b : Nat) : Nat → Nat :=
  fun i => if i = b then p a else if i = a then p b else p i

/-- the "mathematical permutation" set up by `_mzd_apply_p_right_even` (mzp.c:203-218): starting from the
    identity, `!notrans`: for `i = start_col .. length-1` swap entries `i` and `P i`;
    `notrans`: the same for `i' = length - i - 1`, i.e. downwards from `length - start_col - 1` to `0`. -/
def mathPerm (length start_col : Nat) (P : Nat → Nat) (notrans : Bool) : Nat → Nat :=
  (List.range (length - start_col)).foldl
    (fun p n => let i := if notrans then length - (start_col + n) - 1 else start_col + n
                swapAt p i (P i))
    (fun i => i)

/-- `mzd_write_col_to_rows_blockd(A, B, permutation, write_mask, start_row, stop_row, length)` (mzp.c:85-186).
    Operand 0 = `A`, operand 1 = `B` (the copy of the strip, row `r - start_row`).
    `skip blk` = the test `write_mask[blk] == m4ri_ffff` ("identity on this word").
    For every other word `blk` of `A` and every row: `todo = MIN(64, length - 64 blk)` gathered reads
    `Brow[permutation[64 blk + k] / 64]`, `k = todo-1 … 0` (the 64-case fall-through `switch`), then
    `Arow[blk] |= value`. -/
def accWriteColToRowsBlockd (perm : Nat → Nat) (skip : Nat → Bool) (start_row stop_row length : Int) : List Access :=
  forI 0 ((length + 63) / 64) (fun blk =>
    if skip blk.toNat then [] else
    let todo : Int := min 64 (length - 64 * blk)
    forI start_row stop_row (fun r =>
      forI 0 todo (fun kk =>
        let k := todo - 1 - kk
        [rd 1 (r - start_row).toNat ((perm (64 * blk + k).toNat : Int) / 64)]) ++
      [rd 0 r.toNat blk, wr 0 r.toNat blk]))

/-- `step_size = MIN(A->nrows - start_row, MAX((__M4RI_CPU_L1_CACHE >> 3) / A->width, 1))` (mzp.c:197);
    `L1` = the configured L1 cache size in bytes (C `int` division: `A->width = 0` would be a division by 0) -/
def stepSize (hA : Hdr) (L1 start_row : Nat) : Int :=
  min ((hA.nrows : Int) - start_row) (max (((L1 : Int) / 8) / (hA.width : Int)) 1)

/-- the word `blk` of `write_mask` is all ones: every column of the word is a fixed point of the permutation
    (the bits beyond `ncols` in the last word are set by `write_mask[width-1] |= ~A->high_bitmask`) -/
def maskFull (ncols : Nat) (perm : Nat → Nat) (blk : Nat) : Bool :=
  (List.range (min 64 (ncols - 64 * blk))).all fun k => perm (64 * blk + k) = 64 * blk + k

/-- `_mzd_apply_p_right_even(A, P, start_row, start_col, notrans)` given the mathematical permutation `perm`
    it has computed.  Operand 0 = `A`, operand 1 = the temporary `B = mzd_init(step_size, A->ncols)`.
    Strips of `step_size` rows (the last one shorter): copy the strip to `B` and clear in `A` the bits that will be
    rewritten (`Brow[j] = Arow[j]; Arow[j] = Arow[j] & write_mask[j]`), then gather. -/
def accApplyPRightEvenPerm (hA : Hdr) (L1 : Nat) (perm : Nat → Nat) (start_row : Nat) : List Access :=
  let nrows : Int := hA.nrows
  let width : Int := hA.width
  if nrows - start_row = 0 then [] else
  let step0 := stepSize hA L1 start_row
  let nstrips := (nrows - start_row + step0 - 1) / step0
  forI 0 nstrips (fun s =>
    let i := start_row + s * step0
    let step := min step0 (nrows - i)
    forI 0 step (fun k => forI 0 width (fun j =>
      [rd 0 (i + k).toNat j, wr 1 k.toNat j, rd 0 (i + k).toNat j, wr 0 (i + k).toNat j])) ++
    accWriteColToRowsBlockd perm (maskFull hA.ncols perm) i (i + step) hA.ncols)

/-- `_mzd_apply_p_right_even(A, P, start_row, start_col, notrans)`; `plen = P->length`, `P i = P->values[i]`.
    `mzd_apply_p_right_trans(A, P)` is `start_row = start_col = 0, notrans = false`;
    `mzd_apply_p_right(A, P)` is `start_row = start_col = 0, notrans = true`;
    `mzd_apply_p_right(_trans)_even_capped` pass `start_row`, `start_col` through. -/
def accApplyPRightEven (hA : Hdr) (L1 plen : Nat) (P : Nat → Nat) (start_row start_col : Nat) (notrans : Bool) :
    List Access :=
  accApplyPRightEvenPerm hA L1 (mathPerm (min plen hA.ncols) start_col P notrans) start_row

/-- shift counts of `_mzd_apply_p_right_even` + `mzd_write_col_to_rows_blockd`: `m4ri_one << k` (write mask),
    and per gathered bit `m4ri_one << bits[k]`, `>> bits[k]`, `<< k` with `bits[k] = permutation[i+k] % 64` -/
def shApplyPRightEvenPerm (hA : Hdr) (perm : Nat → Nat) : List Int :=
  forI 0 hA.width (fun blk =>
    let todo : Int := min 64 ((hA.ncols : Int) - 64 * blk)
    forI 0 todo (fun k => [k]) ++
    (if maskFull hA.ncols perm blk.toNat then [] else
      forI 0 todo (fun k => let b := (perm (64 * blk + k).toNat : Int) % 64; [b, b, k])))

/-- `mzd_apply_p_right_trans_tri(A, P)` (mzp.c:279-292; `assert(P->length == A->ncols)`): strips of
    `step_size = MAX((L1 >> 2) / A->width, 1)` rows; in strip `[r, row_bound)` column `i` is swapped with `P i`
    in the rows `[r, MIN(row_bound, i))`.  Operand 0 = `A`. -/
def accApplyPRightTransTri (hA : Hdr) (L1 : Nat) (P : Nat → Nat) : List Access :=
  let nrows : Int := hA.nrows
  let step : Int := max (((L1 : Int) / 4) / (hA.width : Int)) 1
  forI 0 ((nrows + step - 1) / step) (fun s =>
    let r := s * step
    let row_bound := min (r + step) nrows
    forI 0 hA.ncols (fun i =>
      accColSwapInRows i.toNat (P i.toNat) r.toNat (min row_bound i).toNat))
def shApplyPRightTransTri (hA : Hdr) (P : Nat → Nat) : List Int :=
  forI 0 hA.ncols (fun i => shColSwapInRows i.toNat (P i.toNat))

/-- `_mzd_compress_l(A, r1, n1, r2)` (mzp.c:294-400, the `#else` branch that is compiled).  Operand 0 = `A`.
    First `r2` column swaps `r1+t ↔ n1+t` in the rows `[r1+t, r1+r2)`; then every row `i ≥ r1+r2` has the `r2`
    bits from column `n1` moved to column `r1`: the rest of the word containing column `r1`
    (`mzd_read_bits` / `mzd_clear_bits` / `mzd_xor_bits` with `rest = 64 - r1 % 64` bits), whole words (one or two
    source words per destination word), the remaining bits, then the bits `[r1+r2, n1+r2)` are cleared
    (`mzd_clear_bits` to the end of the word, then whole words), and the excess bits of the last word restored. -/
def accCompressL (hA : Hdr) (r1 n1 r2 : Nat) : List Access :=
  if r1 = n1 then [] else
  forI 0 r2 (fun t => accColSwapInRows (r1 + t.toNat) (n1 + t.toNat) (r1 + t.toNat) (r1 + r2)) ++
  forI ((r1 : Int) + r2) hA.nrows (fun ii =>
    let i := ii.toNat
    let last : Int := (hA.width : Int) - 1
    let rest := 64 - r1 % 64
    let j0 := r1 + rest
    let block0 : Int := ((n1 + j0 - r1 : Nat) : Int) / 64
    let nfull : Int := max (((r1 : Int) + r2 - j0) / 64) 0     -- trips of `for (; j + 64 <= r1 + r2; j += 64, ++block)`
    let j1 := j0 + 64 * nfull.toNat
    let j2 := r1 + r2
    let j3 := j2 + (64 - j2 % 64)
    [rd 0 i last] ++
    accReadBits i n1 rest ++ accClearBits i r1 rest ++ accXorBits i r1 rest ++
    (if rest % 64 = 0 then
       forI 0 nfull (fun t => [rd 0 i (block0 + t), wr 0 i (((j0 : Int) + 64 * t) / 64)])
     else
       forI 0 nfull (fun t => [rd 0 i (block0 + t), rd 0 i (block0 + t + 1), wr 0 i (((j0 : Int) + 64 * t) / 64)])) ++
    (if j1 < r1 + r2 then accReadBits i (n1 + j1 - r1) (r1 + r2 - j1) ++ [wr 0 i ((j1 : Int) / 64)] else []) ++
    accClearBits i j2 (64 - j2 % 64) ++
    forI 0 (((n1 : Int) + r2 - j3 + 63) / 64) (fun t => [wr 0 i (((j3 : Int) + 64 * t) / 64)]) ++
    [rd 0 i last, wr 0 i last])
def shCompressL (r1 n1 r2 : Nat) : List Int :=
  if r1 = n1 then [] else
  let rest := 64 - r1 % 64
  let j0 := r1 + rest
  let nfull : Int := max (((r1 : Int) + r2 - j0) / 64) 0
  let j1 := j0 + 64 * nfull.toNat
  let j2 := r1 + r2
  forI 0 r2 (fun t => shColSwapInRows (r1 + t.toNat) (n1 + t.toNat)) ++
  shReadBits n1 rest ++ shClearBits r1 rest ++ shXorBits r1 rest ++
  (if rest % 64 = 0 ∨ nfull = 0 then [] else [(rest : Int), 64 - (rest : Int)]) ++
  (if j1 < r1 + r2 then shReadBits (n1 + j1 - r1) (r1 + r2 - j1) else []) ++
  shClearBits j2 (64 - j2 % 64)

/-!
  ################################################################################################

  Access-trace model, part 3a (property C11): the PLE kernels of ple_russian.c / ple_russian_template.h.
  Same conventions as `M4ri/Safety.lean` (see its header): an `Access` is (operand, row, word index in the row,
  read/write, 16-byte vector?), loops are closed forms, data-dependent control flow takes the data it depends
  on as a function argument.  Accesses to `int`/`rci_t` arrays (`E`, `M`, `k`, `pivots`, `P->values`, the code
  book) are not matrix accesses and are not recorded; the same holds for the `word` array `table->B`
  (a `m4ri_mm_malloc`ed array of `2^k` words indexed by a table row number, not a matrix operand).  Core Lean only.

  (a) `_mzd_process_rows_ple_N`, N = 2..8       (ple_russian_template.h:3-113; instantiated ple_russian.c:297-323)
  (b) `_mzd_ple_a11_N`, N = 2..8                (ple_russian_template.h:115-208), `_mzd_ple_a11_1` (ple_russian.c:347)
  (c) `_mzd_ple_a10`                            (ple_russian.c:325)
  (d) `mzd_make_table_ple`                      (ple_russian.c:191)
  There is no `_mzd_process_rows_ple_1` / template instance `N = 1`: `_mzd_ple_russian` uses `mzd_process_rows`
  and the hand-written `_mzd_ple_a11_1` for one table.
-/
/-- `mzd_xor_bits(M, x, y, n, values)` on operand `op` (`accXorBits` = the case `op = 0`) -/
def accXorBitsOp (op x y n : Nat) : List Access :=
  let spot : Int := (y : Int) % 64
  let block : Int := (y : Int) / 64
  let space : Int := 64 - spot
  [rd op x block, wr op x block] ++
  (if (n : Int) > space then [rd op x (block + 1), wr op x (block + 1)] else [])

/-! ## (a) `_mzd_process_rows_ple_N(M, startrow, stoprow, startcol, k[N], table[N])`

    Operand 0 = `M`, operand `j+1` = `table[j]->T` (`j < N`).  `ks` = the array `k[0..N-1]`, `N = ks.length`.
    For every row `r` in `[startrow, stoprow)`:
    `bits = mzd_read_bits(M, r, startcol, sh[N-1] + k[N-1])` (`= Σ k[j]` bits);
    `x_j = E_j[(bits >> sh[j]) & bm[j]]; bits ^= B_j[x_j]` for `j = 0..N-1`;
    `_mzd_combine_N(mzd_row(M, r) + block, {mzd_row(T_j, x_j) + block}, wide)` with `block = startcol / 64`,
    `wide = M->width - block`.  UNLIKE `mzd_process_rowsN` there is no "all `x_j` are 0" shortcut: every row is combined.
    The data-dependent part is the parameter `x r j` = the row of `T_j` selected for row `r`.
    (`wide` is a `wi_t`; the model uses `wide.toNat`, i.e. it is exact for `wide ≥ 0` — `startcol ≤ 64 * M->width`.) -/
def accProcessRowsPle (hM : Hdr) (ks : List Nat) (startrow stoprow startcol : Nat) (x : Nat → Nat → Nat) :
    List Access :=
  let block : Int := (startcol : Int) / 64
  let wide : Int := hM.width - block
  forI startrow stoprow (fun r =>
    accReadBits r.toNat startcol ks.sum ++
    accCombineN hM.phase ks.length ⟨r.toNat, block⟩ (fun j => ⟨x r.toNat j, block⟩) wide.toNat)

/-- the masks `bm[j] = __M4RI_LEFT_BITMASK(k[j]) = ffff >> (64 - k[j]) % 64` computed before the row loop -/
def shPleMasks (ks : List Nat) : List Int := ks.map fun (kj : Nat) => (64 - (kj : Int)) % 64
/-- the shifts `bits >> sh[j]`, `sh[j] = k[0] + … + k[j-1]`, `j = 0..N-1`, done for every row -/
def shPleIdx (ks : List Nat) : List Int := (List.range ks.length).map fun j => (((ks.take j).sum : Nat) : Int)

def shProcessRowsPle (ks : List Nat) (startrow stoprow startcol : Nat) : List Int :=
  shPleMasks ks ++ (if startrow < stoprow then shReadBits startcol ks.sum ++ shPleIdx ks else [])

/-! ## (b) `_mzd_ple_a11_N(A, start_row, stop_row, start_col, block, k[N], table[N])`, `_mzd_ple_a11_1`

    Operand 0 = `A`, operand `j+1` = `table[j]->T`.  `wide = A->width - block`; returns at once when `wide ≤ 0`.
    For every row `i`: `bits = mzd_read_bits(A, i, start_col, Σ k[j])`; `x_j = M_j[(bits >> sh[j]) & bm[j]]`
    (no update of `bits`); `_mzd_combine_N(mzd_row(A, i) + block, {mzd_row(T_j, x_j) + block}, wide)`.
    NB `block` is a parameter of its own (the caller passes `splitblock`, not `start_col / 64`). -/
def accPleA11N (hA : Hdr) (ks : List Nat) (start_row stop_row start_col block : Nat) (x : Nat → Nat → Nat) :
    List Access :=
  let wide : Int := hA.width - block
  if wide ≤ 0 then [] else
  forI start_row stop_row (fun i =>
    accReadBits i.toNat start_col ks.sum ++
    accCombineN hA.phase ks.length ⟨i.toNat, block⟩ (fun j => ⟨x i.toNat j, block⟩) wide.toNat)

def shPleA11N (hA : Hdr) (ks : List Nat) (start_row stop_row start_col block : Nat) : List Int :=
  let wide : Int := hA.width - block
  if wide ≤ 0 then [] else
  shPleMasks ks ++ (if start_row < stop_row then shReadBits start_col ks.sum ++ shPleIdx ks else [])

/-- `_mzd_ple_a11_1(A, start_row, stop_row, start_col, addblock, k, T0)` (hand-written, ple_russian.c:347):
    `x0 = T0->M[mzd_read_bits_int(A, i, start_col, k)]`, then the TWO-operand `_mzd_combine(t, s0, wide)` of xor.h.
    Operand 0 = `A`, operand 1 = `T0->T`; `x i` = the table row selected for row `i`. -/
def accPleA11_1 (hA : Hdr) (start_row stop_row start_col addblock k : Nat) (x : Nat → Nat) : List Access :=
  let wide : Int := hA.width - addblock
  if wide ≤ 0 then [] else
  forI start_row stop_row (fun i =>
    accReadBits i.toNat start_col k ++
    accCombine hA.phase ⟨i.toNat, addblock⟩ ⟨x i.toNat, addblock⟩ wide.toNat)

def shPleA11_1 (hA : Hdr) (start_row stop_row start_col addblock k : Nat) : List Int :=
  let wide : Int := hA.width - addblock
  if wide ≤ 0 then [] else if start_row < stop_row then shReadBits start_col k else []

/-! ## (c) `_mzd_ple_a10(A, P, start_row, start_col, addblock, k, pivots)`

    Operand 0 = `A`.  Returns at once when `addblock == A->width` (NB `==`, not `>=`).
    Then `_mzd_row_swap(A, i, P->values[i], addblock)` for `i` in `[start_row, start_row + k)`, and for `i = 1..k-1`:
    `tmp = mzd_read_bits(A, start_row + i, start_col, pivots[i])`; for `j < i` with bit `pivots[j]` of `tmp` set:
    `for (w = addblock; w < A->width; ++w) target[w] ^= source[w]` (rows `start_row + i`, `start_row + j`).
    Data: `p i = P->values[i]`, `piv i = pivots[i]`, `b i j` = the bit test for the pair `(i, j)`. -/
def accPleA10 (hA : Hdr) (start_row start_col addblock k : Nat) (p : Nat → Nat) (piv : Nat → Nat)
    (b : Nat → Nat → Bool) : List Access :=
  if (addblock : Int) = hA.width then [] else
  forI start_row ((start_row : Int) + k) (fun i => accRowSwap hA i.toNat (p i.toNat) addblock) ++
  forI 1 k (fun i =>
    accReadBits (start_row + i.toNat) start_col (piv i.toNat) ++
    forI 0 i (fun j =>
      if b i.toNat j.toNat then
        forI addblock hA.width (fun w =>
          [rd 0 (start_row + i.toNat) w, rd 0 (start_row + j.toNat) w, wr 0 (start_row + i.toNat) w])
      else []))

/-- shift counts: `mzd_read_bits(…, pivots[i])` and `m4ri_one << pivots[j]` -/
def shPleA10 (hA : Hdr) (start_col addblock k : Nat) (piv : Nat → Nat) : List Int :=
  if (addblock : Int) = hA.width then [] else
  forI 1 k (fun i => shReadBits start_col (piv i.toNat) ++ forI 0 i (fun j => [((piv j.toNat : Nat) : Int)]))

/-! ## (d) `mzd_make_table_ple(A, r, writecol, k, knar, table, offsets, base, readcol, fullrank)`

    Operand 0 = `A` (read), operand 1 = `table->T` (written).  `writeblock = writecol / 64`, `readblock = readcol / 64`,
    `wide = T->width - writeblock` (the width of `T`, not of `A`, drives the loop).  For `i = 1 .. 2^knar - 1`:
    `mzd_row(T, i)[readblock] = 0`; then an UNGUARDED Duff's device (`duff wide` steps) `*ti++ = *a++ ^ *ti1++` with
    `a = mzd_row(A, r + inc[i-1]) + writeblock` (`inc = m4ri_codebook[knar]->inc`) and the running pointers
    `ti1`/`ti` (rows `i-1`/`i` of `T` from `writeblock`; `ti += writeblock + rowstride - width` assumes exactly `wide`
    steps were done — if not, the pointers drift by `duff wide - wide` words per row, which the model reproduces);
    if `fullrank`: `E[mzd_read_bits_int(T, i, writecol, k)] = i`.
    If `fullrank`, a second loop: `mzd_xor_bits(T, i, writecol, k, fix); B[i] = mzd_read_bits(T, i, readcol, MIN(64, T->ncols - readcol))`.
    The stores to `M[…]`, `E[…]`, `B[…]` are not recorded. -/
def accMakeTablePle (hT : Hdr) (r writecol k knar readcol : Nat) (fullrank : Bool) (inc : Nat → Nat) :
    List Access :=
  let wb : Int := (writecol : Int) / 64
  let rb : Int := (readcol : Int) / 64
  let wide : Int := hT.width - wb
  let n := duff wide
  let drift := n - wide
  let twokay : Int := (2 ^ knar : Nat)
  let btr : Int := min 64 ((hT.ncols : Int) - readcol)
  forI 1 twokay (fun i =>
    let o := (i - 1) * drift
    [wr 1 i.toNat rb] ++
    forI 0 n (fun u => [rd 0 (r + inc (i.toNat - 1)) (wb + u), rd 1 (i.toNat - 1) (wb + o + u), wr 1 i.toNat (wb + o + u)]) ++
    (if fullrank then accReadBitsOp 1 i.toNat writecol k else [])) ++
  (if fullrank then
    forI 1 twokay (fun i => accXorBitsOp 1 i.toNat writecol k ++ accReadBitsOp 1 i.toNat readcol btr.toNat)
   else [])

/-- shift counts: `__M4RI_TWOPOW(knar)`; per table row, if `fullrank`: `mzd_read_bits_int(T, i, writecol, k)`,
    `mzd_xor_bits(T, i, writecol, k, ·)`, `mzd_read_bits(T, i, readcol, bits_to_read)`; otherwise the
    `<< (Q[j] - j - base)` of `m4ri_spread_bits(·, offsets, knar, base)`, `j < knar` (`offs j = offsets[j]`). -/
def shMakeTablePle (hT : Hdr) (writecol k knar readcol : Nat) (fullrank : Bool) (base : Nat) (offs : Nat → Nat) :
    List Int :=
  let btr : Int := min 64 ((hT.ncols : Int) - readcol)
  [(knar : Int)] ++
  (if 1 ≤ knar then
    (if fullrank then shReadBits writecol k ++ shXorBits writecol k ++ shReadBits readcol btr.toNat
     else (List.range knar).map fun j => ((offs j : Nat) : Int) - j - base)
   else [])

/-!
  ################################################################################################

  Access-trace model, part 3b (property C11): the kernels of `triangular_russian.c`.
  Same conventions as `M4ri/Safety.lean` / `M4ri/Safety2.lean`: an `Access` is (operand, row, word index in the
  row, read/write, 16-byte vector?), loops are closed forms, data-dependent control flow takes the data it
  depends on as a function argument.  Core Lean only.

  (a) `_mzd_trsm_upper_left_submatrix`, `_mzd_trsm_lower_left_submatrix`   (triangular_russian.c:14-48, 170-204)
  (b) `mzd_make_table_trtri`                                               (triangular_russian.c:322-374)
  (c) the table-lookup glue of `_mzd_trsm_upper_left_russian` / `_mzd_trsm_lower_left_russian`
      (triangular_russian.c:50-168, 206-320) and `_mzd_trtri_upper_submatrix` (378-382)
-/
/-! ## (a) `_mzd_trsm_upper_left_submatrix(U, B, start_row, k, mask_end)` and
        `_mzd_trsm_lower_left_submatrix(L, B, start_row, k, mask_end)`

    Operand 0 = `U` (resp. `L`), operand 1 = `B`.
    Both test `k(k-1)/2` bits of the triangular matrix with `mzd_read_bit` and, where the bit is set, add one row
    of `B` to another one with a HAND-WRITTEN, purely scalar loop (no call of `mzd_row_add`/`mzd_combine…`, no
    SSE2 path): `for (ii = 0; ii + 8 <= B->width - 1; ii += 8) { 8 × *a++ ^= *b++ }` followed by a fall-through
    `switch (B->width - ii)` with cases `8 … 1`, the last word masked with the PARAMETER `mask_end`
    (so no shift is computed here; the only variable shift count is the `col % 64` of `mzd_read_bit`).
    The data-dependent part is `u row col` = bit `(row, col)` of `U` (resp. `L`). -/

/-- the row addition `B[a] ^= B[b]` of the two submatrix kernels (all words `0 .. width-1`, every access scalar) -/
def trsmRowAdd (hB : Hdr) (a b : Nat) : List Access :=
  let width : Int := hB.width
  let n8 := max ((width - 1) / 8) 0            -- trips of `for (ii = 0; ii + 8 <= width - 1; ii += 8)`
  let rest := width - 8 * n8                   -- `switch (B->width - ii)`: only `1..8` match a `case`
  let step := fun (o : Int) => [rd 1 b o, rd 1 a o, wr 1 a o]
  forI 0 n8 (fun g => forI 0 8 (fun u => step (8 * g + u))) ++
  (if 1 ≤ rest ∧ rest ≤ 8 then forI 0 rest (fun u => step (8 * n8 + u)) else [])

/-- `_mzd_trsm_upper_left_submatrix`: for `i < k`, `j < i`:
    `if (mzd_read_bit(U, start_row + (k-i-1), start_row + (k-i) + j)) B[start_row + (k-i-1)] ^= B[start_row + (k-i) + j]` -/
def accTrsmUpperLeftSubmatrix (hB : Hdr) (start_row k : Nat) (u : Nat → Nat → Bool) : List Access :=
  forI 0 k (fun i => forI 0 i (fun j =>
    let r := start_row + (k - i.toNat - 1)
    let c := start_row + (k - i.toNat) + j.toNat
    accReadBit r c ++ (if u r c then trsmRowAdd hB r c else [])))
def shTrsmUpperLeftSubmatrix (start_row k : Nat) : List Int :=
  forI 0 k (fun i => forI 0 i (fun j => shReadBit (start_row + (k - i.toNat) + j.toNat)))

/-- `_mzd_trsm_lower_left_submatrix`: for `i < k`, `j < i`:
    `if (mzd_read_bit(L, start_row + i, start_row + j)) B[start_row + i] ^= B[start_row + j]` -/
def accTrsmLowerLeftSubmatrix (hB : Hdr) (start_row k : Nat) (u : Nat → Nat → Bool) : List Access :=
  forI 0 k (fun i => forI 0 i (fun j =>
    let r := start_row + i.toNat
    let c := start_row + j.toNat
    accReadBit r c ++ (if u r c then trsmRowAdd hB r c else [])))
def shTrsmLowerLeftSubmatrix (start_row k : Nat) : List Int :=
  forI 0 k (fun i => forI 0 i (fun j => shReadBit (start_row + j.toNat)))

/-! ## (b) `mzd_make_table_trtri(M, r, c, k, Tb, startcol)`

    Operand 0 = `M`, operand 1 = `Tb->T`.  The writes to the `rci_t` array `Tb->E` (`L[0] = 0`, `L[ord[i]] = i`),
    the reads of the code book and the writes to the WORD array `Tb->B` (`Tb->B[i] = mzd_read_bits(…)`) do not go
    to a matrix and are not recorded (`Tb->M` is not touched at all).
    First loop, for `i = 1 .. 2^k - 1`: `T[i][startcol/64] = 0`, then an UNGUARDED Duff's device of `duff wide`
    steps `*ti++ = *m++ ^ *ti1++` with `wide = T->width - c/64`, `m = mzd_row(M, r + inc[i-1]) + c/64` (there is
    NO `rowneeded < M->nrows` test here, unlike `mzd_make_table`), `ti1`/`ti` running pointers into rows
    `i-1`/`i` of `T` that are advanced by `c/64 + rowstride - width` after each row: they stay in step with the
    rows only if the device ran exactly `wide` steps; the closed form keeps the exact drift `(i-1)*(duff wide - wide)`
    (zero for `wide ≥ 1`).
    Second loop, for `i = 1 .. 2^k - 1`: `mzd_xor_bits(T, i, c, k, ord[i])`, `mzd_read_bits(T, i, startcol, toread)`,
    `toread = MIN(64, T->ncols - startcol)`. -/

-- (`accXorBitsOp`, `mzd_xor_bits` on operand `op`, is defined in part 3a above)
def accMakeTableTrtri (hT : Hdr) (r c k startcol : Nat) (inc : Nat → Nat) : List Access :=
  let bo : Int := (c : Int) / 64
  let bo0 : Int := (startcol : Int) / 64
  let wide : Int := hT.width - bo
  let n := duff wide
  let toread : Int := min 64 ((hT.ncols : Int) - startcol)
  forI 1 (2 ^ k : Nat) (fun i =>
    let drift := (i - 1) * (n - wide)
    [wr 1 i.toNat bo0] ++
    forI 0 n (fun o => [rd 0 (r + inc (i.toNat - 1)) (bo + o),
                        rd 1 (i.toNat - 1) (bo + drift + o), wr 1 i.toNat (bo + drift + o)])) ++
  forI 1 (2 ^ k : Nat) (fun i =>
    accXorBitsOp 1 i.toNat c k ++ accReadBitsOp 1 i.toNat startcol toread.toNat)

/-- shift counts: `__M4RI_TWOPOW(k) = 1 << k`, then per table row those of `mzd_xor_bits` and `mzd_read_bits` -/
def shMakeTableTrtri (hT : Hdr) (c k startcol : Nat) : List Int :=
  let toread : Int := min 64 ((hT.ncols : Int) - startcol)
  [(k : Int)] ++ forI 1 (2 ^ k : Nat) (fun _ => shXorBits c k ++ shReadBits startcol toread.toNat)

/-! ## (c) the russian TRSM routines `_mzd_trsm_upper_left_russian(U, B, k)`, `_mzd_trsm_lower_left_russian(L, B, k)`
        as compositions of already modelled kernels, and `_mzd_trtri_upper_submatrix`

    Operand 0 = `U` (resp. `L`), operand 1 = `B`, operand `t + 2` = the table `T[t]`, `t < 8 = __M4RI_TRSM_NTABLES`.
    `k ≥ 1` is the value of the C variable `k` AFTER the `if (k == 0) { … }` heuristic (which yields `2 ≤ k ≤ 8`);
    `kk = 8 * k`, `assert(kk <= m4ri_radix)`.
    In the SSE2 build each table is `T[t] = mzd_init_window(Talign[t], 0, b_align * 64, 2^k, B->ncols + b_align * 64)` with
    `Talign[t] = mzd_init(2^k, B->ncols + 64)` and `b_align = (ALIGNMENT(mzd_row(B, 0), 16) == 8)`: a `2^k × B->ncols`
    window whose rows have the SAME 16-byte phase as the rows of `B` (header `trsmTableHdr`).
    The `calloc` zeroing of the fresh tables and the `rci_t` arrays `L[t]`/`J[t]` are not matrix accesses (not recorded).

    What is new here (everything else is a call of `_mzd_trsm_*_left_submatrix`, `mzd_make_table`):
    * main loops: for each row `j` outside the current `kk × kk` block: 8 × `mzd_read_bits_int(U, j, col_t, k)` (upper)
      resp. 1 × `mzd_read_bits(L, j, i, kk)` (lower), then `_mzd_combine_8(mzd_row(B, j), {mzd_row(T[t], x_t)}, B->width)`
      — NOT skipped when all `x_t = 0`, unlike `mzd_process_rowsN`;
    * tail loops ("stuff that doesn't fit in multiples of kk"): one table, `mzd_read_bits_int`, and a plain scalar loop
      `for (ii = 0; ii < wide; ++ii) b[ii] ^= t0[ii]`.
    Data-dependent parameters: `u row col` = bit of `U`/`L`; `inc k' i = m4ri_codebook[k']->inc[i]`;
    `x k' col j` = the table row `L[t][mzd_read_bits(U, j, col, k')]` selected for row `j` by the `k'` bits at column `col`. -/

/-- renumber the operands of a trace (to embed the trace of a callee) -/
def reop (f : Nat → Nat) (l : List Access) : List Access := l.map fun a => { a with op := f a.op }

/-- `switch (8) { case 8: f 7; case 7: f 6; … case 1: f 0 }` (fall-through) -/
def down8 {α : Type} (f : Nat → List α) : List α := f 7 ++ f 6 ++ f 5 ++ f 4 ++ f 3 ++ f 2 ++ f 1 ++ f 0

/-- `mzd_make_table(B, r, 0, k, T[t], L[t])`: callee operand 0 (`M`) is `B` = 1, callee operand 1 (`T`) is `t + 2` -/
def trsmTableOp (t : Nat) : Nat → Nat := fun o => if o = 0 then 1 else t + 2

/-- header of the tables the two routines allocate (SSE2 build) -/
def trsmTableHdr (hB : Hdr) (k : Nat) : Hdr :=
  let w := (hB.ncols + 64 + 63) / 64
  ⟨2 ^ k, hB.ncols, if w % 2 = 0 then w else w + 1, hB.phase⟩

/-- `for (ii = 0; ii < wide; ++ii) b[ii] ^= t0[ii]` with `b = mzd_row(B, j)`, `t0 = mzd_row(T[0], xr)` -/
def trsmTailAdd (hB : Hdr) (j xr : Nat) : List Access :=
  forI 0 hB.width (fun ii => [rd 2 xr ii, rd 1 j ii, wr 1 j ii])

/-- one trip of the main loop of `_mzd_trsm_upper_left_russian` (loop variable `i`, `i < B->nrows - kk`) -/
def accTrsmUpperMainBlock (hB : Hdr) (k : Nat) (i : Int) (u : Nat → Nat → Bool) (inc : Nat → Nat → Nat)
    (x : Nat → Nat → Nat → Nat) : List Access :=
  let n : Int := hB.nrows
  let kk : Nat := 8 * k
  let col := fun (t : Nat) => (n - i - ((t + 1) * k : Nat)).toNat        -- `B->nrows - i - (t+1) * k`
  accTrsmUpperLeftSubmatrix hB (n - i - kk).toNat kk u ++
  down8 (fun t => reop (trsmTableOp t) (accMakeTable hB (col t) 0 k (inc k))) ++
  forI 0 (n - i - kk) (fun j =>
    down8 (fun t => accReadBitsOp 0 j.toNat (col t) k) ++
    reop (· + 1) (accCombineN hB.phase 8 ⟨j.toNat, 0⟩ (fun t => ⟨x k (col t) j.toNat, 0⟩) hB.width))

/-- one trip of the tail loop of `_mzd_trsm_upper_left_russian`, `k'` = the (possibly reduced) `k` of this trip -/
def accTrsmUpperTailBlock (hB : Hdr) (k' : Nat) (i : Int) (u : Nat → Nat → Bool) (inc : Nat → Nat → Nat)
    (x : Nat → Nat → Nat → Nat) : List Access :=
  let n : Int := hB.nrows
  let r0 := (n - i - k').toNat
  accTrsmUpperLeftSubmatrix hB r0 k' u ++
  reop (trsmTableOp 0) (accMakeTable hB r0 0 k' (inc k')) ++
  forI 0 (n - i - k') (fun j => accReadBitsOp 0 j.toNat r0 k' ++ trsmTailAdd hB j.toNat (x k' r0 j.toNat))

/-- `_mzd_trsm_upper_left_russian(U, B, k)`, `k ≥ 1`.
    Main loop `for (i = 0; i < n - kk; i += kk)`; it leaves `i = i0` = the least multiple of `kk` that is `≥ n - kk`;
    tail loop `for (; i < n; i += k) { if (i > n - k) k = n - i; … }`. -/
def accTrsmUpperLeftRussian (hB : Hdr) (k : Nat) (u : Nat → Nat → Bool) (inc : Nat → Nat → Nat)
    (x : Nat → Nat → Nat → Nat) : List Access :=
  let n : Int := hB.nrows
  let kk : Int := 8 * (k : Int)
  let i0 : Int := kk * max 0 ((n - 1) / kk)
  forI 0 (n - kk) (fun i => if i % kk = 0 then accTrsmUpperMainBlock hB k i u inc x else []) ++
  forI i0 n (fun i => if (i - i0) % (k : Int) = 0 then accTrsmUpperTailBlock hB (min (k : Int) (n - i)).toNat i u inc x else [])

/-- one trip of the main loop of `_mzd_trsm_lower_left_russian` -/
def accTrsmLowerMainBlock (hB : Hdr) (k : Nat) (i : Int) (u : Nat → Nat → Bool) (inc : Nat → Nat → Nat)
    (x : Nat → Nat → Nat → Nat) : List Access :=
  let n : Int := hB.nrows
  let kk : Nat := 8 * k
  let col := fun (t : Nat) => i.toNat + t * k                            -- `i + t * k`
  accTrsmLowerLeftSubmatrix hB i.toNat kk u ++
  down8 (fun t => reop (trsmTableOp t) (accMakeTable hB (col t) 0 k (inc k))) ++
  forI (i + kk) n (fun j =>
    accReadBitsOp 0 j.toNat i.toNat kk ++        -- `tmp = mzd_read_bits(L, j, i, kk)`; `x_t = J[t][(tmp >> t*k) & mask]`
    reop (· + 1) (accCombineN hB.phase 8 ⟨j.toNat, 0⟩ (fun t => ⟨x k (col t) j.toNat, 0⟩) hB.width))

/-- one trip of the tail loop of `_mzd_trsm_lower_left_russian`; NB the row loop runs to `L->nrows` (= `nL`), not `B->nrows` -/
def accTrsmLowerTailBlock (hB : Hdr) (nL : Nat) (k' : Nat) (i : Int) (u : Nat → Nat → Bool) (inc : Nat → Nat → Nat)
    (x : Nat → Nat → Nat → Nat) : List Access :=
  accTrsmLowerLeftSubmatrix hB i.toNat k' u ++
  reop (trsmTableOp 0) (accMakeTable hB i.toNat 0 k' (inc k')) ++
  forI (i + k') nL (fun j => accReadBitsOp 0 j.toNat i.toNat k' ++ trsmTailAdd hB j.toNat (x k' i.toNat j.toNat))

/-- `_mzd_trsm_lower_left_russian(L, B, k)`, `k ≥ 1`, `nL = L->nrows` -/
def accTrsmLowerLeftRussian (hB : Hdr) (nL : Nat) (k : Nat) (u : Nat → Nat → Bool) (inc : Nat → Nat → Nat)
    (x : Nat → Nat → Nat → Nat) : List Access :=
  let n : Int := hB.nrows
  let kk : Int := 8 * (k : Int)
  let i0 : Int := kk * max 0 ((n - 1) / kk)
  forI 0 (n - kk) (fun i => if i % kk = 0 then accTrsmLowerMainBlock hB k i u inc x else []) ++
  forI i0 n (fun i => if (i - i0) % (k : Int) = 0 then accTrsmLowerTailBlock hB nL (min (k : Int) (n - i)).toNat i u inc x else [])

/-- shift counts of the upper routine: `__M4RI_LEFT_BITMASK(B->ncols % 64)`, `__M4RI_TWOPOW(k)`, and per trip those of
    the submatrix kernel, of `mzd_make_table` and of the `mzd_read_bits_int` calls -/
def shTrsmUpperLeftRussian (hB : Hdr) (k : Nat) : List Int :=
  let n : Int := hB.nrows
  let kk : Int := 8 * (k : Int)
  let i0 : Int := kk * max 0 ((n - 1) / kk)
  [(64 - (hB.ncols : Int) % 64) % 64, (k : Int)] ++
  forI 0 (n - kk) (fun i => if i % kk = 0 then
    shTrsmUpperLeftSubmatrix (n - i - kk).toNat (8 * k) ++
    down8 (fun _ => shMakeTable hB 0 k) ++
    forI 0 (n - i - kk) (fun _ => down8 (fun t => shReadBits (n - i - ((t + 1) * k : Nat)).toNat k)) else []) ++
  forI i0 n (fun i => if (i - i0) % (k : Int) = 0 then
    let k' := (min (k : Int) (n - i)).toNat
    shTrsmUpperLeftSubmatrix (n - i - k').toNat k' ++ shMakeTable hB 0 k' ++
    forI 0 (n - i - k') (fun _ => shReadBits (n - i - k').toNat k') else [])

/-- shift counts of the lower routine: `__M4RI_TWOPOW(k)`, `mask = __M4RI_LEFT_BITMASK(k)`, per trip the submatrix kernel,
    `mzd_make_table`, `mzd_read_bits(L, j, i, kk)` and the eight `tmp >> (t * k)` -/
def shTrsmLowerLeftRussian (hB : Hdr) (nL : Nat) (k : Nat) : List Int :=
  let n : Int := hB.nrows
  let kk : Int := 8 * (k : Int)
  let i0 : Int := kk * max 0 ((n - 1) / kk)
  [(k : Int), (64 - (k : Int)) % 64] ++
  forI 0 (n - kk) (fun i => if i % kk = 0 then
    shTrsmLowerLeftSubmatrix i.toNat (8 * k) ++
    down8 (fun _ => shMakeTable hB 0 k) ++
    forI (i + kk) n (fun _ => shReadBits i.toNat (8 * k) ++ down8 (fun t => [((t * k : Nat) : Int)])) else []) ++
  forI i0 n (fun i => if (i - i0) % (k : Int) = 0 then
    let k' := (min (k : Int) (n - i)).toNat
    shTrsmLowerLeftSubmatrix i.toNat k' ++ shMakeTable hB 0 k' ++
    forI (i + k') nL (fun _ => shReadBits i.toNat k') else [])

/-- `_mzd_trtri_upper_submatrix(A, pivot_r, elim_r, k)` (static inline, triangular_russian.c:378):
    `for (i = pivot_r; i < pivot_r + k; i++) for (j = elim_r; j < i; j++)
       if (mzd_read_bit(A, j, i) && (i + 1) < A->ncols) mzd_row_add_offset(A, j, i, i + 1);`
    Operand 0 = `A`.  `u j i` = the bit `(j, i)` of `A` AT THE TIME IT IS READ (the row additions change `A`). -/
def accTrtriUpperSubmatrix (hA : Hdr) (pivot_r elim_r k : Nat) (u : Nat → Nat → Bool) : List Access :=
  forI pivot_r ((pivot_r : Int) + k) (fun i => forI elim_r i (fun j =>
    accReadBit j.toNat i.toNat ++
    (if u j.toNat i.toNat ∧ i + 1 < (hA.ncols : Int) then accRowAddOffset hA j.toNat i.toNat (i.toNat + 1) else [])))
def shTrtriUpperSubmatrix (hA : Hdr) (pivot_r elim_r k : Nat) (u : Nat → Nat → Bool) : List Int :=
  forI pivot_r ((pivot_r : Int) + k) (fun i => forI elim_r i (fun j =>
    shReadBit i.toNat ++
    (if u j.toNat i.toNat ∧ i + 1 < (hA.ncols : Int) then shRowAddOffset (i.toNat + 1) else [])))

/-!
  ################################################################################################

  Access-trace model, part 4 (property C11): the transposition kernels of mzd.c (lines 262-1159).
  Same conventions as `M4ri/Safety.lean`.  All these kernels are SCALAR (no `__m128i` access).

  The kernels take raw word pointers and row strides.  A pointer is `mzd_row(X, row) + blk` of an operand `X`
  (`Ptr`); `p + i * rowstride` is "row `p.row + i`, same word" and `p + d` (`d` small) is "same row, word
  `p.blk + d`".  Operand numbering everywhere: operand 0 = the matrix `dst`/`fwd` points into (DST),
  operand 1 = the matrix `src`/`fws` points into (A).  Several kernels call each other with the local array
  `word t[64]` (on the stack) as source or destination with row stride 1: stack words are not matrix words and
  are not recorded, so the operand of a pointer is an `Option Nat` (`none` = the local array).

  Shift lists `sh…`: every `<<`/`>>` whose count is not a literal constant in the C text.
  Core Lean only.
-/
/-- `*(p + i * rowstride)` read; nothing is recorded for the local array -/
def prd (op : Option Nat) (p : Ptr) (i : Int) : List Access :=
  match op with
  | some o => [rd o (p.row + i.toNat) p.blk]
  | none => []
/-- `*(p + i * rowstride) = …` -/
def pwr (op : Option Nat) (p : Ptr) (i : Int) : List Access :=
  match op with
  | some o => [wr o (p.row + i.toNat) p.blk]
  | none => []
/-- `p + drow * rowstride + dblk` -/
def Ptr.add (p : Ptr) (drow dblk : Int) : Ptr := ⟨p.row + drow.toNat, p.blk + dblk⟩

/-- the local array `t` (never recorded; the pointer value is irrelevant) -/
def stackPtr : Ptr := ⟨0, 0⟩

/-! ## (a) `_mzd_copy_transpose_64x64` (mzd.c:262-322), `_mzd_copy_transpose_64x64_2` (mzd.c:340-405) -/

/-- first pass, `j = 32`: for `k < 32` (the outer `for (…; wk < end; …)` runs exactly once because the inner
    loop advances `wk` by 32 rows and the increment by another 32):
    `xor = ((*wks >> j) ^ *(wks + j_rowstride_src)) & m; *wk = *wks ^ (xor << j);
     *(wk + j_rowstride_dst) = *(wks + j_rowstride_src) ^ xor;` -/
def tr64First (od os : Option Nat) (dst src : Ptr) : List Access :=
  forI 0 32 (fun k =>
    prd os src k ++ prd os src (k + 32) ++ prd os src k ++ pwr od dst k ++ prd os src (k + 32) ++ pwr od dst (k + 32))

/-- in-place pass for one `j ∈ {16, 8, 4, 2, 1}`:
    `for (wk = dst; wk < end; wk += j_rowstride_dst) for (k = 0; k < j; ++k, wk += rowstride_dst)
       { xor = ((*wk >> j) ^ *(wk + j_rowstride_dst)) & m; *wk ^= xor << j; *(wk + j_rowstride_dst) ^= xor; }`
    (`64 / (2 j)` outer trips, `r = 2 j b + k` is the row of `wk`) -/
def tr64Swap (od : Option Nat) (dst : Ptr) (j : Int) : List Access :=
  forI 0 (32 / j) (fun b => forI 0 j (fun k =>
    let r := 2 * j * b + k
    prd od dst r ++ prd od dst (r + j) ++ prd od dst r ++ pwr od dst r ++ prd od dst (r + j) ++ pwr od dst (r + j)))

/-- `_mzd_copy_transpose_64x64(dst, src, rowstride_dst, rowstride_src)` -/
def acc64x64 (od os : Option Nat) (dst src : Ptr) : List Access :=
  tr64First od os dst src ++
  tr64Swap od dst 16 ++ tr64Swap od dst 8 ++ tr64Swap od dst 4 ++ tr64Swap od dst 2 ++ tr64Swap od dst 1

/-- shift counts of one in-place pass: `>> j`, `<< j` per row pair, then the loop increment
    `j = j >> 1, m ^= m << j` (count = the NEW `j`, down to 0) -/
def sh64Swap (j : Int) : List Int :=
  forI 0 (32 / j) (fun _ => forI 0 j (fun _ => [j, j])) ++ [j / 2]
/-- `_mzd_copy_transpose_64x64`: `>> j`, `<< j` with the variable `j = 32` in the first pass
    (`m << 16` has a literal count) -/
def sh64x64 : List Int :=
  forI 0 32 (fun _ => [32, 32]) ++ sh64Swap 16 ++ sh64Swap 8 ++ sh64Swap 4 ++ sh64Swap 2 ++ sh64Swap 1

def tr64First2 (od os : Option Nat) (dst1 dst2 src1 src2 : Ptr) : List Access :=
  forI 0 32 (fun k =>
    prd os src1 k ++ prd os src1 (k + 32) ++ prd os src2 k ++ prd os src2 (k + 32) ++
    prd os src1 k ++ pwr od dst1 k ++ prd os src2 k ++ pwr od dst2 k ++
    prd os src1 (k + 32) ++ pwr od dst1 (k + 32) ++ prd os src2 (k + 32) ++ pwr od dst2 (k + 32))

def tr64Swap2 (od : Option Nat) (dst1 dst2 : Ptr) (j : Int) : List Access :=
  forI 0 (32 / j) (fun b => forI 0 j (fun k =>
    let r := 2 * j * b + k
    prd od dst1 r ++ prd od dst1 (r + j) ++ prd od dst2 r ++ prd od dst2 (r + j) ++
    prd od dst1 r ++ pwr od dst1 r ++ prd od dst2 r ++ pwr od dst2 r ++
    prd od dst1 (r + j) ++ pwr od dst1 (r + j) ++ prd od dst2 (r + j) ++ pwr od dst2 (r + j)))

/-- `_mzd_copy_transpose_64x64_2(dst1, dst2, src1, src2, rowstride_dst, rowstride_src)`; both `dst` pointers point
    into operand `od`, both `src` pointers into `os`.  The `do … while (wk[0] < end)` loops run `64/(2j)` times. -/
def acc64x64_2 (od os : Option Nat) (dst1 dst2 src1 src2 : Ptr) : List Access :=
  tr64First2 od os dst1 dst2 src1 src2 ++
  tr64Swap2 od dst1 dst2 16 ++ tr64Swap2 od dst1 dst2 8 ++ tr64Swap2 od dst1 dst2 4 ++
  tr64Swap2 od dst1 dst2 2 ++ tr64Swap2 od dst1 dst2 1

def sh64Swap2 (j : Int) : List Int :=
  forI 0 (32 / j) (fun _ => forI 0 j (fun _ => [j, j, j, j])) ++ [j / 2]
def sh64x64_2 : List Int :=
  forI 0 32 (fun _ => [32, 32, 32, 32]) ++ sh64Swap2 16 ++ sh64Swap2 8 ++ sh64Swap2 4 ++ sh64Swap2 2 ++ sh64Swap2 1

/-! ## `_mzd_transpose_Nxjx64(t, n)` (mzd.c:432-467): works on the local array only -/

/-- `log2_ceil(n)` (table, `1 ≤ n ≤ 64`) = the return value `mi` of `_mzd_transpose_Nxjx64(t, n)` for `n ≤ 64` -/
def log2c (n : Int) : Int :=
  if n ≤ 1 then 0 else if n ≤ 2 then 1 else if n ≤ 4 then 2 else if n ≤ 8 then 3 else if n ≤ 16 then 4
  else if n ≤ 32 then 5 else 6
/-- `1 << log2_ceil(n)` -/
def pow2c (n : Int) : Int :=
  if n ≤ 1 then 1 else if n ≤ 2 then 2 else if n ≤ 4 then 4 else if n ≤ 8 then 8 else if n ≤ 16 then 16
  else if n ≤ 32 then 32 else 64

/-- one level `j` of `_mzd_transpose_Nxjx64`: `do { for (i = 0; i < j; ++i, ++k) { … >> j … << j … } k += j; } while (k < n)`:
    `max 1 ⌈n / 2j⌉` trips of the `do` loop -/
def shNxjLevel (n j : Int) : List Int :=
  if j < n then forI 0 ((n + 2 * j - 1) / (2 * j)) (fun _ => forI 0 j (fun _ => [j, j])) else []
/-- `_mzd_transpose_Nxjx64(t, n)`, `n ≤ 64` (`while (j < n)` with `j = 1, 2, 4, …`; `j <<= 1` is a literal count) -/
def shNxjx64 (n : Int) : List Int :=
  shNxjLevel n 1 ++ shNxjLevel n 2 ++ shNxjLevel n 4 ++ shNxjLevel n 8 ++ shNxjLevel n 16 ++ shNxjLevel n 32

/-! ## (b) `_mzd_copy_transpose_lt64x64` (mzd.c:484-600): `n × 64 → 64 × n`, `n < 64` -/

/-- the six `case`s of the `switch (log2j)` all store, for `k < j` (`j = 2^log2j`) and `q < 64/j`, the word
    of row `k + j q` (written out 2, 4 or 8 at a time; the order in the C text is this order) -/
def accLt64x64 (od os : Option Nat) (dst src : Ptr) (n : Int) : List Access :=
  forI 0 n (fun k => prd os src k) ++
  (if n > 32 then acc64x64 od none dst stackPtr
   else
     let j := pow2c n
     forI 0 j (fun k => forI 0 (64 / j) (fun q => pwr od dst (k + j * q))))
/-- `__M4RI_LEFT_BITMASK(n) = ffff >> (64 - n) % 64`; all other counts of the `switch` are literals -/
def shLt64x64 (n : Int) : List Int :=
  if n > 32 then sh64x64 else shNxjx64 n ++ [(64 - n) % 64]

/-! ## `_mzd_copy_transpose_64xlt64` (mzd.c:617-714): `64 × n → n × 64`, `n < 64` -/

def acc64xlt64 (od os : Option Nat) (dst src : Ptr) (n : Int) : List Access :=
  let l := log2c n
  if l = 6 then acc64x64 none os stackPtr src ++ forI 0 n (fun k => pwr od dst k)
  else if l = 0 then
    -- `tt[0] = wks[0]; tt[1] = wks[rowstride_src]; for (i = 2; i < 64; i += 2) { wks += 2 * rowstride_src; … }`
    forI 0 32 (fun i => prd os src (2 * i) ++ prd os src (2 * i + 1)) ++ pwr od dst 0
  else
    (if l = 2 then forI 0 16 (fun i => forI 0 4 (fun q => prd os src (60 - 4 * i + q)))
     else if l = 1 then forI 0 32 (fun i => forI 0 2 (fun q => prd os src (62 - 2 * i + q)))
     else
       -- cases 5, 4, 3: `for (k = 0; k < j; ++k)` loads `wks[0], wks[j_rowstride_src], …, wks[(64/j - 1) * j_rowstride_src]`
       let j := pow2c n
       forI 0 j (fun k => forI 0 (64 / j) (fun q => prd os src (k + j * q)))) ++
    forI 0 n (fun k => pwr od dst k)
/-- case 0: `wks[0] << i`, `wks[rowstride_src] << i` for `i = 2, 4, …, 62`;
    cases 1..5: `1 << log2j` (a shift of an `int`: the count must be `< 32`, it is `≤ 5`) and `_mzd_transpose_Nxjx64(t, j)` -/
def sh64xlt64 (n : Int) : List Int :=
  let l := log2c n
  if l = 6 then sh64x64
  else if l = 0 then forI 1 32 (fun i => [2 * i, 2 * i])
  else [l] ++ shNxjx64 (pow2c n)

/-! ## the small kernels (mzd.c:732-967): `n × m → m × n` (`n` rows of `src` are read, `m` rows of `dst` written) -/

/-- `_mzd_copy_transpose_le8xle8(dst, src, …, n, m, maxsize)`: the rows of `dst` are stored from `m - 1` down to 0 -/
def accLe8 (od os : Option Nat) (dst src : Ptr) (n m : Int) : List Access :=
  prd os src 0 ++ forI 1 n (fun i => prd os src i) ++
  forI 0 (m - 1) (fun i => pwr od dst (m - 1 - i)) ++ pwr od dst 0
/-- `*wks << shift` (`shift = 8 i`), `xor << shift` (`shift = 7, 14, …` while `shift < 7 * maxsize`, at least once),
    `w >> shift` (`shift = 8 (m-1), …, 8`) -/
def shLe8 (n m maxsize : Int) : List Int :=
  forI 1 n (fun i => [8 * i]) ++ forI 1 (max 2 maxsize) (fun t => [7 * t]) ++ forI 0 (m - 1) (fun i => [8 * (m - 1 - i)])

/-- `_mzd_copy_transpose_le16xle16(dst, src, …, n, m, maxsize)` -/
def accLe16 (od os : Option Nat) (dst src : Ptr) (n m : Int) : List Access :=
  prd os src 0 ++ forI 1 n (fun i => prd os src i) ++
  pwr od dst 0 ++ forI 1 m (fun i => pwr od dst i)
/-- `*wks << shift` for the rows `i ≥ 4` (`shift = 16 (i / 4)`); the `do … while (shift < 3 * maxsize)` loop with
    `shift = 12, 24, …` (4 `>>` and 4 `<<` per trip); `_mzd_transpose_Nxjx64(t, 4)`; `t[.] >> shift` for the rows `i ≥ 4` -/
def shLe16 (n m maxsize : Int) : List Int :=
  forI 4 n (fun i => [16 * (i / 4)]) ++
  forI 1 (max 2 ((maxsize - 1) / 4 + 1)) (fun t => [12 * t, 12 * t, 12 * t, 12 * t, 12 * t, 12 * t, 12 * t, 12 * t]) ++
  shNxjx64 4 ++
  forI 4 m (fun i => [16 * (i / 4)])

/-- `_mzd_copy_transpose_le32xle32(dst, src, …, n, m)`: `n > 16`: rows `0..15`, then `do … while (--i)` for the rows
    `16..n-1`; the stores go to the rows `0..m-1` in increasing order on every path -/
def accLe32 (od os : Option Nat) (dst src : Ptr) (n m : Int) : List Access :=
  (if n > 16 then forI 0 16 (fun j => prd os src j) ++ prd os src 16 ++ forI 17 n (fun j => prd os src j)
   else forI 0 n (fun j => prd os src j)) ++
  (if m > 16 then
     forI 0 8 (fun j => pwr od dst (2 * j) ++ pwr od dst (2 * j + 1)) ++
     forI 0 ((m - 16) / 2) (fun j => pwr od dst (16 + 2 * j) ++ pwr od dst (16 + 2 * j + 1)) ++
     (if m % 2 = 1 then pwr od dst (m - 1) else [])
   else
     forI 0 (m / 2) (fun j => pwr od dst (2 * j) ++ pwr od dst (2 * j + 1)) ++
     (if m % 2 = 1 then pwr od dst (m - 1) else []))
def shLe32 : List Int := shNxjx64 16

/-- `_mzd_copy_transpose_le64xle64(dst, src, …, n, m)`: the 64 x 64 kernel runs on the local array -/
def accLe64 (od os : Option Nat) (dst src : Ptr) (n m : Int) : List Access :=
  forI 0 n (fun k => prd os src k) ++ acc64x64 none none stackPtr stackPtr ++ forI 0 m (fun k => pwr od dst k)
def shLe64 : List Int := sh64x64

/-- `_mzd_copy_transpose_small(fwd, fws, …, nrows, ncols, maxsize)` (`assert(maxsize < 64)`) -/
def accSmall (od os : Option Nat) (dst src : Ptr) (n m maxsize : Int) : List Access :=
  if maxsize ≤ 8 then accLe8 od os dst src n m
  else if maxsize ≤ 16 then accLe16 od os dst src n m
  else if maxsize ≤ 32 then accLe32 od os dst src n m
  else accLe64 od os dst src n m
def shSmall (n m maxsize : Int) : List Int :=
  if maxsize ≤ 8 then shLe8 n m maxsize
  else if maxsize ≤ 16 then shLe16 n m maxsize
  else if maxsize ≤ 32 then shLe32
  else shLe64

/-! ## (c) `_mzd_transpose_base` (mzd.c:970-1078) and the dispatchers above it -/

/-- `_mzd_transpose_base(fwd, fws, rowstride_dst, rowstride_src, nrows, ncols, maxsize)` (`maxsize` is only asserted
    `≥ 64`).  Operand 0 = DST (`fwd`), 1 = A (`fws`).
    Strips of 64 rows of A (`b < nrows/64`); in each strip the whole 64 x 64 blocks `j < ncols/64`, then the
    `64 × (ncols % 64)` block.  The blocks are numbered `t = b * whole_64cols + j` in the order they are visited;
    if their number is odd (`js = 1`) block 0 is done alone by `_mzd_copy_transpose_64x64`; the others are done in
    consecutive pairs by `_mzd_copy_transpose_64x64_2(delayed, current)` when the SECOND of the pair is reached —
    `even` survives the strip change, so a pair can consist of the last block of strip `b-1` and the first of strip `b`.
    Then the `(nrows % 64) × 64` blocks, then the small corner. -/
def accTransposeBase (fwd fws : Ptr) (nrows ncols : Nat) : List Access :=
  let wc : Int := (ncols : Int) / 64                 -- `whole_64cols`
  let nb : Int := (nrows : Int) / 64                 -- number of 64-row strips
  let rem : Int := (ncols : Int) % 64
  let js : Int := if nb % 2 = 1 ∧ wc % 2 = 1 then 1 else 0   -- `ncols & nrows & 64`
  let dblk := fun (b j : Int) => fwd.add (64 * j) b          -- `fwd + j * rowstride_64_dst` after `b` times `fwd += 1`
  let sblk := fun (b j : Int) => fws.add (64 * b) j          -- `fws + j` after `b` times `fws += 64 * rowstride_src`
  (if js = 1 then acc64x64 (some 0) (some 1) fwd fws else []) ++
  (if js = 1 ∧ nrows = 64 ∧ ncols = 64 then []   -- `if ((nrows | ncols) == 64) return;` (both have bit 6 set here)
   else
    forI 0 nb (fun b =>
      forI (if b = 0 then js else 0) wc (fun j =>
        if (b * wc + j - js) % 2 = 1 then
          (if j = 0 then acc64x64_2 (some 0) (some 1) (dblk (b - 1) (wc - 1)) (dblk b j) (sblk (b - 1) (wc - 1)) (sblk b j)
           else acc64x64_2 (some 0) (some 1) (dblk b (j - 1)) (dblk b j) (sblk b (j - 1)) (sblk b j))
        else []) ++
      (if rem ≠ 0 then acc64xlt64 (some 0) (some 1) (dblk b wc) (sblk b wc) rem else [])) ++
    (let nr : Int := (nrows : Int) % 64
     if nr = 0 then [] else
     forI 0 wc (fun c => accLt64x64 (some 0) (some 1) (dblk nb c) (sblk nb c) nr) ++
     (if rem = 0 then [] else accSmall (some 0) (some 1) (dblk nb wc) (sblk nb wc) nr rem (max nr rem))))

def shTransposeBase (nrows ncols : Nat) : List Int :=
  let wc : Int := (ncols : Int) / 64
  let nb : Int := (nrows : Int) / 64
  let rem : Int := (ncols : Int) % 64
  let js : Int := if nb % 2 = 1 ∧ wc % 2 = 1 then 1 else 0
  (if js = 1 then sh64x64 else []) ++
  (if js = 1 ∧ nrows = 64 ∧ ncols = 64 then []
   else
    forI 0 nb (fun b =>
      forI (if b = 0 then js else 0) wc (fun j => if (b * wc + j - js) % 2 = 1 then sh64x64_2 else []) ++
      (if rem ≠ 0 then sh64xlt64 rem else [])) ++
    (let nr : Int := (nrows : Int) % 64
     if nr = 0 then [] else
     forI 0 wc (fun _ => shLt64x64 nr) ++
     (if rem = 0 then [] else shSmall nr rem (max nr rem))))

/-- `split_round(n, k)`: "the smallest multiple of k larger than n/2" -/
def splitRound (n k : Nat) : Nat := ((n / 2 + (k - 1)) / k) * k

/-- `_mzd_transpose_notsmall(fwd, fws, …, nrows, ncols, maxsize)` (mzd.c:1086-1115).  The recursion thresholds 512 and 768
    are literal constants of this version (no cache-size parameter).  `fuel` bounds the recursion depth: each call
    halves the larger dimension, `nrows + ncols` is always enough. -/
def accTransposeNotsmall : Nat → Ptr → Ptr → Nat → Nat → Nat → List Access
  | 0, _, _, _, _, _ => []
  | fuel + 1, fwd, fws, nrows, ncols, maxsize =>
    if maxsize ≤ 512 then accTransposeBase fwd fws nrows ncols
    else
      let large := splitRound maxsize (if maxsize ≤ 768 then 64 else 512)
      let offset : Int := (large : Int) / 64
      if nrows ≥ ncols then
        accTransposeNotsmall fuel fwd fws large ncols (max large ncols) ++
        accTransposeNotsmall fuel (fwd.add 0 offset) (fws.add large 0) (nrows - large) ncols (max (nrows - large) ncols)
      else
        accTransposeNotsmall fuel fwd fws nrows large (max nrows large) ++
        accTransposeNotsmall fuel (fwd.add large 0) (fws.add 0 offset) nrows (ncols - large) (max nrows (ncols - large))

def shTransposeNotsmall : Nat → Nat → Nat → Nat → List Int
  | 0, _, _, _ => []
  | fuel + 1, nrows, ncols, maxsize =>
    if maxsize ≤ 512 then shTransposeBase nrows ncols
    else
      let large := splitRound maxsize (if maxsize ≤ 768 then 64 else 512)
      if nrows ≥ ncols then
        shTransposeNotsmall fuel large ncols (max large ncols) ++
        shTransposeNotsmall fuel (nrows - large) ncols (max (nrows - large) ncols)
      else
        shTransposeNotsmall fuel nrows large (max nrows large) ++
        shTransposeNotsmall fuel nrows (ncols - large) (max nrows (ncols - large))

/-- the `assert(maxsize >= 64)` at the head of `_mzd_transpose_notsmall` and of `_mzd_transpose_base`, over the whole
    recursion tree: `true` iff none of them fires (they are compiled in unless `NDEBUG`) -/
def assertsTransposeNotsmall : Nat → Nat → Nat → Nat → Bool
  | 0, _, _, _ => true
  | fuel + 1, nrows, ncols, maxsize =>
    decide (64 ≤ maxsize) &&
    (if maxsize ≤ 512 then true
     else
      let large := splitRound maxsize (if maxsize ≤ 768 then 64 else 512)
      if nrows ≥ ncols then
        assertsTransposeNotsmall fuel large ncols (max large ncols) &&
        assertsTransposeNotsmall fuel (nrows - large) ncols (max (nrows - large) ncols)
      else
        assertsTransposeNotsmall fuel nrows large (max nrows large) &&
        assertsTransposeNotsmall fuel nrows (ncols - large) (max nrows (ncols - large)))

/-- `_mzd_transpose(fwd, fws, …, nrows, ncols, maxsize)` (mzd.c:1117-1127) -/
def accTransposeTop (fwd fws : Ptr) (nrows ncols maxsize : Nat) : List Access :=
  if maxsize < 64 then accSmall (some 0) (some 1) fwd fws nrows ncols maxsize
  else accTransposeNotsmall (nrows + ncols) fwd fws nrows ncols maxsize
def shTransposeTop (nrows ncols maxsize : Nat) : List Int :=
  if maxsize < 64 then shSmall nrows ncols maxsize
  else shTransposeNotsmall (nrows + ncols) nrows ncols maxsize

/-- `mzd_copy(N, P)` (see `accCopy`) with operand numbers `on`, `op` -/
def accCopyOps (on op : Nat) (hP : Hdr) : List Access :=
  let wide : Int := hP.width - 1
  forI 0 hP.nrows (fun i =>
    forI 0 wide (fun j => [rd op i.toNat j, wr on i.toNat j]) ++
    [rd on i.toNat wide, rd op i.toNat wide, wr on i.toNat wide])

/-- move a trace of the raw-pointer kernels (operands 0 and 1) to other operand numbers -/
def reOp (d s : Nat) (l : List Access) : List Access :=
  l.map fun a => { a with op := if a.op = 0 then d else s }

/-- `mzd_transpose(DST, A)` (mzd.c:1131-1159), `DST` non-NULL of shape `A->ncols × A->nrows`.
    Operand 0 = `DST`, 1 = `A`; the temporaries the function allocates itself are operand 2 = `T` (`mzd_copy(NULL, A)`,
    an `A->nrows × A->ncols` matrix fresh from `mzd_init`) and operand 3 = `D` (`mzd_init(DST->nrows, DST->ncols)`).
    `dangerA`, `dangerD` = `mzd_is_dangerous_window(A)`, `…(DST)` (windowed AND `ncols % 64 ≠ 0`).
    (`mzd_init` clears the fresh block with `memset`/`calloc`; those byte stores are not word accesses of a kernel
    and are not recorded.) -/
def accMzdTranspose (hA : Hdr) (dangerA dangerD : Bool) : List Access :=
  let z : Ptr := ⟨0, 0⟩
  let maxsize := max hA.nrows hA.ncols
  if hA.nrows = 0 ∨ hA.ncols = 0 then []
  else if dangerA then
    -- `T = mzd_copy(NULL, A); DST = mzd_transpose(DST, T);` — `T` is not a window, so the recursion depth is 1
    accCopyOps 2 1 hA ++
    (if ¬ dangerD then reOp 0 2 (accTransposeTop z z hA.nrows hA.ncols maxsize)
     else reOp 3 2 (accTransposeTop z z hA.nrows hA.ncols maxsize) ++ accCopyOps 0 3 ⟨hA.ncols, hA.nrows, 0, 0⟩)
  else if ¬ dangerD then accTransposeTop z z hA.nrows hA.ncols maxsize
  else reOp 3 1 (accTransposeTop z z hA.nrows hA.ncols maxsize) ++ accCopyOps 0 3 ⟨hA.ncols, hA.nrows, 0, 0⟩
def shMzdTranspose (hA : Hdr) : List Int :=
  if hA.nrows = 0 ∨ hA.ncols = 0 then [] else shTransposeTop hA.nrows hA.ncols (max hA.nrows hA.ncols)

end M4ri.Safety
