/-
  W storey, multiplication: the word-level refinement of the Four-Russians machinery and of the two naive
  products, on VIEWS (`Mzd`: rows of 64-bit words whose last word may carry bits of a parent matrix).

    brilliantrussian.c : `mzd_make_table`, `mzd_process_rows`, `_mzd_mul_m4rm`
    mzd.c              : `_mzd_mul_va`, `_mzd_mul_naive`, `mzd_mul_naive` / `mzd_addmul_naive`

  The R-level models of the same functions (`M4ri/Gray.lean`: `makeTable`; `M4ri/Mul.lean`: `mulVa`,
  `mulNaiveT`, `m4rmPass`, `m4rm`) work on rows-as-`Nat`, where a matrix has no bits beyond its last column.
  Here every whole-word access of the C code is kept:
    * `mzd_make_table` masks the first word it writes with `mask_begin` and the last with `mask_end`
      (`mask_begin & mask_end` when both are the same word);
    * `mzd_process_rows` and the row loops of `_mzd_mul_m4rm` XOR the WHOLE words `block .. width-1` of a table
      row into the destination row — no mask at all;
    * `_mzd_mul_naive` ANDs all `A->width` whole words of a row of `A` with a row of the transposed `B`,
      and masks only the last partial word of the result with `C->high_bitmask`;
    * `_mzd_mul_va` goes through `mzd_combine_even_in_place`, last word under `C->high_bitmask`.
  Loops over rows are written in closed form (`mapIdx`), as in `M4ri/Mzd.lean`; the unrolled variants
  (`switch`/Duff's device, `_mzd_combine_n`, SSE2 bodies) are modelled by the loop they unroll, and the
  cache blocking over rows (`blocksize`, `giantstep`) is dropped: every row is processed independently
  of the others. Destinations are passed and returned. Operands are values, i.e. the destination must not
  overlap the sources (as in the C contract).  Core Lean only.
-/
import M4ri.Mul
import M4ri.Transpose
namespace M4ri
namespace Mzd
namespace W

/-! ### `mzd_make_table` -/

/-- row `i` of the table after `*ti++ = (*m++ ^ *ti1++) & mask` over the words `homeblock .. width-1`:
    first word under `mask_begin`, the last under `mask_end` (the C code folds `mask_end` into `mask_begin`
    when `wide = width - homeblock = 1`, see `makeTableW`), middle words whole.  Words below `homeblock` of
    `T[i]` are not touched.  (`homeblock ≥ width`, i.e. `c ≥ 64·width`, is outside the C contract; here
    nothing is written then.) -/
def makeTableRowW (ti ti1 m : Row) (homeblock width : Nat) (maskBegin maskEnd : Word) : Row :=
  ti.mapIdx fun j w =>
    if j < homeblock ∨ j ≥ width then w else
      let x := m.w j ^^^ ti1.w j
      if j = homeblock then x &&& maskBegin
      else if j + 1 = width then x &&& maskEnd else x

/-- `mask_begin` of `mzd_make_table` -/
def tableMaskBegin (M : Mzd) (c : Nat) : Word :=
  let homeblock := c / 64
  let maskEnd := leftMask (M.ncols % 64)
  let pureMaskBegin := rightMask (64 - c % 64)
  if M.width - homeblock ≠ 1 then pureMaskBegin else pureMaskBegin &&& maskEnd

/-- one iteration `i = i0 + 1` of the loop of `mzd_make_table` -/
def makeTableStepW (M : Mzd) (r c k : Nat) (TL : Mzd × Array Nat) (i0 : Nat) : Mzd × Array Nat :=
  let i := i0 + 1
  let rowneeded := r + (buildInc k).getD (i - 1) 0
  let L := TL.2.setIfInBounds ((buildOrd k).getD i 0) i
  if rowneeded ≥ M.nrows then (TL.1, L) else
    (TL.1.setRow i (makeTableRowW (TL.1.row i) (TL.1.row (i - 1)) (M.row rowneeded) (c / 64) M.width
        (tableMaskBegin M c) (leftMask (M.ncols % 64))), L)

/-- `mzd_make_table(M, r, c, k, T, L)`: `T`, `L` are the table and index array as they are before the call
    (`T` has the width of `M`; its row 0 is never written). -/
def makeTableW (M : Mzd) (r c k : Nat) (T : Mzd) (L : Array Nat) : Mzd × Array Nat :=
  (List.range (2 ^ k - 1)).foldl (makeTableStepW M r c k) (T, L.setIfInBounds 0 0)

/-! ### `mzd_process_rows` -/

/-- `*m++ ^= *t++` over the whole words `block .. width-1` -/
def xorWordsFrom (m t : Row) (block width : Nat) : Row :=
  m.mapIdx fun j w => if j < block ∨ j ≥ width then w else w ^^^ t.w j

/-- the table row that `mzd_process_rows` adds to row `r` (`none`: nothing is added).  For `k = 1` the rows
    are taken two at a time, tested with `row[block] & (1 << startcol % 64)` and served from table row 1
    directly; a left-over last row — and every row when `k ≠ 1` — goes through `L[mzd_read_bits_int(…)]`. -/
def processRowsSel (m : Row) (r startrow stoprow startcol k : Nat) (L : Array Nat) : Option Nat :=
  if k = 1 ∧ startrow + 2 * ((r - startrow) / 2) + 2 ≤ stoprow then
    if (m.w (startcol / 64) &&& ((1#64) <<< (startcol % 64))) ≠ 0 then some 1 else none
  else some (L.getD (readBitsRow m startcol k).toNat 0)

/-- `mzd_process_rows(M, startrow, stoprow, startcol, k, T, L)` -/
def processRowsW (M : Mzd) (startrow stoprow startcol k : Nat) (T : Mzd) (L : Array Nat) : Mzd :=
  M.withRows (M.rows.mapIdx fun r m =>
    if startrow ≤ r ∧ r < stoprow then
      match processRowsSel m r startrow stoprow startcol k L with
      | some x => xorWordsFrom m (T.row x) (startcol / 64) M.width
      | none => m
    else m)

/-! ### `_mzd_mul_va` -/

/-- `_mzd_mul_va(C, v, A, clear)`: `mzd_set_ui(C, 0)` if `clear`, then for every set entry `v[i,j]`
    `mzd_combine(C, i, 0, C, i, 0, A, j, 0)`, which is `mzd_combine_even_in_place(C, i, 0, A, j, 0)`:
    whole words of row `j` of `A`, the last one under `C->high_bitmask`. -/
def mulVaW (C v A : Mzd) (clear : Bool) : Mzd :=
  let C := if clear then C.setUi 0 else C
  C.withRows (C.rows.mapIdx fun i c =>
    if i < v.nrows then
      (List.range v.ncols).foldl (fun c j =>
        if v.readBit i j then combineEvenInPlaceWords c (A.row j) 0 0 C.width C.hb else c) c
    else c)

/-! ### `_mzd_mul_naive` -/

/-- `parity[k] = a[0] & b[0]; for (ii = 1; ii < wide; ++ii) parity[k] ^= a[ii] & b[ii]` — ALL `wide = A->width`
    whole words of both rows (the whole-word loop of the C code runs `ii` downwards; XOR commutes). -/
def andWords (a b : Row) (wide : Nat) : Word :=
  (List.range (wide - 1)).foldl (fun p ii => p ^^^ (a.w (ii + 1) &&& b.w (ii + 1))) (a.w 0 &&& b.w 0)

/-- `_mzd_mul_naive(C, A, BT, clear)`: the clearing loop is that of `mzd_set_ui(C, 0)`;
    `eol` is the number of whole words of `C`; word `jw < eol` of row `i` gets
    `m4ri_parity64(parity)` with `parity[k] = andWords (A row i) (BT row 64·jw + k)`; the partial last word
    gets `m4ri_parity64(parity) & C->high_bitmask`, where only `parity[k]`, `k < ncols % 64`, are computed —
    the other entries of the `parity` array are left-overs of earlier iterations (`stale i k`, arbitrary). -/
def mulNaiveTW (C A BT : Mzd) (clear : Bool) (stale : Nat → Nat → Word := fun _ _ => 0) : Mzd :=
  let C := if clear then C.setUi 0 else C
  let eol := if C.ncols % 64 ≠ 0 then C.width - 1 else C.width
  let wide := A.width
  C.withRows (C.rows.mapIdx fun i c =>
    let a := A.row i
    c.mapIdx fun jw w =>
      if jw < eol then
        w ^^^ parity64 (fun k => andWords a (BT.row (64 * jw + k)) wide)
      else if jw = eol ∧ eol ≠ C.width then
        w ^^^ (parity64 (fun k =>
          if k < C.ncols % 64 then andWords a (BT.row (64 * eol + k)) wide else stale i k) &&& C.hb)
      else w)

/-- `mzd_mul_naive` / `mzd_addmul_naive` after the dimension checks: a thin `B` is transposed into a fresh
    owned matrix with `mzd_transpose(NULL, B)` and goes through `_mzd_mul_naive`, everything else through
    `_mzd_mul_va`.  `mzd_transpose` reads whole words, so for a source that is a window with a shared last word
    (`mzd_is_dangerous_window`) it first takes a masked copy `T = mzd_copy(NULL, B)` and transposes that; the
    copy is `Mzd.ofB B.toB` (entries of `B`, zero padding), which for an owned `B` is `B` itself
    (`Mzd.ofB_toB`).  `Tr.transposeMzd` is the kernel on an owned source. -/
def mulNaiveW (C A B : Mzd) (clear : Bool) (thin : Nat := 54) (stale : Nat → Nat → Word := fun _ _ => 0) : Mzd :=
  if B.ncols < thin then mulNaiveTW C A (Tr.transposeMzd (Mzd.ofB B.toB)) clear stale else mulVaW C A B clear

/-! ### `_mzd_mul_m4rm` -/

/-- one table pass of `_mzd_mul_m4rm`: `mzd_make_table(B, col, 0, kbits, T, L)` into the table storage `T`, `L`,
    then for every row `j` of `C`: `x = L[sel j]`, `c[ii] ^= T[x][ii]` for ALL `ii < C->width` (whole words, no
    mask).  `sel j` is the `kbits`-bit pattern read from row `j` of `A`
    (`mzd_read_bits_int(A, j, col, kbits)`, or `(a >> z·k) & bm` of the wider read of the main loop).
    Returns the new `C` and the table storage. -/
def m4rmPassW (C : Mzd) (sel : Nat → Nat) (B : Mzd) (col kbits : Nat) (T : Mzd) (L : Array Nat) :
    Mzd × Mzd × Array Nat :=
  let TL := makeTableW B col 0 kbits T L
  (C.withRows (C.rows.mapIdx fun j c =>
      let x := TL.2.getD (sel j) 0
      xorWordsFrom c (TL.1.row x) 0 C.width), TL.1, TL.2)

/-- the state of `_mzd_mul_m4rm`: the destination and the `ntables` tables `T[z]`, `L[z]` -/
abbrev M4rmState := Mzd × Array (Mzd × Array Nat)

/-- a pass with table number `z` -/
def m4rmStepW (B : Mzd) (st : M4rmState) (z : Nat) (sel : Nat → Nat) (col kbits : Nat) : M4rmState :=
  let TL := st.2.getD z (Mzd.zero 0 0, #[])
  let r := m4rmPassW st.1 sel B col kbits TL.1 TL.2
  (r.1, st.2.setIfInBounds z (r.2.1, r.2.2))

/-- `T[z] = mzd_init(2^k, b_nc)` (zero), `L[z]` = a slice of a `malloc`ed buffer (`junk`).  (With SSE2 the C code
    makes `T[z]` a window into a zero-initialised, 64 columns wider `Talign[z]` that nothing else writes: as a
    view it is the same value — `2^k × b_nc`, all stored bits zero.) -/
def m4rmTables (k bnc ntables : Nat) (junk : Nat → Nat) : Array (Mzd × Array Nat) :=
  (Array.range ntables).map fun _ => (Mzd.zero (2 ^ k) bnc, (Array.range (2 ^ k)).map junk)

/-- `(a >> z·k) & bm` for `a = mzd_read_bits(A, j, col, kk)` -/
def m4rmSelMain (A : Mzd) (col kk z k : Nat) (j : Nat) : Nat :=
  ((A.readBits j col kk >>> (z * k)) &&& BitVec.ofNat 64 (2 ^ k - 1)).toNat

/-- `mzd_read_bits_int(A, j, col, kbits)` -/
def m4rmSelRest (A : Mzd) (col kbits : Nat) (j : Nat) : Nat := (A.readBits j col kbits).toNat

/-- `_mzd_mul_m4rm(C, A, B, k, clear)`.  As in the R-level model `BMat.m4rm`: `auto` is the value of the
    floating-point heuristic for `k = 0`, `junk` the heap content behind the `L` arrays, and the `ntables`
    tables of one main-loop iteration are applied one after the other (`_mzd_combine_8` XORs the eight table rows
    into the row of `C` in one sweep over its `wide = C->width` words; the tables live in separate storage, and
    XOR is associative).  The table storage is allocated once and re-used by every pass, as in C: the remainder
    loops use `T[0]`, `L[0]`, the last one with `a_nc % k < k` bits. -/
def m4rmW (C A B : Mzd) (k : Nat) (clear : Bool) (auto : Nat := 4) (junk : Nat → Nat := fun _ => 0)
    (ntables : Nat := 8) (thin : Nat := 54) (stale : Nat → Nat → Word := fun _ _ => 0) : Mzd :=
  if B.ncols < thin ∨ A.nrows < 16 then mulNaiveW C A B clear thin stale else
  let C := if clear then C.setUi 0 else C
  let k := BMat.m4rmClipK k auto
  let kk := ntables * k
  let end_ := A.ncols / kk
  let st : M4rmState := (C, m4rmTables k B.ncols ntables junk)
  let st := (List.range end_).foldl (fun st i =>
    (List.range ntables).foldl (fun st z =>
      m4rmStepW B st z (m4rmSelMain A (kk * i) kk z k) (kk * i + k * z) k) st) st
  if A.ncols % kk ≠ 0 then
    let lo := kk / k * end_
    let hi := A.ncols / k
    let st := (List.range' lo (hi - lo)).foldl (fun st i =>
      m4rmStepW B st 0 (m4rmSelRest A (k * i) k) (k * i) k) st
    if A.ncols % k ≠ 0 then
      (m4rmStepW B st 0 (m4rmSelRest A (k * (A.ncols / k)) (A.ncols % k)) (k * (A.ncols / k)) (A.ncols % k)).1
    else st.1
  else st.1

end W
end Mzd
end M4ri
