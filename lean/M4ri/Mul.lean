/-
  R/B storeys: every multiplication route of C01 on rows-as-`Nat`.
    mzd.c            : `_mzd_mul_va`, `_mzd_mul_naive`, `mzd_mul_naive`, `mzd_addmul_naive`
    brilliantrussian.c: `_mzd_mul_m4rm`, `mzd_mul_m4rm`, `mzd_addmul_m4rm`
    strassen.c       : `_mzd_mul_even`, `_mzd_sqr_even`, `_mzd_addmul_even`, `_mzd_addsqr_even`,
                       `mzd_mul`, `mzd_addmul`
  Destination `C` is passed and returned (in-place update becomes "return the new value").
-/
import M4ri.Gray
import M4ri.Gen.Params
namespace M4ri
namespace BMat

/-- window `mzd_init_window(M, lowr, lowc, highr, highc)` as a value (rows clamped like the C code) -/
def sub (M : BMat) (lowr lowc highr highc : Nat) : BMat :=
  let nr := min (highr - lowr) (M.nrows - lowr)
  ⟨nr, highc - lowc, (Array.range nr).map fun i => (M.row (lowr + i) >>> lowc) % 2 ^ (highc - lowc)⟩

/-- write `S` back into `M` at `(lowr, lowc)` (what operating through a window does to the parent) -/
def paste (M : BMat) (lowr lowc : Nat) (S : BMat) : BMat :=
  { M with rows := M.rows.mapIdx fun i r =>
      if lowr ≤ i ∧ i < lowr + S.nrows then
        let m := (2 ^ S.ncols - 1) <<< lowc
        (r ^^^ (r &&& m)) ||| ((S.row (i - lowr) % 2 ^ S.ncols) <<< lowc)
      else r }

/-- parity of the bit-wise AND: one dot product -/
def dot (a b : Nat) : Bool := (List.range (a &&& b).log2.succ).foldl (fun p i => p != (a &&& b).testBit i) false

/-- `_mzd_mul_va(C, v, A, clear)`: for every set entry `v[i,j]`, row `j` of `A` is added to row `i` of `C` -/
def mulVa (C v A : BMat) (clear : Bool) : BMat :=
  let C := if clear then zero C.nrows C.ncols else C
  { C with rows := C.rows.mapIdx fun i c =>
      if i < v.nrows then
        (List.range v.ncols).foldl (fun acc j => if v.get i j then acc ^^^ (A.row j % 2 ^ C.ncols) else acc) c
      else c }

/-- `_mzd_mul_naive(C, A, BT, clear)`: entry `(i,j)` is the dot product of row `i` of `A` and row `j` of `BT`
    (64 of them at a time through the parity network in C; blocking over rows does not change the result) -/
def mulNaiveT (C A BT : BMat) (clear : Bool) : BMat :=
  let C := if clear then zero C.nrows C.ncols else C
  { C with rows := C.rows.mapIdx fun i c =>
      (List.range C.ncols).foldl (fun acc j => if dot (A.row i) (BT.row j) then acc ^^^ (1 <<< j) else acc) c }

/-- `mzd_mul_naive` / `mzd_addmul_naive` (after the dimension checks): thin `B` goes through the transposed
    kernel, everything else through `_mzd_mul_va` -/
def mulNaive (C A B : BMat) (clear : Bool) (thin : Nat := 54) : BMat :=
  if B.ncols < thin then mulNaiveT C A B.transpose clear else mulVa C A B clear

/-- `k` after the clipping of `_mzd_mul_m4rm` (`k = 0` selects the heuristic value `auto`) -/
def m4rmClipK (k auto : Nat) : Nat :=
  let k := if k = 0 then auto else k
  if k < 2 then 2 else if k > 8 then 8 else k

/-- one table pass: `C[j] ^= T[L[bits of A[j] at column `col`, width `kbits`]]` for all rows -/
def m4rmPass (C A : BMat) (B : BMat) (col kbits : Nat) (junk : Nat → Nat) : BMat :=
  let fresh := freshTable kbits junk
  let TL := makeTable B.rows B.nrows B.ncols col 0 kbits fresh.1 fresh.2
  { C with rows := C.rows.mapIdx fun j c =>
      let x := TL.2.getD (bitsAt (A.row j) col kbits) 0
      c ^^^ TL.1.getD x 0 }

/-- `_mzd_mul_m4rm(C, A, B, k, clear)`. `ntables` tables of `k` bits each are used per pass over `A`'s
    columns (`kk = ntables·k` columns at a time, here as `ntables` consecutive single-table passes — XOR
    is associative and the tables of one pass are built from disjoint rows of `B`), then single tables
    for the remaining whole `k`-blocks, then one short table for `ncols(A) mod k`.
    `auto` is the value of the floating-point heuristic when `k = 0`; `junk` the heap content behind `L`. -/
def m4rm (C A B : BMat) (k : Nat) (clear : Bool) (auto : Nat := 4) (junk : Nat → Nat := fun _ => 0)
    (ntables : Nat := 8) (thin : Nat := 54) : BMat :=
  if B.ncols < thin ∨ A.nrows < 16 then mulNaive C A B clear thin else
  let C := if clear then zero C.nrows C.ncols else C
  let k := m4rmClipK k auto
  let kk := ntables * k
  let end_ := A.ncols / kk
  -- main passes: i < end, z < ntables: table from rows kk*i + k*z .. of B, bits of A at the same columns
  let C := (List.range end_).foldl (fun C i =>
    (List.range ntables).foldl (fun C z => m4rmPass C A B (kk * i + k * z) k junk) C) C
  if A.ncols % kk ≠ 0 then
    let lo := kk / k * end_
    let hi := A.ncols / k
    let C := (List.range' lo (hi - lo)).foldl (fun C i => m4rmPass C A B (k * i) k junk) C
    if A.ncols % k ≠ 0 then m4rmPass C A B (k * (A.ncols / k)) (A.ncols % k) junk else C
  else C

/-- `closer(a, cutoff)` of strassen.c — regenerated from the source by the translator -/
def closer (a cutoff : Nat) : Bool := Gen.closer a cutoff

/-- the split of strassen.c: `mult` doubles while `width > cutoff`; half-sizes rounded down to words -/
def strassenMult (w cutoff : Nat) : Nat :=
  let rec go (fuel width mult : Nat) : Nat :=
    match fuel with
    | 0 => mult
    | fuel + 1 => if width > cutoff then go fuel (width / 2) (mult * 2) else mult
  go 64 w 64

def halfSplit (m mult : Nat) : Nat := (((m - m % mult) / 64) >>> 1) * 64

/-- entry-wise sum restricted to the common shape of `_mzd_add` (rows: minimum; columns: those of `A`) -/
def addM (A B : BMat) : BMat :=
  ⟨min A.nrows B.nrows, A.ncols, (Array.range (min A.nrows B.nrows)).map fun i => (A.row i ^^^ B.row i) % 2 ^ A.ncols⟩

mutual
/-- `_mzd_mul_even(C, A, B, cutoff)`; returns the new `C`. `fuel` bounds the recursion depth; running out
    of fuel falls back to the base case (which is also a correct product), so no theorem depends on it. -/
def mulEven (fuel : Nat) (C A B : BMat) (cutoff : Nat) : BMat :=
  if C.nrows = 0 ∨ C.ncols = 0 then C else
  let m := A.nrows; let k := A.ncols; let n := B.ncols
  match fuel with
  | 0 => m4rm C A B 0 true
  | fuel + 1 =>
  if closer m cutoff ∨ closer k cutoff ∨ closer n cutoff then m4rm C A B 0 true else
  let mult := strassenMult (min (min m n) k / 2) cutoff
  let mmm := halfSplit m mult; let kkk := halfSplit k mult; let nnn := halfSplit n mult
  let A11 := A.sub 0 0 mmm kkk; let A12 := A.sub 0 kkk mmm (2*kkk)
  let A21 := A.sub mmm 0 (2*mmm) kkk; let A22 := A.sub mmm kkk (2*mmm) (2*kkk)
  let B11 := B.sub 0 0 kkk nnn; let B12 := B.sub 0 nnn kkk (2*nnn)
  let B21 := B.sub kkk 0 (2*kkk) nnn; let B22 := B.sub kkk nnn (2*kkk) (2*nnn)
  let C11 := C.sub 0 0 mmm nnn; let C12 := C.sub 0 nnn mmm (2*nnn)
  let C21 := C.sub mmm 0 (2*mmm) nnn; let C22 := C.sub mmm nnn (2*mmm) (2*nnn)
  let Wkn := addM B22 B12
  let Wmk := addM A22 A12
  let C21 := mulEven fuel C21 Wmk Wkn cutoff
  let Wmk := addM A22 A21
  let Wkn := addM B22 B21
  let C22 := mulEven fuel C22 Wmk Wkn cutoff
  let Wkn := addM Wkn B12
  let Wmk := addM Wmk A12
  let C11 := mulEven fuel C11 Wmk Wkn cutoff
  let Wmk := addM Wmk A11
  let C12 := mulEven fuel C12 Wmk B12 cutoff
  let C12 := addM C12 C22
  let Wmk := mulTop fuel (zero A12.nrows B21.ncols) A12 B21 cutoff false
  let C11 := addM C11 Wmk
  let C12 := addM C11 C12
  let C11 := addM C21 C11
  let Wkn := addM Wkn B11
  let C21 := mulEven fuel C21 A21 Wkn cutoff
  let C21 := addM C11 C21
  let C22 := addM C22 C11
  let C11 := mulEven fuel C11 A11 B11 cutoff
  let C11 := addM C11 Wmk
  let C := (((C.paste 0 0 C11).paste 0 nnn C12).paste mmm 0 C21).paste mmm nnn C22
  let nnn := 2 * nnn
  let C := if n > nnn then
      C.paste 0 nnn (m4rm (C.sub 0 nnn m n) A (B.sub 0 nnn k n) 0 true) else C
  let mmm := 2 * mmm
  let C := if m > mmm then
      C.paste mmm 0 (m4rm (C.sub mmm 0 m nnn) (A.sub mmm 0 m k) (B.sub 0 0 k nnn) 0 true) else C
  let kkk := 2 * kkk
  if k > kkk then
    let Cb := C.sub 0 0 mmm nnn
    -- `mzd_addmul_m4rm` returns at once on an empty destination
    if Cb.ncols = 0 ∨ Cb.nrows = 0 then C else
    C.paste 0 0 (m4rm Cb (A.sub 0 kkk mmm k) (B.sub kkk 0 k nnn) 0 false)
  else C

/-- `_mzd_sqr_even(C, A, cutoff)` -/
def sqrEven (fuel : Nat) (C A : BMat) (cutoff : Nat) : BMat :=
  let m := A.nrows
  match fuel with
  | 0 => m4rm C A A 0 true
  | fuel + 1 =>
  if closer m cutoff then m4rm C A A 0 true else
  let mult := strassenMult (m / 2) cutoff
  let mmm := halfSplit m mult
  let A11 := A.sub 0 0 mmm mmm; let A12 := A.sub 0 mmm mmm (2*mmm)
  let A21 := A.sub mmm 0 (2*mmm) mmm; let A22 := A.sub mmm mmm (2*mmm) (2*mmm)
  let C11 := C.sub 0 0 mmm mmm; let C12 := C.sub 0 mmm mmm (2*mmm)
  let C21 := C.sub mmm 0 (2*mmm) mmm; let C22 := C.sub mmm mmm (2*mmm) (2*mmm)
  let Wkn := addM A22 A12
  let C21 := sqrEven fuel C21 Wkn cutoff
  let Wkn := addM A22 A21
  let C22 := sqrEven fuel C22 Wkn cutoff
  let Wkn := addM Wkn A12
  let C11 := sqrEven fuel C11 Wkn cutoff
  let Wkn := addM Wkn A11
  let C12 := mulEven fuel C12 Wkn A12 cutoff
  let C12 := addM C12 C22
  let Wmk := mulTop fuel (zero A12.nrows A21.ncols) A12 A21 cutoff false
  let C11 := addM C11 Wmk
  let C12 := addM C11 C12
  let C11 := addM C21 C11
  let C21 := mulEven fuel C21 A21 Wkn cutoff
  let C21 := addM C11 C21
  let C22 := addM C22 C11
  let C11 := sqrEven fuel C11 A11 cutoff
  let C11 := addM C11 Wmk
  let C := (((C.paste 0 0 C11).paste 0 mmm C12).paste mmm 0 C21).paste mmm mmm C22
  let mmm := 2 * mmm
  if m > mmm then
    let C := C.paste 0 mmm (m4rm (C.sub 0 mmm m m) A (A.sub 0 mmm m m) 0 true)
    let C := C.paste mmm 0 (m4rm (C.sub mmm 0 m mmm) (A.sub mmm 0 m m) (A.sub 0 0 m mmm) 0 true)
    let Cb := C.sub 0 0 mmm mmm
    if Cb.ncols = 0 ∨ Cb.nrows = 0 then C else
    C.paste 0 0 (m4rm Cb (A.sub 0 mmm mmm m) (A.sub mmm 0 m mmm) 0 false)
  else C

/-- `mzd_mul(C, A, B, cutoff)` after the wrapper's cut-off rounding; `same` = the two factors are the same object -/
def mulTop (fuel : Nat) (C A B : BMat) (cutoff : Nat) (same : Bool) : BMat :=
  match fuel with
  | 0 => m4rm C A B 0 true
  | fuel + 1 =>
    let cutoff := cutoff / 64 * 64
    let cutoff := if cutoff < 64 then 64 else cutoff
    if same then sqrEven fuel C A cutoff else mulEven fuel C A B cutoff
end

mutual
/-- `_mzd_addmul_even(C, A, B, cutoff)` -/
def addmulEven (fuel : Nat) (C A B : BMat) (cutoff : Nat) : BMat :=
  if C.nrows = 0 ∨ C.ncols = 0 then C else
  let m := A.nrows; let k := A.ncols; let n := B.ncols
  match fuel with
  | 0 => m4rm C A B 0 false
  | fuel + 1 =>
  if closer m cutoff ∨ closer k cutoff ∨ closer n cutoff then m4rm C A B 0 false else
  let mult := strassenMult (min (min m n) k / 2) cutoff
  let mmm := halfSplit m mult; let kkk := halfSplit k mult; let nnn := halfSplit n mult
  let A11 := A.sub 0 0 mmm kkk; let A12 := A.sub 0 kkk mmm (2*kkk)
  let A21 := A.sub mmm 0 (2*mmm) kkk; let A22 := A.sub mmm kkk (2*mmm) (2*kkk)
  let B11 := B.sub 0 0 kkk nnn; let B12 := B.sub 0 nnn kkk (2*nnn)
  let B21 := B.sub kkk 0 (2*kkk) nnn; let B22 := B.sub kkk nnn (2*kkk) (2*nnn)
  let C11 := C.sub 0 0 mmm nnn; let C12 := C.sub 0 nnn mmm (2*nnn)
  let C21 := C.sub mmm 0 (2*mmm) nnn; let C22 := C.sub mmm nnn (2*mmm) (2*nnn)
  let S := addM A22 A21
  let T := addM B22 B21
  let U := mulEven fuel (zero mmm nnn) S T cutoff
  let C22 := addM U C22
  let C12 := addM U C12
  let U := mulEven fuel U A12 B21 cutoff
  let C11 := addM U C11
  let C11 := addmulEven fuel C11 A11 B11 cutoff
  let S := addM S A12
  let T := addM T B12
  let U := addmulEven fuel U S T cutoff
  let C12 := addM C12 U
  let S := addM A11 S
  let C12 := addmulEven fuel C12 S B12 cutoff
  let T := addM B11 T
  let C21 := addmulEven fuel C21 A21 T cutoff
  let S := addM A22 A12
  let T := addM B22 B12
  let U := addmulEven fuel U S T cutoff
  let C21 := addM C21 U
  let C22 := addM C22 U
  let C := (((C.paste 0 0 C11).paste 0 nnn C12).paste mmm 0 C21).paste mmm nnn C22
  let nnn := 2 * nnn
  let C := if n > nnn then
      let Cl := C.sub 0 nnn m n
      if Cl.ncols = 0 ∨ Cl.nrows = 0 then C else C.paste 0 nnn (m4rm Cl A (B.sub 0 nnn k n) 0 false) else C
  let mmm := 2 * mmm
  let C := if m > mmm then
      let Cl := C.sub mmm 0 m nnn
      if Cl.ncols = 0 ∨ Cl.nrows = 0 then C else
      C.paste mmm 0 (m4rm Cl (A.sub mmm 0 m k) (B.sub 0 0 k nnn) 0 false) else C
  let kkk := 2 * kkk
  if k > kkk then
    let Cb := C.sub 0 0 mmm nnn
    if Cb.ncols = 0 ∨ Cb.nrows = 0 then C else
    C.paste 0 0 (m4rm Cb (A.sub 0 kkk mmm k) (B.sub kkk 0 k nnn) 0 false)
  else C

/-- `_mzd_addsqr_even(C, A, cutoff)` -/
def addsqrEven (fuel : Nat) (C A : BMat) (cutoff : Nat) : BMat :=
  if C.nrows = 0 then C else
  let m := A.nrows
  match fuel with
  | 0 => m4rm C A A 0 false
  | fuel + 1 =>
  if closer m cutoff then (if C.ncols = 0 then C else m4rm C A A 0 false) else
  let mult := strassenMult (m / 2) cutoff
  let mmm := halfSplit m mult
  let A11 := A.sub 0 0 mmm mmm; let A12 := A.sub 0 mmm mmm (2*mmm)
  let A21 := A.sub mmm 0 (2*mmm) mmm; let A22 := A.sub mmm mmm (2*mmm) (2*mmm)
  let C11 := C.sub 0 0 mmm mmm; let C12 := C.sub 0 mmm mmm (2*mmm)
  let C21 := C.sub mmm 0 (2*mmm) mmm; let C22 := C.sub mmm mmm (2*mmm) (2*mmm)
  let S := addM A22 A21
  let U := sqrEven fuel (zero mmm mmm) S cutoff
  let C22 := addM U C22
  let C12 := addM U C12
  let U := mulEven fuel U A12 A21 cutoff
  let C11 := addM U C11
  let C11 := addsqrEven fuel C11 A11 cutoff
  let S := addM S A12
  let U := addsqrEven fuel U S cutoff
  let C12 := addM C12 U
  let S := addM A11 S
  let C12 := addmulEven fuel C12 S A12 cutoff
  let C21 := addmulEven fuel C21 A21 S cutoff
  let S := addM A22 A12
  let U := addsqrEven fuel U S cutoff
  let C21 := addM C21 U
  let C22 := addM C22 U
  let C := (((C.paste 0 0 C11).paste 0 mmm C12).paste mmm 0 C21).paste mmm mmm C22
  let mmm := 2 * mmm
  if m > mmm then
    let Cl := C.sub 0 mmm m m
    let C := if Cl.ncols = 0 ∨ Cl.nrows = 0 then C else C.paste 0 mmm (m4rm Cl A (A.sub 0 mmm m m) 0 false)
    let Cl := C.sub mmm 0 m mmm
    let C := if Cl.ncols = 0 ∨ Cl.nrows = 0 then C else
      C.paste mmm 0 (m4rm Cl (A.sub mmm 0 m m) (A.sub 0 0 m mmm) 0 false)
    let Cb := C.sub 0 0 mmm mmm
    if Cb.ncols = 0 ∨ Cb.nrows = 0 then C else
    C.paste 0 0 (m4rm Cb (A.sub 0 mmm mmm m) (A.sub mmm 0 m mmm) 0 false)
  else C
end

/-- `mzd_addmul(C, A, B, cutoff)` after the wrapper's checks -/
def addmulTop (fuel : Nat) (C A B : BMat) (cutoff : Nat) (same : Bool) : BMat :=
  let cutoff := cutoff / 64 * 64
  let cutoff := if cutoff < 64 then 64 else cutoff
  if A.nrows = 0 ∨ A.ncols = 0 ∨ B.ncols = 0 then C else
  if same then addsqrEven fuel C A cutoff else addmulEven fuel C A B cutoff

end BMat
end M4ri
