/-
  W storey, part 2: matrices as rows of 64-bit words, mirroring `mzd_t` as far as the *viewed block*
  is concerned.  A value of type `Mzd` is what a (possibly windowed) `mzd_t` can see: `nrows` rows of
  `width = ⌈ncols/64⌉` words.  Bits at positions `≥ ncols` of the last word ("excess bits") are part of
  the value: for a matrix that owns its storage they must be zero, for a window they belong to the
  parent and must be preserved by every writer.

  The functions below mirror mzd.h / mzd.c / mzp.c one for one (loops are written in closed form per
  word; unrolled variants and SSE2 bodies are modelled by the loop they unroll).
  Core Lean only.
-/
import M4ri.Word
namespace M4ri

abbrev Row := Array Word

/-- total word read (out-of-range reads give 0; in-range-ness is a separate theorem) -/
@[inline] def Row.w (r : Row) (i : Nat) : Word := r.getD i 0

structure Mzd where
  nrows : Nat
  ncols : Nat
  rows  : Array Row
deriving Repr, BEq, Inhabited

def widthOf (ncols : Nat) : Nat := (ncols + 63) / 64

namespace Mzd

def width (M : Mzd) : Nat := widthOf M.ncols
/-- `high_bitmask` -/
def hb (M : Mzd) : Word := leftMask (M.ncols % 64)

def row (M : Mzd) (i : Nat) : Row := M.rows.getD i #[]
def withRows (M : Mzd) (rows : Array Row) : Mzd := { M with rows := rows }
def setRow (M : Mzd) (i : Nat) (r : Row) : Mzd := M.withRows (M.rows.setIfInBounds i r)

/-- entry `(i,j)` as stored (also defined for excess positions `ncols ≤ j < 64·width`) -/
def bit (M : Mzd) (i j : Nat) : Bool := ((M.row i).w (j / 64)).getLsbD (j % 64)

/-- `mzd_init(r, c)`: all zero -/
def zero (r c : Nat) : Mzd := ⟨r, c, Array.replicate r (Array.replicate (widthOf c) 0)⟩

/-- well-formed: right number of rows and words -/
def WF (M : Mzd) : Prop := M.rows.size = M.nrows ∧ ∀ i, i < M.nrows → (M.row i).size = M.width

/-- the padding invariant of matrices that own their storage -/
def padZero (M : Mzd) : Prop :=
  ∀ i j, i < M.nrows → M.ncols ≤ j → j < 64 * M.width → M.bit i j = false

/-! ### bit accessors (mzd.h:440-460) -/

def readBit (M : Mzd) (r c : Nat) : Bool := M.bit r c

def writeBitRow (r : Row) (c : Nat) (v : Bool) : Row :=
  r.modify (c / 64) fun w => (w &&& ~~~((1#64) <<< (c % 64))) ||| ((if v then 1#64 else 0#64) <<< (c % 64))

def writeBit (M : Mzd) (r c : Nat) (v : Bool) : Mzd :=
  M.setRow r (writeBitRow (M.row r) c v)

/-! ### bit ranges (mzd.h:472-523, 892-901) -/

/-- `mzd_read_bits(M, x, y, n)`, `1 ≤ n ≤ 64` -/
def readBitsRow (r : Row) (y n : Nat) : Word :=
  let spot := y % 64
  let block := y / 64
  -- spill = spot + n - 64 (C int); spill ≤ 0 ↔ spot + n ≤ 64
  let temp : Word :=
    if spot + n ≤ 64 then r.w block <<< (64 - (spot + n))
    else (r.w (block + 1) <<< (64 - (spot + n - 64))) ||| (r.w block >>> (spot + n - 64))
  temp >>> (64 - n)

def readBits (M : Mzd) (x y n : Nat) : Word := readBitsRow (M.row x) y n

/-- `mzd_xor_bits` -/
def xorBitsRow (r : Row) (y n : Nat) (values : Word) : Row :=
  let spot := y % 64
  let block := y / 64
  let r := r.modify block fun w => w ^^^ (values <<< spot)
  if n > 64 - spot then r.modify (block + 1) fun w => w ^^^ (values >>> (64 - spot)) else r

def xorBits (M : Mzd) (x y n : Nat) (values : Word) : Mzd := M.setRow x (xorBitsRow (M.row x) y n values)

/-- `mzd_and_bits` -/
def andBitsRow (r : Row) (y n : Nat) (values : Word) : Row :=
  let values := values >>> (64 - n)
  let mask : Word := ffff >>> (64 - n)
  let spot := y % 64
  let block := y / 64
  let r := r.modify block fun w => w &&& ((values <<< spot) ||| ~~~(mask <<< spot))
  if n > 64 - spot then r.modify (block + 1) fun w => w &&& ((values >>> (64 - spot)) ||| ~~~(mask >>> (64 - spot))) else r

def andBits (M : Mzd) (x y n : Nat) (values : Word) : Mzd := M.setRow x (andBitsRow (M.row x) y n values)

/-- `mzd_clear_bits` -/
def clearBitsRow (r : Row) (y n : Nat) : Row :=
  let values : Word := ffff >>> (64 - n)
  let spot := y % 64
  let block := y / 64
  let r := r.modify block fun w => w &&& ~~~(values <<< spot)
  if n > 64 - spot then r.modify (block + 1) fun w => w &&& ~~~(values >>> (64 - spot)) else r

def clearBits (M : Mzd) (x y n : Nat) : Mzd := M.setRow x (clearBitsRow (M.row x) y n)

/-! ### row operations (mzd.h:265-298, 537-582; mzd.c:188-207) -/

/-- the two rows after `_mzd_row_swap(M, rowa, rowb, startblock)` -/
def rowSwapWords (a b : Row) (startblock width : Nat) (maskEnd : Word) : Row × Row :=
  (a.mapIdx fun i w =>
      if i < startblock then w else if i + 1 < width then b.w i
      else if i + 1 = width then merge w (b.w i) maskEnd else w,
   b.mapIdx fun i w =>
      if i < startblock then w else if i + 1 < width then a.w i
      else if i + 1 = width then merge w (a.w i) maskEnd else w)

def rowSwapFrom (M : Mzd) (rowa rowb startblock : Nat) : Mzd :=
  if rowa = rowb ∨ startblock ≥ M.width then M else
    let p := rowSwapWords (M.row rowa) (M.row rowb) startblock M.width M.hb
    (M.setRow rowa p.1).setRow rowb p.2

/-- `mzd_row_swap` -/
def rowSwap (M : Mzd) (rowa rowb : Nat) : Mzd := rowSwapFrom M rowa rowb 0

/-- destination row after `mzd_row_add_offset(M, dstrow, srcrow, coloffset)`:
    first word under `mask_begin`, middle words whole, and the final `dst[i-1] ^= src[i-1] & ~mask_end`
    which takes the excess bits out again. -/
def rowAddOffsetWords (dst src : Row) (coloffset width : Nat) (maskEnd : Word) : Row :=
  let startblock := coloffset / 64
  let maskBegin := rightMask (64 - coloffset % 64)
  dst.mapIdx fun i w =>
    if i < startblock ∨ i ≥ width then w else
      let s := src.w i
      let s := if i = startblock then s &&& maskBegin else s
      let w := w ^^^ s
      if i + 1 = width then w ^^^ (src.w i &&& ~~~maskEnd) else w

def rowAddOffset (M : Mzd) (dstrow srcrow coloffset : Nat) : Mzd :=
  M.setRow dstrow (rowAddOffsetWords (M.row dstrow) (M.row srcrow) coloffset M.width M.hb)

/-- `mzd_row_add(M, sourcerow, destrow)` -/
def rowAdd (M : Mzd) (sourcerow destrow : Nat) : Mzd := rowAddOffset M destrow sourcerow 0

/-- `mzd_row_clear_offset` (repaired form: keep the columns below `coloffset` of the first word,
    clear from `coloffset` on; excess bits of the last word belong to the parent and are kept) -/
def rowClearOffsetWords (r : Row) (coloffset width : Nat) (maskEnd : Word) : Row :=
  let startblock := coloffset / 64
  r.mapIdx fun i w =>
    if i < startblock ∨ i ≥ width then w else
      let keepLow : Word := if i = startblock ∧ coloffset % 64 ≠ 0 then leftMask (coloffset % 64) else 0
      let keep := if i + 1 = width then keepLow ||| ~~~maskEnd else keepLow
      w &&& keep

def rowClearOffset (M : Mzd) (row coloffset : Nat) : Mzd :=
  M.setRow row (rowClearOffsetWords (M.row row) coloffset M.width M.hb)

/-! ### column swap (mzd.h:325-426) -/

def colSwapRow (r : Row) (cola colb : Nat) : Row :=
  let aWord := cola / 64
  let bWord := colb / 64
  let aBit := cola % 64
  let bBit := colb % 64
  let maxBit := max aBit bBit
  let minBit := aBit + bBit - maxBit
  let offset := maxBit - minBit
  let mask : Word := (1#64) <<< minBit
  if aWord = bWord then
    r.modify aWord fun w =>
      let x := (w ^^^ (w >>> offset)) &&& mask
      w ^^^ (x ||| (x <<< offset))
  else
    let (minW, maxW) := if minBit = aBit then (aWord, bWord) else (bWord, aWord)
    let x := (r.w minW ^^^ (r.w maxW >>> offset)) &&& mask
    (r.modify minW fun w => w ^^^ x).modify maxW fun w => w ^^^ (x <<< offset)

/-- `mzd_col_swap_in_rows(M, cola, colb, start_row, stop_row)` -/
def colSwapInRows (M : Mzd) (cola colb startRow stopRow : Nat) : Mzd :=
  if cola = colb then M else
  M.withRows (M.rows.mapIdx fun i r => if startRow ≤ i ∧ i < stopRow then colSwapRow r cola colb else r)

def colSwap (M : Mzd) (cola colb : Nat) : Mzd := colSwapInRows M cola colb 0 M.nrows

/-! ### row combination (mzd.h:919-1080) -/

/-- `mzd_combine_even_in_place(A, a_row, a_startblock, B, b_row, b_startblock)` on the `A` row -/
def combineEvenInPlaceWords (a b : Row) (aStart bStart aWidth : Nat) (aMask : Word) : Row :=
  a.mapIdx fun i w =>
    if i < aStart ∨ i ≥ aWidth then w else
      let bw := b.w (i - aStart + bStart)
      if i + 1 = aWidth then w ^^^ (bw &&& aMask) else w ^^^ bw

/-- `mzd_combine_even(C, c_row, c_startblock, A, a_row, a_startblock, B, b_row, b_startblock)` on the `C` row;
    the number of words is taken from `A` (`A->width - a_startblock`), the mask from `C`. -/
def combineEvenWords (c a b : Row) (cStart aStart bStart aWidth : Nat) (cMask : Word) : Row :=
  c.mapIdx fun i w =>
    if i < cStart ∨ i - cStart + aStart ≥ aWidth then w else
      let k := i - cStart
      let x := a.w (k + aStart) ^^^ b.w (k + bStart)
      if k + aStart + 1 = aWidth then merge w x cMask else x

/-! ### masked whole-matrix writers (mzd.c) -/

/-- `mzd_set_ui(A, value)` -/
def setUi (A : Mzd) (value : Nat) : Mzd :=
  let cleared : Mzd := A.withRows (A.rows.map fun r =>
      r.mapIdx fun j w => if j + 1 < A.width then 0 else if j + 1 = A.width then w &&& ~~~A.hb else w)
  if value % 2 = 0 then cleared else
    (List.range (min A.nrows A.ncols)).foldl (fun M i => M.writeBit i i true) cleared

/-- `mzd_copy(N, P)` with a supplied destination at least as large as `P` -/
def copyInto (N P : Mzd) : Mzd :=
  N.withRows (N.rows.mapIdx fun i n =>
      if i < P.nrows then
        n.mapIdx fun j w =>
          if j + 1 < P.width then (P.row i).w j
          else if j + 1 = P.width then merge' w ((P.row i).w j) P.hb else w
      else n)

/-- `mzd_copy(NULL, P)` -/
def copyNew (P : Mzd) : Mzd := copyInto (zero P.nrows P.ncols) P

/-- `mzd_copy_row(B, i, A, j)` -/
def copyRow (B : Mzd) (i : Nat) (A : Mzd) (j : Nat) : Mzd :=
  let width := min B.width A.width - 1
  let a := A.row j
  let maskEnd := leftMask (A.ncols % 64)
  B.setRow i ((B.row i).mapIdx fun k w =>
    if k < width then a.w k else if k = width then merge' w (a.w k) maskEnd else w)

/-- `_mzd_add(C, A, B)` with three distinct value arguments; aliasing is resolved by the caller
    (the C code swaps `A`,`B` when `C == B`, which is invisible because XOR commutes). The
    width-specialised loops and `mzd_combine_even` all have this closed form: `A->width` words,
    last one merged under `C->high_bitmask`. -/
def addInto (C A B : Mzd) : Mzd :=
  let nrows := min (min A.nrows B.nrows) C.nrows
  C.withRows (C.rows.mapIdx fun i c =>
      if i < nrows then
        c.mapIdx fun j w =>
          if j + 1 < A.width then (A.row i).w j ^^^ (B.row i).w j
          else if j + 1 = A.width then merge w ((A.row i).w j ^^^ (B.row i).w j) C.hb else w
      else c)

/-- `mzd_submatrix(S, M, startrow, startcol, endrow, endcol)` into a supplied `S` -/
def submatrixInto (S M : Mzd) (startrow startcol endrow endcol : Nat) : Mzd :=
  let nrows := endrow - startrow
  let ncols := endcol - startcol
  if startcol % 64 = 0 then
    let startword := startcol / 64
    S.withRows (S.rows.mapIdx fun i s =>
        if i < nrows then
          s.mapIdx fun j w =>
            if j < ncols / 64 then (M.row (startrow + i)).w (startword + j)
            else if j = ncols / 64 ∧ ncols % 64 ≠ 0 then
              (w &&& ~~~leftMask (ncols % 64)) ||| ((M.row (startrow + i)).w (startword + j) &&& leftMask (ncols % 64))
            else w
        else s)
  else
    -- j runs over multiples of 64 while j + 64 < ncols; the last chunk is merged under S->high_bitmask
    let full := (ncols - 1) / 64   -- number of whole-word chunks written (for ncols ≥ 1)
    S.withRows (S.rows.mapIdx fun i s =>
        if i < nrows then
          s.mapIdx fun j w =>
            if j < full then readBitsRow (M.row (startrow + i)) (startcol + 64 * j) 64
            else if j = full then
              (w &&& ~~~S.hb) ||| (readBitsRow (M.row (startrow + i)) (startcol + 64 * j) (ncols - 64 * j) &&& S.hb)
            else w
        else s)

def submatrixNew (M : Mzd) (startrow startcol endrow endcol : Nat) : Mzd :=
  submatrixInto (zero (endrow - startrow) (endcol - startcol)) M startrow startcol endrow endcol

/-- `mzd_concat(C, A, B)` into a supplied `C`: the words of `A` (last one under `A`'s mask), then `B` bit by bit -/
def concatInto (C A B : Mzd) : Mzd :=
  let C1 : Mzd := C.withRows (C.rows.mapIdx fun i c =>
      if i < A.nrows then c.mapIdx fun j w =>
        if j + 1 < A.width then (A.row i).w j
        else if j + 1 = A.width then merge' w ((A.row i).w j) A.hb else w
      else c)
  (List.range B.nrows).foldl (fun M i =>
    (List.range B.ncols).foldl (fun M j => M.writeBit i (j + A.ncols) (B.bit i j)) M) C1

def concatNew (A B : Mzd) : Mzd := concatInto (zero A.nrows (A.ncols + B.ncols)) A B

/-- `mzd_stack(C, A, B)` into a supplied `C`: the words of both, last one under `C`'s mask -/
def stackInto (C A B : Mzd) : Mzd :=
  C.withRows (C.rows.mapIdx fun i c =>
      if i < A.nrows then c.mapIdx fun j w =>
        if j + 1 < A.width then (A.row i).w j
        else if j + 1 = A.width then merge' w ((A.row i).w j) C.hb else w
      else if i < A.nrows + B.nrows then
        c.mapIdx fun j w =>
          if j + 1 < B.width then (B.row (i - A.nrows)).w j
          else if j + 1 = B.width then merge' w ((B.row (i - A.nrows)).w j) C.hb else w
      else c)

def stackNew (A B : Mzd) : Mzd := stackInto (zero (A.nrows + B.nrows) A.ncols) A B

/-- `mzd_extract_u(U, A)` -/
def extractUInto (U A : Mzd) : Mzd :=
  let k := min A.nrows A.ncols
  let U := submatrixInto U A 0 0 k k
  (List.range U.nrows).foldl (fun U i =>
    if i = 0 then U else
      let U := U.setRow i ((U.row i).mapIdx fun j w => if j < i / 64 then 0 else w)
      if i % 64 ≠ 0 then U.clearBits i ((i / 64) * 64) (i % 64) else U) U

def extractUNew (A : Mzd) : Mzd := let k := min A.nrows A.ncols; extractUInto (zero k k) A

/-- `mzd_extract_l(L, A)` -/
def extractLInto (L A : Mzd) : Mzd :=
  let k := min A.nrows A.ncols
  let L := submatrixInto L A 0 0 k k
  (List.range (L.nrows - 1)).foldl (fun L i =>
    let keep := (L.row i).w (L.width - 1) &&& ~~~L.hb
    let L := if 64 - (i + 1) % 64 ≠ 0 then L.clearBits i (i + 1) (64 - (i + 1) % 64) else L
    L.setRow i ((L.row i).mapIdx fun j w =>
      let w := if j ≥ i / 64 + 1 ∧ j < L.width then 0 else w
      if j + 1 = L.width then w ||| keep else w)) L

def extractLNew (A : Mzd) : Mzd := let k := min A.nrows A.ncols; extractLInto (zero k k) A

/-! ### observers (mzd.c:1315-1360, 1630-1842) -/

/-- `mzd_equal` (the `A == B` pointer shortcut is subsumed: equal values compare equal) -/
def equal (A B : Mzd) : Bool :=
  if A.nrows ≠ B.nrows then false else
  if A.ncols ≠ B.ncols then false else
  (List.range A.nrows).all fun i =>
    (List.range (A.width - 1)).all (fun j => (A.row i).w j == (B.row i).w j) &&
    ((((A.row i).w (A.width - 1)) ^^^ ((B.row i).w (A.width - 1))) &&& A.hb) == 0

/-- one row of `mzd_cmp`: last word (masked) first, then the words downwards -/
def cmpRow (a b : Row) (n : Nat) (mask : Word) : Int :=
  let la := a.w n &&& mask
  let lb := b.w n &&& mask
  if la < lb then -1 else if la > lb then 1 else
    (List.range n).reverse.foldl (fun acc j =>
      if acc ≠ 0 then acc else if a.w j < b.w j then -1 else if a.w j > b.w j then 1 else 0) 0

/-- `mzd_cmp` -/
def cmp (A B : Mzd) : Int :=
  if A.nrows < B.nrows then -1 else if B.nrows < A.nrows then 1 else
  if A.ncols < B.ncols then -1 else if B.ncols < A.ncols then 1 else
  (List.range A.nrows).foldl (fun acc i =>
    if acc ≠ 0 then acc else cmpRow (A.row i) (B.row i) (A.width - 1) A.hb) 0

/-- `mzd_is_zero` -/
def isZero (A : Mzd) : Bool :=
  (List.range A.nrows).all fun i =>
    (List.range (A.width - 1)).all (fun j => (A.row i).w j == 0) &&
    (((A.row i).w (A.width - 1)) &&& A.hb) == 0

/-- `mzd_first_zero_row` (repaired form: every word contributes, the last one masked) -/
def firstZeroRow (A : Mzd) : Nat :=
  let nz (i : Nat) : Bool :=
    (List.range (A.width - 1)).any (fun j => (A.row i).w j != 0) ||
      (((A.row i).w (A.width - 1)) &&& A.hb) != 0
  match (List.range A.nrows).reverse.find? nz with
  | some i => i + 1
  | none => 0

/-- lowest set bit index of a word among the first `len` positions -/
def lowestBit (data : Word) (len : Nat) : Option Nat := (List.range len).find? fun l => data.getLsbD l

/-- scan rows `start_row..nrows` with the `m4ri_lesser_LSB` rule; `brk` is the early-exit test -/
def pivotScan (nrows startRow : Nat) (get : Nat → Word) (brk : Word → Bool) (data0 : Word) (cand0 : Nat) :
    Word × Nat :=
  let rec go (fuel i : Nat) (data : Word) (cand : Nat) : Word × Nat :=
    match fuel with
    | 0 => (data, cand)
    | fuel + 1 =>
      if i ≥ nrows then (data, cand) else
        let cur := get i
        if lesserLSB cur data then
          if brk cur then (cur, i) else go fuel (i + 1) cur i
        else go fuel (i + 1) data cand
  go (nrows - startRow) startRow data0 cand0

/-- `mzd_find_pivot(A, start_row, start_col, &r, &c)`; `none` = return 0 -/
def findPivot (A : Mzd) (startRow startCol : Nat) : Option (Nat × Nat) :=
  let nrows := A.nrows
  let ncols := A.ncols
  if ncols - startCol < 64 then
    -- short tail: a single chunk of `length = ncols - start_col` bits (the `j` loop runs once)
    if startCol ≥ ncols then none else
    let length := min 64 (ncols - startCol)
    let (data, cand) := pivotScan nrows startRow (fun i => A.readBits i startCol length) (fun _ => false) 0 0
    if data ≠ 0 then (lowestBit data length).map fun l => (cand, startCol + l) else none
  else
    let bitOffset := startCol % 64
    let wordOffset := startCol / 64
    let maskBegin := rightMask (64 - bitOffset)
    let (data, cand) := pivotScan nrows startRow (fun i => (A.row i).w wordOffset &&& maskBegin)
      (fun d => d.getLsbD bitOffset) 0 0
    if data ≠ 0 then
      (lowestBit (data >>> bitOffset) (64 - bitOffset)).map fun l => (cand, startCol + l)
    else
      -- middle words; `data`/`row_candidate` are carried along but `data = 0` here
      let rec mid (fuel wi : Nat) : Option (Nat × Nat) ⊕ Unit :=
        match fuel with
        | 0 => .inr ()
        | fuel + 1 =>
          if wi + 1 ≥ A.width then .inr () else
            let (data, cand) := pivotScan nrows startRow (fun i => (A.row i).w wi) (fun d => d.getLsbD 0) 0 0
            if data ≠ 0 then .inl ((lowestBit data 64).map fun l => (cand, wi * 64 + l))
            else mid fuel (wi + 1)
      match mid A.width (wordOffset + 1) with
      | .inl res => res
      | .inr () =>
        let endOffset := if ncols % 64 ≠ 0 then ncols % 64 else 64
        let maskEnd := leftMask (endOffset % 64)
        let wi := A.width - 1
        let (data, cand) := pivotScan nrows startRow (fun i => (A.row i).w wi &&& maskEnd)
          (fun d => d.getLsbD 0) 0 0
        if data ≠ 0 then (lowestBit data endOffset).map fun l => (cand, wi * 64 + l) else none

/-! ### permutations (mzp.c) -/

/-- `mzd_apply_p_left(A, P)` -/
def applyPLeft (A : Mzd) (P : Array Nat) : Mzd :=
  if A.ncols = 0 then A else
  (List.range (min P.size A.nrows)).foldl (fun M i => M.rowSwap i (P.getD i 0)) A

/-- `mzd_apply_p_left_trans(A, P)` -/
def applyPLeftTrans (A : Mzd) (P : Array Nat) : Mzd :=
  if A.ncols = 0 then A else
  (List.range (min P.size A.nrows)).reverse.foldl (fun M i => M.rowSwap i (P.getD i 0)) A

/-- the explicit permutation array built by `_mzd_apply_p_right_even` -/
def buildPermutation (ncols : Nat) (P : Array Nat) (startCol length : Nat) (notrans : Bool) : Array Nat :=
  let id : Array Nat := Array.range ncols
  let swp (perm : Array Nat) (i : Nat) : Array Nat :=
    let t := perm.getD i 0
    let pi := P.getD i 0
    (perm.setIfInBounds i (perm.getD pi 0)).setIfInBounds pi t
  if !notrans then
    (List.range' startCol (length - startCol)).foldl swp id
  else
    (List.range' startCol (length - startCol)).foldl (fun perm i => swp perm (length - i - 1)) id

/-- `_mzd_apply_p_right_even(A, P, start_row, start_col, notrans)`: rows `≥ start_row` are
    gathered column by column through the explicit permutation; fixed points and excess bits are
    kept via `write_mask`. The strip height (`step_size`, from the L1 size) does not appear: each
    row is processed independently. -/
def applyPRightEven (A : Mzd) (P : Array Nat) (startRow startCol : Nat) (notrans : Bool) : Mzd :=
  if A.nrows - startRow = 0 then A else
  let length := min P.size A.ncols
  let width := A.width
  let perm := buildPermutation A.ncols P startCol length notrans
  let writeMask : Array Word := (Array.range width).map fun j =>
    let m : Word := (List.range (min 64 (A.ncols - 64 * j))).foldl
      (fun m k => if perm.getD (64 * j + k) 0 = 64 * j + k then m ||| ((1#64) <<< k) else m) 0
    if j + 1 = width then m ||| ~~~A.hb else m
  A.withRows (A.rows.mapIdx fun r arow =>
      if r < startRow then arow else
        arow.mapIdx fun j w =>
          if j ≥ width then w else
          let kept := w &&& writeMask.getD j 0
          if 64 * j ≥ A.ncols ∨ writeMask.getD j 0 = ffff then kept else
            let todo := min 64 (A.ncols - 64 * j)
            let value : Word := (List.range todo).foldl (fun v k =>
              let colb := perm.getD (64 * j + k) 0
              v ||| ((((arow.w (colb / 64)) &&& ((1#64) <<< (colb % 64))) >>> (colb % 64)) <<< k)) 0
            kept ||| value)

def applyPRight (A : Mzd) (P : Array Nat) : Mzd := if A.nrows = 0 then A else applyPRightEven A P 0 0 true
def applyPRightTrans (A : Mzd) (P : Array Nat) : Mzd := if A.nrows = 0 then A else applyPRightEven A P 0 0 false
def applyPRightTransEvenCapped (A : Mzd) (P : Array Nat) (startRow startCol : Nat) : Mzd :=
  if A.nrows = 0 then A else applyPRightEven A P startRow startCol false
def applyPRightEvenCapped (A : Mzd) (P : Array Nat) (startRow startCol : Nat) : Mzd :=
  if A.nrows = 0 then A else applyPRightEven A P startRow startCol true

/-- `mzd_apply_p_right_trans_tri(A, P)`: swap `i ↔ P[i]` on rows `< i` only (strips do not matter) -/
def applyPRightTransTri (A : Mzd) (P : Array Nat) : Mzd :=
  (List.range A.ncols).foldl (fun M i => M.colSwapInRows i (P.getD i 0) 0 (min M.nrows i)) A

end Mzd
end M4ri
