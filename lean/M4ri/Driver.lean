/-
  Model driver: reads operation lines on stdin, evaluates the model's executable definitions and
  prints result lines in the canonical format (see Proto.lean). Compiled as `m4ri_model`.
-/
import M4ri.Ops
import M4ri.Alloc
import M4ri.Io
import M4ri.Djb
open M4ri

partial def loop (h : IO.FS.Stream) (out : IO.FS.Stream) : IO Unit := do
  let line ← h.getLine
  if line.isEmpty then return ()
  let s := line.trimAscii.toString
  if s.isEmpty || s.startsWith "#" then
    loop h out
  else
    let toks := (s.splitOn " ").filter (· ≠ "") |>.toArray
    if toks.size < 2 then
      out.putStrLn s!"{toks[0]!} bad-line"
    else
      let id := toks[0]!
      let op := toks[1]!
      if op == "jcf_read" then
        -- jcf_read <int tokens of the file>
        match (toks.toList.drop 2).mapM String.toInt? with
        | some ts =>
          match Io.jcfParse ts with
          | .ok A => out.putStrLn s!"{id} ok {showMat (Mzd.ofB A)}"
          | .error "die" => out.putStrLn s!"{id} die"
          | .error "negdims" => out.putStrLn s!"{id} die"
          | .error _ => out.putStrLn s!"{id} ok null"
        | none => out.putStrLn s!"{id} bad-args"
      else if op == "from_str" then
        let m := toks[2]!.toNat?.getD 0
        let n := toks[3]!.toNat?.getD 0
        out.putStrLn s!"{id} ok {showMat (Mzd.ofB (Io.fromStr m n (toks[4]?.getD "")))}"
      else if op == "png_hdr" then
        -- png_hdr width height depth colortype : does the reader accept such a file?
        let g (k : Nat) := (toks[k]?.getD "0").toNat?.getD 0
        let ct := g 5
        let channels := if ct == 0 || ct == 3 then 1 else if ct == 4 then 2 else if ct == 2 then 3 else 4
        let h : Io.PngHdr := { width := g 2, height := g 3, bitDepth := g 4, channels := channels, colorType := ct, interlace := 0 }
        out.putStrLn s!"{id} ok i {if Io.pngAccept h then 1 else 0}"
      else if op == "alloc_seq" then
        -- alloc_seq <nblocks> <cacheMax> <threshold> op.. ; ops i.r.c w.p.lr.lc.hr.hc f.h c
        let nb := toks[2]!.toNat?.getD 16
        let cm := toks[3]!.toNat?.getD 16
        let th := toks[4]!.toNat?.getD 0
        let script := ";".intercalate ((toks.toList.drop 5).map fun t => t.replace "." " ")
        match Alloc.runScript nb cm th script with
        | some lines =>
          out.putStrLn s!"{id} ok t {"|".intercalate (lines.map fun l => l.replace " " "_")} i 0"
        | none => out.putStrLn s!"{id} bad-script"
      else
      match parseArgs toks 2 #[] with
      | none => out.putStrLn s!"{id} bad-args"
      | some args =>
        match runOp op args with
        | .ok (vals, spec) =>
          out.putStrLn (vals.foldl (fun acc v => acc ++ " " ++ showVal v) s!"{id} ok")
          match spec with
          | some sv => out.putStrLn (sv.foldl (fun acc v => acc ++ " " ++ showVal v) s!"{id}.spec ok")
          | none => pure ()
        | .error e => out.putStrLn s!"{id} {e}"
    loop h out

def main : IO Unit := do
  let stdin ← IO.getStdin
  let stdout ← IO.getStdout
  loop stdin stdout
