/-
  S-level oracles in executable form: entry-wise definitions of what each operation is *supposed* to
  compute, written against `BMat.get` only (no word tricks), so that they are different code from the
  models in Mzd.lean. The driver evaluates them next to the model; the proofs relate the two.
-/
import M4ri.BMat
namespace M4ri
namespace BMat

/-- build a matrix from an entry function -/
def ofFn (r c : Nat) (f : Nat → Nat → Bool) : BMat :=
  ⟨r, c, (Array.range r).map fun i =>
    (List.range c).foldl (fun acc j => if f i j then acc ||| (1 <<< j) else acc) 0⟩

def sRowSwap (B : BMat) (a b : Nat) : BMat :=
  ⟨B.nrows, B.ncols, (Array.range B.nrows).map fun i => B.row (if i = a then b else if i = b then a else i)⟩

/-- swap rows only in the columns of words `≥ startblock` -/
def sRowSwapFrom (B : BMat) (a b startblock : Nat) : BMat :=
  ofFn B.nrows B.ncols fun i j =>
    if j / 64 < startblock then B.get i j else B.get (if i = a then b else if i = b then a else i) j

def sColSwapInRows (B : BMat) (a b s e : Nat) : BMat :=
  ofFn B.nrows B.ncols fun i j =>
    if s ≤ i ∧ i < e then B.get i (if j = a then b else if j = b then a else j) else B.get i j

def sRowAddOffset (B : BMat) (dst src off : Nat) : BMat :=
  ofFn B.nrows B.ncols fun i j =>
    if i = dst ∧ off ≤ j then (B.get dst j != B.get src j) else B.get i j

def sRowClearOffset (B : BMat) (row off : Nat) : BMat :=
  ofFn B.nrows B.ncols fun i j => if i = row ∧ off ≤ j then false else B.get i j

def sWriteBit (B : BMat) (r c : Nat) (v : Bool) : BMat :=
  ofFn B.nrows B.ncols fun i j => if i = r ∧ j = c then v else B.get i j

/-- the `n` entries `(x, y) .. (x, y+n-1)` as a number -/
def sReadBits (B : BMat) (x y n : Nat) : Nat :=
  (List.range n).foldl (fun acc k => if B.get x (y + k) then acc ||| (1 <<< k) else acc) 0

def sXorBits (B : BMat) (x y n : Nat) (v : Nat) : BMat :=
  ofFn B.nrows B.ncols fun i j =>
    if i = x ∧ y ≤ j ∧ j < y + n then (B.get i j != v.testBit (j - y)) else B.get i j

/-- `mzd_and_bits`: the top `n` bits of `values` are the operand (the C code shifts right by 64 - n) -/
def sAndBits (B : BMat) (x y n : Nat) (v : Nat) : BMat :=
  ofFn B.nrows B.ncols fun i j =>
    if i = x ∧ y ≤ j ∧ j < y + n then (B.get i j && (v >>> (64 - n)).testBit (j - y)) else B.get i j

def sClearBits (B : BMat) (x y n : Nat) : BMat :=
  ofFn B.nrows B.ncols fun i j => if i = x ∧ y ≤ j ∧ j < y + n then false else B.get i j

/-- row `ar` of `A` from word `as` on gets row `br` of `B` (from word `bs` on) added -/
def sCombineInPlace (A : BMat) (ar as : Nat) (B : BMat) (br bs : Nat) : BMat :=
  ofFn A.nrows A.ncols fun i j =>
    if i = ar ∧ 64 * as ≤ j then (A.get i j != B.get br (j - 64 * as + 64 * bs)) else A.get i j

def sCombineEven (C : BMat) (cr cs : Nat) (A : BMat) (ar as : Nat) (B : BMat) (br bs : Nat) : BMat :=
  ofFn C.nrows C.ncols fun i j =>
    if i = cr ∧ 64 * cs ≤ j ∧ (j - 64 * cs + 64 * as) < A.ncols then
      (A.get ar (j - 64 * cs + 64 * as) != B.get br (j - 64 * cs + 64 * bs))
    else C.get i j

def sSetUi (B : BMat) (v : Nat) : BMat :=
  ofFn B.nrows B.ncols fun i j => v % 2 = 1 ∧ i = j

/-- copy `P` into the top-left corner of `N` -/
def sCopyInto (N P : BMat) : BMat :=
  ofFn N.nrows N.ncols fun i j => if i < P.nrows ∧ j < P.ncols then P.get i j else N.get i j

def sCopyRow (B : BMat) (i : Nat) (A : BMat) (k : Nat) : BMat :=
  ofFn B.nrows B.ncols fun x y => if x = i ∧ y < A.ncols then A.get k y else B.get x y

def sAdd (A B : BMat) : BMat := ofFn A.nrows A.ncols fun i j => A.get i j != B.get i j

def sSubmatrix (M : BMat) (lr lc hr hc : Nat) : BMat :=
  ofFn (hr - lr) (hc - lc) fun i j => M.get (lr + i) (lc + j)

def sConcat (A B : BMat) : BMat :=
  ofFn A.nrows (A.ncols + B.ncols) fun i j => if j < A.ncols then A.get i j else B.get i (j - A.ncols)

def sStack (A B : BMat) : BMat :=
  ofFn (A.nrows + B.nrows) A.ncols fun i j => if i < A.nrows then A.get i j else B.get (i - A.nrows) j

def sExtractU (A : BMat) : BMat :=
  let k := min A.nrows A.ncols
  ofFn k k fun i j => i ≤ j ∧ A.get i j

def sExtractL (A : BMat) : BMat :=
  let k := min A.nrows A.ncols
  ofFn k k fun i j => j ≤ i ∧ A.get i j

def sTranspose (A : BMat) : BMat := ofFn A.ncols A.nrows fun i j => A.get j i

def sEqual (A B : BMat) : Bool :=
  A.nrows = B.nrows ∧ A.ncols = B.ncols ∧
    (List.range A.nrows).all fun i => (List.range A.ncols).all fun j => A.get i j == B.get i j

def sIsZero (A : BMat) : Bool :=
  (List.range A.nrows).all fun i => (List.range A.ncols).all fun j => !A.get i j

def sFirstZeroRow (A : BMat) : Nat :=
  match (List.range A.nrows).reverse.find? fun i => (List.range A.ncols).any fun j => A.get i j with
  | some i => i + 1
  | none => 0

/-- left-most non-zero column of the region rows ≥ sr, columns ≥ sc -/
def sPivotCol (A : BMat) (sr sc : Nat) : Option Nat :=
  (List.range' sc (A.ncols - sc)).find? fun j => (List.range' sr (A.nrows - sr)).any fun i => A.get i j

/-- apply the row swaps `i ↔ P[i]` in the given order of `i` -/
def sRowSwaps (A : BMat) (P : Array Nat) (order : List Nat) : BMat :=
  order.foldl (fun M i => sRowSwap M i (P.getD i 0)) A

/-- apply the column swaps `k ↔ P[k]` for `k` in `order` to the rows `startRow ≤ i < rowLimit k`.
    Row by row: the composed column map is obtained by swapping entries of the identity array. -/
def sColSwaps (A : BMat) (P : Array Nat) (order : List Nat) (rowLimit : Nat → Nat) (startRow : Nat) : BMat :=
  ⟨A.nrows, A.ncols, (Array.range A.nrows).map fun i =>
    let pi : Array Nat := order.foldl (fun pi k =>
      if startRow ≤ i ∧ i < rowLimit k then
        let a := pi.getD k 0
        let b := pi.getD (P.getD k 0) 0
        (pi.setIfInBounds k b).setIfInBounds (P.getD k 0) a
      else pi) (Array.range A.ncols)
    (List.range A.ncols).foldl (fun acc j => if A.get i (pi.getD j 0) then acc ||| (1 <<< j) else acc) 0⟩

end BMat
end M4ri
