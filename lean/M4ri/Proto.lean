/-
  Line protocol shared by the C harness and the model driver.
  line   := id op arg*
  arg    := int | 'x'hex | 'm' nrows ncols place hexword{nrows*width} | 'p' len int{len} | 'null' | '@'k
  result := id 'ok' val*   |  id 'die'
  val    := 'i' int | 'x'hex | 'm' nrows ncols hexword* | 'p' len int* | 'null'
-/
import M4ri.Mzd
namespace M4ri

inductive Val where
  | int (i : Int)
  | word (w : Word)
  | mat (m : Mzd)
  | perm (p : Array Nat)
  | null
  | alias (k : Nat)
deriving Inhabited

def hexDigit (c : Char) : Option Nat :=
  if '0' ≤ c ∧ c ≤ '9' then some (c.toNat - '0'.toNat)
  else if 'a' ≤ c ∧ c ≤ 'f' then some (c.toNat - 'a'.toNat + 10)
  else if 'A' ≤ c ∧ c ≤ 'F' then some (c.toNat - 'A'.toNat + 10)
  else none

def parseHex (s : String) : Option Nat :=
  if s.isEmpty then none else
  s.foldl (fun acc c => match acc, hexDigit c with
    | some a, some d => some (a * 16 + d)
    | _, _ => none) (some 0)

def hexChar (d : Nat) : Char := if d < 10 then Char.ofNat (48 + d) else Char.ofNat (87 + d)

def toHex (n : Nat) : String :=
  if n = 0 then "0" else
  let rec go (fuel n : Nat) (acc : List Char) : List Char :=
    match fuel with
    | 0 => acc
    | fuel + 1 => if n = 0 then acc else go fuel (n / 16) (hexChar (n % 16) :: acc)
  String.ofList (go 17 n [])

def wordHex (w : Word) : String := toHex w.toNat

/-- parse the argument tokens of a line -/
partial def parseArgs (toks : Array String) (i : Nat) (acc : Array Val) : Option (Array Val) :=
  if i ≥ toks.size then some acc else
  let t := toks[i]!
  if t == "null" then parseArgs toks (i + 1) (acc.push .null)
  else if t == "m" then
    match toks[i+1]!.toNat?, toks[i+2]!.toNat? with
    | some r, some c =>
      let w := widthOf c
      let base := i + 4
      if base + r * w > toks.size then none else
      let rows : Array Row := (Array.range r).map fun a =>
        (Array.range w).map fun b => BitVec.ofNat 64 ((parseHex toks[base + a * w + b]!).getD 0)
      parseArgs toks (base + r * w) (acc.push (.mat ⟨r, c, rows⟩))
    | _, _ => none
  else if t == "p" then
    match toks[i+1]!.toNat? with
    | some len =>
      if i + 2 + len > toks.size then none else
      let vals : Array Nat := (Array.range len).map fun a => (toks[i + 2 + a]!.toNat?).getD 0
      parseArgs toks (i + 2 + len) (acc.push (.perm vals))
    | none => none
  else if t.startsWith "@" then
    match (t.drop 1).toNat? with
    | some k => parseArgs toks (i + 1) (acc.push (.alias k))
    | none => none
  else if t.startsWith "x" then
    match parseHex ((t.drop 1).toString) with
    | some n => parseArgs toks (i + 1) (acc.push (.word (BitVec.ofNat 64 n)))
    | none => none
  else
    match t.toInt? with
    | some n => parseArgs toks (i + 1) (acc.push (.int n))
    | none => none

def showMat (M : Mzd) : String :=
  let ws := M.rows.foldl (fun acc r => r.foldl (fun acc w => acc ++ " " ++ wordHex w) acc) ""
  s!"m {M.nrows} {M.ncols}{ws}"

def showVal : Val → String
  | .int i => s!"i {i}"
  | .word w => "x" ++ wordHex w
  | .mat m => showMat m
  | .perm p => p.foldl (fun acc v => acc ++ " " ++ toString v) s!"p {p.size}"
  | .null => "null"
  | .alias k => s!"@{k}"

end M4ri
