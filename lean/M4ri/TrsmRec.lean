/-
  R storey: the block-recursive routines on top of the substitution forms of `M4ri/Elim.lean`.
    triangular.c : `_mzd_trsm_lower_left`, `_mzd_trsm_upper_left`, `_mzd_trsm_upper_right`,
                   `_mzd_trsm_lower_right` (recursive branches), `mzd_trtri_upper` (recursive branch)
    ple.c        : `_mzd_ple` (block-recursive branch)
    mzp.c        : `_mzd_compress_l` (entry level)
  Conventions
    * the split point is the C expression `(((n - 1) / m4ri_radix + 1) >> 1) * m4ri_radix` (`splitPoint`);
    * the regime switches are PARAMETERS (`baseRows`, `trtriCols`, `baseSize`, `baseCols`, `cutoff`): the C code
      compares with `m4ri_radix`, `__M4RI_MUL_BLOCKSIZE`, `__M4RI_CPU_L3_CACHE << 1`, `__M4RI_PLE_CUTOFF`;
    * the base cases (64-row kernels, Four-Russians routines) are NOT modelled here: their place is taken by
      the substitution forms `trsmLowerLeft` … resp. by a parameter `base` (PLE);
    * `mzd_addmul(C, A, B, cutoff)` is `C.add (A.mul B)`;
    * windows are values (`sub`) that are written back (`paste`);
    * `fuel` bounds the recursion depth; running out of fuel selects the base case, so that every theorem
      about these functions has to hold (and is proved) for every `fuel`.
  Core Lean only.
-/
import M4ri.Elim
namespace M4ri
namespace BMat
namespace Rec

/-- `(((n - 1) / m4ri_radix + 1) >> 1) * m4ri_radix`: half the number of words of `n` columns/rows, in bits -/
def splitPoint (n : Nat) : Nat := (((n - 1) / 64 + 1) >>> 1) * 64

/-! ### the four triangular solves (triangular.c) -/

/-- `_mzd_trsm_lower_left(L, B, cutoff)`: `B0 = L00⁻¹ B0; B1 += L10·B0; B1 = L11⁻¹ B1` -/
def trsmLowerLeftRec (baseRows : Nat) : Nat → BMat → BMat → BMat
  | 0, L, B => trsmLowerLeft L B
  | fuel + 1, L, B =>
    let mb := B.nrows; let nb := B.ncols
    if mb ≤ baseRows then trsmLowerLeft L B else
    let mb1 := splitPoint mb
    let B0 := B.sub 0 0 mb1 nb
    let B1 := B.sub mb1 0 mb nb
    let L00 := L.sub 0 0 mb1 mb1
    let L10 := L.sub mb1 0 mb mb1
    let L11 := L.sub mb1 mb1 mb mb
    let B0 := trsmLowerLeftRec baseRows fuel L00 B0
    let B1 := B1.add (L10.mul B0)
    let B1 := trsmLowerLeftRec baseRows fuel L11 B1
    (B.paste 0 0 B0).paste mb1 0 B1

/-- `_mzd_trsm_upper_left(U, B, cutoff)`: `B1 = U11⁻¹ B1; B0 += U01·B1; B0 = U00⁻¹ B0` -/
def trsmUpperLeftRec (baseRows : Nat) : Nat → BMat → BMat → BMat
  | 0, U, B => trsmUpperLeft U B
  | fuel + 1, U, B =>
    let mb := B.nrows; let nb := B.ncols
    if mb ≤ baseRows then trsmUpperLeft U B else
    let mb1 := splitPoint mb
    let B0 := B.sub 0 0 mb1 nb
    let B1 := B.sub mb1 0 mb nb
    let U00 := U.sub 0 0 mb1 mb1
    let U01 := U.sub 0 mb1 mb1 mb
    let U11 := U.sub mb1 mb1 mb mb
    let B1 := trsmUpperLeftRec baseRows fuel U11 B1
    let B0 := B0.add (U01.mul B1)
    let B0 := trsmUpperLeftRec baseRows fuel U00 B0
    (B.paste 0 0 B0).paste mb1 0 B1

/-- `_mzd_trsm_upper_right(U, B, cutoff)`: `B0 = B0 U00⁻¹; B1 += B0·U01; B1 = B1 U11⁻¹`.
    Between the base case (`nb ≤ m4ri_radix`) and the recursion the C code has a third regime
    (`nb ≤ __M4RI_MUL_BLOCKSIZE`, `_mzd_trsm_upper_right_trtri`): `B := B · (extract_u U)⁻¹`, the inverse being
    computed by `mzd_trtri_upper`; here it is `B.mul (trsmUpperRight U I)` (the specification of that inverse),
    selected by `nb ≤ trtriCols` (`trtriCols = 0` switches it off). -/
def trsmUpperRightRec (baseCols trtriCols : Nat) : Nat → BMat → BMat → BMat
  | 0, U, B => trsmUpperRight U B
  | fuel + 1, U, B =>
    let mb := B.nrows; let nb := B.ncols
    if nb ≤ baseCols then trsmUpperRight U B else
    if nb ≤ trtriCols then B.mul (trsmUpperRight U (identity U.nrows)) else
    let nb1 := splitPoint nb
    let B0 := B.sub 0 0 mb nb1
    let B1 := B.sub 0 nb1 mb nb
    let U00 := U.sub 0 0 nb1 nb1
    let U01 := U.sub 0 nb1 nb1 nb
    let U11 := U.sub nb1 nb1 nb nb
    let B0 := trsmUpperRightRec baseCols trtriCols fuel U00 B0
    let B1 := B1.add (B0.mul U01)
    let B1 := trsmUpperRightRec baseCols trtriCols fuel U11 B1
    (B.paste 0 0 B0).paste 0 nb1 B1

/-- `_mzd_trsm_lower_right(L, B, cutoff)`: `B1 = B1 L11⁻¹; B0 += B1·L10; B0 = B0 L00⁻¹` -/
def trsmLowerRightRec (baseCols : Nat) : Nat → BMat → BMat → BMat
  | 0, L, B => trsmLowerRight L B
  | fuel + 1, L, B =>
    let mb := B.nrows; let nb := B.ncols
    if nb ≤ baseCols then trsmLowerRight L B else
    let nb1 := splitPoint nb
    let B0 := B.sub 0 0 mb nb1
    let B1 := B.sub 0 nb1 mb nb
    let L00 := L.sub 0 0 nb1 nb1
    let L10 := L.sub nb1 0 nb nb1
    let L11 := L.sub nb1 nb1 nb nb
    let B1 := trsmLowerRightRec baseCols fuel L11 B1
    let B0 := B0.add (B1.mul L10)
    let B0 := trsmLowerRightRec baseCols fuel L00 B0
    (B.paste 0 0 B0).paste 0 nb1 B1

/-! ### triangular inversion (triangular.c:518) -/

/-- the split of `mzd_trtri_upper`: half the words, rounded up to an even number of words under SSE2 -/
def trtriSplit (n : Nat) (sse2 : Bool) : Nat :=
  let n2 := ((n - 1) / 64 + 1) >>> 1
  let n2 := if sse2 ∧ n2 % 2 ≠ 0 then n2 + 1 else n2
  n2 * 64

/-- `mzd_trtri_upper(U)`: below `baseSize` entries the base case (here: `X·U = I` by substitution, the C code
    calls `mzd_trtri_upper_russian`); otherwise `U01 = U00⁻¹ U01; U01 = U01 U11⁻¹; U00 = U00⁻¹; U11 = U11⁻¹`.
    The C code asserts `n2 < n`; where that fails the windows would be ill-formed, the model takes the
    base case there.  The two solves are the recursive ones (`_mzd_trsm_upper_left/right` with cutoff 0). -/
def trtriRec (baseSize baseRows baseCols trtriCols : Nat) (sse2 : Bool) : Nat → BMat → BMat
  | 0, U => trsmUpperRight U (identity U.nrows)
  | fuel + 1, U =>
    if U.nrows * U.ncols < baseSize then trsmUpperRight U (identity U.nrows) else
    let n := U.nrows
    let n2 := trtriSplit n sse2
    if ¬ n2 < n then trsmUpperRight U (identity U.nrows) else
    let U00 := U.sub 0 0 n2 n2
    let U01 := U.sub 0 n2 n2 n
    let U11 := U.sub n2 n2 n n
    let U01 := trsmUpperLeftRec baseRows fuel U00 U01
    let U01 := trsmUpperRightRec baseCols trtriCols fuel U11 U01
    let U00 := trtriRec baseSize baseRows baseCols trtriCols sse2 fuel U00
    let U11 := trtriRec baseSize baseRows baseCols trtriCols sse2 fuel U11
    ((U.paste 0 0 U00).paste 0 n2 U01).paste n2 n2 U11

/-! ### recursive PLE (ple.c:62, mzp.c:294) -/

/-- `mzd_first_zero_row(A)`: one more than the index of the last non-zero row (0 if there is none) -/
def firstZeroRow (A : BMat) : Nat :=
  match (List.range A.nrows).reverse.find? fun i => A.row i % 2 ^ A.ncols ≠ 0 with
  | some i => i + 1
  | none => 0

/-- `_mzd_compress_l(A, r1, n1, r2)`, entry level.  First the column swaps `r1+k ↔ n1+k` in the rows
    `[r1+k, r1+r2)` (the rows of the second pivot block: the pivot ones move onto the diagonal and `L2` moves
    left, column by column); then in every row `≥ r1+r2` the `r2` columns from `n1` on are moved to start
    at `r1`, and everything from `r1+r2` up to `n1+r2` is cleared (the word-wise C loops also copy/clear bits
    beyond `n1+r2` in the last words they touch — these are zero in every call `_mzd_ple` makes). -/
def compressL (A : BMat) (r1 n1 r2 : Nat) : BMat :=
  if r1 = n1 then A else
  let A := (List.range r2).foldl (fun A k => A.swapColsInRows (r1 + k) (n1 + k) (r1 + k) (r1 + r2)) A
  { A with rows := A.rows.mapIdx fun i r =>
      if r1 + r2 ≤ i then
        (r % 2 ^ r1) ||| (((r >>> n1) % 2 ^ r2) <<< r1) ||| ((r >>> (n1 + r2)) <<< (n1 + r2))
      else r }

/-- write `W` into `P` from position `off` on (what writing through an `mzp_init_window` does) -/
def writeAt (P : Array Nat) (off : Nat) (W : Array Nat) : Array Nat :=
  P.mapIdx fun i p => if off ≤ i ∧ i < off + W.size then W.getD (i - off) 0 else p

/-- `_mzd_ple(A, P, Q, cutoff)`: returns the overwritten `A`, `P`, `Q` and the rank.
    `base` stands for the base case (`_mzd_ple_russian` on a copy of `A`; it receives the whole of `A` and
    returns complete `P`, `Q`); `baseCols` is `m4ri_radix`, `cutoff` is `__M4RI_PLE_CUTOFF`. -/
def pleRec (base : BMat → BMat × Array Nat × Array Nat × Nat) (baseCols cutoff baseRows : Nat) :
    Nat → BMat → BMat × Array Nat × Array Nat × Nat
  | 0, A => base A
  | fuel + 1, A =>
    let ncols := A.ncols
    let nrows := firstZeroRow A
    -- P[i] = i for i ≥ nrows, Q[i] = i for all i
    let P := Array.range A.nrows
    let Q := Array.range A.ncols
    if nrows = 0 then (A, P, Q, 0) else
    if ncols ≤ baseCols ∨ ((ncols + 63) / 64) * A.nrows ≤ cutoff then base A else
    let n1 := splitPoint ncols
    -- first recursive call on A0 = A[0..nrows, 0..n1)
    let (A0, P1, Q1, r1) := pleRec base baseCols cutoff baseRows fuel (A.sub 0 0 nrows n1)
    let A := A.paste 0 0 A0
    let P := writeAt P 0 P1
    let Q := writeAt Q 0 Q1
    let A :=
      if r1 ≠ 0 then
        -- mzd_apply_p_left(A1, P1)
        let A := A.paste 0 n1 ((A.sub 0 n1 nrows ncols).applyPLeft P1)
        -- _mzd_trsm_lower_left(A00, A01, cutoff)
        let A01 := trsmLowerLeftRec baseRows fuel (A.sub 0 0 r1 r1) (A.sub 0 n1 r1 ncols)
        let A := A.paste 0 n1 A01
        -- mzd_addmul(A11, A10, A01, cutoff)
        A.paste r1 n1 ((A.sub r1 n1 nrows ncols).add ((A.sub r1 0 nrows r1).mul A01))
      else A
    -- second recursive call on A11 = A[r1..nrows, n1..ncols)
    let (A11, P2, Q2, r2) := pleRec base baseCols cutoff baseRows fuel (A.sub r1 n1 nrows ncols)
    let A := A.paste r1 n1 A11
    -- mzd_apply_p_left(A10, P2)
    let A := A.paste r1 0 ((A.sub r1 0 nrows r1).applyPLeft P2)
    -- P2[i] += r1, Q2[i] += n1
    let P := writeAt P r1 (P2.map (· + r1))
    let Q := writeAt Q n1 (Q2.map (· + n1))
    -- for (i = n1, j = r1; i < n1 + r2; ++i, ++j) Q[j] = Q[i]
    let Q := (List.range r2).foldl (fun Q k => Q.setIfInBounds (r1 + k) (Q.getD (n1 + k) 0)) Q
    (compressL A r1 n1 r2, P, Q, r1 + r2)

end Rec
end BMat
end M4ri
