/-
  PB29: the TOP-LEVEL echelon-form and inversion entry points as EXECUTABLE exact mirrors for a given build
  configuration (cache sizes `L1 L2 L3`), closing the last parameters of the elimination mirrors:

    C (brilliantrussian.c / echelonform.c / mzd.c / graycode.c)        here
    `k = 0` in `_mzd_echelonize_m4ri`  (automatic table parameter)     `autoK nrows ncols L3`
    `k = 0` in `_mzd_top_echelonize_m4ri`                              `autoKTop maxR ncols L3`
    `_mzd_density(A, res, r, c)`                                       `densityParts`, `density`
    `_mzd_density(A, 32, r, c) >= threshold`                           `densityGE`, `switchFn threshold`
    `mzd_echelonize_pluq(W, full)` (over `mzd_pluq` / `mzd_ple`)       `pluqEch L1 L2 L3`
    `_mzd_echelonize_m4ri(A, full, k, heuristic, threshold)`           `echelonizeM4riTop L1 L2 L3 A full k heuristic threshold`
    `mzd_echelonize(A, full)`                                          `echelonize L1 L2 L3 A full`
    `mzd_echelonize_m4ri(A, full, k)`  (every `k ≥ 0`)                 `echelonizeM4ri L3 A full k`
    `mzd_inv_m4ri(B, A, k)`                                            `invM4riTop L3 A`

  The step-by-step mirrors instantiated here are `M4RI.echelonizeM4ri` / `M4RI.topEchelonizeM4ri` (M4riElim.lean),
  `G2.echelonizeHybrid`, `G2.invM4ri` (Glue2.lean), `PN.echelonizePluq` (Glue.lean), `PR.pluqTop` / `PR.pleTop`
  (PleRussian.lean).  Nothing is a parameter any more except the configuration.

  FLOATING POINT.  Two places of the C code compute in `double`:
  * the cache test of the automatic `k`, `0.75 * __M4RI_TWOPOW(k) * ncols > __M4RI_CPU_L3_CACHE / 2.0`.  Here
    `k ≤ 7`, `ncols < 2^31` (`rci_t` is `int`): `0.75 * 2^k = 3·2^(k-2)` is exact, and so is its product with
    `(double)ncols` (the significand `3·ncols < 2^33` fits in 53 bits); `L3` is an integer constant, exact as a
    `double` below `2^53`, and halving is exact.  Both sides are therefore the exact rationals `3·2^k·ncols / 4` and
    `L3 / 2`, and the comparison is the integer comparison `3 · 2^k · ncols > 2 · L3` used below.
  * the density `(double)count / total` (resp. `/ (1.0 * ncols * nrows)`) and its comparison with `threshold`.
    `count`, `total`, `ncols · nrows < 2^53` are converted exactly, `1.0 * ncols * nrows` is exact (`ncols ≤ 64`
    there), so the quotient is the correctly rounded `double` of `count / total` — this is `Float.ofNat count /
    Float.ofNat total` in Lean (`Float` is the IEEE binary64 type of the platform; `/` and `≤` are the C operations).
    The integers `count`, `total` are computed exactly (`densityParts`); only the last step uses `Float`.
    The correctness theorems (M4riProofs/EchelonTop.lean) hold for EVERY switch function, so nothing has to be
    assumed about `Float`: it only selects the path.
  Core Lean only.
-/
import M4ri.Glue2
import M4ri.PleRussian
namespace M4ri.BMat.ET

/-! ### the automatic table parameter (`k == 0`) -/

/-- `_mzd_echelonize_m4ri`, `if (k == 0) { … }`:
      k = m4ri_opt_k(A->nrows, ncols, 0);  if (k >= 7) k = 7;
      if (k > 1 && 0.75 * __M4RI_TWOPOW(k) * ncols > __M4RI_CPU_L3_CACHE / 2.0) k -= 1;
    (the double comparison is exactly `3 · 2^k · ncols > 2 · L3`, see the file header). -/
def autoK (nrows ncols L3 : Nat) : Nat :=
  let k := optK nrows ncols
  let k := if k ≥ 7 then 7 else k
  if k > 1 ∧ 3 * 2 ^ k * ncols > 2 * L3 then k - 1 else k

/-- `_mzd_top_echelonize_m4ri(A, 0, r, c, max_r)`: the same computation from `m4ri_opt_k(max_r, A->ncols, 0)` -/
def autoKTop (maxR ncols L3 : Nat) : Nat := autoK maxR ncols L3

/-! ### `_mzd_density` (mzd.c) -/

/-- number of one bits of `v` at the positions `lo ≤ j < hi` -/
def countBits (v lo hi : Nat) : Nat :=
  (List.range (hi - lo)).foldl (fun a t => if v.testBit (lo + t) then a + 1 else a) 0

/-- the word indices visited by `for (wi_t j = MAX(1, c / m4ri_radix); j < A->width - 1; j += res)` -/
def sampledWords (width res c : Nat) : List Nat :=
  let s := max 1 (c / 64)
  if s < width - 1 then (List.range ((width - 1 - s + res - 1) / res)).map fun t => s + t * res else []

/-- `(count, total)` of `_mzd_density(A, res, r, c)` with all its quirks:
    * `A->width == 1`: the ones of the submatrix `[r, nrows) × [c, ncols)` are counted, but the divisor is
      `ncols · nrows` of the WHOLE matrix;
    * otherwise (`res == 0` means `width / 100`, then at least 1), for every row `i ≥ r`:
      the bits `c ≤ j < 64` of the first word (nothing when `c ≥ 64`) — `total` grows by 64 regardless;
      every `res`-th full word from word `MAX(1, c / 64)` on, up to `width - 2` (the whole word, also its bits left of
      column `c`) — 64 each; and the `ncols % 64` bits of the last word when it is partial (a complete last word is
      never looked at).
    For `ncols = 0` the C routine reads outside the (empty) rows; every caller excludes that (`c < ncols`). -/
def densityParts (A : BMat) (res r c : Nat) : Nat × Nat :=
  let width := (A.ncols + 63) / 64
  if width = 1 then
    ((List.range (A.nrows - r)).foldl (fun cnt t => cnt + countBits (A.row (r + t)) c A.ncols) 0, A.ncols * A.nrows)
  else
    let res := if res = 0 then width / 100 else res
    let res := if res < 1 then 1 else res
    let ws := sampledWords width res c
    let last := 64 * (A.ncols / 64)
    (List.range (A.nrows - r)).foldl (fun (p : Nat × Nat) t =>
        let v := A.row (r + t)
        let cnt := p.1 + countBits v c 64
        let tot := p.2 + 64
        let cnt := ws.foldl (fun a j => a + countBits v (64 * j) (64 * j + 64)) cnt
        let tot := tot + 64 * ws.length
        (cnt + countBits v last (last + A.ncols % 64), tot + A.ncols % 64)) (0, 0)

/-- the value returned by `_mzd_density(A, res, r, c)`: `(double)count / total` -/
def density (A : BMat) (res r c : Nat) : Float :=
  let p := densityParts A res r c
  Float.ofNat p.1 / Float.ofNat p.2

/-- `((double)count) / total >= threshold` -/
def densityGE (count total : Nat) (threshold : Float) : Bool :=
  decide (threshold ≤ Float.ofNat count / Float.ofNat total)

/-- the density test of `_mzd_echelonize_m4ri`: `_mzd_density(A, 32, r, c) >= threshold` (both call sites — before the
    loop with `r = c = 0` and at the re-check `c > last_check + 256` — pass `res = 32`) -/
def switchFn (threshold : Float) : Nat → Nat → BMat → Bool := fun r c M =>
  let p := densityParts M 32 r c
  densityGE p.1 p.2 threshold

/-! ### the entry points -/

/-- `mzd_echelonize_pluq(W, full)`: over `mzd_pluq` when `full`, over `mzd_ple` otherwise -/
def pluqEch (L1 L2 L3 : Nat) : BMat → Bool → BMat × Nat :=
  fun W full => PN.echelonizePluq (if full then PR.pluqTop L1 L2 L3 else PR.pleTop L1 L2 L3) W full

/-- `__M4RI_ECHELONFORM_CROSSOVER_DENSITY` (echelonform.h): the `double` literal `0.15`, i.e. the correctly rounded
    quotient `15 / 100` -/
def crossoverDensity : Float := Float.ofNat 15 / Float.ofNat 100

/-- `_mzd_echelonize_m4ri(A, full, k, heuristic, threshold)` for EVERY `k ≥ 0`: the matrix left in `A` and the
    returned rank.  `k = 0` selects `autoK`; the top reduction after a hand-over to PLUQ chooses its own `k` from the
    number `r` of rows above (`autoKTop r ncols L3`).  `junk`, `junkTop`: prior contents of the index arrays (zero in
    C: `calloc`; irrelevant for the result, see `M4riProofs/EchelonTop.lean`). -/
def echelonizeM4riTop (L1 L2 L3 : Nat) (A : BMat) (full : Bool) (k : Nat) (heuristic : Bool) (threshold : Float)
    (junk junkTop : Nat → Nat := fun _ => 0) : BMat × Nat :=
  let k := if k = 0 then autoK A.nrows A.ncols L3 else k
  if heuristic then
    G2.echelonizeHybrid (switchFn threshold) (pluqEch L1 L2 L3) A full k (fun r => autoKTop r A.ncols L3) junk junkTop
  else M4RI.echelonizeM4ri A full k junk

/-- `mzd_echelonize(A, full)` = `_mzd_echelonize_m4ri(A, full, 0, 1, __M4RI_ECHELONFORM_CROSSOVER_DENSITY)` -/
def echelonize (L1 L2 L3 : Nat) (A : BMat) (full : Bool) : BMat × Nat :=
  echelonizeM4riTop L1 L2 L3 A full 0 true crossoverDensity

/-- `mzd_echelonize_m4ri(A, full, k)` = `_mzd_echelonize_m4ri(A, full, k, 0, 1.0)`, `k = 0` included (no cache
    parameter but `L3` enters) -/
def echelonizeM4ri (L3 : Nat) (A : BMat) (full : Bool) (k : Nat) (junk : Nat → Nat := fun _ => 0) : BMat × Nat :=
  M4RI.echelonizeM4ri A full (if k = 0 then autoK A.nrows A.ncols L3 else k) junk

/-- `mzd_inv_m4ri(B, A, k)` for a square `A`: the work matrix `C = [A | I]` (`n × 2·64·width`) is reduced by
    `mzd_echelonize_m4ri(C, TRUE, 0)` — the argument `k` is ignored by the C routine — and the right half is copied
    out -/
def invM4riTop (L3 : Nat) (A : BMat) (junk : Nat → Nat := fun _ => 0) : BMat :=
  G2.invM4ri A (autoK A.nrows (2 * (64 * ((A.ncols + 63) / 64))) L3) junk

end M4ri.BMat.ET
