/-
  R storey: the Four-Russians elimination of brilliantrussian.c, step by step, on rows-as-`Nat`.
    `_mzd_gauss_submatrix_full`, `_mzd_gauss_submatrix`, `_mzd_gauss_submatrix_top`, `_mzd_copy_back_rows`,
    `mzd_process_rows`, `mzd_process_rows2..6` (one definition, general over the list of chunk sizes),
    `mzd_find_pivot` (R-level), `_mzd_echelonize_m4ri` (`heuristic = 0`, `k ≥ 1` given) and
    `_mzd_top_echelonize_m4ri`.

  What is NOT modelled (and why it does not matter at this level):
  * table storage is reused across iterations in C (`T0..T5`, `L0..L5` live for the whole call).  Here every
    `mzd_make_table` starts from a fresh zero table (`freshTable`).  The only difference are stale rows
    `T[i]`, `i ≥ 2^ka`, and stale `L` entries `≥ 2^ka`, which are never looked up because every lookup index is
    masked to `ka` bits and `L[x]`, `x < 2^ka`, is rewritten by every `mzd_make_table` call with that `ka`;
    `T[0]` is never written and stays the zero row of `mzd_init`.  (`makeTable_lookup` in M4riProofs/Gray.lean
    is stated for arbitrary prior contents.)  `junk` is the content of the `L` arrays before the call.
  * tables are (re)built in C only when `full || kbar == kk`, and they are only read under the same
    condition; the model computes them as a pure value in a `let`.
  * the word granularity of the C loops (`_mzd_combine_n` works from word `c / 64` on; the table rows are
    zero left of column `c` because of `mask_begin`) is invisible on rows-as-`Nat`, except for
    `_mzd_copy_back_rows`, which is mirrored with its word boundary `64 * (c / 64)`.
-/
import M4ri.Elim
namespace M4ri
namespace BMat
namespace M4RI

/-! ### `_mzd_gauss_submatrix_full` -/

/-- `for (l = 0; l < n; ++l) if (GET_BIT(tmp, l)) mzd_row_add_offset(A, i, r + l, c + l);`
    — `tmp` was read once, before the loop -/
def clearByTmp (M : BMat) (i r c n tmp : Nat) : BMat :=
  (List.range n).foldl (fun M l => if tmp.testBit l then M.addRowFrom i (r + l) (c + l) else M) M

/-- `for (l = r; l < start_row; ++l) if (mzd_read_bit(A, l, j)) mzd_row_add_offset(A, l, start_row, j);` -/
def clearAbove (M : BMat) (r startRow j : Nat) : BMat :=
  (List.range' r (startRow - r)).foldl (fun M l => if M.get l j then M.addRowFrom l startRow j else M) M

/-- the row loop `for (i = start_row; i < end_row; ++i)` of `_mzd_gauss_submatrix_full` for column `j`
    (`rows` = the values of `i` still to visit); returns the matrix and `found` -/
def fullRows (r c j startRow : Nat) : List Nat → BMat → BMat × Bool
  | [], M => (M, false)
  | i :: rest, M =>
    let tmp := bitsAt (M.row i) c (j - c + 1)
    if tmp ≠ 0 then
      let M := clearByTmp M i r c (j - c) tmp
      if M.get i j then
        let M := M.swapRows i startRow
        (clearAbove M r startRow j, true)
      else fullRows r c j startRow rest M
    else fullRows r c j startRow rest M

/-- the column loop `for (j = c; j < c + k; ++j)`; `n` = iterations left; returns the matrix and `j - c` -/
def fullCols (r c endRow : Nat) : Nat → Nat → Nat → BMat → BMat × Nat
  | 0, j, _, M => (M, j - c)
  | n + 1, j, startRow, M =>
    let (M, found) := fullRows r c j startRow (List.range' startRow (endRow - startRow)) M
    if found then fullCols r c endRow n (j + 1) (startRow + 1) M else (M, j - c)

/-- `_mzd_gauss_submatrix_full(A, r, c, end_row, k)` -/
def gaussSubmatrixFull (M : BMat) (r c endRow k : Nat) : BMat × Nat :=
  fullCols r c endRow k c r M

/-! ### `_mzd_gauss_submatrix` -/

/-- `for (l = 0; l < n; ++l) if (mzd_read_bit(A, i, c + l)) mzd_row_add_offset(A, i, r + l, c + l);`
    — the bit is read from the current row -/
def clearLive (M : BMat) (i r c n : Nat) : BMat :=
  (List.range n).foldl (fun M l => if M.get i (c + l) then M.addRowFrom i (r + l) (c + l) else M) M

def subRows (r c j startRow : Nat) : List Nat → BMat → BMat × Bool
  | [], M => (M, false)
  | i :: rest, M =>
    let M := clearLive M i r c (j - c)
    if M.get i j then (M.swapRows i startRow, true)
    else subRows r c j startRow rest M

def subCols (r c endRow : Nat) : Nat → Nat → Nat → BMat → BMat × Nat
  | 0, j, _, M => (M, j - c)
  | n + 1, j, startRow, M =>
    let (M, found) := subRows r c j startRow (List.range' startRow (endRow - startRow)) M
    if found then subCols r c endRow n (j + 1) (startRow + 1) M else (M, j - c)

/-- `_mzd_gauss_submatrix(A, r, c, end_row, k)` -/
def gaussSubmatrix (M : BMat) (r c endRow k : Nat) : BMat × Nat :=
  subCols r c endRow k c r M

/-! ### `_mzd_gauss_submatrix_top`, `_mzd_copy_back_rows` -/

/-- `_mzd_gauss_submatrix_top(A, r, c, k)`: `start_row = r + (j - c)` throughout -/
def gaussSubmatrixTop (M : BMat) (r c k : Nat) : BMat × Nat :=
  ((List.range k).foldl (fun M t => clearAbove M r (r + t) (c + t)) M, k)

/-- `U = mzd_submatrix(U, A, r, 0, r + kbar, ncols)`: the saved rows -/
def saveRows (M : BMat) (r kbar : Nat) : Array Nat := (Array.range kbar).map fun i => M.row (r + i)

/-- `_mzd_copy_back_rows(A, U, r, c, k)`: the words from `c / 64` on of row `r + i` are overwritten by
    those of row `i` of `U` -/
def copyBackRows (M : BMat) (U : Array Nat) (r c k : Nat) : BMat :=
  let lo := 64 * (c / 64)
  (List.range k).foldl (fun M i =>
    M.setRow (r + i) ((M.row (r + i) % 2 ^ lo) ||| ((U.getD i 0 >>> lo) <<< lo))) M

/-! ### tables and `mzd_process_rows`, `mzd_process_rows2..6` -/

/-- the chunk sizes `ka, kb, …` of `_mzd_echelonize_m4ri` / `mzd_process_rowsN` for `kbar` pivots -/
def chunks (k kbar : Nat) : List Nat :=
  if kbar > 5 * k then
    let rem := kbar % 6
    [kbar / 6 + (if rem ≥ 5 then 1 else 0), kbar / 6 + (if rem ≥ 4 then 1 else 0),
     kbar / 6 + (if rem ≥ 3 then 1 else 0), kbar / 6 + (if rem ≥ 2 then 1 else 0),
     kbar / 6 + (if rem ≥ 1 then 1 else 0), kbar / 6]
  else if kbar > 4 * k then
    let rem := kbar % 5
    [kbar / 5 + (if rem ≥ 4 then 1 else 0), kbar / 5 + (if rem ≥ 3 then 1 else 0),
     kbar / 5 + (if rem ≥ 2 then 1 else 0), kbar / 5 + (if rem ≥ 1 then 1 else 0), kbar / 5]
  else if kbar > 3 * k then
    let rem := kbar % 4
    [kbar / 4 + (if rem ≥ 3 then 1 else 0), kbar / 4 + (if rem ≥ 2 then 1 else 0),
     kbar / 4 + (if rem ≥ 1 then 1 else 0), kbar / 4]
  else if kbar > 2 * k then
    let rem := kbar % 3
    [kbar / 3 + (if rem ≥ 2 then 1 else 0), kbar / 3 + (if rem ≥ 1 then 1 else 0), kbar / 3]
  else if kbar > k then [kbar / 2, kbar - kbar / 2]
  else if kbar > 0 then [kbar]
  else []

/-- one table: chunk size, `T`, `L` -/
abbrev Table := Nat × Array Nat × Array Nat

/-- `mzd_make_table(A, r + off, c, ka, T_t, L_t)` for the chunks in turn (`off` = sum of the earlier chunks) -/
def makeTables (M : BMat) (r c : Nat) (junk : Nat → Nat) : List Nat → Nat → List Table
  | [], _ => []
  | ka :: rest, off =>
    let fresh := freshTable ka junk
    let TL := makeTable M.rows M.nrows M.ncols (r + off) c ka fresh.1 fresh.2
    (ka, TL.1, TL.2) :: makeTables M r c junk rest (off + ka)

/-- `x_t = L_t[bits & ka_bm]; bits >>= ka; …`: returns the XOR of the selected table rows and whether all
    `x_t` are 0 -/
def applyTables : List Table → Nat → Nat × Bool
  | [], _ => (0, true)
  | (ka, T, L) :: rest, bits =>
    let x := L.getD (bits % 2 ^ ka) 0
    let vz := applyTables rest (bits >>> ka)
    (T.getD x 0 ^^^ vz.1, x == 0 && vz.2)

/-- `mzd_process_rows{,2,…,6}(M, startrow, stoprow, startcol, k, T0, L0, …)`.  With two or more tables a
    row whose lookups are all 0 is skipped; the single-table routine XORs `T[0]` in that case. -/
def processRows (M : BMat) (startrow stoprow c k : Nat) (tabs : List Table) : BMat :=
  (List.range' startrow (stoprow - startrow)).foldl (fun M i =>
    let bits := bitsAt (M.row i) c k
    let vz := applyTables tabs bits
    if tabs.length ≥ 2 && vz.2 then M else M.setRow i (M.row i ^^^ vz.1)) M

/-! ### `mzd_find_pivot` on rows-as-Nat -/

/-- left-most column `≥ c` that is non-zero in the rows `≥ r`, and the first row `≥ r` with a one there -/
def findPivotB (M : BMat) (r c : Nat) : Option (Nat × Nat) :=
  (List.range' c (M.ncols - c)).findSome? fun j =>
    ((List.range' r (M.nrows - r)).find? fun i => M.get i j).map fun i => (i, j)

/-! ### `_mzd_echelonize_m4ri` -/

/-- loop state `(A, r, c, kk)` -/
structure St where
  M : BMat
  r : Nat
  c : Nat
  kk : Nat

/-- one pass through the body of `while (c < ncols)`; the `Bool` is `false` after `break` -/
def echStep (full : Bool) (k : Nat) (junk : Nat → Nat) (s : St) : St × Bool :=
  let M := s.M; let r := s.r; let c := s.c
  let kk := if c + s.kk > M.ncols then M.ncols - c else s.kk
  let Mk := if full then gaussSubmatrixFull M r c M.nrows kk else gaussSubmatrix M r c M.nrows kk
  let kbar := Mk.2
  let U := saveRows Mk.1 r kbar
  let M := if full then Mk.1 else (gaussSubmatrixTop Mk.1 r c kbar).1
  let tabs := makeTables M r c junk (chunks k kbar) 0
  let M := if kbar > 0 ∧ kbar = kk then processRows M (r + kbar) M.nrows c kbar tabs else M
  let M := if kbar > 0 ∧ full then processRows M 0 r c kbar tabs else M
  let M := if full then M else copyBackRows M U r c kbar
  let r := r + kbar
  let c := c + kbar
  if kk ≠ kbar then
    match findPivotB M r c with
    | some (rbar, cbar) => (⟨M.swapRows r rbar, r, cbar, kk⟩, true)
    | none => (⟨M, r, c, kk⟩, false)
  else (⟨M, r, c, kk⟩, true)

def echLoop (full : Bool) (k : Nat) (junk : Nat → Nat) : Nat → St → St
  | 0, s => s
  | fuel + 1, s =>
    if s.c < s.M.ncols then
      let sb := echStep full k junk s
      if sb.2 then echLoop full k junk fuel sb.1 else sb.1
    else s

/-- `_mzd_echelonize_m4ri(A, full, k, 0, _)` for `k ≥ 1`: the matrix left in `A` and the returned rank.
    Every pass that does not `break` increases `c`, so `ncols + 1` passes are enough. -/
def echelonizeM4ri (A : BMat) (full : Bool) (k : Nat) (junk : Nat → Nat := fun _ => 0) : BMat × Nat :=
  let s := echLoop full k junk (A.ncols + 1) ⟨A, 0, 0, 6 * k⟩
  (s.M, s.r)

/-! ### `_mzd_top_echelonize_m4ri` -/

def topStep (k maxR : Nat) (junk : Nat → Nat) (s : St) : St :=
  let M := s.M; let r := s.r; let c := s.c
  let kk := if c + s.kk > M.ncols then M.ncols - c else s.kk
  let Mk := gaussSubmatrixFull M r c (min M.nrows (r + kk)) kk
  let kbar := Mk.2
  let M := Mk.1
  let tabs := makeTables M r c junk (chunks k kbar) 0
  let M := if kbar > 0 then processRows M 0 (min r maxR) c kbar tabs else M
  let r := r + kbar
  let c := c + kbar
  ⟨M, r, if kk ≠ kbar then c + 1 else c, kk⟩

def topLoop (k maxR : Nat) (junk : Nat → Nat) : Nat → St → St
  | 0, s => s
  | fuel + 1, s => if s.c < s.M.ncols then topLoop k maxR junk fuel (topStep k maxR junk s) else s

/-- `_mzd_top_echelonize_m4ri(A, k, r, c, max_r)` for `k ≥ 1` -/
def topEchelonizeM4ri (A : BMat) (k r c maxR : Nat) (junk : Nat → Nat := fun _ => 0) : BMat × Nat :=
  let s := topLoop k maxR junk (A.ncols + 1) ⟨A, r, c, 6 * k⟩
  (s.M, s.r)

end M4RI
end BMat
end M4ri
