#!/bin/sh
# builds:  b_std/   real configuration (/repo/m4ri/m4ri_config.h), ple_russian.c with gcov instrumentation
#          b_small/ small caches (L1 4096, L2 32768, L3 from $L3SMALL, default 8192) so that _mzd_ple recurses early
#          b_poison/ like b_std but the M/E/B lookup arrays and U are poisoned before every strip (stale-read check)
set -e
cd "$(dirname "$0")"
L3SMALL=${L3SMALL:-8192}
mk() { # dir cfgdir extra-flags-for-ple_russian
  d=$1; inc=$2; shift 2
  mkdir -p $d
  for f in m4ri/*.c; do
    b=$(basename $f .c)
    case $b in
      ple_russian) gcc -O1 -g -std=gnu99 -msse2 -I$inc -I$inc/m4ri "$@" -c $inc/m4ri/ple_russian.c -o $d/$b.o ;;
      *) gcc -O1 -g -std=gnu99 -msse2 -I$inc -I$inc/m4ri -c $inc/m4ri/$b.c -o $d/$b.o ;;
    esac
  done
  gcc -O1 -g -std=gnu99 -msse2 -I$inc -c drv_russian.c -o $d/drv_russian.o
  gcc "$@" -o $d/drv_russian $d/*.o -lm -lpng
}
# std
mk b_std . --coverage
# small caches: a second copy of the sources with an edited m4ri_config.h
rm -rf small; mkdir -p small/m4ri; cp m4ri/*.c m4ri/*.h small/m4ri/
sed -i -e 's/^#define __M4RI_CPU_L1_CACHE.*/#define __M4RI_CPU_L1_CACHE 4096/' \
       -e 's/^#define __M4RI_CPU_L2_CACHE.*/#define __M4RI_CPU_L2_CACHE 32768/' \
       -e "s/^#define __M4RI_CPU_L3_CACHE.*/#define __M4RI_CPU_L3_CACHE $L3SMALL/" small/m4ri/m4ri_config.h
mk b_small small
# poison: a third copy with ple_russian.c patched
rm -rf poison; mkdir -p poison/m4ri; cp m4ri/*.c m4ri/*.h poison/m4ri/
python3 - <<'PY'
import re
p='poison/m4ri/ple_russian.c'
s=open(p).read()
needle='    _kk_setup(kk, knar, k_, knar_, pivots, ntables);\n'
assert needle in s
s=s.replace(needle, needle+'''    for (int pi = 0; pi < __M4RI_PLE_NTABLES; pi++) for (int pj = 0; pj < __M4RI_TWOPOW(k); pj++) {
      T[pi]->M[pj] = 0x3fffffff; T[pi]->E[pj] = 0x3fffffff; T[pi]->B[pj] = 0xdeadbeefdeadbeefULL; }
    for (int pi = knar; pi < U->nrows; pi++) for (wi_t pw = 0; pw < U->width; pw++) mzd_row(U, pi)[pw] = 0xa5a5a5a5a5a5a5a5ULL & (pw == U->width - 1 ? U->high_bitmask : m4ri_ffff);
    for (int pi = 0; pi < __M4RI_PLE_NTABLES; pi++) for (int pj = 1; pj < __M4RI_TWOPOW(k); pj++) for (wi_t pw = 0; pw < U->width; pw++)
      mzd_row(T[pi]->T, pj)[pw] = 0x5a5a5a5a5a5a5a5aULL & (pw == U->width - 1 ? U->high_bitmask : m4ri_ffff);
    for (int pi = knar; pi < U->nrows; pi++) { pivots[pi] = 0x3fffffff; done[pi] = 0x3fffffff; }
''')
open(p,'w').write(s)
PY
mk b_poison poison
echo built
# b_small2: exactly the cache sizes named in the task (L3 = 65536: _mzd_ple recurses only above width*nrows > 8192)
rm -rf small2; mkdir -p small2/m4ri; cp m4ri/*.c m4ri/*.h small2/m4ri/
sed -i -e 's/^#define __M4RI_CPU_L1_CACHE.*/#define __M4RI_CPU_L1_CACHE 4096/' \
       -e 's/^#define __M4RI_CPU_L2_CACHE.*/#define __M4RI_CPU_L2_CACHE 32768/' \
       -e "s/^#define __M4RI_CPU_L3_CACHE.*/#define __M4RI_CPU_L3_CACHE 65536/" small2/m4ri/m4ri_config.h
mk b_small2 small2
echo built2
