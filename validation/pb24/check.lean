/- compares the output of drv_russian with the Lean model.
   usage (from the lean project dir):  lake env lean --run ../scratch/check.lean MODE FILE [L1 L2 L3]
   MODE = russian | pluqr | ple | pluq | naive (naive: compare pleRussian with pleNaive on the inputs, ignores OUT) -/
import M4ri.PleRussian
import M4ri.TrsmRec
open M4ri M4ri.BMat

def hexVal (c : Char) : Nat :=
  if '0' ≤ c ∧ c ≤ '9' then c.toNat - '0'.toNat
  else if 'a' ≤ c ∧ c ≤ 'f' then c.toNat - 'a'.toNat + 10 else 0

def parseHex (s : String) : Nat := s.foldl (fun acc c => acc * 16 + hexVal c) 0

def nats (s : String) : Array Nat := ((s.splitOn " ").filter (· ≠ "")).toArray.map fun t => t.toNat?.getD 0

structure Case where
  m : Nat
  n : Nat
  k : Nat
  A : BMat
  r : Nat
  S : BMat
  P : Array Nat
  Q : Array Nat

def readRows (lines : Array String) (pos m : Nat) : Array Nat :=
  (Array.range m).map fun i => parseHex (lines[pos + i]!)

partial def parseCases (lines : Array String) (pos : Nat) (acc : Array Case) : Array Case :=
  if pos ≥ lines.size then acc else
  let l := lines[pos]!
  if l.startsWith "CASE" then
    let h := nats (l.drop 5).toString
    let m := h[0]!; let n := h[1]!; let k := h[2]!
    let A : BMat := ⟨m, n, readRows lines (pos + 1) m⟩
    let r := (nats ((lines[pos + 1 + m]!).drop 4).toString)[0]!
    let S : BMat := ⟨m, n, readRows lines (pos + 2 + m) m⟩
    let P := nats ((lines[pos + 2 + 2 * m]!).drop 1).toString
    let Q := nats ((lines[pos + 3 + 2 * m]!).drop 1).toString
    parseCases lines (pos + 4 + 2 * m) (acc.push ⟨m, n, k, A, r, S, P, Q⟩)
  else parseCases lines (pos + 1) acc

/-- `_mzd_ple` of ple.c over the real base case, regime parameters from the cache sizes -/
def pleTopOf (L1 L2 L3 : Nat) (A : BMat) : BMat × Array Nat × Array Nat × Nat :=
  PR.pleTop L1 L2 L3 A

def main (args : List String) : IO UInt32 := do
  let mode := args[0]!
  let file := args[1]!
  let L1 := (args[2]?.bind String.toNat?).getD 32768
  let L2 := (args[3]?.bind String.toNat?).getD 1310720
  let L3 := (args[4]?.bind String.toNat?).getD 56623104
  let txt ← IO.FS.readFile file
  let lines := (txt.splitOn "\n").toArray
  let cases := parseCases lines 0 #[]
  let mut bad := 0
  let mut idx := 0
  for c in cases do
    -- junk on entry (the model must not depend on it)
    let P0 := (Array.range c.m).map fun i => 7 * i + 13
    let Q0 := (Array.range c.n).map fun i => 1000 - i
    let (ok, o) :=
      if mode == "naive" then
        let o := PR.pleRussian c.A P0 Q0 c.k L2
        (o == pleNaive c.A P0 Q0, o)
      else
        let o :=
          if mode == "russian" || mode == "russianw" then PR.pleRussian c.A P0 Q0 c.k L2
          else if mode == "pluqr" || mode == "pluqrw" then PR.pluqRussian c.A P0 Q0 c.k L2
          else if mode == "ple" then pleTopOf L1 L2 L3 c.A
          else PR.pluqTop L1 L2 L3 c.A
        (o.1 == c.S && o.2.1 == c.P && o.2.2.1 == c.Q && o.2.2.2 == c.r, o)
    if !ok then
      bad := bad + 1
      if bad ≤ 5 then
        IO.println s!"MISMATCH case {idx}: {c.m} x {c.n} k={c.k}: C r={c.r}, model r={o.2.2.2}; A eq {o.1 == c.S}, P eq {o.2.1 == c.P}, Q eq {o.2.2.1 == c.Q}"
        if c.m ≤ 12 then
          IO.println s!"  in  {c.A.rows}\n  C   {c.S.rows} P={c.P} Q={c.Q}\n  mod {o.1.rows} P={o.2.1} Q={o.2.2.1}"
    idx := idx + 1
  IO.println s!"{mode}: {cases.size} cases, {bad} mismatches"
  return (if bad == 0 then 0 else 1)
