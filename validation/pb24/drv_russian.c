/* Differential-test driver for _mzd_ple_russian / _mzd_pluq_russian / mzd_ple / mzd_pluq.
 *   usage: drv_russian MODE NCASES SEED [MAXDIM [KMAX]]
 *   MODE = russian : _mzd_ple_russian(A,P,Q,k), shapes 1..MAXDIM (default 200), k = 0..8
 *          russianw: same with 500..1000 columns (the split-block window needs > 512 columns), rows 1..320
 *          pluqr   : _mzd_pluq_russian
 *          ple     : mzd_ple(A,P,Q,0), sizes 200..700 (needs the small-cache build to recurse)
 *          pluq    : mzd_pluq(A,P,Q,0)
 * Output per case:
 *   CASE nrows ncols k
 *   <nrows hex rows, bit j = column j>
 *   OUT r
 *   <nrows hex rows>
 *   P v0 v1 ...
 *   Q v0 v1 ...
 */
#include <stdio.h>
#include <stdlib.h>
#include <string.h>
#include <stdint.h>
#include <m4ri/m4ri.h>
#include <m4ri/ple_russian.h>

static uint64_t st = 88172645463325252ULL;
static uint64_t rnd(void) { st ^= st << 13; st ^= st >> 7; st ^= st << 17; return st; }
static int rint_(int lo, int hi) { return lo + (int)(rnd() % (uint64_t)(hi - lo + 1)); }

static void print_mat(mzd_t const *A) {
  for (rci_t i = 0; i < A->nrows; ++i) {
    for (wi_t w = A->width - 1; w >= 0; --w) printf("%016llx", (unsigned long long)mzd_row_const(A, i)[w]);
    printf("\n");
  }
}

static int pick_dim(int maxdim) {
  int c = rint_(0, 9);
  if (maxdim < 140) return rint_(1, maxdim);
  if (c == 0) return rint_(1, 8);
  if (c == 1) return rint_(60, 68);
  if (c == 2) return rint_(124, 132);
  if (c == 3) return rint_(188, maxdim);
  if (c == 4) return rint_(1, 70);
  return rint_(1, maxdim);
}

static void fill_density(mzd_t *A, int num, int den) {
  for (rci_t i = 0; i < A->nrows; ++i)
    for (rci_t j = 0; j < A->ncols; ++j) mzd_write_bit(A, i, j, (int)(rnd() % den) < num);
}

static void gen(mzd_t *A, int kind) {
  rci_t m = A->nrows, n = A->ncols;
  switch (kind) {
  case 0: mzd_randomize_custom(A, (m4ri_random_callback)rnd, NULL); break; /* dense */
  case 1: fill_density(A, 1, 8); break;
  case 2: fill_density(A, 1, 32); break;
  case 3: { /* low rank product */
    int mx = m < n ? m : n;
    int r = rint_(0, mx);
    if (rnd() % 2) r = rint_(0, mx < 12 ? mx : 12);
    if (r == 0) break;
    mzd_t *L = mzd_init(m, r), *R = mzd_init(r, n);
    fill_density(L, 1, 2); fill_density(R, 1, 2);
    if (rnd() % 3 == 0) fill_density(R, 1, 16);
    mzd_mul_naive(A, L, R);
    mzd_free(L); mzd_free(R);
    break; }
  case 4: { /* dense with zero column blocks */
    fill_density(A, 1, 2);
    int nb = rint_(1, 4);
    for (int b = 0; b < nb; ++b) {
      int lo = rint_(0, n - 1), len = rint_(1, 70);
      for (rci_t j = lo; j < n && j < lo + len; ++j) for (rci_t i = 0; i < m; ++i) mzd_write_bit(A, i, j, 0);
    }
    break; }
  case 5: { /* dependent rows: few distinct rows repeated, plus zero rows */
    int d = rint_(1, 6);
    mzd_t *R = mzd_init(d, n); fill_density(R, 1, rint_(2, 6));
    for (rci_t i = 0; i < m; ++i) {
      int s = rint_(0, d);
      if (s < d) for (rci_t j = 0; j < n; ++j) mzd_write_bit(A, i, j, mzd_read_bit(R, s, j));
    }
    mzd_free(R);
    break; }
  case 6: break; /* zero */
  case 7: { /* leading zero columns then dense, pivots far down */
    int z = rint_(0, n - 1);
    for (rci_t i = 0; i < m; ++i) for (rci_t j = z; j < n; ++j) mzd_write_bit(A, i, j, rnd() & 1);
    int zr = rint_(0, m - 1);
    for (rci_t i = 0; i < zr; ++i) for (rci_t j = 0; j < n; ++j) if (rnd() % 4) mzd_write_bit(A, i, j, 0);
    break; }
  case 8: { /* permuted (partial) identity plus a little noise: pivots in late rows */
    for (rci_t j = 0; j < n; ++j) if (rnd() % 4) mzd_write_bit(A, rint_(0, m - 1), j, 1);
    if (rnd() % 2) for (int t = 0; t < 5; ++t) mzd_write_bit(A, rint_(0, m - 1), rint_(0, n - 1), 1);
    break; }
  case 9: { /* lower-triangular-ish band: pivot of column j in row >= j, many rows touched late */
    for (rci_t i = 0; i < m; ++i) for (rci_t j = 0; j < n; ++j)
      if (j <= i && (i - j) % rint_(1, 5) == 0) mzd_write_bit(A, i, j, 1);
    break; }
  case 10: { /* full-rank strips followed by deficient ones: identity block rows reversed + dense tail */
    for (rci_t i = 0; i < m; ++i) { rci_t j = m - 1 - i; if (j < n) mzd_write_bit(A, i, j, 1); }
    for (rci_t i = 0; i < m; ++i) for (rci_t j = m; j < n; ++j) mzd_write_bit(A, i, j, rnd() & 1);
    break; }
  default: { /* sparse with zero rows at top so pivots come from the bottom */
    fill_density(A, 1, 3);
    int zr = rint_(0, m);
    for (rci_t i = 0; i < zr; ++i) for (rci_t j = 0; j < n; ++j) mzd_write_bit(A, i, j, 0);
    break; }
  }
}

int main(int argc, char **argv) {
  if (argc < 4) { fprintf(stderr, "usage: %s MODE NCASES SEED [MAXDIM]\n", argv[0]); return 2; }
  const char *mode = argv[1];
  int ncases = atoi(argv[2]);
  st ^= (uint64_t)atoll(argv[3]) * 0x9E3779B97F4A7C15ULL;
  for (int i = 0; i < 10; ++i) rnd();
  int maxdim = argc > 4 ? atoi(argv[4]) : 200;
  int kmax = argc > 5 ? atoi(argv[5]) : 8; /* k is drawn from 0..kmax (the C code asserts 7*k <= 64, i.e. k <= 9) */
  int big = !strcmp(mode, "ple") || !strcmp(mode, "pluq");
  for (int c = 0; c < ncases; ++c) {
    int m, n, k;
    if (big) {
      m = rint_(200, maxdim > 200 ? maxdim : 700); n = rint_(200, maxdim > 200 ? maxdim : 700);
      if (rnd() % 4 == 0) n = 64 * rint_(4, 10) + rint_(-1, 1);
      k = 0;
    } else {
      m = pick_dim(maxdim); n = pick_dim(maxdim); k = rint_(0, kmax); if (kmax == 9 && rnd() % 2) k = 9;
      if (!strcmp(mode, "russianw") || !strcmp(mode, "pluqrw")) { /* wide: the split-block window is used from 513 columns on */
        m = pick_dim(200); if (rnd() % 4 == 0) m = rint_(200, 320);
        n = rint_(500, 1000); if (rnd() % 3 == 0) n = 64 * rint_(8, 14) + rint_(-1, 2);
      }
    }
    mzd_t *A = mzd_init(m, n);
    int kind = rint_(0, 11);
    if (big) { static const int kinds[] = {0, 0, 1, 3, 3, 4, 5, 7, 9, 10, 11, 6}; kind = kinds[rint_(0, 11)]; if (kind == 6 && c % 7) kind = 3; }
    gen(A, kind);
    mzp_t *P = mzp_init(m), *Q = mzp_init(n);
    for (rci_t i = 0; i < m; ++i) P->values[i] = (rci_t)(rnd() % 100000);
    for (rci_t i = 0; i < n; ++i) Q->values[i] = (rci_t)(rnd() % 100000);
    printf("CASE %d %d %d\n", m, n, k);
    print_mat(A);
    rci_t r;
    if (!strcmp(mode, "russian") || !strcmp(mode, "russianw")) r = _mzd_ple_russian(A, P, Q, k);
    else if (!strcmp(mode, "pluqr") || !strcmp(mode, "pluqrw")) r = _mzd_pluq_russian(A, P, Q, k);
    else if (!strcmp(mode, "ple")) r = mzd_ple(A, P, Q, 0);
    else r = mzd_pluq(A, P, Q, 0);
    printf("OUT %d\n", (int)r);
    print_mat(A);
    printf("P"); for (rci_t i = 0; i < m; ++i) printf(" %d", (int)P->values[i]); printf("\n");
    printf("Q"); for (rci_t i = 0; i < n; ++i) printf(" %d", (int)Q->values[i]); printf("\n");
    mzp_free(P); mzp_free(Q); mzd_free(A);
  }
  return 0;
}
