#include <m4ri/m4ri.h>
#include <stdio.h>
int main(){
  mzd_t *P = mzd_init(300, 64+1000);
  mzd_randomize(P);
  mzd_t *W = mzd_init_window(P, 0, 64, 300, 64+1000);   // window starting at word 1 (8 mod 16)
  printf("data %% 16 = %lu\n", (unsigned long)W->data % 16);
  rci_t r = mzd_echelonize_m4ri(W, 1, 0);
  printf("rank %d\n", r);
  return 0;
}
