#!/usr/bin/env python3
# compare real-code memory traces (valgrind lackey, -O0 build of the m4ri sources) with the Lean trace model
import subprocess, sys, re, collections, os
LEAN_DIR='/tmp/prf/pb28/lean'
DRV=os.environ.get('DRV','./trace_drv')
casefile=sys.argv[1]
tag=os.path.basename(casefile)
cases=[l.strip() for l in open(casefile) if l.strip() and not l.startswith('#')]
mark=subprocess.run(f"nm {DRV} | grep ' MARK$' | cut -d' ' -f1",shell=True,capture_output=True,text=True).stdout.strip().lstrip('0')
markt=subprocess.run(f"nm {DRV} | grep ' MARKT$' | cut -d' ' -f1",shell=True,capture_output=True,text=True).stdout.strip().lstrip('0')
if markt:
    t=subprocess.run("objdump -h "+DRV+" | awk '$2==\".text\"{print $4, $3}'",shell=True,capture_output=True,text=True).stdout.split()
    mark=f"{mark} {markt} {int(t[0],16):x} {int(t[0],16)+int(t[1],16):x}"
subprocess.run(f"valgrind --tool=lackey --trace-mem=yes --log-fd=2 {DRV} {casefile} 2>&1 >{tag}.drv.out | ./flt {mark} > {tag}.trace",shell=True,check=True)
infos=[];cur=None
for l in open(f'{tag}.drv.out'):
    if l.startswith('CASE'): cur={'ops':[],'extra':[]}; infos.append(cur)
    elif l.startswith('OP'):
        d=dict(kv.split('=') for kv in l.split()[2:])
        cur['ops'].append((int(l.split()[1]),int(d['data'],16),int(d['rowstride']),int(d['lo'],16),int(d['hi'],16)))
    elif l.startswith('INC') or l.startswith('BITS') or l.startswith('X '): cur['extra']+=l.split()[1:]
assert len(infos)==len(cases),(len(infos),len(cases))
traces=[];t=None
for l in open(f'{tag}.trace'):
    if l.startswith('BEGIN'): t=[]
    elif l.startswith('END'): traces.append(t); t=None
    elif t is not None:
        k=l[1]; a,s=l[3:].strip().split(','); t.append((k,int(a,16),int(s)))
assert len(traces)==len(cases),(len(traces),len(cases))
def decode(info,tr):
    acc=[]
    for (k,a,s) in tr:
        for (op,data,rs,lo,hi) in info['ops']:
            if lo<=a<hi:
                off=(a-data)//8
                if (a-data)%8: acc.append(f"UNALIGNED,{op},{a-data}")
                row,w=(off//rs,off%rs) if rs>0 else (0,off)
                for kk in (['R','W'] if k=='M' else (['R'] if k=='L' else ['W'])): acc.append(f"{op},{row},{w},{kk},{s}")
    return sorted(acc)
inp=''.join(c+(' '+' '.join(i['extra']) if i['extra'] else '')+'\n' for c,i in zip(cases,infos))
open(f'{tag}.leanin','w').write(inp)
p=subprocess.run([LEAN_DIR+'/.lake/build/bin/m4ri_trace'],input=inp,capture_output=True,text=True)
lines=p.stdout.split('\n')
if lines and lines[-1]=='': lines=lines[:-1]
assert len(lines)==len(cases),(len(lines),len(cases),p.stderr[-500:])
bad=0;tot=0;empty=0
fam=collections.Counter();famacc=collections.Counter();fambad=collections.Counter()
for c,i,tr,l in zip(cases,infos,traces,lines):
    acc=decode(i,tr); model=sorted(l.split()); tot+=len(acc)
    f=c.split()[0]; fam[f]+=1; famacc[f]+=len(acc)
    if not acc: empty+=1
    if model!=acc:
        bad+=1; fambad[f]+=1
        if bad<=int(os.environ.get('MAXSHOW','8')):
            print('MISMATCH',c,' '.join(i['extra']))
            ca=collections.Counter(acc);cm=collections.Counter(model)
            print('  only C    :',sorted((ca-cm).elements())[:40])
            print('  only model:',sorted((cm-ca).elements())[:40])
for f in fam: print(f'  {f}: {fam[f]} cases, {famacc[f]} accesses, {fambad[f]} mismatches')
print(f'{len(cases)} cases ({empty} with empty trace), {tot} accesses, {bad} mismatches')
