#!/bin/sh
# Builds the tracing driver `trace_drv` (superset of pb17's drv.c; same OP/CASE/MARK conventions, plus X lines and MARKT).
#   obj/*.o = the library sources compiled `-O0 -g -std=gnu99 -msse2` (graycode.c, misc.c, mmc.c: -O2), built once by:
#     for f in m4ri/*.c; do gcc -O0 -g -std=gnu99 -msse2 -I. -Im4ri -c $f -o obj/$(basename $f .c).o; done
#   tk_static.inc = byte-identical text of the `static inline` transposition kernels of m4ri/mzd.c (lines 262-967 and
#     1080-1127 of THIS version of mzd.c: _mzd_copy_transpose_64x64 … _mzd_copy_transpose_small, split_round,
#     _mzd_transpose_notsmall, _mzd_transpose), #included by the driver so that it can call them.
#   mzp.c and the driver are compiled with a small L1 cache size (TRACE_L1, default 256 bytes) so that the strip loops of
#     _mzd_apply_p_right_even / mzd_apply_p_right_trans_tri run several strips on small matrices; the driver prints the
#     value it was compiled with (X line) and the model takes it as a parameter, so any value works (also the stock 32768:
#     then drop the -D; m4ri/m4ri_config.h here has an #ifndef guard around __M4RI_CPU_L1_CACHE).
#   -no-pie: so that `nm`/`objdump -h` addresses (MARK, MARKT, .text) are the run-time addresses.
cd "$(dirname "$0")"
L1=${TRACE_L1:-256}
( sed -n '262,967p' m4ri/mzd.c; sed -n '1080,1127p' m4ri/mzd.c ) > tk_static.inc
gcc -O0 -g -std=gnu99 -msse2 -D__M4RI_CPU_L1_CACHE=$L1 -I. -Im4ri -c m4ri/mzp.c -o obj/mzp.o
gcc -O0 -g -std=gnu99 -msse2 -D__M4RI_CPU_L1_CACHE=$L1 -I. -Im4ri -no-pie trace_drv.c obj/*.o -o trace_drv -lm -lpng 2>&1 | grep -E "error|warning: impl"
gcc -O2 flt.c -o flt
