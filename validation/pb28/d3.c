#include <m4ri/m4ri.h>
#include <stdio.h>
#include <stdlib.h>
int main(int argc, char **argv){
  int nr = atoi(argv[1]), nc = atoi(argv[2]), r1 = atoi(argv[3]), n1 = atoi(argv[4]), r2 = atoi(argv[5]);
  mzd_t *A = mzd_init(nr, nc); mzd_randomize(A);
  printf("_mzd_compress_l(A %dx%d, r1=%d, n1=%d, r2=%d)\n", nr, nc, r1, n1, r2); fflush(stdout);
  _mzd_compress_l(A, r1, n1, r2);
  printf("survived\n");
  return 0;
}
