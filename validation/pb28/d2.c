#include <m4ri/m4ri.h>
#include <stdio.h>
int main(int argc, char **argv){
  mzd_t *A = mzd_init(3, 0);
  mzp_t *P = mzp_init(0);
  printf("calling mzd_apply_p_right_trans on a 3 x 0 matrix\n"); fflush(stdout);
  if (argc > 1) mzd_apply_p_right_trans_tri(A, P); else mzd_apply_p_right_trans(A, P);
  printf("survived\n");
  return 0;
}
