#!/bin/sh
# PB29 validation: real library (two cache configurations) against the mirrors of M4ri/EchelonTop.lean
# usage: run_all.sh [N per configuration] [seed]
set -e
cd /tmp/prf/pb29/scratch
N=${1:-480}; SEED=${2:-11}
BIN=../lean/.lake/build/bin
# (1) m4ri_opt_k and the automatic k on a grid; (2) _mzd_density directly
./drv_top optk optk_p.txt optk_e.txt
$BIN/m4ri_model < optk_p.txt > optk_m.txt
python3 cmp.py optk_e.txt optk_m.txt
./drv_top dens 600 3 dens_p.txt dens_e.txt
$BIN/m4ri_model < dens_p.txt > dens_m.txt
python3 cmp.py dens_e.txt dens_m.txt
# (3) the entry points, default configuration (/repo) and small caches (4096 / 32768 / 65536)
./drv_top ech $N $SEED ech_a_p.txt ech_a_e.txt > ech_a_t.txt
./drv_top_small ech $N $((SEED + 1)) ech_b_p.txt ech_b_e.txt > ech_b_t.txt
for c in a b; do
  $BIN/pb29check ech_${c}_t.txt | tee ech_${c}_result.txt          # trace-level comparison (Lean functions called directly)
  $BIN/m4ri_model < ech_${c}_p.txt > ech_${c}_m.txt                 # the delivered driver operations on the same cases
  python3 cmp.py ech_${c}_e.txt ech_${c}_m.txt | tee -a ech_${c}_result.txt
done
