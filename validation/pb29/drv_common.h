/* shared helpers of the PB26 validation drivers */
#include <m4ri/m4ri.h>
#include <stdio.h>
#include <stdlib.h>
#include <string.h>

static unsigned long long rng_s = 88172645463325252ULL;
static unsigned long long rnd64(void) {
  rng_s ^= rng_s << 13;
  rng_s ^= rng_s >> 7;
  rng_s ^= rng_s << 17;
  return rng_s;
}
static int rndn(int n) { return n <= 0 ? 0 : (int)(rnd64() % (unsigned long long)n); }

/* "M nrows ncols hex0 hex1 ..." : row i as one hexadecimal number, bit j = column j */
static void print_mat(FILE *f, const char *tag, mzd_t const *A) {
  fprintf(f, "%s %d %d", tag, A->nrows, A->ncols);
  for (rci_t i = 0; i < A->nrows; ++i) {
    fputc(' ', f);
    if (A->width == 0) { fputc('0', f); continue; }
    for (wi_t w = A->width - 1; w >= 0; --w) {
      word x = mzd_row_const(A, i)[w];
      if (w == A->width - 1) x &= A->high_bitmask;
      fprintf(f, "%016llx", (unsigned long long)x);
    }
  }
  fputc('\n', f);
}
static void print_perm(FILE *f, const char *tag, mzp_t const *P) {
  fprintf(f, "%s %d", tag, P->length);
  for (rci_t i = 0; i < P->length; ++i) fprintf(f, " %d", P->values[i]);
  fputc('\n', f);
}

/* density d/256 random fill */
static void fill_density(mzd_t *A, int d) {
  for (rci_t i = 0; i < A->nrows; ++i)
    for (rci_t j = 0; j < A->ncols; ++j) mzd_write_bit(A, i, j, (int)(rnd64() & 255) < d);
}
/* random matrix of rank at most k */
static mzd_t *rand_rank(rci_t m, rci_t n, rci_t k) {
  mzd_t *A = mzd_init(m, n);
  if (k <= 0 || m == 0 || n == 0) return A;
  mzd_t *X = mzd_init(m, k), *Y = mzd_init(k, n);
  mzd_randomize(X);
  mzd_randomize(Y);
  /* own randomness (mzd_randomize uses random()) */
  fill_density(X, 128);
  fill_density(Y, 128);
  mzd_mul_naive(A, X, Y);
  mzd_free(X);
  mzd_free(Y);
  return A;
}
/* structured random matrix: kind selects the shape of the content */
static mzd_t *structured(rci_t m, rci_t n, int kind) {
  mzd_t *A;
  switch (kind % 8) {
  case 0: A = mzd_init(m, n); fill_density(A, 128); break;                 /* dense full random */
  case 1: A = rand_rank(m, n, rndn((m < n ? m : n) + 1)); break;           /* rank deficient */
  case 2: A = mzd_init(m, n); fill_density(A, 8); break;                   /* sparse */
  case 3: {                                                                /* zero column block on the left */
    A = mzd_init(m, n); fill_density(A, 100);
    rci_t z = rndn(n + 1);
    for (rci_t i = 0; i < m; ++i) for (rci_t j = 0; j < z; ++j) mzd_write_bit(A, i, j, 0);
    break; }
  case 4: {                                                                /* zero rows at the end / in the middle */
    A = mzd_init(m, n); fill_density(A, 128);
    rci_t z = rndn(m + 1);
    for (rci_t i = z; i < m; ++i) if (rnd64() & 1) for (rci_t j = 0; j < n; ++j) mzd_write_bit(A, i, j, 0);
    break; }
  case 5: A = rand_rank(m, n, rndn(5)); break;                             /* tiny rank */
  case 6: {                                                                /* rank deficient with pivot gaps */
    A = rand_rank(m, n, rndn((m < n ? m : n) + 1));
    for (int t = 0; t < 3; ++t) { rci_t z = rndn(n); rci_t w = rndn(70);
      for (rci_t i = 0; i < m; ++i) for (rci_t j = z; j < z + w && j < n; ++j) mzd_write_bit(A, i, j, 0); }
    break; }
  default: A = mzd_init(m, n); if (rnd64() & 1) fill_density(A, 250); break;  /* zero / almost all ones */
  }
  return A;
}

/* ---- reading back the token lines ---- */
static char *rd_line = NULL;
static size_t rd_cap = 0;
static int next_line(FILE *f) {
  ssize_t n;
  while ((n = getline(&rd_line, &rd_cap, f)) >= 0) {
    while (n > 0 && (rd_line[n - 1] == '\n' || rd_line[n - 1] == '\r')) rd_line[--n] = 0;
    if (n > 0) return 1;
  }
  return 0;
}
static long read_num(FILE *f) {
  if (!next_line(f)) { fprintf(stderr, "unexpected end of input\n"); exit(3); }
  char *p = strchr(rd_line, ' ');
  return p ? atol(p + 1) : 0;
}
static int hexval(char c) { return c <= '9' ? c - '0' : (c | 32) - 'a' + 10; }
static mzd_t *read_mat(FILE *f) {
  if (!next_line(f)) { fprintf(stderr, "unexpected end of input\n"); exit(3); }
  char *p = rd_line;
  char *tok = strsep(&p, " ");            /* tag */
  tok = strsep(&p, " "); rci_t m = atoi(tok);
  tok = strsep(&p, " "); rci_t n = atoi(tok);
  mzd_t *A = mzd_init(m, n);
  for (rci_t i = 0; i < m; ++i) {
    tok = strsep(&p, " ");
    if (!tok) { fprintf(stderr, "short matrix line\n"); exit(3); }
    int len = (int)strlen(tok);
    /* least significant hex digit last */
    for (int d = 0; d < len; ++d) {
      int v = hexval(tok[len - 1 - d]);
      for (int b = 0; b < 4; ++b) {
        rci_t j = 4 * d + b;
        if (j < n && ((v >> b) & 1)) mzd_write_bit(A, i, j, 1);
      }
    }
  }
  return A;
}
