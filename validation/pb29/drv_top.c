/* PB29 validation driver: the REAL top-level routines of the library
     mzd_echelonize(A, full), mzd_echelonize_m4ri(A, full, k) (k = 0..10), _mzd_echelonize_m4ri(A, full, k, 1, thr/100.0),
     mzd_inv_m4ri(NULL, A, 0), _mzd_density, m4ri_opt_k
   against the Lean mirrors of M4ri/EchelonTop.lean.  NOTHING in the library is modified or instrumented: the observations
   of what happens INSIDE a call (which k was chosen for k = 0, every density test with the matrix state at that moment
   and its result, the hand-over to mzd_echelonize_pluq, the k of the top reduction) are made with the linker:
   `-Wl,--wrap=_mzd_density,--wrap=mzd_init,--wrap=mzd_echelonize_pluq` routes the cross-object calls of
   brilliantrussian.o through the wrappers below, which record and then call the real function.

   drv_top ech  N SEED PROTO EXPECT > trace    N cases; PROTO: operation lines for the compiled model driver (m4ri_model),
                                               EXPECT: the result lines it must print; stdout: token lines for Check.lean
   drv_top dens N SEED PROTO EXPECT            `_mzd_density` directly (all branches: width 1, res 0/1/2/32/…, c, r)
   drv_top optk PROTO EXPECT                   `m4ri_opt_k` on a grid and the automatic k (the C expression in double
                                               arithmetic with L3 as a variable) on a grid of (nrows, ncols, L3) */
#include "drv_common.h"
#include <stdint.h>

/* ------------------------------------------------------------------ observation through the linker */
static int logging = 0, in_pluq = 0;
#define MAXCP 64
static int ncp = 0;
static struct { rci_t r, c; wi_t res; mzd_t *M; double d; } cp[MAXCP];
#define MAXINIT 16
static int ninit = 0;
static struct { rci_t r, c; int after_pluq; } inits[MAXINIT];
static int npluq = 0;

double __real__mzd_density(mzd_t const *A, wi_t res, rci_t r, rci_t c);
mzd_t *__real_mzd_init(rci_t r, rci_t c);
rci_t __real_mzd_echelonize_pluq(mzd_t *A, int full);

double __wrap__mzd_density(mzd_t const *A, wi_t res, rci_t r, rci_t c) {
  double d = __real__mzd_density(A, res, r, c);
  if (logging && !in_pluq && ncp < MAXCP) {
    int save = logging; logging = 0;
    cp[ncp].r = r; cp[ncp].c = c; cp[ncp].res = res; cp[ncp].M = mzd_copy(NULL, A); cp[ncp].d = d; ++ncp;
    logging = save;
  }
  return d;
}
mzd_t *__wrap_mzd_init(rci_t r, rci_t c) {
  if (logging && !in_pluq && ninit < MAXINIT) { inits[ninit].r = r; inits[ninit].c = c; inits[ninit].after_pluq = npluq; ++ninit; }
  return __real_mzd_init(r, c);
}
rci_t __wrap_mzd_echelonize_pluq(mzd_t *A, int full) {
  if (logging) { ++in_pluq; }
  rci_t r = __real_mzd_echelonize_pluq(A, full);
  if (logging) { --in_pluq; ++npluq; }
  return r;
}
static void log_start(void) { ncp = 0; ninit = 0; npluq = 0; in_pluq = 0; logging = 1; }
static void log_stop(void) { logging = 0; }
static void log_free(void) { for (int i = 0; i < ncp; ++i) mzd_free(cp[i].M); ncp = 0; }

static uint64_t dbits(double d) { uint64_t u; memcpy(&u, &d, 8); return u; }

/* ------------------------------------------------------------------ protocol of the model driver */
static void proto_mat_arg(FILE *f, mzd_t const *A) {
  fprintf(f, " m %d %d o", A->nrows, A->ncols);
  for (rci_t i = 0; i < A->nrows; ++i)
    for (wi_t w = 0; w < A->width; ++w) {
      word x = mzd_row_const(A, i)[w];
      if (w == A->width - 1) x &= A->high_bitmask;
      fprintf(f, " %llx", (unsigned long long)x);
    }
}
static void proto_mat_val(FILE *f, mzd_t const *A) {
  fprintf(f, " m %d %d", A->nrows, A->ncols);
  for (rci_t i = 0; i < A->nrows; ++i)
    for (wi_t w = 0; w < A->width; ++w) {
      word x = mzd_row_const(A, i)[w];
      if (w == A->width - 1) x &= A->high_bitmask;
      fprintf(f, " %llx", (unsigned long long)x);
    }
}

/* ------------------------------------------------------------------ inputs */
static void fill_block(mzd_t *A, rci_t r0, rci_t r1, rci_t c0, rci_t c1, int d) {
  for (rci_t i = r0; i < r1 && i < A->nrows; ++i)
    for (rci_t j = c0; j < c1 && j < A->ncols; ++j) mzd_write_bit(A, i, j, (int)(rnd64() & 255) < d);
}
static void unit_upper_sparse(mzd_t *A, int d) {
  fill_block(A, 0, A->nrows, 0, A->ncols, d);
  for (rci_t i = 0; i < A->nrows; ++i) for (rci_t j = 0; j < A->ncols && j < i; ++j) mzd_write_bit(A, i, j, 0);
  for (rci_t i = 0; i < A->nrows && i < A->ncols; ++i) mzd_write_bit(A, i, i, 1);
}
/* [ I_a | sparse ; 0 | dense of rank <= rk ] */
static mzd_t *structured_id(rci_t a, rci_t rb, rci_t cb, rci_t rk, int dsparse) {
  mzd_t *A = mzd_init(a + rb, a + cb);
  for (rci_t i = 0; i < a; ++i) mzd_write_bit(A, i, i, 1);
  fill_block(A, 0, a, a, a + cb, dsparse);
  mzd_t *D = rand_rank(rb, cb, rk);
  for (rci_t i = 0; i < rb; ++i) for (rci_t j = 0; j < cb; ++j) mzd_write_bit(A, a + i, a + j, mzd_read_bit(D, i, j));
  mzd_free(D);
  return A;
}

static const char *kind_name[] = {"dense", "sparse", "rankdef", "struct-IaSparse-0DenseLowRank", "small", "upper-sparse",
                                  "width-edge", "degenerate", "struct-late", "near-threshold"};
#define NKINDS 10
static const int edge[] = {1, 2, 63, 64, 65, 127, 128, 129, 191, 192, 193, 255, 256, 257, 320, 321, 384, 448, 512, 513, 576, 640, 700};

static mzd_t *gen_matrix(int kind) {
  rci_t m = 1 + rndn(700), n = 1 + rndn(700);
  mzd_t *A;
  switch (kind) {
  case 0: A = mzd_init(m, n); fill_density(A, 128); break;
  case 1: if (rnd64() & 1) { m = 200 + rndn(500); n = 300 + rndn(400); }
    A = mzd_init(m, n); fill_density(A, 2 + rndn(8)); break;
  case 2: A = rand_rank(m, n, 1 + rndn((m < n ? m : n))); break;
  case 3: { rci_t a = 257 + rndn(200); rci_t cb = 100 + rndn(700 - a - 100 + 1); rci_t rb = 20 + rndn(160);
    A = structured_id(a, rb, cb, 3 + rndn(20), 4 + rndn(12)); break; }
  case 4: m = 1 + rndn(70); n = 1 + rndn(70); A = mzd_init(m, n); fill_density(A, 20 + rndn(200)); break;
  case 5: m = 300 + rndn(400); n = 300 + rndn(400); A = mzd_init(m, n); unit_upper_sparse(A, 1 + rndn(3)); break;
  case 6: m = edge[rndn(23)]; n = edge[rndn(23)]; if (rnd64() & 1) m = 1 + rndn(700);
    A = mzd_init(m, n); fill_density(A, 10 + rndn(120)); break;
  case 7: { int s = rndn(4);
    if (s == 0) { A = mzd_init(m, n); }
    else if (s == 1) { A = mzd_init(m, n); fill_density(A, 256); }
    else if (s == 2) { A = rand_rank(m, n, 1 + rndn(3)); }
    else { A = mzd_init(m, n); fill_density(A, 1); }
    break; }
  case 8: { /* long identity part, dense rows only far down: declined at the first re-check, accepted at a later one */
    rci_t a = 530 + rndn(70); rci_t cb = 60 + rndn(700 - a - 60 + 1); rci_t rb = 10 + rndn(90);
    A = structured_id(a, rb, cb, 5 + rndn(40), 1 + rndn(4)); break; }
  default: { /* left part of low rank, then density near the usual thresholds */
    m = 100 + rndn(400); n = 300 + rndn(400);
    A = mzd_init(m, n);
    rci_t L = 257 + rndn(90);
    for (int t = 0; t < 1 + rndn(40); ++t) { rci_t i = rndn(m); fill_block(A, i, i + 1, 0, L, 20); }
    fill_block(A, rndn(2) ? 0 : rndn(m), m, 64 * (L / 64), n, 8 + rndn(90));
    break; }
  }
  return A;
}

static mzd_t *gen_square(int kind) {
  static const int ns[] = {1, 2, 3, 7, 31, 63, 64, 65, 100, 127, 128, 129, 150, 192, 200, 256, 257, 300, 320, 400, 512, 520, 600};
  rci_t n = (kind % 3 == 2) ? 1 + rndn(90) : ns[rndn(23)];
  mzd_t *A = mzd_init(n, n);
  switch (kind % 4) {
  case 0: fill_density(A, 128); break;                     /* random: invertible with probability ~0.29 */
  case 1: case 2: {                                        /* invertible: L * U with unit diagonals, rows shuffled */
    mzd_t *L = mzd_init(n, n), *U = mzd_init(n, n);
    fill_density(L, 128); fill_density(U, 40 + rndn(100));
    for (rci_t i = 0; i < n; ++i) for (rci_t j = 0; j < n; ++j) {
      if (j > i) mzd_write_bit(L, i, j, 0);
      if (j < i) mzd_write_bit(U, i, j, 0);
      if (i == j) { mzd_write_bit(L, i, j, 1); mzd_write_bit(U, i, j, 1); }
    }
    mzd_mul_naive(A, L, U);
    for (rci_t i = n - 1; i > 0; --i) mzd_row_swap(A, i, rndn(i + 1));
    mzd_free(L); mzd_free(U);
    break; }
  default: { mzd_t *B = rand_rank(n, n, rndn(n + 1)); mzd_copy(A, B); mzd_free(B); break; }  /* singular */
  }
  return A;
}

/* ------------------------------------------------------------------ main */
int main(int argc, char **argv) {
  if (argc < 2) return 2;
  long L1 = __M4RI_CPU_L1_CACHE, L2 = __M4RI_CPU_L2_CACHE, L3 = __M4RI_CPU_L3_CACHE;
  if (!strcmp(argv[1], "ech")) {
    int ncases = atoi(argv[2]);
    rng_s ^= (unsigned long long)atoll(argv[3]) * 0x9E3779B97F4A7C15ULL;
    FILE *fp = fopen(argv[4], "w"), *fe = fopen(argv[5], "w");
    static const int thrs[] = {2, 5, 15, 50, 100, 10, 30};
    printf("NCASES %d\n", ncases);
    printf("N %ld\nN %ld\nN %ld\n", L1, L2, L3);
    for (int t = 0; t < ncases; ++t) {
      int op = t % 4;            /* 0 echelonize, 1 echelonize_m4ri, 2 hybrid with k and threshold, 3 inverse */
      if (op == 3 && (t / 4) % 2) op = 2;      /* fewer inverses, more hybrid runs */
      int kind = (t / 4) % NKINDS;
      if (op == 3) {
        mzd_t *A = gen_square(t / 8);
        log_start();
        mzd_t *B = mzd_inv_m4ri(NULL, A, rndn(11));
        log_stop();
        /* inits: B, C, then U of _mzd_echelonize_m4ri: 6k rows */
        int kreal = ninit >= 3 ? inits[2].r / 6 : -1;
        printf("CASE %d\nS inv square%d\n", t, (t / 8) % 4);
        print_mat(stdout, "M", A);
        printf("N %d\n", kreal);
        print_mat(stdout, "M", B);
        fprintf(fp, "t%d inv_m4ri_exact", t); proto_mat_arg(fp, A); fprintf(fp, " %ld %ld %ld\n", L1, L2, L3);
        fprintf(fe, "t%d ok", t); proto_mat_val(fe, B); fprintf(fe, "\n");
        log_free(); mzd_free(A); mzd_free(B);
        continue;
      }
      mzd_t *A = gen_matrix(kind);
      mzd_t *R = mzd_copy(NULL, A);
      int full = (int)(rnd64() & 1);
      int k = 0, thr = 15, heur = 1;
      rci_t rank;
      log_start();
      if (op == 0) { rank = mzd_echelonize(R, full); }
      else if (op == 1) { k = rndn(11); heur = 0; thr = 100; rank = mzd_echelonize_m4ri(R, full, k); }
      else { k = (rnd64() & 3) ? rndn(11) : 0; thr = thrs[rndn(7)]; rank = _mzd_echelonize_m4ri(R, full, k, 1, thr / 100.0); }
      log_stop();
      int kreal = ninit >= 1 ? inits[0].r / 6 : -1;
      int ktop = 0;
      for (int q = 0; q < ninit; ++q) if (inits[q].after_pluq > 0) { ktop = inits[q].r / 6; break; }
      printf("CASE %d\nS %s %s\n", t, op == 0 ? "echelonize" : op == 1 ? "echelonize_m4ri" : "echelonize_h", kind_name[kind]);
      print_mat(stdout, "M", A);
      printf("N %d\nN %d\nN %d\nN %d\nN %d\nN %d\nN %d\nN %d\n", full, k, thr, heur, kreal, ktop, npluq, ncp);
      for (int q = 0; q < ncp; ++q) {
        printf("N %d\nN %d\n", cp[q].r, cp[q].c);
        print_mat(stdout, "M", cp[q].M);
        printf("N %llu\n", (unsigned long long)dbits(cp[q].d));
        printf("N %d\n", cp[q].d >= thr / 100.0);
        /* the same density test for the compiled model driver */
        fprintf(fp, "t%dd%d density_exact", t, q); proto_mat_arg(fp, cp[q].M); fprintf(fp, " %d %d %d\n", (int)cp[q].res, cp[q].r, cp[q].c);
        fprintf(fe, "t%dd%d ok x%llx\n", t, q, (unsigned long long)dbits(cp[q].d));
      }
      print_mat(stdout, "M", R);
      printf("N %d\n", rank);
      if (op == 0) { fprintf(fp, "t%d echelonize_exact", t); proto_mat_arg(fp, A); fprintf(fp, " %d %ld %ld %ld\n", full, L1, L2, L3); }
      else if (op == 1) { fprintf(fp, "t%d echelonize_m4ri_exact0", t); proto_mat_arg(fp, A); fprintf(fp, " %d %d %ld %ld %ld\n", full, k, L1, L2, L3); }
      else { fprintf(fp, "t%d echelonize_m4ri_h_exact", t); proto_mat_arg(fp, A); fprintf(fp, " %d %d %d %ld %ld %ld\n", full, k, thr, L1, L2, L3); }
      fprintf(fe, "t%d ok i %d", t, rank); proto_mat_val(fe, R); fprintf(fe, "\n");
      log_free(); mzd_free(A); mzd_free(R);
    }
    fclose(fp); fclose(fe);
    return 0;
  }
  if (!strcmp(argv[1], "dens")) {
    int ncases = atoi(argv[2]);
    rng_s ^= (unsigned long long)atoll(argv[3]) * 0x9E3779B97F4A7C15ULL;
    FILE *fp = fopen(argv[4], "w"), *fe = fopen(argv[5], "w");
    static const int ress[] = {0, 1, 2, 3, 32, 32, 100, 7};
    for (int t = 0; t < ncases; ++t) {
      rci_t m = 1 + rndn(t % 3 ? 60 : 300), n = (t % 5 == 0) ? edge[rndn(23)] : (t % 5 == 1) ? 1 + rndn(64) : 1 + rndn(t % 2 ? 700 : 7000);
      if (n > 2000 && m > 40) m = 1 + rndn(40);
      mzd_t *A = mzd_init(m, n);
      fill_density(A, (t % 7 == 0) ? 256 : (t % 7 == 1) ? 0 : 1 + rndn(255));
      wi_t res = ress[rndn(8)];
      rci_t r = (t % 11 == 0) ? m : rndn(m), c = (t % 13 == 0) ? 0 : rndn(n);
      double d = _mzd_density(A, res, r, c);
      fprintf(fp, "d%d density_exact", t); proto_mat_arg(fp, A); fprintf(fp, " %d %d %d\n", (int)res, r, c);
      fprintf(fe, "d%d ok x%llx\n", t, (unsigned long long)dbits(d));
      mzd_free(A);
    }
    fclose(fp); fclose(fe);
    return 0;
  }
  if (!strcmp(argv[1], "optk")) {
    FILE *fp = fopen(argv[2], "w"), *fe = fopen(argv[3], "w");
    static const long l3s[] = {1024, 4096, 65536, 131072, 262144, 1048576, 4194304, 8388608, 56623104, 1000, 99999, 65537, 73728, 98304};
    long id = 0;
    /* m4ri_opt_k itself on a full grid of small values and around every power of two */
    static int vals[400]; int nv = 0;
    for (int v = 0; v <= 130; ++v) vals[nv++] = v;
    for (int e = 8; e <= 30; ++e) { vals[nv++] = (1 << e) - 1; vals[nv++] = 1 << e; vals[nv++] = (1 << e) + 1; }
    vals[nv++] = 2147483647; vals[nv++] = 700; vals[nv++] = 1000; vals[nv++] = 341; vals[nv++] = 342; vals[nv++] = 682; vals[nv++] = 683;
    vals[nv++] = 1365; vals[nv++] = 1366;
    for (int i = 0; i < nv; ++i) for (int j = 0; j < nv; ++j) {
      int a = vals[i], b = vals[j];
      fprintf(fp, "o%ld opt_k %d %d\n", id, a, b);
      fprintf(fe, "o%ld ok i %d\n", id, m4ri_opt_k(a, b, 0)); ++id;
      for (int q = 0; q < 14; ++q) {
        if ((i * 31 + j * 17 + q) % 5) continue;
        volatile long l3 = l3s[q];
        int k = m4ri_opt_k(a, b, 0);
        if (k >= 7) k = 7;
        if (k > 1 && 0.75 * __M4RI_TWOPOW(k) * b > l3 / 2.0) k -= 1;
        fprintf(fp, "o%ld auto_k_exact %d %d %ld\n", id, a, b, (long)l3);
        fprintf(fe, "o%ld ok i %d\n", id, k); ++id;
      }
    }
    fclose(fp); fclose(fe);
    return 0;
  }
  return 2;
}
