/- PB29 validation harness (compiled: temporary `lean_exe pb29check` in the lake project, see README).
   Reads the token lines written by `drv_top ech` (the REAL routines, observed through the linker) and compares with
   the mirrors of M4ri/EchelonTop.lean:
     * the k chosen for k = 0 (`autoK`) and the k of the top reduction after a hand-over (`autoKTop`),
     * every density test of the run: position (r, c), the matrix state at that moment, the bits of the double, the decision
       (a traced copy of `G2.hybLoop`, checked to return the same result as the model itself),
     * the matrix left in A and the returned rank, bit for bit.
   usage: pb29check TRACEFILE -/
import M4ri.EchelonTop
import Std.Data.HashMap
open M4ri M4ri.BMat

namespace PB29

def hexDigit (c : Char) : Nat :=
  if '0' ≤ c ∧ c ≤ '9' then c.toNat - '0'.toNat
  else if 'a' ≤ c ∧ c ≤ 'f' then c.toNat - 'a'.toNat + 10
  else if 'A' ≤ c ∧ c ≤ 'F' then c.toNat - 'A'.toNat + 10 else 0
def hexToNat (s : String) : Nat := s.foldl (fun acc c => acc * 16 + hexDigit c) 0
def toks (l : String) : List String := (l.splitOn " ").filter (· ≠ "")
def parseMat (l : String) : BMat :=
  match toks l with
  | _ :: nr :: nc :: rest => ⟨nr.toNat!, nc.toNat!, (rest.map hexToNat).toArray⟩
  | _ => ⟨0, 0, #[]⟩
def parseNum (l : String) : Nat :=
  match toks l with
  | _ :: x :: _ => x.toNat!
  | _ => 0
def matEq (A B : BMat) : Bool := A.nrows == B.nrows && A.ncols == B.ncols && A.rows == B.rows

/-- one density test: `(r, c, matrix state, bits of the density, decision)` -/
abbrev Chk := Nat × Nat × BMat × UInt64 × Bool

def chk (thr : Float) (r c : Nat) (M : BMat) : Chk := (r, c, M, (ET.density M 32 r c).toBits, ET.switchFn thr r c M)

/-- `G2.hybLoop` with a log of the density tests; the `Option` is the loop check index at which PLUQ took over -/
def hybLoopT (thr : Float) (pluqEch : BMat → Bool → BMat × Nat) (full : Bool) (k : Nat)
    (ktop : Nat → Nat) : Nat → M4RI.St → Nat → Array Chk → (BMat × Nat) × Array Chk × Bool
  | 0, s, _, log => ((s.M, s.r), log, false)
  | fuel + 1, s, lc, log =>
    if s.c < s.M.ncols then
      let ck : Bool := decide (s.c > lc + 256)
      let lc := if ck then s.c else lc
      let tested := ck && decide (s.r < s.M.nrows)
      let log := if tested then log.push (chk thr s.r s.c s.M) else log
      if tested && ET.switchFn thr s.r s.c s.M then
        let H := G2.handOver pluqEch s.M s.r s.c full
        if full then
          (((if s.r > 0 then (M4RI.topEchelonizeM4ri H.1 (ktop s.r) s.r s.c s.r).1 else H.1), s.r + H.2), log, true)
        else ((H.1, s.r + H.2), log, true)
      else
        let sb := M4RI.echStep full k (fun _ => 0) s
        if sb.2 then hybLoopT thr pluqEch full k ktop fuel sb.1 lc log else ((sb.1.M, sb.1.r), log, false)
    else ((s.M, s.r), log, false)

def hybridT (thr : Float) (pluqEch : BMat → Bool → BMat × Nat) (A : BMat) (full : Bool) (k : Nat) (ktop : Nat → Nat) :
    (BMat × Nat) × Array Chk × Bool :=
  let tested := decide (0 < A.ncols) && decide (0 < A.nrows)
  let log : Array Chk := if tested then #[chk thr 0 0 A] else #[]
  if tested && ET.switchFn thr 0 0 A then (G2.handOver pluqEch A 0 0 full, log, true)
  else hybLoopT thr pluqEch full k ktop (A.ncols + 1) ⟨A, 0, 0, 6 * k⟩ 0 log

end PB29
open PB29

def bump (m : Std.HashMap String (Array Nat)) (key : String) (slot : Nat) : Std.HashMap String (Array Nat) :=
  let a := m.getD key (Array.replicate 8 0)
  m.insert key (a.modify slot (· + 1))

def main (args : List String) : IO UInt32 := do
  let path := args.head!
  let s ← IO.FS.readFile path
  let ls := ((s.splitOn "\n").filter (· ≠ "")).toArray
  let n := parseNum ls[0]!
  let L1 := parseNum ls[1]!; let L2 := parseNum ls[2]!; let L3 := parseNum ls[3]!
  let mut p := 4
  let mut bad := 0
  let mut nInv := 0; let mut nInvertible := 0
  let mut kAuto := 0; let mut kLowered := 0; let mut ktopSeen := 0
  let mut nChecks := 0
  let mut nfull := 0
  -- per "op kind": [cases, heuristic runs, switched before the loop, at the first re-check, at a later re-check, never; re-checks declined; full]
  let mut stats : Std.HashMap String (Array Nat) := {}
  for _ in [0:n] do
    let t := parseNum ls[p]!
    let tag := (toks ls[p+1]!).drop 1
    let op := tag.head!
    let key := " ".intercalate tag
    if op == "inv" then
      let A := parseMat ls[p+2]!; let kreal := parseNum ls[p+3]!; let B := parseMat ls[p+4]!
      p := p + 5
      nInv := nInv + 1
      let km := ET.autoK A.nrows (2 * (64 * ((A.ncols + 63) / 64))) L3
      if km < min 7 (optK A.nrows (2 * (64 * ((A.ncols + 63) / 64)))) then kLowered := kLowered + 1
      let X := ET.invM4riTop L3 A
      if A.rank == A.nrows then nInvertible := nInvertible + 1
      stats := bump stats key 0
      if !(matEq X B && km == kreal) then
        bad := bad + 1
        IO.println s!"MISMATCH case {t} (inv): n={A.nrows} k model {km} real {kreal}"
      continue
    let A := parseMat ls[p+2]!
    let full := parseNum ls[p+3]! != 0; let k := parseNum ls[p+4]!; let thr100 := parseNum ls[p+5]!
    let heur := parseNum ls[p+6]! != 0; let kreal := parseNum ls[p+7]!; let ktopReal := parseNum ls[p+8]!
    let npluq := parseNum ls[p+9]!; let ncp := parseNum ls[p+10]!
    p := p + 11
    let mut cps : Array (Nat × Nat × BMat × UInt64 × Bool) := #[]
    for _ in [0:ncp] do
      cps := cps.push (parseNum ls[p]!, parseNum ls[p+1]!, parseMat ls[p+2]!, (parseNum ls[p+3]!).toUInt64, parseNum ls[p+4]! != 0)
      p := p + 5
    let Rm := parseMat ls[p]!; let rank := parseNum ls[p+1]!
    p := p + 2
    let thr : Float := if op == "echelonize" then ET.crossoverDensity else Float.ofNat thr100 / Float.ofNat 100
    let km := if k = 0 then ET.autoK A.nrows A.ncols L3 else k
    if k = 0 then
      kAuto := kAuto + 1
      if km < min 7 (optK A.nrows A.ncols) then kLowered := kLowered + 1
    let o := if op == "echelonize" then ET.echelonize L1 L2 L3 A full
      else if op == "echelonize_m4ri" then ET.echelonizeM4ri L3 A full k
      else ET.echelonizeM4riTop L1 L2 L3 A full k heur thr
    let mut ok := matEq o.1 Rm && o.2 == rank && km == kreal
    stats := bump stats key 0
    if full then nfull := nfull + 1; stats := bump stats key 7
    if heur then
      let T := hybridT thr (ET.pluqEch L1 L2 L3) A full km (fun r => ET.autoKTop r A.ncols L3)
      let log := T.2.1
      nChecks := nChecks + log.size
      -- the traced copy is the model
      ok := ok && matEq T.1.1 o.1 && T.1.2 == o.2
      -- the same tests at the same places on the same matrices with the same outcome
      ok := ok && log.size == ncp && npluq == (if T.2.2 then 1 else 0)
      for q in [0:min log.size ncp] do
        let (r, c, M, b, d) := log[q]!
        let (r', c', M', b', d') := cps[q]!
        if !(r == r' && c == c' && matEq M M' && b == b' && d == d') then ok := false
      -- the k of the top reduction (only when PLUQ took over inside the loop, `full`, r > 0)
      if T.2.2 && full && log.size ≥ 2 then
        let r := log[log.size - 1]!.1
        if r > 0 then
          ktopSeen := ktopSeen + 1
          if ET.autoKTop r A.ncols L3 != ktopReal then ok := false
      stats := bump stats key 1
      let slot := if !T.2.2 then 5 else if log.size == 1 then 2 else if log.size == 2 then 3 else 4
      stats := bump stats key slot
      let declined := if T.2.2 then log.size - 1 else log.size
      for _ in [0:(if declined > 0 then declined - 1 else 0)] do stats := bump stats key 6
    if !ok then
      bad := bad + 1
      IO.println s!"MISMATCH case {t} ({key}): {A.nrows}x{A.ncols} full={full} k={k} (model {km}, real {kreal}) thr={thr100} \
        rank model {o.2} real {rank} checks real {ncp}"
  IO.println s!"config L1={L1} L2={L2} L3={L3}: {n} cases, {bad} mismatches; {nInv} inversions ({nInvertible} invertible); \
    full {nfull}; k = 0 in {kAuto} echelon runs, lowered by the cache test in {kLowered} runs (incl. inversions); \
    top reduction with its own automatic k compared in {ktopSeen} runs; {nChecks} density tests compared"
  IO.println "category: cases | with heuristic: before-loop, first re-check, later re-check, never | further re-checks declined | full"
  for (k, a) in stats.toList.mergeSort (fun x y => x.1 ≤ y.1) do
    IO.println s!"  {k}: {a[0]!} | {a[1]!}: {a[2]!}, {a[3]!}, {a[4]!}, {a[5]!} | {a[6]!} | {a[7]!}"
  return if bad == 0 then 0 else 1
