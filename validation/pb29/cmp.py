#!/usr/bin/env python3
"""cmp.py EXPECT MODEL_OUT : every expected result line must be reproduced by the model driver (the model may append further values)"""
import sys
# a NaN (0/0 when r = nrows: no caller does that) has no observable sign: Lean's Float.toBits reports the canonical NaN
exp = [l.rstrip('\n').replace('xfff8000000000000', 'x7ff8000000000000') for l in open(sys.argv[1]) if l.strip()]
got = {}
for l in open(sys.argv[2]):
    l = l.rstrip('\n')
    if not l: continue
    i = l.split(' ', 1)[0]
    got[i] = l
bad = 0; n = 0
for e in exp:
    i = e.split(' ', 1)[0]
    n += 1
    g = got.get(i)
    if g is None or not (g == e or g.startswith(e + ' ')):
        bad += 1
        if bad <= 10:
            print('MISMATCH', i, '\n  expected', e[:200], '\n  model   ', (g or '<missing>')[:200])
print('%s: %d lines compared, %d mismatches' % (sys.argv[1], n, bad))
sys.exit(1 if bad else 0)
