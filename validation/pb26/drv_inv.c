/* PB26 (4): `mzd_inv_m4ri(B, A, k)`.  Prints the input, the `k` that `_mzd_echelonize_m4ri(C, 1, 0, 0, 1.0)`
   chooses for the work matrix (replicated here from brilliantrussian.c:646-650), the `k` passed (ignored by the
   routine), and the result.  usage: drv_inv ncases seed */
#include "drv_common.h"

static int eff_k(rci_t nrows, rci_t ncols) {
  int k = m4ri_opt_k(nrows, ncols, 0);
  if (k >= 7) k = 7;
  if (0.75 * __M4RI_TWOPOW(k) * ncols > __M4RI_CPU_L3_CACHE / 2.0) k -= 1;
  return k;
}

int main(int argc, char **argv) {
  int ncases = argc > 1 ? atoi(argv[1]) : 100;
  if (argc > 2) rng_s ^= (unsigned long long)atoll(argv[2]) * 0x9E3779B97F4A7C15ULL;
  static const int dims[] = {1, 2, 3, 5, 8, 17, 31, 32, 33, 63, 64, 65, 66, 100, 127, 128, 129, 130, 150, 191, 192, 193};
  int nd = sizeof(dims) / sizeof(dims[0]);
  printf("NCASES %d\n", ncases);
  for (int t = 0; t < ncases; ++t) {
    rci_t n = dims[rndn(nd)];
    if (rndn(3) == 0) n = 1 + rndn(160);
    mzd_t *A;
    int kind = t % 4;
    if (kind == 0) { /* invertible: unit lower * unit upper, rows permuted */
      mzd_t *L = mzd_init(n, n), *U = mzd_init(n, n);
      fill_density(L, 128); fill_density(U, 128);
      for (rci_t i = 0; i < n; ++i) for (rci_t j = 0; j < n; ++j) {
        if (j > i) mzd_write_bit(L, i, j, 0);
        if (j < i) mzd_write_bit(U, i, j, 0);
        if (i == j) { mzd_write_bit(L, i, j, 1); mzd_write_bit(U, i, j, 1); }
      }
      A = mzd_init(n, n);
      mzd_mul_naive(A, L, U);
      for (rci_t i = 0; i < n; ++i) mzd_row_swap(A, i, i + rndn(n - i));
      mzd_free(L); mzd_free(U);
    } else if (kind == 1) { A = mzd_init(n, n); fill_density(A, 128); }      /* random: invertible w.p. ~0.29 */
    else if (kind == 2) { A = rand_rank(n, n, rndn(n + 1)); }                 /* singular (mostly) */
    else { /* sparse invertible: permutation plus a few entries above the diagonal of a triangular matrix */
      mzd_t *U = mzd_init(n, n);
      fill_density(U, 6);
      for (rci_t i = 0; i < n; ++i) for (rci_t j = 0; j <= i; ++j) mzd_write_bit(U, i, j, i == j);
      A = mzd_copy(NULL, U);
      for (rci_t i = 0; i < n; ++i) mzd_row_swap(A, i, i + rndn(n - i));
      mzd_free(U);
    }
    int karg = rndn(9);
    rci_t nr = m4ri_radix * A->width;
    int k = eff_k(n, 2 * nr);
    mzd_t *B = mzd_inv_m4ri(NULL, A, karg);
    printf("CASE %d\n", t);
    print_mat(stdout, "M", A);
    printf("N %d\n", k);
    printf("N %d\n", karg);
    print_mat(stdout, "M", B);
    mzd_free(A); mzd_free(B);
  }
  return 0;
}
