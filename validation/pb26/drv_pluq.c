/* PB26 (1): `_mzd_pluq` against `_mzd_ple` on a copy.  Prints for every case the input, the PLE output and the
   PLUQ output of the real routines.  usage: drv_pluq ncases seed */
#include "drv_common.h"

int main(int argc, char **argv) {
  int ncases = argc > 1 ? atoi(argv[1]) : 100;
  if (argc > 2) rng_s ^= (unsigned long long)atoll(argv[2]) * 0x9E3779B97F4A7C15ULL;
  static const int dims[] = {1, 2, 3, 5, 17, 31, 63, 64, 65, 66, 100, 127, 128, 129, 130, 191, 192, 193, 200, 257};
  int nd = sizeof(dims) / sizeof(dims[0]);
  printf("NCASES %d\n", ncases);
  for (int t = 0; t < ncases; ++t) {
    rci_t m = dims[rndn(nd)], n = dims[rndn(nd)];
    if (rndn(4) == 0) { m = 1 + rndn(140); n = 1 + rndn(300); }
    mzd_t *A = structured(m, n, t);
    mzd_t *A1 = mzd_copy(NULL, A), *A2 = mzd_copy(NULL, A);
    mzp_t *P1 = mzp_init(m), *Q1 = mzp_init(n), *P2 = mzp_init(m), *Q2 = mzp_init(n);
    /* junk in the permutations on entry: the routines must overwrite them */
    for (rci_t i = 0; i < m; ++i) P1->values[i] = P2->values[i] = rndn(m);
    for (rci_t i = 0; i < n; ++i) Q1->values[i] = Q2->values[i] = rndn(n);
    rci_t r1 = _mzd_ple(A1, P1, Q1, 0);
    rci_t r2 = _mzd_pluq(A2, P2, Q2, 0);
    printf("CASE %d\n", t);
    print_mat(stdout, "M", A);
    print_mat(stdout, "M", A1);
    print_perm(stdout, "V", P1);
    print_perm(stdout, "V", Q1);
    printf("N %d\n", r1);
    print_mat(stdout, "M", A2);
    print_perm(stdout, "V", P2);
    print_perm(stdout, "V", Q2);
    printf("N %d\n", r2);
    mzd_free(A); mzd_free(A1); mzd_free(A2);
    mzp_free(P1); mzp_free(Q1); mzp_free(P2); mzp_free(Q2);
  }
  return 0;
}
