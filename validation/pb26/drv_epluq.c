/* PB26 (2): the three window cases of the `full` branch of `mzd_echelonize_pluq` (echelonform.c:38).  Prints the input,
   the output of `mzd_pluq` (resp. `mzd_ple` when not full) run on a copy, and the result of the real
   `mzd_echelonize_pluq(A, full)`.  usage: drv_epluq ncases seed */
#include "drv_common.h"

int main(int argc, char **argv) {
  int ncases = argc > 1 ? atoi(argv[1]) : 100;
  if (argc > 2) rng_s ^= (unsigned long long)atoll(argv[2]) * 0x9E3779B97F4A7C15ULL;
  static const int dims[] = {1, 3, 17, 63, 64, 65, 100, 127, 128, 129, 130, 191, 192, 193, 200, 257};
  int nd = sizeof(dims) / sizeof(dims[0]);
  printf("NCASES %d\n", ncases);
  for (int t = 0; t < ncases; ++t) {
    rci_t m = dims[rndn(nd)], n = dims[rndn(nd)];
    int full = (t % 4) != 3;
    mzd_t *A;
    switch (t % 3) {
    case 0: { /* rank a multiple of 64 (with high probability) */
      rci_t k = 64 * (1 + rndn(3));
      if (m < k + 10) m = k + 10 + rndn(60);
      if (rndn(2)) { if (n < k + 10) n = k + 10 + rndn(100); } else n = k + rndn(3) * 32;
      if (n < k) n = k;
      A = rand_rank(m, n, k);
      break; }
    case 1: A = structured(m, n, t / 3); break;
    default: { /* rank r with r % 64 != 0 and few columns beyond the word of r */
      rci_t k = 1 + rndn(150);
      if (m < k) m = k + rndn(50);
      n = 64 * (k / 64) + (rndn(2) ? 1 + rndn(64) : 65 + rndn(100));
      if (n < k) n = k;
      A = rand_rank(m, n, k);
      break; }
    }
    m = A->nrows; n = A->ncols;
    mzd_t *F = mzd_copy(NULL, A), *E = mzd_copy(NULL, A);
    mzp_t *P = mzp_init(m), *Q = mzp_init(n);
    rci_t r = full ? mzd_pluq(F, P, Q, 0) : mzd_ple(F, P, Q, 0);
    rci_t r2 = mzd_echelonize_pluq(E, full);
    printf("CASE %d\n", t);
    print_mat(stdout, "M", A);
    printf("N %d\n", full);
    print_mat(stdout, "M", F);
    print_perm(stdout, "V", P);
    print_perm(stdout, "V", Q);
    printf("N %d\n", r);
    print_mat(stdout, "M", E);
    printf("N %d\n", r2);
    mzd_free(A); mzd_free(F); mzd_free(E); mzp_free(P); mzp_free(Q);
  }
  return 0;
}
