/* side observation: k = 0 after the cache adjustment in _mzd_echelonize_m4ri => kk = 0 => the loop never advances */
#include <m4ri/m4ri.h>
#include <stdio.h>
#include <stdlib.h>
int main(int argc, char **argv) {
  rci_t n = argc > 1 ? atoi(argv[1]) : 20000000;
  mzd_t *A = mzd_init(2, n);
  mzd_write_bit(A, 0, 5, 1);
  mzd_write_bit(A, 1, 7, 1);
  int k = m4ri_opt_k(A->nrows, A->ncols, 0);
  printf("opt_k = %d, 0.75*2^k*ncols = %.0f, L3/2 = %.0f\n", k, 0.75 * (1 << k) * n, __M4RI_CPU_L3_CACHE / 2.0);
  fflush(stdout);
  rci_t r = mzd_echelonize_m4ri(A, 1, 0);
  printf("returned %d\n", r);
  return 0;
}
