import sys
cpf, orf = sys.argv[1], sys.argv[2]
cp=[l for l in open(cpf).read().split('\n') if l]
i=1; cases=[]
n=int(cp[0].split()[1])
for t in range(n):
    i+=1; full=int(cp[i].split()[1]); i+=1; ncp=int(cp[i].split()[1]); i+=1
    pts=[]
    for q in range(ncp):
        r=int(cp[i].split()[1]); c=int(cp[i+1].split()[1]); hdr=cp[i+2].split(' ',3); i+=3
        pts.append((r,c,hdr[1],hdr[2]))
    cases.append((full,pts))
o=[l for l in open(orf).read().split('\n') if l]
i=1
for t in range(n):
    i+=1; ncp=int(o[i].split()[1]); i+=1
    decs=[int(o[i+q].split()[1]) for q in range(ncp)]; i+=ncp
    sw=int(o[i].split()[1]); i+=1
    if sw<ncp: i+=3
    print(t,'kind',(t//2)%12,'full',cases[t][0],cases[t][1],decs)
