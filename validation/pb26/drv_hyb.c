/* PB26 (3): `mzd_echelonize(A, full)` = `_mzd_echelonize_m4ri(A, full, 0, 1, 0.15)`, the hybrid M4RI/PLUQ elimination.
   Nothing in the library is instrumented.  Two modes:
     drv_hyb gen ncases seed          > hyb_in.txt   inputs, the k chosen for k = 0, and the result of the REAL routine
     drv_hyb oracle hyb_cp.txt        > hyb_or.txt   for the loop states at the check points (computed by the Lean model,
                                                     file hyb_cp.txt) the REAL `_mzd_density(M, 32, r, c) >= 0.15`, and at the
                                                     first `true` the REAL `mzd_echelonize_pluq` on a copy of the window
                                                     `M[r.., 64*(c/64)..]`, plus the k that `_mzd_top_echelonize_m4ri(A, 0, r, c, r)`
                                                     chooses */
#include "drv_common.h"

static int eff_k(rci_t a, rci_t ncols) {
  int k = m4ri_opt_k(a, ncols, 0);
  if (k >= 7) k = 7;
  if (0.75 * __M4RI_TWOPOW(k) * ncols > __M4RI_CPU_L3_CACHE / 2.0) k -= 1;
  return k;
}

/* columns [c0, c1) of the rows [r0, r1) filled with density d/256 */
static void fill_block(mzd_t *A, rci_t r0, rci_t r1, rci_t c0, rci_t c1, int d) {
  for (rci_t i = r0; i < r1 && i < A->nrows; ++i)
    for (rci_t j = c0; j < c1 && j < A->ncols; ++j) mzd_write_bit(A, i, j, (int)(rnd64() & 255) < d);
}

/* left block `[0, L)`: only `rho` random rows are non-zero there (sparse), so that the M4RI loop reaches column `L`
   with `r` about `rho` */
static void low_rank_left(mzd_t *A, rci_t L, rci_t rho, int d) {
  for (rci_t t = 0; t < rho; ++t) {
    rci_t i = rndn(A->nrows);
    for (rci_t j = 0; j < L && j < A->ncols; ++j) mzd_write_bit(A, i, j, (int)(rnd64() & 255) < d);
  }
}
static void unit_upper_sparse(mzd_t *A, int d) {
  fill_block(A, 0, A->nrows, 0, A->ncols, d);
  for (rci_t i = 0; i < A->nrows; ++i) for (rci_t j = 0; j < A->ncols && j < i; ++j) mzd_write_bit(A, i, j, 0);
  for (rci_t i = 0; i < A->nrows && i < A->ncols; ++i) mzd_write_bit(A, i, i, 1);
}

static mzd_t *gen_matrix(int t, int *full) {
  static const int rows[] = {40, 100, 130, 200, 257, 300, 330, 400};
  static const int cols[] = {100, 256, 257, 258, 300, 320, 321, 330, 384, 400, 449, 512, 530, 576, 600, 640, 700, 704};
  rci_t m = rows[rndn(8)], n = cols[rndn(18)];
  *full = t & 1;
  int kind = (t / 2) % 12;
  static const int wide[] = {449, 512, 530, 576, 600, 640, 700, 704};
  if (kind == 5) { m = 540 + rndn(80); n = 705 + rndn(60); }
  if (kind == 11) { m = 540 + rndn(80); n = 600 + rndn(60); }
  if (kind == 2 || kind == 6 || kind == 9 || kind == 10) { n = wide[rndn(8)]; if (m < 100) m = 100 + rndn(200); }
  if (kind == 3 && (t / 24) % 2) { m = 300 + rndn(120); n = 300 + rndn(200); }
  mzd_t *A = mzd_init(m, n);
  switch (kind) {
  case 0: fill_density(A, 128); break;                               /* dense: PLUQ at once */
  case 1: fill_density(A, 3 + rndn(6)); break;                       /* sparse: fill-in decides */
  case 2: case 6: case 10: { /* left part of low rank and sparse, dense right part (from a word boundary on, all rows
                                or only the lower ones): switch at the first loop check, with r small or zero */
    rci_t L = 257 + rndn(90);
    low_rank_left(A, L, kind == 6 ? rndn(3) : 1 + rndn(60), 20);
    fill_block(A, kind == 10 ? rndn(m) : 0, m, 64 * (L / 64) - 64 * rndn(2), n, 128);
    break; }
  case 3: unit_upper_sparse(A, 2); break;                            /* no switch (density stays low), pure M4RI */
  case 4: /* low rank, identity on the left: rank deficient, pivot gaps */
    { mzd_t *B = rand_rank(m, n, 1 + rndn(m < n ? m : n)); mzd_copy(A, B); mzd_free(B);
      fill_block(A, 0, m, 0, 128, 0);
      for (rci_t i = 0; i < m && i < 128; ++i) mzd_write_bit(A, i, i, 1); }
    break;
  case 5: /* sparse triangular, dense block far right and low: declined at the first check, switch at the second */
    unit_upper_sparse(A, 1);
    fill_block(A, 515 + rndn(20), m, 500 + rndn(40), n, 140);
    break;
  case 7: /* identity-like on the left 300 columns, then moderately dense */
    for (rci_t i = 0; i < m && i < n; ++i) mzd_write_bit(A, i, i, 1);
    fill_block(A, 0, m, 280, n, 30 + rndn(60));
    break;
  case 8: fill_density(A, 30 + rndn(16)); break;                     /* density close to the threshold everywhere */
  case 9: { /* left part of low rank, right part of density near the threshold */
    rci_t L = 257 + rndn(90);
    low_rank_left(A, L, 1 + rndn(40), 20);
    fill_block(A, 0, m, 64 * (L / 64), n, 60 + rndn(40));
    break; }
  default: /* two sparse stretches: both loop checks decline */
    unit_upper_sparse(A, 1);
    break;
  }
  return A;
}

int main(int argc, char **argv) {
  if (argc < 2) return 2;
  if (!strcmp(argv[1], "gen")) {
    int ncases = argc > 2 ? atoi(argv[2]) : 100;
    if (argc > 3) rng_s ^= (unsigned long long)atoll(argv[3]) * 0x9E3779B97F4A7C15ULL;
    printf("NCASES %d\n", ncases);
    for (int t = 0; t < ncases; ++t) {
      int full;
      mzd_t *A = gen_matrix(t, &full);
      mzd_t *R = mzd_copy(NULL, A);
      int k = eff_k(A->nrows, A->ncols);
      rci_t rank = mzd_echelonize(R, full);
      printf("CASE %d\n", t);
      print_mat(stdout, "M", A);
      printf("N %d\n", full);
      printf("N %d\n", k);
      print_mat(stdout, "M", R);
      printf("N %d\n", rank);
      mzd_free(A); mzd_free(R);
    }
    return 0;
  }
  if (!strcmp(argv[1], "oracle")) {
    FILE *f = fopen(argv[2], "r");
    if (!f) return 3;
    int ncases = (int)read_num(f);
    printf("NCASES %d\n", ncases);
    for (int t = 0; t < ncases; ++t) {
      (void)read_num(f); /* CASE */
      int full = (int)read_num(f);
      int ncp = (int)read_num(f);
      printf("CASE %d\n", t);
      printf("N %d\n", ncp);
      int sw = ncp;
      mzd_t *W = NULL; rci_t r2 = 0; int ktop = 0;
      for (int q = 0; q < ncp; ++q) {
        rci_t r = (rci_t)read_num(f), c = (rci_t)read_num(f);
        mzd_t *M = read_mat(f);
        int dec = _mzd_density(M, 32, r, c) >= __M4RI_ECHELONFORM_CROSSOVER_DENSITY;
        printf("N %d\n", dec);
        if (dec && sw == ncp) {
          sw = q;
          rci_t c0 = (c / m4ri_radix) * m4ri_radix;
          mzd_t *Abar = mzd_init_window(M, r, c0, M->nrows, M->ncols);
          W = mzd_copy(NULL, Abar);
          mzd_free_window(Abar);
          r2 = mzd_echelonize_pluq(W, full);
          ktop = r > 0 ? eff_k(r, M->ncols) : 0;
        }
        mzd_free(M);
      }
      printf("N %d\n", sw);
      if (sw < ncp) {
        print_mat(stdout, "M", W);
        printf("N %d\n", r2);
        printf("N %d\n", ktop);
        mzd_free(W);
      }
    }
    return 0;
  }
  return 2;
}
