/- PB26 validation harness: reads the token lines written by the C drivers (drv_common.h), runs the Lean models on
   the same inputs and compares bit for bit.  usage (from the lean directory):
     lake env lean --run ../scratch/Check.lean pluq FILE -/
import M4ri.Glue2
open M4ri M4ri.BMat

namespace PB26

def hexDigit (c : Char) : Nat :=
  if '0' ≤ c ∧ c ≤ '9' then c.toNat - '0'.toNat
  else if 'a' ≤ c ∧ c ≤ 'f' then c.toNat - 'a'.toNat + 10
  else if 'A' ≤ c ∧ c ≤ 'F' then c.toNat - 'A'.toNat + 10 else 0

def hexToNat (s : String) : Nat := s.foldl (fun acc c => acc * 16 + hexDigit c) 0

def toks (l : String) : List String := (l.splitOn " ").filter (· ≠ "")

/-- "M nrows ncols hex…" -/
def parseMat (l : String) : BMat :=
  match toks l with
  | _ :: nr :: nc :: rest => ⟨nr.toNat!, nc.toNat!, (rest.map hexToNat).toArray⟩
  | _ => ⟨0, 0, #[]⟩

/-- "V n v…" -/
def parseVec (l : String) : Array Nat :=
  match toks l with
  | _ :: _ :: rest => (rest.map String.toNat!).toArray
  | _ => #[]

/-- "N x" (also "CASE x", "NCASES x") -/
def parseNum (l : String) : Nat :=
  match toks l with
  | _ :: x :: _ => x.toNat!
  | _ => 0

def readLines (path : String) : IO (Array String) := do
  let s ← IO.FS.readFile path
  return ((s.splitOn "\n").filter (· ≠ "")).toArray

def matEq (A B : BMat) : Bool := A.nrows == B.nrows && A.ncols == B.ncols && A.rows == B.rows

end PB26

open PB26 in
/-- (1): `G2.pluqOfPle (fun _ => C's PLE output) A` against C's `_mzd_pluq` output -/
def checkPluq (path : String) : IO UInt32 := do
  let ls ← readLines path
  let n := parseNum ls[0]!
  let mut bad := 0
  let mut win := 0
  let mut whole := 0
  let mut staleQ := 0
  let mut rec_ := 0
  for t in [0:n] do
    let b := 1 + 10 * t
    let A := parseMat ls[b+1]!
    let S := parseMat ls[b+2]!; let P := parseVec ls[b+3]!; let Q := parseVec ls[b+4]!; let r := parseNum ls[b+5]!
    let S' := parseMat ls[b+6]!; let P' := parseVec ls[b+7]!; let Q' := parseVec ls[b+8]!; let r' := parseNum ls[b+9]!
    let o := G2.pluqOfPle (fun _ => (S, P, Q, r)) A
    if 0 < r ∧ r < A.nrows then win := win + 1 else whole := whole + 1
    if (List.range A.ncols).any (fun i => r ≤ i && Q.getD i 0 != i) then staleQ := staleQ + 1
    if A.ncols > 64 then rec_ := rec_ + 1
    -- the certificate checkers of the framework on the real outputs
    let okc := checkPLE A S P Q r && checkPLUQ A S' P' Q' r'
    if !(matEq o.1 S' && o.2.1 == P' && o.2.2.1 == Q' && o.2.2.2 == r' && okc) then
      bad := bad + 1
      IO.println s!"MISMATCH case {t}: {A.nrows}x{A.ncols} r={r} r'={r'} checkers={okc}"
  IO.println s!"pluq: {n} cases, {bad} mismatches; window branch {win}, whole-matrix branch {whole}, \
    Q not the identity beyond the rank {staleQ}, more than 64 columns {rec_}"
  return if bad == 0 then 0 else 1

open PB26 in
/-- (4): `G2.invM4ri A k` against C's `mzd_inv_m4ri(NULL, A, karg)`; `k` = the automatic choice -/
def checkInv (path : String) : IO UInt32 := do
  let ls ← readLines path
  let n := parseNum ls[0]!
  let mut bad := 0
  let mut inv := 0
  let mut sing := 0
  let mut badspec := 0
  for t in [0:n] do
    let b := 1 + 5 * t
    let A := parseMat ls[b+1]!
    let k := parseNum ls[b+2]!
    let B := parseMat ls[b+4]!
    let R := G2.invM4ri A k
    let isInv := A.rank == A.nrows
    if isInv then
      inv := inv + 1
      -- the specification side: `inverseSpec`, and a genuine inverse
      if !(matEq R (inverseSpec A) && matEq (A.mul R) (identity A.nrows)) then badspec := badspec + 1
    else sing := sing + 1
    if !(matEq R B) then
      bad := bad + 1
      IO.println s!"MISMATCH case {t}: n={A.nrows} k={k} invertible={isInv}"
  IO.println s!"inv: {n} cases, {bad} mismatches; invertible {inv} (of which {badspec} fail inverseSpec / A·B = I), singular {sing}"
  return if bad == 0 && badspec == 0 then 0 else 1

namespace PB26

def natToHex (n : Nat) : String :=
  if n == 0 then "0" else String.ofList (Nat.toDigits 16 n)

def showMat (M : BMat) : String :=
  (List.range M.nrows).foldl (fun acc i => acc ++ " " ++ natToHex (M.row i)) s!"M {M.nrows} {M.ncols}"

/-- the states `(r, c, M)` at which `_mzd_echelonize_m4ri(…, heuristic = 1, …)` evaluates the density, as long as
    no switch has happened (`G2.hybLoop` with `switch = false`): the pre-loop test and every loop test -/
def cpLoop (full : Bool) (k : Nat) : Nat → M4RI.St → Nat → Array (Nat × Nat × BMat) → Array (Nat × Nat × BMat)
  | 0, _, _, acc => acc
  | fuel + 1, s, lc, acc =>
    if s.c < s.M.ncols then
      let chk : Bool := decide (s.c > lc + 256)
      let lc := if chk then s.c else lc
      let acc := if chk && decide (s.r < s.M.nrows) then acc.push (s.r, s.c, s.M) else acc
      let sb := M4RI.echStep full k (fun _ => 0) s
      if sb.2 then cpLoop full k fuel sb.1 lc acc else acc
    else acc

def checkPoints (A : BMat) (full : Bool) (k : Nat) : Array (Nat × Nat × BMat) :=
  let acc := if 0 < A.ncols ∧ 0 < A.nrows then #[(0, 0, A)] else #[]
  cpLoop full k (A.ncols + 1) ⟨A, 0, 0, 6 * k⟩ 0 acc

end PB26

open PB26 in
/-- (3), pass 2: write the check-point states of every case -/
def hybPoints (inp : String) : IO UInt32 := do
  let ls ← readLines inp
  let n := parseNum ls[0]!
  IO.println s!"NCASES {n}"
  for t in [0:n] do
    let b := 1 + 6 * t
    let A := parseMat ls[b+1]!
    let full := parseNum ls[b+2]! == 1
    let k := parseNum ls[b+3]!
    let cps := checkPoints A full k
    IO.println s!"CASE {t}"
    IO.println s!"N {if full then 1 else 0}"
    IO.println s!"N {cps.size}"
    for (r, c, M) in cps do
      IO.println s!"N {r}"
      IO.println s!"N {c}"
      IO.println (showMat M)
  return 0

open PB26 in
/-- (3), pass 4: `G2.echelonizeHybrid` with the real density decisions as `switch` and the real
    `mzd_echelonize_pluq` result on the window as `pluqEch`, against the real `mzd_echelonize(A, full)` -/
def hybFinal (inp orc : String) : IO UInt32 := do
  let ls ← readLines inp
  let os ← readLines orc
  let n := parseNum ls[0]!
  let mut bad := 0
  let mut pos := 1
  let mut nPre := 0; let mut nLoop1 := 0; let mut nLoopLater := 0; let mut nNone := 0
  let mut nTop := 0; let mut nFull := 0; let mut nNoCheck := 0; let mut nDeclined := 0; let mut nUnaligned := 0
  let mut badSpec := 0
  for t in [0:n] do
    let b := 1 + 6 * t
    let A := parseMat ls[b+1]!
    let full := parseNum ls[b+2]! == 1
    let k := parseNum ls[b+3]!
    let R := parseMat ls[b+4]!
    let rank := parseNum ls[b+5]!
    let cps := checkPoints A full k
    -- oracle block
    let ncp := parseNum os[pos+1]!
    if ncp != cps.size then IO.println s!"case {t}: check point count differs"
    let decs := (List.range ncp).map fun q => parseNum os[pos+2+q]! == 1
    let sw := parseNum os[pos+2+ncp]!
    let (W, r2, ktop, adv) :=
      if sw < ncp then (parseMat os[pos+3+ncp]!, parseNum os[pos+4+ncp]!, parseNum os[pos+5+ncp]!, 6 + ncp)
      else ((⟨0, 0, #[]⟩ : BMat), 0, 0, 3 + ncp)
    pos := pos + adv
    let table : List ((Nat × Nat) × Bool) := (cps.toList.map fun (r, c, _) => (r, c)).zip decs
    let switch : Nat → Nat → BMat → Bool := fun r c _ => (table.lookup (r, c)).getD false
    let pluqEch : BMat → Bool → BMat × Nat := fun _ _ => (W, r2)
    let out := G2.echelonizeHybrid switch pluqEch A full k (fun _ => ktop)
    if full then nFull := nFull + 1
    if ncp ≤ 1 then nNoCheck := nNoCheck + 1
    if sw ≥ ncp then
      nNone := nNone + 1
      if decs.length > 0 then nDeclined := nDeclined + 1
    else
      let (r, c, _) := cps[sw]!
      if r == 0 ∧ c == 0 ∧ sw == 0 then nPre := nPre + 1
      else
        if sw == 1 then nLoop1 := nLoop1 + 1 else nLoopLater := nLoopLater + 1
        if c % 64 != 0 then nUnaligned := nUnaligned + 1
        if full ∧ r > 0 then nTop := nTop + 1
    -- the specification side
    if !(checkEchelon A out.1 out.2 full) then badSpec := badSpec + 1
    if !(matEq out.1 R && out.2 == rank) then
      bad := bad + 1
      IO.println s!"MISMATCH case {t}: {A.nrows}x{A.ncols} full={full} k={k} sw={sw}/{ncp} rank C={rank} model={out.2}"
  IO.println s!"hybrid: {n} cases ({nFull} full), {bad} mismatches, {badSpec} rejected by checkEchelon; \
    switch before the loop {nPre}, at the first loop check {nLoop1}, at a later loop check {nLoopLater}, never {nNone} \
    (of which the density test was made and declined in {nDeclined}); no loop check at all {nNoCheck}; \
    top-echelonize after the switch {nTop}; switch column not word-aligned {nUnaligned}"
  return if bad == 0 && badSpec == 0 then 0 else 1

open PB26 in
/-- (2): `PN.echelonizePluq (fun _ => C's factorisation) A full` against C's `mzd_echelonize_pluq(A, full)`, with the
    three window cases of the `full` branch counted -/
def checkEpluq (path : String) : IO UInt32 := do
  let ls ← readLines path
  let n := parseNum ls[0]!
  let mut bad := 0
  let mut c1 := 0; let mut c2 := 0; let mut c3 := 0; let mut c0 := 0; let mut nf := 0
  for t in [0:n] do
    let b := 1 + 9 * t
    let A := parseMat ls[b+1]!
    let full := parseNum ls[b+2]! == 1
    let S := parseMat ls[b+3]!; let P := parseVec ls[b+4]!; let Q := parseVec ls[b+5]!; let r := parseNum ls[b+6]!
    let E := parseMat ls[b+7]!; let r2 := parseNum ls[b+8]!
    let o := PN.echelonizePluq (fun _ => (S, P, Q, r)) A full
    if full then
      if r == A.ncols then c0 := c0 + 1
      else if r % 64 == 0 then c1 := c1 + 1
      else if A.ncols > 64 * (r / 64) + 64 then c2 := c2 + 1 else c3 := c3 + 1
    else nf := nf + 1
    if !(matEq o.1 E && o.2 == r2 && checkEchelon A E r2 full) then
      bad := bad + 1
      IO.println s!"MISMATCH case {t}: {A.nrows}x{A.ncols} full={full} r={r}"
  IO.println s!"echelonize_pluq: {n} cases, {bad} mismatches; full: r = ncols (no trsm) {c0}, r % 64 = 0 {c1}, \
    r % 64 ≠ 0 and ncols > r_radix + 64 {c2}, r % 64 ≠ 0 and ncols ≤ r_radix + 64 {c3}; not full {nf}"
  return if bad == 0 then 0 else 1

def main (args : List String) : IO UInt32 :=
  match args with
  | ["epluq", f] => checkEpluq f
  | ["pluq", f] => checkPluq f
  | ["inv", f] => checkInv f
  | ["hyb1", f] => hybPoints f
  | ["hyb2", f, g] => hybFinal f g
  | _ => do IO.println "usage: pluq FILE | inv FILE | hyb1 IN | hyb2 IN ORACLE"; return 2
