#!/bin/sh
# PB26 (3) validation pipeline: gen -> Lean check points -> C oracle -> Lean final comparison
set -e
cd /tmp/prf/pb26/scratch
N=${1:-400}; SEED=${2:-11}
./drv_hyb gen $N $SEED > hyb_in.txt
(cd ../lean && lake env lean --run ../scratch/Check.lean hyb1 ../scratch/hyb_in.txt > ../scratch/hyb_cp.txt)
./drv_hyb oracle hyb_cp.txt > hyb_or.txt
(cd ../lean && lake env lean --run ../scratch/Check.lean hyb2 ../scratch/hyb_in.txt ../scratch/hyb_or.txt) | tee hyb_result.txt
