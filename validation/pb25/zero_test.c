#include <stdio.h>
#include <m4ri/m4ri.h>
int main(void) {
  mzd_t *L = mzd_init(2, 2);
  mzd_write_bit(L,0,0,1); mzd_write_bit(L,1,0,1); mzd_write_bit(L,1,1,1);
  mzd_t *B = mzd_init(2, 0);
  printf("B: width=%d rowstride=%d data=%p\n", (int)B->width, (int)B->rowstride, (void*)B->data);
  fflush(stdout);
  mzd_trsm_lower_left(L, B, 0);
  printf("survived\n");
  return 0;
}
