/* PB25 driver: runs the REAL triangular routines of m4ri on random inputs and prints inputs + outputs.
   usage: driver <seed> <ncases> <routine or -1 for all> [big]
   output format (one case):
     CASE <routine> <k> <start> <mb> <nb> <n>
     n lines   : rows of the triangular matrix T (hex, bit j = column j)
     mb lines  : rows of B                         (routines with a right-hand side)
     mb|n lines: rows of the result
*/
#include <stdio.h>
#include <stdlib.h>
#include <string.h>
#include <stdint.h>
#include <m4ri/m4ri.h>
#include <m4ri/triangular_russian.h>

void _mzd_trsm_upper_right_base(mzd_t const *U, mzd_t *B);
void _mzd_trsm_lower_right_base(mzd_t const *L, mzd_t *B);
void _mzd_trsm_upper_left_submatrix(mzd_t const *U, mzd_t *B, rci_t const start_row, int const k, word const mask_end);
void _mzd_trsm_lower_left_submatrix(mzd_t const *L, mzd_t *B, rci_t const start_row, int const k, word const mask_end);

static uint64_t s;
static uint64_t rnd(void) { s ^= s << 13; s ^= s >> 7; s ^= s << 17; return s; }
static int rint_(int lo, int hi) { return lo + (int)(rnd() % (uint64_t)(hi - lo + 1)); }

/* density: 0 = 1/2, 1 = sparse (1/16), 2 = dense (15/16), 3 = zero, 4 = all ones */
static void fill(mzd_t *M, int dens) {
  for (rci_t i = 0; i < M->nrows; i++)
    for (rci_t j = 0; j < M->ncols; j++) {
      int b;
      uint64_t r = rnd();
      switch (dens) {
      case 0: b = r & 1; break;
      case 1: b = (r & 15) == 0; break;
      case 2: b = (r & 15) != 0; break;
      case 3: b = 0; break;
      default: b = 1;
      }
      mzd_write_bit(M, i, j, b);
    }
}

static void print_rows(mzd_t const *M) {
  for (rci_t i = 0; i < M->nrows; i++) {
    word const *row = mzd_row_const(M, i);
    if (M->width == 0) { printf("0\n"); continue; }
    for (wi_t w = M->width - 1; w >= 0; w--) {
      word v = row[w];
      if (w == M->width - 1) v &= M->high_bitmask;
      printf("%016llx", (unsigned long long)v);
    }
    printf("\n");
  }
}

static int pick_size(int maxn) {
  /* sizes 1..maxn with emphasis on word boundaries */
  static const int special[] = {1, 2, 3, 7, 8, 16, 31, 32, 33, 63, 64, 65, 66, 96, 127, 128, 129, 130, 160, 191, 192, 193, 200, 255, 256, 257, 300};
  if (rnd() % 3 == 0) {
    int v = special[rnd() % (sizeof(special) / sizeof(int))];
    if (v <= maxn) return v;
  }
  return rint_(1, maxn);
}

/* kind of triangular input for trtri: 0 = clean unit upper, 1 = junk below, unit diagonal, 2 = all junk */
static void make_tri(mzd_t *A, int kind, int dens) {
  fill(A, dens);
  if (kind <= 1)
    for (rci_t i = 0; i < A->nrows; i++) mzd_write_bit(A, i, i, 1);
  if (kind == 0)
    for (rci_t i = 0; i < A->nrows; i++)
      for (rci_t j = 0; j < i; j++) mzd_write_bit(A, i, j, 0);
}

static void one_case(int routine, int big) {
  int n = 0, mb = 0, nb = 0, k = 0, start = 0;
  int maxn = big ? big : 300;
  int dens = (int)(rnd() % 8); if (dens > 4) dens = 0;
  int densB = (int)(rnd() % 8); if (densB > 4) densB = 0;
  switch (routine) {
  case 0: case 1: n = mb = pick_size(64); nb = pick_size(200); break;
  case 2: case 3: n = nb = pick_size(64); mb = pick_size(300); break;
  case 4: case 5: n = mb = pick_size(300); nb = pick_size(200); k = rint_(0, n < 64 ? n : 64); start = rint_(0, n - k); break;
  case 6: case 7: n = mb = pick_size(maxn); nb = pick_size(200); k = rint_(0, 8); break;
  case 8: n = pick_size(maxn); k = rint_(0, 10); if (k > 7 && rnd() % 2) k = 0; break;
  case 9: case 10: n = mb = pick_size(maxn); nb = pick_size(200); break;
  case 11: case 12: n = nb = pick_size(maxn); mb = pick_size(200); break;
  case 13: n = pick_size(maxn); break;
  }
  if ((routine >= 4 && routine <= 7) || routine == 9 || routine == 10) {
    if (rnd() % 8 == 0) { nb = rint_(257, 700); if (n > 120) { n = mb = rint_(1, 120); if (routine <= 5) { k = rint_(0, n < 64 ? n : 64); start = rint_(0, n - k); } } }
  }
  if (big && routine >= 9) { /* force the recursive regime from time to time */
    if (routine == 13) n = rint_(big / 2, big);
    else if (routine <= 10) n = mb = rint_(big / 2, big);
    else n = nb = rint_(big / 2, big);
  }
  mzd_t *parent = NULL;
  mzd_t *T;
  if ((routine == 8 || routine == 13) && rnd() % 5 == 0) {
    /* a window starting at an odd word: the aligned-copy branch of mzd_trtri_upper_russian (SSE2 builds) */
    parent = mzd_init(n, n + 64);
    T = mzd_init_window(parent, 0, 64, n, n + 64);
  } else T = mzd_init(n, n);
  if (routine == 8 || routine == 13) make_tri(T, (int)(rnd() % 3), dens);
  else if (routine == 12) {
    /* the middle regime of upper_right inverts extract_u(U): keep both kinds of diagonal */
    fill(T, dens);
    if (rnd() % 2) for (rci_t i = 0; i < n; i++) mzd_write_bit(T, i, i, 1);
  } else fill(T, dens);
  printf("CASE %d %d %d %d %d %d\n", routine, k, start, mb, nb, n);
  print_rows(T);
  if (routine == 8 || routine == 13) {
    if (routine == 8) mzd_trtri_upper_russian(T, k); else mzd_trtri_upper(T);
    print_rows(T);
    if (parent) { mzd_free_window(T); mzd_free(parent); } else mzd_free(T);
    return;
  }
  mzd_t *B = mzd_init(mb, nb);
  fill(B, densB);
  print_rows(B);
  switch (routine) {
  case 0: _mzd_trsm_lower_left(T, B, 0); break;
  case 1: _mzd_trsm_upper_left(T, B, 0); break;
  case 9: if (rnd() % 2) mzd_trsm_lower_left(T, B, 0); else _mzd_trsm_lower_left(T, B, 0); break;
  case 10: if (rnd() % 2) mzd_trsm_upper_left(T, B, 0); else _mzd_trsm_upper_left(T, B, 0); break;
  case 2: _mzd_trsm_upper_right_base(T, B); break;
  case 3: _mzd_trsm_lower_right_base(T, B); break;
  case 4: _mzd_trsm_lower_left_submatrix(T, B, start, k, B->high_bitmask); break;
  case 5: _mzd_trsm_upper_left_submatrix(T, B, start, k, B->high_bitmask); break;
  case 6: _mzd_trsm_lower_left_russian(T, B, k); break;
  case 7: _mzd_trsm_upper_left_russian(T, B, k); break;
  case 11: if (rnd() % 2) mzd_trsm_lower_right(T, B, 0); else _mzd_trsm_lower_right(T, B, 0); break;
  case 12: if (rnd() % 2) mzd_trsm_upper_right(T, B, 0); else _mzd_trsm_upper_right(T, B, 0); break;
  }
  print_rows(B);
  mzd_free(B);
  mzd_free(T);
}

int main(int argc, char **argv) {
  uint64_t seed = argc > 1 ? strtoull(argv[1], 0, 10) : 1;
  int ncases = argc > 2 ? atoi(argv[2]) : 10;
  int routine = argc > 3 ? atoi(argv[3]) : -1;
  int big = argc > 4 ? atoi(argv[4]) : 0;
  s = seed * 0x9E3779B97F4A7C15ull + 0x1234567ull;
  for (int i = 0; i < 20; i++) rnd();
  printf("PARAMS %d %d %d %d\n", (int)__M4RI_MUL_BLOCKSIZE, (int)__M4RI_CPU_L2_CACHE, (int)__M4RI_CPU_L3_CACHE,
         (int)__M4RI_HAVE_SSE2);
  for (int c = 0; c < ncases; c++) {
    int r = routine >= 0 ? routine : c % 14;
    one_case(r, big);
  }
  printf("END\n");
  return 0;
}
