#!/bin/sh
# PB25 validation: real m4ri routines (two build configurations) against the Lean mirrors of M4ri/TrsmBase.lean.
#   ./run_validation.sh            -> builds, runs ~2400 cases, prints the comparison summary and gcov coverage
set -e
S=/tmp/prf/pb25/scratch
LEAN=/tmp/prf/pb25/lean
cd $S
CFLAGS="-O1 -g -std=gnu99 -msse2 -DHAVE_CONFIG_H"
build() {  # $1 = dir holding m4ri/ ; triangular*.c get coverage instrumentation
  d=$1
  mkdir -p $d/obj
  for f in $d/m4ri/*.c; do
    b=$(basename $f .c)
    extra=""
    case $b in triangular|triangular_russian) extra="--coverage";; esac
    gcc $CFLAGS $extra -I$d -I$d/m4ri -c $f -o $d/obj/$b.o 2>/dev/null
  done
  rm -f $d/libm4ri.a; ar rcs $d/libm4ri.a $d/obj/*.o
  gcc $CFLAGS --coverage -I$d -I$d/m4ri driver.c $d/libm4ri.a -lm -lpng -o $d/driver_cov 2>/dev/null
}
# configuration 1: /repo's m4ri_config.h (L2 = 1310720, L3 = 56623104 -> blocksize 2048)
rm -rf cov1 cov2; mkdir -p cov1 cov2
cp -r m4ri cov1/m4ri
# configuration 2: small caches (L2 = 16384, L3 = 32768 -> blocksize 181, trtri recursion from n = 256 on)
cp -r small/m4ri cov2/m4ri
build cov1; build cov2
rm -f cov1/obj/*.gcda cov2/obj/*.gcda
cov1/driver_cov 11 840 -1      > v1.txt
cov1/driver_cov 12 420 -1      > v2.txt
cov2/driver_cov 13 700 -1      > v3.txt
cov2/driver_cov 14 280 -1 420  > v4.txt     # sizes up to 420: recursion regimes of every routine
cov1/driver_cov 15 5 9 2300    > v5.txt     # mb > 2048: recursion of _mzd_trsm_lower_left, /repo configuration
cov1/driver_cov 16 5 10 2300   > v6.txt
cov1/driver_cov 17 4 12 2300   > v7.txt
cd $LEAN
lake env lean --run $S/Check.lean $S/v1.txt $S/v2.txt $S/v3.txt $S/v4.txt $S/v5.txt $S/v6.txt $S/v7.txt
cd $S
for d in cov1 cov2; do
  echo "== gcov $d"
  gcov -b -o $d/obj $d/m4ri/triangular.c $d/m4ri/triangular_russian.c 2>/dev/null | grep -A3 "^File.*triangular" | grep -v "^--"
  mkdir -p $d/gcov; mv triangular.c.gcov triangular_russian.c.gcov $d/gcov/; rm -f *.gcov
done
echo "== lines executed in NEITHER configuration:"
for f in triangular.c triangular_russian.c; do
  grep "#####" cov1/gcov/$f.gcov | awk -F: '{print $2+0}' | sort > /tmp/pb25_a
  grep "#####" cov2/gcov/$f.gcov | awk -F: '{print $2+0}' | sort > /tmp/pb25_b
  join /tmp/pb25_a /tmp/pb25_b | sort -n | while read n; do sed -n "${n}p" m4ri/$f | cut -c1-100 | sed "s/^/$f:$n: /"; done
done
