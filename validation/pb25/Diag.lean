import M4ri.TrsmBase
open M4ri M4ri.BMat M4ri.BMat.TB
/-- the identity with a zero in the last diagonal position -/
def Ud (n : Nat) : BMat := ⟨n, n, (Array.range n).map fun i => if i = n - 1 then 0 else 2^i⟩
def Bd (n : Nat) : BMat := ⟨1, n, #[2^(n-1)]⟩
#eval (trsmUpperRightC Params.repo (Ud 64) (Bd 64)).rows == (trsmUpperRight (Ud 64) (Bd 64)).rows  -- true
#eval (trsmUpperRightC Params.repo (Ud 65) (Bd 65)).rows  -- #[0]
#eval (trsmUpperRight (Ud 65) (Bd 65)).rows == #[2^64]      -- true
#eval (trtriRussianK 56623104 ⟨2, 2, #[3, 0]⟩ 0).rows      -- #[1, 0]
#eval (trsmUpperRight ⟨2, 2, #[3, 0]⟩ (identity 2)).rows   -- #[3, 2]
