/* _mzd_trsm_upper_right reads the stored diagonal of U when 64 < ncols <= __M4RI_MUL_BLOCKSIZE */
#include <stdio.h>
#include <m4ri/m4ri.h>
int main(void) {
  for (int n = 64; n <= 65; n++) {
    mzd_t *U = mzd_init(n, n);
    for (int i = 0; i < n - 1; i++) mzd_write_bit(U, i, i, 1);   /* identity, but U[n-1,n-1] = 0 */
    mzd_t *B = mzd_init(1, n);
    mzd_write_bit(B, 0, n - 1, 1);                               /* B = e_{n-1} */
    _mzd_trsm_upper_right(U, B, 0);
    printf("n=%d: X[0,%d]=%d (substitution with implied unit diagonal: 1)\n", n, n - 1, mzd_read_bit(B, 0, n - 1));
    mzd_free(U); mzd_free(B);
  }
  mzd_t *A = mzd_init(2,2); mzd_write_bit(A,0,0,1); mzd_write_bit(A,0,1,1);
  mzd_trtri_upper(A);
  printf("trtri [[1,1],[0,0]] -> [[%d,%d],[%d,%d]]\n", mzd_read_bit(A,0,0), mzd_read_bit(A,0,1), mzd_read_bit(A,1,0), mzd_read_bit(A,1,1));
  return 0;
}
