/- PB25 checker: reads the output of `driver`, runs the Lean mirrors of M4ri/TrsmBase.lean on the same inputs and
   compares bit for bit.  usage: lake env lean --run Check.lean <file> … -/
import M4ri.TrsmBase
open M4ri M4ri.BMat M4ri.BMat.TB

def hexVal (c : Char) : Nat :=
  if '0' ≤ c ∧ c ≤ '9' then c.toNat - '0'.toNat
  else if 'a' ≤ c ∧ c ≤ 'f' then c.toNat - 'a'.toNat + 10 else 0

def parseHex (s : String) : Nat := s.foldl (fun acc c => acc * 16 + hexVal c) 0

def readMat (lines : Array String) (pos nr nc : Nat) : BMat :=
  ⟨nr, nc, (Array.range nr).map fun i => parseHex (lines.getD (pos + i) "")⟩

def sameM (A B : BMat) : Bool := A.nrows == B.nrows && A.ncols == B.ncols && A.rows == B.rows

def names : Array String := #["lower_left kernel", "upper_left kernel", "upper_right_base", "lower_right_base",
  "lower_left_submatrix", "upper_left_submatrix", "lower_left_russian", "upper_left_russian",
  "trtri_upper_russian", "_mzd_trsm_lower_left", "_mzd_trsm_upper_left", "_mzd_trsm_lower_right",
  "_mzd_trsm_upper_right", "mzd_trtri_upper"]

def runModel (P : Params) (routine k start : Nat) (T B : BMat) : BMat :=
  match routine with
  | 0 => lowerLeftKernel T B
  | 1 => upperLeftKernel T B
  | 2 => upperRightBase T B
  | 3 => lowerRightBase T B
  | 4 => lowerLeftSubmatrix T B start k
  | 5 => upperLeftSubmatrix T B start k
  | 6 => lowerLeftRussianK P.l2 T B k
  | 7 => upperLeftRussianK P.l2 T B k
  | 8 => trtriRussianK P.l3 T k
  | 9 => trsmLowerLeftC P T B
  | 10 => trsmUpperLeftC P T B
  | 11 => trsmLowerRightC T B
  | 12 => trsmUpperRightC P T B
  | _ => trtriUpperC P T

partial def loop (lines : Array String) (P : Params) (pos : Nat) (ok bad : Array Nat) : IO (Array Nat × Array Nat) := do
  let l := lines.getD pos "END"
  if !l.startsWith "CASE" then return (ok, bad)
  let ws := (l.splitOn " ").toArray
  let g := fun i => (ws.getD i "0").toNat!
  let routine := g 1; let k := g 2; let start := g 3; let mb := g 4; let nb := g 5; let n := g 6
  let T := readMat lines (pos + 1) n n
  let isTri := routine == 8 || routine == 13
  let B := if isTri then T else readMat lines (pos + 1 + n) mb nb
  let outPos := if isTri then pos + 1 + n else pos + 1 + n + mb
  let O := if isTri then readMat lines outPos n n else readMat lines outPos mb nb
  let R := runModel P routine k start T B
  let next := outPos + (if isTri then n else mb)
  if sameM R O then
    loop lines P next (ok.modify routine (· + 1)) bad
  else
    IO.println s!"MISMATCH at line {pos + 1}: {l}"
    loop lines P next ok (bad.modify routine (· + 1))

def main (args : List String) : IO UInt32 := do
  let mut okT := Array.replicate 14 0
  let mut badT := Array.replicate 14 0
  for f in args do
    let lines ← IO.FS.lines f
    let ws := ((lines.getD 0 "").splitOn " ").toArray
    let g := fun i => (ws.getD i "0").toNat!
    let P : Params := ⟨g 1, g 2, g 3, g 4 != 0⟩
    if Gen.mulBlocksize 0 P.l2 P.l3 != P.blk then IO.println s!"blocksize formula differs: {P.blk}"
    let (ok, bad) ← loop lines P 1 (Array.replicate 14 0) (Array.replicate 14 0)
    IO.println s!"{f}: params {repr P}: ok {ok.toList.sum} bad {bad.toList.sum}"
    okT := (Array.range 14).map fun i => okT.getD i 0 + ok.getD i 0
    badT := (Array.range 14).map fun i => badT.getD i 0 + bad.getD i 0
  for i in [0:14] do
    IO.println s!"{names.getD i ""}: {okT.getD i 0} ok, {badT.getD i 0} mismatches"
  IO.println s!"TOTAL: {okT.toList.sum} ok, {badT.toList.sum} mismatches"
  return (if badT.toList.sum == 0 then 0 else 1)
