// keep only the lackey lines between marker stores (marker address = argv[1], hex)
#include <stdio.h>
#include <stdlib.h>
#include <string.h>
int main(int argc,char**argv){ unsigned long mark=strtoul(argv[1],0,16); char l[256]; int on=0;
  while(fgets(l,sizeof l,stdin)){ if(l[0]!=' ') continue; if(l[1]!='S'&&l[1]!='L'&&l[1]!='M') continue;
    unsigned long a=strtoul(l+3,0,16); if(a==mark){ on=!on; fputs(on?"BEGIN\n":"END\n",stdout); continue;} if(on) fputs(l,stdout);} return 0; }
