// trace driver: runs ONE primitive of the real m4ri code between two marker stores.
#include <m4ri/m4ri.h>
#include <m4ri/xor.h>
#include <stdio.h>
#include <stdlib.h>
#include <string.h>
volatile unsigned long MARK;
static mzd_t *parents[16]; static int np = 0;
static mzd_t *mk(int op, int nrows, int ncols, int phase) {
  mzd_t *P = mzd_init(nrows + 2, ncols + 64 * phase + 192);
  mzd_t *W = mzd_init_window(P, 1, 64 * phase, 1 + nrows, 64 * phase + ncols);
  parents[np++] = P;
  printf("OP %d data=%lx rowstride=%d nrows=%d ncols=%d lo=%lx hi=%lx\n", op, (unsigned long)W->data, W->rowstride,
         nrows, ncols, (unsigned long)P->data, (unsigned long)(P->data + (size_t)P->rowstride * P->nrows));
  return W;
}
#define A(i) atoi(argv[i])
static int run_case(int argc, char **argv) {
  const char *f = argv[1];
  np = 0;
  if (!strcmp(f, "rowadd")) {  // nrows ncols phase dst src coloffset
    mzd_t *M = mk(0, A(2), A(3), A(4));
    fflush(stdout); MARK = 1; mzd_row_add_offset(M, A(5), A(6), A(7)); MARK = 2;
  } else if (!strcmp(f, "cip")) {  // A: nrows ncols phase ; B: nrows ncols phase ; a_row a_sb b_row b_sb
    mzd_t *Am = mk(0, A(2), A(3), A(4)); mzd_t *B = mk(1, A(5), A(6), A(7));
    fflush(stdout); MARK = 1; mzd_combine_even_in_place(Am, A(8), A(9), B, A(10), A(11)); MARK = 2;
  } else if (!strcmp(f, "ce")) {  // C, A, B headers ; c_row c_sb a_row a_sb b_row b_sb
    mzd_t *C = mk(0, A(2), A(3), A(4)); mzd_t *Am = mk(1, A(5), A(6), A(7)); mzd_t *B = mk(2, A(8), A(9), A(10));
    fflush(stdout); MARK = 1; mzd_combine_even(C, A(11), A(12), Am, A(13), A(14), B, A(15), A(16)); MARK = 2;
  } else if (!strcmp(f, "comb")) {  // phase crow cblk trow tblk wide   (both operands 4 x 1024, same phase parity arranged by caller)
    mzd_t *C = mk(0, 4, 1024, A(2)); mzd_t *T = mk(1, 4, 1024, A(3));
    word *c = mzd_row(C, A(4)) + A(5); word const *t = mzd_row_const(T, A(6)) + A(7);
    fflush(stdout); MARK = 1; _mzd_combine(c, t, A(8)); MARK = 2;
  } else if (!strcmp(f, "combN")) {  // N phM phT mrow mblk tblk wide   (t[j] = row j of own matrix j+1, blk tblk)
    int N = A(2);
    mzd_t *M = mk(0, 4, 2048, A(3));
    word const *t[8];
    for (int j = 0; j < N; j++) { mzd_t *T = mk(j + 1, 4, 2048, A(4)); t[j] = mzd_row_const(T, j % 4) + A(7); }
    word *m = mzd_row(M, A(5)) + A(6);
    int wide = A(8);
    fflush(stdout); MARK = 1;
    switch (N) {
    case 2: _mzd_combine_2(m, t, wide); break;
    case 3: _mzd_combine_3(m, t, wide); break;
    case 4: _mzd_combine_4(m, t, wide); break;
    case 5: _mzd_combine_5(m, t, wide); break;
    case 6: _mzd_combine_6(m, t, wide); break;
    case 7: _mzd_combine_7(m, t, wide); break;
    case 8: _mzd_combine_8(m, t, wide); break;
    }
    MARK = 2;
  } else if (!strcmp(f, "rowswap")) {  // nrows ncols phase rowa rowb startblock
    mzd_t *M = mk(0, A(2), A(3), A(4));
    fflush(stdout); MARK = 1; _mzd_row_swap(M, A(5), A(6), A(7)); MARK = 2;
  } else if (!strcmp(f, "colswap")) {  // nrows ncols phase cola colb start stop
    mzd_t *M = mk(0, A(2), A(3), A(4));
    fflush(stdout); MARK = 1; mzd_col_swap_in_rows(M, A(5), A(6), A(7), A(8)); MARK = 2;
  } else if (!strcmp(f, "readbits")) {  // nrows ncols phase x y n
    mzd_t *M = mk(0, A(2), A(3), A(4));
    fflush(stdout); MARK = 1; volatile word w = mzd_read_bits(M, A(5), A(6), A(7)); MARK = 2; (void)w;
  } else if (!strcmp(f, "xorbits")) {
    mzd_t *M = mk(0, A(2), A(3), A(4));
    fflush(stdout); MARK = 1; mzd_xor_bits(M, A(5), A(6), A(7), 0x5555555555555555ULL); MARK = 2;
  } else if (!strcmp(f, "andbits")) {
    mzd_t *M = mk(0, A(2), A(3), A(4));
    fflush(stdout); MARK = 1; mzd_and_bits(M, A(5), A(6), A(7), 0x5555555555555555ULL); MARK = 2;
  } else if (!strcmp(f, "clearbits")) {
    mzd_t *M = mk(0, A(2), A(3), A(4));
    fflush(stdout); MARK = 1; mzd_clear_bits(M, A(5), A(6), A(7)); MARK = 2;
  } else if (!strcmp(f, "clearoff")) {  // nrows ncols phase row coloffset
    mzd_t *M = mk(0, A(2), A(3), A(4));
    fflush(stdout); MARK = 1; mzd_row_clear_offset(M, A(5), A(6)); MARK = 2;
  } else if (!strcmp(f, "copy")) {  // N: nrows ncols phase ; P: nrows ncols phase
    mzd_t *N = mk(0, A(2), A(3), A(4)); mzd_t *P = mk(1, A(5), A(6), A(7));
    fflush(stdout); MARK = 1; mzd_copy(N, P); MARK = 2;
  } else if (!strcmp(f, "copyrow")) {  // B hdr ; A hdr ; i j
    mzd_t *B = mk(0, A(2), A(3), A(4)); mzd_t *Am = mk(1, A(5), A(6), A(7));
    fflush(stdout); MARK = 1; mzd_copy_row(B, A(8), Am, A(9)); MARK = 2;
  } else if (!strcmp(f, "add")) {  // C hdr; A hdr; B hdr   (C != B)
    mzd_t *C = mk(0, A(2), A(3), A(4)); mzd_t *Am = mk(1, A(5), A(6), A(7)); mzd_t *B = mk(2, A(8), A(9), A(10));
    fflush(stdout); MARK = 1; _mzd_add(C, Am, B); MARK = 2;
  } else if (!strcmp(f, "submatrix")) {  // S hdr; M hdr; startrow startcol endrow endcol
    mzd_t *S = mk(0, A(2), A(3), A(4)); mzd_t *M = mk(1, A(5), A(6), A(7));
    fflush(stdout); MARK = 1; mzd_submatrix(S, M, A(8), A(9), A(10), A(11)); MARK = 2;
  } else if (!strcmp(f, "findpivot")) {  // nrows ncols phase start_row start_col   (zero matrix: maximal trace)
    mzd_t *M = mk(0, A(2), A(3), A(4)); rci_t r = 0, c = 0;
    fflush(stdout); MARK = 1; mzd_find_pivot(M, A(5), A(6), &r, &c); MARK = 2;
  } else if (!strcmp(f, "maketable")) {  // M hdr ; r c k    (T = (2^k) x ncols, phase 0)
    mzd_t *M = mk(0, A(2), A(3), A(4)); int k = A(7);
    mzd_t *T = mk(1, 1 << k, A(3), 0); rci_t *L = malloc(sizeof(rci_t) * (1 << k));
    printf("INC"); for (int i = 0; i < (1 << k); i++) printf(" %d", m4ri_codebook[k]->inc[i]); printf("\n");
    fflush(stdout); MARK = 1; mzd_make_table(M, A(5), A(6), k, T, L); MARK = 2;
  } else if (!strcmp(f, "processrows")) {  // M hdr ; startrow stoprow startcol k fill   (T = (2^k) x ncols; L = identity-ish)
    mzd_t *M = mk(0, A(2), A(3), A(4)); int k = A(8); int fill = A(9);
    mzd_t *T = mk(1, 1 << k, A(3), 0); rci_t *L = malloc(sizeof(rci_t) * (1 << k));
    for (int i = 0; i < (1 << k); i++) L[i] = i;
    if (fill) for (int i = 0; i < M->nrows; i++) if ((i * 7 + fill) % 3) mzd_write_bit(M, i, A(7), 1);
    printf("BITS"); for (int i = 0; i < M->nrows; i++) printf(" %d", (int)mzd_read_bits(M, i, A(7), k)); printf("\n");
    fflush(stdout); MARK = 1; mzd_process_rows(M, A(5), A(6), A(7), k, T, L); MARK = 2;
  } else { fprintf(stderr, "unknown %s\n", f); return 2; }
  return 0;
}
int main(int argc, char **argv) {
  printf("MARK %lx\n", (unsigned long)&MARK);
  FILE *fp = fopen(argv[1], "r"); char line[4096]; int idx = 0;
  while (fgets(line, sizeof line, fp)) {
    char *av[64]; int ac = 1; av[0] = "drv";
    for (char *t = strtok(line, " \n"); t; t = strtok(NULL, " \n")) av[ac++] = t;
    if (ac < 2 || av[1][0] == '#') continue;
    printf("CASE %d\n", idx++);
    run_case(ac, av);
    fflush(stdout);
  }
  return 0;
}
