import random
random.seed(2)
out=[]
def W(c): return (c+63)//64
ncs=[1,63,64,65,128,129,200,256,300,449,512,577,640,704]
for nc in ncs:
    ph=random.choice([0,1])
    for sb in sorted(set([0,1,W(nc)-1,W(nc),W(nc)+1])):
        out.append(f"rowswap 4 {nc} {ph} 1 3 {sb}")
    out.append(f"rowswap 4 {nc} {ph} 2 2 0")
    for _ in range(4):
        a=random.randrange(nc); b=random.randrange(nc); s=random.randrange(0,5); e=random.randrange(0,13)
        out.append(f"colswap 12 {nc} {ph} {a} {b} {s} {e}")
    for _ in range(6):
        n=random.randint(1,min(64,nc)); y=random.randint(0,nc-n); x=random.randrange(4)
        for f in ("readbits","xorbits","andbits","clearbits"):
            out.append(f"{f} 4 {nc} {ph} {x} {y} {n}")
    for co in sorted(set([0,nc-1,nc//2,min(nc-1,64),min(nc-1,63)])):
        out.append(f"clearoff 3 {nc} {ph} 1 {co}")
    # copy: N >= P
    out.append(f"copy 3 {nc} {ph} 3 {nc} {1-ph}")
    out.append(f"copy 4 {nc+70} {ph} 3 {nc} {ph}")
    out.append(f"copyrow 3 {nc} {ph} 3 {nc} {1-ph} 1 2")
    out.append(f"copyrow 3 {nc+70} {ph} 3 {nc} {ph} 2 0")
    out.append(f"add 3 {nc} {ph} 3 {nc} {random.choice([0,1])} 3 {nc} {random.choice([0,1])}")
    # submatrix
    for _ in range(4):
        sc=random.randrange(nc); ec=random.randint(sc+1,nc) 
        if random.random()<0.4: sc=(sc//64)*64; ec=max(ec,sc+1)
        sr=random.randrange(0,3); er=random.randint(sr,4)
        out.append(f"submatrix {er-sr} {ec-sc} {random.choice([0,1])} 4 {nc} {ph} {sr} {sc} {er} {ec}")
        out.append(f"submatrix {er-sr+1} {ec-sc+40} {random.choice([0,1])} 4 {nc} {ph} {sr} {sc} {er} {ec}")
    for _ in range(3):
        out.append(f"findpivot 4 {nc} {ph} {random.randrange(0,5)} {random.randrange(0,nc+2)}")
    for k in (1,2,3):
        c=random.randrange(nc); r=random.randrange(0,6)
        out.append(f"maketable 6 {nc} {ph} {r} {c} {k}")
    for k in (1,2,3):
        if k>nc: continue
        sc=random.randint(0,nc-k)
        a=random.randrange(0,4); b=random.randint(a,7)
        out.append(f"processrows 7 {nc} {ph} {a} {b} {sc} {k} 0")
        out.append(f"processrows 7 {nc} {ph} {a} {b} {sc} {k} {random.randint(1,5)}")
for nc in (576, 640, 1000):   # _mzd_add default branch (width >= 9)
    out.append(f"add 3 {nc} 0 3 {nc} 1 3 {nc} 0")
    out.append(f"add 2 {nc} 1 2 {nc} 1 2 {nc} 1")
open('cases_rest.txt','w').write('\n'.join(out)+'\n')
print(len(out))
