#include <m4ri/m4ri.h>
#include <stdio.h>
#include <string.h>
int main(int argc, char **argv) {
  int t = atoi(argv[1]);
  if (t == 1) { mzd_t *P = mzd_init(1, 0); printf("P->data=%p width=%d\n", (void*)P->data, P->width); mzd_t *N = mzd_copy(NULL, P); printf("copied %p\n", (void*)N); }
  if (t == 2) { mzd_t *P = mzd_init(3, 0); mzd_t *N = mzd_init(3, 64); mzd_copy(N, P); printf("copy done\n"); }
  if (t == 3) { mzd_t *A = mzd_init(1, 0); mzd_t *B = mzd_init(1, 64); mzd_copy_row(B, 0, A, 0); printf("copy_row done\n"); }
  if (t == 4) { mzd_t *M = mzd_init(4, 100); mzd_t *S = mzd_submatrix(NULL, M, 0, 1, 2, 1); printf("submatrix done %p\n", (void*)S); }
  if (t == 5) { mzd_t *M = mzd_init(4, 100); mzd_t *W = mzd_init_window(M, 0, 0, 4, 0); printf("W data %p width %d\n",(void*)W->data, W->width); mzd_t *N = mzd_copy(NULL, W); printf("copy window done %p\n",(void*)N); }
  if (t == 6) { mzd_t *M = mzd_init(4, 100); mzd_t *S = mzd_submatrix(NULL, M, 0, 64, 2, 64); printf("aligned empty submatrix done %p\n", (void*)S); }
  return 0;
}
