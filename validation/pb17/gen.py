import random
random.seed(1)
out=[]
def W(c): return (c+63)//64
ncs=[1,63,64,65,128,129,192,200,256,300,320,384,449,512,577,640,704,768]
for nc in ncs:
    for ph in (0,1):
        offs=set([0,nc-1,min(nc-1,63),min(nc-1,64),min(nc-1,70),min(nc-1,128),min(nc-1,200),max(0,nc-65),max(0,nc-129)])
        for co in sorted(offs):
            out.append(f"rowadd 3 {nc} {ph} 0 2 {co}")
for nc in ncs:
    for pha in (0,1):
        for phb in (0,1):
            for sb in sorted(set([0,1,2,W(nc)-1,max(0,W(nc)-2),max(0,W(nc)-4)])):
                if sb>=W(nc): continue
                for db in (0,1):
                    out.append(f"cip 3 {nc} {pha} 3 {nc+64*db} {phb} 1 {sb} 2 {sb+db}")
random.shuffle(out)
cip=[o for o in out if o.startswith('cip')][:120]
out=[o for o in out if not o.startswith('cip')]+cip
ce=[]
for nc in ncs:
    for phc in (0,1):
        for pha in (0,1):
            for phb in (0,1):
                for sb in sorted(set([0,1,W(nc)-1,max(0,W(nc)-3)])):
                    if sb>=W(nc): continue
                    dc=random.choice([0,1]); db=random.choice([0,1])
                    ce.append(f"ce 3 {nc+64*dc} {phc} 3 {nc} {pha} 3 {nc+64*db} {phb} 0 {sb+dc} 1 {sb} 2 {sb+db}")
random.shuffle(ce); out+=ce[:150]
comb=[]
for phc in (0,1):
    for pht in (0,1):
        for cb in (0,1,2,3):
            for wide in range(0,14):
                tb=random.choice([0,2]) + ((cb+phc+pht)%2)   # same alignment as c
                comb.append(f"comb {phc} {pht} 1 {cb} 2 {tb} {wide}")
random.shuffle(comb); out+=comb[:120]
cn=[]
for N in (2,3,5,8):
    for phm in (0,1):
        for pht in (0,1):
            for mb in (0,1,2):
                for wide in list(range(1,12))+[16,17,18,19,23,24,25]:
                    tb=random.choice([0,2])+((mb+phm+pht)%2)
                    cn.append(f"combN {N} {phm} {pht} 1 {mb} {tb} {wide}")
random.shuffle(cn); out+=cn[:150]
# wide = 0 for combN (outside the precondition; model should still agree)
out+=["combN 2 1 1 1 0 0 0","combN 2 0 0 1 0 0 0","combN 3 0 0 1 1 1 0"]
open('cases_sse.txt','w').write('\n'.join(out)+'\n')
print(len(out))
