#!/usr/bin/env python3
# compare real-code memory traces (valgrind lackey, -O0 build of the m4ri sources) with the Lean trace model
import subprocess, sys, re, collections
LEAN_DIR='/tmp/prf/pb17/lean'
casefile=sys.argv[1]
cases=[l.strip() for l in open(casefile) if l.strip() and not l.startswith('#')]
mark=subprocess.run("nm drv | grep ' MARK' | cut -d' ' -f1",shell=True,capture_output=True,text=True).stdout.strip().lstrip('0')
subprocess.run(f"valgrind --tool=lackey --trace-mem=yes --log-fd=2 ./drv {casefile} 2>&1 >drv.out | ./flt {mark} > trace.txt",shell=True,check=True)
# parse driver output
infos=[];cur=None
for l in open('drv.out'):
    if l.startswith('CASE'): cur={'ops':[],'extra':[]}; infos.append(cur)
    elif l.startswith('OP'):
        d=dict(kv.split('=') for kv in l.split()[2:])
        cur['ops'].append((int(l.split()[1]),int(d['data'],16),int(d['rowstride']),int(d['lo'],16),int(d['hi'],16)))
    elif l.startswith('INC') or l.startswith('BITS'): cur['extra']=l.split()[1:]
assert len(infos)==len(cases),(len(infos),len(cases))
traces=[];t=None
for l in open('trace.txt'):
    if l.startswith('BEGIN'): t=[]
    elif l.startswith('END'): traces.append(t); t=None
    elif t is not None:
        k=l[1]; a,s=l[3:].strip().split(','); t.append((k,int(a,16),int(s)))
assert len(traces)==len(cases),(len(traces),len(cases))
def decode(info,tr):
    acc=[]
    for (k,a,s) in tr:
        for (op,data,rs,lo,hi) in info['ops']:
            if lo<=a<hi:
                off=(a-data)//8
                row,w=(off//rs,off%rs) if rs>0 else (0,off)
                if w>=rs-2 and rs>0 and False: pass
                for kk in (['R','W'] if k=='M' else (['R'] if k=='L' else ['W'])): acc.append(f"{op},{row},{w},{kk},{s}")
    return sorted(acc)
inp=''.join(c+(' '+' '.join(i['extra']) if i['extra'] else '')+'\n' for c,i in zip(cases,infos))
p=subprocess.run(['lake','env','lean','--run','/tmp/prf/pb17/scratch/tr.lean'],input=inp,capture_output=True,text=True,cwd=LEAN_DIR)
lines=p.stdout.split('\n')
if lines and lines[-1]=='': lines=lines[:-1]
lines=lines[-len(cases):]
bad=0;tot=0
for c,i,tr,l in zip(cases,infos,traces,lines):
    acc=decode(i,tr); model=sorted(l.split()); tot+=len(acc)
    if model!=acc:
        bad+=1
        print('MISMATCH',c)
        ca=collections.Counter(acc);cm=collections.Counter(model)
        print('  only C    :',sorted((ca-cm).elements()))
        print('  only model:',sorted((cm-ca).elements()))
print(f'{len(cases)} cases, {tot} accesses, {bad} mismatches')
