"""Case suites: each function appends operation lines to a generator G."""
from .cases import G, width, M64


def wdim(g, lo=1, hi=200):
    """column counts biased to every residue class near word boundaries"""
    rng = g.rng
    r = rng.random()
    if r < 0.5:
        base = rng.choice([0, 64, 128, 192, 256, 320, 512])
        off = rng.choice([1, 2, 7, 17, 31, 32, 33, 62, 63, 64])
        return max(lo, min(hi, base + off))
    return rng.randint(lo, hi)


# ------------------------------------------------------------------ C13
def suite_rowcol(g, n):
    rng = g.rng
    for _ in range(n):
        op = rng.choice(['row_swap', 'row_swap_from', 'col_swap', 'col_swap_in_rows', 'row_add', 'row_add_offset',
                         'row_clear_offset', 'xor_bits', 'and_bits', 'clear_bits', 'read_bits', 'write_bit',
                         'read_bit', 'combine_in_place', 'combine_even'])
        r = rng.randint(1, 9)
        c = wdim(g, 1, 700 if rng.random() < 0.15 else 260)
        if op in ('combine_in_place', 'combine_even', 'row_add', 'row_add_offset', 'row_swap_from') and rng.random() < 0.4:
            # long rows: the unrolled / vector bodies with >= 9 words left for their scalar tails
            c = rng.choice([rng.randint(513, 1700), 64 * rng.randint(9, 27), 64 * rng.randint(9, 27) + rng.choice([1, 37, 63])])
            r = rng.randint(1, 4)
        M = g.mat(r, c)
        w = width(c)
        if op == 'row_swap':
            g.add(op, '%s %d %d' % (M, rng.randrange(r), rng.randrange(r)), c=c)
        elif op == 'row_swap_from':
            g.add(op, '%s %d %d %d' % (M, rng.randrange(r), rng.randrange(r), rng.randint(0, w)), c=c)
        elif op == 'col_swap':
            a, b = pick_cols(g, c)
            g.add(op, '%s %d %d' % (M, a, b), c=c)
        elif op == 'col_swap_in_rows':
            a, b = pick_cols(g, c)
            s = rng.randint(0, r)
            e = rng.randint(s, r)
            g.add(op, '%s %d %d %d %d' % (M, a, b, s, e), c=c)
        elif op in ('row_add', 'row_add_offset'):
            # precondition (stated in the theorems too): source and destination rows differ
            if r < 2:
                r = 2
                M = g.mat(r, c)
            a = rng.randrange(r)
            b = (a + 1 + rng.randrange(r - 1)) % r
            if op == 'row_add':
                g.add(op, '%s %d %d' % (M, a, b), c=c)
            else:
                g.add(op, '%s %d %d %d' % (M, a, b, pick_col(g, c)), c=c)
        elif op == 'row_clear_offset':
            g.add(op, '%s %d %d' % (M, rng.randrange(r), pick_col(g, c)), c=c)
        elif op in ('xor_bits', 'and_bits', 'clear_bits', 'read_bits'):
            nb = rng.randint(1, min(64, c))
            y = rng.randint(0, c - nb)
            if rng.random() < 0.4 and c > 64:
                # straddle a word boundary
                k = rng.randrange(1, w) * 64
                y = max(0, min(c - nb, k - rng.randint(0, nb)))
            x = rng.randrange(r)
            if op == 'xor_bits':
                val = rng.getrandbits(nb)
                g.add(op, '%s %d %d %d x%x' % (M, x, y, nb, val), c=c)
            elif op == 'and_bits':
                val = rng.getrandbits(64)
                g.add(op, '%s %d %d %d x%x' % (M, x, y, nb, val), c=c)
            else:
                g.add(op, '%s %d %d %d' % (M, x, y, nb), c=c)
        elif op == 'write_bit':
            g.add(op, '%s %d %d %d' % (M, rng.randrange(r), rng.randrange(c), rng.randint(0, 1)), c=c)
        elif op == 'read_bit':
            g.add(op, '%s %d %d' % (M, rng.randrange(r), rng.randrange(c)), c=c)
        elif op == 'combine_in_place':
            # A and B rows, same tail width: A.width - a_start words read from B at b_start
            a_start = rng.randint(0, w - 1) if rng.random() < 0.5 else rng.randint(0, min(2, w - 1))
            extra = rng.randint(0, 2)
            cb = c + 64 * extra if rng.random() < 0.5 else c
            b_start = a_start + (width(cb) - w) if rng.random() < 0.5 else a_start
            rb = rng.randint(1, 5)
            B = g.mat(rb, cb)
            g.add(op, '%s %d %d %s %d %d' % (M, rng.randrange(r), a_start, B, rng.randrange(rb), b_start), c=c)
        elif op == 'combine_even':
            a_start = rng.randint(0, w - 1) if rng.random() < 0.5 else rng.randint(0, min(2, w - 1))
            ra = rng.randint(1, 5)
            rb = rng.randint(1, 5)
            A = g.mat(ra, c)
            B = g.mat(rb, c)
            # C has the same number of columns as A here (as in every caller)
            g.add(op, '%s %d %d %s %d %d %s %d %d' % (M, rng.randrange(r), a_start, A, rng.randrange(ra), a_start, B,
                                                       rng.randrange(rb), a_start), c=c)


def pick_col(g, c):
    rng = g.rng
    if rng.random() < 0.5:
        k = rng.choice([0, 1, 31, 32, 33, 62, 63, 64, 65, 127, 128, 129, c - 1, c - 2])
        if 0 <= k < c:
            return k
    return rng.randrange(c)


def pick_cols(g, c):
    return pick_col(g, c), pick_col(g, c)


def suite_perm(g, n):
    rng = g.rng
    for _ in range(n):
        op = rng.choice(['apply_p_left', 'apply_p_left_trans', 'apply_p_right', 'apply_p_right_trans',
                         'apply_p_right_even_capped', 'apply_p_right_trans_even_capped', 'apply_p_right_trans_tri'])
        r = rng.randint(1, 12)
        c = wdim(g, 1, 200)
        if rng.random() < 0.1:
            r = rng.randint(500, 700)   # beyond the strip height
            c = rng.randint(1, 130)
        M = g.mat(r, c)
        if op in ('apply_p_left', 'apply_p_left_trans'):
            length = rng.choice([r, r, rng.randint(0, r)])
            g.add(op, '%s %s' % (M, g.perm(length, r)), r=r, c=c)
        elif op == 'apply_p_right_trans_tri':
            g.add(op, '%s %s' % (M, g.perm(c, c)), r=r, c=c)
        else:
            length = rng.choice([c, c, rng.randint(0, c)])
            P = g.perm(length, c)
            if 'capped' in op:
                g.add(op, '%s %s %d %d' % (M, P, rng.randint(0, r), rng.randint(0, length)), r=r, c=c)
            else:
                g.add(op, '%s %s' % (M, P), r=r, c=c)


# ------------------------------------------------------------------ C17
def suite_observers(g, n):
    rng = g.rng
    for _ in range(n):
        op = rng.choice(['equal', 'cmp', 'is_zero', 'first_zero_row', 'find_pivot', 'find_pivot'])
        r = rng.randint(1, 8)
        c = wdim(g, 1, 300)
        if op in ('equal', 'cmp'):
            if rng.random() < 0.15:
                c = 64 * rng.randint(1, 5)          # the last column is bit 63 of the last word
            rows = g.rows_kind(r, c)
            rows2 = list(rows)
            mode = rng.random()
            r2, c2 = r, c
            if mode < 0.12:
                # first difference in the most significant column(s) of the last word (unsigned comparison of words)
                i = rng.randrange(r)
                rows2[i] ^= 1 << (c - 1)
                if rng.random() < 0.5 and c > 1:
                    lo = (c - 1) // 64 * 64
                    rows2[i] ^= rng.getrandbits(c - 1 - lo) << lo
                    rows[i] ^= rng.getrandbits(c - 1 - lo) << lo
            elif mode < 0.5:
                # differ in exactly one bit at a chosen position class
                i = rng.randrange(r)
                j = pick_col(g, c)
                rows2[i] ^= 1 << j
            elif mode < 0.6:
                r2 = r + rng.choice([-1, 1]) if r > 1 else r + 1
                rows2 = (rows2 + [0])[:r2]
            elif mode < 0.7:
                c2 = max(1, c + rng.choice([-1, 1]))
                rows2 = [v & ((1 << c2) - 1) for v in rows2]
            A = g.mat(r, c, rows)
            B = g.mat(r2, c2, rows2)
            g.add(op, '%s %s' % (A, B), c=c)
        elif op == 'is_zero':
            kind = rng.choice(['zero', 'zero', 'single', 'sparse'])
            g.add(op, g.mat(r, c, kind=kind), c=c)
        elif op == 'first_zero_row':
            rows = g.rows_kind(r, c, rng.choice(['zero', 'single', 'sparse', 'dense']))
            k = rng.randint(0, r)
            rows = rows[:k] + [0] * (r - k)
            g.add(op, g.mat(r, c, rows), c=c)
        else:
            kind = rng.choice(['zero', 'single', 'sparse', 'sparse', 'dense'])
            rows = g.rows_kind(r, c, kind)
            if rng.random() < 0.5:
                # clear the left part so the pivot lies deep inside
                k = pick_col(g, c)
                rows = [(v >> k) << k for v in rows]
            sr = rng.randint(0, r - 1)
            sc = pick_col(g, c)
            g.add(op, '%s %d %d' % (g.mat(r, c, rows), sr, sc), c=c)


# ------------------------------------------------------------------ C08
def dst(g, r, c, allow_null=True):
    """destination operand: null (allocated by the call) or a supplied matrix with arbitrary prior content"""
    if allow_null and g.rng.random() < 0.3:
        return 'null'
    return g.mat(r, c, kind='dense')


def suite_datamove(g, n, big=False):
    rng = g.rng
    for _ in range(n):
        op = rng.choice(['add', 'add', 'copy', 'copy_row', 'set_ui', 'submatrix', 'submatrix', 'concat', 'stack',
                         'extract_u', 'extract_l', 'transpose', 'transpose', 'transpose'])
        r = rng.randint(1, 10)
        c = wdim(g, 1, 700 if rng.random() < 0.2 else 200)
        if op == 'add':
            if rng.random() < 0.6:
                # every branch of the width switch of _mzd_add (1..8 words, mzd_combine_even beyond) equally often
                w_ = rng.randint(1, 10)
                c = 64 * (w_ - 1) + rng.choice([1, 63, 64, rng.randint(1, 64)])
            A = g.mat(r, c)
            B = g.mat(r, c)
            al = rng.random()
            if al < 0.25:
                g.add(op, '@1 %s %s' % (A, B), c=c, alias='C=A')
            elif al < 0.5:
                g.add(op, '@2 %s %s' % (A, B), c=c, alias='C=B')
            elif al < 0.55:
                g.add(op, '@1 %s @1' % (A,), c=c, alias='C=A=B')
            else:
                g.add(op, '%s %s %s' % (dst(g, r, c), A, B), c=c)
        elif op == 'copy':
            P = g.mat(r, c)
            if rng.random() < 0.3:
                g.add(op, 'null %s' % P, c=c)
            else:
                r2 = r + rng.choice([0, 0, 1, 3])
                c2 = c + rng.choice([0, 0, 1, 64, 70])
                g.add(op, '%s %s' % (g.mat(r2, c2, kind='dense'), P), c=c)
        elif op == 'copy_row':
            ca = c
            cb = c + rng.choice([0, 0, 1, 64, 70])
            rb = rng.randint(1, 5)
            g.add(op, '%s %d %s %d' % (g.mat(rb, cb, kind='dense'), rng.randrange(rb), g.mat(r, ca), rng.randrange(r)),
                  c=c)
        elif op == 'set_ui':
            g.add(op, '%s %d' % (g.mat(r, c, kind='dense'), rng.randint(0, 3)), c=c)
        elif op == 'submatrix':
            R = rng.randint(1, 12)
            C = wdim(g, 1, 300)
            lr = rng.randint(0, R - 1)
            hr = rng.randint(lr + 1, R)
            lc = pick_col(g, C)
            if rng.random() < 0.4:
                lc = (lc // 64) * 64
            hc = rng.randint(lc + 1, C)
            nr, nc = hr - lr, hc - lc
            M = g.mat(R, C)
            if rng.random() < 0.4:
                g.add(op, 'null %s %d %d %d %d' % (M, lr, lc, hr, hc), c=nc, aligned=(lc % 64 == 0))
            else:
                # documented: S at least nr x nc; use exact size mostly
                g.add(op, '%s %s %d %d %d %d' % (g.mat(nr, nc, kind='dense'), M, lr, lc, hr, hc), c=nc,
                      aligned=(lc % 64 == 0))
        elif op == 'concat':
            c2 = wdim(g, 1, 150)
            A = g.mat(r, c)
            B = g.mat(r, c2)
            g.add(op, '%s %s %s' % (dst(g, r, c + c2), A, B), c=c)
        elif op == 'stack':
            r2 = rng.randint(1, 6)
            A = g.mat(r, c)
            B = g.mat(r2, c)
            g.add(op, '%s %s %s' % (dst(g, r + r2, c), A, B), c=c)
        elif op in ('extract_u', 'extract_l'):
            rr = wdim(g, 1, 140)
            cc = wdim(g, 1, 140)
            k = min(rr, cc)
            g.add(op, '%s %s' % (dst(g, k, k), g.mat(rr, cc, kind='dense')), c=cc)
        elif op == 'transpose':
            cls = rng.choice(['le8', 'le16', 'le32', 'lt64', 'blocks', 'mixed', 'thin'])
            if cls == 'le8':
                rr, cc = rng.randint(1, 8), rng.randint(1, 8)
            elif cls == 'le16':
                rr, cc = rng.randint(1, 16), rng.randint(1, 16)
            elif cls == 'le32':
                rr, cc = rng.randint(1, 32), rng.randint(1, 32)
            elif cls == 'lt64':
                rr, cc = rng.randint(1, 63), rng.randint(1, 63)
            elif cls == 'blocks':
                rr, cc = 64 * rng.randint(1, 3) + rng.choice([0, 0, 1, 17, 63]), 64 * rng.randint(1, 3) + rng.choice([0, 0, 1, 17, 63])
            elif cls == 'thin':
                rr, cc = rng.randint(1, 5), rng.randint(60, 300)
                if rng.random() < 0.5:
                    rr, cc = cc, rr
            else:
                rr, cc = rng.randint(1, 200), rng.randint(1, 200)
            if big and rng.random() < 0.3:
                rr, cc = rng.randint(500, 900), rng.randint(1, 900)
                if rng.random() < 0.5:
                    rr, cc = cc, rr
            A = g.mat(rr, cc, kind=rng.choice(['dense', 'dense', 'single', 'sparse']))
            g.add(op, '%s %s' % (dst(g, cc, rr), A), c=cc, r=rr, cls=cls)


# ------------------------------------------------------------------ C01
def mdim(g, big=False):
    rng = g.rng
    x = rng.random()
    if x < 0.55:
        return rng.choice([1, 2, 3, 15, 16, 17, 31, 53, 54, 55, 63, 64, 65, 70, 100, 127, 128, 129])
    if x < 0.8 or not big:
        return rng.randint(1, 140)
    return rng.choice([191, 192, 193, 200, 255, 256, 257, 300, 320, 383, 384, 400, 511, 512, 513, 600])


def mul_operands(g, m, l, n, aliasAB=False):
    kindA = g.rng.choice(['dense', 'dense', 'sparse', 'identity', 'single', 'zero', 'lowrank'])
    kindB = g.rng.choice(['dense', 'dense', 'sparse', 'identity', 'single', 'zero', 'lowrank'])
    A = g.mat(m, l, kind=kindA)
    B = '@1' if aliasAB else g.mat(l, n, kind=kindB)
    return A, B


def suite_mul(g, n, big=False):
    rng = g.rng
    for _ in range(n):
        op = rng.choice(['mul_naive', 'addmul_naive', 'mul_va', 'mul_naive_t', 'mul_m4rm', 'addmul_m4rm', 'mul', 'mul',
                         'addmul', 'addmul', 'djb', 'mul_mp', 'addmul_mp'])
        if op == 'djb':
            m, l, nn = rng.randint(1, 40), rng.randint(1, 150), rng.randint(1, 150)
            A = g.mat(m, l, kind=rng.choice(['dense', 'sparse', 'identity', 'lowrank', 'zero', 'single']))
            V = g.mat(l, nn)
            W = g.mat(m, nn, kind='zero')
            g.add(op, '%s %s %s' % (W, A, V), m=m, l=l, n=nn)
            continue
        if op in ('mul_mp', 'addmul_mp'):
            cutoff = rng.choice([0, 64, 64, 128, 256])
            c = max(64, cutoff) if cutoff else 64
            m, l, nn = (rng.choice([rng.randint(1, 2 * c), rng.randint(2 * c, 4 * c + 10), 128 * rng.randint(1, 3)]) for _ in range(3))
            if not big:
                m, l, nn = min(m, 300), min(l, 300), min(nn, 300)
            A, B = mul_operands(g, m, l, nn)
            C = dst(g, m, nn) if op == 'mul_mp' else g.mat(m, nn, kind='dense')
            g.add(op, '%s %s %s %d' % (C, A, B, cutoff), m=m, l=l, n=nn, cutoff=cutoff)
            continue
        m, l, nn = mdim(g, big), mdim(g, big), mdim(g, big)
        if op in ('mul', 'addmul'):
            # Strassen region: cut-offs 64..256; shapes around the split limits [4c/3, 2c) and beyond
            cutoff = rng.choice([0, 1, 63, 64, 64, 64, 65, 128, 128, 192, 256])
            if rng.random() < 0.6:
                c = max(64, cutoff // 64 * 64) if cutoff else 64
                def pick():
                    x = rng.random()
                    if x < 0.3:
                        return rng.randint(4 * c // 3, 2 * c)          # the empty-quadrant band
                    if x < 0.7:
                        return rng.randint(2 * c, 4 * c + 10)
                    return rng.randint(1, 2 * c)
                m, l, nn = pick(), pick(), pick()
                if cutoff == 0:
                    cutoff = rng.choice([64, 128])
            same = rng.random() < 0.25
            if same:
                l = m
                nn = m
            A, B = mul_operands(g, m, l, nn, aliasAB=same)
            if op == 'mul':
                C = dst(g, m, nn)
            else:
                C = g.mat(m, nn, kind='dense')
            g.add(op, '%s %s %s %d' % (C, A, B, cutoff), m=m, l=l, n=nn, cutoff=cutoff, same=same)
        elif op in ('mul_m4rm', 'addmul_m4rm'):
            k = rng.choice([0, 1, 2, 3, 4, 5, 6, 7, 8, 9, 10])
            if rng.random() < 0.5:
                # exercise ncols(A) mod 8k and mod k
                kk = 8 * min(max(k, 2), 8)
                l = rng.choice([kk, kk + 1, 2 * kk - 1, kk + max(k, 2), kk + max(k, 2) + 1, kk - 1])
                m = max(m, 16)
                nn = max(nn, 54)
            A, B = mul_operands(g, m, l, nn)
            C = dst(g, m, nn) if op == 'mul_m4rm' else g.mat(m, nn, kind='dense')
            g.add(op, '%s %s %s %d' % (C, A, B, k), m=m, l=l, n=nn, k=k)
        elif op in ('mul_naive', 'addmul_naive'):
            A, B = mul_operands(g, m, l, nn)
            C = dst(g, m, nn) if op == 'mul_naive' else g.mat(m, nn, kind='dense')
            g.add(op, '%s %s %s' % (C, A, B), m=m, l=l, n=nn)
        elif op == 'mul_va':
            A, B = mul_operands(g, m, l, nn)
            g.add(op, '%s %s %s %d' % (g.mat(m, nn, kind='dense'), A, B, rng.randint(0, 1)), m=m, l=l, n=nn)
        else:
            # _mzd_mul_naive(C, A, BT, clear): BT is nn x l and must own its storage (zero padding)
            A = g.mat(m, l)
            BT = g.mat(nn, l, place='o')
            g.add(op, '%s %s %s %d' % (g.mat(m, nn, kind='dense'), A, BT, rng.randint(0, 1)), m=m, l=l, n=nn)


# ------------------------------------------------------------------ C02..C07
def profile_matrix(g, r, c):
    """rows of an r x c matrix with a structured rank profile; returns rows"""
    rng = g.rng
    mode = rng.choice(['profile', 'profile', 'dense', 'sparse', 'zero', 'gap', 'lowrank', 'wordgap', 'deferred'])
    if mode == 'deferred':
        # the pivot of every column lies far below the current pivot row: rows of a profile matrix rotated / reversed
        rows, _ = g.rank_profile_rows(r, c)
        if rng.random() < 0.5:
            k = rng.randint(r // 2, max(r // 2, r - 1))
            return rows[k:] + rows[:k]
        return rows[::-1]
    if mode == 'profile':
        rows, _ = g.rank_profile_rows(r, c)
        return rows
    if mode == 'gap':
        # pivots only left of a gap and right of it; the gap crosses word boundaries
        lo = rng.randint(0, max(0, min(c - 1, 70)))
        gap = rng.randint(1, 130)
        cols = [x for x in range(c) if x < lo or x >= lo + gap]
        k = min(len(cols), r, rng.randint(0, min(r, c)))
        piv = sorted(rng.sample(cols, k)) if k else []
        rows, _ = g.rank_profile_rows(r, c, pivots=piv)
        return rows
    if mode == 'wordgap':
        # zero column block starting at a non-word-aligned column and running into complete words
        rows = g.rows_random(r, c)
        lo = rng.randint(1, max(1, c - 1))
        ln = rng.randint(20, 140)
        mask = ((1 << c) - 1) ^ (((1 << ln) - 1) << lo)
        rows = [v & mask for v in rows]
        # keep an identity part on the left so that the block is met mid-elimination
        for i in range(min(lo, r, 12)):
            rows[i] |= 1 << i
        return rows
    return g.rows_kind(r, c, mode)


def edim(g, big=False):
    rng = g.rng
    if big and rng.random() < 0.05:
        # beyond 8 words per row / several table strips: loop counts of the unrolled bodies, late remainder blocks
        return rng.choice([rng.randint(450, 700), rng.randint(450, 1300), rng.choice([469, 473, 547, 552, 589, 1013, 1266])])
    if big and rng.random() < 0.3:
        return rng.choice([200, 255, 256, 257, 300, 384, 400, 500, 513])
    x = rng.random()
    if x < 0.5:
        return rng.choice([1, 2, 3, 7, 8, 15, 16, 17, 31, 32, 33, 63, 64, 65, 66, 100, 127, 128, 129, 130, 150, 193])
    return rng.randint(1, 150)


def suite_echelon(g, n, big=False):
    rng = g.rng
    for _ in range(n):
        op = rng.choice(['gauss_delayed', 'echelonize_naive', 'echelonize_m4ri', 'echelonize_m4ri_exact',
                         'echelonize_m4ri_exact', 'echelonize_m4ri_h', 'echelonize_pluq', 'echelonize_pluq', 'echelonize',
                         'top_echelonize_m4ri', 'top_echelonize_exact'])
        r, c = edim(g, big), edim(g, big)
        if big and rng.random() < 0.02:
            # a handful of rows, very many columns: the automatic k is cut down by the cache-size rule
            r, c = rng.randint(1, 3), rng.randint(22000, 40000)
        rows = profile_matrix(g, r, c)
        full = rng.randint(0, 1)
        x = rng.random()
        if x < 0.10:
            # M4RI tail blocks: the last block of columns holds kbar pivots for EVERY kbar in 1..6k (uneven splits of the
            # kbar bits over the six tables), full column rank, rows left to clear above and below
            k = rng.randint(1, 10)
            kbar = rng.randint(1, 6 * k)
            c = 6 * k * rng.randint(0, 2) + kbar
            r = c + rng.randint(1, 60)
            rows = g.rows_random(r, c)
            if rng.random() < 0.3 and c > kbar + 3:
                # ... or a pivot gap right after kbar pivots of a block: one column repeats an earlier one
                j = rng.randint(1, c - 1)
                i0 = rng.randrange(j)
                rows = [(v & ~(1 << j)) | (((v >> i0) & 1) << j) for v in rows]
            op = rng.choice(['echelonize_m4ri_exact', 'echelonize_m4ri_exact', 'echelonize_m4ri', 'top_echelonize_exact'])
            if op == 'top_echelonize_exact':
                g.add(op, '%s %d' % (g.mat(r, c, py_echelon(rows, r, c)), k), r=r, c=c)
            else:
                g.add(op, '%s %d %d' % (g.mat(r, c, rows), full, k), r=r, c=c, full=full)
            continue
        if big and x < 0.14:
            # density-switching hybrid, switch in mid-course: [I_a | sparse ; 0 | dense of low rank]
            a = rng.randint(257, 330)
            rb = rng.randint(30, 150)
            cb = rng.randint(120, 400)
            r, c = a + rb, a + cb
            rk = rng.randint(5, min(rb, cb))
            basis = g.rows_random(rk, cb)
            D = []
            for _i in range(rb):
                v = 0
                sel = rng.getrandbits(rk)
                for t in range(rk):
                    if (sel >> t) & 1:
                        v ^= basis[t]
                D.append(v)
            top = [(1 << i) | ((rng.getrandbits(cb) & rng.getrandbits(cb) & rng.getrandbits(cb) & rng.getrandbits(cb) & rng.getrandbits(cb)) << a) for i in range(a)]
            rows = top + [d << a for d in D]
            thr = rng.choice([2, 5, 10, 15])
            g.add('echelonize_m4ri_h', '%s %d %d %d' % (g.mat(r, c, rows), rng.choice([1, 1, 1, 0]), rng.randint(0, 8), thr), r=r, c=c, full=1)
            continue
        if op == 'gauss_delayed':
            sc = rng.choice([0, 0, rng.randint(0, min(r, c))])
            g.add(op, '%s %d %d' % (g.mat(r, c, rows), sc, full), r=r, c=c)
        elif op == 'echelonize_naive':
            g.add(op, '%s %d' % (g.mat(r, c, rows), full), r=r, c=c)
        elif op == 'echelonize_m4ri':
            g.add(op, '%s %d %d' % (g.mat(r, c, rows), full, rng.randint(0, 10)), r=r, c=c, full=full)
        elif op == 'echelonize_m4ri_exact':
            g.add(op, '%s %d %d' % (g.mat(r, c, rows), full, rng.randint(1, 10)), r=r, c=c, full=full)
        elif op == 'top_echelonize_exact':
            ech = py_echelon(rows, r, c)
            g.add(op, '%s %d' % (g.mat(r, c, ech), rng.randint(1, 8)), r=r, c=c)
        elif op == 'echelonize_m4ri_h':
            g.add(op, '%s %d %d %d' % (g.mat(r, c, rows), full, rng.randint(0, 8), rng.choice([0, 15, 50, 100])), r=r, c=c,
                  full=full)
        elif op in ('echelonize_pluq', 'echelonize'):
            g.add(op, '%s %d' % (g.mat(r, c, rows), full), r=r, c=c, full=full)
        else:
            # top reduction expects a row echelon form: take the (non-reduced) echelon form of a random matrix
            ech = py_echelon(rows, r, c)
            g.add(op, '%s %d' % (g.mat(r, c, ech), rng.randint(0, 8)), r=r, c=c)


def py_echelon(rows, r, c):
    """plain (non-reduced) row echelon form, zero rows last"""
    rows = list(rows)
    piv = 0
    for col in range(c):
        p = None
        for i in range(piv, r):
            if (rows[i] >> col) & 1:
                p = i
                break
        if p is None:
            continue
        rows[piv], rows[p] = rows[p], rows[piv]
        for i in range(piv + 1, r):
            if (rows[i] >> col) & 1:
                rows[i] ^= rows[piv]
        piv += 1
        if piv == r:
            break
    return rows


def junk_perm(g, n):
    """initial contents of P/Q: the routines must not depend on them"""
    rng = g.rng
    k = rng.choice(['id', 'zero', 'desc', 'big'])
    if k == 'id':
        v = list(range(n))
    elif k == 'zero':
        v = [0] * n
    elif k == 'desc':
        v = list(range(n - 1, -1, -1))
    else:
        v = [rng.randint(0, 2 * n + 5) for _ in range(n)]
    return 'p %d %s' % (n, ' '.join(map(str, v))) if n else 'p 0'


def suite_ple(g, n, big=False):
    rng = g.rng
    for _ in range(n):
        op = rng.choice(['ple_naive', 'pluq_naive', 'ple', 'ple', 'pluq', 'pluq', 'ple_russian', 'pluq_russian'])
        r, c = edim(g, big), edim(g, big)
        rows = profile_matrix(g, r, c)
        M = g.mat(r, c, rows)
        P, Q = junk_perm(g, r), junk_perm(g, c)
        if op in ('ple_naive', 'pluq_naive'):
            g.add(op, '%s %s %s' % (M, P, Q), r=r, c=c)
        elif op in ('ple', 'pluq'):
            g.add(op, '%s %s %s %d' % (M, P, Q, rng.choice([0, 0, 64, 128, 256])), r=r, c=c)
        else:
            # the base case called directly, on owned matrices and on windows (any word offset); beyond 512 columns the
            # split-block multi-table path (`_mzd_ple_a10` / `_mzd_ple_a11_*`) is taken
            if big and rng.random() < 0.35:
                r, c = rng.randint(10, 140), rng.randint(513, 1100)
                rows = profile_matrix(g, r, c)
                M = g.mat(r, c, rows)
                P, Q = junk_perm(g, r), junk_perm(g, c)
            g.add(op, '%s %s %s %d' % (M, P, Q, rng.randint(0, 9)), r=r, c=c)   # kk = 7k <= 64 is asserted


def tri_rows(g, n, upper, junk=True):
    """unit triangular n x n with arbitrary data in the other triangle (when junk)"""
    rng = g.rng
    kind = rng.choice(['dense', 'dense', 'sparse', 'identity', 'super'])
    rows = []
    for i in range(n):
        if upper:
            tri = ((rng.getrandbits(n) >> (i + 1)) << (i + 1)) if i + 1 < n else 0
            other = rng.getrandbits(i) if (junk and i) else 0
        else:
            tri = rng.getrandbits(i) if i else 0
            other = ((rng.getrandbits(n) >> (i + 1)) << (i + 1)) if (junk and i + 1 < n) else 0
        if kind == 'sparse':
            tri &= rng.getrandbits(n) & rng.getrandbits(n)
        elif kind == 'identity':
            tri = 0
        elif kind == 'super':
            tri = (1 << (i + 1)) & ((1 << n) - 1) if upper else ((1 << (i - 1)) if i else 0)
        rows.append(tri | other | (1 << i))
    return rows


def suite_trsm(g, n, big=False):
    rng = g.rng
    for _ in range(n):
        op = rng.choice(['trsm_ll', 'trsm_ul', 'trsm_ur', 'trsm_lr'])
        nn = edim(g, big)
        w = edim(g, big)
        if big and op in ('trsm_ll', 'trsm_ul') and rng.random() < 0.3:
            # right-hand sides whose rows are a whole number of 8-word groups (the 8-fold unrolled word loops end exactly
            # at the last word) with a partial last word; enough rows for the table-based paths
            w = 512 * rng.randint(1, 2) - rng.randint(0, 63)
            nn = rng.choice([65, 100, 130, 200, 257])
        if big and op in ('trsm_ll', 'trsm_ul') and rng.random() < 0.08:
            # two recursion levels of the left variants in the small-cache builds: the balanced split point exceeds the
            # block size
            nn = rng.randint(640, 1100)
            w = rng.choice([1, 30, 64, 65, 130])
        if op in ('trsm_ur', 'trsm_lr'):
            # the column-wise substitution form of the model costs rows * n^2 bit operations; every regime of the right
            # variants is entered below 400 columns in the small-cache builds
            nn, w = min(nn, 400), min(w, 300)
        upper = op in ('trsm_ul', 'trsm_ur')
        T = g.mat(nn, nn, tri_rows(g, nn, upper, junk=rng.random() < 0.7))
        if op in ('trsm_ll', 'trsm_ul'):
            B = g.mat(nn, w)
        else:
            B = g.mat(w, nn)
        g.add(op, '%s %s %d' % (T, B, rng.choice([0, 0, 64, 128, 2048])), n=nn, w=w)


def suite_inverse(g, n, big=False):
    rng = g.rng
    for _ in range(n):
        op = rng.choice(['inv_m4ri', 'inv_m4ri', 'invert_naive', 'trtri_upper', 'trtri_upper'])
        nn = edim(g, big)
        if op == 'inv_m4ri':
            A = g.mat(nn, nn, g.invertible_rows(nn))
            # "for every table parameter": the whole int range a caller may pass (0 = automatic; the code book ends at
            # __M4RI_MAXKAY = 16; larger and negative values are legal arguments of mzd_inv_m4ri, which ignores k)
            kk = rng.choice([rng.randint(0, 10), rng.randint(11, 16), rng.choice([17, 32, 64, 65, 1000, -1])])
            g.add(op, '%s %s %d' % (dst(g, nn, nn), A, kk), n=nn)
        elif op == 'invert_naive':
            A = g.mat(nn, nn, g.invertible_rows(nn))
            I = g.mat(nn, nn, [(1 << i) for i in range(nn)])
            g.add(op, '%s %s %s' % (dst(g, nn, nn), A, I), n=nn)
        else:
            U = g.mat(nn, nn, tri_rows(g, nn, True, junk=False))
            g.add(op, '%s' % U, n=nn)


def suite_solve(g, n, big=False, kernel=True, only_kernel=False):
    rng = g.rng
    for _ in range(n):
        op = rng.choice(['solve_left', 'solve_left', 'pluq_solve_left', 'kernel'])
        if only_kernel:
            op = 'kernel'
        elif not kernel and op == 'kernel':
            op = 'solve_left'
        m, nn = edim(g, big), edim(g, big)
        rows = profile_matrix(g, m, nn)
        A = g.mat(m, nn, rows)
        if op == 'kernel':
            g.add(op, '%s %d' % (A, rng.choice([0, 0, 64, 128])), m=m, n=nn)
            continue
        k = rng.choice([1, 1, 2, 17, 63, 64, 65, 130])
        R = max(m, nn)
        mode = rng.choice(['consistent', 'consistent', 'random', 'perturb', 'padrow', 'zero'])
        # X0 : nn x k ; B = Apad * X0
        X0 = g.rows_random(nn, k)
        B = []
        for i in range(R):
            v = 0
            if i < m:
                a = rows[i] & ((1 << nn) - 1)
                j = 0
                while a:
                    if a & 1:
                        v ^= X0[j]
                    a >>= 1
                    j += 1
            B.append(v)
        if mode == 'random':
            B = g.rows_random(R, k)
        elif mode == 'perturb':
            B[rng.randrange(R)] ^= 1 << rng.randrange(k)
        elif mode == 'padrow' and R > m:
            B[rng.randint(m, R - 1)] ^= 1 << rng.randrange(k)
        elif mode == 'zero':
            B = [0] * R
        check = rng.choice([1, 1, 1, 0])
        g.add(op, '%s %s %d %d' % (A, g.mat(R, k, B), rng.choice([0, 0, 64, 128]), check), m=m, n=nn, k=k, mode=mode)


# ------------------------------------------------------------------ C14
ALLOC_SIZES = [(3, 70), (3, 70), (2, 10), (5, 130), (0, 5), (4, 0)]


def alloc_line(g, nb, cm, th, ops):
    g.add('alloc_seq', '%d %d %d %s' % (nb, cm, th, ' '.join(ops)), nops=len(ops))


def alloc_enumerate(g, nb, cm, th, maxlen, big):
    """bounded-exhaustive operation sequences over a small alphabet"""
    sizes = [(3, 70), (2, 10), (0, 5)] + ([big] if big else [])
    def rec(ops, handles, live):
        if ops:
            alloc_line(g, nb, cm, th, ops)
        if len(ops) >= maxlen:
            return
        for (r, c) in sizes:
            rec(ops + ['i.%d.%d' % (r, c)], handles + [('m', r, c)], live | {len(handles)})
        for h in sorted(live):
            rec(ops + ['f.%d' % h], handles, live - {h})
            if handles[h][0] == 'm' and handles[h][1] and handles[h][2] >= 1:
                rec(ops + ['w.%d.0.0.%d.%d' % (h, max(1, handles[h][1] - 1), min(handles[h][2], 64))],
                    handles + [('w', 0, 0)], live | {len(handles)})
        if ops and ops[-1] != 'c':
            rec(ops + ['c'], handles, live)
    rec([], [], set())


def alloc_random(g, nb, cm, th, nseq, length, big, many_headers=False):
    rng = g.rng
    for _ in range(nseq):
        ops, handles, live = [], [], set()
        for _ in range(length):
            x = rng.random()
            if many_headers and x < 0.75 or (not live) or x < 0.4:
                r, c = rng.choice(ALLOC_SIZES + ([big] if big and rng.random() < 0.3 else []))
                if rng.random() < 0.2:
                    r, c = rng.randint(0, 6), rng.randint(0, 200)
                ops.append('i.%d.%d' % (r, c)); handles.append(('m', r, c)); live.add(len(handles) - 1)
            elif x < 0.5:
                h = rng.choice(sorted(live))
                if handles[h][0] == 'm' and handles[h][1] and handles[h][2]:
                    ops.append('w.%d.0.0.%d.%d' % (h, handles[h][1], min(handles[h][2], 64)))
                    handles.append(('w', 0, 0)); live.add(len(handles) - 1)
            elif x < 0.95:
                h = rng.choice(sorted(live)); ops.append('f.%d' % h); live.discard(h)
            else:
                ops.append('c')
        if rng.random() < 0.5:
            # free everything in a random order, then finalise
            order = sorted(live); rng.shuffle(order)
            ops += ['f.%d' % h for h in order] + ['c']
        alloc_line(g, nb, cm, th, ops)


def suite_ple_recursive(g, n, ops=('ple', 'pluq', 'echelonize_pluq', 'kernel', 'solve_left')):
    """shapes that enter the block-recursive PLE (and L compression) when PLE_CUTOFF is 8192 words:
    width * nrows > 8192 and ncols > 64, with rank profiles that make r1 a multiple of 64 or not, r2 > 0 etc."""
    rng = g.rng
    for _ in range(n):
        op = rng.choice(list(ops))
        c = rng.choice([1100, 1300, 1800, 2100, 1150, 1280, 1500, 1990])
        w = (c + 63) // 64
        r = 8192 // w + rng.randint(2, 40)
        n1 = (((c - 1) // 64 + 1) >> 1) * 64
        r1 = rng.choice([0, 1, 63, 64, 65, 128, 130, min(r, n1) // 2, min(r - 1, n1)])
        r1 = max(0, min(r1, n1, r - 1))
        r2 = rng.choice([0, 1, 70, 128, 130, 200])
        if rng.random() < 0.3:
            # the right half supplies (almost) all its columns as pivots while the left half is short of many: after the
            # compression of L whole words up to the last one are cleared
            r2 = c - n1 - rng.randint(0, 14)
            r1 = rng.choice([0, 1, 30, 64, 100])
            r = max(r, r1 + r2 + rng.randint(3, 40))
        elif rng.random() < 0.25:
            # nearly full rank with a slightly deficient left half: the last partial chunk of the compressed L lies in the
            # last word of the row (owned matrices of even width have no padding word behind it)
            r1 = n1 - rng.randint(1, 40)
            r2 = c - n1 - rng.randint(0, 10)
            r = r1 + r2 + rng.randint(3, 40)
        r2 = max(0, min(r2, c - n1, r - r1))
        left = sorted(rng.sample(range(n1), r1)) if r1 else []
        right = sorted(rng.sample(range(n1, c), r2)) if r2 else []
        rows, _ = g.rank_profile_rows(r, c, pivots=left + right)
        # keep some rows zero at the bottom sometimes (first_zero_row truncation)
        if rng.random() < 0.3:
            z = rng.randint(1, 5)
            rows = rows[:-z] + [0] * z
        M = g.mat(r, c, rows, place=g.place(window=(True if g.force_window else rng.random() < 0.3)))
        if op in ('ple', 'pluq'):
            g.add(op, '%s %s %s %d' % (M, junk_perm(g, r), junk_perm(g, c), rng.choice([0, 64, 256])), r=r, c=c, r1=r1, r2=r2)
        elif op == 'echelonize_pluq':
            g.add(op, '%s %d' % (M, rng.randint(0, 1)), r=r, c=c)
        elif op == 'kernel':
            g.add(op, '%s %d' % (M, 0), m=r, n=c)
        else:
            R = max(r, c)
            k = rng.choice([1, 65])
            X0 = g.rows_random(c, k)
            B = []
            for i in range(R):
                v = 0
                if i < r:
                    a = rows[i]
                    j = 0
                    while a:
                        if a & 1:
                            v ^= X0[j]
                        a >>= 1
                        j += 1
                B.append(v)
            if rng.random() < 0.3:
                B[rng.randrange(R)] ^= 1
            g.add(op, '%s %s %d %d' % (M, g.mat(R, k, B), 0, 1), m=r, n=c, k=k)


def suite_guards(g, n):
    """calls to the checked public wrappers with incompatible dimensions: the model says `die`, the operands
    must be untouched (the harness compares every allocation with its snapshot)"""
    rng = g.rng
    for _ in range(n):
        a, b, c, d = (rng.randint(1, 70) for _ in range(4))
        if a == b:
            b += 1
        op = rng.choice(['mul', 'addmul', 'mul_m4rm', 'addmul_m4rm', 'mul_naive', 'addmul_naive', 'add', 'copy', 'concat',
                         'stack', 'submatrix', 'transpose', 'trsm_ll', 'trsm_ul', 'trsm_ur', 'trsm_lr', 'ple', 'pluq',
                         'solve_left', 'mulneg'])
        M = lambda r, cc: g.mat(r, cc, kind='dense')
        if op in ('mul', 'addmul', 'mul_m4rm', 'addmul_m4rm'):
            kind = rng.choice(['inner', 'cdims'])
            if kind == 'inner':
                g.add(op, '%s %s %s 0' % (M(c, d), M(c, a), M(b, d)))
            else:
                g.add(op, '%s %s %s 0' % (M(c + 1, d), M(c, a), M(a, d)))
        elif op == 'mulneg':
            g.add('mul', '%s %s %s -1' % (M(c, d), M(c, a), M(a, d)))
        elif op in ('mul_naive', 'addmul_naive'):
            g.add(op, '%s %s %s' % (M(c, d + 1), M(c, a), M(a, d)))
        elif op == 'add':
            if rng.random() < 0.5:
                g.add(op, '%s %s %s' % (M(a, c), M(a, c), M(b, c)))
            else:
                g.add(op, '%s %s %s' % (M(a, c + 1), M(a, c), M(a, c)))
        elif op == 'copy':
            g.add(op, '%s %s' % (M(a, c), M(a + 1, c)))
        elif op == 'concat':
            g.add(op, '%s %s %s' % (rng.choice(['null', M(a, c + d)]), M(a, c), M(b, d)))
        elif op == 'stack':
            g.add(op, '%s %s %s' % (rng.choice(['null', M(c + d, a)]), M(c, a), M(d, b)))
        elif op == 'submatrix':
            g.add(op, '%s %s 0 0 %d %d' % (M(a, c), M(a + 3, c + 3), a + 1, c))
        elif op == 'transpose':
            g.add(op, '%s %s' % (M(a, c + 1), M(c, a)))
        elif op in ('trsm_ll', 'trsm_ul'):
            g.add(op, '%s %s 0' % (M(a, a), M(b, c)))
        elif op in ('trsm_ur', 'trsm_lr'):
            g.add(op, '%s %s 0' % (M(a, a), M(c, b)))
        elif op in ('ple', 'pluq'):
            if rng.random() < 0.5:
                g.add(op, '%s %s %s 0' % (M(a, c), g.perm(a + 1, a + 1, 'identity'), g.perm(c, c, 'identity')))
            else:
                g.add(op, '%s %s %s 0' % (M(a, c), g.perm(a, a, 'identity'), g.perm(c + 1, c + 1, 'identity')))
        elif op == 'solve_left':
            g.add(op, '%s %s 0 1' % (M(a, c), M(max(a, c) + 1, d)))


# ------------------------------------------------------------------ C19 (finite domains: exhaustive)
def suite_c19(g, tier):
    rng = g.rng
    quick = (tier == 'quick')
    for k in range(1, 17):
        g.add('codebook', '%d' % k, k=k)
    for l in range(1, 17):
        for i in ([0, 1, 2, 3, (1 << l) - 1, (1 << l) // 2] + [rng.randrange(1 << l) for _ in range(20)]):
            if i < (1 << l):
                g.add('gray_code', '%d %d' % (i, l))
    for a in [1, 2, 3, 7, 8, 15, 16, 100, 1000, 65535, 65536, 1 << 20]:
        for b in [1, 5, 64, 1 << 20]:
            g.add('opt_k', '%d %d' % (a, b))
    # all 65 mask lengths x 64 offsets
    for n in range(0, 65):
        g.add('mask', '0 %d 0' % n)
        if n >= 1:
            g.add('mask', '1 %d 0' % n)
        for off in range(0, 64):
            if n >= 1 and n + off <= 64:
                g.add('mask', '2 %d %d' % (n, off))
    # GF(2)-linear kernels: complete single-bit basis plus random combinations
    for i in range(64):
        for b in range(64 if not quick else 64):
            ws = ['x0'] * 64
            ws[i] = 'x%x' % (1 << b)
            if quick and (i * 64 + b) % 7:
                continue
            g.add('parity64', ' '.join(ws))
    for _ in range(60 if quick else 1000):
        g.add('parity64', ' '.join('x%x' % rng.getrandbits(64) for _ in range(64)))
    for b in range(64):
        g.add('swap_bits', 'x%x' % (1 << b))
    for _ in range(200):
        g.add('swap_bits', 'x%x' % rng.getrandbits(64))
    for b in range(64):
        for c in range(64):
            g.add('lesser_lsb', 'x%x x%x' % ((1 << b) | (rng.getrandbits(64) >> b << b), (1 << c) | (rng.getrandbits(64) >> c << c)))
    g.add('lesser_lsb', 'x0 x0'); g.add('lesser_lsb', 'x0 x5'); g.add('lesser_lsb', 'x5 x0')
    for _ in range(300 if quick else 5000):
        length = rng.randint(1, 16)
        base = rng.randint(0, 100)
        span = rng.randint(length, 64)
        Q = sorted(rng.sample(range(span), length))
        Qs = 'p %d %s' % (length, ' '.join(str(base + q) for q in Q))
        w = rng.getrandbits(length)
        g.add('spread', 'x%x %s %d %d' % (w, Qs, length, base))
        g.add('shrink', 'x%x %s %d %d' % (rng.getrandbits(64), Qs, length, base))
    for b in range(16):
        Qs = 'p 16 ' + ' '.join(str(3 * i) for i in range(16))
        g.add('spread', 'x%x %s 16 0' % (1 << b, Qs))
        g.add('shrink', 'x%x %s 16 0' % (1 << (3 * b), Qs))
    # make_table: every x of every k <= 8 (and 9..10 in the thorough tier), tables starting in every word phase
    for k in range(1, 9 if quick else 11):
        for _ in range(3 if quick else 12):
            c_ = rng.choice([0, 0, 1, 17, 63, 64, 65, 100])
            ncols = c_ + k + rng.choice([0, 1, 20, 64, 70, 130])
            nrows = rng.randint(k, k + 5)
            r = rng.randint(0, nrows - k)
            g.add('make_table', '%s %d %d %d' % (g.mat(nrows, ncols, kind='dense'), r, c_, k), k=k)


# ------------------------------------------------------------------ C18
def jcf_tokens(g, m, n, rows):
    toks = []
    nnz = 0
    for i in range(m):
        cols = [j + 1 for j in range(n) if (rows[i] >> j) & 1]
        if not cols:
            continue   # a row without entries cannot be denoted (row advance happens on a negative index)
        toks.append(-cols[0])
        toks += cols[1:]
        nnz += len(cols)
    return [m, n, 2, nnz] + toks


def suite_io(g, n):
    rng = g.rng
    for _ in range(n):
        op = rng.choice(['png_roundtrip', 'png_roundtrip', 'jcf_ok', 'jcf_bad', 'jcf_bad', 'from_str', 'png_hdr', 'png_corrupt'])
        if op == 'png_roundtrip':
            r = rng.randint(1, 6)
            c = rng.choice([rng.randint(1, 70), rng.randint(1, 300), 64 * rng.randint(1, 3) + rng.randint(0, 63)])
            g.add(op, '%s %d %d' % (g.mat(r, c), rng.randint(0, 9), rng.randint(0, 1)), c=c)
        elif op == 'jcf_ok':
            m, nn = rng.randint(1, 8), rng.randint(1, 140)
            rows = g.rows_kind(m, nn, rng.choice(['sparse', 'dense', 'identity', 'single']))
            # the format cannot denote an empty row followed by non-empty ones: make every row non-empty up to the last used
            rows = [v if v else 1 for v in rows]
            g.add('jcf_read', ' '.join(map(str, jcf_tokens(g, m, nn, rows))), m=m, n=nn)
        elif op == 'jcf_bad':
            m, nn = rng.randint(1, 6), rng.randint(1, 70)
            rows = [v if v else 1 for v in g.rows_kind(m, nn, 'sparse')]
            toks = jcf_tokens(g, m, nn, rows)
            kind = rng.choice(['zero', 'positive_first', 'too_big', 'too_many_rows', 'modulus', 'short_header', 'neg_big', 'neg_dims'])
            if kind == 'zero':
                toks[rng.randint(4, len(toks) - 1)] = 0
            elif kind == 'positive_first':
                toks[4] = abs(toks[4])
            elif kind == 'too_big':
                # also magnitudes whose low 32 bits look like a valid index (the reader scans a C long)
                k = rng.randint(1, nn)
                toks[rng.randint(4, len(toks) - 1)] = rng.choice([nn + 1, nn + 1, nn + 2, nn + 64, nn + 1000, 2 ** 31 + k, 2 ** 32 + k,
                                                                  2 ** 33 + k, 2 ** 40 + k, 2 ** 32 + nn + 1, 2 ** 31 - 1])
            elif kind == 'neg_big':
                k = rng.randint(1, nn)
                toks[rng.randint(4, len(toks) - 1)] = -rng.choice([nn + 1, nn + 2, nn + 64, 2 ** 32 - k, 2 ** 32 + k, 2 ** 31 + k, 2 ** 40 + k])
            elif kind == 'too_many_rows':
                toks += [-1] * (m + 1)
            elif kind == 'modulus':
                toks[2] = rng.choice([0, 3, 7])
            elif kind == 'short_header':
                toks = toks[:rng.randint(1, 3)]
            else:
                toks[rng.randint(0, 1)] = -rng.randint(1, 5)
            g.add('jcf_read', ' '.join(map(str, toks)), kind=kind)
        elif op == 'from_str':
            m, nn = rng.randint(1, 5), rng.randint(1, 80)
            if rng.random() < 0.5:
                m, nn = rng.randint(1, 6), rng.choice([64, 65, 100, 128, 129, 130, 200, 257])
            kind = rng.choice(['dense', 'dense', 'sparse', 'identity', 'zeroblocks', 'lastcol'])
            def ch(i, j):
                if kind == 'dense':
                    return rng.choice('01')
                if kind == 'sparse':
                    return '1' if rng.random() < 0.03 else '0'
                if kind == 'identity':
                    return '1' if i == j else '0'
                if kind == 'lastcol':
                    return '1' if j == nn - 1 else '0'
                # aligned all-zero 64-character blocks next to dense ones
                return '0' if ((j // 64) + i) % 2 == 0 else rng.choice('01')
            g.add('from_str', '%d %d %s' % (m, nn, ''.join(ch(i, j) for i in range(m) for j in range(nn))))
        elif op == 'png_hdr':
            depth, ct = rng.choice([(1, 0), (2, 0), (4, 0), (8, 0), (16, 0), (1, 3), (2, 3), (4, 3), (8, 3), (8, 2), (16, 2), (8, 4),
                                    (16, 4), (8, 6), (16, 6)])
            g.add('png_hdr', '%d %d %d %d' % (rng.randint(1, 130), rng.randint(1, 4), depth, ct), depth=depth, ct=ct)
        else:
            r, c = rng.randint(1, 5), rng.randint(1, 200)
            g.add('png_corrupt', '%s %d %d' % (g.mat(r, c, place='o'), rng.choice([1000, 1000, 900, 700, 500, 300, 100, 50, 20, 8]),
                                              rng.choice([-1, -1, rng.randint(8, 120)])))


def alloc_blockwise(g, nb, cm, th, nseq):
    """many simultaneously live headers (several 64-header blocks, optionally beyond the block limit), freed block by
    block in varying orders, then more allocations: exercises unlink-on-empty, current_cache fix-ups, plain headers"""
    rng = g.rng
    for _ in range(nseq):
        nblocks = rng.choice([2, 3, 3, 4, 5])
        total = 64 * nblocks + rng.randint(0, 10)
        if rng.random() < 0.15:
            total = 64 * (cm + 1) + rng.randint(1, 20)        # cross the block limit: plain-malloc headers
        ops = ['i.%d.%d' % rng.choice([(1, 1), (2, 70), (0, 3), (1, 130)]) for _ in range(total)]
        live = list(range(total))
        # handles are handed out from the highest free slot of the current block: block b holds handles 64b .. 64b+63
        blocks = [list(range(64 * b, min(64 * b + 64, total))) for b in range((total + 63) // 64)]
        order = list(range(len(blocks)))
        rng.shuffle(order)
        keep_some = rng.random() < 0.5
        nxt = total
        for bi in order:
            hs = blocks[bi][:]
            rng.shuffle(hs)
            if keep_some and rng.random() < 0.3:
                hs = hs[:-1]                                 # leave one header of this block alive
            ops += ['f.%d' % h for h in hs]
            for h in hs:
                live.remove(h)
            if rng.random() < 0.6:
                k = rng.randint(1, 70)
                ops += ['i.1.%d' % rng.randint(1, 90) for _ in range(k)]
                live += list(range(nxt, nxt + k)); nxt += k
        if rng.random() < 0.7:
            rng.shuffle(live)
            ops += ['f.%d' % h for h in live] + ['c']
        alloc_line(g, nb, cm, th, ops)


def suite_tables(g, n):
    """Gray-code table + single-table row processing called directly (long rows: the unrolled word loops and their tails)"""
    rng = g.rng
    for _ in range(n):
        c = wdim(g, 1, 300)
        if rng.random() < 0.45:
            c = rng.choice([rng.randint(513, 1700), 64 * rng.randint(9, 27), 64 * rng.randint(9, 27) + rng.choice([1, 37, 63])])
        k = rng.randint(1, min(8, c))
        sc = rng.choice([0, rng.randint(0, c - k), max(0, c - k), (rng.randint(0, c - k) // 64) * 64])
        r = rng.randint(1, 12)
        sr = rng.randint(0, r)
        er = rng.randint(sr, r)
        rs = rng.randint(k, k + 5)
        r0 = rng.randint(0, rs - k)
        M = g.mat(r, c, kind=rng.choice(['dense', 'dense', 'sparse']))
        S = g.mat(rs, c, kind=rng.choice(['dense', 'dense', 'sparse', 'single']))
        g.add('process_rows', '%s %d %d %d %d %s %d' % (M, sr, er, sc, k, S, r0), c=c, k=k)
