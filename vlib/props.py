"""Registry: per property, the Lean modules holding its theorems, the correspondence runs, and the
implementation-side extras."""
from . import build as B
from . import suites as S

Q = 'quick'


def n(tier, q, t):
    return q if tier == Q else t


def runs_c13(tier):
    def s1(g, tier):
        S.suite_rowcol(g, n(tier, 2500, 40000))
        S.suite_perm(g, n(tier, 1200, 12000))
    def s2(g, tier):
        S.suite_rowcol(g, n(tier, 800, 8000))
        S.suite_perm(g, n(tier, 500, 5000))
    out = [(B.DEFAULT_CFG, None, s1, []),
           (dict(B.SMALL_CACHE, sse2=0), 'address,undefined', s2, [])]
    if tier != Q:
        out.append((B.SMALL_CACHE, None, s2, []))
    return out


def runs_c17(tier):
    def s1(g, tier):
        S.suite_observers(g, n(tier, 4000, 60000))
    out = [(B.DEFAULT_CFG, None, s1, []), (B.DEFAULT_CFG, 'address,undefined', s1, [])]
    return out


def runs_c08(tier):
    def s1(g, tier):
        S.suite_datamove(g, n(tier, 3000, 40000), big=(tier != Q))
    def s2(g, tier):
        S.suite_datamove(g, n(tier, 1000, 10000), big=True)
    return [(B.DEFAULT_CFG, None, s1, []), (dict(B.DEFAULT_CFG, sse2=0), 'address,undefined', s2, [])]


PROPS = {
    'C13': dict(lean_modules=['M4riProofs.Props.C13'], runs=runs_c13, level='proof'),
    'C17': dict(lean_modules=['M4riProofs.Props.C17'], runs=runs_c17, level='proof'),
    'C08': dict(lean_modules=['M4riProofs.Props.C08'], runs=runs_c08, level='proof'),
}
