"""Registry: per property, the Lean modules holding its theorems, the correspondence runs
(configuration, sanitizer, suite, harness arguments) and the implementation-side extras."""
from . import build as B
from . import suites as S
from . import extras as X

Q = 'quick'


def n(tier, q, t):
    return q if tier == Q else t


SC = B.SMALL_CACHE                       # 4 KiB / 32 KiB / 64 KiB: recursive regimes start at ~260 rows
SC_NOSSE = dict(B.SMALL_CACHE, sse2=0)
DEF = B.DEFAULT_CFG
DEF_NOSSE = dict(B.DEFAULT_CFG, sse2=0)
MID = dict(B.DEFAULT_CFG, l1=32768, l2=262144, l3=1048576)
ASAN = 'address,undefined'
# a last-level cache whose derived block size (316) and Strassen cut-off (632) are NOT multiples of 64
ODD = dict(B.SMALL_CACHE, l3=100000)


def mk(fn, q, t, tables=None, **kw):
    def s(g, tier):
        fn(g, n(tier, q, t), **kw)
        if tables:
            S.suite_tables(g, n(tier, tables[0], tables[1]))
    return s


# ---------------------------------------------------------------- C01
def runs_c01(tier):
    return [(DEF, None, mk(S.suite_mul, 700, 12000, big=False, tables=(200, 3000)), []),
            (SC, None, mk(S.suite_mul, 500, 8000, big=True), []),
            (SC_NOSSE, ASAN, mk(S.suite_mul, 250, 3000, big=True), []),
            # the multi-core front end exists only in the OpenMP configuration (single thread here: C16 varies the threads)
            (dict(B.with_openmp(SC), env={'OMP_NUM_THREADS': '2'}), None, mk(S.suite_mul, 200, 2500, big=True), [])]


def runs_c02(tier):
    return [(DEF, None, mk(S.suite_echelon, 700, 10000, big=False, tables=(200, 3000)), []),
            (SC, None, mk(S.suite_echelon, 400, 6000, big=True), []),
            (SC_NOSSE, ASAN, mk(S.suite_echelon, 200, 2500, big=True), [])]


def runs_c03(tier):
    return [(DEF, None, mk(S.suite_ple, 700, 10000, big=False), []),
            (SC, None, mk(S.suite_ple, 400, 6000, big=True), []),
            (SC, None, mk(S.suite_ple_recursive, 40, 400), []),
            (SC_NOSSE, ASAN, mk(S.suite_ple, 200, 2500, big=True), [])]


def runs_c04(tier):
    return [(DEF, None, mk(S.suite_trsm, 500, 8000, big=False), []),
            (SC, None, mk(S.suite_trsm, 200, 3000, big=True), []),
            (ODD, None, mk(S.suite_trsm, 120, 1500, big=True), []),
            (SC_NOSSE, ASAN, mk(S.suite_trsm, 120, 1500, big=True), [])]


def runs_c05(tier):
    return [(DEF, None, mk(S.suite_inverse, 500, 8000, big=False, tables=(200, 3000)), []),
            (SC, None, mk(S.suite_inverse, 250, 3000, big=True), []),
            (SC_NOSSE, ASAN, mk(S.suite_inverse, 120, 1500, big=True), [])]


def runs_c06(tier):
    def s(g, tier, q=500, t=8000, big=False):
        S.suite_solve(g, n(tier, q, t), big=big, kernel=False)
    return [(DEF, None, s, []),
            (SC, None, lambda g, tier: S.suite_solve(g, n(tier, 300, 4000), big=True, kernel=False), []),
            (SC, None, lambda g, tier: S.suite_ple_recursive(g, n(tier, 24, 300), ops=('solve_left',)), []),
            (SC_NOSSE, ASAN, lambda g, tier: S.suite_solve(g, n(tier, 120, 1500), big=True, kernel=False), [])]


def runs_c07(tier):
    return [(DEF, None, lambda g, tier: S.suite_solve(g, n(tier, 500, 8000), big=False, only_kernel=True), []),
            (SC, None, lambda g, tier: S.suite_solve(g, n(tier, 300, 4000), big=True, only_kernel=True), []),
            (SC, None, lambda g, tier: S.suite_ple_recursive(g, n(tier, 24, 300), ops=('kernel',)), []),
            (SC_NOSSE, ASAN, lambda g, tier: S.suite_solve(g, n(tier, 120, 1500), big=True, only_kernel=True), [])]


def runs_c08(tier):
    return [(DEF, None, mk(S.suite_datamove, 3000, 40000, big=(tier != Q)), []),
            (DEF_NOSSE, ASAN, mk(S.suite_datamove, 1000, 10000, big=True), [])]


def all_ops(g, k, big=False):
    """every operation family with every operand position a window or not (the placement generator of cases.G)"""
    S.suite_rowcol(g, 3 * k)
    S.suite_perm(g, k)
    S.suite_observers(g, 2 * k)
    S.suite_datamove(g, 3 * k, big=big)
    S.suite_mul(g, k, big=big)
    S.suite_echelon(g, k, big=big)
    S.suite_ple(g, k, big=big)
    S.suite_trsm(g, k // 2 + 1, big=big)
    S.suite_inverse(g, k // 2 + 1, big=big)
    S.suite_solve(g, k, big=big)
    S.suite_tables(g, k)


def runs_c09(tier):
    def windows_only(g, tier):
        g.force_window = True
        all_ops(g, n(tier, 250, 3000), big=False)
    def windows_big(g, tier):
        g.force_window = True
        all_ops(g, n(tier, 80, 1000), big=True)
        S.suite_ple_recursive(g, n(tier, 20, 200))
    return [(DEF, None, windows_only, []), (SC, None, windows_big, []), (SC_NOSSE, ASAN, windows_big, [])]


def runs_c10(tier):
    # the same cases under different heap fills / histories: the model is a pure function, so every run must agree with it
    def s(g, tier):
        all_ops(g, n(tier, 120, 1500), big=False)
    return [(DEF, None, s, ['--fill', '2']), (DEF, None, s, ['--fill', '3']), (DEF, None, s, ['--fill', '4']),
            (SC, None, s, ['--fill', '4']), (B.thread_safe(DEF), None, s, ['--fill', '2'])]


def runs_c11(tier):
    def s(g, tier):
        all_ops(g, n(tier, 150, 2000), big=False)
    def sbig(g, tier):
        all_ops(g, n(tier, 50, 600), big=True)
        S.suite_ple_recursive(g, n(tier, 10, 100))
    def guards(g, tier):
        S.suite_guards(g, n(tier, 300, 3000))
    def headers(g, tier):
        # the header pool with several heap blocks alive (>= 192 headers), whole blocks emptied and slots re-used:
        # use-after-free / double free of a pool block is only visible under the sanitizer
        S.alloc_blockwise(g, 16, 16, 56623104, n(tier, 25, 250))
        S.alloc_random(g, 16, 16, 56623104, n(tier, 3, 15), 3000, None, many_headers=True)
    return [(DEF, ASAN, s, ['--leakcheck']), (SC, ASAN, sbig, ['--leakcheck']), (DEF_NOSSE, ASAN, s, ['--leakcheck']),
            (DEF, None, guards, ['--fork']), (DEF, ASAN, headers, ['--fork'])]


def runs_c12(tier):
    def s(g, tier):
        # (quick: the volume per configuration is kept small -- eight configurations run the same cases)
        S.suite_mul(g, n(tier, 80, 2000), big=True)
        S.suite_echelon(g, n(tier, 60, 1500), big=True)
        S.suite_ple(g, n(tier, 60, 1500), big=True)
        S.suite_trsm(g, n(tier, 40, 800), big=True)
        S.suite_inverse(g, n(tier, 30, 800), big=True)
        S.suite_solve(g, n(tier, 50, 1200), big=True)
        S.suite_ple_recursive(g, n(tier, 8, 150))       # block-recursive PLE regime of the small-cache configurations
    # a last-level cache of 768 MiB (large server parts): cache-size arithmetic beyond 2^29 bytes
    HUGE = dict(DEF, l2=2097152, l3=805306368)
    cfgs = [DEF, SC, SC_NOSSE, MID, B.thread_safe(SC), HUGE, ODD]
    if tier != Q:
        cfgs += [dict(SC, l1=4096, l2=262144, l3=1048576), DEF_NOSSE, B.thread_safe(DEF), dict(DEF, l1=4096), dict(MID, sse2=0), dict(SC, l2=65536),
                 B.with_openmp(SC), B.with_openmp(DEF), dict(DEF, l2=4194304, l3=1 << 30), dict(DEF, l2=4194304, l3=1 << 32)]
    # identical seeded cases under every configuration (the check driver seeds per run index, so force one seed)
    return [(c, None, s, [], 'same-seed') for c in cfgs]


def runs_c13(tier):
    def s1(g, tier):
        S.suite_rowcol(g, n(tier, 2500, 40000))
        S.suite_perm(g, n(tier, 1200, 12000))
    def s2(g, tier):
        S.suite_rowcol(g, n(tier, 800, 8000))
        S.suite_perm(g, n(tier, 500, 5000))
    out = [(DEF, None, s1, []), (SC_NOSSE, ASAN, s2, [])]
    if tier != Q:
        out.append((SC, None, s2, []))
    return out


HOOK2 = ('M4RI_VERIF', 'M4RI_VERIF_MMC_NBLOCKS=2', 'M4RI_VERIF_MZD_T_CACHE_MAX=2')


def runs_c14(tier):
    def small(g, tier):
        S.alloc_enumerate(g, 2, 2, 65536, n(tier, 4, 6), (100, 6000))
        S.alloc_random(g, 2, 2, 65536, n(tier, 300, 3000), 60, (100, 6000))
        S.alloc_random(g, 2, 2, 65536, n(tier, 20, 100), 400, (100, 6000), many_headers=True)
    def real(g, tier):
        S.alloc_random(g, 16, 16, 56623104, n(tier, 100, 1000), 300, None)
        S.alloc_random(g, 16, 16, 56623104, n(tier, 4, 20), 3000, None, many_headers=True)
        S.alloc_blockwise(g, 16, 16, 56623104, n(tier, 40, 400))
    def real_asan(g, tier):
        S.alloc_blockwise(g, 16, 16, 56623104, n(tier, 15, 150))
    return [(dict(SC, defines=HOOK2), None, small, ['--fork']), (DEF, None, real, ['--fork']),
            (dict(SC, defines=HOOK2), ASAN, small, ['--fork']), (DEF, ASAN, real_asan, ['--fork'])]


def runs_c17(tier):
    s1 = mk(S.suite_observers, 4000, 60000)
    return [(DEF, None, s1, []), (DEF, ASAN, s1, [])]


def runs_c19(tier):
    return [(DEF, None, lambda g, tier: S.suite_c19(g, tier), []), (DEF_NOSSE, ASAN, lambda g, tier: S.suite_c19(g, tier), [])]


def runs_c18(tier):
    s = lambda g, tier: S.suite_io(g, n(tier, 500, 6000))
    return [(DEF, ASAN, s, ['--fork']), (DEF, None, s, ['--fork'])]


def runs_c20(tier):
    # the fault positions are enumerated by the extra; the correspondence part replays the scenarios without faults
    def s(g, tier):
        for i, (name, body) in enumerate(X.c20_scenarios(1)):
            g.lines.append('f%d %s' % (i, body)); g.n += 1
    return [(DEF, None, s, ['--fork'])]


def runs_c15(tier):
    # sequential reference runs of the thread-safe build against the model (the thread harness itself is the extra)
    def s(g, tier):
        all_ops(g, n(tier, 60, 600), big=False)
    return [(B.thread_safe(DEF), None, s, [])]


TB_W = ['unrolled loops, Duff devices and SSE2 bodies are modelled by the loop they unroll (seen only by the correspondence runs and sanitizers)']

PROPS = {
    'C01': dict(lean_modules=['M4riProofs.Props.C01', 'M4riProofs.Props.C01x'], runs=runs_c01, trusted_base=TB_W),
    'C02': dict(lean_modules=['M4riProofs.Props.C02'], runs=runs_c02),
    'C03': dict(lean_modules=['M4riProofs.Props.C03'], runs=runs_c03),
    'C04': dict(lean_modules=['M4riProofs.Props.C04'], runs=runs_c04),
    'C05': dict(lean_modules=['M4riProofs.Props.C05'], runs=runs_c05),
    'C06': dict(lean_modules=['M4riProofs.Props.C06'], runs=runs_c06),
    'C07': dict(lean_modules=['M4riProofs.Props.C07'], runs=runs_c07),
    'C08': dict(lean_modules=['M4riProofs.Props.C08'], runs=runs_c08, trusted_base=TB_W),
    'C09': dict(lean_modules=['M4riProofs.Props.C09'], runs=runs_c09, trusted_base=TB_W),
    'C10': dict(lean_modules=['M4riProofs.Props.C10'], runs=runs_c10),
    'C11': dict(lean_modules=['M4riProofs.Props.C11'], runs=runs_c11, extra=X.c11),
    'C12': dict(lean_modules=['M4riProofs.Props.C12'], runs=runs_c12),
    'C13': dict(lean_modules=['M4riProofs.Props.C13'], runs=runs_c13, trusted_base=TB_W),
    'C14': dict(lean_modules=['M4riProofs.Props.C14'], runs=runs_c14),
    'C15': dict(lean_modules=['M4riProofs.Props.C15'], runs=runs_c15, extra=X.c15),
    'C16': dict(lean_modules=['M4riProofs.Props.C16'], runs=X.c16_runs),
    'C18': dict(lean_modules=['M4riProofs.Props.C18'], runs=runs_c18),
    'C20': dict(lean_modules=['M4riProofs.Props.C20'], runs=runs_c20, extra=X.c20),
    'C17': dict(lean_modules=['M4riProofs.Props.C17'], runs=runs_c17),
    'C19': dict(lean_modules=['M4riProofs.Props.C19'], runs=runs_c19),
}
