"""Implementation-side checks that the model cannot exhibit: allocation-failure injection (C20), thread harness under
ThreadSanitizer + static-storage inventory (C15), OpenMP runs at several thread counts (C16)."""
import os, re, subprocess, random
from . import build as B
from . import core, cases, suites as S

VERIF = core.VERIF


# ------------------------------------------------------------------------------------------------ C20
def c20_scenarios(seed):
    g = cases.G(seed)
    rng = g.rng
    M = lambda r, c, **kw: g.mat(r, c, place='o', **kw)
    inv = g.invertible_rows(70)
    sc = [
        ('create', 'copy null %s' % M(5, 130, kind='dense')),
        ('window+transpose', 'transpose null %s' % g.mat(20, 100, place='w1.1.1.1.7', kind='dense')),
        ('mul_naive', 'mul_naive null %s %s' % (M(20, 30), M(30, 40))),
        ('mul_m4rm', 'mul_m4rm null %s %s 0' % (M(40, 70), M(70, 90))),
        ('mul_strassen', 'mul null %s %s 64' % (M(150, 140), M(140, 160))),
        ('addmul_strassen', 'addmul %s %s %s 64' % (M(150, 160), M(150, 140), M(140, 160))),
        ('sqr_strassen', 'mul null %s @1 64' % M(150, 150)),
        ('echelonize_m4ri', 'echelonize_m4ri %s 1 0' % M(80, 100, kind='dense')),
        ('echelonize_pluq', 'echelonize_pluq %s 1' % M(80, 100, kind='dense')),
        ('ple', 'ple %s %s %s 0' % (M(70, 90, kind='dense'), g.perm(70, 70, 'identity'), g.perm(90, 90, 'identity'))),
        ('pluq', 'pluq %s %s %s 0' % (M(70, 90, kind='dense'), g.perm(70, 70, 'identity'), g.perm(90, 90, 'identity'))),
        ('inv_m4ri', 'inv_m4ri null %s 0' % g.mat(70, 70, inv, place='o')),
        ('invert_naive', 'invert_naive null %s %s' % (g.mat(70, 70, inv, place='o'), g.mat(70, 70, [1 << i for i in range(70)], place='o'))),
        ('trtri', 'trtri_upper %s' % g.mat(130, 130, S.tri_rows(g, 130, True, junk=False), place='o')),
        ('trsm_ur', 'trsm_ur %s %s 0' % (g.mat(100, 100, S.tri_rows(g, 100, True), place='o'), M(30, 100))),
        ('solve', 'solve_left %s %s 0 1' % (M(60, 80, kind='dense'), M(80, 3))),
        ('kernel', 'kernel %s 0' % M(40, 90, kind='dense')),
        ('apply_p_right', 'apply_p_right %s %s' % (M(30, 100), g.perm(100, 100, 'random'))),
        ('concat', 'concat null %s %s' % (M(5, 70), M(5, 9))),
        ('png_roundtrip', 'png_roundtrip %s 0 1' % M(4, 70)),
        ('djb', 'djb %s %s %s' % (M(70, 40, kind='zero'), M(70, 60, kind='dense'), M(60, 40))),
        ('alloc_many_headers', 'alloc_seq 16 16 56623104 ' + ' '.join(['i.2.70'] * 70)),
    ]
    return sc


def c20(tier, seed):
    """for every scenario and every position i: request i fails -> the call must end in the controlled abort"""
    viol = []
    samples = []
    total_positions = 0
    fired = 0
    per = {}
    sc = c20_scenarios(seed)
    bld = B.Build(cfg=B.DEFAULT_CFG)
    try:
        for name, body in sc:
            line = 's %s' % body
            r = core.run_exe(bld.exe, [line], ['--fork'])
            res = core.parse_results(r.stdout).get('s')
            if not res or not res[0].startswith('ok'):
                viol.append(dict(kind='impl-crash', what='scenario does not complete without faults', scenario=name, line=line[:300],
                                 fate=res[0] if res else r.stdout[-200:], signature='c20-dry-' + name))
                continue
            kv = dict(x.split('=', 1) for x in res[1].split() if '=' in x)
            nreq = int(kv.get('req', '0'))
            per[name] = nreq
            positions = list(range(1, nreq + 1))
            if tier == 'quick' and nreq > 48:
                rnd = random.Random(seed)
                positions = sorted(set([1, 2, 3, nreq - 1, nreq] + rnd.sample(range(1, nreq + 1), 43)))
            for i in positions:
                total_positions += 1
                r = core.run_exe(bld.exe, [line], ['--fork', '--failat', str(i)])
                out = core.parse_results(r.stdout).get('s')
                fate = out[0] if out else '<no output>'
                diag = out[1] if out else ''
                kvd = dict(x.split('=', 1) for x in diag.split() if '=' in x)
                if kvd.get('faults', '1') != '0' or fate.startswith('signal') or fate.startswith('exit'):
                    fired += 1
                ok = fate == 'die'
                # a zero-size request may legitimately return NULL without dying: then the call completes normally
                if not ok and fate.startswith('ok') and kvd.get('faults') == '0':
                    ok = True
                if len(samples) < 8:
                    samples.append('%s: request %d of %d fails -> %s' % (name, i, nreq, fate.split()[0]))
                if not ok:
                    viol.append(dict(kind='alloc-failure-not-controlled', scenario=name, lines=[line], harness_args=['--fork', '--failat', str(i)],
                                     fate=fate[:120], diag=diag, what='request %d of %d fails: the call neither died through m4ri_die nor was the NULL harmless' % (i, nreq),
                                     signature='c20-%s' % name, op=body.split()[0]))
                    break
    finally:
        bld.remove()
    cov = dict(fault_scenarios=len(sc), fault_positions=total_positions, faults_fired=fired, requests_per_scenario=per, fault_samples=samples)
    return dict(coverage=cov, violations=viol)


# ------------------------------------------------------------------------------------------------ C15
ALLOW_STATICS = {'m4ri_codebook', 'log2_ceil_table', 'transpose_mask'}


def static_inventory(bld):
    """writable static-storage symbols (data/bss) of the library objects"""
    out = []
    for o in bld.objs:
        r = subprocess.run(['nm', '--defined-only', o], capture_output=True, text=True)
        for line in r.stdout.splitlines():
            p = line.split()
            if len(p) == 3 and p[1] in 'bBdDcCsS':
                name = p[2]
                if name.startswith('.') or name.startswith('__gcov') or name.startswith('__asan') or name.startswith('__tsan'):
                    continue
                out.append((os.path.basename(o), p[1], name))
    return out


def c15(tier, seed):
    viol = []
    cov = {}
    cfg = B.thread_safe(B.DEFAULT_CFG)
    # (1) inventory obligation: no writable statics beyond the allow-list in the thread-safe configuration
    bld = B.Build(cfg=cfg, harness=None)
    try:
        inv = static_inventory(bld)
    finally:
        bld.remove()
    extra = [x for x in inv if re.sub(r'\.\d+$', '', x[2]) not in ALLOW_STATICS]
    cov['static_inventory'] = ['%s:%s:%s' % x for x in inv]
    if extra:
        viol.append(dict(kind='static-inventory', what='writable static storage in the thread-safe build beyond the allow-list', symbols=['%s:%s:%s' % x for x in extra],
                         signature='c15-statics', op='inventory'))
    # (2) thread harness: sequential == concurrent per thread, under TSan and plain
    runs = []
    plans = [(2, 12, 150), (4, 12, 150), (8, 8, 120), (16, 5, 100)] if tier == 'quick' else \
            [(2, 40, 200), (3, 40, 200), (4, 40, 260), (5, 30, 200), (8, 30, 260), (16, 20, 200)]
    for san in ('thread', None):
        b2 = B.Build(cfg=cfg, sanitize=san, harness='threads.c', wrap=False)
        try:
            for (nt, iters, maxdim) in plans:
                for rep in range(1 if tier == 'quick' else 3):
                    env = dict(os.environ)
                    env['TSAN_OPTIONS'] = 'exitcode=66 halt_on_error=0 report_signal_unsafe=0'
                    r = subprocess.run([b2.exe, str(nt), str(seed * 100 + rep), str(iters), str(maxdim)], capture_output=True, text=True, errors='replace', env=env, timeout=3600)
                    races = r.stderr.count('WARNING: ThreadSanitizer')
                    ok = r.returncode == 0 and 'result ok' in r.stdout and races == 0
                    runs.append(dict(threads=nt, iters=iters, sanitize=san, rc=r.returncode, races=races, ok=ok))
                    if not ok:
                        viol.append(dict(kind='thread-harness', what='per-thread result differs from the sequential one, or a data race was reported',
                                         threads=nt, seed=seed * 100 + rep, iters=iters, maxdim=maxdim, sanitize=san, rc=r.returncode, races=races,
                                         stdout=r.stdout[-1500:], stderr=r.stderr[-3000:], signature='c15-threads', op='threads',
                                         replay='harness/threads.c built thread-safe%s: ./threads %d %d %d %d' % (' with -fsanitize=thread' if san else '', nt, seed * 100 + rep, iters, maxdim)))
                        break
        finally:
            b2.remove()
    cov['thread_runs'] = runs
    cov['thread_jobs'] = sum(r['threads'] for r in runs)
    return dict(coverage=cov, violations=viol)


# ------------------------------------------------------------------------------------------------ C16
def c16_suite(g, tier):
    n = 140 if tier == 'quick' else 1500
    rng = g.rng
    for _ in range(n):
        op = rng.choice(['mul_mp', 'mul_mp', 'addmul_mp', 'mul', 'mul_m4rm', 'echelonize_m4ri_exact', 'echelonize_m4ri'])
        if op in ('mul_mp', 'addmul_mp', 'mul'):
            cutoff = rng.choice([0, 64, 128, 256])
            m, l, nn = (rng.choice([rng.randint(500, 700), rng.randint(513, 640), 128 * rng.randint(2, 5), 128 * rng.randint(2, 5) + rng.randint(1, 127),
                                    rng.randint(86, 140), rng.randint(1, 300)]) for _ in range(3))
            A = g.mat(m, l, kind='dense')
            Bm = g.mat(l, nn, kind='dense')
            C = S.dst(g, m, nn) if op != 'addmul_mp' else g.mat(m, nn, kind='dense')
            g.add(op, '%s %s %s %d' % (C, A, Bm, cutoff), m=m, l=l, n=nn)
        elif op == 'mul_m4rm':
            m, l, nn = rng.randint(513, 1200), rng.randint(60, 200), rng.randint(60, 200)
            g.add(op, '%s %s %s %d' % (S.dst(g, m, nn), g.mat(m, l, kind='dense'), g.mat(l, nn, kind='dense'), rng.randint(0, 8)), m=m)
        else:
            r, c = rng.randint(520, 1100), rng.randint(30, 260)
            rows = S.profile_matrix(g, r, c)
            if op == 'echelonize_m4ri_exact':
                g.add(op, '%s %d %d' % (g.mat(r, c, rows), rng.randint(0, 1), rng.randint(1, 8)), r=r, c=c)
            else:
                g.add(op, '%s %d 0' % (g.mat(r, c, rows), rng.randint(0, 1)), r=r, c=c)


def c16_runs(tier):
    cfgs = [B.with_openmp(B.SMALL_CACHE)] + ([] if tier == 'quick' else [B.with_openmp(B.DEFAULT_CFG), dict(B.with_openmp(B.SMALL_CACHE), sse2=0)])
    threads = [1, 2, 3, 5, 16] if tier == 'quick' else [1, 2, 3, 4, 5, 8, 16]
    out = []
    for cfg in cfgs:
        for t in threads:
            out.append((dict(cfg, env={'OMP_NUM_THREADS': str(t), 'OMP_NESTED': 'true', 'OMP_MAX_ACTIVE_LEVELS': '3'}), None, c16_suite, [], 'same-seed'))
    return out


# ------------------------------------------------------------------------------------------------ C11
def c11(tier, seed):
    """access-trace correspondence of the word-level kernels (vlib/tracecheck.py)"""
    from . import tracecheck as T
    viol = []
    from . import tracecases2 as T2
    cases = T.gen_cases(seed, quick=(tier == 'quick')) + T2.gen_more(seed, tier == 'quick')
    r = T.run(cases)
    for o in r['oob'][:5]:
        viol.append(dict(kind='access-outside-operand', what=o['what'], case=o['case'], signature='c11-trace-' + o['case'].split()[0],
                         op=o['case'].split()[0],
                         replay='harness/trace_drv.c built -O0 -msse2 from /repo; one line "%s" in a case file; valgrind --tool=lackey --trace-mem=yes' % o['case']))
    byop = {}
    for m in r['mismatches']:
        byop.setdefault(m['case'].split()[0], []).append(m)
    for op, ms in sorted(byop.items()):
        m = ms[0]
        viol.append(dict(kind='trace-differs-from-model', tie_only=True, op=op, case=m['case'], count=len(ms), only_code=m['only_code'], only_model=m['only_model'],
                         what='the word accesses of the real kernel differ from the trace model M4ri/Safety.lean (theorems of M4riProofs/Safety.lean no longer describe the code)',
                         signature='c11-tracemodel-' + op))
    cov = dict(trace_cases=r['n'], trace_accesses=r['accesses'], trace_mismatches=len(r['mismatches']), trace_out_of_bounds=len(r['oob']),
               trace_ops=sorted(set(c.split()[0] for c in cases)))
    return dict(coverage=cov, violations=viol)
