"""Rebuild libm4ri objects + the correspondence harness from /repo's working tree into a scratch dir."""
import os, shutil, subprocess, tempfile, re, concurrent.futures as cf

REPO = os.environ.get('VERIF_REPO', '/repo')
VERIF = os.path.dirname(os.path.dirname(os.path.abspath(__file__)))

DEFAULT_CFG = dict(sse2=1, openmp=0, l1=32768, l2=1310720, l3=56623104, mmc=1, mzd_cache=1, png=1)
SMALL_CACHE = dict(DEFAULT_CFG, l1=4096, l2=32768, l3=65536)

def cfg_name(cfg):
    return 'sse%d-omp%d-L%d.%d.%d-mmc%d-hc%d' % (cfg['sse2'], cfg['openmp'], cfg['l1'], cfg['l2'], cfg['l3'],
                                                   cfg['mmc'], cfg['mzd_cache'])

def thread_safe(cfg):
    return dict(cfg, mmc=0, mzd_cache=0)

def with_openmp(cfg):
    # configure.ac: OpenMP forces M4RI_ENABLE_MZD_CACHE=0
    return dict(cfg, openmp=1, mzd_cache=0)

def config_h(cfg):
    src = open(os.path.join(REPO, 'm4ri', 'm4ri_config.h.in')).read()
    sub = {
        'M4RI_HAVE_MM_MALLOC': 1, 'M4RI_HAVE_POSIX_MEMALIGN': 1, 'M4RI_HAVE_SSE2': cfg['sse2'],
        'M4RI_HAVE_OPENMP': cfg['openmp'], 'M4RI_CPU_L1_CACHE': cfg['l1'], 'M4RI_CPU_L2_CACHE': cfg['l2'],
        'M4RI_CPU_L3_CACHE': cfg['l3'], 'M4RI_DEBUG_DUMP': 0, 'M4RI_DEBUG_MZD': 0,
        'M4RI_HAVE_LIBPNG': cfg.get('png', 1), 'CC': 'gcc', 'SIMD_FLAGS': '', 'OPENMP_CFLAGS': '', 'CFLAGS': '',
        'M4RI_ENABLE_MZD_CACHE': cfg['mzd_cache'], 'M4RI_ENABLE_MMC': cfg['mmc'],
    }
    def rep(m):
        k = m.group(1)
        if k not in sub:
            raise RuntimeError('m4ri_config.h.in: unknown substitution @%s@' % k)
        return str(sub[k])
    return re.sub(r'@([A-Za-z0-9_]+)@', rep, src)

class Build:
    """A scratch build of the library in one configuration; remove() deletes it."""
    def __init__(self, cfg=None, sanitize=None, coverage=False, extra_cflags=(), opt='-O1', harness='corr.c',
                 defines=('M4RI_VERIF',), wrap=True):
        self.cfg = dict(cfg or DEFAULT_CFG)
        self.dir = tempfile.mkdtemp(prefix='m4riv-')
        self.sanitize = sanitize
        try:
            self._build(sanitize, coverage, list(extra_cflags), opt, harness, defines, wrap)
        except Exception:
            self.remove()
            raise

    def _build(self, sanitize, coverage, extra, opt, harness, defines, wrap):
        d = self.dir
        os.makedirs(os.path.join(d, 'm4ri'))
        srcdir = os.path.join(REPO, 'm4ri')
        srcs = []
        for f in sorted(os.listdir(srcdir)):
            if f.endswith('.c') or f.endswith('.h'):
                if f in ('m4ri_config.h', 'config.h'):
                    continue
                shutil.copy(os.path.join(srcdir, f), os.path.join(d, 'm4ri', f))
                if f.endswith('.c'):
                    srcs.append(f)
        open(os.path.join(d, 'm4ri', 'm4ri_config.h'), 'w').write(config_h(self.cfg))
        cflags = [opt, '-g', '-DNDEBUG', '-std=gnu99', '-fno-strict-aliasing', '-w'] + ['-D' + x for x in defines]
        if self.cfg['sse2']:
            cflags.append('-msse2')
        else:
            cflags.append('-mno-sse2') if False else None
        cflags = [c for c in cflags if c]
        if self.cfg['openmp']:
            cflags.append('-fopenmp')
        if sanitize:
            cflags += ['-fsanitize=' + sanitize, '-fno-sanitize-recover=all', '-fno-omit-frame-pointer']
        if coverage:
            cflags.append('--coverage')
        cflags += extra
        self.cflags = cflags
        inc = ['-I' + d, '-I' + os.path.join(d, 'm4ri')]
        cc = os.environ.get('VERIF_CC', 'gcc')
        def comp(f):
            o = os.path.join(d, f[:-2] + '.o')
            r = subprocess.run([cc] + cflags + inc + ['-c', os.path.join(d, 'm4ri', f), '-o', o],
                               capture_output=True, text=True)
            if r.returncode != 0:
                raise RuntimeError('compile failed: %s\n%s' % (f, r.stderr[-3000:]))
            return o
        with cf.ThreadPoolExecutor(16) as ex:
            self.objs = list(ex.map(comp, srcs))
        self.cc = cc
        self.inc = inc
        self.exe = None
        if harness:
            self.exe = self.link_harness(harness, wrap=wrap)

    def link_harness(self, harness, wrap=True, name=None, extra=()):
        d = self.dir
        hsrc = os.path.join(VERIF, 'harness', harness)
        exe = os.path.join(d, name or os.path.splitext(harness)[0])
        ld = []
        if wrap:
            ld = ['-Wl,--wrap=malloc,--wrap=calloc,--wrap=realloc,--wrap=free,--wrap=posix_memalign,--wrap=m4ri_die']
        cmd = [self.cc] + self.cflags + self.inc + ['-I' + os.path.join(VERIF, 'harness'), hsrc] + self.objs + \
              ld + list(extra) + ['-lm', '-lpng', '-lpthread', '-o', exe]
        r = subprocess.run(cmd, capture_output=True, text=True)
        if r.returncode != 0:
            raise RuntimeError('harness link failed\n' + r.stderr[-4000:])
        return exe

    def remove(self):
        shutil.rmtree(self.dir, ignore_errors=True)

    def __enter__(self):
        return self

    def __exit__(self, *a):
        self.remove()
