"""C -> Lean translator for the scalar (integer / 64-bit word) parts of /repo/m4ri, through clang's typed AST.

`vlib/translate.py` regenerates constants and a few one-line formulas with a regex/precedence parser.  This module goes
further: it takes whole C functions (and integer *slices* of larger functions) from the CURRENT sources, obtains their
typed AST from `clang-14 -Xclang -ast-dump=json`, and writes them as total Lean 4 functions into
`lean/M4ri/Gen/CFuns.lean`.  `M4riProofs/GenTie.lean` (hand-written, kernel-checked on every check) proves each
generated function equal to the corresponding definition of the hand-written model for ALL arguments in the C domain,
so for these pieces the tie between model and code is a theorem over the translated text instead of a sample of runs.

Semantics of the translation (the translator is in the trusted base; it is small and purely syntax-directed):
  * `int`, `rci_t`, `wi_t`, `long` (signed)                 -> `Int`, unbounded: signed overflow is undefined in C and
                                                              is excluded by the models' size preconditions;
  * `word`, `uint64_t`, `unsigned long (long)`, `size_t`     -> `BitVec 64` (wrap-around arithmetic, exact);
  * `unsigned int`                                           -> `BitVec 32`;
  * `/`, `%` on signed                                       -> `Int.tdiv`, `Int.tmod` (C99 truncation);
  * `<<`, `>>` on signed                                     -> `Int.shiftLeft'` (= `* 2^n`) / `Int.shiftRight` with the
                                                              count's `toNat`;  on words `<<<` / `>>>` with `toNat`
                                                              (a count outside 0..63 is undefined in C; BitVec gives 0
                                                              -- the shift-count theorems of C11 exclude it);
  * `&`, `|`, `^`, `~` on signed                             -> `Int` bit operations (`Int.land` etc., two's complement);
  * comparisons / `&&` / `||` / `!`                          -> `Bool`; used as a number: `if b then 1 else 0`;
  * conversions                                              -> `BitVec.ofInt`, `BitVec.toNat` / `BitVec.toInt` at the
                                                              source/target widths (gcc's modular conversion);
  * `(int)(0.75 * (double)e)`                                -> `Int.tdiv (3 * e) 4` (exact for |e| < 2^50);
  * `(int)sqrt((double)e)`                                   -> `Nat.sqrt e` (exact for 0 <= e < 2^52);
  * locals are immutable `let`s re-bound on assignment; `if` without `return` inside yields the tuple of the
    variables it assigns; `if` whose branches return duplicates the continuation; `for`/`while` (no `break`,
    `continue`, `return` inside) become `CLoop.loop fuel cond body state` over the tuple of assigned variables, where
    `fuel` is given per loop in the catalogue and GenTie proves it sufficient (the loop has stopped) for the stated domain;
  * `switch` whose cases fall through without `break` (Duff-style accumulation): statement p runs iff the matching
    case label is at position <= p; a `default:` that calls `m4ri_die` is out of the domain and translated as "nothing";
  * reads `p[i]` of a pointer parameter -> application of a function parameter `p : Int -> T`; `p + c` as an argument ->
    `fun i => p (i + c)`; `X->field` -> a scalar parameter `X_field`; writes through pointers are NOT supported
    (memory-mutating code stays with the hand-written mirrors and the differential tie).
Anything outside this subset raises `CTransError`: the tie is then reported as broken, never skipped.
"""
import json, os, re, subprocess, tempfile, shutil

REPO = os.environ.get('VERIF_REPO', '/repo')
VERIF = os.path.dirname(os.path.dirname(os.path.abspath(__file__)))
GEN = os.path.join(VERIF, 'lean', 'M4ri', 'Gen')


class CTransError(Exception):
    pass


SIGNED = {'char', 'signed char', 'int', 'rci_t', 'wi_t', 'long', 'long long', 'signed', 'signed int', 'BIT', 'ssize_t', 'ptrdiff_t', 'int64_t', 'int32_t'}
U64 = {'word', 'uint64_t', 'unsigned long', 'unsigned long long', 'size_t', 'long unsigned int', 'uintptr_t'}
U32 = {'unsigned int', 'unsigned', 'uint32_t'}
U8 = {'uint8_t', 'unsigned char'}


def norm_type(q):
    q = re.sub(r'\b(const|volatile|register|static|restrict|__restrict)\b', '', q)
    q = re.sub(r'\s+', ' ', q).strip()
    return q


def kind_of(q):
    """'i' signed integer, 'w' 64-bit unsigned, 'u' 32-bit unsigned, 'd' double, 'p:<k>' pointer to k, else None"""
    q = norm_type(q)
    if q.endswith('*'):
        k = kind_of(q[:-1])
        return 'p:' + (k or '?')
    m = re.match(r'(.*)\[\d*\]$', q)
    if m:
        k = kind_of(m.group(1))
        return 'p:' + (k or '?')
    if q in SIGNED:
        return 'i'
    if q in U64:
        return 'w'
    if q in U32:
        return 'u'
    if q in U8:
        return 'c'
    if q in ('double', 'float'):
        return 'd'
    return None


LTYPE = {'i': 'Int', 'w': 'BitVec 64', 'u': 'BitVec 32', 'c': 'BitVec 8', 'm2': 'Int → Int → BitVec 64', 'b': 'Bool', 'm1i': 'Int → Int', 'm1w': 'Int → BitVec 64',
         'cb': 'Int → Int → Int'}
WIDTH = {'w': 64, 'u': 32, 'c': 8}


def lean_type(k):
    if k.startswith('fn:'):
        return k[3:]
    if k in LTYPE:
        return LTYPE[k]
    if k.startswith('p:') and k[2:] in LTYPE:
        return 'Int → ' + LTYPE[k[2:]]
    raise CTransError('no Lean type for kind %r' % k)


def V(name):
    return 'v_' + name


def clang_ast(tu_dir, cfile, fn, sse=True):
    r = subprocess.run(['clang-14', '-std=gnu99', '-DNDEBUG', '-msse2' if sse else '-DVT_NOSSE', '-w', '-I' + tu_dir, '-I' + os.path.join(tu_dir, 'm4ri'),
                        '-fsyntax-only', '-Xclang', '-ast-dump=json', '-Xclang', '-ast-dump-filter=' + fn,
                        os.path.join(tu_dir, cfile)], capture_output=True, text=True)
    if r.returncode != 0:
        raise CTransError('clang failed on %s: %s' % (cfile, r.stderr[-800:]))
    s = r.stdout
    dec = json.JSONDecoder()
    i = 0
    best = None
    while i < len(s):
        while i < len(s) and s[i].isspace():
            i += 1
        if i >= len(s):
            break
        o, i = dec.raw_decode(s, i)
        if o.get('kind') == 'FunctionDecl' and o.get('name') == fn and \
           any(c.get('kind') == 'CompoundStmt' for c in o.get('inner', [])):
            best = o
    if best is None:
        raise CTransError('%s: definition of %s not found' % (cfile, fn))
    return best


def strip(n):
    """skip parentheses and no-op wrappers"""
    while n.get('kind') in ('ParenExpr', 'ConstantExpr', 'ExprWithCleanups') or \
            (n.get('kind') == 'ImplicitCastExpr' and n.get('castKind') in ('LValueToRValue', 'NoOp', 'FunctionToPointerDecay', 'ArrayToPointerDecay')):
        n = n['inner'][0]
    return n


def qt(n):
    return n.get('type', {}).get('qualType', '')


def normalise_ast(body, fname):
    """source-level rewrites done on the AST before translation (each is an equivalence of C programs):
    (1) a local array `T x[N]` without initialiser whose every use is `x[<literal>]` becomes N scalars `x__0 .. x__(N-1)`;
    (2) `while (v--) S` (S without break/continue at its level) becomes `{ while (v) { v--; S }  v--; }`;
    (3) `while (1) { S; break; }` (no other break/continue of that loop in S) becomes `{ S }`."""
    arrays = {}

    def find_arrays(n):
        if n.get('kind') == 'VarDecl':
            m = re.match(r'(.*)\[(\d+)\]$', n['type']['qualType'])
            init = [c for c in n.get('inner', []) if isinstance(c, dict) and not c.get('kind', '').endswith('Comment')]
            if m and not init and kind_of(m.group(1).strip()) in LTYPE:
                arrays[n['id']] = (n['name'], int(m.group(2)), m.group(1).strip())
        for c in n.get('inner', []):
            if isinstance(c, dict):
                find_arrays(c)
    find_arrays(body)

    def uses_ok(n, parent_ok=False):
        """every reference to a candidate array is the base of a literal subscript"""
        if n.get('kind') == 'ArraySubscriptExpr':
            b = strip(n['inner'][0])
            i = strip(n['inner'][1])
            if b.get('kind') == 'DeclRefExpr' and b['referencedDecl']['id'] in arrays:
                if i.get('kind') != 'IntegerLiteral' or not (0 <= int(i['value']) < arrays[b['referencedDecl']['id']][1]):
                    arrays.pop(b['referencedDecl']['id'])
                return
        if n.get('kind') == 'DeclRefExpr' and n['referencedDecl']['id'] in arrays:
            arrays.pop(n['referencedDecl']['id'])
            return
        for c in n.get('inner', []):
            if isinstance(c, dict):
                uses_ok(c)
    uses_ok(body)

    def level_has(n, kinds):
        """break / continue belonging to THIS loop level (not to a nested loop or switch)"""
        if n.get('kind') in kinds:
            return True
        if n.get('kind') in ('WhileStmt', 'ForStmt', 'DoStmt'):
            return False
        if n.get('kind') == 'SwitchStmt':
            return any(level_has(c, ('ContinueStmt',)) for c in n.get('inner', []) if isinstance(c, dict)) if 'ContinueStmt' in kinds else False
        return any(level_has(c, kinds) for c in n.get('inner', []) if isinstance(c, dict))

    def rw(n):
        if not isinstance(n, dict):
            return n
        if 'inner' in n:
            n['inner'] = [rw(c) for c in n['inner']]
        k = n.get('kind')
        if k == 'DeclStmt':
            new = []
            for d in n.get('inner', []):
                if d.get('kind') == 'VarDecl' and d.get('id') in arrays:
                    nm, cnt, et = arrays[d['id']]
                    for j in range(cnt):
                        new.append(dict(kind='VarDecl', id='%s__%d' % (d['id'], j), name='%s__%d' % (nm, j), type=dict(qualType=et)))
                else:
                    new.append(d)
            n['inner'] = new
            return n
        if k == 'ArraySubscriptExpr':
            b = strip(n['inner'][0])
            if b.get('kind') == 'DeclRefExpr' and b['referencedDecl']['id'] in arrays:
                nm, cnt, et = arrays[b['referencedDecl']['id']]
                j = int(strip(n['inner'][1])['value'])
                return dict(kind='DeclRefExpr', type=dict(qualType=et), valueCategory='lvalue',
                            referencedDecl=dict(id='%s__%d' % (b['referencedDecl']['id'], j), kind='VarDecl', name='%s__%d' % (nm, j),
                                                type=dict(qualType=et)))
            return n
        if k == 'WhileStmt':
            kids = [c for c in n['inner'] if isinstance(c, dict)]
            cond, bd = kids[0], kids[-1]
            c0 = cond
            while c0.get('kind') in ('ParenExpr', 'ImplicitCastExpr'):
                c0 = c0['inner'][0]
            if c0.get('kind') == 'UnaryOperator' and c0.get('opcode') == '--' and c0.get('isPostfix') and \
               c0['inner'][0].get('kind') == 'DeclRefExpr':
                if level_has(bd, ('BreakStmt', 'ContinueStmt')):
                    raise CTransError('%s: while (v--) with break/continue' % fname)
                var = c0['inner'][0]
                ty = var.get('type', dict(qualType='int'))
                rv = dict(kind='ImplicitCastExpr', castKind='LValueToRValue', type=ty, inner=[var])
                zero = dict(kind='IntegerLiteral', value='0', type=dict(qualType='int'))
                ne = dict(kind='BinaryOperator', opcode='!=', type=dict(qualType='int'), inner=[rv, zero])
                dec = dict(kind='UnaryOperator', opcode='--', isPostfix=True, type=ty, inner=[var])
                stmts = list(bd.get('inner', [])) if bd.get('kind') == 'CompoundStmt' else [bd]
                loop = dict(kind='WhileStmt', inner=[ne, dict(kind='CompoundStmt', inner=[dec] + stmts)])
                return dict(kind='CompoundStmt', inner=[loop, dict(dec)], vt_flat=True)
            if c0.get('kind') == 'IntegerLiteral' and c0.get('value') == '1' and bd.get('kind') == 'CompoundStmt':
                stmts = [c for c in bd.get('inner', []) if isinstance(c, dict)]
                if stmts and stmts[-1].get('kind') == 'BreakStmt' and \
                   not any(level_has(c, ('BreakStmt', 'ContinueStmt')) for c in stmts[:-1]):
                    return dict(kind='CompoundStmt', inner=stmts[:-1])
        return n
    return rw(body)


class Fn:
    """translation of one function (or slice)"""

    def __init__(self, tr, name):
        self.tr = tr
        self.name = name
        self.params = []          # (lean name, kind) in order of first appearance
        self.pkind = {}
        self.locals = {}          # C name -> kind
        self.arrays = {}          # local constant arrays: name -> (kind, [lean literals])
        self.loop_no = 0
        self.fuels = []
        self.stride_vars = set()  # locals holding `X->rowstride`
        self.rowptrs = set()      # pointer locals that move from row to row (`p += k * rowstride`): their row is a variable
        self.late_ptrs = set()    # pointer locals declared without initialiser, assigned later
        self.origin = {}          # Lean parameter -> ('scalar', c name) | ('field', struct, field) | ('mem', struct) | ('same', a, b)
        self.ret_mems = []        # memories a value-returning function writes: returned after the value and the out-parameters
        self.outparams = []       # scalar pointer parameters written through `*p = e`: returned after the value
        self.ptrs = {}            # pointer local -> (memory C-ish name, Lean name of its row variable)
        self.ptr_mem = {}         # pre-pass: pointer local -> memory name
        self.pending = []         # postfix side effects of the statement being translated
        self.ret_kind = None
        self.void_outs = None
        self.prelude = ''
        self.malias = {}          # matrix window local -> (root struct parameter, Lean var of row offset, Lean var of word offset)
        self.malias_pre = {}      # pre-pass: matrix window local -> root struct parameter
        self.retlocal = None      # the function returns NULL or this freshly created local matrix
        self.retlocal_outs = []
        self.sbuild = None        # struct-builder mode: the local struct (from mzd_t_malloc) whose fields are the result
        self.sfields = []
        self.salias_len = {}
        self.salias = {}          # struct pointer local -> (base struct parameter, Lean term of the begin offset)
        self.salias_pre = {}      # pre-pass: struct pointer local -> base struct parameter
        self.wfields = set()      # pre-pass: (base struct, field) of array fields written through `X->f[i] = e`
        self.loops = []           # enclosing loops being translated: dict(t=state tuple, inc=[..], brk=flag name or None)
        self.brk_no = 0

    # ------------------------------------------------------------ parameters / free names
    def free(self, lname, kind, origin=None):
        if lname not in self.pkind:
            self.pkind[lname] = kind
            self.params.append((lname, kind))
            self.origin[lname] = origin or ('scalar', lname[2:])
        return lname

    # ------------------------------------------------------------ expressions
    def lit(self, value, k):
        if k == 'i':
            return '(%s : Int)' % value
        return '(%s#%d)' % (value, WIDTH[k])

    def conv(self, e, kf, kt, tq=''):
        """integral conversion of Lean term e from kind kf to kind kt (tq: C type of the target, for the width of a
        signed target: gcc converts modulo 2^N)"""
        if kf == kt:
            return e
        if kf == 'i' and kt in WIDTH:
            m = re.fullmatch(r'\((-?\d+) : Int\)', e)
            if m and int(m.group(1)) >= 0:
                return '(%s#%d)' % (m.group(1), WIDTH[kt])
            return '(BitVec.ofInt %d %s)' % (WIDTH[kt], e)
        if kf in WIDTH and kt == 'i':
            w = 64 if re.search(r'long|ssize_t|ptrdiff_t|int64_t', norm_type(tq)) else 32
            if w == WIDTH[kf]:
                return '(BitVec.toInt %s)' % e
            if w > WIDTH[kf]:
                return '(Int.ofNat (BitVec.toNat %s))' % e
            return '(BitVec.toInt (BitVec.setWidth %d %s))' % (w, e)
        if kf in WIDTH and kt in WIDTH:
            return '(BitVec.setWidth %d %s)' % (WIDTH[kt], e)
        raise CTransError('%s: conversion %s -> %s' % (self.name, kf, kt))

    def expr_kind(self, n):
        k = kind_of(qt(n))
        if k is None:
            raise CTransError('%s: unsupported type %r in %s' % (self.name, qt(n), n.get('kind')))
        return k

    def boolean(self, n):
        """Lean Bool for a C condition"""
        n0 = strip(n)
        k = n0.get('kind')
        if k == 'BinaryOperator' and n0['opcode'] in ('==', '!='):
            def is_null(x):
                x = strip(x)
                while x.get('kind') in ('CStyleCastExpr', 'ImplicitCastExpr', 'ParenExpr'):
                    x = strip(x['inner'][0])
                return x.get('kind') == 'IntegerLiteral' and x.get('value') == '0'
            def unc(x):
                x = strip(x)
                while x.get('kind') in ('CStyleCastExpr', 'ImplicitCastExpr', 'ParenExpr') and \
                        (kind_of(qt(x)) or '').startswith('p:'):
                    x = strip(x['inner'][0])
                return x
            sides = [unc(x) for x in n0['inner']]
            if all((kind_of(qt(x)) or '') == 'p:?' and x.get('kind') == 'DeclRefExpr' for x in sides):
                a, b = [x['referencedDecl']['name'] for x in sides]
                nm = self.free('v_%s__same__%s' % (a, b), 'b', ('same', a, b))
                return nm if n0['opcode'] == '==' else '(!%s)' % nm
            for a_, b_ in ((sides[0], sides[1]), (sides[1], sides[0])):
                if (kind_of(qt(a_)) or '').startswith('p:') and a_.get('kind') == 'DeclRefExpr' and \
                   a_['referencedDecl'].get('kind') == 'ParmVarDecl' and is_null(b_):
                    # a pointer PARAMETER compared with NULL: the translation is for supplied (non-NULL) arguments; the
                    # NULL convention ("allocate the result") is the same code run on a fresh mzd_init matrix
                    return 'false' if n0['opcode'] == '==' else 'true'
        if k == 'BinaryOperator' and n0['opcode'] in ('==', '!=') and \
           all((kind_of(qt(strip(x))) or '') == 'p:?' and strip(x).get('kind') == 'DeclRefExpr' for x in n0['inner']):
            # identity of two struct pointers (e.g. `A == B`): a Boolean parameter
            a, b = [strip(x)['referencedDecl']['name'] for x in n0['inner']]
            nm = self.free('v_%s__same__%s' % (a, b), 'b', ('same', a, b))
            return nm if n0['opcode'] == '==' else '(!%s)' % nm
        if k == 'BinaryOperator' and n0['opcode'] in ('<', '<=', '>', '>=', '==', '!='):
            a, b = n0['inner']
            ka, kb = self.expr_kind(strip_casts_kind(a)), self.expr_kind(strip_casts_kind(b))
            ea, eb = self.value(a), self.value(b)
            op = {'<': '<', '<=': '≤', '>': '>', '>=': '≥', '==': '=', '!=': '≠'}[n0['opcode']]
            return '(decide (%s %s %s))' % (ea, op, eb)
        if k == 'BinaryOperator' and n0['opcode'] in ('&&', '||'):
            a, b = n0['inner']
            return '(%s %s %s)' % (self.boolean(a), n0['opcode'], self.boolean(b))
        if k == 'UnaryOperator' and n0['opcode'] == '!':
            return '(!%s)' % self.boolean(n0['inner'][0])
        if k == 'ImplicitCastExpr' and n0.get('castKind') in ('IntegralCast', 'IntegralToBoolean'):
            return self.boolean(n0['inner'][0])
        e = self.value(n0)
        kk = self.expr_kind(n0)
        return '(decide (%s ≠ %s))' % (e, self.lit(0, kk))

    def value(self, n):
        """Lean term (Int / BitVec) for a C integer expression"""
        n = strip(n)
        k = n.get('kind')
        if k == 'IntegerLiteral':
            return self.lit(n['value'], self.expr_kind(n))
        if k == 'CharacterLiteral':
            return self.lit(n['value'], 'i')
        if k == 'DeclRefExpr':
            name = n['referencedDecl']['name']
            kk = self.expr_kind(n)
            if name in self.locals:
                return V(name)
            if name in self.tr.globals_:
                return self.tr.global_value(name, kk)
            if n['referencedDecl'].get('kind') == 'EnumConstantDecl':
                raise CTransError('%s: enum constant %s' % (self.name, name))
            if kk.startswith('p:'):
                raise CTransError('%s: pointer %s used as a value' % (self.name, name))
            return self.free(V(name), kk)
        if k == 'MemberExpr':
            base = strip(n['inner'][0])
            if base.get('kind') == 'DeclRefExpr' and base['referencedDecl']['name'] == self.sbuild:
                return V('fld_' + n['name'])
            if base.get('kind') == 'DeclRefExpr' and base['referencedDecl']['name'] in self.malias:
                return V('%s_%s' % (base['referencedDecl']['name'], n['name']))
            if base.get('kind') == 'DeclRefExpr':
                nm = '%s_%s' % (base['referencedDecl']['name'], n['name'])
                return self.free(V(nm), self.expr_kind(n), ('field', base['referencedDecl']['name'], n['name']))
            raise CTransError('%s: member expression on a non-variable' % self.name)
        if k == 'ArraySubscriptExpr' and strip(n['inner'][0]).get('kind') not in ('DeclRefExpr', 'MemberExpr'):
            mem, row, idx = self.target(n)
            return '(%s %s %s)' % (self.rmem(mem), row, idx)
        if k == 'ArraySubscriptExpr' and strip(n['inner'][0]).get('kind') == 'MemberExpr' and \
           strip(strip(n['inner'][0])['inner'][0]).get('kind') == 'ArraySubscriptExpr':
            # `m4ri_codebook[k]->inc[i]` / `->ord[i]`: the global code book is a pair of function parameters
            mb = strip(n['inner'][0])
            sub = strip(mb['inner'][0])
            g_ = strip(sub['inner'][0])
            if g_.get('kind') == 'DeclRefExpr' and g_['referencedDecl']['name'] == 'm4ri_codebook' and mb['name'] in ('inc', 'ord'):
                nm = self.free('v_codebook_' + mb['name'], 'cb', ('global', 'codebook_' + mb['name']))
                return '(%s %s %s)' % (nm, self.as_int(sub['inner'][1]), self.as_int(n['inner'][1]))
            raise CTransError('%s: unsupported global array' % self.name)
        if k == 'ArraySubscriptExpr' and strip(n['inner'][0]).get('kind') == 'MemberExpr':
            # `P->values[i]`: an array field of a struct parameter -> function parameter (a memory if the function writes it)
            mem, idx, x, f = self.field_cell(n)
            if mem:
                return '(%s %s)' % (V(mem), idx)
            fnm = '%s_%s' % (x, f)
            ek = self.expr_kind(n)
            self.free(V(fnm), 'p:' + ek, ('field', x, f))
            return '(%s %s)' % (V(fnm), idx)
        if k == 'ArraySubscriptExpr':
            base, idx = n['inner']
            base = strip(base)
            if base.get('kind') != 'DeclRefExpr':
                raise CTransError('%s: subscript of a non-variable' % self.name)
            nm = base['referencedDecl']['name']
            ek = self.expr_kind(n)
            ie = self.as_int(idx)
            if nm in self.arrays:
                ak, vals = self.arrays[nm]
                return '(CLoop.tab [%s] %s %s)' % (', '.join(vals), self.lit(0, ak), ie)
            if nm in self.ptrs:
                mem, row = self.ptrs[nm]
                sm = self.stride_mult(idx)
                if sm:
                    return '(%s (%s + %s) %s)' % (self.rmem(mem), row, sm, V(nm))
                return '(%s %s (%s + %s))' % (self.rmem(mem), row, V(nm), ie)
            if nm in self.locals:
                raise CTransError('%s: subscript of local %s' % (self.name, nm))
            self.free(V(nm), 'p:' + ek)
            return '(%s %s)' % (V(nm), ie)
        if k in ('ImplicitCastExpr', 'CStyleCastExpr'):
            ck = n.get('castKind')
            inner = n['inner'][0]
            if ck in ('IntegralCast',):
                kf = self.expr_kind(strip(inner))
                kt = self.expr_kind(n)
                return self.conv(self.value(inner), kf, kt, qt(n))
            if ck in ('NoOp', 'LValueToRValue'):
                return self.value(inner)
            if ck == 'FloatingToIntegral':
                return self.float_to_int(inner)
            raise CTransError('%s: cast kind %s' % (self.name, ck))
        if k == 'UnaryOperator' and n['opcode'] == '*' and strip(n['inner'][0]).get('kind') == 'DeclRefExpr' and \
           strip(n['inner'][0])['referencedDecl']['name'] in self.outparams:
            return V('deref_' + strip(n['inner'][0])['referencedDecl']['name'])
        if k == 'UnaryOperator' and n['opcode'] == '*':
            mem, row, idx = self.target(n)
            return '(%s %s %s)' % (self.rmem(mem), row, idx)
        if k == 'UnaryOperator' and n['opcode'] in ('++', '--'):
            t = strip(n['inner'][0])
            if t.get('kind') != 'DeclRefExpr' or t['referencedDecl']['name'] not in self.locals or \
               self.locals[t['referencedDecl']['name']] != 'i':
                raise CTransError('%s: ++/-- inside an expression on a non-integer' % self.name)
            nm = t['referencedDecl']['name']
            d = '+' if n['opcode'] == '++' else '-'
            if any(x[0] == nm for x in self.pending):
                raise CTransError('%s: two side effects on %s in one expression' % (self.name, nm))
            self.pending.append((nm, d))
            if n.get('isPostfix'):
                return V(nm)
            return '(%s %s (1 : Int))' % (V(nm), d)
        if k == 'UnaryOperator':
            op = n['opcode']
            kk = self.expr_kind(n)
            a = n['inner'][0]
            if op == '-':
                return '(- %s)' % self.value(a)
            if op == '+':
                return self.value(a)
            if op == '~':
                return '(~~~ %s)' % self.value(a)
            if op == '!':
                return '(if %s then (1 : Int) else 0)' % self.boolean(n)
            raise CTransError('%s: unary operator %s in an expression' % (self.name, op))
        if k == 'BinaryOperator':
            op = n['opcode']
            a, b = n['inner']
            if op in ('<', '<=', '>', '>=', '==', '!=', '&&', '||'):
                return '(if %s then (1 : Int) else 0)' % self.boolean(n)
            kk = self.expr_kind(n)
            if op in ('<<', '>>'):
                ea = self.value(a)
                sh = '(%s).toNat' % self.as_int(b)
                if kk == 'i':
                    return ('(CLoop.ishl %s %s)' if op == '<<' else '(%s >>> %s)') % (ea, sh)
                return '(%s %s %s)' % (ea, '<<<' if op == '<<' else '>>>', sh)
            ea, eb = self.value(a), self.value(b)
            if kk == 'i':
                m = {'+': '(%s + %s)', '-': '(%s - %s)', '*': '(%s * %s)', '/': '(Int.tdiv %s %s)', '%': '(Int.tmod %s %s)',
                     '&': '(CLoop.iand %s %s)', '|': '(CLoop.ior %s %s)', '^': '(CLoop.ixor %s %s)'}
            else:
                m = {'+': '(%s + %s)', '-': '(%s - %s)', '*': '(%s * %s)', '/': '(%s / %s)', '%': '(%s %% %s)',
                     '&': '(%s &&& %s)', '|': '(%s ||| %s)', '^': '(%s ^^^ %s)'}
            if op not in m:
                raise CTransError('%s: binary operator %s' % (self.name, op))
            return m[op] % (ea, eb)
        if k == 'ConditionalOperator':
            c, a, b = n['inner']
            return '(if %s then %s else %s)' % (self.boolean(c), self.value(a), self.value(b))
        if k == 'CallExpr':
            callee = strip(n['inner'][0])
            if callee.get('kind') != 'DeclRefExpr':
                raise CTransError('%s: indirect call' % self.name)
            fname = callee['referencedDecl']['name']
            if fname not in self.tr.known_fns:
                raise CTransError('%s: call of untranslated function %s' % (self.name, fname))
            sig = self.tr.sigs.get(fname)
            if sig is None or sig['void_outs'] is not None or sig['outparams'] or sig['ret_mems']:
                raise CTransError('%s: call of %s inside an expression' % (self.name, fname))
            return '(%s %s)' % (self.tr.known_fns[fname], ' '.join(self.call_args(sig, n['inner'][1:])))
        raise CTransError('%s: unsupported expression kind %s' % (self.name, k))

    def plen(self, y):
        """length of a permutation window (`end - begin` of its mzp_init_window)"""
        e_, b_ = self.salias_len[y]
        return '(%s - %s)' % (self.value(e_), self.value(b_))

    def rmem(self, mem):
        """the Lean term a READ through memory `mem` looks at: for a const operand X that the caller may pass identical to the
        destination D (catalogue option alias={X: D}) it is D's current memory when the Boolean parameter `v_D__same__X` holds"""
        al = getattr(self, 'alias', {})
        if mem.startswith('mem_') and mem[4:] in al:
            x, d = mem[4:], al[mem[4:]]
            dm = 'mem_' + d
            if dm not in self.locals:
                self.locals[dm] = 'm2'
                self.free(V(dm), 'm2', ('mem', d))
            flag = self.free('v_%s__same__%s' % (d, x), 'b', ('same', d, x))
            return '(if %s then %s else %s)' % (flag, V(dm), V(mem))
        return V(mem)

    def ptr_swap(self, s):
        """`if (c) { T const *tmp = X; X = Y; Y = tmp; }` for two struct-pointer PARAMETERS X, Y: (c, X, Y) or None"""
        if s.get('kind') != 'IfStmt':
            return None
        kids = [c for c in s.get('inner', []) if isinstance(c, dict)]
        if len(kids) != 2 or kids[1].get('kind') != 'CompoundStmt':
            return None
        b = [c for c in kids[1].get('inner', []) if isinstance(c, dict)]
        if len(b) != 3 or b[0].get('kind') != 'DeclStmt':
            return None
        ds = [d for d in b[0].get('inner', []) if d.get('kind') == 'VarDecl']
        if len(ds) != 1 or kind_of(ds[0]['type']['qualType']) != 'p:?':
            return None
        tmp = ds[0]['name']
        init = [c for c in ds[0].get('inner', []) if isinstance(c, dict)]

        def var(e):
            e = strip(e)
            while e.get('kind') in ('ImplicitCastExpr', 'CStyleCastExpr', 'ParenExpr'):
                e = strip(e['inner'][0])
            return e['referencedDecl'] if e.get('kind') == 'DeclRefExpr' else None
        if not init or not var(init[0]):
            return None
        x = var(init[0])
        for a_ in b[1:]:
            if a_.get('kind') != 'BinaryOperator' or a_.get('opcode') != '=':
                return None
        l1, r1, l2, r2 = var(b[1]['inner'][0]), var(b[1]['inner'][1]), var(b[2]['inner'][0]), var(b[2]['inner'][1])
        if not (l1 and r1 and l2 and r2):
            return None
        if l1['name'] != x['name'] or l2['name'] != r1['name'] or r2['name'] != tmp:
            return None
        if x.get('kind') != 'ParmVarDecl' or r1.get('kind') != 'ParmVarDecl':
            return None
        return kids[0], x['name'], r1['name']

    def swap_lets(self, cond, x, y, pad):
        """the exchange of two struct-pointer parameters: every component of x and y the function uses (memory, header fields,
        identity flags with the destination) is exchanged when `cond` holds"""
        c = self.boolean(cond)
        out = '%slet v__swap : Bool := %s\n' % (pad, c)
        fields = {}

        def scan(n):
            if isinstance(n, dict):
                if n.get('kind') == 'MemberExpr':
                    b = strip(n['inner'][0])
                    while b.get('kind') in ('ImplicitCastExpr', 'CStyleCastExpr', 'ParenExpr'):
                        b = strip(b['inner'][0])
                    if b.get('kind') == 'DeclRefExpr' and b['referencedDecl']['name'] in (x, y):
                        fk = self.expr_kind(n)
                        if not (fk or '').startswith('p:'):
                            fields[n['name']] = fk
                for c_ in n.get('inner', []):
                    scan(c_)
        scan(self.body_ast)
        for f in sorted(fields):
            a = self.free(V('%s_%s' % (x, f)), fields[f], ('field', x, f))
            b = self.free(V('%s_%s' % (y, f)), fields[f], ('field', y, f))
            t = LTYPE[fields[f]]
            out += '%slet (%s, %s) : (%s) × (%s) := if v__swap then (%s, %s) else (%s, %s)\n' % (pad, a, b, t, t, b, a, a, b)
        for z in (x, y):
            m = 'mem_' + z
            if m not in self.locals:
                self.locals[m] = 'm2'
                self.free(V(m), 'm2', ('mem', z))
        a, b, t = V('mem_' + x), V('mem_' + y), LTYPE['m2']
        out += '%slet (%s, %s) : (%s) × (%s) := if v__swap then (%s, %s) else (%s, %s)\n' % (pad, a, b, t, t, b, a, a, b)
        al = getattr(self, 'alias', {})
        if (x in al) != (y in al) or (x in al and al[x] != al[y]):
            raise CTransError('%s: exchange of %s and %s with different alias declarations' % (self.name, x, y))
        if x in al:
            d = al[x]
            a = self.free('v_%s__same__%s' % (d, x), 'b', ('same', d, x))
            b = self.free('v_%s__same__%s' % (d, y), 'b', ('same', d, y))
            out += '%slet (%s, %s) : Bool × Bool := if v__swap then (%s, %s) else (%s, %s)\n' % (pad, a, b, b, a, a, b)
        return out

    def mroot(self, name):
        """(root struct parameter, Lean row offset, Lean word offset) of a matrix name (parameter or window local)"""
        if name in self.malias:
            return self.malias[name]
        return name, '(0 : Int)', '(0 : Int)'

    def mfield(self, name, f, kind):
        if name in self.malias:
            return V('%s_%s' % (name, f))
        return self.free(V('%s_%s' % (name, f)), kind, ('field', name, f))

    def mview(self, name):
        """`CLoop.MView` of a matrix name"""
        root, r0, w0 = self.mroot(name)
        mem = 'mem_' + root
        if mem not in self.locals:
            self.locals[mem] = 'm2'
            self.free(V(mem), 'm2', ('mem', root))
        m = V(mem) if name not in self.malias else '(CLoop.view %s %s %s)' % (V(mem), r0, w0)
        return '(CLoop.MView.mk %s %s %s %s %s)' % (m, self.mfield(name, 'nrows', 'i'), self.mfield(name, 'ncols', 'i'),
                                                   self.mfield(name, 'width', 'i'), self.mfield(name, 'high_bitmask', 'w'))

    def struct_arg_name(self, an):
        a = strip(an)
        while a.get('kind') in ('CStyleCastExpr', 'ImplicitCastExpr'):
            a = strip(a['inner'][0])
        if a.get('kind') != 'DeclRefExpr':
            raise CTransError('%s: struct argument that is not a variable (%s)' % (self.name, a.get('kind')))
        return a['referencedDecl']['name']

    def call_args(self, sig, argnodes):
        """Lean arguments for a call of a translated function: scalar C parameters from the argument expressions;
        the callee's struct fields / memories / identity flags from the caller's struct argument of the same position"""
        cparams = sig['cparams']
        if len(cparams) != len(argnodes):
            raise CTransError('%s: arity of call' % self.name)
        bind = {}
        for (cn, ck), an in zip(cparams, argnodes):
            if ck == 'p:?':
                a = strip(an)
                while a.get('kind') in ('CStyleCastExpr', 'ImplicitCastExpr'):
                    a = strip(a['inner'][0])
                if a.get('kind') != 'DeclRefExpr':
                    raise CTransError('%s: struct argument that is not a parameter' % self.name)
                bind[cn] = ('struct', a['referencedDecl']['name'])
            else:
                bind[cn] = ('val', self.arg(an))
        out = []
        for (ln, lk, org) in sig['params']:
            if org[0] == 'scalar':
                if org[1] not in bind or bind[org[1]][0] != 'val':
                    raise CTransError('%s: cannot bind callee parameter %s' % (self.name, ln))
                out.append(bind[org[1]][1])
            elif org[0] == 'field':
                y = bind[org[1]][1]
                if y in self.malias:
                    out.append(V('%s_%s' % (y, org[2])))
                elif y in self.salias:
                    base, beg = self.salias[y]
                    if org[2] == 'length':
                        out.append(self.plen(y))
                    elif org[2] == 'values':
                        if (base, 'values') in self.wfields:
                            mem = 'mem1_%s_values' % base
                            if mem not in self.locals:
                                self.locals[mem] = 'm1i'
                                self.free(V(mem), 'm1i', ('field', base, 'values'))
                            out.append('(fun i => %s (%s + i))' % (V(mem), beg))
                        else:
                            out.append('(fun i => %s (%s + i))' % (self.free(V('%s_values' % base), lk, ('field', base, 'values')), beg))
                    else:
                        raise CTransError('%s: field %s of a permutation window' % (self.name, org[2]))
                else:
                    out.append(self.free(V('%s_%s' % (y, org[2])), lk, ('field', y, org[2])))
            elif org[0] == 'mem':
                y = bind[org[1]][1]
                root, r0, w0 = self.mroot(y)
                mem = 'mem_' + root
                if mem not in self.locals:
                    self.locals[mem] = 'm2'
                    self.free(V(mem), 'm2', ('mem', root))
                out.append(self.rmem(mem) if y not in self.malias else '(CLoop.view %s %s %s)' % (V(mem), r0, w0))
            elif org[0] == 'global':
                out.append(self.free('v_' + org[1], lk, org))
            elif org[0] == 'extern':
                out.append(self.free('f_' + org[1], lk, org))
            elif org[0] == 'same':
                ya, yb = bind[org[1]][1], bind[org[2]][1]
                if ya == yb:
                    out.append('true')
                elif ya in self.malias or yb in self.malias:
                    out.append('false')      # a freshly created window header is never identical to another header
                else:
                    out.append(self.free('v_%s__same__%s' % (ya, yb), 'b', ('same', ya, yb)))
            else:
                raise CTransError('%s: parameter origin %r' % (self.name, org))
        return out

    def field_cell(self, n):
        """for `X->f[i]`: (memory name or None, Lean index term, base struct, field)"""
        mb = strip(n['inner'][0])
        sb = strip(mb['inner'][0])
        if sb.get('kind') != 'DeclRefExpr':
            raise CTransError('%s: array field of a non-parameter' % self.name)
        x = sb['referencedDecl']['name']
        idx = self.as_int(n['inner'][1])
        if x in self.salias:
            base, beg = self.salias[x]
            idx = '(%s + %s)' % (beg, idx)
            x = base
        if (x, mb['name']) in self.wfields:
            mem = 'mem1_%s_%s' % (x, mb['name'])
            if mem not in self.locals:
                self.locals[mem] = 'm1i'
                self.free(V(mem), 'm1i', ('field', x, mb['name']))
            return mem, idx, x, mb['name']
        return None, idx, x, mb['name']

    def stride_mult(self, n):
        """k (a Lean Int) if the integer expression `n` is k * rowstride of the matrix (rows lie `rowstride` words apart, so a
        pointer moved by k * rowstride points k rows further down at the same word), else None"""
        n = strip(n)
        while n.get('kind') in ('CStyleCastExpr', 'ImplicitCastExpr', 'ParenExpr'):
            n = strip(n['inner'][0])
        if n.get('kind') == 'DeclRefExpr' and n['referencedDecl']['name'] in self.stride_vars:
            return '(1 : Int)'
        if n.get('kind') == 'MemberExpr' and n.get('name') == 'rowstride':
            return '(1 : Int)'
        if n.get('kind') == 'BinaryOperator' and n.get('opcode') == '*':
            a, b = n['inner']
            for x, y in ((a, b), (b, a)):
                x0 = strip(x)
                while x0.get('kind') in ('CStyleCastExpr', 'ImplicitCastExpr', 'ParenExpr'):
                    x0 = strip(x0['inner'][0])
                if x0.get('kind') == 'IntegerLiteral' and self.stride_mult(y) == '(1 : Int)':
                    return '(%s : Int)' % x0['value']
        return None

    def ptr_expr(self, n):
        """(memory name, Lean row term, Lean offset term) of a pointer-valued expression: a pointer local, a call of
        mzd_row / mzd_row_const, or one of these plus/minus an integer"""
        n = strip(n)
        while n.get('kind') in ('CStyleCastExpr', 'ImplicitCastExpr'):
            n = strip(n['inner'][0])
        if n.get('kind') == 'DeclRefExpr' and n['referencedDecl']['name'] in self.ptrs:
            nm = n['referencedDecl']['name']
            mem, row = self.ptrs[nm]
            return mem, row, V(nm)
        mc = self.mzd_row_call(n)
        if mc:
            root, r0, w0 = self.mroot(mc[0])
            mem = 'mem_' + root
            if mem not in self.locals:
                self.locals[mem] = 'm2'
                self.free(V(mem), 'm2', ('mem', root))
            if mc[0] in self.malias:
                return mem, '(%s + %s)' % (r0, self.value(mc[1])), w0
            return mem, self.value(mc[1]), '(0 : Int)'
        if n.get('kind') == 'BinaryOperator' and n['opcode'] in ('+', '-'):
            mem, row, off = self.ptr_expr(n['inner'][0])
            return mem, row, '(%s %s %s)' % (off, n['opcode'], self.as_int(n['inner'][1]))
        raise CTransError('%s: unsupported pointer expression' % self.name)

    def target(self, n):
        """(memory name, Lean row term, Lean index term) of the cell an lvalue `p[i]` / `*p` / `*p++` denotes"""
        n = strip(n)
        if n.get('kind') == 'ArraySubscriptExpr' and strip(n['inner'][0]).get('kind') == 'MemberExpr':
            mem, idx, x, f = self.field_cell(n)
            if not mem:
                raise CTransError('%s: store into an array field not seen by the pre-pass' % self.name)
            return mem, '', idx
        if n.get('kind') == 'ArraySubscriptExpr' and not (strip(n['inner'][0]).get('kind') == 'DeclRefExpr'):
            mem, row, off = self.ptr_expr(n['inner'][0])
            return mem, row, '(%s + %s)' % (off, self.as_int(n['inner'][1]))
        if n.get('kind') == 'ArraySubscriptExpr':
            base, idx = n['inner']
            base = strip(base)
            if base.get('kind') == 'DeclRefExpr' and base['referencedDecl']['name'] in self.ptrs:
                nm = base['referencedDecl']['name']
                mem, row = self.ptrs[nm]
                sm = self.stride_mult(idx)
                if sm:
                    return mem, '(%s + %s)' % (row, sm), V(nm)
                return mem, row, '(%s + %s)' % (V(nm), self.as_int(idx))
        if n.get('kind') == 'UnaryOperator' and n['opcode'] == '*':
            a = strip(n['inner'][0])
            if a.get('kind') == 'DeclRefExpr' and a['referencedDecl']['name'] in self.ptrs:
                nm = a['referencedDecl']['name']
                mem, row = self.ptrs[nm]
                return mem, row, V(nm)
            if a.get('kind') == 'UnaryOperator' and a['opcode'] in ('++', '--'):
                t = strip(a['inner'][0])
                if t.get('kind') == 'DeclRefExpr' and t['referencedDecl']['name'] in self.ptrs:
                    nm = t['referencedDecl']['name']
                    mem, row = self.ptrs[nm]
                    return mem, row, self.value(a)
        raise CTransError('%s: store/load through an unsupported pointer expression' % self.name)

    def as_int(self, n):
        """an index / shift count as a Lean Int"""
        kk = self.expr_kind(strip(n))
        e = self.value(n)
        return e if kk == 'i' else '(Int.ofNat (BitVec.toNat %s))' % e

    def arg(self, n):
        n0 = strip(n)
        kk = kind_of(qt(n0)) or ''
        if kk.startswith('p:'):
            # pointer argument: a pointer parameter, possibly offset by a constant
            if n0.get('kind') == 'DeclRefExpr' and n0['referencedDecl']['name'] in self.ptrs and \
               self.locals.get(self.ptrs[n0['referencedDecl']['name']][0]) == 'm1w':
                return V(self.ptrs[n0['referencedDecl']['name']][0])      # a local array of words: its current contents
            if n0.get('kind') == 'DeclRefExpr':
                nm = n0['referencedDecl']['name']
                self.free(V(nm), kk)
                return V(nm)
            if n0.get('kind') == 'BinaryOperator' and n0['opcode'] == '+':
                p, off = n0['inner']
                p = strip(p)
                if p.get('kind') == 'DeclRefExpr':
                    nm = p['referencedDecl']['name']
                    self.free(V(nm), kk)
                    return '(fun i => %s (i + %s))' % (V(nm), self.as_int(off))
            raise CTransError('%s: unsupported pointer argument' % self.name)
        return self.value(n)

    def float_int(self, n):
        """Lean Int term for a double-typed C expression that is integer-valued by construction (integer literals,
        converted integers, their sums / differences / products; exact below 2^53)"""
        n = strip(n)
        k = n.get('kind')
        if k == 'FloatingLiteral':
            v = float(n['value'])
            if v != int(v):
                raise CTransError('%s: non-integral floating literal %s' % (self.name, n['value']))
            return '(%d : Int)' % int(v)
        if k in ('CStyleCastExpr', 'ImplicitCastExpr') and n.get('castKind') == 'IntegralToFloating':
            return self.as_int(n['inner'][0])
        if k in ('CStyleCastExpr', 'ImplicitCastExpr') and n.get('castKind') in ('NoOp', 'FloatingCast'):
            return self.float_int(n['inner'][0])
        if k == 'BinaryOperator' and n['opcode'] in ('*', '+', '-'):
            return '(%s %s %s)' % (self.float_int(n['inner'][0]), n['opcode'], self.float_int(n['inner'][1]))
        raise CTransError('%s: unsupported floating-point expression' % self.name)

    def float_to_int(self, n):
        """(int)(0.75 * (double) e)  ->  Int.tdiv (3 * e) 4"""
        n = strip(n)
        if n.get('kind') == 'BinaryOperator' and n['opcode'] == '*':
            a, b = [strip(x) for x in n['inner']]
            if a.get('kind') == 'FloatingLiteral' and float(a['value']) == 0.75 and \
               b.get('kind') == 'ImplicitCastExpr' and b.get('castKind') == 'IntegralToFloating':
                return '(Int.tdiv (3 * %s) 4)' % self.value(b['inner'][0])
        if n.get('kind') == 'CallExpr':
            callee = strip(n['inner'][0])
            if callee.get('kind') == 'DeclRefExpr' and callee['referencedDecl']['name'] == 'sqrt' and len(n['inner']) == 2:
                # (int)sqrt(e) = floor(sqrt(e)) exactly for an integer-valued 0 <= e < 2^52 (correctly rounded sqrt)
                return '(Int.ofNat (Nat.sqrt (%s).toNat))' % self.float_int(n['inner'][1])
        raise CTransError('%s: unsupported floating-point expression' % self.name)

    # ------------------------------------------------------------ statements
    def assigned(self, stmts):
        """C names (declared outside `stmts`) that `stmts` assign"""
        out = []
        declared = set()

        def walk(n):
            k = n.get('kind')
            if k == 'DeclStmt':
                for d in n.get('inner', []):
                    if d.get('kind') == 'VarDecl':
                        for c in d.get('inner', []):
                            walk(c)
                        declared.add(d['name'])
                return
            if (k == 'BinaryOperator' and n['opcode'] == '=') or k == 'CompoundAssignOperator' or \
               (k == 'UnaryOperator' and n['opcode'] in ('++', '--')):
                t = strip(n['inner'][0])
                if t.get('kind') == 'DeclRefExpr':
                    nm = t['referencedDecl']['name']
                    if k == 'CompoundAssignOperator' and nm in self.rowptrs and self.stride_mult(n['inner'][1]):
                        nm = nm + '__row'
                        if nm[:-5] in declared:
                            declared.add(nm)
                    if nm not in declared and nm not in out:
                        out.append(nm)
                    if k == 'BinaryOperator' and nm in self.late_ptrs and nm not in declared and nm + '__row' not in out:
                        out.append(nm + '__row')
                elif n.get('kind') != 'UnaryOperator' and t.get('kind') == 'UnaryOperator' and t.get('opcode') == '*' and \
                        strip(t['inner'][0]).get('kind') == 'DeclRefExpr' and strip(t['inner'][0])['referencedDecl']['name'] in self.outparams:
                    nm = 'deref_' + strip(t['inner'][0])['referencedDecl']['name']
                    if nm not in out:
                        out.append(nm)
                elif n.get('kind') != 'UnaryOperator' and t.get('kind') == 'MemberExpr' and self.sbuild and \
                        strip(t['inner'][0]).get('kind') == 'DeclRefExpr' and strip(t['inner'][0])['referencedDecl']['name'] == self.sbuild:
                    nm = 'fld_' + t['name']
                    if nm not in out:
                        out.append(nm)
                elif n.get('kind') != 'UnaryOperator' and t.get('kind') == 'ArraySubscriptExpr' and \
                        strip(t['inner'][0]).get('kind') == 'MemberExpr':
                    mb = strip(t['inner'][0]); sb = strip(mb['inner'][0])
                    if sb.get('kind') == 'DeclRefExpr':
                        nm = 'mem1_%s_%s' % (self.base_of(sb['referencedDecl']['name']), mb['name'])
                        if nm not in out:
                            out.append(nm)
                elif n.get('kind') != 'UnaryOperator':
                    # a store through a pointer expression: `p[i]`, `*p`, `*p++`, `mzd_row(X, r)[i]`, `(p + k)[i]` ...
                    b = t
                    if b.get('kind') == 'ArraySubscriptExpr':
                        b = strip(b['inner'][0])
                    elif b.get('kind') == 'UnaryOperator' and b.get('opcode') == '*':
                        b = strip(b['inner'][0])
                        if b.get('kind') == 'UnaryOperator' and b.get('opcode') in ('++', '--'):
                            b = strip(b['inner'][0])
                    else:
                        raise CTransError('%s: assignment to an unsupported lvalue (%s)' % (self.name, b.get('kind')))
                    while True:
                        while b.get('kind') in ('CStyleCastExpr', 'ImplicitCastExpr', 'ParenExpr'):
                            b = strip(b['inner'][0])
                        if b.get('kind') == 'BinaryOperator' and b.get('opcode') in ('+', '-'):
                            b = strip(b['inner'][0])
                            continue
                        break
                    mc_ = self.mzd_row_call(b)
                    mem = None
                    if mc_:
                        mem = 'mem_' + self.malias_pre.get(mc_[0], mc_[0])
                    elif b.get('kind') == 'DeclRefExpr' and b['referencedDecl']['name'] in self.ptr_mem:
                        mem = self.ptr_mem[b['referencedDecl']['name']]
                    elif b.get('kind') == 'DeclRefExpr' and b['referencedDecl']['name'] in self.arrays:
                        mem = None        # a local constant array is never written (checked at translation)
                    else:
                        raise CTransError('%s: store through a pointer whose memory is unknown' % self.name)
                    if mem and mem not in out:
                        out.append(mem)
            if k == 'CallExpr' and strip(n['inner'][0]).get('referencedDecl', {}).get('name') in ('memcpy', '__builtin_memcpy', '__builtin___memcpy_chk'):
                d_ = strip(n['inner'][1])
                while d_.get('kind') in ('CStyleCastExpr', 'ImplicitCastExpr'):
                    d_ = strip(d_['inner'][0])
                while d_.get('kind') == 'BinaryOperator' and d_['opcode'] in ('+', '-'):
                    d_ = strip(d_['inner'][0])
                mc_ = self.mzd_row_call(d_)
                nm_ = None
                if mc_:
                    nm_ = 'mem_' + self.malias_pre.get(mc_[0], mc_[0])
                elif d_.get('kind') == 'DeclRefExpr' and d_['referencedDecl']['name'] in self.ptr_mem:
                    nm_ = self.ptr_mem[d_['referencedDecl']['name']]
                if nm_ and nm_ not in out:
                    out.append(nm_)
            if k == 'CallExpr':
                cal = strip(n['inner'][0])
                sig = self.tr.sigs.get(cal.get('referencedDecl', {}).get('name')) if cal.get('kind') == 'DeclRefExpr' and \
                    cal.get('referencedDecl', {}).get('name') not in (self.tr.externs or {}) else None
                def root_of(node):
                    a = strip(node)
                    while a.get('kind') in ('CStyleCastExpr', 'ImplicitCastExpr'):
                        a = strip(a['inner'][0])
                    if a.get('kind') != 'DeclRefExpr':
                        return None
                    x = a['referencedDecl']['name']
                    return self.malias_pre.get(x, x)
                if sig and (sig['void_outs'] or sig.get('ret_mems')):
                    for m_ in (sig['void_outs'] or []) + (sig.get('ret_mems') or []):
                        if not m_.startswith('mem_'):
                            continue
                        pos = [i for i, (cn, ck) in enumerate(sig['cparams']) if cn == m_[4:]][0]
                        x = root_of(n['inner'][1 + pos])
                        if x and ('mem_' + x) not in out:
                            out.append('mem_' + x)
                ext = (self.tr.externs or {}).get(cal.get('referencedDecl', {}).get('name')) if cal.get('kind') == 'DeclRefExpr' else None
                if ext and 'alts' in ext:
                    ext = self.pick_ext(cal['referencedDecl']['name'], n['inner'][1:])
                if ext:
                    for i in ext.get('writes', ()):
                        x = root_of(n['inner'][1 + i])
                        if x and ('mem_' + x) not in out:
                            out.append('mem_' + x)
                    for i in ext.get('pwrites', ()):
                        a = strip(n['inner'][1 + i])
                        while a.get('kind') in ('CStyleCastExpr', 'ImplicitCastExpr'):
                            a = strip(a['inner'][0])
                        x = self.base_of(a['referencedDecl']['name'])
                        if ('mem1_%s_values' % x) not in out:
                            out.append('mem1_%s_values' % x)
            for c in n.get('inner', []):
                if isinstance(c, dict):
                    walk(c)
        for s in stmts:
            walk(s)
        return [x for x in out if not (x.startswith('mem_') and x[4:] in declared)]

    def has(self, stmts, kinds):
        def walk(n):
            if n.get('kind') in kinds:
                return True
            return any(isinstance(c, dict) and walk(c) for c in n.get('inner', []))
        return any(walk(s) for s in stmts)

    def local_mats(self, body):
        """names of struct pointer locals that get their own memory (mzd_init / fresh result of an extern)"""
        out = []

        def walk(n):
            if n.get('kind') == 'VarDecl' and kind_of(n['type']['qualType']) == 'p:?' and n['name'] not in self.malias_pre \
               and n['name'] not in self.salias_pre:
                out.append(n['name'])
            for c in n.get('inner', []):
                if isinstance(c, dict):
                    walk(c)
        walk(body)
        return out

    def has_effects(self, stmts):
        IGN = ('m4ri_die', '__assert_fail', 'assert', 'abort', 'mzd_free_window', 'mzp_free_window', 'mzd_free', 'mzp_free', 'printf')

        def walk(n):
            k = n.get('kind')
            if (k == 'BinaryOperator' and n.get('opcode') == '=') or k == 'CompoundAssignOperator' or \
               (k == 'UnaryOperator' and n.get('opcode') in ('++', '--')):
                return True
            if k == 'CallExpr':
                cal = strip(n['inner'][0])
                if cal.get('referencedDecl', {}).get('name') not in IGN:
                    return True
            if k == 'ReturnStmt':
                return True
            return any(isinstance(c, dict) and walk(c) for c in n.get('inner', []))
        return any(walk(x) for x in stmts)

    def has_own(self, stmts, kind):
        """does `stmts` contain a statement of `kind` that belongs to this loop (not to a nested loop / switch)?"""
        def walk(n):
            if n.get('kind') == kind:
                return True
            if n.get('kind') in ('WhileStmt', 'ForStmt', 'DoStmt', 'SwitchStmt'):
                return False
            return any(isinstance(c, dict) and walk(c) for c in n.get('inner', []))
        return any(walk(x) for x in stmts)

    def scoped(self, thunk):
        """translate a nested block: the aliases / pointer locals / local arrays it declares go out of scope afterwards"""
        snap = (dict(self.malias), dict(self.salias), dict(self.salias_len), dict(self.ptrs), dict(self.arrays))
        try:
            return thunk()
        finally:
            self.malias, self.salias, self.salias_len, self.ptrs, self.arrays = snap

    def tup(self, names):
        names = [V(x) for x in names]
        return names[0] if len(names) == 1 else '(' + ', '.join(names) + ')'

    def body_list(self, n):
        if n is None or not n:
            return []
        if n.get('kind') == 'CompoundStmt':
            return list(n.get('inner', []))
        if n.get('kind') == 'NullStmt':
            return []
        return [n]

    def assign_stmt(self, n):
        """(C name, Lean rhs) for an assignment-like expression statement, or None"""
        k = n.get('kind')
        if k in ('BinaryOperator', 'CompoundAssignOperator') and self.sbuild:
            t = strip(n['inner'][0])
            if t.get('kind') == 'MemberExpr' and strip(t['inner'][0]).get('kind') == 'DeclRefExpr' and \
               strip(t['inner'][0])['referencedDecl']['name'] == self.sbuild:
                return self.sbuild_store(n, t)
        if k == 'BinaryOperator' and n['opcode'] == '=':
            t = strip(n['inner'][0])
            if t.get('kind') == 'UnaryOperator' and t.get('opcode') == '*' and strip(t['inner'][0]).get('kind') == 'DeclRefExpr' \
               and strip(t['inner'][0])['referencedDecl']['name'] in self.outparams:
                return 'deref_' + strip(t['inner'][0])['referencedDecl']['name'], self.value(n['inner'][1])
            if t.get('kind') != 'DeclRefExpr':
                rhs = self.value(n['inner'][1])
                mem, row, idx = self.target(t)
                if self.locals.get(mem) == 'm1i':
                    return mem, '(CLoop.upd1 %s %s %s)' % (V(mem), idx, rhs)
                if self.locals.get(mem) == 'm1w':
                    return mem, '(CLoop.upd1w %s %s %s)' % (V(mem), idx, rhs)
                return mem, '(CLoop.upd2 %s %s %s %s)' % (V(mem), row, idx, rhs)
            if t['referencedDecl']['name'] in self.ptrs:
                raise CTransError('%s: re-assignment of pointer %s' % (self.name, t['referencedDecl']['name']))
            return t['referencedDecl']['name'], self.value(n['inner'][1])
        if k == 'CompoundAssignOperator':
            t = strip(n['inner'][0])
            if t.get('kind') != 'DeclRefExpr':
                op = n['opcode'][:-1]
                rhs = self.value(n['inner'][1])
                mem, row, idx = self.target(t)
                old = '(%s %s %s)' % (V(mem), row, idx)
                if self.locals.get(mem) == 'm1i':
                    m = {'+': '(%s + %s)', '-': '(%s - %s)', '*': '(%s * %s)'}
                    if op not in m:
                        raise CTransError('%s: compound store %s= into an integer array' % (self.name, op))
                    return mem, '(CLoop.upd1 %s %s %s)' % (V(mem), idx, m[op] % (old, rhs))
                if op in ('<<', '>>'):
                    new = '(%s %s (%s).toNat)' % (old, '<<<' if op == '<<' else '>>>', self.as_int(n['inner'][1]))
                else:
                    m = {'+': '(%s + %s)', '-': '(%s - %s)', '&': '(%s &&& %s)', '|': '(%s ||| %s)', '^': '(%s ^^^ %s)'}
                    if op not in m:
                        raise CTransError('%s: compound store %s=' % (self.name, op))
                    new = m[op] % (old, rhs)
                if self.locals.get(mem) == 'm1w':
                    return mem, '(CLoop.upd1w %s %s %s)' % (V(mem), idx, new)
                return mem, '(CLoop.upd2 %s %s %s %s)' % (V(mem), row, idx, new)
            nm = t['referencedDecl']['name']
            op = n['opcode'][:-1]
            if nm in self.ptrs:
                if op not in ('+', '-'):
                    raise CTransError('%s: pointer %s %s=' % (self.name, nm, op))
                sm = self.stride_mult(n['inner'][1])
                if sm:
                    if nm not in self.rowptrs:
                        raise CTransError('%s: pointer %s moved by a row stride but not registered' % (self.name, nm))
                    return nm + '__row', '(%s %s %s)' % (V(nm + '__row'), op, sm)
                return nm, '(%s %s %s)' % (V(nm), op, self.as_int(n['inner'][1]))
            # the operation is carried out in the computation type, the result converted back to the variable's type
            ck = kind_of(n.get('computeResultType', {}).get('qualType', '') or qt(n)) or self.expr_kind(t)
            tk = self.expr_kind(t)
            lhs = self.conv(V(nm), tk, ck, n.get('computeLHSType', {}).get('qualType', ''))
            rk = self.expr_kind(strip(n['inner'][1]))
            if op in ('<<', '>>'):
                sh = '(%s).toNat' % self.as_int(n['inner'][1])
                e = (('(CLoop.ishl %s %s)' if op == '<<' else '(%s >>> %s)') % (lhs, sh)) if ck == 'i' else '(%s %s %s)' % (lhs, '<<<' if op == '<<' else '>>>', sh)
            else:
                rhs = self.conv(self.value(n['inner'][1]), rk, ck) if rk != ck else self.value(n['inner'][1])
                if ck == 'i':
                    m = {'+': '(%s + %s)', '-': '(%s - %s)', '*': '(%s * %s)', '/': '(Int.tdiv %s %s)', '%': '(Int.tmod %s %s)',
                         '&': '(CLoop.iand %s %s)', '|': '(CLoop.ior %s %s)', '^': '(CLoop.ixor %s %s)'}
                else:
                    m = {'+': '(%s + %s)', '-': '(%s - %s)', '*': '(%s * %s)', '/': '(%s / %s)', '%': '(%s %% %s)',
                         '&': '(%s &&& %s)', '|': '(%s ||| %s)', '^': '(%s ^^^ %s)'}
                e = m[op] % (lhs, rhs)
            return nm, self.conv(e, ck, tk, qt(t))
        if k == 'UnaryOperator' and n['opcode'] in ('++', '--'):
            t = strip(n['inner'][0])
            nm = t['referencedDecl']['name']
            tk = 'i' if nm in self.ptrs else self.expr_kind(t)
            return nm, '(%s %s %s)' % (V(nm), '+' if n['opcode'] == '++' else '-', self.lit(1, tk))
        return None

    def seq(self, stmts, k_final, ind):
        """Lean term for `stmts` followed by the continuation `k_final()` (a thunk giving the final Lean term)"""
        pad = '  ' * ind
        if not stmts:
            return pad + k_final()
        s, rest = stmts[0], stmts[1:]
        while s.get('kind') == 'ParenExpr':
            s = s['inner'][0]
        k = s.get('kind')
        if k in ('NullStmt',) or (k == 'CStyleCastExpr' and s.get('castKind') == 'ToVoid'):
            return self.seq(rest, k_final, ind)       # `;` and `assert(..)` under NDEBUG
        if k == 'BinaryOperator' and s.get('opcode') == '=' and strip(s['inner'][0]).get('kind') == 'DeclRefExpr' and \
           strip(s['inner'][0])['referencedDecl']['name'] in self.late_ptrs and strip(s['inner'][0])['referencedDecl']['name'] in self.ptrs:
            nm_ = strip(s['inner'][0])['referencedDecl']['name']
            mem_, row_, off_ = self.ptr_expr(s['inner'][1])
            if mem_ != self.ptrs[nm_][0]:
                raise CTransError('%s: pointer %s assigned from a different matrix' % (self.name, nm_))
            return '%slet %s__row : Int := %s\n%slet %s : Int := %s\n' % (pad, V(nm_), row_, pad, V(nm_), off_) + self.seq(rest, k_final, ind)
        if k == 'IfStmt' and self.ptr_swap(s):
            c_, x_, y_ = self.ptr_swap(s)
            return self.swap_lets(c_, x_, y_, pad) + self.seq(rest, k_final, ind)
        if k == 'CompoundStmt':
            # a nested block: its declarations are local, but our lets are lexically scoped the same way
            inner = list(s.get('inner', []))
            outs = self.assigned(inner)
            if self.has(inner, ('ReturnStmt', 'BreakStmt', 'ContinueStmt')):
                return self.seq(inner + rest, k_final, ind)
            if not outs:
                if self.has_effects(inner):
                    raise CTransError('%s: a block with effects assigns nothing the translation models' % self.name)
                return self.seq(rest, k_final, ind)
            blk = self.scoped(lambda: self.seq(inner, lambda: self.tup(outs), ind + 1))
            return '%slet %s :=\n%s\n%s' % (pad, self.tup(outs), blk, self.seq(rest, k_final, ind))
        if k == 'DeclStmt':
            out = ''
            for d in s.get('inner', []):
                if d.get('kind') != 'VarDecl':
                    continue
                nm = d['name']
                dk = kind_of(d['type']['qualType'])
                init = [c for c in d.get('inner', []) if isinstance(c, dict) and not c.get('kind', '').endswith('Comment')]
                if dk and dk.startswith('p:') and init and strip(init[0]).get('kind') == 'InitListExpr':
                    ek = dk[2:]
                    vals = []
                    for x in strip(init[0])['inner']:
                        xv = self.value(x)
                        vals.append(xv)
                    self.arrays[nm] = (ek, vals)
                    continue
                if dk == 'p:w' and not init and re.match(r'.*\[\d+\]$', d['type']['qualType']):
                    # a local array of words indexed by variables: a 1-dimensional memory (uninitialised in C: reading an
                    # entry before it is written would be undefined; entries keep their values until overwritten)
                    mem = 'mem1w_' + nm
                    self.locals[mem] = 'm1w'
                    self.ptrs[nm] = (mem, '')
                    self.ptr_mem[nm] = mem
                    self.locals[nm] = 'i'
                    out += '%slet %s : Int → BitVec 64 := (fun _ => (0#64))\n%slet %s : Int := (0 : Int)\n' % (pad, V(mem), pad, V(nm))
                    continue
                if dk == 'p:w' and init:
                    out += self.decl_pointer(nm, init[0], pad)
                    continue
                if dk == 'p:w' and not init and nm in self.late_ptrs and nm in self.ptr_mem:
                    # `word *p;` assigned later from pointers into one matrix: (row, offset) variables
                    self.ptrs[nm] = (self.ptr_mem[nm], '%s__row' % V(nm))
                    self.locals[nm] = 'i'
                    self.locals[nm + '__row'] = 'i'
                    out += '%slet %s__row : Int := (0 : Int)\n%slet %s : Int := (0 : Int)\n' % (pad, V(nm), pad, V(nm))
                    continue
                if dk == 'p:?' and init and strip(init[0]).get('kind') == 'CallExpr' and \
                   strip(strip(init[0])['inner'][0]).get('referencedDecl', {}).get('name') == 'mzd_t_malloc':
                    self.sbuild = nm
                    continue
                def callee_of(x):
                    x = strip(x)
                    while x.get('kind') in ('CStyleCastExpr', 'ImplicitCastExpr'):
                        x = strip(x['inner'][0])
                    return strip(x['inner'][0]).get('referencedDecl', {}).get('name') if x.get('kind') == 'CallExpr' else None
                if dk == 'p:?' and init and callee_of(init[0]) in ('mzd_init_window', 'mzd_init_window_const'):
                    out += self.decl_window(nm, init[0], pad)
                    continue
                if dk == 'p:?' and init and self.fresh_matrix(nm, init[0]) is not None:
                    out += self.fresh_matrix(nm, init[0], pad, emit=True)
                    continue
                if dk == 'p:?' and init and strip(init[0]).get('kind') == 'CallExpr' and \
                   strip(strip(init[0])['inner'][0]).get('referencedDecl', {}).get('name') == 'mzp_init':
                    # a fresh permutation: the identity of the given length (TRUSTED semantics of mzp_init)
                    mem = 'mem1_%s_values' % nm
                    self.locals[mem] = 'm1i'
                    self.wfields.add((nm, 'values'))
                    out += '%slet %s : Int → Int := (fun i => i)\n' % (pad, V(mem))
                    out += '%slet %s__begin : Int := (0 : Int)\n' % (pad, V(nm))
                    self.salias[nm] = (nm, '%s__begin' % V(nm))
                    zero = dict(kind='IntegerLiteral', value='0', type=dict(qualType='int'))
                    self.salias_len[nm] = (strip(init[0])['inner'][1], zero)
                    continue
                if dk == 'p:?' and init and nm in self.salias_pre:
                    c0 = strip(init[0])
                    a = strip(c0['inner'][1])
                    while a.get('kind') in ('CStyleCastExpr', 'ImplicitCastExpr'):
                        a = strip(a['inner'][0])
                    x = a['referencedDecl']['name']
                    beg = self.value(c0['inner'][2])
                    if x in self.salias:
                        beg = '(%s + %s)' % (self.salias[x][1], beg)
                        x = self.salias[x][0]
                    bv = '%s__begin' % V(nm)
                    out += '%slet %s : Int := %s\n' % (pad, bv, beg)
                    self.salias_len[nm] = (c0['inner'][3], c0['inner'][2])     # evaluated where it is used
                    self.salias[nm] = (x, bv)
                    continue
                if dk == 'p:?':
                    continue          # other struct pointer locals (windows of matrices): only used by untranslated calls
                if dk not in LTYPE:
                    raise CTransError('%s: declaration of %s with unsupported type %r' % (self.name, nm, d['type']['qualType']))
                if init and strip(init[0]).get('kind') == 'CallExpr' and \
                   strip(strip(init[0])['inner'][0]).get('referencedDecl', {}).get('name') in (self.tr.externs or {}):
                    c0 = strip(init[0])
                    fname = strip(c0['inner'][0])['referencedDecl']['name']
                    self.locals[nm] = dk
                    out += self.extern_call(fname, self.tr.externs[fname], c0['inner'][1:], V(nm), pad)
                    continue
                self.locals[nm] = dk
                if init:
                    e = self.value(init[0])
                    ik = self.expr_kind(strip(init[0]))
                    e = self.conv(e, ik, dk, d['type']['qualType']) if ik != dk and strip(init[0]).get('kind') not in ('ImplicitCastExpr',) else e
                else:
                    e = self.lit(0, dk)      # uninitialised in C; reading it before a write would be undefined
                out += '%slet %s : %s := %s\n' % (pad, V(nm), LTYPE[dk], e)
            return out + self.seq(rest, k_final, ind)
        if k == 'BinaryOperator' and s.get('opcode') == '=' and strip(s['inner'][0]).get('kind') == 'DeclRefExpr' and \
           (kind_of(qt(strip(s['inner'][0]))) or '') == 'p:?' and \
           strip(s['inner'][0])['referencedDecl'].get('kind') == 'ParmVarDecl':
            # `X = f(X, …)` / `X = c ? f(X, …) : g(X, …)` for a struct PARAMETER X and callees that return their first
            # argument: the same as the call statement(s); anything else is rejected
            x_ = strip(s['inner'][0])['referencedDecl']['name']

            def as_stmt(e):
                e = strip(e)
                while e.get('kind') in ('CStyleCastExpr', 'ImplicitCastExpr', 'ParenExpr'):
                    e = strip(e['inner'][0])
                if e.get('kind') == 'ConditionalOperator':
                    c_, a_, b_ = e['inner']
                    return dict(kind='IfStmt', inner=[c_, dict(kind='CompoundStmt', inner=[as_stmt(a_)]),
                                                       dict(kind='CompoundStmt', inner=[as_stmt(b_)])])
                if e.get('kind') == 'CallExpr':
                    a0 = strip(e['inner'][1])
                    while a0.get('kind') in ('CStyleCastExpr', 'ImplicitCastExpr', 'ParenExpr'):
                        a0 = strip(a0['inner'][0])
                    if a0.get('kind') == 'DeclRefExpr' and a0['referencedDecl']['name'] == x_:
                        return e
                raise CTransError('%s: assignment to the struct parameter %s' % (self.name, x_))
            return self.seq([as_stmt(s['inner'][1])] + rest, k_final, ind)
        if k == 'BinaryOperator' and s.get('opcode') == '=' and strip(s['inner'][0]).get('kind') == 'DeclRefExpr' and \
           (kind_of(qt(strip(s['inner'][0]))) or '') == 'p:?':
            nm_ = strip(s['inner'][0])['referencedDecl']['name']
            if (nm_ not in self.malias or self.malias[nm_][0] == nm_) and strip(s['inner'][0])['referencedDecl'].get('kind') == 'VarDecl' \
               and self.fresh_matrix(nm_, s['inner'][1]) is not None:
                return self.fresh_matrix(nm_, s['inner'][1], pad, emit=True) + self.seq(rest, k_final, ind)
            raise CTransError('%s: assignment to the struct pointer %s' % (self.name, nm_))
        if k == 'BinaryOperator' and s.get('opcode') == '=' and strip(s['inner'][0]).get('kind') == 'DeclRefExpr' and \
           strip(s['inner'][1]).get('kind') == 'CallExpr' and \
           strip(strip(s['inner'][1])['inner'][0]).get('referencedDecl', {}).get('name') in (self.tr.externs or {}):
            c0 = strip(s['inner'][1])
            fname = strip(c0['inner'][0])['referencedDecl']['name']
            nm_ = strip(s['inner'][0])['referencedDecl']['name']
            if nm_ not in self.locals:
                raise CTransError('%s: assignment to non-local %s' % (self.name, nm_))
            return self.extern_call(fname, self.pick_ext(fname, c0['inner'][1:]), c0['inner'][1:], V(nm_), pad) + self.seq(rest, k_final, ind)
        self.pending = []
        a = self.assign_stmt(s) if k in ('BinaryOperator', 'CompoundAssignOperator', 'UnaryOperator') and s.get('opcode') != ',' else None
        if a:
            nm, e = a
            if nm not in self.locals:
                raise CTransError('%s: assignment to non-local %s' % (self.name, nm))
            out = '%slet %s : %s := %s\n' % (pad, V(nm), self.ltype(nm), e)
            for (xn, xe) in getattr(self, 'extra_lets', []):
                out += '%slet %s : %s := %s\n' % (pad, V(xn), self.ltype(xn), xe)
            self.extra_lets = []
            for (pn, d) in self.pending:
                if pn == nm:
                    raise CTransError('%s: %s both assigned and incremented in one statement' % (self.name, nm))
                out += '%slet %s : Int := (%s %s (1 : Int))\n' % (pad, V(pn), V(pn), d)
            self.pending = []
            return out + self.seq(rest, k_final, ind)
        if k == 'BinaryOperator' and s['opcode'] == ',':
            return self.seq(list(s['inner']) + rest, k_final, ind)
        if k == 'ReturnStmt' and self.loops:
            inner = s.get('inner', [])
            val = '()' if not inner else self.ret(inner[0])
            return '%slet v__ret : %s := some (%s)\n%s%s' % (pad, self.ltype('_ret'), val, pad, self.loops[-1]['t'])
        if k == 'BreakStmt':
            if not self.loops or not self.loops[-1]['brk']:
                raise CTransError('%s: break outside a translated loop' % self.name)
            return '%slet %s : Bool := true\n%s%s' % (pad, V(self.loops[-1]['brk']), pad, self.loops[-1]['t'])
        if k == 'ContinueStmt':
            if not self.loops:
                raise CTransError('%s: continue outside a loop' % self.name)
            L = self.loops[-1]
            return self.seq(list(L['inc']), lambda: L['t'], ind)
        if k == 'ReturnStmt' and self.sbuild and s.get('inner') and strip(s['inner'][0]).get('kind') == 'DeclRefExpr' and \
           strip(s['inner'][0])['referencedDecl']['name'] == self.sbuild:
            return pad + '(' + ', '.join(V('fld_' + f) for f in self.sfields) + ')'
        if k == 'ReturnStmt' and self.retlocal and s.get('inner') and not self.loops:
            r_ = strip(s['inner'][0])
            while r_.get('kind') in ('CStyleCastExpr', 'ImplicitCastExpr', 'ParenExpr'):
                r_ = strip(r_['inner'][0])
            outs_ = ', '.join(V(m_) for m_ in self.retlocal_outs)
            outs_ = (outs_ + ', ') if outs_ else ''
            if r_.get('kind') == 'IntegerLiteral' and r_.get('value') == '0':
                return pad + '((1 : Int), %s(fun _ _ => (0#64)), (0 : Int), (0 : Int))' % outs_
            if r_.get('kind') == 'DeclRefExpr' and r_['referencedDecl']['name'] == self.retlocal:
                nm_ = self.retlocal
                return pad + '((0 : Int), %s%s, %s, %s)' % (outs_, V('mem_' + nm_), V(nm_ + '_nrows'), V(nm_ + '_ncols'))
            raise CTransError('%s: unsupported return of a pointer' % self.name)
        if k == 'ReturnStmt' and self.void_outs is not None and s.get('inner') and not self.loops and \
           (kind_of(qt(strip(s['inner'][0]))) or '') == 'p:?' and strip(s['inner'][0]).get('kind') in ('CallExpr', 'ConditionalOperator'):
            # `return f(C, …);` / `return c ? f(C, …) : g(C, …);` for callees that return their destination argument
            e_ = strip(s['inner'][0])
            def first_arg(e):
                e = strip(e)
                while e.get('kind') in ('CStyleCastExpr', 'ImplicitCastExpr', 'ParenExpr'):
                    e = strip(e['inner'][0])
                if e.get('kind') == 'ConditionalOperator':
                    return first_arg(e['inner'][1])
                a0 = strip(e['inner'][1])
                while a0.get('kind') in ('CStyleCastExpr', 'ImplicitCastExpr', 'ParenExpr'):
                    a0 = strip(a0['inner'][0])
                return a0
            a0 = first_arg(e_)
            if a0.get('kind') != 'DeclRefExpr':
                raise CTransError('%s: return of a call whose destination is not a variable' % self.name)
            asg = dict(kind='BinaryOperator', opcode='=', inner=[a0, e_])
            return self.seq([asg], lambda: self.tup(self.void_outs), ind)
        if k == 'ReturnStmt' and self.void_outs is not None and s.get('inner') and not self.loops and \
           (kind_of(qt(strip(s['inner'][0]))) or '') == 'p:?':
            return pad + self.tup(self.void_outs)        # `return C;` of a function that returns its destination parameter
        if k == 'ReturnStmt':
            inner = s.get('inner', [])
            if not inner:
                if self.void_outs is None:
                    raise CTransError('%s: return without a value' % self.name)
                return pad + self.tup(self.void_outs)
            return pad + self.ret(inner[0])
        if k == 'IfStmt':
            parts = [c for c in s['inner']]
            cond, then = parts[0], parts[1]
            els = parts[2] if len(parts) > 2 else None
            tl, el = self.body_list(then), self.body_list(els)
            c = self.boolean(cond)
            if c == 'false':
                return self.seq(el + rest, k_final, ind) if self.has(el, ('ReturnStmt', 'BreakStmt', 'ContinueStmt')) else \
                    self.seq([dict(kind='CompoundStmt', inner=el)] + rest, k_final, ind)
            if c == 'true':
                return self.seq(tl + rest, k_final, ind) if self.has(tl, ('ReturnStmt', 'BreakStmt', 'ContinueStmt')) else \
                    self.seq([dict(kind='CompoundStmt', inner=tl)] + rest, k_final, ind)
            if self.has(tl + el, ('ReturnStmt', 'BreakStmt', 'ContinueStmt')):
                return '%sif %s then\n%s\n%selse\n%s' % (pad, c, self.scoped(lambda: self.seq(tl + rest, k_final, ind + 1)), pad,
                                                         self.scoped(lambda: self.seq(el + rest, k_final, ind + 1)))
            outs = [x for x in self.assigned(tl + el) if x in self.locals]
            if not outs:
                # nothing this translation models is assigned in either branch: only allowed for guards (die / assert /
                # frees), never for a statement with an effect -- a dropped store would silently falsify the translation
                if self.has_effects(tl + el):
                    raise CTransError('%s: an if-statement with effects assigns nothing the translation models' % self.name)
                return self.seq(rest, k_final, ind)
            t = self.tup(outs)
            ty = self.tup_type(outs)
            return '%slet %s : %s :=\n%s  if %s then\n%s\n%s  else\n%s\n%s' % (
                pad, t, ty, pad, c, self.scoped(lambda: self.seq(tl, lambda: t, ind + 2)), pad,
                self.scoped(lambda: self.seq(el, lambda: t, ind + 2)), self.seq(rest, k_final, ind))
        if k in ('WhileStmt', 'ForStmt'):
            if k == 'WhileStmt':
                cond, body = s['inner'][0], s['inner'][1]
                init, inc = [], []
            else:
                i0, _, cond, inc0, body = (s['inner'] + [None] * 5)[:5]
                init = [i0] if i0 else []
                inc = [inc0] if inc0 else []
            bl = self.body_list(body) + inc
            c0 = strip(cond) if cond and cond.get('kind') else None
            if c0 and c0.get('kind') == 'BinaryOperator' and c0['opcode'] in ('<', '<=', '>', '>=', '!='):
                l0 = strip(c0['inner'][0])
                if l0.get('kind') == 'UnaryOperator' and l0['opcode'] in ('++', '--') and not l0.get('isPostfix'):
                    # `while (++i < e) body`  ==  `++i; while (i < e) { body; ++i; }`
                    plain = dict(c0, inner=[l0['inner'][0], c0['inner'][1]])
                    return self.seq([l0, dict(kind='WhileStmt', inner=[plain, dict(kind='CompoundStmt', inner=bl + [l0])])] + rest, k_final, ind)
            if self.has(bl, ('GotoStmt',)):
                raise CTransError('%s: loop with goto' % self.name)
            body_stmts = self.body_list(body)
            has_ret = self.has(bl, ('ReturnStmt',))
            has_brk = self.has_own(body_stmts, 'BreakStmt')
            # the init statement's declarations are visible in the loop only; we bind them before
            pre = self.seq(init, lambda: '', ind) if init else ''
            pre = pre.rstrip(' ')
            outs = [x for x in self.assigned(bl) if x in self.locals]
            brk = None
            if has_ret:
                if '_ret' not in self.locals:
                    self.locals['_ret'] = 'ret'
                if not self.loops:
                    pre += '%slet v__ret : %s := none\n' % (pad, self.ltype('_ret'))
                if '_ret' not in outs:
                    outs.append('_ret')
            if has_brk:
                self.brk_no += 1
                brk = '_brk%d' % self.brk_no
                self.locals[brk] = 'flag'
                pre += '%slet %s : Bool := false\n' % (pad, V(brk))
                outs.append(brk)
            if not outs:
                raise CTransError('%s: loop without assigned locals' % self.name)
            t = self.tup(outs)
            self.loop_no += 1
            fuel = self.tr.fuel(self.name, self.loop_no)
            self.fuels.append(fuel)
            c = self.boolean(cond) if cond and cond.get('kind') else 'true'
            if has_brk:
                c = '((!%s) && %s)' % (V(brk), c)
            if has_ret:
                c = '(v__ret.isNone && %s)' % c
            self.loops.append(dict(t=t, inc=inc, brk=brk))
            bodyt = self.scoped(lambda: self.seq(body_stmts + list(inc), lambda: t, ind + 2))
            self.loops.pop()
            lam = 'fun %s => ' % t if len(outs) == 1 else 'fun (%s : %s) => match %s with\n%s    | %s => ' % ('st', self.tup_type(outs), 'st', pad, t)
            loop = '%slet %s : %s := CLoop.loop %s\n%s    (%s%s)\n%s    (%s\n%s)\n%s    %s\n' % (
                pad, t, self.tup_type(outs), fuel, pad, lam, c, pad, lam, bodyt, pad, t)
            after = self.seq(rest, k_final, ind + 1 if has_ret else ind)
            if has_ret:
                if self.loops:
                    after = '%sif v__ret.isSome then\n%s  %s\n%selse\n%s' % (pad, pad, self.loops[-1]['t'], pad, after)
                elif self.void_outs is not None:
                    after = '%smatch v__ret with\n%s| some _ => %s\n%s| none =>\n%s' % (pad, pad, self.tup(self.void_outs), pad, after)
                else:
                    after = '%smatch v__ret with\n%s| some r__ => r__\n%s| none =>\n%s' % (pad, pad, pad, after)
            return pre + loop + after
        if k == 'SwitchStmt':
            return self.switch(s, rest, k_final, ind)
        if k == 'CallExpr':
            callee = strip(s['inner'][0])
            if callee.get('kind') == 'DeclRefExpr' and callee['referencedDecl']['name'] in ('m4ri_die', '__assert_fail', 'assert'):
                return self.seq(rest, k_final, ind)
            fname = callee.get('referencedDecl', {}).get('name')
            if fname in ('memcpy', '__builtin_memcpy', '__builtin___memcpy_chk'):
                dmem, drow, doff = self.ptr_expr(s['inner'][1])
                smem, srow, soff = self.ptr_expr(s['inner'][2])
                nwords = self.sizeof_words(s['inner'][3])
                return '%slet %s : %s := (CLoop.copyWords %s %s %s (fun j => %s %s (%s + j)) %s)\n%s' % (
                    pad, V(dmem), LTYPE['m2'], V(dmem), drow, doff, V(smem), srow, soff, nwords, self.seq(rest, k_final, ind))
            if fname in ('mzd_free_window', 'mzp_free_window', 'mzd_free', 'mzp_free'):
                return self.seq(rest, k_final, ind)      # releases a header / block: no effect on the modelled memories
            sig = self.tr.sigs.get(fname) if fname not in (self.tr.externs or {}) else None
            if sig and sig['void_outs'] is not None and not sig['outparams']:
                self.pending = []
                args = self.call_args(sig, s['inner'][1:])
                post = ''.join('%slet %s : Int := (%s %s (1 : Int))\n' % (pad, V(pn), V(pn), d) for (pn, d) in self.pending)
                self.pending = []
                rest_seq = lambda: post + self.seq(rest, k_final, ind)
                # the callee returns the new contents of the memories it writes: bind them to the caller's memories
                # (through `unview` when the argument is a window)
                out = ''
                tmp = []
                for j_, m_ in enumerate(sig['void_outs']):
                    pos = [i for i, (cn, ck) in enumerate(sig['cparams']) if cn == m_[4:]][0]
                    tmp.append((self.struct_arg_name(s['inner'][1 + pos]), 'cres%d__%d' % (self.loop_no, j_)))
                if all(y not in self.malias for y, _ in tmp):
                    bindm = ['mem_' + y for y, _ in tmp]
                    return '%slet %s : %s := (%s %s)\n%s' % (pad, self.tup(bindm), self.tup_type(bindm), self.tr.known_fns[fname],
                                                            ' '.join(args), rest_seq())
                names = [t_ for _, t_ in tmp]
                out += '%slet %s := (%s %s)\n' % (pad, names[0] if len(names) == 1 else '(' + ', '.join(names) + ')',
                                                 self.tr.known_fns[fname], ' '.join(args))
                for y, t_ in tmp:
                    out += self.writeback(y, t_, pad)
                return out + rest_seq()
            ext = self.pick_ext(fname, s['inner'][1:]) if fname in (self.tr.externs or {}) else None
            if ext is not None:
                return self.extern_call(fname, ext, s['inner'][1:], None, pad) + self.seq(rest, k_final, ind)
            raise CTransError('%s: call statement %s outside the translated subset' % (self.name, fname))
        raise CTransError('%s: unsupported statement kind %s' % (self.name, k))

    def fresh_matrix(self, nm, init, pad='', emit=False):
        """`mzd_t *X = mzd_init(r, c)` (a zeroed r x c matrix: TRUSTED semantics of mzd_init) or `mzd_t *X = f(...)` for an
        untranslated f that returns a freshly allocated matrix (extern description `ret='mat'`): X gets its own local memory
        and local header fields"""
        c0 = strip(init)
        while c0.get('kind') in ('CStyleCastExpr', 'ImplicitCastExpr'):
            c0 = strip(c0['inner'][0])
        if c0.get('kind') != 'CallExpr':
            return None
        fname = strip(c0['inner'][0]).get('referencedDecl', {}).get('name')
        ext = self.pick_ext(fname, c0['inner'][1:]) if fname in (self.tr.externs or {}) else None
        if fname != 'mzd_init' and not (ext and ext.get('ret') == 'mat'):
            return None
        if not emit:
            return ''
        mem = 'mem_' + nm
        self.locals[mem] = 'm2'
        if fname == 'mzd_init':
            r_, c_ = self.value(c0['inner'][1]), self.value(c0['inner'][2])
            out = '%slet %s : %s := (fun _ _ => (0#64))\n' % (pad, V(mem), LTYPE['m2'])
            out += '%slet %s_nrows : Int := %s\n%slet %s_ncols : Int := %s\n' % (pad, V(nm), r_, pad, V(nm), c_)
        else:
            out = self.extern_call(fname, ext, c0['inner'][1:], None, pad, fresh=nm)
        out += '%slet %s_width : Int := (Int.tdiv (%s_ncols + (63 : Int)) (64 : Int))\n' % (pad, V(nm), V(nm))
        out += '%slet %s_high_bitmask : BitVec 64 := ((BitVec.allOnes 64) >>> ((Int.tmod ((64 : Int) - (Int.tmod %s_ncols (64 : Int))) (64 : Int))).toNat)\n' % (pad, V(nm), V(nm))
        # the remaining header fields as mzd_init sets them (TRUSTED: mzd_init itself is not translated)
        out += '%slet %s_rowstride : Int := (if (CLoop.iand %s_width (1 : Int)) = (0 : Int) then %s_width else %s_width + (1 : Int))\n' % (pad, V(nm), V(nm), V(nm), V(nm))
        out += '%slet %s_flags : BitVec 8 := (if %s_high_bitmask ≠ (BitVec.allOnes 64) then (2#8) else (0#8))\n' % (pad, V(nm), V(nm))
        self.malias[nm] = (nm, '(0 : Int)', '(0 : Int)')
        for f_, k_ in (('nrows', 'i'), ('ncols', 'i'), ('width', 'i'), ('high_bitmask', 'w'), ('rowstride', 'i'), ('flags', 'c')):
            self.locals['%s_%s' % (nm, f_)] = k_
        return out

    def sizeof_words(self, n):
        """`sizeof(word) * e` (a byte count that is a whole number of words) -> Lean term of `e`"""
        n = strip(n)
        while n.get('kind') in ('CStyleCastExpr', 'ImplicitCastExpr'):
            n = strip(n['inner'][0])
        if n.get('kind') == 'BinaryOperator' and n['opcode'] == '*':
            a, b = [strip(x) for x in n['inner']]
            for x, y in ((a, b), (b, a)):
                x0 = x
                while x0.get('kind') in ('CStyleCastExpr', 'ImplicitCastExpr', 'ParenExpr'):
                    x0 = strip(x0['inner'][0])
                if x0.get('kind') == 'UnaryExprOrTypeTraitExpr' and x0.get('name') == 'sizeof' and \
                   norm_type(x0.get('argType', {}).get('qualType', '')) in ('word', 'uint64_t'):
                    return self.as_int(y)
        raise CTransError('%s: memcpy size is not sizeof(word) * n' % self.name)

    def writeback(self, y, resname, pad):
        """bind the memory a callee returned for its matrix argument `y` to the caller's root memory"""
        root, r0, w0 = self.mroot(y)
        mem = 'mem_' + root
        if mem not in self.locals:
            self.locals[mem] = 'm2'
            self.free(V(mem), 'm2', ('mem', root))
        if y not in self.malias:
            return '%slet %s : %s := %s\n' % (pad, V(mem), LTYPE['m2'], resname)
        return '%slet %s : %s := (CLoop.unview %s %s %s %s %s %s)\n' % (
            pad, V(mem), LTYPE['m2'], V(mem), r0, w0, V('%s_nrows' % y), V('%s_width' % y), resname)

    def pick_ext(self, fname, argnodes):
        ext = (self.tr.externs or {}).get(fname)
        if ext is None or 'alts' not in ext:
            return ext

        def is_null(an):
            a_ = strip(an)
            while a_.get('kind') in ('CStyleCastExpr', 'ImplicitCastExpr', 'ParenExpr'):
                a_ = strip(a_['inner'][0])
            return a_.get('kind') == 'IntegerLiteral' and a_.get('value') == '0'
        for alt in ext['alts']:
            if all(is_null(argnodes[i]) for i in alt.get('null', ())) and not any(is_null(argnodes[i]) for i in alt.get('mats', ())):
                return alt
        raise CTransError('%s: no alternative of %s matches the call' % (self.name, fname))

    def extern_call(self, fname, ext, argnodes, result_var, pad, fresh=None):
        ext = self.pick_ext(fname, argnodes) if 'alts' in ext else ext
        """a call of a function that is NOT translated: it becomes an application of the function parameter `f_<name>`;
        matrix arguments are passed as `CLoop.MView`s, permutations as their `values` array, scalars as they are; the
        parameter returns (its C return value, if any, then) the new memory of every matrix argument listed under
        `writes` and the new `values` of every permutation listed under `pwrites`"""
        args = []
        tys = []
        for i, an in enumerate(argnodes):
            k_ = kind_of(qt(strip(an))) or ''
            if i in ext.get('null', ()):
                a_ = strip(an)
                while a_.get('kind') in ('CStyleCastExpr', 'ImplicitCastExpr', 'ParenExpr'):
                    a_ = strip(a_['inner'][0])
                if a_.get('kind') != 'IntegerLiteral' or a_.get('value') != '0':
                    raise CTransError('%s: argument %d of %s is expected to be NULL' % (self.name, i, fname))
                continue
            if i in ext.get('mats', ()):
                args.append(self.mview(self.struct_arg_name(an)))
                tys.append('CLoop.MView')
            elif i in ext.get('perms', ()):
                y = self.struct_arg_name(an)
                base, beg = self.salias.get(y, (y, '(0 : Int)'))
                mem = 'mem1_%s_values' % base
                if mem not in self.locals:
                    self.locals[mem] = 'm1i'
                    self.free(V(mem), 'm1i', ('field', base, 'values'))
                args.append('(fun i => %s (%s + i))' % (V(mem), beg) if y in self.salias else V(mem))
                tys.append('(Int → Int)')
            else:
                args.append(self.value(an))
                tys.append(LTYPE[self.expr_kind(strip(an))])
        rets = []
        if ext.get('ret') == 'mat':
            rets += ['(%s)' % LTYPE['m2'], 'Int', 'Int']
        elif ext.get('ret'):
            rets.append(LTYPE[ext['ret']])
        rets += ['(%s)' % LTYPE['m2']] * len(ext.get('writes', ())) + ['(Int → Int)'] * len(ext.get('pwrites', ()))
        fty = ' → '.join(tys + [' × '.join(rets)])
        fparam = self.free('f_' + fname + ext.get('suffix', ''), 'fn:' + fty, ('extern', fname + ext.get('suffix', '')))
        names = []
        if ext.get('ret') == 'mat':
            if not fresh:
                raise CTransError('%s: the matrix returned by %s is dropped' % (self.name, fname))
            names += [V('mem_' + fresh), V(fresh + '_nrows'), V(fresh + '_ncols')]
        elif ext.get('ret'):
            names.append(result_var or 'cret__')
        wn = ['cres%d__%d' % (self.loop_no, j_) for j_ in range(len(ext.get('writes', ())))]
        pn = ['cperm%d__%d' % (self.loop_no, j_) for j_ in range(len(ext.get('pwrites', ())))]
        names += wn + pn
        out = '%slet %s := (%s %s)\n' % (pad, names[0] if len(names) == 1 else '(' + ', '.join(names) + ')', fparam, ' '.join(args))
        for i, t_ in zip(ext.get('writes', ()), wn):
            out += self.writeback(self.struct_arg_name(argnodes[i]), t_, pad)
        for i, t_ in zip(ext.get('pwrites', ()), pn):
            y = self.struct_arg_name(argnodes[i])
            base, beg = self.salias.get(y, (y, None))
            mem = 'mem1_%s_values' % base
            if beg is None:
                out += '%slet %s : Int → Int := %s\n' % (pad, V(mem), t_)
            else:
                # the callee wrote the window's entries: positions [beg, beg + length)
                out += '%slet %s : Int → Int := (fun i => if %s ≤ i ∧ i < %s + %s then %s (i - %s) else %s i)\n' % (
                    pad, V(mem), beg, beg, self.plen(y), t_, beg, V(mem))
        return out

    def sbuild_store(self, n, t):
        """`W->f = e` / `W->f |= e` on the struct under construction: (local name, Lean term)"""
        f = t['name']
        if f == 'data':
            # W->data = M->data + a * M->rowstride + b   ->   (row offset a, word offset b)
            rhs = strip(n['inner'][1])
            def flat(x):
                x = strip(x)
                while x.get('kind') in ('CStyleCastExpr', 'ImplicitCastExpr'):
                    x = strip(x['inner'][0])
                if x.get('kind') == 'BinaryOperator' and x['opcode'] == '+':
                    return flat(x['inner'][0]) + flat(x['inner'][1])
                return [x]
            terms = flat(rhs)
            def is_member(x, f_):
                x = strip(x)
                while x.get('kind') in ('CStyleCastExpr', 'ImplicitCastExpr'):
                    x = strip(x['inner'][0])
                return x.get('kind') == 'MemberExpr' and x.get('name') == f_
            if len(terms) != 3 or not is_member(terms[0], 'data'):
                raise CTransError('%s: unsupported data pointer of the struct under construction' % self.name)
            rowt = None; wordt = None
            for x in terms[1:]:
                if x.get('kind') == 'BinaryOperator' and x['opcode'] == '*' and (is_member(x['inner'][0], 'rowstride') or is_member(x['inner'][1], 'rowstride')):
                    other = x['inner'][1] if is_member(x['inner'][0], 'rowstride') else x['inner'][0]
                    rowt = self.as_int(other)
                else:
                    wordt = self.as_int(x)
            if rowt is None or wordt is None:
                raise CTransError('%s: unsupported data pointer of the struct under construction' % self.name)
            for nm_, e_ in (('fld_data_row', rowt),):
                pass
            self.locals['fld_data_row'] = 'i'; self.locals['fld_data_word'] = 'i'
            if 'data_row' not in self.sfields:
                self.sfields += ['data_row', 'data_word']
            self.extra_lets = [('fld_data_word', wordt)]
            return 'fld_data_row', rowt
        fk = self.expr_kind(t)
        nm = 'fld_' + f
        if n['kind'] == 'BinaryOperator':
            if f not in self.sfields:
                self.sfields.append(f)
            self.locals[nm] = fk
            rk = self.expr_kind(strip(n['inner'][1]))
            e = self.value(n['inner'][1])
            return nm, (self.conv(e, rk, fk, qt(t)) if rk != fk else e)
        if nm not in self.locals:
            raise CTransError('%s: compound store into an unset field' % self.name)
        op = n['opcode'][:-1]
        ck = kind_of(n.get('computeResultType', {}).get('qualType', '')) or fk
        lhs = self.conv(V(nm), fk, ck, n.get('computeLHSType', {}).get('qualType', ''))
        rk = self.expr_kind(strip(n['inner'][1]))
        rhs = self.value(n['inner'][1])
        rhs = self.conv(rhs, rk, ck) if rk != ck else rhs
        m = {'|': '(CLoop.ior %s %s)', '&': '(CLoop.iand %s %s)', '^': '(CLoop.ixor %s %s)', '+': '(%s + %s)', '-': '(%s - %s)'} if ck == 'i' else \
            {'|': '(%s ||| %s)', '&': '(%s &&& %s)', '^': '(%s ^^^ %s)', '+': '(%s + %s)', '-': '(%s - %s)'}
        return nm, self.conv(m[op] % (lhs, rhs), ck, fk, qt(t))

    def decl_window(self, nm, init, pad):
        """`mzd_t *Y = mzd_init_window(X, lowr, lowc, highr, highc)`: Y becomes a view of X's root memory; its fields are the
        values the generated `mzd_init_window` computes"""
        c0 = strip(init)
        while c0.get('kind') in ('CStyleCastExpr', 'ImplicitCastExpr'):
            c0 = strip(c0['inner'][0])
        sig = self.tr.sigs.get('mzd_init_window')
        if not sig:
            raise CTransError('%s: mzd_init_window is not translated yet' % self.name)
        x = self.struct_arg_name(c0['inner'][1])
        args = self.call_args(sig, c0['inner'][1:])
        root, r0, w0 = self.mroot(x)
        fields = sig['sfields']
        names = [V('%s_%s' % (nm, f)) if not f.startswith('data_') else V('%s__%s' % (nm, f)) for f in fields]
        out = '%slet (%s) := (%s %s)\n' % (pad, ', '.join(names), self.tr.known_fns['mzd_init_window'], ' '.join(args))
        out += '%slet %s__r0 : Int := (%s + %s)\n' % (pad, V(nm), r0, V('%s__data_row' % nm))
        out += '%slet %s__w0 : Int := (%s + %s)\n' % (pad, V(nm), w0, V('%s__data_word' % nm))
        self.malias[nm] = (root, '%s__r0' % V(nm), '%s__w0' % V(nm))
        return out

    def mzd_row_call(self, n):
        """(matrix parameter name, row node) if n is `mzd_row(M, r)` / `mzd_row_const(M, r)`"""
        n = strip(n)
        if n.get('kind') == 'CallExpr':
            callee = strip(n['inner'][0])
            if callee.get('kind') == 'DeclRefExpr' and callee['referencedDecl']['name'] in ('mzd_row', 'mzd_row_const'):
                m = strip(n['inner'][1])
                while m.get('kind') in ('CStyleCastExpr', 'ImplicitCastExpr'):
                    m = strip(m['inner'][0])
                if m.get('kind') == 'DeclRefExpr':
                    return m['referencedDecl']['name'], n['inner'][2]
        return None

    def ptr_source(self, init):
        """decompose the initialiser of a pointer local: (base node, offset node or None)"""
        n = strip(init)
        while n.get('kind') in ('CStyleCastExpr', 'ImplicitCastExpr'):
            n = strip(n['inner'][0])
        if n.get('kind') == 'BinaryOperator' and n['opcode'] in ('+', '-'):
            return strip(n['inner'][0]), (n['opcode'], n['inner'][1])
        return n, None

    def prepass(self, body):
        """memory of every pointer local (needed by `assigned` before the declaration is translated)"""
        def base_of(name):
            seen = 0
            while name in self.salias_pre and seen < 10:
                name = self.salias_pre[name]; seen += 1
            return name

        def walk0(n):
            if n.get('kind') == 'VarDecl' and kind_of(n['type']['qualType']) == 'p:?':
                init = [c for c in n.get('inner', []) if isinstance(c, dict) and not c.get('kind', '').endswith('Comment')]
                if init:
                    c0 = strip(init[0])
                    while c0.get('kind') in ('CStyleCastExpr', 'ImplicitCastExpr'):
                        c0 = strip(c0['inner'][0])
                    if c0.get('kind') == 'CallExpr' and strip(c0['inner'][0]).get('referencedDecl', {}).get('name') in ('mzd_init_window', 'mzd_init_window_const'):
                        a = strip(c0['inner'][1])
                        while a.get('kind') in ('CStyleCastExpr', 'ImplicitCastExpr'):
                            a = strip(a['inner'][0])
                        if a.get('kind') == 'DeclRefExpr':
                            x = a['referencedDecl']['name']
                            self.malias_pre[n['name']] = self.malias_pre.get(x, x)
                    if c0.get('kind') == 'CallExpr' and strip(c0['inner'][0]).get('referencedDecl', {}).get('name') == 'mzp_init_window':
                        a = strip(c0['inner'][1])
                        while a.get('kind') in ('CStyleCastExpr', 'ImplicitCastExpr'):
                            a = strip(a['inner'][0])
                        if a.get('kind') == 'DeclRefExpr':
                            self.salias_pre[n['name']] = a['referencedDecl']['name']
            if (n.get('kind') == 'BinaryOperator' and n.get('opcode') == '=') or n.get('kind') == 'CompoundAssignOperator':
                t = strip(n['inner'][0])
                if t.get('kind') == 'ArraySubscriptExpr' and strip(t['inner'][0]).get('kind') == 'MemberExpr':
                    mb = strip(t['inner'][0]); sb = strip(mb['inner'][0])
                    if sb.get('kind') == 'DeclRefExpr':
                        self.wfields.add((sb['referencedDecl']['name'], mb['name']))
            for c in n.get('inner', []):
                if isinstance(c, dict):
                    walk0(c)
        walk0(body)

        def walk1(n):
            if n.get('kind') == 'CallExpr':
                cal = strip(n['inner'][0])
                ext = (self.tr.externs or {}).get(cal.get('referencedDecl', {}).get('name')) if cal.get('kind') == 'DeclRefExpr' else None
                if ext:
                    for i in ext.get('pwrites', ()):
                        a = strip(n['inner'][1 + i])
                        while a.get('kind') in ('CStyleCastExpr', 'ImplicitCastExpr'):
                            a = strip(a['inner'][0])
                        if a.get('kind') == 'DeclRefExpr':
                            self.wfields.add((a['referencedDecl']['name'], 'values'))
            for c in n.get('inner', []):
                if isinstance(c, dict):
                    walk1(c)
        walk1(body)
        self.wfields = set((base_of(a), f) for a, f in self.wfields)
        self.base_of = base_of

        def walk(n):
            if n.get('kind') == 'VarDecl' and kind_of(n['type']['qualType']) == 'i':
                init = [c for c in n.get('inner', []) if isinstance(c, dict) and not c.get('kind', '').endswith('Comment')]
                if init:
                    i0 = strip(init[0])
                    while i0.get('kind') in ('CStyleCastExpr', 'ImplicitCastExpr', 'ParenExpr'):
                        i0 = strip(i0['inner'][0])
                    if i0.get('kind') == 'MemberExpr' and i0.get('name') == 'rowstride' and 'const' in n['type']['qualType']:
                        self.stride_vars.add(n['name'])
            if n.get('kind') == 'CompoundAssignOperator' and n.get('opcode') in ('+=', '-='):
                t_ = strip(n['inner'][0])
                if t_.get('kind') == 'DeclRefExpr' and kind_of(qt(t_)) == 'p:w' and self.stride_mult(n['inner'][1]):
                    self.rowptrs.add(t_['referencedDecl']['name'])
            if n.get('kind') == 'BinaryOperator' and n.get('opcode') == '=':
                t_ = strip(n['inner'][0])
                if t_.get('kind') == 'DeclRefExpr' and t_['referencedDecl']['name'] in self.late_ptrs:
                    b_, _ = self.ptr_source(n['inner'][1])
                    if b_.get('kind') == 'DeclRefExpr' and b_['referencedDecl']['name'] in self.ptr_mem:
                        m_ = self.ptr_mem[b_['referencedDecl']['name']]
                        if self.ptr_mem.get(t_['referencedDecl']['name'], m_) != m_:
                            raise CTransError('%s: pointer %s assigned from two matrices' % (self.name, t_['referencedDecl']['name']))
                        self.ptr_mem[t_['referencedDecl']['name']] = m_
            if n.get('kind') == 'VarDecl' and kind_of(n['type']['qualType']) == 'p:w':
                init = [c for c in n.get('inner', []) if isinstance(c, dict) and not c.get('kind', '').endswith('Comment')]
                if not init and re.match(r'.*\[\d+\]$', n['type']['qualType']):
                    self.ptr_mem[n['name']] = 'mem1w_' + n['name']
                elif not init:
                    self.late_ptrs.add(n['name'])
                if init:
                    base, _ = self.ptr_source(init[0])
                    mc = self.mzd_row_call(base)
                    if mc:
                        self.ptr_mem[n['name']] = 'mem_' + self.malias_pre.get(mc[0], mc[0])
                    elif base.get('kind') == 'DeclRefExpr' and base['referencedDecl']['name'] in self.ptr_mem:
                        self.ptr_mem[n['name']] = self.ptr_mem[base['referencedDecl']['name']]
            for c in n.get('inner', []):
                if isinstance(c, dict):
                    walk(c)
        walk(body)

    def decl_pointer(self, nm, init, pad):
        base, off = self.ptr_source(init)
        mc = self.mzd_row_call(base)
        if mc:
            root, r0, w0 = self.mroot(mc[0])
            mem = 'mem_' + root
            if mem not in self.locals:
                self.locals[mem] = 'm2'
                self.free(V(mem), 'm2', ('mem', root))
            rowv = '%s__row' % V(nm)
            if mc[0] in self.malias:
                out = '%slet %s : Int := (%s + %s)\n' % (pad, rowv, r0, self.value(mc[1]))
                start = w0
            else:
                out = '%slet %s : Int := %s\n' % (pad, rowv, self.value(mc[1]))
                start = '(0 : Int)'
        elif base.get('kind') == 'DeclRefExpr' and base['referencedDecl']['name'] in self.ptrs:
            q = base['referencedDecl']['name']
            mem, rowv = self.ptrs[q]
            out = ''
            start = V(q)
        else:
            raise CTransError('%s: pointer %s initialised from an unsupported expression' % (self.name, nm))
        if off and off[0] == '-' and False:
            pass
        if off:
            start = '(%s %s %s)' % (start, off[0], self.as_int(off[1]))
        if nm in self.rowptrs:
            own = '%s__row' % V(nm)
            if rowv != own:
                out += '%slet %s : Int := %s\n' % (pad, own, rowv)
                rowv = own
            self.locals[nm + '__row'] = 'i'
        self.ptrs[nm] = (mem, rowv)
        self.locals[nm] = 'i'
        return out + '%slet %s : Int := %s\n' % (pad, V(nm), start)

    def ltype(self, name):
        k = self.locals[name]
        if k == 'ret':
            return 'Option Unit' if self.void_outs is not None else 'Option (%s)' % self.ret_lean_type()
        if k == 'flag':
            return 'Bool'
        return LTYPE[k]

    def ret_lean_type(self):
        return ' × '.join([LTYPE[self.ret_kind]] + ['Int'] * len(self.outparams) + ['(%s)' % self.ltype(m) for m in self.ret_mems])

    def tup_type(self, names):
        ts = [self.ltype(x) for x in names]
        return ts[0] if len(ts) == 1 else ' × '.join('(%s)' % t if ' ' in t else t for t in ts)

    def switch(self, s, rest, k_final, ind):
        pad = '  ' * ind
        sel = self.as_int(s['inner'][0])
        body = s['inner'][1]
        if body.get('kind') != 'CompoundStmt':
            raise CTransError('%s: switch body' % self.name)
        # flatten: sequence of (label or None, statement)
        items = []

        def flat(n, labels):
            k = n.get('kind')
            if k == 'CaseStmt':
                v = strip(n['inner'][0])
                while v.get('kind') in ('ImplicitCastExpr', 'CStyleCastExpr'):
                    v = strip(v['inner'][0])
                if v.get('kind') != 'IntegerLiteral':
                    raise CTransError('%s: non-literal case label' % self.name)
                flat(n['inner'][-1], labels + [int(v['value'])])
            elif k == 'DefaultStmt':
                flat(n['inner'][-1], labels + ['default'])
            else:
                items.append((labels, n))
        kids = [c for c in body.get('inner', []) if isinstance(c, dict)]
        if len(kids) == 1 and kids[0].get('kind') == 'CaseStmt' and kids[0]['inner'][-1].get('kind') == 'DoStmt':
            return self.duff(sel, kids[0], rest, k_final, ind)
        for c in body.get('inner', []):
            flat(c, [])
        # a `break` ends a fall-through segment: statement p runs iff the matching label's position is <= p and lies
        # in the same segment
        labelled = []       # (labels, stmt, first position of its segment)
        seg_first = 0
        for labels, st in items:
            if st.get('kind') == 'BreakStmt':
                if labels:
                    raise CTransError('%s: labelled break' % self.name)
                seg_first = len(labelled)
                continue
            if 'default' in labels:
                cs = strip(st)
                ok = cs.get('kind') == 'CallExpr' and strip(cs['inner'][0]).get('referencedDecl', {}).get('name') in ('m4ri_die', 'abort')
                if ok and len(labels) > 1:
                    raise CTransError('%s: default case that is m4ri_die/abort shares its statement with a case label' % self.name)
                if ok:
                    continue
                # a real `default:` statement: the position taken when no case label matches
            if self.has([st], ('BreakStmt',)):
                raise CTransError('%s: break nested in a case statement' % self.name)
            if st.get('kind') != 'ReturnStmt' and self.has([st], ('ReturnStmt',)):
                raise CTransError('%s: return nested in a case statement' % self.name)
            labelled.append((labels, st, seg_first))
            if st.get('kind') == 'ReturnStmt':
                seg_first = len(labelled)      # nothing falls through a `return`
        poss = []
        npos = len(labelled)
        dflt = npos
        for p, (labels, st, sf) in enumerate(labelled):
            for l in labels:
                if l == 'default':
                    dflt = p
                else:
                    poss.append((l, p))
        chain = '(%d : Int)' % dflt
        for l, p in reversed(poss):
            chain = '(if %s = (%d : Int) then (%d : Int) else %s)' % ('sw_sel', l, p, chain)
        out = '%slet sw_sel : Int := %s\n%slet sw_pos : Int := %s\n' % (pad, sel, pad, chain)
        for p, (labels, st, sf) in enumerate(labelled):
            self.pending = []
            if st.get('kind') == 'ReturnStmt':
                cond = 'decide (sw_pos ≤ (%d : Int))' % p
                if sf > 0:
                    cond = '(%s && decide ((%d : Int) ≤ sw_pos))' % (cond, sf)
                out += '%sif %s then\n%s\n%selse\n' % (pad, cond, self.seq([st], k_final, ind + 1), pad)
                continue
            a = self.assign_stmt(st) if st.get('kind') in ('BinaryOperator', 'CompoundAssignOperator', 'UnaryOperator') else None
            cond = 'decide (sw_pos ≤ (%d : Int))' % p
            if sf > 0:
                cond = '(%s && decide ((%d : Int) ≤ sw_pos))' % (cond, sf)
            if not a or self.pending:
                # a general statement (side effects on cursors, several variables): re-bind everything it assigns
                self.pending = []
                out += self.guarded(cond, [st], ind)
                continue
            nm, e = a
            out += '%slet %s : %s := if %s then %s else %s\n' % (pad, V(nm), self.ltype(nm), cond, e, V(nm))
        return out + self.seq(rest, k_final, ind)

    def guarded(self, cond, stmts, ind):
        """`if cond then stmts` as a re-binding of the variables `stmts` assign"""
        pad = '  ' * ind
        outs = [x for x in self.assigned(stmts) if x in self.locals]
        if not outs:
            return ''
        t = self.tup(outs)
        return '%slet %s : %s :=\n%s  if %s then\n%s\n%s  else\n%s    %s\n' % (
            pad, t, self.tup_type(outs), pad, cond, self.seq(stmts, lambda: t, ind + 2), pad, pad, t)

    def duff(self, sel, case0, rest, k_final, ind):
        """Duff's device `switch (e) { case L0: do { S0; case L1: S1; ... } while (c); }`: the first pass runs the
        statements from the matching label on, then `while (c)` runs complete passes; no label matches -> nothing runs"""
        pad = '  ' * ind
        do = case0['inner'][-1]
        dobody, docond = do['inner'][0], do['inner'][1]
        items = []       # (labels, statement)

        def lab(n):
            v = strip(n['inner'][0])
            while v.get('kind') in ('ImplicitCastExpr', 'CStyleCastExpr'):
                v = strip(v['inner'][0])
            if v.get('kind') != 'IntegerLiteral':
                raise CTransError('%s: non-literal case label' % self.name)
            return int(v['value'])

        def flat(n, labels):
            if n.get('kind') == 'CaseStmt':
                flat(n['inner'][-1], labels + [lab(n)])
            elif n.get('kind') == 'DefaultStmt':
                raise CTransError('%s: default label inside a Duff device' % self.name)
            else:
                items.append((labels, n))
        first = True
        for c in self.body_list(dobody):
            flat(c, [lab(case0)] if first else [])
            first = False
        stmts = [st for _, st in items]
        if self.has(stmts, ('BreakStmt', 'ContinueStmt', 'ReturnStmt', 'GotoStmt', 'CaseStmt')):
            raise CTransError('%s: control transfer inside a Duff device' % self.name)
        npos = len(items)
        chain = '(%d : Int)' % npos
        for p_, (labels, st) in reversed(list(enumerate(items))):
            for l in labels:
                chain = '(if sw_sel = (%d : Int) then (%d : Int) else %s)' % (l, p_, chain)
        out = '%slet sw_sel : Int := %s\n%slet sw_pos : Int := %s\n' % (pad, sel, pad, chain)
        for p_, (labels, st) in enumerate(items):
            out += self.guarded('decide (sw_pos ≤ (%d : Int))' % p_, [st], ind)
        # the remaining complete passes: `while (c) { S0 .. Sn }`, only if a label matched
        loop = dict(kind='WhileStmt', inner=[docond, dict(kind='CompoundStmt', inner=stmts)])
        out += self.guarded('decide (sw_pos < (%d : Int))' % npos, [loop], ind)
        return out + self.seq(rest, k_final, ind)

    def ret(self, n):
        kk = self.expr_kind(strip(n))
        e = self.value(n)
        if self.ret_kind and kk != self.ret_kind:
            e = self.conv(e, kk, self.ret_kind, self.ret_type)
        if self.outparams or self.ret_mems:
            e = '(%s, %s)' % (e, ', '.join([V('deref_' + x) for x in self.outparams] + [V(m) for m in self.ret_mems]))
        return e


def strip_casts_kind(n):
    return strip(n)


class Translator:
    def __init__(self, tu_dir, tu_dir_nosse=None):
        self.tu_dir = tu_dir
        self.tu_dir_nosse = tu_dir_nosse
        self.known_fns = {}       # C name -> Lean name
        self.sigs = {}            # C name -> signature of the generated function (for calls)
        self.externs = None       # per function: C name -> description of an untranslated callee
        self.globals_ = {'m4ri_radix': ('i', '64'), 'm4ri_one': ('w', '1'), 'm4ri_ffff': ('w', None),
                         'mzd_flag_nonzero_excess': ('c', '2'), 'mzd_flag_windowed': ('c', '4')}
        self.fuels = {}
        self.out = []
        self.meta = []

    def fuel(self, fname, no):
        f = self.fuels.get((fname, no))
        if f is None:
            raise CTransError('%s: no fuel registered for loop %d' % (fname, no))
        return '(%s)' % f

    def global_value(self, name, kk):
        k, v = self.globals_[name]
        if name == 'm4ri_ffff':
            return '(BitVec.allOnes 64)'
        return '(%s : Int)' % v if k == 'i' else '(%s#%d)' % (v, WIDTH[k])

    def check_globals(self):
        """the three global constants the translation inlines must still have the values assumed here"""
        misc = open(os.path.join(self.tu_dir, 'm4ri', 'misc.h')).read()
        if not re.search(r'static\s+int\s+const\s+m4ri_radix\s*=\s*64\s*;', misc):
            raise CTransError('misc.h: m4ri_radix is no longer 64')
        if not re.search(r'static\s+word\s+const\s+m4ri_one\s*=\s*m4ri_radix\s*==\s*64\s*\?\s*UINT64_C\(1\)', misc) and \
           not re.search(r'static\s+word\s+const\s+m4ri_one\s*=\s*__M4RI_CONVERT_TO_WORD\(1\)', misc):
            raise CTransError('misc.h: definition of m4ri_one not recognised')
        if not re.search(r'static\s+word\s+const\s+m4ri_ffff\s*=\s*__M4RI_CONVERT_TO_WORD\(-1\)', misc):
            raise CTransError('misc.h: definition of m4ri_ffff not recognised')
        mzdh = open(os.path.join(self.tu_dir, 'm4ri', 'mzd.h')).read()
        if not re.search(r'static\s+uint8_t\s+const\s+mzd_flag_nonzero_excess\s*=\s*0x2\s*;', mzdh) or \
           not re.search(r'static\s+uint8_t\s+const\s+mzd_flag_windowed\s*=\s*0x4\s*;', mzdh):
            raise CTransError('mzd.h: the flag constants are no longer 0x2 / 0x4')

    def function(self, cfile, cname, lname, fuels=(), slice_=None, doc='', nosse=False, outparams=None, mem1=None, builder=False, externs=None, retparam=None, retlocal=None, alias=None):
        for i, f in enumerate(fuels):
            self.fuels[(cname if not slice_ else lname, i + 1)] = f
        ast = clang_ast(self.tu_dir if not nosse else self.tu_dir_nosse, cfile, cname, sse=not nosse)
        self.externs = externs
        fn = Fn(self, cname if not slice_ else lname)
        fn.alias = dict(alias or {})
        body = [c for c in ast['inner'] if c.get('kind') == 'CompoundStmt'][0]
        body = normalise_ast(body, cname)
        fn.body_ast = body
        if slice_ is None:
            for p in ast['inner']:
                if p.get('kind') == 'ParmVarDecl':
                    pk = kind_of(p['type']['qualType'])
                    if pk is None:
                        raise CTransError('%s: parameter %s of unsupported type %r' % (cname, p.get('name'), p['type']['qualType']))
                    if pk == 'p:?':
                        continue                       # a struct pointer (mzd_t *): its fields / rows become parameters on use
                    if pk == 'p:i' and p['name'] in (mem1 or ()):
                        # an integer array written by the function: a 1-dimensional memory, returned with the others
                        mname = 'mem1_' + p['name']
                        fn.locals[mname] = 'm1i'
                        fn.free(V(mname), 'm1i', ('scalar', p['name']))
                        fn.ptrs[p['name']] = (mname, '')
                        fn.ptr_mem[p['name']] = mname
                        fn.locals[p['name']] = 'i'
                        fn.prelude += '  let %s : Int := (0 : Int)\n' % V(p['name'])
                        continue
                    if pk == 'p:i' and p['name'] in (outparams or ()):
                        # written through `*p = e`: a local holding the pointee; its initial value is a parameter
                        fn.outparams.append(p['name'])
                        fn.locals['deref_' + p['name']] = 'i'
                        fn.free(V('deref_' + p['name']), 'i', ('scalar', p['name']))
                        continue
                    if pk in LTYPE:
                        fn.locals[p['name']] = pk      # parameters are assignable locals
                    fn.free(V(p['name']), pk)
            rt = ast['type']['qualType'].split('(')[0].strip()
            fn.prepass(body)
            stmts = list(body.get('inner', []))
            if rt == 'void' or retparam:
                outs = [x for x in fn.assigned(stmts) if (x.startswith('mem_') or x.startswith('mem1_')) and
                        not any(x == 'mem_' + l_ or x == 'mem1_%s_values' % l_ for l_ in fn.local_mats(body))]
                if not outs:
                    raise CTransError('%s: void function that writes no modelled memory' % cname)
                fn.void_outs = outs
                for m_ in outs:
                    if m_.startswith('mem1_'):
                        continue
                    fn.locals[m_] = 'm2'
                    fn.free(V(m_), 'm2', ('mem', m_[4:]))
                term = fn.prelude + fn.seq(stmts, lambda: fn.tup(outs), 1)
                rty = fn.tup_type(outs)
            elif retlocal:
                fn.retlocal = retlocal
                fn.retlocal_outs = [x for x in fn.assigned(stmts) if (x.startswith('mem_') or x.startswith('mem1_')) and
                                    not any(x == 'mem_' + l_ or x == 'mem1_%s_values' % l_ for l_ in fn.local_mats(body))]
                for m_ in fn.retlocal_outs:
                    fn.locals[m_] = 'm2'
                    fn.free(V(m_), 'm2', ('mem', m_[4:]))
                term = fn.seq(stmts, lambda: (_ for _ in ()).throw(CTransError('%s: control reaches the end without return' % cname)), 1)
                rty = ' × '.join(['Int'] + ['(%s)' % fn.ltype(m_) for m_ in fn.retlocal_outs] + ['(%s)' % LTYPE['m2'], 'Int', 'Int'])
            elif builder:
                fn.ret_kind = None
                term = fn.seq(stmts, lambda: (_ for _ in ()).throw(CTransError('%s: control reaches the end without return' % cname)), 1)
                rty = ' × '.join('(%s)' % fn.ltype('fld_' + f) for f in fn.sfields)
            else:
                fn.ret_kind = kind_of(rt)
                fn.ret_type = rt
                if fn.ret_kind not in LTYPE:
                    raise CTransError('%s: return type %r' % (cname, rt))
                fn.ret_mems = [x for x in fn.assigned(stmts) if (x.startswith('mem_') or x.startswith('mem1_')) and
                               not any(x == 'mem_' + l_ or x == 'mem1_%s_values' % l_ for l_ in fn.local_mats(body))]
                for m_ in fn.ret_mems:
                    if m_.startswith('mem1_'):
                        fn.locals[m_] = 'm1i'
                        fn.free(V(m_), 'm1i', ('field',) + tuple(m_[5:].split('_', 1)))
                    else:
                        fn.locals[m_] = 'm2'
                        fn.free(V(m_), 'm2', ('mem', m_[4:]))
                term = fn.seq(stmts, lambda: (_ for _ in ()).throw(CTransError('%s: control reaches the end without return' % cname)), 1)
                rty = fn.ret_lean_type()
        else:
            outs = slice_.get('outs')
            fn.prepass(body)
            if 'from_decl' in slice_:
                stmts = find_to_end(body, slice_['from_decl'], cname)
                fn.ret_kind = kind_of(ast['type']['qualType'].split('(')[0].strip())
                fn.ret_type = ast['type']['qualType'].split('(')[0].strip()
                fn.ret_mems = [x for x in fn.assigned(stmts) if x.startswith('mem_') or x.startswith('mem1_')]
                for m_ in fn.ret_mems:
                    if m_.startswith('mem1_'):
                        fn.locals[m_] = 'm1i'
                        fn.free(V(m_), 'm1i', ('field',) + tuple(m_[5:].split('_', 1)))
                    else:
                        fn.locals[m_] = 'm2'
                        fn.free(V(m_), 'm2', ('mem', m_[4:]))
                # the struct aliases declared before the slice in the same function are not visible: the slice must be
                # self-contained
                term = fn.seq(stmts, lambda: (_ for _ in ()).throw(CTransError('%s: slice does not end in return' % cname)), 1)
                rty = fn.ret_lean_type()
                outs = None
            elif 'after' in slice_:
                stmts = find_after(body, slice_['after'], slice_['take_for'], cname)
            else:
                start, end = slice_['start'], slice_['end']
                stmts = find_slice(body, start, end, cname, slice_.get('nth', 0), slice_.get('expect', 1))
            fn.ret_kind = None
            # declarations preceding the slice that the slice assigns (e.g. `rci_t mmm, kkk, nnn;`)
            for nm, ty in slice_.get('predeclared', {}).items():
                fn.locals[nm] = ty
            pre = ''.join('  let %s : %s := %s\n' % (V(nm), LTYPE[ty], fn.lit(0, ty)) for nm, ty in slice_.get('predeclared', {}).items())
            for o_ in (outs or []):
                if o_.startswith('mem1_') and o_ not in fn.locals:
                    fn.locals[o_] = 'm1i'
                    fn.free(V(o_), 'm1i', ('field',) + tuple(o_[5:].split('_', 1)))
                if o_.startswith('mem_') and o_ not in fn.locals:
                    fn.locals[o_] = 'm2'
                    fn.free(V(o_), 'm2', ('mem', o_[4:]))
            if outs is not None:
                term = pre + fn.seq(stmts, lambda: fn.tup(outs), 1)
                rty = fn.tup_type(outs)
        params = ' '.join('(%s : %s)' % (n, lean_type(k)) for n, k in fn.params)
        self.known_fns[cname] = 'M4ri.Gen.C.' + lname
        if not slice_:
            self.sigs[cname] = dict(cparams=[(p_['name'], kind_of(p_['type']['qualType'])) for p_ in ast['inner'] if p_.get('kind') == 'ParmVarDecl'],
                                    params=[(n_, k_, fn.origin[n_]) for n_, k_ in fn.params], void_outs=fn.void_outs,
                                    outparams=list(fn.outparams), ret_mems=list(fn.ret_mems), sfields=list(fn.sfields))
        self.out.append('/-- %s `%s`%s%s -/\ndef %s %s : %s :=\n%s\n' % (
            cfile, cname, ' (slice %s .. %s)' % (slice_.get('start', 'after ' + str(slice_.get('after', slice_.get('from_decl')))), slice_.get('end', '%s for-loops' % slice_.get('take_for'))) if slice_ else '', (' — ' + doc) if doc else '',
            lname, params, rty, term))
        self.meta.append(dict(file=cfile, function=cname, lean=lname, params=[n for n, _ in fn.params], slice=bool(slice_), loops=fn.loop_no))


def declares_or_assigns(s, var):
    k = s.get('kind')
    if k == 'DeclStmt':
        return any(d.get('kind') == 'VarDecl' and d.get('name') == var for d in s.get('inner', []))
    if (k == 'BinaryOperator' and s.get('opcode') == '=') or k == 'CompoundAssignOperator':
        t = strip(s['inner'][0])
        return t.get('kind') == 'DeclRefExpr' and t['referencedDecl']['name'] == var
    return False


def find_to_end(body, var, cname):
    """the statements from the declaration of `var` to the end of the block that declares it"""
    found = []

    def walk(n):
        if n.get('kind') == 'CompoundStmt':
            ch = n.get('inner', [])
            for i, s in enumerate(ch):
                if declares_or_assigns(s, var) and s.get('kind') == 'DeclStmt':
                    found.append(ch[i:])
                    break
        for c in n.get('inner', []):
            if isinstance(c, dict):
                walk(c)
    walk(body)
    if len(found) != 1:
        raise CTransError('%s: %d blocks declare %s' % (cname, len(found), var))
    return found[0]


def find_after(body, var, nfor, cname):
    """in the block that declares `var`: the declarations of struct aliases (mzp_init_window) of that block, followed by
    the first `nfor` for-loops after the declaration of `var` (other statements between them are calls of untranslated
    functions and are not part of the slice)"""
    found = []

    def walk(n):
        if n.get('kind') == 'CompoundStmt':
            ch = n.get('inner', [])
            for i, s in enumerate(ch):
                if declares_or_assigns(s, var):
                    pre = [x for x in ch[:i] if x.get('kind') == 'DeclStmt' and any(
                        d.get('kind') == 'VarDecl' and (kind_of(d['type']['qualType']) or '') == 'p:?' and
                        'mzp_init_window' in json.dumps(d) for d in x.get('inner', []))]
                    fors = [x for x in ch[i + 1:] if x.get('kind') == 'ForStmt'][:nfor]
                    if len(fors) == nfor:
                        found.append(pre + fors)
        for c in n.get('inner', []):
            if isinstance(c, dict):
                walk(c)
    walk(body)
    if len(found) != 1:
        raise CTransError('%s: %d blocks declare %s followed by %d for-loops' % (cname, len(found), var, nfor))
    return found[0]


def find_slice(body, start, end, cname, nth=0, expect=1):
    """the statements of the innermost block that directly contains a statement declaring/assigning `start` followed
    (not necessarily immediately) by one declaring/assigning `end`; returns start..end inclusive"""
    found = []

    def walk(n):
        if n.get('kind') == 'CompoundStmt':
            ch = n.get('inner', [])
            for i, s in enumerate(ch):
                if declares_or_assigns(s, start):
                    for j in range(i, len(ch)):
                        if declares_or_assigns(ch[j], end) and (j > i or start == end):
                            found.append(ch[i:j + 1])
                            break
                    break
        for c in n.get('inner', []):
            if isinstance(c, dict):
                walk(c)
    walk(body)
    if len(found) != expect:
        raise CTransError('%s: slice %s..%s found %d times (expected %d)' % (cname, start, end, len(found), expect))
    return found[nth]


MACRO_WRAPPERS = r'''
#include "m4ri/m4ri.h"
word vt_left_bitmask(int n) { return __M4RI_LEFT_BITMASK(n); }
word vt_right_bitmask(int n) { return __M4RI_RIGHT_BITMASK(n); }
word vt_middle_bitmask(int n, int offset) { return __M4RI_MIDDLE_BITMASK(n, offset); }
word vt_get_bit(word w, int spot) { return __M4RI_GET_BIT(w, spot); }
word vt_write_bit(word w, int spot, int value) { __M4RI_WRITE_BIT(w, spot, value); return w; }
word vt_flip_bit(word w, int spot) { __M4RI_FLIP_BIT(w, spot); return w; }
int vt_twopow(int i) { return __M4RI_TWOPOW(i); }
'''


# the catalogue: what is translated.  (file, C function, Lean name, fuels per loop, slice, doc)
def catalogue(t):
    F = t.function
    # --- misc.h macros (through one-line wrappers, so that the preprocessor's expansion is what is translated)
    F('vt_macros.c', 'vt_left_bitmask', 'leftBitmask', doc='__M4RI_LEFT_BITMASK')
    F('vt_macros.c', 'vt_right_bitmask', 'rightBitmask', doc='__M4RI_RIGHT_BITMASK')
    F('vt_macros.c', 'vt_middle_bitmask', 'middleBitmask', doc='__M4RI_MIDDLE_BITMASK')
    F('vt_macros.c', 'vt_get_bit', 'getBit', doc='__M4RI_GET_BIT')
    F('vt_macros.c', 'vt_write_bit', 'writeBit', doc='__M4RI_WRITE_BIT')
    F('vt_macros.c', 'vt_flip_bit', 'flipBit', doc='__M4RI_FLIP_BIT')
    F('vt_macros.c', 'vt_twopow', 'twopow', doc='__M4RI_TWOPOW')
    # --- misc.h functions
    F('m4ri/misc.c', 'm4ri_swap_bits', 'swapBits')
    F('m4ri/misc.c', 'm4ri_lesser_LSB', 'lesserLSB')
    F('m4ri/misc.c', 'm4ri_spread_bits', 'spreadBits')
    F('m4ri/misc.c', 'm4ri_shrink_bits', 'shrinkBits')
    # --- mzd.h / mzd.c word-level kernels on the memory model (a matrix M is `mem_M : row -> word index -> word`)
    F('m4ri/mzd.c', 'mzd_read_bit', 'mzdReadBit')
    F('m4ri/mzd.c', 'mzd_write_bit', 'mzdWriteBit')
    F('m4ri/mzd.c', 'mzd_read_bits', 'mzdReadBits')
    F('m4ri/mzd.c', 'mzd_xor_bits', 'mzdXorBits')
    F('m4ri/mzd.c', 'mzd_and_bits', 'mzdAndBits')
    F('m4ri/mzd.c', 'mzd_clear_bits', 'mzdClearBits')
    F('m4ri/mzd.c', '_mzd_row_swap', 'mzdRowSwap', fuels=['(v_M_width).toNat'])
    F('m4ri/mzd.c', 'mzd_row_clear_offset', 'mzdRowClearOffset', fuels=['(v_M_width).toNat'])
    F('m4ri/mzd.c', 'mzd_copy_row', 'mzdCopyRow', fuels=['(v_B_width).toNat + (v_A_width).toNat'])
    F('m4ri/mzd.c', 'mzd_row_add_offset', 'mzdRowAddOffset', fuels=['(v_M_width).toNat'], nosse=True,
      doc='scalar path (configuration without SSE2)')
    F('m4ri/mzd.c', 'mzd_is_zero', 'mzdIsZero', fuels=['(v_A_nrows).toNat', '(v_A_width).toNat'])
    F('m4ri/mzd.c', 'mzd_equal', 'mzdEqual', fuels=['(v_A_nrows).toNat', '(v_A_width).toNat'])
    F('m4ri/mzd.c', 'mzd_cmp', 'mzdCmp', fuels=['(v_A_nrows).toNat', '(v_A_width).toNat'])
    F('m4ri/mzd.c', 'mzd_first_zero_row', 'mzdFirstZeroRow', fuels=['(v_A_nrows).toNat', '(v_A_width).toNat'])
    F('m4ri/mzd.c', 'mzd_combine_even_in_place', 'mzdCombineEvenInPlace', nosse=True, fuels=['(v_A_width).toNat'],
      doc='scalar path: Duff device')
    F('m4ri/mzd.c', 'mzd_combine_even', 'mzdCombineEven', nosse=True, fuels=['(v_A_width).toNat'], doc='scalar path: Duff device')
    F('m4ri/mzd.c', 'mzd_init_window', 'mzdInitWindow', builder=True,
      doc='the header of a window: (nrows, ncols, rowstride, width, high_bitmask, flags, row offset, word offset of its data)')
    F('m4ri/mzd.c', 'mzd_read_bits_int', 'mzdReadBitsInt')
    PR = ['(v_stoprow).toNat + 1'] + ['(v_M_width).toNat'] * 3 + ['(v_stoprow).toNat + 1', '(v_M_width).toNat'] + \
         ['(v_stoprow).toNat + 1', '(v_M_width).toNat', '(v_stoprow).toNat + 1', '(v_M_width).toNat']
    F('m4ri/brilliantrussian.c', 'mzd_process_rows', 'mzdProcessRows', nosse=True, fuels=PR,
      doc='Four-Russians row update with ONE table: k = 1 fast path on row pairs, general path, Duff devices')
    F('m4ri/brilliantrussian.c', 'mzd_make_table', 'mzdMakeTable', nosse=True, mem1=('L',),
      fuels=['(v_k).toNat ^ 2 + 2 ^ (v_k).toNat', '(v_M_width).toNat'],
      doc='Gray-code table construction: 8-fold unrolled word loop + fall-through tail')
    F('m4ri/mzd.c', 'mzd_row_swap', 'mzdRowSwap0')
    F('m4ri/mzd.c', 'mzd_row_add', 'mzdRowAdd', nosse=True)
    F('m4ri/mzd.c', 'mzd_gauss_delayed', 'mzdGaussDelayed', nosse=True,
      fuels=['(v_M_ncols).toNat', '(v_M_nrows).toNat', '(v_M_nrows).toNat'])
    F('m4ri/mzp.c', 'mzd_apply_p_left', 'mzdApplyPLeft', fuels=['(v_A_nrows).toNat'])
    F('m4ri/mzp.c', 'mzd_apply_p_left_trans', 'mzdApplyPLeftTrans', fuels=['(v_A_nrows).toNat'])
    F('m4ri/io.c', 'mzd_from_str', 'mzdFromStr', retlocal='A', fuels=['(v_m).toNat', '(v_n).toNat'],
      doc='returns a fresh m x n matrix: (0, memory, nrows, ncols)')
    F('m4ri/mzd.c', 'mzd_copy', 'mzdCopy', retparam='N', fuels=['(v_P_nrows).toNat', '(v_P_width).toNat'],
      doc='for a supplied destination N')
    F('m4ri/mzd.c', 'mzd_submatrix', 'mzdSubmatrix', retparam='S',
      fuels=['(v_endrow - v_startrow).toNat', '(v_endrow - v_startrow).toNat', '(v_endrow - v_startrow).toNat', '(v_endcol - v_startcol).toNat'],
      doc='for a supplied destination S: aligned path (memcpy of whole words + masked last word) and unaligned path')
    F('m4ri/mzd.c', 'mzd_concat', 'mzdConcat', retparam='C',
      fuels=['(v_A_nrows).toNat', '(v_A_width).toNat', '(v_B_nrows).toNat', '(v_B_ncols).toNat'],
      doc='for a supplied destination C')
    F('m4ri/mzd.c', 'mzd_stack', 'mzdStack', retparam='C',
      fuels=['(v_A_nrows).toNat', '(v_A_width).toNat', '(v_B_nrows).toNat', '(v_B_width).toNat'],
      doc='for a supplied destination C')
    F('m4ri/mzd.c', '_mzd_add', 'mzdAdd', retparam='C', nosse=True, alias={'A': 'C', 'B': 'C'},
      fuels=['(v_nrows).toNat'] * 9,
      doc='C = A + B with C == A and/or C == B allowed: width-specialised loops (1..8 words), mzd_combine_even beyond')
    F('m4ri/mzd.c', 'mzd_add', 'mzdAddTop', retparam='ret', nosse=True, alias={'left': 'ret', 'right': 'ret'},
      doc='for a supplied destination: the dimension checks (die = outside the domain) and _mzd_add')
    F('m4ri/mzd.c', 'mzd_col_swap_in_rows', 'mzdColSwapInRows', fuels=['(v_stop_row - v_start_row).toNat'] * 3,
      doc='column swap in a row range: same-word path (4-fold unrolled + rest) and two-word path; the pointer walks down the rows')
    F('m4ri/mzd.c', 'mzd_col_swap', 'mzdColSwap', doc='mzd_col_swap_in_rows on all rows')
    F('m4ri/mzp.c', 'mzd_apply_p_right_trans_tri', 'mzdApplyPRightTransTri', fuels=['(v_A_nrows).toNat', '(v_A_ncols).toNat'],
      doc='column permutation above the diagonal, in row blocks of L1-cache size')
    F('m4ri/mzd.c', 'mzd_combine', 'mzdCombine', nosse=True, alias={'A': 'C'},
      doc='dispatch: in-place variant when C == A on the same row and block')
    F('m4ri/mzp.c', '_mzd_compress_l', 'mzdCompressL',
      fuels=['(v_r2).toNat', '(v_A_nrows).toNat', '(v_r2).toNat', '(v_r2).toNat', '(v_n1 + v_r2).toNat'],
      doc='compression of L after the recursive PLE step (column swaps in the pivot rows, word-wise shifts below)')
    F('m4ri/mzd.c', 'mzd_set_ui', 'mzdSetUi', fuels=['(v_A_nrows).toNat', '(v_A_width).toNat', '(v_A_nrows).toNat'])
    F('m4ri/mzd.c', '_mzd_mul_va', 'mzdMulVa', retparam='C', nosse=True, fuels=['(v_v_nrows).toNat', '(v_v_ncols).toNat'],
      doc='vector-matrix style product C (+)= v * A: one mzd_combine per set bit of v')
    TRSM = dict(mats=(0, 1), writes=(1,))
    PLUQ = dict(mats=(0,), perms=(1, 2), ret='i', writes=(0,), pwrites=(1, 2))
    F('m4ri/ple.c', '_mzd_pluq', 'pluqFromPle', externs={'_mzd_ple': PLUQ, 'mzd_apply_p_right_trans_tri': dict(mats=(0,), perms=(1,), writes=(0,))},
      doc='PLUQ from PLE: the column swaps on the first r rows (or on all of A)')
    F('m4ri/solve.c', '_mzd_pluq_solve_left', 'pluqSolveLeft', fuels=['(v_B_nrows).toNat', '(v_B_ncols).toNat'],
      externs={'mzd_trsm_lower_left': TRSM, 'mzd_trsm_upper_left': TRSM, 'mzd_addmul': dict(mats=(0, 1, 2), writes=(0,))},
      doc='solving with a given PLUQ factorisation; the triangular solves and the product are function parameters')
    F('m4ri/brilliantrussian.c', 'mzd_inv_m4ri', 'invM4ri', retparam='B',
      externs={'mzd_echelonize_m4ri': dict(mats=(0,), ret='i', writes=(0,))},
      fuels=['(v_A_nrows).toNat + (v_A_width).toNat'] * 8,
      doc='for a supplied destination B: work matrix [A | pad | I], M4RI elimination (function parameter; note the constant 0 '
          'passed as k), copy of the right block')
    F('m4ri/solve.c', 'mzd_kernel_left_pluq', 'kernelLeftPluq', retlocal='R',
      fuels=['(v_A_ncols).toNat', '(v_A_ncols).toNat + 1', '(v_A_ncols).toNat'],
      externs={'mzd_pluq': PLUQ, 'mzd_trsm_upper_left': dict(mats=(0, 1), writes=(1,))},
      doc='right kernel through PLUQ: returns (1, …) for NULL (full column rank), else (0, new A, memory of the fresh R, its shape)')
    F('m4ri/solve.c', '_mzd_solve_left', 'solveLeftTop', externs={'_mzd_pluq': PLUQ, 'mzd_pluq_solve_left': dict(mats=(0, 4), perms=(2, 3), ret='i', writes=(4,))},
      doc='mzd_solve_left: padding-row test, then PLUQ and the solve with the factorisation (function parameters)')
    F('m4ri/echelonform.c', 'mzd_echelonize_pluq', 'echelonizePluq', fuels=['(v_A_nrows).toNat', '(v_A_ncols).toNat + 1'],
      externs={'mzd_pluq': PLUQ, 'mzd_ple': PLUQ, 'mzd_trsm_upper_left': dict(mats=(0, 1), writes=(1,)),
               'mzd_submatrix': dict(alts=[dict(null=(0,), mats=(1,), ret='mat', suffix='_new')]),
               'mzd_copy': dict(alts=[dict(mats=(0, 1), writes=(0,))]),
               'mzd_apply_p_right': dict(mats=(0,), perms=(1,), writes=(0,))},
      doc='(reduced) row echelon form through PLUQ / PLE: the three r mod 64 cases of the back substitution, U := I, column '
          'permutation on the first r rows; full = 0: L cleared, pivots written; rows below the rank zeroed')
    R, W = '(v_A_nrows).toNat', '(v_A_width).toNat'
    F('m4ri/mzd.c', 'mzd_find_pivot', 'mzdFindPivot', outparams=('r', 'c'),
      fuels=['(v_A_ncols).toNat + 1', R, '64', R, '64', W, R, '64', R, '64'])
    # --- graycode
    F('m4ri/graycode.c', 'm4ri_gray_code', 'grayCode', fuels=['(v_length).toNat + 1'])
    F('m4ri/graycode.c', 'log2_floor', 'log2Floor', fuels=['6'])
    F('m4ri/graycode.c', 'm4ri_opt_k', 'optK')
    # --- parity.h
    F('m4ri/mzd.c', 'm4ri_parity64_helper', 'parity64Helper')
    F('m4ri/mzd.c', 'm4ri_parity64', 'parity64')
    NV = ['(v_C_nrows).toNat', '(v_C_width).toNat', '(64 : Nat)',
          '(v_C_nrows).toNat', '(v_C_nrows).toNat', '(v_C_width).toNat + 1', '(64 : Nat)', '(v_A_width).toNat', '(64 : Nat)', '(v_A_width).toNat',
          '(v_C_nrows).toNat', '(v_C_width).toNat + 1', '(64 : Nat)', '(v_A_width).toNat', '(64 : Nat)', '(v_A_width).toNat']
    F('m4ri/mzd.c', '_mzd_mul_naive', 'mzdMulNaive', retparam='C', nosse=True, fuels=NV,
      doc='C (+)= A * B^T given the transposed B: 64 AND-accumulated words per destination word, parity network; blocked and remainder row loops')
    # --- strassen.c
    F('m4ri/strassen.c', 'closer', 'closer')
    sl = dict(start='mult', end='nnn', outs=['mmm', 'kkk', 'nnn'], predeclared={'mmm': 'i', 'kkk': 'i', 'nnn': 'i'})
    F('m4ri/strassen.c', '_mzd_mul_even', 'mulEvenSplit', fuels=['64'], slice_=sl)
    F('m4ri/strassen.c', '_mzd_addmul_even', 'addmulEvenSplit', fuels=['64'], slice_=sl)
    sq = dict(start='mult', end='mmm', outs=['mmm'], predeclared={'mmm': 'i'})
    F('m4ri/strassen.c', '_mzd_sqr_even', 'sqrEvenSplit', fuels=['64'], slice_=sq)
    F('m4ri/strassen.c', '_mzd_addsqr_even', 'addsqrEvenSplit', fuels=['64'], slice_=sq)
    # --- mzd.c
    F('m4ri/mzd.c', 'split_round', 'splitRound')
    # --- recursive split points of ple.c / triangular.c
    one = lambda v: dict(start=v, end=v, outs=[v])
    F('m4ri/ple.c', '_mzd_ple', 'pleSplit', slice_=one('n1'))
    F('m4ri/ple.c', '_mzd_ple', 'plePermUpdate', fuels=['(v_nrows).toNat', '(v_ncols).toNat', '(v_r2).toNat'],
      slice_=dict(after='r2', take_for=3, outs=['mem1_P_values', 'mem1_Q_values']),
      doc='the permutation bookkeeping after the second recursive call: P2 += r1, Q2 += n1, Q[r1..r1+r2) = Q[n1..n1+r2) (P2, Q2 are windows of P, Q)')
    AM = dict(mats=(0, 1, 2), writes=(0,))
    T2 = dict(mats=(0, 1), writes=(1,))
    F('m4ri/mzd.c', 'mzd_is_windowed', 'mzdIsWindowed')
    COPY = dict(alts=[dict(null=(0,), mats=(1,), ret='mat', suffix='_new'), dict(mats=(0, 1), writes=(0,))])
    MULNEW = dict(alts=[dict(null=(0,), mats=(1, 2), ret='mat', suffix='_new'), dict(mats=(0, 1, 2), writes=(0,))])
    for (cfn, lfn) in (('_mzd_mul_even', 'strassenMulEven'), ('_mzd_addmul_even', 'strassenAddmulEven'),
                       ('_mzd_sqr_even', 'strassenSqrEven'), ('_mzd_addsqr_even', 'strassenAddsqrEven')):
        ext = {'mzd_copy': COPY, 'mzd_mul': MULNEW, '_mzd_add': AM, '_mzd_mul_m4rm': AM, '_mzd_addmul_m4rm': AM,
               'mzd_addmul_m4rm': AM, 'mzd_addmul': AM, '_mzd_mul_even': AM, '_mzd_addmul_even': AM,
               '_mzd_sqr_even': dict(mats=(0, 1), writes=(0,)), '_mzd_addsqr_even': dict(mats=(0, 1), writes=(0,)),
               '_mzd_addmul': AM, 'mzd_mul_m4rm': AM}
        F('m4ri/strassen.c', cfn, lfn, externs=ext, retparam='C', fuels=['64'],
          doc='Strassen-Winograd step: base-case test, split, Bodrato sequence on 12 windows and 2 temporaries, remainder '
              'strips; the recursive calls, the additions and the Four-Russians products are function parameters')
    for (cfn, lfn, base_, mid_) in (('_mzd_trsm_upper_right', 'trsmUpperRightRec', '_mzd_trsm_upper_right_base', '_mzd_trsm_upper_right_trtri'),
                                    ('_mzd_trsm_lower_right', 'trsmLowerRightRec', '_mzd_trsm_lower_right_base', None),
                                    ('_mzd_trsm_lower_left', 'trsmLowerLeftRec', None, '_mzd_trsm_lower_left_russian'),
                                    ('_mzd_trsm_upper_left', 'trsmUpperLeftRec', None, '_mzd_trsm_upper_left_russian')):
        ext = {cfn: T2, 'mzd_addmul': AM, '_mzd_addmul': AM}
        if base_:
            ext[base_] = T2
        if mid_:
            ext[mid_] = dict(mats=(0, 1), writes=(1,))
        F('m4ri/triangular.c', cfn, lfn, externs=ext, fuels=['(v_B_nrows).toNat + (v_B_ncols).toNat'] * 4,
          doc='regime switch + block recursion (the base kernels, the recursive calls and the product are function parameters)')
    F('m4ri/strassen.c', 'mzd_mul', 'mzdMul', retparam='C',
      doc='for a supplied destination: cut-off normalisation (default numeral, multiple of 64, at least 64) and the dispatch to the '
          'squaring route when both factors are the same object; the two translated Strassen routines are called with their callees '
          'passed through')
    F('m4ri/strassen.c', '_mzd_addmul', 'mzdAddmulDispatch', retparam='C', doc='A == B dispatch of the accumulating product')
    F('m4ri/strassen.c', 'mzd_addmul', 'mzdAddmul', retparam='C', doc='for a supplied destination')
    F('m4ri/triangular.c', 'mzd_trtri_upper', 'trtriUpperRec', retparam='U',
      externs={'mzd_trtri_upper_russian': dict(mats=(0,), writes=(0,)), 'mzd_trtri_upper': dict(mats=(0,), writes=(0,))},
      doc='inversion of an upper triangular matrix: regime switch on nrows*ncols vs 2*L3 (size_t arithmetic), split, the two '
          'translated TRSM routines on windows, two recursive calls (function parameters)')
    PLE_EXT = {'_mzd_ple': dict(mats=(0,), perms=(1, 2), ret='i', writes=(0,), pwrites=(1, 2)),
               'mzd_addmul': dict(mats=(0, 1, 2), writes=(0,)),
               '_mzd_compress_l': dict(mats=(0,), writes=(0,))}
    F('m4ri/ple.c', '_mzd_ple', 'pleRecStep', fuels=['(v_nrows).toNat', '(v_ncols).toNat', '(v_ncols).toNat'],
      slice_=dict(from_decl='n1'), externs=PLE_EXT,
      doc='the block-recursive step: split, first recursive call, Schur complement, second recursive call, fix-ups of A10, P, Q, '
          'L compression; the recursive calls, the triangular solve, the product and the L compression are function parameters')
    F('m4ri/ple.c', '_mzd_ple', 'pleFull', fuels=['(v_A_nrows).toNat', '(v_A_ncols).toNat', '(v_A_nrows).toNat', '(v_A_ncols).toNat', '(v_A_ncols).toNat'],
      externs=dict(PLE_EXT, mzd_copy=COPY, _mzd_ple_russian=dict(mats=(0,), perms=(1, 2), ret='i', writes=(0,), pwrites=(1, 2))),
      doc='the WHOLE function: zero-row test, permutation initialisation, regime test (PLE cut-off numeral), base case through a copy '
          '(Four-Russians PLE as a function parameter), recursive branch')
    F('m4ri/ple.c', '_mzd_ple', 'plePermInit', fuels=['(v_A_nrows).toNat', '(v_A_ncols).toNat'],
      slice_=dict(after='nrows', take_for=2, outs=['mem1_P_values', 'mem1_Q_values']),
      doc='P[i] = i for the zero rows, Q[i] = i')
    F('m4ri/mzd.c', 'mzd_extract_u', 'extractUClear', fuels=['(v_U_nrows).toNat', '(v_U_nrows).toNat'],
      slice_=dict(after='k', take_for=1, outs=['mem_U']), doc='clearing the strictly lower triangle after the copy')
    F('m4ri/mzd.c', 'mzd_extract_l', 'extractLClear', fuels=['(v_L_nrows).toNat', '(v_L_width).toNat'],
      slice_=dict(after='k', take_for=1, outs=['mem_L']), doc='clearing the strictly upper triangle after the copy (excess bits kept)')
    F('m4ri/triangular.c', '_mzd_trsm_upper_right', 'trsmUpperRightSplit', slice_=one('nb1'))
    F('m4ri/triangular.c', '_mzd_trsm_lower_right', 'trsmLowerRightSplit', slice_=one('nb1'))
    F('m4ri/triangular.c', '_mzd_trsm_lower_left', 'trsmLowerLeftSplit', slice_=one('mb1'))
    F('m4ri/triangular.c', '_mzd_trsm_upper_left', 'trsmUpperLeftSplit', slice_=one('mb1'))
    # --- the division of kbar pivots among 2..6 Gray-code tables (brilliantrussian.c)
    F('m4ri/brilliantrussian.c', 'mzd_process_rows2', 'processRows2Split', slice_=dict(start='ka', end='kb', outs=['ka', 'kb']))
    names = ['ka', 'kb', 'kc', 'kd', 'ke', 'kf']
    for nt in (3, 4, 5, 6):
        F('m4ri/brilliantrussian.c', 'mzd_process_rows%d' % nt, 'processRows%dSplit' % nt,
          slice_=dict(start='rem', end=names[nt - 1], outs=names[:nt]))
    for (cfn, pre) in (('_mzd_echelonize_m4ri', 'echelonize'), ('_mzd_top_echelonize_m4ri', 'topEchelonize')):
        for nt in (6, 5, 4, 3):
            # the block for nt tables is the (6-nt)-th block (in textual order) that declares rem .. names[nt-1]
            F('m4ri/brilliantrussian.c', cfn, '%sSplit%d' % (pre, nt),
              slice_=dict(start='rem', end=names[nt - 1], outs=names[:nt], nth=6 - nt, expect=7 - nt))
        F('m4ri/brilliantrussian.c', cfn, '%sSplit2' % pre, slice_=dict(start='ka', end='kb', outs=['ka', 'kb'], nth=4, expect=5))


PRELUDE = '''/- GENERATED by vlib/ctrans.py from /repo/m4ri (clang typed AST) on every check. Do not edit. -/
set_option linter.unusedVariables false
namespace M4ri.Gen.CLoop
/-- `while (cond s) s := body s`, at most `fuel` iterations (GenTie proves the fuel sufficient on the C domain) -/
def loop {σ : Type} (fuel : Nat) (cond : σ → Bool) (body : σ → σ) (s : σ) : σ :=
  match fuel with
  | 0 => s
  | n + 1 => if cond s then loop n cond body (body s) else s
/-- `&`, `|`, `^` of C signed integers: two's complement, exact for operands within 64 bits -/
def iand (a b : Int) : Int := (BitVec.ofInt 64 a &&& BitVec.ofInt 64 b).toInt
def ior (a b : Int) : Int := (BitVec.ofInt 64 a ||| BitVec.ofInt 64 b).toInt
def ixor (a b : Int) : Int := (BitVec.ofInt 64 a ^^^ BitVec.ofInt 64 b).toInt
/-- `a << n` on a signed integer (no overflow assumed) -/
def ishl (a : Int) (n : Nat) : Int := a * 2 ^ n
/-- store into a 2-dimensional word memory (row, word index) -/
def upd2 (m : Int → Int → BitVec 64) (r i : Int) (v : BitVec 64) : Int → Int → BitVec 64 :=
  fun r' i' => if r' = r ∧ i' = i then v else m r' i'
/-- what a callee sees of a window: the parent's memory shifted by the window's row / word offset -/
def view (m : Int → Int → BitVec 64) (r0 w0 : Int) : Int → Int → BitVec 64 := fun r w => m (r0 + r) (w0 + w)
/-- write a callee's result for a window (rows `[0,nr)`, words `[0,nw)` of the window) back into the parent's memory -/
def unview (m : Int → Int → BitVec 64) (r0 w0 nr nw : Int) (res : Int → Int → BitVec 64) : Int → Int → BitVec 64 :=
  fun r w => if r0 ≤ r ∧ r < r0 + nr ∧ w0 ≤ w ∧ w < w0 + nw then res (r - r0) (w - w0) else m r w
/-- a matrix argument of a function that is NOT translated (passed to the function parameter that stands for it) -/
structure MView where
  mem : Int → Int → BitVec 64
  nrows : Int
  ncols : Int
  width : Int
  hb : BitVec 64
/-- `memcpy` of `n` whole words into row `r` from word `o` on -/
def copyWords (m : Int → Int → BitVec 64) (r o : Int) (src : Int → BitVec 64) (n : Int) : Int → Int → BitVec 64 :=
  fun r' w' => if r' = r ∧ o ≤ w' ∧ w' < o + n then src (w' - o) else m r' w'
/-- store into a 1-dimensional integer array -/
def upd1 (m : Int → Int) (i v : Int) : Int → Int := fun i' => if i' = i then v else m i'
/-- a store into a local array of words -/
def upd1w (m : Int → BitVec 64) (i : Int) (v : BitVec 64) : Int → BitVec 64 := fun i' => if i' = i then v else m i'
/-- a constant local array -/
def tab {α : Type} (l : List α) (d : α) (i : Int) : α := if i < 0 then d else l.getD i.toNat d
end M4ri.Gen.CLoop
namespace M4ri.Gen.C
open M4ri.Gen
'''


def regenerate():
    d = tempfile.mkdtemp(prefix='m4rict-')
    try:
        from . import build as B
        srcdir = os.path.join(REPO, 'm4ri')
        for sub, cfg in (('sse', B.DEFAULT_CFG), ('nosse', dict(B.DEFAULT_CFG, sse2=0))):
            os.makedirs(os.path.join(d, sub, 'm4ri'))
            for f in os.listdir(srcdir):
                if (f.endswith('.c') or f.endswith('.h')) and f not in ('m4ri_config.h', 'config.h'):
                    shutil.copy(os.path.join(srcdir, f), os.path.join(d, sub, 'm4ri', f))
            open(os.path.join(d, sub, 'm4ri', 'm4ri_config.h'), 'w').write(B.config_h(cfg))
            open(os.path.join(d, sub, 'vt_macros.c'), 'w').write(MACRO_WRAPPERS)
        t = Translator(os.path.join(d, 'sse'), os.path.join(d, 'nosse'))
        t.check_globals()
        catalogue(t)
        text = PRELUDE + '\n'.join(t.out) + '\nend M4ri.Gen.C\n'
    finally:
        shutil.rmtree(d, ignore_errors=True)
    path = os.path.join(GEN, 'CFuns.lean')
    changed = not (os.path.exists(path) and open(path).read() == text)
    if changed:
        open(path, 'w').write(text)
    return dict(changed=changed, functions=t.meta)


if __name__ == '__main__':
    print(json.dumps(regenerate(), indent=1))
