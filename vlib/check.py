"""Generic driver of one property check: translator -> lake build + audit -> rebuild /repo -> correspondence
-> (on failure) search for a failing input -> replay + VIOLATION line -> evidence."""
import argparse, json, os, re, sys, time, traceback

from . import build as B
from . import core, cases
from .props import PROPS

VERIF = core.VERIF


def theorem_names(module):
    """theorem names declared in a Props module (namespace-qualified)"""
    path = os.path.join(core.LEAN, *module.split('.')) + '.lean'
    if not os.path.exists(path):
        return []
    src = core.strip_comments(open(path).read())
    ns = []
    names = []
    for line in src.splitlines():
        m = re.match(r'\s*namespace\s+(\S+)', line)
        if m:
            ns.append(m.group(1))
            continue
        m = re.match(r'\s*end\s+(\S+)', line)
        if m and ns and ns[-1] == m.group(1):
            ns.pop()
            continue
        m = re.match(r'\s*(?:@\[[^\]]*\]\s*)?(?:private\s+|protected\s+)?theorem\s+([^\s:({\[]+)', line)
        if m:
            names.append('.'.join(ns + [m.group(1)]))
        # theorems proved in a lemma module and listed as part of the property: `#check @Fully.Qualified.name`
        m = re.match(r'\s*#check\s+@([\w.\']+)', line)
        if m:
            names.append(m.group(1))
    return names


def known_match(known, pid, rec):
    """does a known finding cover this record? findings are matched on (property, op, signature substring)"""
    for f in known.get('findings', []):
        if f.get('property') != pid:
            continue
        if f.get('op') and rec.get('op') != f['op']:
            continue
        sig = f.get('match')
        if sig and sig not in rec.get('line', ''):
            continue
        return f
    return None


def run(pid, tier='quick', seed=None, replay=None):
    t0 = time.time()
    prop = PROPS[pid]
    seed = int(os.environ.get('VERIF_SEED', '1')) if seed is None else seed
    if replay:
        pl = json.load(open(replay))
        if 'lines' not in pl:
            # a broken obligation / implementation-side scenario: replaying means re-running the check with the recorded seed
            seed = pl.get('seed', seed)
            replay = None
    known = core.load_known()
    violations = []       # (kind, replay payload)
    notes = []
    ev_cov = {}
    # ---------------------------------------------------------------- 1. translator
    gen_info = {}
    try:
        from . import translate
        gen_info = translate.regenerate()
    except Exception as e:
        violations.append(('translator', dict(kind='tie-broken', what='translator failed on /repo sources',
                                              error=''.join(traceback.format_exception_only(type(e), e)))))
    # ---------------------------------------------------------------- 2. lean build + audit
    mods = prop.get('lean_modules', [])
    thms = []
    for m in mods:
        thms += theorem_names(m)
    ok, out = core.lake_build(['m4ri_model', 'm4ri_trace'] + mods)
    broken_thms = []
    if not ok:
        errs = re.findall(r'error: ([^\n]*)', out)
        files = sorted(set(re.findall(r'(M4ri\w*/[\w/]+\.lean):\d+', out)))
        broken_thms = files
        violations.append(('lean-build', dict(kind='proof-broken', what='lake build failed', files=files,
                                              errors=errs[:20], log=out[-6000:])))
    hits = core.grep_audit()
    if hits:
        violations.append(('audit', dict(kind='audit', what='forbidden construct in the Lean sources', hits=hits)))
    ax = {}
    if ok and thms:
        ax, missing, axout = core.axioms_audit(thms, mods)
        bad = {t: a for t, a in ax.items() if set(a) - core.AXIOMS_OK}
        if missing:
            violations.append(('audit', dict(kind='audit', what='#print axioms produced no answer',
                                             theorems=missing, log=axout[-3000:])))
        if bad:
            violations.append(('audit', dict(kind='audit', what='theorem depends on non-standard axioms', axioms=bad)))
    # ---------------------------------------------------------------- 3. correspondence
    samples = []
    dist = {}
    total = 0
    total_spec = 0
    nontrivial = set()
    cfg_names = []
    spec_viol, stale, diag_bad = [], [], []
    impl_results = []
    if replay:
        payload = json.load(open(replay))
        runs = [(payload.get('config') or B.DEFAULT_CFG, payload.get('sanitize'), payload['lines'], payload.get('harness_args', []))]
    else:
        runs = []
        for run in prop['runs'](tier):
            (cfg, san, suite_fn, hargs) = run[:4]
            same_seed = len(run) > 4 and run[4] == 'same-seed'
            g = cases.G(seed * 1000003 + (0 if same_seed else len(runs)))
            suite_fn(g, tier)
            runs.append((cfg, san, g, hargs))
    model_ok = os.path.exists(core.MODEL_EXE)
    if not model_ok:
        violations.append(('model', dict(kind='tie-broken', what='model driver did not build')))
    else:
        for (cfg, san, g, hargs) in runs:
            lines = g if isinstance(g, list) else g.lines
            try:
                cfg = dict(cfg)
                defines = tuple(cfg.pop('defines', ('M4RI_VERIF',)))
                cfg_env = cfg.pop('env', None)
                bld = B.Build(cfg=cfg, sanitize=san, defines=defines)
            except Exception as e:
                violations.append(('build', dict(kind='tie-broken', what='library or harness does not build',
                                                 error=str(e)[-3000:], config=cfg)))
                continue
            try:
                env = {'ASAN_OPTIONS': 'detect_leaks=0:abort_on_error=0:exitcode=99:allocator_may_return_null=1', 'UBSAN_OPTIONS': 'print_stacktrace=1:exitcode=99', 'TSAN_OPTIONS': 'exitcode=66'} if san else None
                if cfg_env:
                    env = dict(env or {}, **cfg_env)
                res = core.correspond(bld, lines, harness_args=hargs, env=env)
            finally:
                bld.remove()
            cfg_names.append(B.cfg_name(cfg) + ('+' + san if san else '') + (' ' + ' '.join(hargs) if hargs else '') + (' ' + ' '.join(defines[1:]) if len(defines) > 1 else '') + (' ' + ' '.join('%s=%s' % kv for kv in sorted(cfg_env.items())) if cfg_env else ''))
            total += res['n']
            total_spec += res['nspec']
            for l in lines:
                t = l.split(' ', 2)
                dist[t[1]] = dist.get(t[1], 0) + 1
                # non-trivial: some operand has a non-zero word other than 1-bit patterns; distinct by content
                if re.search(r' [0-9a-f]*[2-9a-f][0-9a-f]* ', l[l.find(' m '):] + ' '):
                    nontrivial.add(hash(l.split(' ', 1)[1]))
            if len(samples) < 6:
                samples += [l[:400] for l in lines[:2]]
            for r in res['spec_viol']:
                r['config'] = cfg; r['sanitize'] = san; r['harness_args'] = list(hargs); r['op'] = r['line'].split()[1]
                spec_viol.append(r)
            for r in res['stale']:
                r['config'] = cfg; r['sanitize'] = san; r['harness_args'] = list(hargs); r['op'] = r['line'].split()[1]
                stale.append(r)
            for r in res['diag_bad']:
                r['config'] = cfg; r['sanitize'] = san; r['harness_args'] = list(hargs); r['op'] = r['line'].split()[1]
                diag_bad.append(r)
            if res['harness_rc'] != 0:
                violations.append(('harness', dict(kind='impl-crash', what='harness exited abnormally',
                                                   rc=res['harness_rc'], stderr=res['harness_stderr'], config=cfg,
                                                   sanitize=san)))
    # ---------------------------------------------------------------- 4. implementation-only extras
    extra_cov = {}
    if not replay and prop.get('extra'):
        try:
            ex = prop['extra'](tier, seed)
            extra_cov = ex.get('coverage', {})
            for v in ex.get('violations', []):
                violations.append(('tie' if v.get('tie_only') else 'impl', v))
        except Exception as e:
            violations.append(('extra', dict(kind='tie-broken', what='implementation-side check crashed',
                                             error=traceback.format_exc()[-3000:])))
    # ---------------------------------------------------------------- 5. classify, replay files, output
    exit_code = 0
    out_lines = []

    def minimal(recs):
        return min(recs, key=lambda r: len(r['line']))

    def report(kind, recs, suffix=''):
        nonlocal exit_code
        byop = {}
        for r in recs:
            byop.setdefault(r['op'], []).append(r)
        for op, rs in sorted(byop.items()):
            r = minimal(rs)
            kf = known_match(known, pid, r)
            if kf:
                out_lines.append('KNOWN-FINDING: property=%s %s' % (pid, kf.get('what', op)))
                continue
            payload = dict(property=pid, kind=kind, op=op, lines=[r['line']], impl=r.get('impl'), model=r.get('model'),
                           spec=r.get('spec'), diag=r.get('diag'), config=r.get('config'), sanitize=r.get('sanitize'),
                           harness_args=r.get('harness_args'), count=len(rs), seed=seed)
            p = core.write_replay(pid, payload)
            out_lines.append('VIOLATION property=%s replay=%s%s' % (pid, p, suffix))
            exit_code = 1

    if spec_viol:
        report('impl-differs-from-spec', spec_viol)
    if diag_bad:
        report('frame-or-leak', diag_bad)
    found_input = bool(spec_viol or diag_bad)
    if stale:
        # the model no longer mirrors the code although the implementation still meets the specification on
        # these inputs: the property is no longer shown to hold
        report('correspondence-broken-model-stale', stale, '' if found_input else ' no-failing-input-found')
    for (k, payload) in violations:
        if k in ('impl', 'harness'):
            payload = dict(payload, property=pid, seed=seed)
            kf = known_match(known, pid, dict(op=payload.get('op'), line=payload.get('signature', '')))
            if kf:
                out_lines.append('KNOWN-FINDING: property=%s %s' % (pid, kf.get('what', '')))
                continue
            p = core.write_replay(pid, payload)
            out_lines.append('VIOLATION property=%s replay=%s' % (pid, p))
            exit_code = 1
        else:
            payload = dict(payload, property=pid, seed=seed,
                           searched=dict(cases=total, spec_compared=total_spec, failing_inputs=len(spec_viol)))
            p = core.write_replay(pid, payload)
            out_lines.append('VIOLATION property=%s replay=%s%s' % (pid, p, '' if found_input else ' no-failing-input-found'))
            exit_code = 1
    # ---------------------------------------------------------------- 6. evidence
    n_obl = len(thms) + gen_info.get('obligations', 0)
    cov = dict(
        obligations=max(n_obl, 1), discharged=(n_obl if ok else 0) if n_obl else 0,
        checker_cmd='cd /verif/lean && lake build %s && lake env lean <(#print axioms ...)' % ' '.join(mods),
        trusted_base=prop.get('trusted_base', []) + [
            'Lean 4.33 kernel; axioms allowed: propext, Classical.choice, Quot.sound (audited with #print axioms on every theorem of the Props module)',
            'hand-written model lean/M4ri/*.lean tied to /repo by the correspondence run reported below (differential, bounded by the generators)',
            'harness/corr.c, vlib/*.py, gcc, libc'],
        theorems=thms, axioms=ax, generated=gen_info,
        evaluations=total, distinct_nontrivial=len(nontrivial), spec_compared=total_spec,
        rule='structured random cases from vlib/suites.py seeded by VERIF_SEED; distinct = distinct operation line; non-trivial = some operand word is not 0/1/power-of-two pattern',
        samples=samples, op_distribution=dist, configurations=cfg_names,
        impl_differs_from_spec=len(spec_viol), impl_differs_from_model=len(stale), frame_or_leak=len(diag_bad),
        explanation=prop.get('explanation', ''),
    )
    cov.update(extra_cov)
    ev = dict(property_id=pid, tier=tier, seed=seed, level=prop.get('level', 'proof'), coverage=cov,
              assumptions=prop.get('assumptions', []), wall_s=round(time.time() - t0, 2),
              violations=sum(1 for l in out_lines if l.startswith('VIOLATION')))
    core.write_evidence(pid, ev)
    for l in out_lines:
        print(l)
    print('%s tier=%s seed=%d theorems=%d cases=%d spec_compared=%d violations=%d wall=%.1fs' %
          (pid, tier, seed, len(thms), total, total_spec, ev['violations'], time.time() - t0))
    return exit_code


def main(argv=None):
    ap = argparse.ArgumentParser()
    ap.add_argument('pid')
    ap.add_argument('--tier', default=os.environ.get('VERIF_TIER', 'quick'))
    ap.add_argument('--seed', type=int, default=None)
    ap.add_argument('--replay', default=None)
    a = ap.parse_args(argv)
    try:
        rc = run(a.pid, a.tier, a.seed, a.replay)
    except Exception:
        # the machinery itself failed (e.g. on output it cannot parse): the property is not shown to hold on this tree
        payload = dict(property=a.pid, kind='check-crashed', what='the check raised an exception', seed=a.seed,
                       traceback=traceback.format_exc()[-6000:])
        p = core.write_replay(a.pid, payload)
        print('VIOLATION property=%s replay=%s no-failing-input-found' % (a.pid, p))
        rc = 1
    sys.exit(rc)
