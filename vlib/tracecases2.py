#!/usr/bin/env python3
# case generator for the extended trace validation (new kernels of M4ri/Safety2.lean)
import random, sys
WIDTHS = [1, 2, 3, 4, 5, 6, 7, 8, 9, 10, 11, 12, 13, 14, 15, 16, 17, 18, 19, 20, 21, 22, 23, 24, 25, 26, 27, 28, 29, 30]
def W(c): return (c + 63) // 64
def ncols_of_width(rng, w):
    """a column count with exactly w words: full multiple of 64, or ragged"""
    return 64 * w if rng.random() < 0.35 else 64 * (w - 1) + rng.randint(1, 63)

def gen_prowsN(rng, quick):
    out = []
    ws = WIDTHS if not quick else [1, 2, 7, 8, 9, 16, 17, 30]
    for w in ws:
        for ph in (0, 1):
            for rep in range(1 if quick else 3):
                N = rng.randint(2, 6)
                nc = ncols_of_width(rng, w)
                k = rng.randint(N, min(2 * N + 2, 12, nc))
                if k < N: N = 2; k = min(2, nc)
                if k < 2: continue
                # start column: any block, including the last one and spans crossing a word boundary
                choice = rng.random()
                if choice < 0.3: sc = 0
                elif choice < 0.5: sc = nc - k
                elif choice < 0.7 and w > 1: sc = min(nc - k, 64 * rng.randint(1, w - 1) - rng.randint(0, k))
                else: sc = rng.randint(0, nc - k)
                sc = max(0, sc)
                nr = rng.randint(2, 5)
                a = rng.randint(0, 1); b = rng.randint(a + 1, nr) if rng.random() < 0.93 else a
                fill = rng.choice([0, 1, 1, 2, 3, 5, 7, 11])
                out.append(f"prowsN {N} {nr} {nc} {ph} {ph} {a} {b} {sc} {k} {fill}")
    return out


def gen_perm(rng, quick):
    """mzp.c: apply_p_left(_trans), mzd_col_swap, _mzd_apply_p_right_even (+ blockd), apply_p_right_trans_tri"""
    out = []
    ws = WIDTHS if not quick else [1, 2, 7, 8, 9, 17, 30]
    for w in ws:
        for ph in (0, 1):
            nc = ncols_of_width(rng, w)
            # row permutations
            nr = rng.randint(2, 9)
            plen = rng.choice([nr, nr, max(1, nr - 2), nr + 3])
            out.append(f"applyleft {nr} {nc} {ph} {rng.randint(0, 1)} {plen} {rng.choice([0, 1, 1, 2])} {rng.randint(1, 999)}")
            # full column swap
            a = rng.randrange(nc); b = rng.choice([rng.randrange(nc), rng.randrange(nc), a // 64 * 64 + rng.randrange(min(64, nc - a // 64 * 64))] + ([a] if rng.random() < 0.2 else []))
            out.append(f"colswapfull {rng.randint(1, 9)} {nc} {ph} {a} {b}")
            # column permutations: mode 0 identity (all words skipped), 1 dense, 2 sparse, 3 only word 0, 4 all but word 0
            for rep in range(1 if quick else 2):
                nr = rng.choice([1, 2, 3, 5, 8, 33, 40]) if w <= 2 else rng.randint(1, 7)
                sr = rng.choice([0, 0, 0, 1, nr - 1, nr]) if nr > 1 else rng.choice([0, 0, 1])
                mode = rng.choice([0, 1, 1, 2, 2, 3, 4])
                plen = rng.choice([nc, nc, nc, max(1, nc - rng.randint(1, 70)), nc + 5])
                sc = rng.choice([0, 0, 0, rng.randrange(min(plen, nc)), min(plen, nc)])
                out.append(f"apright {nr} {nc} {ph} {sr} {sc} {rng.randint(0, 1)} {plen} {mode} {rng.randint(1, 999)}")
            if w <= 8 or rng.random() < 0.15:
                nr = rng.choice([1, 3, 7, 20, 70]) if w <= 2 else rng.randint(1, 9)
                out.append(f"aprtri {nr} {nc} {ph} {rng.choice([0, 1, 1, 2, 3])} {rng.randint(1, 999)}")
    if not quick:
        # several strips also when the library is built with the stock L1 = 32768: 4096/30 = 136 rows per strip
        out.append(f"apright 140 {64 * 29 + 17} 1 0 0 0 {64 * 29 + 17} 3 5")
        out.append(f"apright 139 {64 * 30} 0 2 0 1 {64 * 30} 3 6")
    return out


def gen_compressl(rng, quick):
    """_mzd_compress_l(A, r1, n1, r2): r1 <= n1, n1 a multiple of 64 (the column cut of _mzd_ple), n1 + r2 <= ncols, r1 + r2 <= nrows"""
    out = []
    ws = [w for w in WIDTHS if w >= 2] if not quick else [2, 3, 8, 9, 17, 30]
    for w in ws:
        for ph in (0, 1):
            for rep in range(1 if quick else 3):
                nc = ncols_of_width(rng, w)
                n1 = 64 * rng.randint(1, w - 1)
                r2max = nc - n1
                r2 = rng.choice([0, 1, rng.randint(0, r2max), rng.randint(0, r2max), r2max, min(r2max, 64), min(r2max, 130)])
                r1 = rng.choice([0, n1, n1 - 1, rng.randint(0, n1), rng.randint(0, n1), 64 * rng.randint(0, n1 // 64), max(0, n1 - 64)])
                nr = r1 + r2 + rng.randint(0, 3)
                if nr == 0: nr = 1
                if nr > 400: continue
                out.append(f"compressl {nr} {nc} {ph} {r1} {n1} {r2}")
    return out

import collections
STATS = collections.Counter()
def _combN_branches(tag, ph, block, wide):
    """which paths of _mzd_combine_N (xor_template.h) a call with this geometry takes"""
    d = (block + ph) % 2
    w1 = wide - d
    half = w1 // 2
    STATS[f'{tag}: peel word (m 8-aligned)' if d else f'{tag}: no peel (m 16-aligned)'] += 1
    if half >= 4: STATS[f'{tag}: 4-vector loop runs'] += 1
    if half >= 8: STATS[f'{tag}: 4-vector loop >= 2 trips'] += 1
    if half % 4: STATS[f'{tag}: single-vector loop runs'] += 1
    if half == 0: STATS[f'{tag}: no vector step at all'] += 1
    STATS[f'{tag}: tail word' if w1 % 2 else f'{tag}: no tail word'] += 1
def _comb_branches(tag, ph, block, wide):
    """paths of _mzd_combine (xor.h), same phase for both pointers"""
    d = 1 if (block + ph) % 2 == 1 and wide else 0
    w1 = wide - d
    STATS[f'{tag}: peel' if d else f'{tag}: no peel'] += 1
    nv = w1 // 2
    if nv >= 2: STATS[f'{tag}: paired vector loop runs'] += 1
    if nv % 2: STATS[f'{tag}: odd vector step'] += 1
    STATS[f'{tag}: scalar tail' if w1 % 2 else f'{tag}: no scalar tail'] += 1
def _ks(rng, N, room):
    """k[0..N-1], each >= 1, sum <= min(64, room)"""
    room = min(64, room)
    while True:
        style = rng.random()
        if style < 0.6: ks = [rng.randint(1, 4) for _ in range(N)]
        elif style < 0.9: ks = [rng.randint(1, 8) for _ in range(N)]
        else: ks = [8] * N
        if sum(ks) <= room: return ks
        if N > room: return None
def _startcol(rng, nc, w, kt):
    choice = rng.random()
    if choice < 0.25: sc = 0
    elif choice < 0.45: sc = nc - kt
    elif choice < 0.7 and w > 1: sc = min(nc - kt, 64 * rng.randint(1, w - 1) - rng.randint(0, kt))
    else: sc = rng.randint(0, nc - kt)
    return max(0, sc)

def gen_prple(rng, quick):
    out = []
    ws = WIDTHS if not quick else [1, 2, 7, 8, 9, 16, 17, 30]
    for w in ws:
        for ph in (0, 1):
            for rep in range(1 if quick else 3):
                nc = ncols_of_width(rng, w)
                N = rng.randint(2, 8)
                ks = _ks(rng, N, nc)
                if ks is None: N = 2; ks = _ks(rng, 2, nc)
                if ks is None: continue
                kt = sum(ks)
                sc = _startcol(rng, nc, w, kt)
                nr = rng.randint(2, 5)
                a = rng.randint(0, 1); b = rng.randint(a + 1, nr) if rng.random() < 0.93 else a
                fill = rng.choice([0, 1, 2, 3, 5, 7, 11]); tw = rng.choice([0, 0, 0, 1, 2])
                out.append(f"prple {N} {nr} {nc} {ph} {ph} {a} {b} {sc} {fill} {tw} " + ' '.join(map(str, ks)))
                STATS[f'prple: N={N}'] += 1
                STATS['prple: read_bits spills into next word' if sc % 64 + kt > 64 else 'prple: read_bits in one word'] += 1
                if b > a: _combN_branches('prple', ph, sc // 64, w - sc // 64)
                else: STATS['prple: empty row range'] += 1
    return out

def gen_a11(rng, quick):
    out = []
    ws = WIDTHS if not quick else [1, 2, 7, 8, 9, 16, 17, 30]
    for w in ws:
        for ph in (0, 1):
            for rep in range(1 if quick else 4):
                nc = ncols_of_width(rng, w)
                N = 1 if rng.random() < 0.25 else rng.randint(2, 8)
                ks = _ks(rng, N, nc)
                if ks is None: N = 1; ks = _ks(rng, 1, nc)
                kt = sum(ks)
                sc = _startcol(rng, nc, w, kt)
                c = rng.random()
                if c < 0.25: block = min(w, (sc + kt) // 64 + 1)          # what _mzd_ple_russian passes, roughly
                elif c < 0.35: block = w                                   # wide = 0: early return
                elif c < 0.40: block = w + 1                               # wide < 0: early return
                elif c < 0.5: block = w - 1
                else: block = rng.randint(0, w - 1)
                nr = rng.randint(2, 5)
                a = rng.randint(0, 1); b = rng.randint(a + 1, nr) if rng.random() < 0.93 else a
                fill = rng.choice([0, 1, 2, 3, 5, 7, 11]); tw = rng.choice([0, 0, 0, 1, 2])
                out.append(f"a11 {N} {nr} {nc} {ph} {ph} {a} {b} {sc} {block} {fill} {tw} " + ' '.join(map(str, ks)))
                STATS[f'a11: N={N}'] += 1
                if w - block <= 0: STATS['a11: wide <= 0 early return'] += 1
                elif b <= a: STATS['a11: empty row range'] += 1
                else:
                    STATS['a11: read_bits spills into next word' if sc % 64 + kt > 64 else 'a11: read_bits in one word'] += 1
                    if N == 1: _comb_branches('a11_1', ph, block, w - block)
                    else: _combN_branches('a11_N', ph, block, w - block)
    return out

def gen_a10(rng, quick):
    out = []
    ws = WIDTHS if not quick else [1, 2, 7, 8, 9, 16, 17, 30]
    for w in ws:
        for ph in (0, 1):
            for rep in range(1 if quick else 3):
                nc = ncols_of_width(rng, w)
                k = rng.choice([0, 1, 2, 2, 3, 4, 5, 6, 8])
                sr = rng.randint(0, 2)
                nr = sr + k + rng.randint(1, 3)
                # pivot columns (relative to start_col): strictly increasing, pivots[i] >= i, < 64
                span = min(63, nc - 1, k + rng.randint(0, 12))
                if span + 1 < k: k = span + 1
                piv = sorted(rng.sample(range(span + 1), k))
                maxp = piv[-1] if k else 0
                sc = _startcol(rng, nc, w, max(maxp, 1))
                c = rng.random()
                if c < 0.4: ab = min(w, (sc + maxp) // 64 + 1)
                elif c < 0.5: ab = w
                elif c < 0.55: ab = w + 1
                else: ab = rng.randint(0, w - 1)
                fill = rng.choice([0, 1, 2, 3, 5, 7])
                out.append(f"a10 {nr} {nc} {ph} {sr} {sc} {ab} {k} {fill} " + ' '.join(map(str, piv)))
                STATS[f'a10: k={k}'] += 1
                if ab == w: STATS['a10: addblock == width early return'] += 1
                elif ab > w: STATS['a10: addblock > width (swaps return, add loops empty)'] += 1
                else:
                    STATS['a10: addblock < width'] += 1
                    STATS['a10: zero matrix (no bit set)' if fill == 0 else ('a10: identity P (no swap)' if fill == 3 else 'a10: random data and P')] += 1
                    if k >= 2 and any(sc % 64 + p > 64 for p in piv[1:]): STATS['a10: read_bits spills'] += 1
    return out

def gen_mtple(rng, quick):
    out = []
    ws = WIDTHS if not quick else [1, 2, 7, 8, 9, 16, 17, 30]
    for w in ws:
        for phA in (0, 1):
            for phT in (0, 1):
                for rep in range(1 if quick else 2):
                    ncT = ncols_of_width(rng, w)
                    k = rng.randint(1, min(8, ncT))
                    fullrank = rng.randint(0, 1)
                    knar = k if (fullrank and rng.random() < 0.8) else rng.randint(0, k)
                    c = rng.random()
                    if c < 0.2: wc = 0
                    elif c < 0.4: wc = ncT - k
                    elif c < 0.7 and w > 1: wc = min(ncT - k, max(0, 64 * rng.randint(1, w - 1) - rng.randint(0, k)))
                    else: wc = rng.randint(0, ncT - k)
                    wb = wc // 64
                    lo = max(0, 64 * (wb - 1))
                    rc = rng.choice([wc, rng.randint(lo, wc), lo, max(lo, wc - rng.randint(0, 56))])
                    r = rng.randint(0, 3)
                    nrA = r + max(knar, 1) + rng.randint(0, 2)
                    ncA = ncT + rng.choice([0, 0, 0, 1, 64, 70]) if rng.random() < 0.8 else 64 * w
                    nrT = (1 << k) if rng.random() < 0.7 else max(2, 1 << knar)
                    fill = rng.choice([0, 1, 2, 5, 7])
                    out.append(f"mtple {nrA} {ncA} {phA} {nrT} {ncT} {phT} {r} {wc} {k} {knar} {rc} {fullrank} {fill}")
                    wide = w - wb
                    STATS[f'mtple: fullrank={fullrank}'] += 1
                    if knar == 0: STATS['mtple: knar = 0 (no table row built)'] += 1
                    else:
                        STATS[f'mtple: Duff entry point wide%8={wide % 8}'] += 1
                        STATS['mtple: Duff count >= 2' if wide > 8 else 'mtple: Duff count = 1'] += 1
                        STATS['mtple: readblock < writeblock' if rc // 64 < wb else 'mtple: readblock = writeblock'] += 1
                        if fullrank:
                            STATS['mtple: E-index read_bits spills' if wc % 64 + k > 64 else 'mtple: E-index read_bits in one word'] += 1
                            STATS['mtple: xor_bits crosses a word' if k > 64 - wc % 64 else 'mtple: xor_bits in one word'] += 1
                            btr = min(64, ncT - rc)
                            STATS['mtple: B read spills' if rc % 64 + btr > 64 else 'mtple: B read in one word'] += 1
                            STATS['mtple: bits_to_read < 64' if btr < 64 else 'mtple: bits_to_read = 64'] += 1
    return out

SHAPES = [1, 2, 3, 4, 5, 6, 7, 8, 9, 15, 16, 17, 31, 32, 33, 63, 64, 65, 100, 127, 128, 129, 191, 192, 200]
def tk_line(rng, kw, need_drows, need_dwords, need_srows, need_swords, tail, ph=None):
    """operands just large enough (or a bit larger) for a kernel whose footprint is need_* from the pointer"""
    drow = rng.choice([0, 0, 1, 3]); dblk = rng.choice([0, 0, 1, 2, 5])
    srow = rng.choice([0, 0, 2, 5]); sblk = rng.choice([0, 0, 1, 3, 7])
    dnr = drow + need_drows + rng.choice([0, 0, 1, 7]); snr = srow + need_srows + rng.choice([0, 0, 2])
    dw = dblk + need_dwords + rng.choice([0, 0, 1]); sw = sblk + need_swords + rng.choice([0, 0, 3])
    dnc = ncols_of_width(rng, dw); snc = ncols_of_width(rng, sw)
    phd, phs = ph if ph is not None else (rng.randint(0, 1), rng.randint(0, 1))
    return f"{kw} {dnr} {dnc} {phd} {snr} {snc} {phs} {drow} {dblk} {srow} {sblk} {tail}".strip()

def gen_tk_kernels(rng, quick):
    out = []
    PH = [(0, 0), (0, 1), (1, 0), (1, 1)]
    for i in range(4 if quick else 16):
        out.append(tk_line(rng, "tk_64x64", 64, 1, 64, 1, "", PH[i % 4]))
    for i in range(4 if quick else 16):
        # two destination / source blocks: (drow, dblk) and a second one elsewhere in the same operands
        drow = rng.choice([0, 1]); dblk = rng.choice([0, 1, 4]); srow = rng.choice([0, 2]); sblk = rng.choice([0, 3])
        drow2 = drow + rng.choice([0, 64, 70]); dblk2 = dblk + (rng.choice([1, 2]) if drow2 == drow else rng.choice([0, 1]))
        srow2 = srow + rng.choice([0, 64]); sblk2 = sblk + (1 if srow2 == srow else rng.choice([0, 1, 2]))
        dnr = max(drow, drow2) + 64 + rng.choice([0, 1]); snr = max(srow, srow2) + 64 + rng.choice([0, 3])
        dnc = ncols_of_width(rng, max(dblk, dblk2) + 1 + rng.choice([0, 1])); snc = ncols_of_width(rng, max(sblk, sblk2) + 1)
        phd, phs = PH[i % 4]
        out.append(f"tk_64x64_2 {dnr} {dnc} {phd} {snr} {snc} {phs} {drow} {dblk} {srow} {sblk} {drow2} {dblk2} {srow2} {sblk2}")
    ns = range(1, 64) if not quick else [1, 2, 3, 4, 5, 8, 9, 16, 17, 32, 33, 63]
    for n in ns:   # every n: all switch cases (log2j = 0..5) and the n > 32 path
        out.append(tk_line(rng, "tk_lt64x64", 64, 1, n, 1, f"{n}", PH[n % 4]))
    for n in ns:   # every n: cases 0..6 of the switch
        out.append(tk_line(rng, "tk_64xlt64", n, 1, 64, 1, f"{n}", PH[(n + 1) % 4]))
    for n in range(1, 9):
        for m in range(1, 9):
            if quick and (n * m) % 5: continue
            out.append(tk_line(rng, "tk_le8", m, 1, n, 1, f"{n} {m} {max(n, m)}", PH[(n + m) % 4]))
    pairs16 = [(n, m) for n in range(1, 17) for m in range(1, 17) if max(n, m) > 8]
    for (n, m) in (rng.sample(pairs16, 70 if not quick else 8) + [(16, 16), (1, 16), (16, 1), (9, 9), (13, 4), (4, 13), (5, 12), (12, 5)]):
        out.append(tk_line(rng, "tk_le16", m, 1, n, 1, f"{n} {m} {max(n, m)}"))
    pairs32 = [(n, m) for n in range(1, 33) for m in range(1, 33) if max(n, m) > 16]
    for (n, m) in (rng.sample(pairs32, 60 if not quick else 8) + [(32, 32), (1, 32), (32, 1), (17, 17), (16, 17), (17, 16), (31, 18), (18, 31)]):
        out.append(tk_line(rng, "tk_le32", m, 1, n, 1, f"{n} {m}"))
    pairs64 = [(n, m) for n in range(1, 64) for m in range(1, 64) if max(n, m) > 32]
    for (n, m) in (rng.sample(pairs64, 30 if not quick else 4) + [(63, 63), (1, 63), (63, 1), (33, 33)]):
        out.append(tk_line(rng, "tk_le64", m, 1, n, 1, f"{n} {m}"))
    allp = [(n, m) for n in range(1, 64) for m in range(1, 64)]
    for (n, m) in (rng.sample(allp, 60 if not quick else 8) + [(8, 8), (9, 1), (1, 9), (16, 16), (17, 2), (32, 32), (33, 1), (63, 63)]):
        out.append(tk_line(rng, "tk_small", m, 1, n, 1, f"{n} {m} {max(n, m)}"))
    return out

def base_line(rng, kw, nr, nc, ph):
    """kw fwd fws nrows ncols maxsize with operands D (>= nc x nr from the pointer) and S (>= nr x nc)"""
    return tk_line(rng, kw, nc, W(nr), nr, W(nc), f"{nr} {nc} {max(nr, nc)}", ph)

def gen_tk_base(rng, quick):
    out = []
    PH = [(0, 0), (0, 1), (1, 0), (1, 1)]
    shapes = [(nr, nc) for nr in SHAPES for nc in SHAPES if max(nr, nc) >= 64]
    pick = rng.sample(shapes, 110 if not quick else 12)
    pick += [(64, 64), (64, 128), (128, 64), (128, 128), (192, 192), (192, 64), (64, 192), (65, 65), (127, 127), (129, 129),
             (64, 1), (1, 64), (63, 64), (64, 63), (200, 200), (256 + 3, 256 + 5), (260, 64), (64, 260), (320, 448), (448, 320), (512, 512),
             (511, 500), (384, 7), (7, 384), (257, 193)]
    pick += [(rng.choice([64, 100, 128, 130, 192]), 64 * w - rng.choice([0, 0, 1, 17, 63])) for w in (8, 7)]       # <= 512 columns
    for i, (nr, nc) in enumerate(pick):
        out.append(base_line(rng, "tk_base", nr, nc, PH[i % 4]))
    return out

def gen_tk_rec(rng, quick):
    """_mzd_transpose_notsmall / _mzd_transpose: the recursion (maxsize > 512, both thresholds 768) and the small/notsmall switch"""
    out = []
    PH = [(0, 0), (0, 1), (1, 0), (1, 1)]
    big = [(513, 513), (600, 100), (100, 600), (768, 768), (769, 64), (64, 769), (1027, 70), (70, 1027), (1100, 700), (700, 1100),
           (1024, 1024), (1025, 130), (520, 1900), (1920, 65), (65, 1920), (1919, 200), (1300, 1300), (515, 3), (3, 515), (640, 640 + 7),
           (1087, 64), (1088, 1), (1536, 100), (100, 1537)]
    if quick: big = big[:6]
    for i, (nr, nc) in enumerate(big):
        out.append(base_line(rng, "tk_notsmall", nr, nc, PH[i % 4]))
    tops = [(nr, nc) for nr in SHAPES for nc in SHAPES]
    for i, (nr, nc) in enumerate(rng.sample(tops, 40 if not quick else 6) + [(63, 63), (64, 1), (1, 64), (8, 8), (9, 9), (16, 17), (33, 2), (530, 66), (66, 530), (900, 900)]):
        out.append(base_line(rng, "tk_top", nr, nc, PH[i % 4]))
    return out

def gen_transpose(rng, quick):
    """public entry mzd_transpose(DST, A): A nrows ncols phase kindA ; phaseD kindD  (kind 0 = window, 1 = whole matrix)"""
    out = []
    shapes = [(nr, nc) for nr in SHAPES for nc in SHAPES]
    pick = rng.sample(shapes, 120 if not quick else 12)
    pick += [(64, 64), (128, 64), (64, 128), (128, 128), (192, 256), (256, 192), (64, 100), (100, 64), (260, 130), (130, 260),
             (1, 1), (8, 8), (63, 63), (64, 63), (63, 64), (640, 128), (128, 640), (576, 576), (600, 70), (70, 600), (1027, 70), (1920, 64), (64, 1920), (1100, 1100)]
    for i, (nr, nc) in enumerate(pick):
        kA = (i // 4) % 2; kD = (i // 8) % 2 if i % 3 else 1 - kA
        out.append(f"transpose {nr} {nc} {i % 2} {kA} {(i // 2) % 2} {kD}")
    # windows without excess bits on either side: the direct path, both phases for both operands
    for i, (nr, nc) in enumerate([(64, 64), (128, 192), (192, 128), (64, 320), (320, 64), (256, 256), (576, 64), (64, 576), (640, 704), (1088, 64)]):
        for (pa, pd) in [(0, 0), (0, 1), (1, 0), (1, 1)]:
            out.append(f"transpose {nr} {nc} {pa} 0 {pd} 0")
    # empty matrices: `return DST` before anything is touched (mzd.c:1138)
    out += ["transpose 0 5 0 0 1 0", "transpose 5 0 1 0 0 0", "transpose 0 70 0 1 0 1"]
    return out

def gen_trsmsub(rng, quick):
    """_mzd_trsm_{upper,lower}_left_submatrix: every width 1..30 of B x both phases of B x both kernels;
       phase of U alternates independently; start_row / k chosen so that the tested bits of U lie in different words"""
    out = []
    ws = WIDTHS if not quick else [1, 2, 7, 8, 9, 16, 17, 30]
    n = 0
    for w in ws:
        for phB in (0, 1):
            for upper in (0, 1):
                for rep in range(1 if quick else 2):
                    n += 1
                    phU = (n // 2 + rep) % 2
                    ncB = ncols_of_width(rng, w)
                    kmax = 64 if w <= 4 else (24 if w <= 12 else 12)
                    k = rng.choice([2, 3, 4, 5, 6, 8, 16, kmax, rng.randint(2, kmax), rng.randint(0, 3)])
                    sr = rng.choice([0, 0, 1, rng.randint(0, 70), 64 - k // 2 if k < 100 else 0, rng.randint(50, 140)])
                    sr = max(0, sr)
                    extra = rng.randint(0, 3)
                    nU = max(1, sr + k + extra)
                    nB = max(1, sr + k + rng.randint(0, 3))
                    fill = rng.choice([0, 1, 2, 2, 2, 3, 4])
                    out.append(f"trsmsub {upper} {nU} {nU} {phU} {nB} {ncB} {phB} {sr} {k} {fill}")
    return out

def gen_mktrtri(rng, quick):
    """mzd_make_table_trtri: every width 1..30 of T x both phases of T x both phases of M; c in every block
       (wide = 1 .. width), spans of mzd_xor_bits crossing a word boundary, startcol in the block of c or the one before,
       toread < 64 and = 64"""
    out = []
    ws = WIDTHS if not quick else [1, 2, 7, 8, 9, 16, 17, 30]
    for w in ws:
        for phT in (0, 1):
            for phM in (0, 1):
                for rep in range(1 if quick else 2):
                    ncT = ncols_of_width(rng, w)
                    k = rng.randint(1, min(8, ncT)) if rng.random() < 0.8 else min(rng.choice([1, 2, 3]), ncT)
                    ch = rng.random()
                    if ch < 0.25: c = rng.randint(0, min(63, ncT - k))                     # wide = width
                    elif ch < 0.45: c = ncT - k                                             # last block
                    elif ch < 0.7 and w > 1:                                                 # xor_bits crossing a word
                        c = min(ncT - k, max(0, 64 * rng.randint(1, w - 1) - rng.randint(0, k)))
                    else: c = rng.randint(0, ncT - k)
                    ch = rng.random()
                    lo = 64 * max(0, c // 64 - 1)
                    if ch < 0.3: sc = c
                    elif ch < 0.5: sc = lo
                    elif ch < 0.7: sc = 64 * (c // 64)
                    else: sc = rng.randint(lo, c)
                    ncM = ncT if rng.random() < 0.6 else ncT + rng.randint(0, 130)
                    r = rng.randint(0, 3)
                    nrM = r + k + rng.randint(0, 2)
                    nrT = (1 << k) + rng.choice([0, 0, 0, 1, 3])
                    out.append(f"mktrtri {nrM} {ncM} {phM} {nrT} {ncT} {phT} {r} {c} {k} {sc}")
    return out

def gen_trsmrus(rng, quick):
    """_mzd_trsm_{upper,lower}_left_russian(U, B, k) with explicit k = 1..8 (kk = 8k): every width 1..30 of B x both phases
       of B (the tables get the phase of B) x both routines; n = B->nrows: n <= kk (main loop skipped), n = kk + 1,
       multiples of kk, tails with and without a reduced last k"""
    out = []
    ws = WIDTHS if not quick else [1, 2, 7, 8, 9, 16, 17, 30]
    cnt = 0
    for w in ws:
        for phB in (0, 1):
            for upper in (0, 1):
                cnt += 1
                phU = (cnt // 2) % 2
                ncB = ncols_of_width(rng, w)
                kmax = 8 if w <= 3 else (6 if w <= 8 else (4 if w <= 16 else 3))
                k = rng.randint(1, kmax)
                kk = 8 * k
                ch = rng.random()
                if ch < 0.12: n = rng.randint(1, kk)                      # no main trip
                elif ch < 0.24: n = kk + 1                                # one main trip, tail of one row
                elif ch < 0.40: n = kk * rng.randint(1, 2)                # multiple of kk
                elif ch < 0.55: n = kk * rng.randint(1, 2) + k * rng.randint(1, 7)   # tail without reduced k
                else: n = rng.randint(kk + 1, 3 * kk + 3)
                if k >= 6: n = min(n, 2 * kk + 5)
                fill = rng.choice([0, 1, 2, 2, 2, 3, 4])
                out.append(f"trsmrus {upper} {n} {phU} {n} {ncB} {phB} {k} {fill}")
    return out

def gen_trtrisub(rng, quick):
    """_mzd_trtri_upper_submatrix(A, pivot_r, elim_r, k): widths 1..30 x both phases; the last column (i + 1 == ncols) included"""
    out = []
    ws = WIDTHS if not quick else [1, 2, 7, 8, 9, 16, 17, 30]
    for w in ws:
        for ph in (0, 1):
            nc = ncols_of_width(rng, w)
            k = rng.randint(1, min(8, nc))
            ch = rng.random()
            if ch < 0.3: pr = nc - k                      # reaches the last column: `(i + 1) < A->ncols` false
            elif ch < 0.5: pr = rng.randint(0, min(nc - k, 12))
            else: pr = rng.randint(0, nc - k)
            pr = max(0, pr)
            er = rng.choice([pr, max(0, pr - rng.randint(0, 3 * k)), max(0, pr - rng.randint(0, 20)), 0 if pr < 40 else pr - 30])
            nr = pr + k + rng.randint(0, 2)
            fill = rng.choice([1, 2, 2, 2, 3, 4, 4, 0])
            out.append(f"trtrisub {nr} {nc} {ph} {pr} {er} {k} {fill}")
    return out

def gen_more(seed=1, quick=False):
    rng = random.Random(seed)
    out = []
    out += gen_prowsN(rng, quick)
    out += gen_perm(rng, quick)
    out += gen_compressl(rng, quick)
    out += gen_prple(rng, quick)
    out += gen_a11(rng, quick)
    out += gen_a10(rng, quick)
    out += gen_mtple(rng, quick)
    out += gen_tk_kernels(rng, quick)
    out += gen_tk_base(rng, quick)
    out += gen_tk_rec(rng, quick)
    out += gen_transpose(rng, quick)
    out += gen_trsmsub(rng, quick)
    out += gen_mktrtri(rng, quick)
    out += gen_trsmrus(rng, quick)
    out += gen_trtrisub(rng, quick)
    return out

if __name__ == '__main__':
    seed = int(sys.argv[1]) if len(sys.argv) > 1 else 1
    quick = len(sys.argv) > 2 and sys.argv[2] == 'quick'
    fam = sys.argv[3] if len(sys.argv) > 3 else None
    for l in gen_more(seed, quick):
        if fam is None or l.split()[0] in fam.split(','): print(l)
