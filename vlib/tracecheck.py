"""Access-trace correspondence (C11): the word-level kernels of the real code are run one call at a time under
`valgrind --tool=lackey --trace-mem=yes` (an -O0 build, so that every C-level load/store is one machine access);
every load and store between two marker stores is decoded to (operand, row, word, R/W, 8/16 bytes) and compared as a
multiset with the trace predicted by the Lean model M4ri/Safety.lean (executable `m4ri_trace`), about which the
in-bounds / alignment / shift-count theorems of M4riProofs/Safety.lean are proved.

A real access outside its operand (row >= nrows, word >= width, before the first word) or a misaligned 16-byte access
is a concrete failing input for C11; a mere difference of traces means the model no longer mirrors the code."""
import collections, os, random, re, subprocess, tempfile, shutil
from . import build as B
from . import core

TRACE_EXE = os.path.join(core.LEAN, '.lake', 'build', 'bin', 'm4ri_trace')
# kernels whose every operand is a window described by its OP line: real accesses are also checked against the window directly
BOUNDS_CHECKED = ('rowadd', 'cip', 'ce', 'rowswap', 'colswap', 'readbits', 'xorbits', 'andbits', 'clearbits', 'clearoff', 'copy',
                  'copyrow', 'add', 'submatrix', 'findpivot', 'maketable', 'processrows')


def W(c):
    return (c + 63) // 64


def gen_cases(seed, quick=True):
    rnd = random.Random(seed)
    out = []
    ncs_all = [1, 63, 64, 65, 128, 129, 192, 200, 256, 300, 320, 384, 449, 512, 577, 640, 704, 768]
    ncs = ncs_all if not quick else sorted(rnd.sample(ncs_all, 7) + [rnd.randint(1, 800) for _ in range(2)])
    if not quick:
        ncs = ncs + [rnd.randint(1, 900) for _ in range(6)]
    sse = []
    for nc in ncs:
        for ph in (0, 1):
            offs = set([0, nc - 1, min(nc - 1, 63), min(nc - 1, 64), min(nc - 1, 70), min(nc - 1, 128), min(nc - 1, 200),
                        max(0, nc - 65), max(0, nc - 129), rnd.randrange(nc)])
            for co in sorted(offs):
                sse.append("rowadd 3 %d %d 0 2 %d" % (nc, ph, co))
    cip = []
    for nc in ncs:
        for pha in (0, 1):
            for phb in (0, 1):
                for sb in sorted(set([0, 1, 2, W(nc) - 1, max(0, W(nc) - 2), max(0, W(nc) - 4)])):
                    if sb >= W(nc):
                        continue
                    for db in (0, 1):
                        cip.append("cip 3 %d %d 3 %d %d 1 %d 2 %d" % (nc, pha, nc + 64 * db, phb, sb, sb + db))
    rnd.shuffle(cip)
    sse += cip[:60 if quick else 400]
    ce = []
    for nc in ncs:
        for phc in (0, 1):
            for pha in (0, 1):
                for phb in (0, 1):
                    for sb in sorted(set([0, 1, W(nc) - 1, max(0, W(nc) - 3)])):
                        if sb >= W(nc):
                            continue
                        dc = rnd.choice([0, 1]); db = rnd.choice([0, 1])
                        ce.append("ce 3 %d %d 3 %d %d 3 %d %d 0 %d 1 %d 2 %d" % (nc + 64 * dc, phc, nc, pha, nc + 64 * db, phb, sb + dc, sb, sb + db))
    rnd.shuffle(ce)
    sse += ce[:60 if quick else 400]
    comb = []
    for phc in (0, 1):
        for pht in (0, 1):
            for cb in (0, 1, 2, 3):
                for wide in range(0, 14):
                    tb = rnd.choice([0, 2]) + ((cb + phc + pht) % 2)   # same 16-byte phase as c (documented precondition)
                    comb.append("comb %d %d 1 %d 2 %d %d" % (phc, pht, cb, tb, wide))
    rnd.shuffle(comb)
    sse += comb[:50 if quick else 300]
    cn = []
    for N in (2, 3, 4, 5, 6, 7, 8):
        for phm in (0, 1):
            for pht in (0, 1):
                for mb in (0, 1, 2):
                    for wide in list(range(1, 12)) + [16, 17, 18, 19, 23, 24, 25]:
                        tb = rnd.choice([0, 2]) + ((mb + phm + pht) % 2)
                        cn.append("combN %d %d %d 1 %d %d %d" % (N, phm, pht, mb, tb, wide))
    rnd.shuffle(cn)
    sse += cn[:70 if quick else 500]
    out += sse
    for nc in ncs:
        ph = rnd.choice([0, 1])
        for sb in sorted(set([0, 1, W(nc) - 1, W(nc), W(nc) + 1])):
            out.append("rowswap 4 %d %d 1 3 %d" % (nc, ph, sb))
        out.append("rowswap 4 %d %d 2 2 0" % (nc, ph))
        for _ in range(4):
            a = rnd.randrange(nc); b = rnd.randrange(nc); s = rnd.randrange(0, 5); e = rnd.randrange(0, 13)
            out.append("colswap 12 %d %d %d %d %d %d" % (nc, ph, a, b, s, e))
        for _ in range(6):
            n = rnd.randint(1, min(64, nc)); y = rnd.randint(0, nc - n); x = rnd.randrange(4)
            for f in ("readbits", "xorbits", "andbits", "clearbits"):
                out.append("%s 4 %d %d %d %d %d" % (f, nc, ph, x, y, n))
        for co in sorted(set([0, nc - 1, nc // 2, min(nc - 1, 64), min(nc - 1, 63)])):
            out.append("clearoff 3 %d %d 1 %d" % (nc, ph, co))
        out.append("copy 3 %d %d 3 %d %d" % (nc, ph, nc, 1 - ph))
        out.append("copy 4 %d %d 3 %d %d" % (nc + 70, ph, nc, ph))
        out.append("copyrow 3 %d %d 3 %d %d 1 2" % (nc, ph, nc, 1 - ph))
        out.append("copyrow 3 %d %d 3 %d %d 2 0" % (nc + 70, ph, nc, ph))
        out.append("add 3 %d %d 3 %d %d 3 %d %d" % (nc, ph, nc, rnd.choice([0, 1]), nc, rnd.choice([0, 1])))
        for _ in range(4):
            sc = rnd.randrange(nc); ec = rnd.randint(sc + 1, nc)
            if rnd.random() < 0.4:
                sc = (sc // 64) * 64; ec = max(ec, sc + 1)
            sr = rnd.randrange(0, 3); er = rnd.randint(sr, 4)
            out.append("submatrix %d %d %d 4 %d %d %d %d %d %d" % (er - sr, ec - sc, rnd.choice([0, 1]), nc, ph, sr, sc, er, ec))
        for _ in range(3):
            out.append("findpivot 4 %d %d %d %d" % (nc, ph, rnd.randrange(0, 5), rnd.randrange(0, nc + 2)))
        for k in (1, 2, 3):
            c = rnd.randrange(nc); r = rnd.randrange(0, 6)
            out.append("maketable 6 %d %d %d %d %d" % (nc, ph, r, c, k))
        for k in (1, 2, 3):
            if k > nc:
                continue
            sc = rnd.randint(0, nc - k)
            a = rnd.randrange(0, 4); b = rnd.randint(a, 7)
            out.append("processrows 7 %d %d %d %d %d %d 0" % (nc, ph, a, b, sc, k))
            out.append("processrows 7 %d %d %d %d %d %d %d" % (nc, ph, a, b, sc, k, rnd.randint(1, 5)))
    for nc in (576, 640, 1000):   # _mzd_add default branch (width >= 9)
        out.append("add 3 %d 0 3 %d 1 3 %d 0" % (nc, nc, nc))
        out.append("add 2 %d 1 2 %d 1 2 %d 1" % (nc, nc, nc))
    return out


def static_kernels_text(mzd_c):
    """the `static inline` transposition kernels of mzd.c, verbatim (the trace driver #includes them to call them directly):
    from `_mzd_copy_transpose_64x64` up to (not including) `_mzd_transpose_base`, and from `split_round` up to `mzd_transpose`"""
    src = open(mzd_c).read()
    def cut(start_pat, end_pat):
        a = re.search(start_pat, src, re.M)
        b = re.search(end_pat, src[a.end():] if a else '', re.M)
        if not a or not b:
            raise RuntimeError('mzd.c: cannot locate the static transposition kernels (%s .. %s)' % (start_pat, end_pat))
        return src[a.start():a.end() + b.start()]
    return cut(r'^static inline void _mzd_copy_transpose_64x64\(', r'^void _mzd_transpose_base\(') + '\n' + \
        cut(r'^static inline rci_t split_round\(', r'^mzd_t \*mzd_transpose\(')


def run(cases, cfg=None, jobs=5):
    """dict(n, accesses, mismatches, oob, crashed); mismatches/oob are lists of dicts"""
    import concurrent.futures as cf
    # L1 = 256 bytes: the strip loops of the column-permutation kernels then run several strips on small matrices; the
    # driver prints the value it was compiled with and the trace model takes it as a parameter
    cfg = dict(cfg or B.DEFAULT_CFG, l1=256)
    bld = B.Build(cfg=cfg, opt='-O0', harness=None, wrap=False, defines=())
    tmp = tempfile.mkdtemp(prefix='m4riv-trace-')
    try:
        # start-up (the Gray code tables built by the library constructor) dominates the run time of the tracer:
        # the files that contain no traced kernel are recompiled with optimisation
        for f in ('graycode', 'misc', 'mmc'):
            o = [x for x in bld.objs if x.endswith('/%s.o' % f)][0]
            subprocess.run([bld.cc] + [c if c != '-O0' else '-O2' for c in bld.cflags] + bld.inc +
                           ['-c', os.path.join(bld.dir, 'm4ri', f + '.c'), '-o', o], check=True, capture_output=True)
        open(os.path.join(bld.dir, 'tk_static.inc'), 'w').write(static_kernels_text(os.path.join(bld.dir, 'm4ri', 'mzd.c')))
        bld.exe = bld.link_harness('trace_drv.c', wrap=False, extra=('-no-pie', '-I' + bld.dir))
        flt = os.path.join(tmp, 'flt')
        subprocess.run(['gcc', '-O2', '-o', flt, os.path.join(core.VERIF, 'harness', 'trace_flt.c')], check=True)
        chunks = [cases[i::jobs] for i in range(jobs) if cases[i::jobs]]
        with cf.ThreadPoolExecutor(max_workers=jobs) as ex:
            rs = list(ex.map(lambda ic: run_chunk(bld, flt, tmp, ic[1], ic[0]), enumerate(chunks)))
        return dict(n=len(cases), accesses=sum(r['accesses'] for r in rs), mismatches=sum((r['mismatches'] for r in rs), []),
                    oob=sum((r['oob'] for r in rs), []), crashed=any(r['crashed'] for r in rs))
    finally:
        bld.remove()
        shutil.rmtree(tmp, ignore_errors=True)


def run_chunk(bld, flt, tmp, cases, idx):
    if True:
        casefile = os.path.join(tmp, 'cases%d.txt' % idx)
        open(casefile, 'w').write('\n'.join(cases) + '\n')
        nm = subprocess.run("nm %s | grep ' MARK$' | cut -d' ' -f1" % bld.exe, shell=True, capture_output=True, text=True).stdout.strip().lstrip('0')
        nmt = subprocess.run("nm %s | grep ' MARKT$' | cut -d' ' -f1" % bld.exe, shell=True, capture_output=True, text=True).stdout.strip().lstrip('0')
        if nmt:
            t = subprocess.run("objdump -h %s | awk '$2==\".text\"{print $4, $3}'" % bld.exe, shell=True, capture_output=True, text=True).stdout.split()
            nm = '%s %s %x %x' % (nm, nmt, int(t[0], 16), int(t[0], 16) + int(t[1], 16))
        drvout = os.path.join(tmp, 'drv%d.out' % idx); trace = os.path.join(tmp, 'trace%d.txt' % idx)
        p = subprocess.run("valgrind --tool=lackey --trace-mem=yes --log-fd=2 %s %s 2>&1 >%s | %s %s > %s" % (bld.exe, casefile, drvout, flt, nm, trace),
                           shell=True, capture_output=True, text=True)
        infos = []; cur = None
        for l in open(drvout):
            if l.startswith('CASE'):
                cur = {'ops': [], 'extra': []}; infos.append(cur)
            elif l.startswith('OP'):
                d = dict(kv.split('=') for kv in l.split()[2:])
                cur['ops'].append((int(l.split()[1]), int(d['data'], 16), int(d['rowstride']), int(d['lo'], 16), int(d['hi'], 16),
                                   int(d['nrows']), int(d['ncols'])))
            elif l.startswith('INC') or l.startswith('BITS') or l.startswith('X '):
                cur['extra'] += l.split()[1:]
        traces = []; t = None
        for l in open(trace):
            if l.startswith('BEGIN'):
                t = []
            elif l.startswith('END'):
                traces.append(t); t = None
            elif t is not None:
                k = l[1]; a, s = l[3:].strip().split(','); t.append((k, int(a, 16), int(s)))
        if len(infos) != len(cases) or len(traces) != len(cases):
            # the driver died in the middle: the first case without a complete trace is the failing input
            i = min(len(traces), len(infos) - 1 if infos else 0)
            return dict(n=len(cases), accesses=0, mismatches=[], oob=[dict(case=cases[i] if i < len(cases) else '?', what='driver crashed (signal) while running this call',
                                                                       detail=p.stderr[-500:])], crashed=True)
        inp = ''.join(c + (' ' + ' '.join(i['extra']) if i['extra'] else '') + '\n' for c, i in zip(cases, infos))
        m = subprocess.run([TRACE_EXE], input=inp, capture_output=True, text=True)
        lines = m.stdout.split('\n')
        if lines and lines[-1] == '':
            lines = lines[:-1]
        lines = lines[-len(cases):]
        mism = []; oob = []; tot = 0
        for c, info, tr, l in zip(cases, infos, traces, lines):
            acc = []
            bad = []
            libc_copy = c.startswith('submatrix')      # word-aligned branch is a memcpy: glibc may use wide, unaligned, repeated accesses
            words = set()
            for (k, a, s) in tr:
                for (op, data, rs, lo, hi, nr, nc) in info['ops']:
                    if lo <= a < hi:
                        off = (a - data) // 8
                        row, w = (off // rs, off % rs) if rs > 0 else (0, off)
                        width = W(nc)
                        kinds = ['R', 'W'] if k == 'M' else (['R'] if k == 'L' else ['W'])
                        for b in range(a, a + s, 8):
                            o2 = (b - data) // 8
                            r2, w2 = (o2 // rs, o2 % rs) if rs > 0 else (0, o2)
                            if c.split()[0] in BOUNDS_CHECKED and not (0 <= r2 < nr and 0 <= w2 < width):
                                bad.append('operand %d row %d word %d (access of %d bytes) outside %dx%d (width %d)' % (op, r2, w2, s, nr, nc, width))
                            for kk in kinds:
                                words.add((op, r2, w2, kk))
                        if s == 16 and a % 16 != 0 and not libc_copy:
                            bad.append('misaligned 16-byte access at operand %d row %d word %d' % (op, row, w))
                        for kk in kinds:
                            acc.append('%d,%d,%d,%s,%d' % (op, row, w, kk, s))
            acc.sort()
            model = sorted(l.split())
            tot += len(acc)
            same = model == acc
            if not same and libc_copy:
                mw = set()
                for x in model:
                    o_, r_, w_, k_, s_ = x.split(',')
                    for j in range(int(s_) // 8):
                        mw.add((int(o_), int(r_), int(w_) + j, k_))
                same = mw == words
            if bad and not same:
                oob.append(dict(case=c, what=bad[0], n_bad=len(bad)))
            elif not same:
                ca = collections.Counter(acc); cm = collections.Counter(model)
                mism.append(dict(case=c, only_code=sorted((ca - cm).elements())[:12], only_model=sorted((cm - ca).elements())[:12]))
        return dict(n=len(cases), accesses=tot, mismatches=mism, oob=oob, crashed=False)


if __name__ == '__main__':
    import sys, time
    t = time.time()
    cs = gen_cases(int(sys.argv[1]) if len(sys.argv) > 1 else 1, quick='--full' not in sys.argv)
    r = run(cs)
    print(len(cs), 'cases', r['accesses'], 'accesses', len(r['mismatches']), 'mismatches', len(r['oob']), 'oob', 'crashed' if r.get('crashed') else '', round(time.time() - t, 1), 's')
    for x in (r['mismatches'] + r['oob'])[:8]:
        print(x)
