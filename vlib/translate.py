"""Translator: regenerates lean/M4ri/Gen/*.lean from /repo's current sources on every check.

What is translated (so that the theorems are re-checked against what the code says now):
  * numeric constants (#define / static const) that the model and the proofs use;
  * the cache-size formulas of the thresholds, as Lean functions of (L1, L2, L3), through a small C
    integer-expression translator (literals, + - * / % << >>, MIN/MAX, casts, (int)sqrt((double)e) -> Nat.sqrt);
  * small decision functions (strassen.c `closer`, transpose `split_round`) -- body translated;
  * inventories: allocation call sites with their NULL-check status, OpenMP pragmas, writable statics.
A pattern that is no longer found is an error (the tie is broken), never skipped.
"""
import os, re, subprocess, json

REPO = os.environ.get('VERIF_REPO', '/repo')
VERIF = os.path.dirname(os.path.dirname(os.path.abspath(__file__)))
GEN = os.path.join(VERIF, 'lean', 'M4ri', 'Gen')


class TranslateError(Exception):
    pass


def src(name):
    return open(os.path.join(REPO, 'm4ri', name)).read()


def strip_c_comments(s):
    s = re.sub(r'/\*.*?\*/', ' ', s, flags=re.S)
    s = re.sub(r'//[^\n]*', '', s)
    return s


def define(text, name):
    m = re.search(r'^[ \t]*#[ \t]*define[ \t]+%s[ \t]+(.*?)(?<!\\)$' % re.escape(name), text, re.M)
    if not m:
        raise TranslateError('#define %s not found' % name)
    return m.group(1).strip()


# ---------------------------------------------------------------- C integer expression -> Lean (Nat)
TOK = re.compile(r'\s*(?:(\d+)(?:\.0+)?[uUlLfF]*|([A-Za-z_]\w*)|(<<|>>|<=|>=|==|!=|&&|\|\||[-+*/%()<>,?:!&|^~]))')


def tokenize(e):
    out = []
    pos = 0
    e = e.strip()
    while pos < len(e):
        m = TOK.match(e, pos)
        if not m:
            raise TranslateError('cannot tokenize %r at %d' % (e, pos))
        if m.group(1) is not None:
            out.append(('num', m.group(1)))
        elif m.group(2) is not None:
            out.append(('id', m.group(2)))
        else:
            out.append(('op', m.group(3)))
        pos = m.end()
    return out


class P:
    """precedence-climbing parser producing Lean source over Nat (all values here are non-negative)"""
    PREC = {'||': 1, '&&': 2, '|': 3, '^': 4, '&': 5, '==': 6, '!=': 6, '<': 7, '<=': 7, '>': 7, '>=': 7,
            '<<': 8, '>>': 8, '+': 9, '-': 9, '*': 10, '/': 10, '%': 10}

    def __init__(self, toks, env):
        self.t = toks
        self.i = 0
        self.env = env

    def peek(self):
        return self.t[self.i] if self.i < len(self.t) else (None, None)

    def eat(self, v=None):
        k, x = self.peek()
        if v is not None and x != v:
            raise TranslateError('expected %r got %r' % (v, x))
        self.i += 1
        return x

    def expr(self, minp=0):
        lhs = self.unary()
        while True:
            k, x = self.peek()
            if k == 'op' and x == '?' and minp == 0:
                self.eat()
                a = self.expr(0)
                self.eat(':')
                b = self.expr(0)
                lhs = '(if %s then %s else %s)' % (self.cond(lhs), a, b)
                continue
            if k != 'op' or x not in self.PREC or self.PREC[x] < minp:
                return lhs
            self.eat()
            rhs = self.expr(self.PREC[x] + 1)
            lhs = self.binop(x, lhs, rhs)

    def cond(self, e):
        return e if e.startswith('(decide') or ' ≤ ' in e or ' < ' in e or ' = ' in e else '(%s ≠ 0)' % e

    def binop(self, op, a, b):
        m = {'+': '+', '-': '-', '*': '*', '/': '/', '%': '%', '<<': '<<<', '>>': '>>>'}
        if op in m:
            return '(%s %s %s)' % (a, m[op], b)
        c = {'<': '<', '<=': '≤', '>': '>', '>=': '≥', '==': '=', '!=': '≠'}
        if op in c:
            return '(%s %s %s)' % (a, c[op], b)
        if op == '&&':
            return '(%s ∧ %s)' % (self.cond(a), self.cond(b))
        if op == '||':
            return '(%s ∨ %s)' % (self.cond(a), self.cond(b))
        if op == '&':
            return '(%s &&& %s)' % (a, b)
        if op == '|':
            return '(%s ||| %s)' % (a, b)
        if op == '^':
            return '(%s ^^^ %s)' % (a, b)
        raise TranslateError('operator %s' % op)

    def unary(self):
        k, x = self.peek()
        if k == 'num':
            self.eat()
            return x
        if k == 'op' and x == '(':
            # cast?
            if self.i + 2 < len(self.t) and self.t[self.i + 1][0] == 'id' and \
               self.t[self.i + 1][1] in ('int', 'double', 'rci_t', 'wi_t', 'size_t', 'long', 'unsigned') and \
               self.t[self.i + 2] == ('op', ')'):
                self.i += 3
                return self.unary()
            self.eat('(')
            e = self.expr(0)
            self.eat(')')
            return e
        if k == 'id':
            self.eat()
            if x in ('MIN', 'MAX'):
                self.eat('(')
                a = self.expr(0)
                self.eat(',')
                b = self.expr(0)
                self.eat(')')
                return '(%s %s %s)' % ('min' if x == 'MIN' else 'max', a, b)
            if x == 'sqrt':
                self.eat('(')
                a = self.expr(0)
                self.eat(')')
                return '(Nat.sqrt %s)' % a
            if x in self.env:
                return self.env[x]
            raise TranslateError('unknown identifier %s in expression' % x)
        raise TranslateError('unexpected token %r' % (x,))


def c_expr_to_lean(e, env):
    p = P(tokenize(e), env)
    r = p.expr(0)
    if p.i != len(p.t):
        raise TranslateError('trailing tokens in %r' % e)
    return r


# ---------------------------------------------------------------- inventories
ALLOC_RE = re.compile(r'\b(malloc|calloc|realloc|m4ri_mm_malloc|m4ri_mm_calloc|m4ri_mm_malloc_aligned|m4ri_mmc_malloc|m4ri_mmc_calloc|_mm_malloc|posix_memalign)\s*\(')
CHECKED_WRAPPERS = {'m4ri_mm_malloc', 'm4ri_mm_calloc', 'm4ri_mm_malloc_aligned', 'm4ri_mmc_malloc', 'm4ri_mmc_calloc'}


def alloc_inventory():
    """every call of an allocation primitive in m4ri/*.c,*.h with a syntactic verdict:
    'wrapper' (goes through a checking m4ri_mm_* wrapper), 'checked' (raw call whose result is compared with
    NULL / tested within the next few statements, followed by m4ri_die), 'unchecked'."""
    sites = []
    d = os.path.join(REPO, 'm4ri')
    for f in sorted(os.listdir(d)):
        if not (f.endswith('.c') or f.endswith('.h')):
            continue
        if f in ('config.h', 'm4ri_config.h'):
            continue
        text = strip_c_comments(open(os.path.join(d, f)).read())
        lines = text.split('\n')
        for ln, line in enumerate(lines):
            for m in ALLOC_RE.finditer(line):
                callee = m.group(1)
                # skip declarations/definitions of the wrappers themselves
                if re.search(r'\b(static|inline|void\s*\*)\s.*\b%s\s*\(' % callee, line) and ';' not in line.split(callee)[0]:
                    if re.match(r'\s*(static\s+)?(inline\s+)?void\s*\*\s*%s\s*\(' % callee, line):
                        continue
                if callee in CHECKED_WRAPPERS:
                    verdict = 'wrapper'
                else:
                    window = '\n'.join(lines[ln:ln + 8])
                    if re.search(r'==\s*NULL|!\s*\w+\s*\)|if\s*\(\s*error\s*\)|error\s*\)\s*\w+\s*=\s*NULL', window) and \
                       re.search(r'm4ri_die|=\s*NULL', window):
                        verdict = 'checked'
                    else:
                        verdict = 'unchecked'
                sites.append((f, ln + 1, callee, verdict))
    return sites


def omp_inventory():
    out = []
    d = os.path.join(REPO, 'm4ri')
    for f in sorted(os.listdir(d)):
        if not f.endswith('.c'):
            continue
        for ln, line in enumerate(open(os.path.join(d, f)).read().split('\n')):
            m = re.match(r'\s*#\s*pragma\s+omp\s+(.*)$', line)
            if m:
                out.append((f, ln + 1, re.sub(r'\s+', ' ', m.group(1).strip())))
    return out


C_TYPES = r'(?:unsigned\s+|signed\s+|const\s+|static\s+|register\s+)*(?:word|rci_t|wi_t|int|long|unsigned|size_t|char|double|float|mzd_t|mzp_t|uint64_t|int64_t|uint32_t|int32_t|__m128i|void)\b'
DECL_RE = re.compile(C_TYPES + r'(?:\s+const\b|\s*\*|\s+)*\s*([A-Za-z_]\w*)\s*(?:=(?!=)|;|\[|,)')
WRITE_RE = re.compile(r'(?<![\w.>])([A-Za-z_]\w*)\s*((?:\[[^\]]*\]\s*)*)(?:=(?!=)|\+=|-=|\*=|/=|%=|\^=|\|=|&=|<<=|>>=|\+\+|--)')
PREINC_RE = re.compile(r'(?:\+\+|--)\s*([A-Za-z_]\w*)')


def matching_brace(text, i):
    depth = 0
    for j in range(i, len(text)):
        if text[j] == '{':
            depth += 1
        elif text[j] == '}':
            depth -= 1
            if depth == 0:
                return j
    raise TranslateError('unbalanced braces after offset %d' % i)


def omp_loops():
    """for every `#pragma omp parallel for`: the loop variable, the names in its private(...) clause and the names
    declared OUTSIDE the loop body that the body assigns (directly or element-wise).  The proofs of order-independence
    (Sched.parfor_perm_invariant) assume each iteration writes only its own state: every such name must be private."""
    out = []
    d = os.path.join(REPO, 'm4ri')
    for f in sorted(os.listdir(d)):
        if not f.endswith('.c'):
            continue
        raw = open(os.path.join(d, f)).read()
        text = re.sub(r'/\*.*?\*/', lambda m: re.sub(r'[^\n]', ' ', m.group(0)), raw, flags=re.S)
        text = re.sub(r'//[^\n]*', '', text)
        for m in re.finditer(r'^[ \t]*#[ \t]*pragma[ \t]+omp[ \t]+parallel[ \t]+for\b((?:[^\n]*\\\n)*[^\n]*)\n', text, re.M):
            line = text.count('\n', 0, m.start()) + 1
            clauses = re.sub(r'\\\n', ' ', m.group(1))
            priv = []
            for c in re.finditer(r'\b(?:private|firstprivate|lastprivate)\s*\(([^)]*)\)', clauses):
                priv += [x.strip() for x in c.group(1).split(',') if x.strip()]
            rest = text[m.end():]
            fm = re.match(r'(?:[ \t]*#[^\n]*\n|\s)*for\s*\(\s*(?:' + C_TYPES + r'(?:\s+const\b|\s+)*)?\s*([A-Za-z_]\w*)\s*=', rest)
            if not fm:
                raise TranslateError('%s:%d: no for loop after omp parallel for' % (f, line))
            var = fm.group(1)
            ob = rest.index('{', fm.end())
            # the for header must close before the brace
            cb = matching_brace(rest, ob)
            body = rest[ob + 1:cb]
            declared = set(DECL_RE.findall(body))
            written = set()
            for w in WRITE_RE.finditer(body):
                written.add(w.group(1))
            for w in PREINC_RE.finditer(body):
                written.add(w.group(1))
            outer = sorted(x for x in written if x not in declared and x != var)
            out.append((f, line, var, sorted(priv), outer))
    return out


def mmc_critical():
    """every access to the shared block cache in mmc.c (the array, its alias `mm`, the static cursor `j`) with the flag
    "lies textually inside a `#pragma omp critical(mmc) { … }` region".  C14's invariants hold for every SEQUENCE of
    cache operations; they carry over to the OpenMP build only if the operations are atomic."""
    raw = open(os.path.join(REPO, 'm4ri', 'mmc.c')).read()
    text = re.sub(r'/\*.*?\*/', lambda m: re.sub(r'[^\n]', ' ', m.group(0)), raw, flags=re.S)
    text = re.sub(r'//[^\n]*', '', text)
    regions = []
    for m in re.finditer(r'^[ \t]*#[ \t]*pragma[ \t]+omp[ \t]+critical[ \t]*\([ \t]*mmc[ \t]*\)[^\n]*\n', text, re.M):
        ob = text.index('{', m.end())
        if text[m.end():ob].strip():
            raise TranslateError('mmc.c: critical(mmc) not followed by a block')
        regions.append((ob, matching_brace(text, ob)))
    out = []
    for m in re.finditer(r'\bm4ri_mmc_cache\b|\bmm\s*\[|\bj\b\s*(?:=(?!=)|\))', text):
        line = text.count('\n', 0, m.start()) + 1
        ctx = text[text.rfind('\n', 0, m.start()) + 1:text.find('\n', m.start())].strip()
        if re.match(r'mmb_t\s+m4ri_mmc_cache\s*\[', ctx):
            continue        # the definition of the array
        out.append((line, any(a < m.start() < b for a, b in regions)))
    if not out:
        raise TranslateError('mmc.c: no access to the block cache found')
    return out


def lean_str(s):
    return '"' + s.replace('\\', '\\\\').replace('"', '\\"') + '"'


def write_if_changed(path, content):
    os.makedirs(os.path.dirname(path), exist_ok=True)
    if os.path.exists(path) and open(path).read() == content:
        return False
    open(path, 'w').write(content)
    return True


def regenerate():
    misc = strip_c_comments(src('misc.h'))
    mzdh = strip_c_comments(src('mzd.h'))
    mzdc = strip_c_comments(src('mzd.c'))
    consts = {}
    m = re.search(r'static\s+int\s+const\s+m4ri_radix\s*=\s*(\d+)\s*;', misc)
    if not m:
        raise TranslateError('m4ri_radix not found')
    consts['radix'] = int(m.group(1))
    consts['maxKay'] = int(define(strip_c_comments(src('graycode.h')), '__M4RI_MAXKAY'))
    consts['mmcNBlocks'] = int(define(strip_c_comments(src('mmc.h')), '__M4RI_MMC_NBLOCKS'))
    consts['mzdTCacheMax'] = int(define(mzdc, '__M4RI_MZD_T_CACHE_MAX'))
    consts['m4rmNTables'] = int(define(strip_c_comments(src('brilliantrussian.c')), '__M4RI_M4RM_NTABLES'))
    consts['pleNTables'] = int(define(strip_c_comments(src('ple_russian.c')), '__M4RI_PLE_NTABLES'))
    consts['trsmNTables'] = int(define(strip_c_comments(src('triangular_russian.c')), '__M4RI_TRSM_NTABLES'))
    consts['trtriNTables'] = int(define(strip_c_comments(src('triangular_russian.c')), '__M4RI_TRTRI_NTABLES'))
    env = {'__M4RI_CPU_L1_CACHE': 'L1', '__M4RI_CPU_L2_CACHE': 'L2', '__M4RI_CPU_L3_CACHE': 'L3',
           'm4ri_radix': str(consts['radix'])}
    forms = {}
    forms['mulBlocksize'] = c_expr_to_lean(define(mzdh, '__M4RI_MUL_BLOCKSIZE'), env)
    forms['strassenCutoff'] = c_expr_to_lean(define(strip_c_comments(src('strassen.h')), '__M4RI_STRASSEN_MUL_CUTOFF'), env)
    forms['pleCutoff'] = c_expr_to_lean(define(strip_c_comments(src('ple.h')), '__M4RI_PLE_CUTOFF'), env)
    forms['mmcThreshold'] = c_expr_to_lean(define(strip_c_comments(src('mmc.h')), '__M4RI_MMC_THRESHOLD'), env)
    # decision functions ------------------------------------------------------------------
    st = strip_c_comments(src('strassen.c'))
    m = re.search(r'static\s+inline\s+int\s+closer\s*\(\s*rci_t\s+a\s*,\s*int\s+cutoff\s*\)\s*\{\s*return\s+(.*?);\s*\}', st, re.S)
    if not m:
        raise TranslateError('strassen.c: closer() not found')
    closer = c_expr_to_lean(m.group(1).strip(), {'a': 'a', 'cutoff': 'cutoff', 'm4ri_radix': str(consts['radix'])})
    m2 = re.search(r'static\s+inline\s+rci_t\s+split_round\s*\(\s*rci_t\s+n\s*,\s*rci_t\s+k\s*\)\s*\{\s*rci_t\s+half\s*=\s*(.*?);\s*return\s+(.*?);\s*\}', mzdc, re.S)
    if not m2:
        raise TranslateError('mzd.c: split_round not found')
    half = c_expr_to_lean(m2.group(1), {'n': 'n', 'k': 'k'})
    split_round = c_expr_to_lean(m2.group(2), {'n': 'n', 'k': 'k', 'half': half})
    # naive-multiplication thin switch: "B->ncols < m4ri_radix - 10"
    m3 = re.findall(r'if\s*\(\s*B->ncols\s*<\s*(m4ri_radix\s*-\s*\d+)\s*\)', mzdc)
    if len(m3) < 2:
        raise TranslateError('mzd.c: thin-matrix switch of mzd_mul_naive not found')
    thin = c_expr_to_lean(m3[0], env)
    inv = alloc_inventory()
    omp = omp_inventory()
    loops = omp_loops()
    mmc = mmc_critical()
    L = []
    L.append('/- GENERATED by vlib/translate.py from /repo/m4ri on every check. Do not edit. -/')
    L.append('set_option linter.unusedVariables false')
    L.append('namespace M4ri.Gen')
    for k, v in consts.items():
        L.append('def %s : Nat := %d' % (k, v))
    for k, v in forms.items():
        L.append('def %s (L1 L2 L3 : Nat) : Nat := %s' % (k, v))
    L.append('def splitRound (n k : Nat) : Nat := %s' % split_round)
    L.append('def mulNaiveThin : Nat := %s' % thin)
    L.append('/-- strassen.c `closer(a, cutoff)` -/')
    L.append('def closer (a cutoff : Nat) : Bool := decide %s' % closer)
    L.append('end M4ri.Gen')
    I = []
    I.append('/- GENERATED by vlib/translate.py from /repo/m4ri on every check. Do not edit. -/')
    I.append('namespace M4ri.Gen')
    I.append('/-- allocation call sites: (file, line, callee, verdict) -/')
    I.append('def allocSites : List (String × Nat × String × String) := [')
    I.append(',\n'.join('  (%s, %d, %s, %s)' % (lean_str(f), ln, lean_str(c), lean_str(v)) for f, ln, c, v in inv))
    I.append(']')
    I.append('/-- OpenMP pragmas: (file, line, text) -/')
    I.append('def ompPragmas : List (String × Nat × String) := [')
    I.append(',\n'.join('  (%s, %d, %s)' % (lean_str(f), ln, lean_str(t)) for f, ln, t in omp))
    I.append(']')
    I.append('/-- `omp parallel for` loops: (file, line, loop variable, private names, names declared outside the body that the body assigns) -/')
    I.append('def ompLoops : List (String × Nat × String × List String × List String) := [')
    I.append(',\n'.join('  (%s, %d, %s, [%s], [%s])' % (lean_str(f), ln, lean_str(v), ', '.join(map(lean_str, p)), ', '.join(map(lean_str, w)))
                        for f, ln, v, p, w in loops))
    I.append(']')
    I.append('/-- accesses to the shared block cache in mmc.c: (line, inside `omp critical(mmc)`) -/')
    I.append('def mmcAccesses : List (Nat × Bool) := [' + ', '.join('(%d, %s)' % (l, 'true' if c else 'false') for l, c in mmc) + ']')
    I.append('end M4ri.Gen')
    # the clang-AST translator of whole scalar functions / integer slices / word-level kernels (Gen/CFuns.lean)
    from . import ctrans
    try:
        cinfo = ctrans.regenerate()
    except ctrans.CTransError as e:
        raise TranslateError('ctrans: %s' % e)
    changed = write_if_changed(os.path.join(GEN, 'Params.lean'), '\n'.join(L) + '\n')
    changed = write_if_changed(os.path.join(GEN, 'Inventory.lean'), '\n'.join(I) + '\n') or changed
    return dict(changed=changed, constants=consts, formulas=forms, alloc_sites=len(inv),
                unchecked_sites=[s for s in inv if s[3] == 'unchecked'], omp_pragmas=len(omp), mmc_accesses=len(mmc), mmc_unprotected=[l for l, c in mmc if not c], omp_loops=['%s:%d var=%s private=%s outer-written=%s' % l for l in loops], obligations=0,
                c_functions_translated=['%s:%s' % (m['file'], m['function']) + (' (slice)' if m['slice'] else '') for m in cinfo['functions']])


if __name__ == '__main__':
    print(json.dumps(regenerate(), indent=1, default=str))
