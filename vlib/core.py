"""Shared machinery of the checks: Lean build + audit, correspondence runs, replay files, evidence."""
import fcntl, hashlib, json, os, re, subprocess, sys, tempfile, time

VERIF = os.path.dirname(os.path.dirname(os.path.abspath(__file__)))
LEAN = os.path.join(VERIF, 'lean')
MODEL_EXE = os.path.join(LEAN, '.lake', 'build', 'bin', 'm4ri_model')
REPLAYS = os.path.join(VERIF, 'replays')
EVIDENCE = os.path.join(VERIF, 'evidence')

AXIOMS_OK = {'propext', 'Classical.choice', 'Quot.sound'}
FORBIDDEN = re.compile(r'\b(sorry|admit|native_decide|bv_decide|implemented_by|unsafe|maxHeartbeats\s+0)\b|^\s*axiom\s', re.M)


class Lock:
    def __init__(self, name='lake'):
        self.path = os.path.join(LEAN, '.%s.lock' % name)
    def __enter__(self):
        self.f = open(self.path, 'w')
        fcntl.flock(self.f, fcntl.LOCK_EX)
        return self
    def __exit__(self, *a):
        fcntl.flock(self.f, fcntl.LOCK_UN)
        self.f.close()


def lake_build(targets, timeout=3600):
    """lake build the given targets under a lock; returns (ok, output)"""
    with Lock():
        r = subprocess.run(['lake', 'build'] + list(targets), cwd=LEAN, capture_output=True, text=True, timeout=timeout)
    return r.returncode == 0, (r.stdout + r.stderr)


def strip_comments(src):
    # remove /- ... -/ (nested not handled beyond one level) and -- line comments
    out = []
    i = 0
    depth = 0
    n = len(src)
    while i < n:
        if src.startswith('/-', i):
            depth += 1
            i += 2
        elif depth and src.startswith('-/', i):
            depth -= 1
            i += 2
        elif depth:
            i += 1
        elif src.startswith('--', i):
            j = src.find('\n', i)
            i = n if j < 0 else j
        else:
            out.append(src[i])
            i += 1
    return ''.join(out)


def grep_audit():
    """forbidden constructs in any .lean file of the package (comments stripped)"""
    hits = []
    for root, _, files in os.walk(LEAN):
        if '.lake' in root:
            continue
        for f in files:
            if f.endswith('.lean'):
                p = os.path.join(root, f)
                src = strip_comments(open(p).read())
                # string literals may mention words; drop them
                src2 = re.sub(r'"(\\.|[^"\\])*"', '""', src)
                for m in FORBIDDEN.finditer(src2):
                    hits.append('%s: %s' % (os.path.relpath(p, LEAN), m.group(0).strip()))
    return hits


def axioms_audit(theorems, imports):
    """#print axioms for each theorem; returns dict name -> list of axioms, or raises"""
    if not theorems:
        return {}
    src = ''.join('import %s\n' % i for i in imports) + ''.join('#print axioms %s\n' % t for t in theorems)
    with tempfile.NamedTemporaryFile('w', suffix='.lean', dir=LEAN, delete=False) as f:
        f.write(src)
        path = f.name
    try:
        r = subprocess.run(['lake', 'env', 'lean', path], cwd=LEAN, capture_output=True, text=True, timeout=1800)
    finally:
        os.unlink(path)
    out = r.stdout + r.stderr
    res = {}
    # "'name' depends on axioms: [a, b]" or "'name' does not depend on any axioms"
    for m in re.finditer(r"^'([^\n]+?)' depends on axioms: \[([^\]]*)\]", out, re.M):
        res[m.group(1)] = [a.strip() for a in m.group(2).replace('\n', ' ').split(',') if a.strip()]
    for m in re.finditer(r"^'([^\n]+?)' does not depend on any axioms", out, re.M):
        res[m.group(1)] = []
    missing = [t for t in theorems if t not in res]
    return res, missing, out


def parse_results(text):
    """id -> (main, diag)"""
    res = {}
    for line in text.splitlines():
        line = line.strip()
        if not line:
            continue
        sp = line.split(' ', 1)
        cid = sp[0]
        rest = sp[1] if len(sp) > 1 else ''
        if ' # ' in rest:
            main, diag = rest.split(' # ', 1)
        elif rest.endswith(' #'):
            main, diag = rest[:-2], ''
        else:
            main, diag = rest, ''
        if cid in res and res[cid][0].startswith('ok'):
            # a later fate line (signal) for the same id overrides nothing that completed
            continue
        res[cid] = (main.strip(), diag.strip())
    return res


def run_exe(exe, lines, args=(), env=None, timeout=3600):
    data = '\n'.join(lines) + '\n'
    e = dict(os.environ)
    if env:
        e.update(env)
    r = subprocess.run([exe] + list(args), input=data, capture_output=True, text=True, errors='replace', env=e, timeout=timeout)
    return r


def mat_tokens(tokens, i):
    """parse 'm r c w...' at tokens[i] (result format, no place token); returns (r, c, words, next_i)"""
    r, c = int(tokens[i + 1]), int(tokens[i + 2])
    w = (c + 63) // 64
    return r, c, tokens[i + 3:i + 3 + r * w], i + 3 + r * w


def arg_mats(line):
    """matrix operands of an operation line as 'm r c o words' strings (owned placement), in order; aliases resolved"""
    t = line.split()
    out = []
    i = 2
    args = []
    while i < len(t):
        if t[i] == 'm':
            r, c = int(t[i + 1]), int(t[i + 2])
            w = (c + 63) // 64
            args.append(('m', r, c, t[i + 4:i + 4 + r * w], t[i + 3]))
            i += 4 + r * w
        elif t[i] == 'p':
            ln = int(t[i + 1])
            args.append(('p', t[i + 2:i + 2 + ln]))
            i += 2 + ln
        elif t[i].startswith('@'):
            args.append(('@', int(t[i][1:])))
            i += 1
        else:
            args.append(('v', t[i]))
            i += 1
    return [args[a[1]] if a[0] == '@' and a[1] < len(args) else a for a in args]


def mask_mat(r, c, words):
    """owned-matrix token string with excess bits cleared"""
    w = (c + 63) // 64
    out = []
    hb = (1 << (c % 64)) - 1 if c % 64 else (1 << 64) - 1
    for x in range(r):
        for y in range(w):
            v = int(words[x * w + y], 16)
            if y == w - 1:
                v &= hb
            out.append('%x' % v)
    return 'm %d %d o %s' % (r, c, ' '.join(out)) if out else 'm %d %d o' % (r, c)


def raw_mat(a):
    """operand token string exactly as given (placement and excess bits kept)"""
    return 'm %d %d %s%s' % (a[1], a[2], a[4], (' ' + ' '.join(a[3])) if a[3] else '')


GLUE_OPS = ('solve_left', 'pluq_solve_left', 'kernel', 'echelonize_pluq')
EXACT_OPS = ('ple', 'pluq', 'ple_russian', 'pluq_russian', 'trsm_ll', 'trsm_ul', 'trsm_ur', 'trsm_lr', 'trtri_upper',
             'echelonize', 'echelonize_m4ri', 'echelonize_m4ri_h', 'inv_m4ri')


def exact_line(cid, line, cfg):
    """second-phase line for the exact mirrors that depend on the build configuration (cache sizes)"""
    t = line.split()
    op = t[1]
    args = arg_mats(line)
    try:
        if op.startswith('trsm_'):
            return '%s.glue %s_exact %s %s %d %d %d %d' % (cid, op, raw_mat(args[0]), raw_mat(args[1]), cfg['l1'], cfg['l2'], cfg['l3'], cfg['sse2'])
        c3 = '%d %d %d' % (cfg['l1'], cfg['l2'], cfg['l3'])
        if op == 'echelonize':
            return '%s.glue echelonize_exact %s %s %s' % (cid, raw_mat(args[0]), args[1][1], c3)
        if op == 'echelonize_m4ri':
            return '%s.glue echelonize_m4ri_exact0 %s %s %s %s' % (cid, raw_mat(args[0]), args[1][1], args[2][1], c3)
        if op == 'echelonize_m4ri_h':
            return '%s.glue echelonize_m4ri_h_exact %s %s %s %s %s' % (cid, raw_mat(args[0]), args[1][1], args[2][1], args[3][1], c3)
        if op == 'inv_m4ri':
            if args[0] != ('v', 'null'):
                return None      # result written into a supplied (possibly windowed) destination: value compared by the first phase
            return '%s.glue inv_m4ri_exact %s %s' % (cid, raw_mat(args[1]), c3)
        if op == 'trtri_upper':
            return '%s.glue %s_exact %s %d %d %d %d' % (cid, op, raw_mat(args[0]), cfg['l1'], cfg['l2'], cfg['l3'], cfg['sse2'])
        pq = ' '.join('p %d %s' % (len(a[1]), ' '.join(a[1])) for a in args[1:3])
        pq = re.sub(r' +', ' ', pq)
        if op in ('ple', 'pluq'):
            return '%s.glue %s_exact %s %s %d %d %d' % (cid, op, raw_mat(args[0]), pq, cfg['l1'], cfg['l2'], cfg['l3'])
        return '%s.glue %s_exact %s %s %s %d' % (cid, op, raw_mat(args[0]), pq, args[3][1], cfg['l2'])
    except Exception as e:
        return '%s.glue bad-exact-input %s' % (cid, type(e).__name__)


def glue_line(cid, line, fact_main):
    """second-phase line for the glue mirrors: the model routine is instantiated with the factorisation (S, P, Q, r)
    that the library produced for this input; its output must equal the implementation's exactly"""
    t = line.split()
    op = t[1]
    if op not in GLUE_OPS or not fact_main.startswith('ok'):
        return None
    res = fact_main.split()
    args = arg_mats(line)
    try:
        rk = int(res[2])
        rr, cc, words, i = mat_tokens(res, 3)
        lp = int(res[i + 1]); P = res[i + 2:i + 2 + lp]; i += 2 + lp
        lq = int(res[i + 1]); Q = res[i + 2:i + 2 + lq]
        fact = '%s p %d %s p %d %s %d' % (mask_mat(rr, cc, words), lp, ' '.join(P), lq, ' '.join(Q), rk)
        fact = re.sub(r' +', ' ', fact)
        if op == 'solve_left':
            return '%s.glue glue_solve %s %s %s %s' % (cid, fact, raw_mat(args[0]), raw_mat(args[1]), args[3][1])
        if op == 'pluq_solve_left':
            return '%s.glue glue_pluq_solve %s %s %s' % (cid, fact, raw_mat(args[1]), args[3][1])
        if op == 'kernel':
            return '%s.glue glue_kernel %s %s' % (cid, fact, raw_mat(args[0]))
        if op == 'echelonize_pluq':
            return '%s.glue glue_echelonize %s %s %s' % (cid, fact, raw_mat(args[0]), args[1][1])
    except Exception as e:
        return '%s.glue bad-glue-input %s' % (cid, type(e).__name__)
    return None


def checker_line(cid, line, impl_main):
    """second-phase line judging the implementation's (non-unique) output with the Lean checkers"""
    t = line.split()
    op = t[1]
    if not impl_main.startswith('ok'):
        return None
    res = impl_main.split()
    args = arg_mats(line)
    try:
        if op in ('echelonize_m4ri', 'echelonize_m4ri_exact', 'echelonize_m4ri_h', 'echelonize_pluq', 'echelonize', 'echelonize_naive', 'gauss_delayed'):
            if op == 'gauss_delayed' and args[1][1] != '0':
                return None
            A0 = args[0]
            full = args[2][1] if op == 'gauss_delayed' else args[1][1]
            r = int(res[2])
            rr, cc, words, _ = mat_tokens(res, 3)
            return '%s.chk check_echelon %s %s %d %s' % (cid, mask_mat(A0[1], A0[2], A0[3]), mask_mat(rr, cc, words), r, full)
        if op in ('ple_naive', 'pluq_naive', 'ple', 'pluq', 'ple_russian', 'pluq_russian'):
            A0 = args[0]
            r = int(res[2])
            rr, cc, words, i = mat_tokens(res, 3)
            lp = int(res[i + 1]); P = res[i + 2:i + 2 + lp]; i += 2 + lp
            lq = int(res[i + 1]); Q = res[i + 2:i + 2 + lq]
            kind = 'check_ple' if op.startswith('ple') else 'check_pluq'
            return '%s.chk %s %s %s p %d %s p %d %s %d' % (cid, kind, mask_mat(A0[1], A0[2], A0[3]), mask_mat(rr, cc, words),
                                                        lp, ' '.join(P), lq, ' '.join(Q), r)
        if op in ('solve_left', 'pluq_solve_left'):
            A0, B0 = args[0], args[1]
            ret = int(res[2])
            rr, cc, words, _ = mat_tokens(res, 3)
            return '%s.chk check_solve %s %s %s %d %s' % (cid, mask_mat(A0[1], A0[2], A0[3]), mask_mat(B0[1], B0[2], B0[3]),
                                                       mask_mat(rr, cc, words), ret, args[3][1])
        if op == 'kernel':
            if res[1] == 'null':
                return None
            A0 = args[0]
            rr, cc, words, _ = mat_tokens(res, 1)
            return '%s.chk check_kernel %s %s' % (cid, mask_mat(A0[1], A0[2], A0[3]), mask_mat(rr, cc, words))
    except Exception as e:
        return '%s.chk bad-checker-input %s' % (cid, type(e).__name__)
    return None


CANON_DROP_MAT = {'echelonize_m4ri', 'echelonize_m4ri_h', 'echelonize_pluq', 'echelonize'}


def canon_result(op, line, main):
    """reduce an implementation result to the canonical observables the model prints for this operation"""
    t = main.split()
    if t[:1] != ['ok']:
        return main
    try:
        if op in CANON_DROP_MAT:
            full = arg_mats(line)[1][1]
            if full == '0':
                return 'ok i %s' % t[2]
            return main
        if op == 'top_echelonize_m4ri':
            # the routine returns the number of pivots; the matrix is the RREF
            return main
        if op in ('ple', 'pluq', 'ple_russian', 'pluq_russian'):
            r = int(t[2])
            rr, cc, words, i = mat_tokens(t, 3)
            lp = int(t[i + 1]); i += 2 + lp
            lq = int(t[i + 1]); Q = t[i + 2:i + 2 + lq]
            if op.startswith('ple'):
                return 'ok i %d p %d %s' % (r, r, ' '.join(Q[:r])) if r else 'ok i 0 p 0'
            return 'ok i %d' % r
        if op == 'png_corrupt':
            # truncated / corrupted files: NULL, a decoded matrix, or termination through libpng's error handler
            # (abort) are all acceptable; crashes and sanitizer reports are not and keep their own fate word
            return 'ok' if (t[:1] == ['ok']) else main
        if op in ('solve_left', 'pluq_solve_left'):
            check = arg_mats(line)[3][1]
            return 'ok i %s' % (t[2] if check != '0' else '0')
        if op == 'kernel':
            if t[1] == 'null':
                return main
            return 'ok i %s i %s' % (t[2], t[3])
    except Exception:
        return main
    return main


def spec_view(op, main):
    """project an implementation/model result onto what the specification determines"""
    t = main.split()
    if op == 'find_pivot' and t[:1] == ['ok'] and len(t) >= 7 and t[2] == '1':
        return 'ok i 1 i %s' % t[6]     # found flag + column (the row is any row holding a one there)
    if op == 'djb' and t[:1] == ['ok'] and ' p ' in main:
        return main[:main.index(' p ')]   # the specification fixes the product, not the operation list
    return main


def correspond(build, lines, harness_args=(), env=None, canon=None, model_lines=None, spec_canon=None):
    """run harness and model on the same lines; three-way comparison impl / model / spec.
    Returns dict with:
      spec_viol : impl differs from the specification value (the property fails on the real code)
      stale     : impl agrees with the specification (or there is none) but differs from the model
      diag_bad  : frame / leak diagnostics of the harness"""
    t0 = time.time()
    hr = run_exe(build.exe, lines, harness_args, env)
    # a call that never returned: the watchdog of the harness printed "<id> hang" and left with status 77 -- carry on
    # behind that line (at most a few times; the hanging lines stay in the output as their fate)
    rest = lines
    for _ in range(8):
        if hr.returncode != 77:
            break
        m = re.findall(r'^(\S+) hang$', hr.stdout, re.M)
        if not m:
            break
        ids = [l.split(' ', 1)[0] for l in rest]
        if m[-1] not in ids:
            break
        rest = rest[ids.index(m[-1]) + 1:]
        h2 = run_exe(build.exe, rest, harness_args, env) if rest else None
        if h2 is None:
            hr = subprocess.CompletedProcess(hr.args, 0, hr.stdout, hr.stderr)
            break
        hr = subprocess.CompletedProcess(h2.args, h2.returncode, hr.stdout + h2.stdout, hr.stderr + h2.stderr)
    th = time.time() - t0
    t0 = time.time()
    mr = run_exe(MODEL_EXE, model_lines if model_lines is not None else lines)
    tm = time.time() - t0
    himpl = parse_results(hr.stdout)
    hmodel = parse_results(mr.stdout)
    byid0 = {l.split(' ', 1)[0]: l for l in lines}
    # second phase: outputs that the specification does not determine uniquely are judged by the Lean checkers
    chk_lines = []
    for cid, (main, _) in list(himpl.items()):
        if cid in byid0:
            cl = checker_line(cid, byid0[cid], main)
            if cl:
                chk_lines.append(cl)
            if cid + '.fact' in himpl:
                gl = glue_line(cid, byid0[cid], himpl[cid + '.fact'][0])
                if gl:
                    chk_lines.append(gl)
            if main.startswith('ok') and byid0[cid].split(' ', 2)[1] in EXACT_OPS:
                el = exact_line(cid, byid0[cid], build.cfg)
                if el:
                    chk_lines.append(el)
    hchk = {}
    if chk_lines:
        cr = run_exe(MODEL_EXE, chk_lines)
        hchk = parse_results(cr.stdout)
    spec_viol, stale, diag_bad = [], [], []
    ids = [l.split(' ', 2)[0] for l in lines if l and not l.startswith('#')]
    byid = {l.split(' ', 1)[0]: l for l in lines}
    nspec = 0
    for cid in ids:
        line = byid[cid]
        op = line.split(' ', 2)[1]
        im = himpl.get(cid)
        mo = hmodel.get(cid)
        sp = hmodel.get(cid + '.spec')
        iv = im[0] if im else '<no output>'
        mv = mo[0] if mo else '<no output>'
        raw_iv = iv
        if op == 'png_corrupt' and iv == 'signal-6':
            iv = 'ok'
        iv = canon_result(op, line, iv)
        ck = hchk.get(cid + '.chk')
        if ck is not None and ck[0].split()[:1] == ['ok'] and any(x == '0' for x in ck[0].split()[2::2]):
            spec_viol.append(dict(id=cid, line=line, impl=raw_iv, model=mv, spec='checker: ' + ck[0],
                                  kind='impl-output-rejected-by-checker'))
            continue
        if ck is not None and not ck[0].startswith('ok'):
            stale.append(dict(id=cid, line=line, impl=raw_iv, model=ck[0], spec=None, kind='checker-failed'))
            continue
        gk = hchk.get(cid + '.glue')
        glue_bad = gk is not None and gk[0] != raw_iv
        if canon:
            iv, mv = canon(op, iv), canon(op, mv)
        rec = dict(id=cid, line=line, impl=iv, model=mv, spec=sp[0] if sp else None)
        if sp is not None:
            nspec += 1
            sv = sp[0]
            if (spec_canon or spec_view)(op, iv) != (spec_canon or spec_view)(op, sv):
                rec['kind'] = 'impl-differs-from-spec'
                spec_viol.append(rec)
                continue
        if glue_bad:
            # the glue / configuration-dependent exact mirror, run on the library's own factorisation resp. with the
            # build's regime parameters, must reproduce the output word for word (the specification value, where there
            # is one, has been compared above: this is a stale mirror, not a wrong result)
            stale.append(dict(id=cid, line=line, impl=raw_iv, model=gk[0], spec=sp[0] if sp else None, kind='impl-differs-from-glue-model'))
            continue
        if iv != mv:
            rec['kind'] = 'impl-differs-from-model'
            stale.append(rec)
        d = im[1] if im else ''
        if d:
            kv = dict(x.split('=', 1) for x in d.split() if '=' in x)
            if kv.get('frame', '0') != '0':
                diag_bad.append(dict(id=cid, line=line, diag=d, kind='frame'))
            if kv.get('leak', '0') not in ('0', '-'):
                diag_bad.append(dict(id=cid, line=line, diag=d, kind='leak'))
    return dict(spec_viol=spec_viol, stale=stale, diag_bad=diag_bad, n=len(ids), nspec=nspec, nchecked=len(hchk),
                nglue=sum(1 for k in hchk if k.endswith('.glue')),
                harness_rc=hr.returncode, harness_stderr=hr.stderr[-4000:], model_rc=mr.returncode,
                model_stderr=mr.stderr[-2000:], t_harness=th, t_model=tm, impl=himpl, model=hmodel)


def write_replay(pid, payload):
    os.makedirs(REPLAYS, exist_ok=True)
    s = json.dumps(payload, indent=1, sort_keys=True)
    h = hashlib.sha1(s.encode()).hexdigest()[:12]
    p = os.path.join(REPLAYS, '%s-%s.json' % (pid, h))
    open(p, 'w').write(s)
    return p


def write_evidence(pid, ev):
    os.makedirs(EVIDENCE, exist_ok=True)
    p = os.path.join(EVIDENCE, '%s.json' % pid)
    open(p, 'w').write(json.dumps(ev, indent=1))
    return p


def load_known():
    p = os.path.join(VERIF, 'known_findings.json')
    if os.path.exists(p):
        return json.load(open(p))
    return {'findings': [], 'fixed': []}
