"""Shared machinery of the checks: Lean build + audit, correspondence runs, replay files, evidence."""
import fcntl, hashlib, json, os, re, subprocess, sys, tempfile, time

VERIF = os.path.dirname(os.path.dirname(os.path.abspath(__file__)))
LEAN = os.path.join(VERIF, 'lean')
MODEL_EXE = os.path.join(LEAN, '.lake', 'build', 'bin', 'm4ri_model')
REPLAYS = os.path.join(VERIF, 'replays')
EVIDENCE = os.path.join(VERIF, 'evidence')

AXIOMS_OK = {'propext', 'Classical.choice', 'Quot.sound'}
FORBIDDEN = re.compile(r'\b(sorry|admit|native_decide|bv_decide|implemented_by|unsafe|maxHeartbeats\s+0)\b|^\s*axiom\s', re.M)


class Lock:
    def __init__(self, name='lake'):
        self.path = os.path.join(LEAN, '.%s.lock' % name)
    def __enter__(self):
        self.f = open(self.path, 'w')
        fcntl.flock(self.f, fcntl.LOCK_EX)
        return self
    def __exit__(self, *a):
        fcntl.flock(self.f, fcntl.LOCK_UN)
        self.f.close()


def lake_build(targets, timeout=3600):
    """lake build the given targets under a lock; returns (ok, output)"""
    with Lock():
        r = subprocess.run(['lake', 'build'] + list(targets), cwd=LEAN, capture_output=True, text=True, timeout=timeout)
    return r.returncode == 0, (r.stdout + r.stderr)


def strip_comments(src):
    # remove /- ... -/ (nested not handled beyond one level) and -- line comments
    out = []
    i = 0
    depth = 0
    n = len(src)
    while i < n:
        if src.startswith('/-', i):
            depth += 1
            i += 2
        elif depth and src.startswith('-/', i):
            depth -= 1
            i += 2
        elif depth:
            i += 1
        elif src.startswith('--', i):
            j = src.find('\n', i)
            i = n if j < 0 else j
        else:
            out.append(src[i])
            i += 1
    return ''.join(out)


def grep_audit():
    """forbidden constructs in any .lean file of the package (comments stripped)"""
    hits = []
    for root, _, files in os.walk(LEAN):
        if '.lake' in root:
            continue
        for f in files:
            if f.endswith('.lean'):
                p = os.path.join(root, f)
                src = strip_comments(open(p).read())
                # string literals may mention words; drop them
                src2 = re.sub(r'"(\\.|[^"\\])*"', '""', src)
                for m in FORBIDDEN.finditer(src2):
                    hits.append('%s: %s' % (os.path.relpath(p, LEAN), m.group(0).strip()))
    return hits


def axioms_audit(theorems, imports):
    """#print axioms for each theorem; returns dict name -> list of axioms, or raises"""
    if not theorems:
        return {}
    src = ''.join('import %s\n' % i for i in imports) + ''.join('#print axioms %s\n' % t for t in theorems)
    with tempfile.NamedTemporaryFile('w', suffix='.lean', dir=LEAN, delete=False) as f:
        f.write(src)
        path = f.name
    try:
        r = subprocess.run(['lake', 'env', 'lean', path], cwd=LEAN, capture_output=True, text=True, timeout=1800)
    finally:
        os.unlink(path)
    out = r.stdout + r.stderr
    res = {}
    # "'name' depends on axioms: [a, b]" or "'name' does not depend on any axioms"
    for m in re.finditer(r"'([^']+)' depends on axioms: \[([^\]]*)\]", out, re.S):
        res[m.group(1)] = [a.strip() for a in m.group(2).replace('\n', ' ').split(',') if a.strip()]
    for m in re.finditer(r"'([^']+)' does not depend on any axioms", out):
        res[m.group(1)] = []
    missing = [t for t in theorems if t not in res]
    return res, missing, out


def parse_results(text):
    """id -> (main, diag)"""
    res = {}
    for line in text.splitlines():
        line = line.strip()
        if not line:
            continue
        sp = line.split(' ', 1)
        cid = sp[0]
        rest = sp[1] if len(sp) > 1 else ''
        if ' # ' in rest:
            main, diag = rest.split(' # ', 1)
        elif rest.endswith(' #'):
            main, diag = rest[:-2], ''
        else:
            main, diag = rest, ''
        if cid in res and res[cid][0].startswith('ok'):
            # a later fate line (signal) for the same id overrides nothing that completed
            continue
        res[cid] = (main.strip(), diag.strip())
    return res


def run_exe(exe, lines, args=(), env=None, timeout=3600):
    data = '\n'.join(lines) + '\n'
    e = dict(os.environ)
    if env:
        e.update(env)
    r = subprocess.run([exe] + list(args), input=data, capture_output=True, text=True, env=e, timeout=timeout)
    return r


def spec_view(op, main):
    """project an implementation/model result onto what the specification determines"""
    t = main.split()
    if op == 'find_pivot' and t[:1] == ['ok'] and len(t) >= 7 and t[2] == '1':
        return 'ok i 1 i %s' % t[6]     # found flag + column (the row is any row holding a one there)
    return main


def correspond(build, lines, harness_args=(), env=None, canon=None, model_lines=None, spec_canon=None):
    """run harness and model on the same lines; three-way comparison impl / model / spec.
    Returns dict with:
      spec_viol : impl differs from the specification value (the property fails on the real code)
      stale     : impl agrees with the specification (or there is none) but differs from the model
      diag_bad  : frame / leak diagnostics of the harness"""
    t0 = time.time()
    hr = run_exe(build.exe, lines, harness_args, env)
    th = time.time() - t0
    t0 = time.time()
    mr = run_exe(MODEL_EXE, model_lines if model_lines is not None else lines)
    tm = time.time() - t0
    himpl = parse_results(hr.stdout)
    hmodel = parse_results(mr.stdout)
    spec_viol, stale, diag_bad = [], [], []
    ids = [l.split(' ', 2)[0] for l in lines if l and not l.startswith('#')]
    byid = {l.split(' ', 1)[0]: l for l in lines}
    nspec = 0
    for cid in ids:
        line = byid[cid]
        op = line.split(' ', 2)[1]
        im = himpl.get(cid)
        mo = hmodel.get(cid)
        sp = hmodel.get(cid + '.spec')
        iv = im[0] if im else '<no output>'
        mv = mo[0] if mo else '<no output>'
        if canon:
            iv, mv = canon(op, iv), canon(op, mv)
        rec = dict(id=cid, line=line, impl=iv, model=mv, spec=sp[0] if sp else None)
        if sp is not None:
            nspec += 1
            sv = sp[0]
            if (spec_canon or spec_view)(op, iv) != (spec_canon or spec_view)(op, sv):
                rec['kind'] = 'impl-differs-from-spec'
                spec_viol.append(rec)
                continue
        if iv != mv:
            rec['kind'] = 'impl-differs-from-model'
            stale.append(rec)
        d = im[1] if im else ''
        if d:
            kv = dict(x.split('=', 1) for x in d.split() if '=' in x)
            if kv.get('frame', '0') != '0':
                diag_bad.append(dict(id=cid, line=line, diag=d, kind='frame'))
            if kv.get('leak', '0') not in ('0', '-'):
                diag_bad.append(dict(id=cid, line=line, diag=d, kind='leak'))
    return dict(spec_viol=spec_viol, stale=stale, diag_bad=diag_bad, n=len(ids), nspec=nspec,
                harness_rc=hr.returncode, harness_stderr=hr.stderr[-4000:], model_rc=mr.returncode,
                model_stderr=mr.stderr[-2000:], t_harness=th, t_model=tm, impl=himpl, model=hmodel)


def write_replay(pid, payload):
    os.makedirs(REPLAYS, exist_ok=True)
    s = json.dumps(payload, indent=1, sort_keys=True)
    h = hashlib.sha1(s.encode()).hexdigest()[:12]
    p = os.path.join(REPLAYS, '%s-%s.json' % (pid, h))
    open(p, 'w').write(s)
    return p


def write_evidence(pid, ev):
    os.makedirs(EVIDENCE, exist_ok=True)
    p = os.path.join(EVIDENCE, '%s.json' % pid)
    open(p, 'w').write(json.dumps(ev, indent=1))
    return p


def load_known():
    p = os.path.join(VERIF, 'known_findings.json')
    if os.path.exists(p):
        return json.load(open(p))
    return {'findings': [], 'fixed': []}
