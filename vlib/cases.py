"""Structured case generators for the correspondence runs. Every random choice comes from one
random.Random seeded by VERIF_SEED."""
import random

M64 = (1 << 64) - 1

def width(c):
    return (c + 63) // 64

class G:
    def __init__(self, seed):
        self.rng = random.Random(seed)
        self.lines = []
        self.meta = []   # (id, op, info dict)
        self.n = 0
        self.dist = {}
        self.force_window = False

    # ---------- matrices as python ints per row ----------
    def rows_random(self, r, c, density=0.5):
        rng = self.rng
        if density == 0.5:
            return [rng.getrandbits(c) if c else 0 for _ in range(r)]
        out = []
        for _ in range(r):
            v = 0
            # AND of k random words gives density 2^-k; OR for high densities
            k = max(1, round(-__import__('math').log2(max(density, 1e-9))))
            v = (1 << c) - 1
            for _ in range(k):
                v &= rng.getrandbits(c) if c else 0
            out.append(v)
        return out

    def rows_kind(self, r, c, kind=None):
        rng = self.rng
        if kind is None:
            kind = rng.choice(['dense', 'dense', 'sparse', 'zero', 'ones', 'identity', 'single', 'lowrank'])
        if kind == 'dense':
            return self.rows_random(r, c)
        if kind == 'sparse':
            return self.rows_random(r, c, 2.0 ** -rng.randint(2, 6))
        if kind == 'zero':
            return [0] * r
        if kind == 'ones':
            return [(1 << c) - 1] * r
        if kind == 'identity':
            return [(1 << i) if i < c else 0 for i in range(r)]
        if kind == 'single':
            rows = [0] * r
            if r and c:
                rows[rng.randrange(r)] = 1 << rng.randrange(c)
            return rows
        if kind == 'lowrank':
            k = rng.randint(1, max(1, min(r, c, 5)))
            basis = [rng.getrandbits(c) for _ in range(k)]
            out = []
            for _ in range(r):
                v = 0
                sel = rng.getrandbits(k)
                for t in range(k):
                    if (sel >> t) & 1:
                        v ^= basis[t]
                out.append(v)
            return out
        raise ValueError(kind)

    def rank_profile_rows(self, r, c, rank=None, pivots=None):
        """rows of an r x c matrix with prescribed pivot columns (random combination of an echelon basis)."""
        rng = self.rng
        if pivots is None:
            if rank is None:
                rank = rng.randint(0, min(r, c))
            pivots = sorted(rng.sample(range(c), rank)) if rank else []
        basis = []
        for p in pivots:
            v = (1 << p) | ((rng.getrandbits(c) >> (p + 1)) << (p + 1) if p + 1 < c else 0)
            basis.append(v)
        k = len(basis)
        rows = []
        # make sure the row space is exactly span(basis): first k rows = invertible mix, rest random mixes
        for i in range(r):
            v = 0
            sel = rng.getrandbits(k) if k else 0
            if i < k:
                sel |= 1 << i
                sel &= (1 << (i + 1)) - 1   # lower-triangular mixing: invertible
            for t in range(k):
                if (sel >> t) & 1:
                    v ^= basis[t]
            rows.append(v)
        rng.shuffle(rows)
        return rows, pivots

    def invertible_rows(self, n):
        """random invertible n x n: L*U*P"""
        rng = self.rng
        L = [(1 << i) | (rng.getrandbits(i) if i else 0) for i in range(n)]
        U = [(1 << i) | ((rng.getrandbits(n) >> (i + 1)) << (i + 1) if i + 1 < n else 0) for i in range(n)]
        # rows of L*U
        out = []
        for i in range(n):
            v = 0
            a = L[i]
            j = 0
            while a:
                if a & 1:
                    v ^= U[j]
                a >>= 1
                j += 1
            out.append(v)
        how = rng.random()
        if how < 0.6 or n < 4:
            rng.shuffle(out)
        elif how < 0.8:
            # pivots far below the diagonal: rows rotated by a large offset (a tall zero-ish block on top of each column)
            k = rng.randint(n // 2, n - 1)
            out = out[k:] + out[:k]
        else:
            # [[0, I_a], [M, C]]: the first n-a columns have no pivot in the first a rows
            a = rng.randint(1, n - 1)
            Mm = self.invertible_rows(n - a) if n - a <= 400 else out[:n - a]
            if n - a > 400:
                Mm = [(1 << i) | (rng.getrandbits(i) if i else 0) for i in range(n - a)]
            top = [1 << (n - a + i) for i in range(a)]
            bot = [(Mm[i] & ((1 << (n - a)) - 1)) | (rng.getrandbits(a) << (n - a)) for i in range(n - a)]
            out = top + bot
        return out

    # ---------- tokens ----------
    def words_of(self, rows, c, excess=None):
        """per-row words; excess: None -> zero excess bits, 'rand' -> random excess bits, 'ones'"""
        w = width(c)
        out = []
        for v in rows:
            v &= (1 << c) - 1 if c else 0
            if excess and c % 64:
                hi = (1 << (64 * w)) - (1 << c)
                if excess == 'ones':
                    v |= hi
                else:
                    v |= self.rng.getrandbits(64 * w) & hi
            for j in range(w):
                out.append((v >> (64 * j)) & M64)
        return out

    def place(self, window=None):
        rng = self.rng
        if window is None:
            window = True if self.force_window else rng.random() < 0.5
        if not window:
            return 'o'
        return 'w%d.%d.%d.%d.%d' % (rng.randint(0, 3), rng.randint(0, 3), rng.randint(0, 2), rng.randint(0, 2),
                                    rng.getrandbits(32))

    def mat(self, r, c, rows=None, place=None, kind=None, excess='auto'):
        """token string for a matrix operand"""
        if rows is None:
            rows = self.rows_kind(r, c, kind)
        if place is None:
            place = self.place()
        if r == 0 or c == 0:
            place = 'o'
        if excess == 'auto':
            excess = None if place == 'o' else self.rng.choice(['rand', 'ones', None])
        ws = self.words_of(rows, c, excess)
        return 'm %d %d %s %s' % (r, c, place, ' '.join('%x' % x for x in ws)) if ws else 'm %d %d %s' % (r, c, place)

    def perm(self, length, n, kind=None):
        """LAPACK-style swap sequence of given length over 0..n-1: i <= P[i] < n"""
        rng = self.rng
        if kind is None:
            kind = rng.choice(['random', 'random', 'identity', 'single'])
        vals = list(range(length))
        if kind == 'random':
            vals = [rng.randint(i, n - 1) if i < n else i for i in range(length)]
        elif kind == 'single' and length and n:
            i = rng.randrange(min(length, n))
            vals[i] = rng.randint(i, n - 1)
        return 'p %d %s' % (length, ' '.join(map(str, vals))) if length else 'p 0'

    def add(self, op, argstr, **info):
        self.n += 1
        cid = 'c%d' % self.n
        self.lines.append('%s %s %s' % (cid, op, argstr))
        info['op'] = op
        self.meta.append((cid, info))
        self.dist[op] = self.dist.get(op, 0) + 1
        return cid

    # ---------- shapes ----------
    DIMS = [1, 2, 3, 7, 8, 9, 15, 16, 17, 31, 32, 33, 53, 54, 55, 63, 64, 65, 66, 100, 127, 128, 129, 130, 191, 192,
            193, 200, 255, 256, 257]

    def dim(self, lo=1, hi=257, small_bias=True):
        rng = self.rng
        cand = [d for d in self.DIMS if lo <= d <= hi]
        if rng.random() < 0.7 and cand:
            return rng.choice(cand)
        return rng.randint(lo, hi)
