/*
 * Allocator interposition for the harness. The whole link uses
 *   -Wl,--wrap=malloc,--wrap=calloc,--wrap=realloc,--wrap=free,--wrap=posix_memalign
 * so that allocation requests issued by libm4ri objects (and by the harness while `ip_inside` is set)
 * go through here: they are counted, optionally traced, optionally filled with junk, optionally made
 * to fail, and forwarded to the real allocator (which may be a sanitizer's).
 */
#ifndef INTERPOSE_H
#define INTERPOSE_H
#include <stdint.h>
#include <stdio.h>
#include <stdlib.h>
#include <string.h>
#include <errno.h>

void *__real_malloc(size_t);
void *__real_calloc(size_t, size_t);
void *__real_realloc(void *, size_t);
void __real_free(void *);
int __real_posix_memalign(void **, size_t, size_t);

#define real_malloc __real_malloc
#define real_realloc __real_realloc
#define real_free __real_free

static volatile int ip_inside = 0; /* 1 while library code (or operand set-up) runs */
static int ip_fill_mode = 0;       /* 0 none, 1 0x00, 2 0xFF, 3 0xA5, 4 PRNG */
static volatile int ip_armed = 0;   /* fault injection and request counting apply only while armed */
static long ip_fail_at = 0;        /* fail the n-th request made while inside (1-based); 0 = never */
static int ip_trace = 0;
static long ip_requests = 0; /* requests seen while inside */
static long ip_faults_fired = 0;
static uint64_t ip_prng = 0x243F6A8885A308D3ULL;

#define IP_TAB (1u << 16)
static struct { void *p; size_t n; long id; } ip_tab[IP_TAB];
static long ip_live = 0;
static long ip_next_id = 0;
/* per-operation event log (allocator-trace correspondence) */
static int ip_record = 0;
static long ip_ev_new[4096], ip_ev_freed[4096];
static int ip_n_new = 0, ip_n_freed = 0;
static long ip_double_free = 0;

static inline unsigned ip_hash(void *p) { return (unsigned)(((uintptr_t)p >> 4) * 2654435761u) & (IP_TAB - 1); }

static void ip_add(void *p, size_t n) {
  if (!p) return;
  unsigned h = ip_hash(p);
  for (unsigned k = 0; k < IP_TAB; k++) {
    unsigned idx = (h + k) & (IP_TAB - 1);
    if (ip_tab[idx].p == NULL || ip_tab[idx].p == (void *)1) {
      ip_tab[idx].p = p;
      ip_tab[idx].n = n;
      ip_tab[idx].id = ++ip_next_id;
      ip_live++;
      if (ip_record && ip_n_new < 4096) ip_ev_new[ip_n_new++] = ip_tab[idx].id;
      if (ip_trace) fprintf(stderr, "T alloc %ld %zu\n", ip_tab[idx].id, n);
      return;
    }
  }
}
/* returns 1 if p was a tracked allocation (and removes it) */
static int ip_del(void *p, size_t *n) {
  unsigned h = ip_hash(p);
  for (unsigned k = 0; k < IP_TAB; k++) {
    unsigned idx = (h + k) & (IP_TAB - 1);
    if (ip_tab[idx].p == NULL) return 0;
    if (ip_tab[idx].p == p) {
      if (n) *n = ip_tab[idx].n;
      if (ip_record && ip_n_freed < 4096) ip_ev_freed[ip_n_freed++] = ip_tab[idx].id;
      if (ip_trace) fprintf(stderr, "T free %ld\n", ip_tab[idx].id);
      ip_tab[idx].p = (void *)1;
      ip_live--;
      return 1;
    }
  }
  return 0;
}
static long ip_live_count(void) { return ip_live; }
/* the tracked allocation containing p: returns its event id (0 if none), size and base */
static long ip_find(const void *p, size_t *n, void **base) {
  for (unsigned idx = 0; idx < IP_TAB; idx++) {
    void *q = ip_tab[idx].p;
    if (q == NULL || q == (void *)1) continue;
    if ((const char *)p >= (const char *)q && (const char *)p < (const char *)q + (ip_tab[idx].n ? ip_tab[idx].n : 1)) {
      if (n) *n = ip_tab[idx].n;
      if (base) *base = q;
      return ip_tab[idx].id;
    }
  }
  return 0;
}

static void ip_fill(void *p, size_t n) {
  if (!p || !n) return;
  switch (ip_fill_mode) {
  case 1: memset(p, 0x00, n); break;
  case 2: memset(p, 0xFF, n); break;
  case 3: memset(p, 0xA5, n); break;
  case 4: {
    unsigned char *b = (unsigned char *)p;
    for (size_t i = 0; i < n; i++) {
      ip_prng ^= ip_prng << 13;
      ip_prng ^= ip_prng >> 7;
      ip_prng ^= ip_prng << 17;
      b[i] = (unsigned char)(ip_prng >> 32);
    }
    break;
  }
  default: break;
  }
}

static int ip_should_fail(void) {
  if (!ip_inside || !ip_armed) return 0;
  ip_requests++;
  if (ip_fail_at && ip_requests == ip_fail_at) {
    ip_faults_fired++;
    if (ip_trace) fprintf(stderr, "T fault %ld\n", ip_requests);
    return 1;
  }
  return 0;
}

void *__wrap_malloc(size_t n) {
  if (!ip_inside) return __real_malloc(n);
  if (ip_should_fail()) { errno = ENOMEM; return NULL; }
  void *p = __real_malloc(n);
  ip_fill(p, n);
  ip_add(p, n);
  return p;
}
void *__wrap_calloc(size_t a, size_t b) {
  if (!ip_inside) return __real_calloc(a, b);
  if (ip_should_fail()) { errno = ENOMEM; return NULL; }
  void *p = __real_calloc(a, b);
  ip_add(p, a * b);
  return p;
}
void *__wrap_realloc(void *q, size_t n) {
  if (!ip_inside) return __real_realloc(q, n);
  if (ip_should_fail()) { errno = ENOMEM; return NULL; }
  size_t old = 0;
  int tracked = q ? ip_del(q, &old) : 0;
  void *p = __real_realloc(q, n);
  if (p && n > old && tracked) ip_fill((char *)p + old, n - old);
  if (p) ip_add(p, n);
  else if (tracked) ip_add(q, old);
  return p;
}
int __wrap_posix_memalign(void **out, size_t al, size_t n) {
  if (!ip_inside) return __real_posix_memalign(out, al, n);
  if (ip_should_fail()) return ENOMEM;
  int r = __real_posix_memalign(out, al, n);
  if (r == 0) {
    ip_fill(*out, n);
    ip_add(*out, n);
  }
  return r;
}
void __wrap_free(void *p) {
  if (!p) return;
  size_t n = 0;
  if (ip_del(p, &n)) {
    if (ip_fill_mode) ip_fill(p, n); /* poison what is being released */
  }
  __real_free(p);
}
#endif
