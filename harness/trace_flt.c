// keep only the lackey data-access lines between marker stores.
//   argv[1] (hex) = address of MARK : region in which EVERY load/store is kept (as before);
//   optional argv[2..4] (hex) = address of MARKT, start and end of the .text section of the (statically linked, -no-pie) driver:
//   in a region delimited by stores to MARKT a data access is kept only if the instruction that made it (the last "I" line of
//   lackey) lies in [argv[3], argv[4]) — this drops what libc does on the library's behalf (the memset of a calloc'ed temporary)
//   for kernels that allocate their own temporaries inside the marked region.
#include <stdio.h>
#include <stdlib.h>
#include <string.h>
int main(int argc,char**argv){ unsigned long mark=strtoul(argv[1],0,16),markt=0,lo=0,hi=~0UL; char l[256]; int on=0, ok=1, tmode=0;
  if(argc>4){ markt=strtoul(argv[2],0,16); lo=strtoul(argv[3],0,16); hi=strtoul(argv[4],0,16); }
  while(fgets(l,sizeof l,stdin)){
    if(l[0]=='I'){ unsigned long a=strtoul(l+3,0,16); ok=(a>=lo&&a<hi); continue; }
    if(l[0]!=' ') continue; if(l[1]!='S'&&l[1]!='L'&&l[1]!='M') continue;
    unsigned long a=strtoul(l+3,0,16);
    if(a==mark||(markt&&a==markt)){ on=!on; tmode=(a==markt); fputs(on?"BEGIN\n":"END\n",stdout); continue;}
    if(on&&(ok||!tmode)) fputs(l,stdout);} return 0; }
