/*
 * Correspondence harness: executes operation lines (see lean/M4ri/Proto.lean) against the real
 * libm4ri objects rebuilt from /repo's working tree and prints canonical result lines.
 *
 *   corr [--fork] [--fill N] [--failat N] [--trace] < ops > results
 *
 * Matrix operands carry a placement token:
 *   o                       owned matrix (mzd_init), rows filled with the given words
 *   w<ro>.<wo>.<er>.<ew>.<seed>   window at row offset ro, word offset wo into a parent with er extra
 *                           rows below and ew extra words to the right; parent bits outside the view
 *                           are pseudo-random from seed; the view's words (incl. excess bits) are as given
 * After the call every parent allocation is compared with its snapshot outside the words of the
 * view ("frame"), const operands are compared completely ("const"), and the padding words of
 * owned operands (rowstride > width) are compared too.
 */
#define _GNU_SOURCE
#include <m4ri/m4ri.h>
#include <m4ri/djb.h>
#include <m4ri/io.h>
#include <setjmp.h>
#include <signal.h>
#include <stdio.h>
#include <stdlib.h>
#include <string.h>
#include <sys/stat.h>
#include <sys/wait.h>
#include <unistd.h>

#include "interpose.h"

#define MAXTOK (1 << 22)
#define MAXARG 80

typedef struct {
  int kind; /* 0 int, 1 word, 2 mat, 3 perm, 4 null, 5 alias */
  long long i;
  word w;
  mzd_t *M;      /* the operand handed to the library (window or owned) */
  mzd_t *parent; /* owning matrix (== M when owned) */
  mzd_t *mid;    /* intermediate window when the operand is a window of a window (else NULL) */
  word *snap;    /* snapshot of the parent's allocation */
  size_t snapwords;
  int ro, wo;
  int windowed;
  mzp_t *P;
  int alias;
  int is_output; /* set by the op handler */
} arg_t;

static char *linebuf;
static size_t linecap;
static char **tok;
static int ntok;
static arg_t args[MAXARG];
static int nargs;
static int opt_fork = 0;
static int opt_leakcheck = 0;

static jmp_buf die_jmp;
static int die_armed = 0;

/* linked with -Wl,--wrap=m4ri_die: calls from other library objects land here */
void __wrap_m4ri_die(const char *fmt, ...) {
  if (getenv("VERIF_DIE_MSG")) fprintf(stderr, "m4ri_die: %s", fmt);
  if (die_armed) longjmp(die_jmp, 1);
  fprintf(stderr, "m4ri_die outside armed region\n");
  abort();
}

static uint64_t xs_state;
static uint64_t xs_next(void) {
  uint64_t x = xs_state;
  x ^= x << 13;
  x ^= x >> 7;
  x ^= x << 17;
  xs_state = x;
  return x * 0x2545F4914F6CDD1DULL;
}

static void snapshot(arg_t *a) {
  mzd_t *Pm = a->parent;
  a->snapwords = (size_t)Pm->nrows * Pm->rowstride;
  a->snap = (word *)real_malloc(sizeof(word) * (a->snapwords ? a->snapwords : 1));
  if (a->snapwords) memcpy(a->snap, Pm->data, sizeof(word) * a->snapwords);
}

static int parse_args(int start) {
  nargs = 0;
  int i = start;
  while (i < ntok) {
    if (nargs >= MAXARG) return -1;
    arg_t *a = &args[nargs];
    memset(a, 0, sizeof(*a));
    char *t = tok[i];
    if (!strcmp(t, "null")) {
      a->kind = 4;
      i++;
    } else if (!strcmp(t, "m")) {
      if (i + 3 >= ntok) return -1;
      int r = atoi(tok[i + 1]), c = atoi(tok[i + 2]);
      char *place = tok[i + 3];
      int width = (c + 63) / 64;
      if (i + 4 + (long)r * width > ntok) return -1;
      a->kind = 2;
      if (place[0] == 'o') {
        a->M = mzd_init(r, c);
        a->parent = a->M;
        a->ro = 0;
        a->wo = 0;
      } else {
        int ro, wo, er, ew;
        unsigned long long seed;
        if (sscanf(place + 1, "%d.%d.%d.%d.%llu", &ro, &wo, &er, &ew, &seed) != 5) return -1;
        a->parent = mzd_init(ro + r + er, 64 * (wo + width + ew));
        xs_state = seed * 0x9E3779B97F4A7C15ULL + 0x1234567ULL;
        if (!xs_state) xs_state = 1;
        for (rci_t x = 0; x < a->parent->nrows; x++)
          for (wi_t y = 0; y < a->parent->width; y++) mzd_row(a->parent, x)[y] = xs_next();
        if (seed % 3 == 1 && r > 0 && (c % 64) != 0) {
          /* a view of a view: the intermediate window is wider inside the same last word (and one row taller when the
             parent has a row to spare); the operand is the same block of the parent, so the model line is unchanged */
          int d = 1 + (int)((seed >> 3) % (unsigned long long)(64 * width - c));
          a->mid = mzd_init_window(a->parent, ro, 64 * wo, ro + r + (er > 0 ? 1 : 0), 64 * wo + c + d);
          a->M = mzd_init_window(a->mid, 0, 0, r, c);
        } else
          a->M = mzd_init_window(a->parent, ro, 64 * wo, ro + r, 64 * wo + c);
        a->ro = ro;
        a->wo = wo;
        a->windowed = 1;
      }
      for (int x = 0; x < r; x++)
        for (int y = 0; y < width; y++)
          mzd_row(a->M, x)[y] = strtoull(tok[i + 4 + (long)x * width + y], NULL, 16);
      snapshot(a);
      i += 4 + r * width;
    } else if (!strcmp(t, "p")) {
      int len = atoi(tok[i + 1]);
      if (i + 2 + len > ntok) return -1;
      a->kind = 3;
      a->P = mzp_init(len);
      for (int k = 0; k < len; k++) a->P->values[k] = atoi(tok[i + 2 + k]);
      i += 2 + len;
    } else if (t[0] == '@') {
      a->kind = 5;
      a->alias = atoi(t + 1);
      i++;
    } else if (t[0] == 'x') {
      a->kind = 1;
      a->w = strtoull(t + 1, NULL, 16);
      i++;
    } else {
      a->kind = 0;
      a->i = atoll(t);
      i++;
    }
    nargs++;
  }
  return 0;
}

static mzd_t *AM(int k) {
  if (k >= nargs) return NULL;
  if (args[k].kind == 5) return args[args[k].alias].M;
  if (args[k].kind == 2) return args[k].M;
  return NULL;
}
static long long AI(int k) { return args[k].i; }
static word AW(int k) { return args[k].w; }
static mzp_t *AP(int k) { return args[k].P; }
static int ANULL(int k) { return args[k].kind == 4; }
static void OUT(int k) {
  if (args[k].kind == 5) k = args[k].alias;
  args[k].is_output = 1;
}

/* ---- output buffer ---- */
static char *obuf;
static size_t olen, ocap;
/* auxiliary output (the factorisation the library produced on a copy of the input): printed as line "<id>.fact" */
static char *abuf;
static size_t alen, acap;
static int to_aux;
static void oput(const char *s) {
  size_t n = strlen(s);
  if (to_aux) {
    if (alen + n + 1 > acap) {
      acap = (alen + n + 1) * 2;
      abuf = (char *)real_realloc(abuf, acap);
    }
    memcpy(abuf + alen, s, n + 1);
    alen += n;
    return;
  }
  if (olen + n + 1 > ocap) {
    ocap = (olen + n + 1) * 2;
    obuf = (char *)real_realloc(obuf, ocap);
  }
  memcpy(obuf + olen, s, n + 1);
  olen += n;
}
static void out_int(long long v) {
  char b[64];
  snprintf(b, sizeof b, " i %lld", v);
  oput(b);
}
static void out_word(word w) {
  char b[64];
  snprintf(b, sizeof b, " x%llx", (unsigned long long)w);
  oput(b);
}
static void out_mat(mzd_t const *M) {
  char b[64];
  if (!M) {
    oput(" null");
    return;
  }
  snprintf(b, sizeof b, " m %d %d", M->nrows, M->ncols);
  oput(b);
  for (rci_t x = 0; x < M->nrows; x++)
    for (wi_t y = 0; y < M->width; y++) {
      snprintf(b, sizeof b, " %llx", (unsigned long long)mzd_row_const(M, x)[y]);
      oput(b);
    }
}
static void out_perm(mzp_t const *P) {
  char b[64];
  snprintf(b, sizeof b, " p %d", P->length);
  oput(b);
  for (int k = 0; k < P->length; k++) {
    snprintf(b, sizeof b, " %d", P->values[k]);
    oput(b);
  }
}

/* frame / const checks; returns bit mask: 1 = frame violated, 2 = const operand changed */
static int check_frames(void) {
  int bad = 0;
  for (int k = 0; k < nargs; k++) {
    arg_t *a = &args[k];
    if (a->kind != 2) continue;
    mzd_t *Pm = a->parent;
    mzd_t *M = a->M;
    for (rci_t x = 0; x < Pm->nrows; x++)
      for (wi_t y = 0; y < Pm->rowstride; y++) {
        word now = Pm->data[(size_t)x * Pm->rowstride + y];
        word was = a->snap[(size_t)x * Pm->rowstride + y];
        if (now == was) continue;
        int inview = (x >= a->ro && x < a->ro + M->nrows && y >= a->wo && y < a->wo + M->width);
        if (!inview)
          bad |= 1;
        else if (!a->is_output)
          bad |= 2;
        else if (y == a->wo + M->width - 1 && ((now ^ was) & ~M->high_bitmask))
          bad |= 4; /* bits beyond the last column of an output view changed: they belong to the parent (or are padding) */
      }
  }
  return bad;
}

static void free_args(void) {
  for (int k = 0; k < nargs; k++) {
    arg_t *a = &args[k];
    if (a->kind == 2) {
      if (a->windowed) mzd_free(a->M);
      if (a->mid) mzd_free(a->mid);
      mzd_free(a->parent);
      real_free(a->snap);
    } else if (a->kind == 3)
      mzp_free(a->P);
  }
  nargs = 0;
}

#include "ops.inc"

static void run_line(char *line) {
  /* tokenise */
  ntok = 0;
  for (char *p = strtok(line, " \t\r\n"); p; p = strtok(NULL, " \t\r\n")) {
    if (ntok >= MAXTOK) break;
    tok[ntok++] = p;
  }
  if (ntok == 0 || tok[0][0] == '#') return;
  olen = 0;
  alen = 0;
  to_aux = 0;
  if (ocap == 0) {
    ocap = 1024;
    obuf = (char *)real_malloc(ocap);
  }
  obuf[0] = 0;
  if (ntok < 2) {
    printf("%s bad-line\n", tok[0]);
    return;
  }
  const char *id = tok[0], *op = tok[1];
  long live_before = ip_live_count();
  ip_inside = 1;
  int raw = !strcmp(op, "alloc_seq") || !strcmp(op, "jcf_read") || !strcmp(op, "from_str") || !strcmp(op, "png_hdr");
  if (!raw && parse_args(2) != 0) {
    ip_inside = 0;
    printf("%s bad-args\n", id);
    return;
  }
  long live_args = ip_live_count();
  int status;
  ip_requests = 0; /* fault positions count from the first request of the call itself */
  ip_armed = 1;
  die_armed = 1;
  if (setjmp(die_jmp) == 0) {
    status = dispatch(op);
  } else {
    status = 2; /* died */
  }
  die_armed = 0;
  ip_armed = 0;
  if (status == 1) {
    ip_inside = 0;
    printf("%s unknown-op\n", id);
    return;
  }
  if (status == 2) {
    int fr = check_frames();
    ip_inside = 0;
    printf("%s die # frame=%d req=%ld faults=%ld\n", id, fr, ip_requests, ip_faults_fired);
    return;
  }
  int fr = check_frames();
  free_args();
  if (alen) printf("%s.fact ok%s\n", id, abuf);
  if (opt_leakcheck) {
    /* with the block cache emptied, everything allocated since the line started must be gone */
    m4ri_mmc_cleanup();
    long live_end = ip_live_count();
    ip_inside = 0;
    printf("%s ok%s # frame=%d leak=%ld req=%ld faults=%ld\n", id, obuf, fr, live_end - live_before, ip_requests, ip_faults_fired);
  } else {
    ip_inside = 0;
    printf("%s ok%s # frame=%d req=%ld faults=%ld\n", id, obuf, fr, ip_requests, ip_faults_fired);
  }
  (void)live_args;
}

static char hang_id[64];
static void on_alarm(int sig) {
  (void)sig;
  char b[96];
  int n = snprintf(b, sizeof b, "%s hang\n", hang_id);
  fflush(stdout);
  if (write(1, b, n) < 0) {}
  _exit(77);
}

int main(int argc, char **argv) {
  for (int i = 1; i < argc; i++) {
    if (!strcmp(argv[i], "--fork"))
      opt_fork = 1;
    else if (!strcmp(argv[i], "--leakcheck"))
      opt_leakcheck = 1;
    else if (!strcmp(argv[i], "--fill") && i + 1 < argc)
      ip_fill_mode = atoi(argv[++i]);
    else if (!strcmp(argv[i], "--failat") && i + 1 < argc)
      ip_fail_at = atol(argv[++i]);
    else if (!strcmp(argv[i], "--trace"))
      ip_trace = 1;
  }
  tok = (char **)real_malloc(sizeof(char *) * MAXTOK);
#if __M4RI_ENABLE_MZD_CACHE
  { /* learn where the static header block lives: the first header handed out is slot 63 */
    mzd_t *h0 = mzd_init(0, 0);
    static_hdr_base = (char *)h0 - 63 * sizeof(mzd_t);
    mzd_free(h0);
  }
#endif
  ssize_t n;
  while ((n = getline(&linebuf, &linecap, stdin)) > 0) {
    if (!opt_fork) {
      /* watchdog: a call that does not return is reported as "<id> hang" and ends the process with status 77; the
         orchestrator restarts the harness behind that line */
      sscanf(linebuf, "%63s", hang_id);
      signal(SIGALRM, on_alarm);
      alarm(getenv("M4RIV_WATCHDOG") ? atoi(getenv("M4RIV_WATCHDOG")) : 300);
      run_line(linebuf);
      alarm(0);
      fflush(stdout);
    } else {
      /* run the line in a child; report its fate */
      char idbuf[64];
      sscanf(linebuf, "%63s", idbuf);
      fflush(stdout);
      pid_t pid = fork();
      if (pid == 0) {
        alarm(60);
        run_line(linebuf);
        fflush(stdout);
        _exit(0);
      }
      int st = 0;
      waitpid(pid, &st, 0);
      if (WIFSIGNALED(st)) {
        printf("%s signal-%d\n", idbuf, WTERMSIG(st));
      } else if (WEXITSTATUS(st) != 0) {
        printf("%s exit-%d\n", idbuf, WEXITSTATUS(st));
      }
      fflush(stdout);
    }
  }
  return 0;
}
