/*
 * Thread harness (C15 / C16): N jobs, each a seed-derived sequence of library calls on job-private matrices.
 * The jobs are first run sequentially (reference checksums), then concurrently in N pthreads; every thread's
 * checksum must equal the sequential one. Built with -fsanitize=thread for the race check.
 *   threads <nthreads> <seed> <iterations> [maxdim]
 * Output: one line "job <i> seq=<hex> par=<hex> <ok|MISMATCH>" per job and a final "result ok|FAIL".
 */
#define _GNU_SOURCE
#include <m4ri/m4ri.h>
#include <pthread.h>
#include <stdio.h>
#include <stdlib.h>
#include <string.h>

typedef struct {
  uint64_t seed;
  int iters;
  int maxdim;
  uint64_t sum;
} job_t;

static inline uint64_t nxt(uint64_t *s) {
  uint64_t x = *s;
  x ^= x << 13;
  x ^= x >> 7;
  x ^= x << 17;
  *s = x;
  return x * 0x2545F4914F6CDD1DULL;
}

static void fill(mzd_t *M, uint64_t *s, int sparse) {
  for (rci_t i = 0; i < M->nrows; i++) {
    word *r = mzd_row(M, i);
    for (wi_t j = 0; j < M->width; j++) {
      word w = nxt(s);
      if (sparse) w &= nxt(s) & nxt(s);
      if (j == M->width - 1) w &= M->high_bitmask;
      r[j] = w;
    }
  }
}

static uint64_t hash(mzd_t const *M, uint64_t h) {
  if (!M) return h * 1099511628211ULL + 7;
  h = (h ^ (uint64_t)M->nrows) * 1099511628211ULL;
  h = (h ^ (uint64_t)M->ncols) * 1099511628211ULL;
  for (rci_t i = 0; i < M->nrows; i++) {
    word const *r = mzd_row_const(M, i);
    for (wi_t j = 0; j < M->width; j++) {
      word w = r[j];
      if (j == M->width - 1) w &= M->high_bitmask;
      h = (h ^ w) * 1099511628211ULL;
    }
  }
  return h;
}

static int dim(uint64_t *s, int maxdim) {
  static const int pick[] = {1, 2, 17, 63, 64, 65, 100, 128, 129, 150, 200, 257};
  uint64_t x = nxt(s);
  int d = (x & 1) ? pick[(x >> 8) % 12] : 1 + (int)((x >> 8) % maxdim);
  return d > maxdim ? maxdim : d;
}

static void *run_job(void *arg) {
  job_t *j = (job_t *)arg;
  uint64_t s = j->seed * 0x9E3779B97F4A7C15ULL + 12345;
  uint64_t h = 1469598103934665603ULL;
  for (int it = 0; it < j->iters; it++) {
    int op = (int)(nxt(&s) % 10);
    int m = dim(&s, j->maxdim), l = dim(&s, j->maxdim), n = dim(&s, j->maxdim);
    switch (op) {
    case 0: { /* Strassen / M4RM product */
      mzd_t *A = mzd_init(m, l), *B = mzd_init(l, n);
      fill(A, &s, 0); fill(B, &s, 0);
      mzd_t *C = mzd_mul(NULL, A, B, 64);
      h = hash(C, h);
      mzd_addmul(C, A, B, 0);
      h = hash(C, h);
      mzd_free(A); mzd_free(B); mzd_free(C);
      break;
    }
    case 1: {
      mzd_t *A = mzd_init(m, l), *B = mzd_init(l, n);
      fill(A, &s, 0); fill(B, &s, 1);
      mzd_t *C = mzd_mul_m4rm(NULL, A, B, (int)(nxt(&s) % 9));
      h = hash(C, h);
      mzd_free(A); mzd_free(B); mzd_free(C);
      break;
    }
    case 2: { /* elimination */
      mzd_t *A = mzd_init(m, n);
      fill(A, &s, (int)(nxt(&s) & 1));
      rci_t r = mzd_echelonize_m4ri(A, 1, 0);
      h = hash(A, h ^ (uint64_t)r);
      mzd_free(A);
      break;
    }
    case 3: { /* factorisation */
      mzd_t *A = mzd_init(m, n);
      fill(A, &s, (int)(nxt(&s) & 1));
      mzp_t *P = mzp_init(m), *Q = mzp_init(n);
      rci_t r = (nxt(&s) & 1) ? mzd_ple(A, P, Q, 0) : mzd_pluq(A, P, Q, 0);
      h = hash(A, h ^ (uint64_t)r);
      for (int i = 0; i < P->length; i++) h = (h ^ (uint64_t)P->values[i]) * 1099511628211ULL;
      for (int i = 0; i < r; i++) h = (h ^ (uint64_t)Q->values[i]) * 1099511628211ULL;
      mzp_free(P); mzp_free(Q); mzd_free(A);
      break;
    }
    case 4: { /* solve */
      mzd_t *A = mzd_init(m, n);
      fill(A, &s, 0);
      int R = m > n ? m : n;
      mzd_t *B = mzd_init(R, 1 + (int)(nxt(&s) % 70));
      fill(B, &s, 0);
      int ret = mzd_solve_left(A, B, 0, 1);
      h = (h ^ (uint64_t)(ret + 2)) * 1099511628211ULL;
      if (ret == 0) h = hash(B, h);
      mzd_free(A); mzd_free(B);
      break;
    }
    case 5: { /* transpose */
      mzd_t *A = mzd_init(m, n);
      fill(A, &s, 0);
      mzd_t *T = mzd_transpose(NULL, A);
      h = hash(T, h);
      mzd_free(A); mzd_free(T);
      break;
    }
    case 6: { /* kernel */
      mzd_t *A = mzd_init(m, n);
      fill(A, &s, 1);
      mzd_t *K = mzd_kernel_left_pluq(A, 0);
      h = hash(K, h);
      if (K) mzd_free(K);
      mzd_free(A);
      break;
    }
    case 7: { /* allocation churn with windows */
      mzd_t *M[24];
      for (int k = 0; k < 24; k++) M[k] = mzd_init(1 + (int)(nxt(&s) % 5), 1 + (int)(nxt(&s) % 200));
      for (int k = 0; k < 24; k++) {
        mzd_t *W = mzd_init_window(M[k], 0, 0, M[k]->nrows, M[k]->ncols < 64 ? M[k]->ncols : 64);
        h = hash(W, h);
        mzd_free(W);
      }
      for (int k = 23; k >= 0; k -= 2) mzd_free(M[k]);
      for (int k = 22; k >= 0; k -= 2) mzd_free(M[k]);
      break;
    }
    case 8: { /* triangular solve + inversion */
      mzd_t *U = mzd_init(m, m), *B = mzd_init(m, n);
      fill(U, &s, 0); fill(B, &s, 0);
      for (int i = 0; i < m; i++) mzd_write_bit(U, i, i, 1);
      mzd_trsm_upper_left(U, B, 0);
      h = hash(B, h);
      mzd_free(U); mzd_free(B);
      break;
    }
    default: { /* echelonize via PLUQ + add */
      mzd_t *A = mzd_init(m, n), *B = mzd_init(m, n);
      fill(A, &s, 0); fill(B, &s, 0);
      mzd_add(A, A, B);
      rci_t r = mzd_echelonize_pluq(A, 1);
      h = hash(A, h ^ (uint64_t)r);
      mzd_free(A); mzd_free(B);
      break;
    }
    }
  }
  j->sum = h;
  return NULL;
}

int main(int argc, char **argv) {
  int nt = argc > 1 ? atoi(argv[1]) : 4;
  uint64_t seed = argc > 2 ? strtoull(argv[2], NULL, 10) : 1;
  int iters = argc > 3 ? atoi(argv[3]) : 20;
  int maxdim = argc > 4 ? atoi(argv[4]) : 150;
  job_t *seq = calloc(nt, sizeof(job_t)), *par = calloc(nt, sizeof(job_t));
  pthread_t *th = calloc(nt, sizeof(pthread_t));
  for (int i = 0; i < nt; i++) {
    seq[i].seed = par[i].seed = seed * 1000 + i;
    seq[i].iters = par[i].iters = iters;
    seq[i].maxdim = par[i].maxdim = maxdim;
    run_job(&seq[i]);
  }
  for (int i = 0; i < nt; i++) pthread_create(&th[i], NULL, run_job, &par[i]);
  for (int i = 0; i < nt; i++) pthread_join(th[i], NULL);
  int bad = 0;
  for (int i = 0; i < nt; i++) {
    int ok = seq[i].sum == par[i].sum;
    if (!ok) bad++;
    printf("job %d seq=%llx par=%llx %s\n", i, (unsigned long long)seq[i].sum, (unsigned long long)par[i].sum, ok ? "ok" : "MISMATCH");
  }
  printf("result %s\n", bad ? "FAIL" : "ok");
  return bad ? 1 : 0;
}
