// trace driver: runs ONE primitive of the real m4ri code between two marker stores.
#include <m4ri/m4ri.h>
#include <m4ri/xor.h>
#include <m4ri/mmc.h>
#include <m4ri/ple_russian.h>
#include <m4ri/graycode.h>
#include <m4ri/triangular_russian.h>
#include <stdio.h>
#include <stdlib.h>
#include <string.h>
void _mzd_apply_p_right_even(mzd_t *A, mzp_t const *P, rci_t start_row, rci_t start_col, int notrans);  // mzp.c (not in mzp.h)
#include <assert.h>
// The transposition kernels of m4ri/mzd.c are `static inline`: tk_static.inc is the BYTE-IDENTICAL text of
// m4ri/mzd.c lines 262-967 (_mzd_copy_transpose_64x64 … _mzd_copy_transpose_small, incl. log2_ceil_table, transpose_mask,
// _mzd_transpose_Nxjx64) and lines 1080-1127 (split_round, _mzd_transpose_notsmall, _mzd_transpose), extracted by build.sh
// with sed, under the same names.  _mzd_transpose_base is an external symbol of obj/mzd.o and is NOT copied.
void _mzd_transpose_base(word *RESTRICT fwd, word const *RESTRICT fws, wi_t rowstride_dst, wi_t rowstride_src, rci_t nrows, rci_t ncols, rci_t maxsize);
#include "tk_static.inc"
/* non-static functions of triangular_russian.c that have no prototype in the headers */
void _mzd_trsm_upper_left_submatrix(mzd_t const *U, mzd_t *B, rci_t const start_row, int const k, word const mask_end);
void _mzd_trsm_lower_left_submatrix(mzd_t const *L, mzd_t *B, rci_t const start_row, int const k, word const mask_end);
void mzd_make_table_trtri(mzd_t const *M, rci_t r, rci_t c, int k, ple_table_t *Tb, rci_t startcol);
volatile unsigned long MARK;
volatile unsigned long MARKT;  // like MARK, but only accesses made by instructions of this executable are kept (see flt.c)
/* byte-identical copy of the body of the `static inline` function _mzd_trtri_upper_submatrix (triangular_russian.c:378-382) */
static inline void copy_mzd_trtri_upper_submatrix(mzd_t *A, rci_t pivot_r, rci_t elim_r, const int k) {
  for (rci_t i = pivot_r; i < pivot_r + k; i++)
    for (rci_t j = elim_r; j < i; j++)
      if (mzd_read_bit(A, j, i) && (i + 1) < A->ncols) mzd_row_add_offset(A, j, i, i + 1);
}
/* The russian TRSM routines allocate their 8 tables themselves (mzd_init = m4ri_mmc_malloc + memset).  The driver
   pre-allocates 8 blocks of exactly that size, declares them as operands 2..9, and gives them back to m4ri's block cache in
   order, so that the t-th mzd_init of the routine receives block t.  The call is bracketed by MARKT, so that the calloc
   stores (made by libc's memset) do not show up as table accesses.  (If the block cache did not hand the blocks back as
   planned the table accesses would be missing or attributed to the wrong operand and the comparison would fail; the driver
   also checks afterwards that the 8 blocks are the ones in the cache.) */
static word rnd64b(void) { word w = 0; for (int i = 0; i < 5; i++) w = (w << 13) ^ (word)rand(); return w; }
static mzd_t *parents[32]; static int np = 0;
static mzd_t *mk(int op, int nrows, int ncols, int phase) {
  mzd_t *P = mzd_init(nrows + 2, ncols + 64 * phase + 192);
  mzd_t *W = mzd_init_window(P, 1, 64 * phase, 1 + nrows, 64 * phase + ncols);
  parents[np++] = P;
  printf("OP %d data=%lx rowstride=%d nrows=%d ncols=%d lo=%lx hi=%lx\n", op, (unsigned long)W->data, W->rowstride,
         nrows, ncols, (unsigned long)P->data, (unsigned long)(P->data + (size_t)P->rowstride * P->nrows));
  return W;
}
static mzd_t *mkwhole(int op, int nrows, int ncols) {  // a non-windowed matrix straight from mzd_init (phase 0)
  mzd_t *P = mzd_init(nrows, ncols);
  parents[np++] = P;
  printf("OP %d data=%lx rowstride=%d nrows=%d ncols=%d lo=%lx hi=%lx\n", op, (unsigned long)P->data, P->rowstride,
         nrows, ncols, (unsigned long)P->data, (unsigned long)(P->data + (size_t)P->rowstride * P->nrows));
  return P;
}
static mzd_t *mkany(int op, int nrows, int ncols, int phase, int kind) { return kind ? mkwhole(op, nrows, ncols) : mk(op, nrows, ncols, phase); }
static void ksplit(int N, int k, int *ks) {  // the ka..kf of mzd_process_rowsN
  if (N == 2) { ks[0] = k / 2; ks[1] = k - k / 2; return; }
  int rem = k % N;
  for (int j = 0; j < N; j++) ks[j] = k / N + ((j + 1 < N && rem >= N - 1 - j) ? 1 : 0);
}
// a LAPACK-style permutation of `len` entries over `n` positions, printed as an X line.
// mode 0: identity; 1: random P[i] in [i, n); 2: sparse (about one entry in 8 moved); 3: only entries < 64 moved; 4: only entries >= 64 moved
static mzp_t *mkperm(int len, int n, int mode, int seed) {
  mzp_t *P = mzp_init(len); srand(seed);
  for (int i = 0; i < len; i++) {
    int v = i;
    if (i < n - 1) {
      int rnd = i + rand() % (n - i);
      if (mode == 1) v = rnd;
      else if (mode == 2 && rand() % 8 == 0) v = rnd;
      else if (mode == 3 && i < 64) v = i + rand() % (MIN(n, 64) - i);
      else if (mode == 4 && i >= 64) v = rnd;
    }
    if (i >= n) v = i % (n > 0 ? n : 1);
    P->values[i] = v;
  }
  printf("X"); for (int i = 0; i < len; i++) printf(" %d", P->values[i]); printf("\n");
  return P;
}

/* ---- part 3a: PLE kernels (ple_russian.c / ple_russian_template.h) ---- */
void mzd_make_table_ple(mzd_t const *A, rci_t r, rci_t writecol, int k, int knar, ple_table_t *table, rci_t *offsets,
                        int base, rci_t readcol, int fullrank);   /* not declared in ple_russian.h */
void _mzd_ple_a10(mzd_t *A, mzp_t const *P, rci_t const start_row, rci_t const start_col, wi_t const addblock, int const k, rci_t *pivots);
void _mzd_ple_a11_1(mzd_t *A, rci_t const start_row, rci_t const stop_row, rci_t const start_col, wi_t const addblock, int const k, ple_table_t const *T0);
#define DECLPLE(N) void _mzd_process_rows_ple_##N(mzd_t *M, rci_t startrow, rci_t stoprow, rci_t startcol, int const *k, const ple_table_t **T); \
  void _mzd_ple_a11_##N(mzd_t *A, rci_t const start_row, rci_t const stop_row, rci_t const start_col, wi_t const block, int const *k, ple_table_t const **table);
DECLPLE(2) DECLPLE(3) DECLPLE(4) DECLPLE(5) DECLPLE(6) DECLPLE(7) DECLPLE(8)
static unsigned long long rs_ = 88172645463325252ULL;
static unsigned long long rnd64(void) { rs_ ^= rs_ << 13; rs_ ^= rs_ >> 7; rs_ ^= rs_ << 17; return rs_; }
static void fill_random(mzd_t *M, int fill) {  /* fill 0: zero matrix; otherwise random bits (excess bits of the last word untouched) */
  if (!fill) return;
  for (int i = 0; i < M->nrows; i++) for (int j = 0; j < M->ncols; j++) if (rnd64() & 1) mzd_write_bit(M, i, j, 1);
}
/* a hand-made ple_table_t whose T is a window with the given phase: operand number op, nr rows, nc columns */
static ple_table_t *mk_table(int op, int nr, int nc, int phase, int kj, int fill) {
  ple_table_t *t = malloc(sizeof(ple_table_t));
  t->T = mk(op, nr, nc, phase);
  size_t n = (size_t)1 << kj;
  t->E = malloc(n * sizeof(rci_t)); t->M = malloc(n * sizeof(rci_t)); t->B = malloc((n > (size_t)nr ? n : (size_t)nr) * sizeof(word));
  for (size_t i = 0; i < n; i++) { t->E[i] = (rci_t)(rnd64() % nr); t->M[i] = (rci_t)(rnd64() % nr); }
  for (size_t i = 0; i < (n > (size_t)nr ? n : (size_t)nr); i++) t->B[i] = fill ? rnd64() : 0;
  return t;
}
#define A(i) atoi(argv[i])
static int run_case(int argc, char **argv) {
  const char *f = argv[1];
  np = 0;
  if (!strcmp(f, "rowadd")) {  // nrows ncols phase dst src coloffset
    mzd_t *M = mk(0, A(2), A(3), A(4));
    fflush(stdout); MARK = 1; mzd_row_add_offset(M, A(5), A(6), A(7)); MARK = 2;
  } else if (!strcmp(f, "cip")) {  // A: nrows ncols phase ; B: nrows ncols phase ; a_row a_sb b_row b_sb
    mzd_t *Am = mk(0, A(2), A(3), A(4)); mzd_t *B = mk(1, A(5), A(6), A(7));
    fflush(stdout); MARK = 1; mzd_combine_even_in_place(Am, A(8), A(9), B, A(10), A(11)); MARK = 2;
  } else if (!strcmp(f, "ce")) {  // C, A, B headers ; c_row c_sb a_row a_sb b_row b_sb
    mzd_t *C = mk(0, A(2), A(3), A(4)); mzd_t *Am = mk(1, A(5), A(6), A(7)); mzd_t *B = mk(2, A(8), A(9), A(10));
    fflush(stdout); MARK = 1; mzd_combine_even(C, A(11), A(12), Am, A(13), A(14), B, A(15), A(16)); MARK = 2;
  } else if (!strcmp(f, "comb")) {  // phase crow cblk trow tblk wide   (both operands 4 x 1024, same phase parity arranged by caller)
    mzd_t *C = mk(0, 4, 1024, A(2)); mzd_t *T = mk(1, 4, 1024, A(3));
    word *c = mzd_row(C, A(4)) + A(5); word const *t = mzd_row_const(T, A(6)) + A(7);
    fflush(stdout); MARK = 1; _mzd_combine(c, t, A(8)); MARK = 2;
  } else if (!strcmp(f, "combN")) {  // N phM phT mrow mblk tblk wide   (t[j] = row j of own matrix j+1, blk tblk)
    int N = A(2);
    mzd_t *M = mk(0, 4, 2048, A(3));
    word const *t[8];
    for (int j = 0; j < N; j++) { mzd_t *T = mk(j + 1, 4, 2048, A(4)); t[j] = mzd_row_const(T, j % 4) + A(7); }
    word *m = mzd_row(M, A(5)) + A(6);
    int wide = A(8);
    fflush(stdout); MARK = 1;
    switch (N) {
    case 2: _mzd_combine_2(m, t, wide); break;
    case 3: _mzd_combine_3(m, t, wide); break;
    case 4: _mzd_combine_4(m, t, wide); break;
    case 5: _mzd_combine_5(m, t, wide); break;
    case 6: _mzd_combine_6(m, t, wide); break;
    case 7: _mzd_combine_7(m, t, wide); break;
    case 8: _mzd_combine_8(m, t, wide); break;
    }
    MARK = 2;
  } else if (!strcmp(f, "rowswap")) {  // nrows ncols phase rowa rowb startblock
    mzd_t *M = mk(0, A(2), A(3), A(4));
    fflush(stdout); MARK = 1; _mzd_row_swap(M, A(5), A(6), A(7)); MARK = 2;
  } else if (!strcmp(f, "colswap")) {  // nrows ncols phase cola colb start stop
    mzd_t *M = mk(0, A(2), A(3), A(4));
    fflush(stdout); MARK = 1; mzd_col_swap_in_rows(M, A(5), A(6), A(7), A(8)); MARK = 2;
  } else if (!strcmp(f, "readbits")) {  // nrows ncols phase x y n
    mzd_t *M = mk(0, A(2), A(3), A(4));
    fflush(stdout); MARK = 1; volatile word w = mzd_read_bits(M, A(5), A(6), A(7)); MARK = 2; (void)w;
  } else if (!strcmp(f, "xorbits")) {
    mzd_t *M = mk(0, A(2), A(3), A(4));
    fflush(stdout); MARK = 1; mzd_xor_bits(M, A(5), A(6), A(7), 0x5555555555555555ULL); MARK = 2;
  } else if (!strcmp(f, "andbits")) {
    mzd_t *M = mk(0, A(2), A(3), A(4));
    fflush(stdout); MARK = 1; mzd_and_bits(M, A(5), A(6), A(7), 0x5555555555555555ULL); MARK = 2;
  } else if (!strcmp(f, "clearbits")) {
    mzd_t *M = mk(0, A(2), A(3), A(4));
    fflush(stdout); MARK = 1; mzd_clear_bits(M, A(5), A(6), A(7)); MARK = 2;
  } else if (!strcmp(f, "clearoff")) {  // nrows ncols phase row coloffset
    mzd_t *M = mk(0, A(2), A(3), A(4));
    fflush(stdout); MARK = 1; mzd_row_clear_offset(M, A(5), A(6)); MARK = 2;
  } else if (!strcmp(f, "copy")) {  // N: nrows ncols phase ; P: nrows ncols phase
    mzd_t *N = mk(0, A(2), A(3), A(4)); mzd_t *P = mk(1, A(5), A(6), A(7));
    fflush(stdout); MARK = 1; mzd_copy(N, P); MARK = 2;
  } else if (!strcmp(f, "copyrow")) {  // B hdr ; A hdr ; i j
    mzd_t *B = mk(0, A(2), A(3), A(4)); mzd_t *Am = mk(1, A(5), A(6), A(7));
    fflush(stdout); MARK = 1; mzd_copy_row(B, A(8), Am, A(9)); MARK = 2;
  } else if (!strcmp(f, "add")) {  // C hdr; A hdr; B hdr   (C != B)
    mzd_t *C = mk(0, A(2), A(3), A(4)); mzd_t *Am = mk(1, A(5), A(6), A(7)); mzd_t *B = mk(2, A(8), A(9), A(10));
    fflush(stdout); MARK = 1; _mzd_add(C, Am, B); MARK = 2;
  } else if (!strcmp(f, "submatrix")) {  // S hdr; M hdr; startrow startcol endrow endcol
    mzd_t *S = mk(0, A(2), A(3), A(4)); mzd_t *M = mk(1, A(5), A(6), A(7));
    fflush(stdout); MARK = 1; mzd_submatrix(S, M, A(8), A(9), A(10), A(11)); MARK = 2;
  } else if (!strcmp(f, "findpivot")) {  // nrows ncols phase start_row start_col   (zero matrix: maximal trace)
    mzd_t *M = mk(0, A(2), A(3), A(4)); rci_t r = 0, c = 0;
    fflush(stdout); MARK = 1; mzd_find_pivot(M, A(5), A(6), &r, &c); MARK = 2;
  } else if (!strcmp(f, "maketable")) {  // M hdr ; r c k    (T = (2^k) x ncols, phase 0)
    mzd_t *M = mk(0, A(2), A(3), A(4)); int k = A(7);
    mzd_t *T = mk(1, 1 << k, A(3), 0); rci_t *L = malloc(sizeof(rci_t) * (1 << k));
    printf("INC"); for (int i = 0; i < (1 << k); i++) printf(" %d", m4ri_codebook[k]->inc[i]); printf("\n");
    fflush(stdout); MARK = 1; mzd_make_table(M, A(5), A(6), k, T, L); MARK = 2;
  } else if (!strcmp(f, "processrows")) {  // M hdr ; startrow stoprow startcol k fill   (T = (2^k) x ncols; L = identity-ish)
    mzd_t *M = mk(0, A(2), A(3), A(4)); int k = A(8); int fill = A(9);
    mzd_t *T = mk(1, 1 << k, A(3), 0); rci_t *L = malloc(sizeof(rci_t) * (1 << k));
    for (int i = 0; i < (1 << k); i++) L[i] = i;
    if (fill) for (int i = 0; i < M->nrows; i++) if ((i * 7 + fill) % 3) mzd_write_bit(M, i, A(7), 1);
    printf("BITS"); for (int i = 0; i < M->nrows; i++) printf(" %d", (int)mzd_read_bits(M, i, A(7), k)); printf("\n");
    fflush(stdout); MARK = 1; mzd_process_rows(M, A(5), A(6), A(7), k, T, L); MARK = 2;
  } else if (!strcmp(f, "prowsN")) {  // N ; M hdr ; phT ; startrow stoprow startcol k fill
    int N = A(2); mzd_t *M = mk(0, A(3), A(4), A(5)); int phT = A(6); int k = A(10); int fill = A(11);
    int ks[6]; ksplit(N, k, ks);
    mzd_t *T[6]; rci_t *L[6];
    for (int j = 0; j < N; j++) {
      int nr = 1 << ks[j]; if (nr < 2) nr = 2;
      T[j] = mk(j + 1, nr, A(4), phT); L[j] = malloc(sizeof(rci_t) * ((size_t)1 << k));
      for (int i = 0; i < (1 << k); i++) L[j][i] = (i == 0) ? 0 : (i * (2 * j + 3) + j + fill) % nr;
    }
    srand(fill);
    if (fill) for (int i = 0; i < M->nrows; i++) if (fill == 1 || (rand() % 4)) for (int b = 0; b < k; b++) if ((rand() >> 3) & 1) mzd_write_bit(M, i, A(9) + b, 1);
    printf("X");
    for (int i = 0; i < M->nrows; i++) { word bits = mzd_read_bits(M, i, A(9), k);
      for (int j = 0; j < N; j++) { printf(" %d", (int)L[j][bits & __M4RI_LEFT_BITMASK(ks[j])]); bits >>= ks[j]; } }
    printf("\n");
    fflush(stdout); MARK = 1;
    switch (N) {
    case 2: mzd_process_rows2(M, A(7), A(8), A(9), k, T[0], L[0], T[1], L[1]); break;
    case 3: mzd_process_rows3(M, A(7), A(8), A(9), k, T[0], L[0], T[1], L[1], T[2], L[2]); break;
    case 4: mzd_process_rows4(M, A(7), A(8), A(9), k, T[0], L[0], T[1], L[1], T[2], L[2], T[3], L[3]); break;
    case 5: mzd_process_rows5(M, A(7), A(8), A(9), k, T[0], L[0], T[1], L[1], T[2], L[2], T[3], L[3], T[4], L[4]); break;
    case 6: mzd_process_rows6(M, A(7), A(8), A(9), k, T[0], L[0], T[1], L[1], T[2], L[2], T[3], L[3], T[4], L[4], T[5], L[5]); break;
    }
    MARK = 2;
    for (int j = 0; j < N; j++) free(L[j]);
  } else if (!strcmp(f, "applyleft")) {  // nrows ncols phase trans plen mode seed   (mode 0: identity, 1: random P[i] >= i, 2: sparse)
    mzd_t *M = mk(0, A(2), A(3), A(4)); int trans = A(5); mzp_t *P = mkperm(A(6), A(2), A(7), A(8));
    fflush(stdout); MARK = 1; if (trans) mzd_apply_p_left_trans(M, P); else mzd_apply_p_left(M, P); MARK = 2;
    mzp_free(P);
  } else if (!strcmp(f, "colswapfull")) {  // nrows ncols phase cola colb
    mzd_t *M = mk(0, A(2), A(3), A(4));
    fflush(stdout); MARK = 1; mzd_col_swap(M, A(5), A(6)); MARK = 2;
  } else if (!strcmp(f, "apright")) {  // nrows ncols phase start_row start_col notrans plen mode seed
    mzd_t *M = mk(0, A(2), A(3), A(4)); int start_row = A(5), start_col = A(6), notrans = A(7);
    printf("X %d\n", (int)__M4RI_CPU_L1_CACHE);
    mzp_t *P = mkperm(A(8), A(3), A(9), A(10));
    mzd_randomize(parents[0]);
    // the temporary B = mzd_init(step_size, A->ncols) of the routine: make the block cache hand out a block we know
    int step = MIN(M->nrows - start_row, MAX((__M4RI_CPU_L1_CACHE >> 3) / M->width, 1));
    word *bdata = NULL;
    if (step > 0) {
      m4ri_mmc_cleanup();
      mzd_t *B0 = mzd_init(step, M->ncols); bdata = B0->data;
      printf("OP 1 data=%lx rowstride=%d nrows=%d ncols=%d lo=%lx hi=%lx\n", (unsigned long)B0->data, B0->rowstride, step, M->ncols,
             (unsigned long)B0->data, (unsigned long)(B0->data + (size_t)B0->rowstride * step));
      mzd_free(B0);
    }
    fflush(stdout); MARKT = 1; _mzd_apply_p_right_even(M, P, start_row, start_col, notrans); MARKT = 2;
    if (step > 0) {  // check that the routine really used that block: it is back in the cache now
      mzd_t *B1 = mzd_init(step, M->ncols);
      if (B1->data != bdata) { printf("BCHK FAILED\n"); fprintf(stderr, "BCHK FAILED\n"); }
      mzd_free(B1);
    }
    mzp_free(P);
  } else if (!strcmp(f, "aprtri")) {  // nrows ncols phase mode seed     (P->length = ncols, P[i] >= i)
    mzd_t *M = mk(0, A(2), A(3), A(4));
    printf("X %d\n", (int)__M4RI_CPU_L1_CACHE);
    mzp_t *P = mkperm(A(3), A(3), A(5), A(6));
    fflush(stdout); MARK = 1; mzd_apply_p_right_trans_tri(M, P); MARK = 2;
    mzp_free(P);
  } else if (!strcmp(f, "compressl")) {  // nrows ncols phase r1 n1 r2
    mzd_t *M = mk(0, A(2), A(3), A(4));
    mzd_randomize(parents[0]);
    fflush(stdout); MARK = 1; _mzd_compress_l(M, A(5), A(6), A(7)); MARK = 2;
  } else if (!strcmp(f, "prple") || !strcmp(f, "a11")) {
    // prple N ; M hdr ; phT ; startrow stoprow startcol       fill tw ; k_0..k_{N-1}
    // a11   N ; A hdr ; phT ; start_row stop_row start_col block fill tw ; k_0..k_{N-1}     (N = 1: _mzd_ple_a11_1)
    int isa = !strcmp(f, "a11");
    int N = A(2); mzd_t *M = mk(0, A(3), A(4), A(5)); int phT = A(6);
    int r0 = A(7), r1 = A(8), sc = A(9); int block = isa ? A(10) : 0; int fill = A(10 + isa), tw = A(11 + isa);
    int ks[8], sh[8], ktot = 0; const ple_table_t *T[8];
    rs_ = 88172645463325252ULL + 977 * fill + 31 * sc + N;
    for (int j = 0; j < N; j++) { ks[j] = A(12 + isa + j); sh[j] = ktot; ktot += ks[j]; }
    for (int j = 0; j < N; j++) { int nr = 1 << ks[j]; if (nr < 2) nr = 2; T[j] = mk_table(j + 1, nr, A(4) + 64 * tw, phT, ks[j], fill); }
    fill_random(M, fill);
    printf("X");
    for (int i = 0; i < M->nrows; i++) { word bits = mzd_read_bits(M, i, sc, ktot);
      for (int j = 0; j < N; j++) { int x;
        if (isa) x = T[j]->M[(bits >> sh[j]) & __M4RI_LEFT_BITMASK(ks[j])];
        else { x = T[j]->E[(bits >> sh[j]) & __M4RI_LEFT_BITMASK(ks[j])]; bits ^= T[j]->B[x]; }
        printf(" %d", x); } }
    printf("\n");
    fflush(stdout); MARK = 1;
    if (!isa) switch (N) {
    case 2: _mzd_process_rows_ple_2(M, r0, r1, sc, ks, T); break;
    case 3: _mzd_process_rows_ple_3(M, r0, r1, sc, ks, T); break;
    case 4: _mzd_process_rows_ple_4(M, r0, r1, sc, ks, T); break;
    case 5: _mzd_process_rows_ple_5(M, r0, r1, sc, ks, T); break;
    case 6: _mzd_process_rows_ple_6(M, r0, r1, sc, ks, T); break;
    case 7: _mzd_process_rows_ple_7(M, r0, r1, sc, ks, T); break;
    case 8: _mzd_process_rows_ple_8(M, r0, r1, sc, ks, T); break;
    } else switch (N) {
    case 1: _mzd_ple_a11_1(M, r0, r1, sc, block, ks[0], T[0]); break;
    case 2: _mzd_ple_a11_2(M, r0, r1, sc, block, ks, T); break;
    case 3: _mzd_ple_a11_3(M, r0, r1, sc, block, ks, T); break;
    case 4: _mzd_ple_a11_4(M, r0, r1, sc, block, ks, T); break;
    case 5: _mzd_ple_a11_5(M, r0, r1, sc, block, ks, T); break;
    case 6: _mzd_ple_a11_6(M, r0, r1, sc, block, ks, T); break;
    case 7: _mzd_ple_a11_7(M, r0, r1, sc, block, ks, T); break;
    case 8: _mzd_ple_a11_8(M, r0, r1, sc, block, ks, T); break;
    }
    MARK = 2;
  } else if (!strcmp(f, "a10")) {  // A hdr ; start_row start_col addblock k fill ; argv[10..10+k) = pivots
    mzd_t *Am = mk(0, A(2), A(3), A(4)); int sr = A(5), sc = A(6), ab = A(7), k = A(8), fill = A(9);
    rs_ = 88172645463325252ULL + 977 * fill + 31 * sc + k;
    fill_random(Am, fill);
    mzp_t *P = mzp_init(Am->nrows); rci_t piv[64];
    for (int i = 0; i < k; i++) { piv[i] = A(10 + i); P->values[sr + i] = sr + i + (rci_t)(rnd64() % (Am->nrows - sr - i)); if (fill == 3) P->values[sr + i] = sr + i; }
    // replay on a copy to obtain the bit tests the run will make (a re-implementation used only to produce the X data)
    mzd_t *C = mzd_copy(NULL, Am);
    printf("X"); for (int i = 0; i < k; i++) printf(" %d", P->values[sr + i]); printf("\n");
    printf("X");
    if (ab != C->width) {
      for (int i = sr; i < sr + k; i++) _mzd_row_swap(C, i, P->values[i], ab);
      for (int i = 1; i < k; i++) { word tmp = mzd_read_bits(C, sr + i, sc, piv[i]);
        for (int j = 0; j < i; j++) { int bit = (int)((tmp >> piv[j]) & 1); printf(" %d", bit);
          if (bit) for (wi_t w = ab; w < C->width; w++) mzd_row(C, sr + i)[w] ^= mzd_row(C, sr + j)[w]; } }
    } else for (int i = 0; i < k * (k - 1) / 2; i++) printf(" 0");
    printf("\n");
    fflush(stdout); MARK = 1; _mzd_ple_a10(Am, P, sr, sc, ab, k, piv); MARK = 2;
    if (!mzd_equal(C, Am)) printf("A10-REPLAY-DIFFERS\n");
  } else if (!strcmp(f, "mtple")) {  // A hdr ; T hdr ; r writecol k knar readcol fullrank fill
    mzd_t *Am = mk(0, A(2), A(3), A(4)); int k = A(10), knar = A(11), fill = A(14);
    rs_ = 88172645463325252ULL + 977 * fill + 31 * A(9) + k;
    ple_table_t *t = mk_table(1, A(5), A(6), A(7), k, fill);
    fill_random(Am, fill);
    rci_t offsets[64]; int base = 3;   // strictly increasing, offsets[j] - base in [j, k)
    for (int j = 0; j < knar; j++) offsets[j] = base + j + ((j >= knar / 2) ? (k - knar) : 0);
    printf("X"); if (knar > 0) for (int i = 0; i < (1 << knar); i++) printf(" %d", m4ri_codebook[knar]->inc[i]); printf("\n");
    fflush(stdout); MARK = 1; mzd_make_table_ple(Am, A(8), A(9), k, knar, t, offsets, base, A(12), A(13)); MARK = 2;
  } else if (f[0] == 't' && f[1] == 'k' && f[2] == '_') {
    // raw-pointer transposition kernels: D hdr (nrows ncols phase) ; S hdr ; drow dblk srow sblk ; kernel specific …
    mzd_t *D = mk(0, A(2), A(3), A(4)); mzd_t *S = mk(1, A(5), A(6), A(7));
    word *d = mzd_row(D, A(8)) + A(9); word const *sp = mzd_row_const(S, A(10)) + A(11);
    wi_t rd_ = D->rowstride, rs_ = S->rowstride;
    fflush(stdout);
    if (!strcmp(f, "tk_64x64")) { MARK = 1; _mzd_copy_transpose_64x64(d, sp, rd_, rs_); MARK = 2; }
    else if (!strcmp(f, "tk_64x64_2")) {  // … drow2 dblk2 srow2 sblk2
      word *d2 = mzd_row(D, A(12)) + A(13); word const *s2 = mzd_row_const(S, A(14)) + A(15);
      MARK = 1; _mzd_copy_transpose_64x64_2(d, d2, sp, s2, rd_, rs_); MARK = 2; }
    else if (!strcmp(f, "tk_lt64x64")) { MARK = 1; _mzd_copy_transpose_lt64x64(d, sp, rd_, rs_, A(12)); MARK = 2; }
    else if (!strcmp(f, "tk_64xlt64")) { MARK = 1; _mzd_copy_transpose_64xlt64(d, sp, rd_, rs_, A(12)); MARK = 2; }
    else if (!strcmp(f, "tk_le8")) { MARK = 1; _mzd_copy_transpose_le8xle8(d, sp, rd_, rs_, A(12), A(13), A(14)); MARK = 2; }
    else if (!strcmp(f, "tk_le16")) { MARK = 1; _mzd_copy_transpose_le16xle16(d, sp, rd_, rs_, A(12), A(13), A(14)); MARK = 2; }
    else if (!strcmp(f, "tk_le32")) { MARK = 1; _mzd_copy_transpose_le32xle32(d, sp, rd_, rs_, A(12), A(13)); MARK = 2; }
    else if (!strcmp(f, "tk_le64")) { MARK = 1; _mzd_copy_transpose_le64xle64(d, sp, rd_, rs_, A(12), A(13)); MARK = 2; }
    else if (!strcmp(f, "tk_small")) { MARK = 1; _mzd_copy_transpose_small(d, sp, rd_, rs_, A(12), A(13), A(14)); MARK = 2; }
    else if (!strcmp(f, "tk_base")) { MARK = 1; _mzd_transpose_base(d, sp, rd_, rs_, A(12), A(13), A(14)); MARK = 2; }
    else if (!strcmp(f, "tk_notsmall")) { MARK = 1; _mzd_transpose_notsmall(d, sp, rd_, rs_, A(12), A(13), A(14)); MARK = 2; }
    else if (!strcmp(f, "tk_top")) { MARK = 1; _mzd_transpose(d, sp, rd_, rs_, A(12), A(13), A(14)); MARK = 2; }
    else { fprintf(stderr, "unknown %s\n", f); return 2; }
  } else if (!strcmp(f, "transpose")) {  // public entry: A hdr (nrows ncols phase) kindA ; phaseD kindD   (kind 0 = window by mk, 1 = whole matrix by mzd_init)
    // DST (operand 0) is A->ncols x A->nrows.  Temporaries allocated by mzd_transpose itself are not declared (not recorded).
    mzd_t *D = mkany(0, A(3), A(2), A(6), A(7)); mzd_t *Am = mkany(1, A(2), A(3), A(4), A(5));
    printf("X %d %d\n", mzd_is_dangerous_window(Am) ? 1 : 0, mzd_is_dangerous_window(D) ? 1 : 0);
    fflush(stdout); MARK = 1; mzd_transpose(D, Am); MARK = 2;
  } else if (!strcmp(f, "trsmsub")) {  // upper ; U: nrows ncols phase ; B: nrows ncols phase ; start_row k fill
    int upper = A(2); mzd_t *U = mk(0, A(3), A(4), A(5)); mzd_t *B = mk(1, A(6), A(7), A(8));
    int sr = A(9), k = A(10), fill = A(11);
    srand(fill * 7919 + k + 31 * sr);
    // fill: 0 = zero matrix, 1 = all ones, 2 = density 1/2, 3 = density 1/8, 4 = density 7/8
    // only the k x k block at (start_row, start_row) of U is looked at; the contents of B are irrelevant for the trace
    for (int i = sr; i < sr + k; i++) for (int j = sr; j < sr + k; j++) {
      int r = rand() % 8; int b = fill == 0 ? 0 : fill == 1 ? 1 : fill == 2 ? (r < 4) : fill == 3 ? (r < 1) : (r < 7);
      mzd_write_bit(U, i, j, b); }
    printf("X"); for (int i = 0; i < k; i++) for (int j = 0; j < k; j++) printf(" %d", (int)mzd_read_bit(U, sr + i, sr + j)); printf("\n");
    fflush(stdout); MARK = 1;
    if (upper) _mzd_trsm_upper_left_submatrix(U, B, sr, k, B->high_bitmask);
    else _mzd_trsm_lower_left_submatrix(U, B, sr, k, B->high_bitmask);
    MARK = 2;
  } else if (!strcmp(f, "mktrtri")) {  // M: nrows ncols phase ; T: nrows ncols phase ; r c k startcol
    mzd_t *M = mk(0, A(2), A(3), A(4)); mzd_t *T = mk(1, A(5), A(6), A(7)); int r = A(8), c = A(9), k = A(10), sc = A(11);
    ple_table_t Tb; Tb.T = T; Tb.E = malloc(sizeof(rci_t) << k); Tb.M = malloc(sizeof(rci_t) << k); Tb.B = malloc(sizeof(word) << k);
    printf("X"); for (int i = 0; i < (1 << k); i++) printf(" %d", m4ri_codebook[k]->inc[i]); printf("\n");
    fflush(stdout); MARK = 1; mzd_make_table_trtri(M, r, c, k, &Tb, sc); MARK = 2;
    free(Tb.E); free(Tb.M); free(Tb.B);
  } else if (!strcmp(f, "trsmrus")) {  // upper ; nU phU ; B: nrows ncols phase ; k fill      (U is nU x nU)
    int upper = A(2); mzd_t *U = mk(0, A(3), A(3), A(4)); mzd_t *B = mk(1, A(5), A(6), A(7)); int k = A(8), fill = A(9);
    srand(fill * 7919 + k + 31 * A(3));
    // fill: 0 = zero, 1 = all ones, 2 = random words, 3 = sparse (and of 3 random words), 4 = dense (or of 3)
    for (int i = 0; i < U->nrows; i++) for (int w = 0; w < U->width; w++) {
      word a = rnd64b(), b = rnd64b(), c = rnd64b();
      mzd_row(U, i)[w] = fill == 0 ? 0 : fill == 1 ? m4ri_ffff : fill == 2 ? a : fill == 3 ? (a & b & c) : (a | b | c); }
    m4ri_mmc_cleanup();
    mzd_t *P[8]; word *tdata[8]; int b_align = (__M4RI_ALIGNMENT(mzd_row(B, 0), 16) == 8);
    for (int t = 0; t < 8; t++) {
      P[t] = mzd_init(__M4RI_TWOPOW(k), B->ncols + m4ri_radix); tdata[t] = P[t]->data;
      printf("OP %d data=%lx rowstride=%d nrows=%d ncols=%d lo=%lx hi=%lx\n", 2 + t, (unsigned long)(P[t]->data + b_align),
             P[t]->rowstride, P[t]->nrows, B->ncols, (unsigned long)P[t]->data,
             (unsigned long)(P[t]->data + (size_t)P[t]->rowstride * P[t]->nrows)); }
    for (int t = 0; t < 8; t++) mzd_free(P[t]);
    printf("X");
    for (int q = 1; q <= k; q++) { for (int i = 0; i < (1 << q); i++) printf(" %d", m4ri_codebook[q]->inc[i]);
                                   for (int i = 0; i < (1 << q); i++) printf(" %d", m4ri_codebook[q]->ord[i]); }
    for (int i = 0; i < U->nrows; i++) for (int w = 0; w < U->width; w++) printf(" %lu", (unsigned long)mzd_row(U, i)[w]);   // the words of U
    printf("\n");
    fflush(stdout); MARKT = 1;
    if (upper) _mzd_trsm_upper_left_russian(U, B, k); else _mzd_trsm_lower_left_russian(U, B, k);
    MARKT = 2;
    { int found = 0;   // the routine has freed its tables: the block cache must now hold exactly our 8 blocks of that size
      for (int t = 0; t < 8; t++) P[t] = mzd_init(__M4RI_TWOPOW(k), B->ncols + m4ri_radix);
      for (int t = 0; t < 8; t++) for (int u = 0; u < 8; u++) if (P[t]->data == tdata[u]) found++;
      for (int t = 0; t < 8; t++) mzd_free(P[t]);
      if (found != 8) { printf("TCHK FAILED\n"); fprintf(stderr, "block cache check failed: %d of 8\n", found); } }
  } else if (!strcmp(f, "trtrisub")) {  // A: nrows ncols phase ; pivot_r elim_r k fill
    mzd_t *Am = mk(0, A(2), A(3), A(4)); int pr = A(5), er = A(6), k = A(7), fill = A(8);
    srand(fill * 7919 + k + 31 * pr);
    for (int i = (er < pr ? er : pr); i < pr + k; i++) for (int w = 0; w < Am->width; w++) {   // only these rows are looked at
      word a = rnd64b(), b = rnd64b(), c = rnd64b();
      mzd_row(Am, i)[w] = fill == 0 ? 0 : fill == 1 ? m4ri_ffff : fill == 2 ? a : fill == 3 ? (a & b & c) : (a | b | c); }
    // the bits are read from a matrix that the row additions modify: obtain them by running the same loop on a copy
    mzd_t *C = mzd_copy(NULL, Am);
    printf("X");
    for (rci_t i = pr; i < pr + k; i++) for (rci_t j = er; j < i; j++) {
      int b = mzd_read_bit(C, j, i); printf(" %d", b); if (b && (i + 1) < C->ncols) mzd_row_add_offset(C, j, i, i + 1); }
    printf("\n"); mzd_free(C);
    fflush(stdout); MARK = 1; copy_mzd_trtri_upper_submatrix(Am, pr, er, k); MARK = 2;
  } else { fprintf(stderr, "unknown %s\n", f); return 2; }
  return 0;
}
int main(int argc, char **argv) {
  printf("MARK %lx\n", (unsigned long)&MARK);
  FILE *fp = fopen(argv[1], "r"); char line[65536]; int idx = 0;
  while (fgets(line, sizeof line, fp)) {
    char *av[4096]; int ac = 1; av[0] = "drv";
    for (char *t = strtok(line, " \n"); t; t = strtok(NULL, " \n")) av[ac++] = t;
    if (ac < 2 || av[1][0] == '#') continue;
    printf("CASE %d\n", idx++);
    run_case(ac, av);
    fflush(stdout);
  }
  return 0;
}
